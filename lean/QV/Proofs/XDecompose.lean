/-
  QV.Proofs.XDecompose — the multi-controlled-X decomposition of qibo acts on every bit
  assignment as "flip the target iff all controls are 1" and gives every borrowed qubit
  back unchanged, whatever its value: ladder lemmas (V-shaped Toffoli chains) and the
  strong induction over the recursion of `X.decompose`.
-/
import QV.Model.XDecompose
import Mathlib.Data.List.Nodup
import Mathlib.Data.List.Perm.Basic
import Mathlib.Tactic.Tauto
import Mathlib.Tactic.Ring
set_option linter.unusedSimpArgs false
set_option linter.unusedVariables false
namespace QV

/-! ### running gate lists -/

@[simp] theorem runC_nil (b : Lab) : runC [] b = b := rfl
@[simp] theorem runC_cons (g : CGate) (gs : List CGate) (b : Lab) :
    runC (g :: gs) b = runC gs (g.apply b) := rfl
@[simp] theorem runC_append (gs hs : List CGate) (b : Lab) :
    runC (gs ++ hs) b = runC hs (runC gs b) := by simp [runC, List.foldl_append]

@[simp] theorem Lab.cset_same (b : Lab) (q : Nat) (v : Bool) : (b.set q v) q = v := by
  simp [Lab.set]

theorem Lab.cset_other (b : Lab) (q : Nat) (v : Bool) (r : Nat) (h : r ≠ q) :
    (b.set q v) r = b r := by simp [Lab.set, h]

/-- `g` acts classically as a Toffoli with controls `c0 c1` and target `t`. -/
def TofLike (g : CGate) (c0 c1 t : Nat) : Prop :=
  ∀ b : Lab, g.apply b = b.set t (xor (b t) (b c0 && b c1))

theorem and_min_max (b : Lab) (c0 c1 : Nat) : (b (min c0 c1) && b (max c0 c1)) = (b c0 && b c1) := by
  by_cases h : c0 ≤ c1
  · rw [Nat.min_eq_left h, Nat.max_eq_right h]
  · have h' : c1 ≤ c0 := by omega
    rw [Nat.min_eq_right h', Nat.max_eq_left h', Bool.and_comm]

theorem tofLike_toffoli (c0 c1 t : Nat) : TofLike (tof c0 c1 t) c0 c1 t := by
  intro b
  show b.set t (xor (b t) (b (min c0 c1) && b (max c0 c1))) = _
  rw [and_min_max]

theorem tofLike_congruent (ut : Bool) (c0 c1 t : Nat) : TofLike (congruent ut c0 c1 t) c0 c1 t := by
  intro b
  cases ut
  · show b.set t (xor (b t) (b (min c0 c1) && b (max c0 c1))) = _
    rw [and_min_max]
  · exact tofLike_toffoli c0 c1 t b

/-- conjunction of the bits at `c 0 … c (n-1)`. -/
def andUpTo (c : Nat → Nat) (n : Nat) (b : Lab) : Bool := (List.range n).all (fun i => b (c i))

theorem andUpTo_succ (c : Nat → Nat) (n : Nat) (b : Lab) :
    andUpTo c (n + 1) b = (andUpTo c n b && b (c n)) := by
  simp [andUpTo, List.range_succ, List.all_append]

theorem andUpTo_two (c : Nat → Nat) (b : Lab) : andUpTo c 2 b = (b (c 0) && b (c 1)) := by
  have h2 : List.range 2 = [0, 1] := rfl
  simp [andUpTo, h2]

theorem andUpTo_congr (c : Nat → Nat) (n : Nat) (b b' : Lab)
    (h : ∀ i, i < n → b (c i) = b' (c i)) : andUpTo c n b = andUpTo c n b' := by
  induction n with
  | zero => rfl
  | succ n ih =>
    rw [andUpTo_succ, andUpTo_succ, ih (fun i hi => h i (Nat.lt_succ_of_lt hi)), h n (Nat.lt_succ_self n)]

/-- what a V-shaped chain on the work qubits `a 0 … a k` with controls `c 0 … c (k+1)` does:
    `a j` is flipped iff `c 0 … c (j+1)` are all 1; nothing else changes. -/
def VProp (c a : Nat → Nat) (k : Nat) (V : List CGate) : Prop :=
  ∀ b : Lab,
    (∀ j, j ≤ k → runC V b (a j) = xor (b (a j)) (andUpTo c (j + 2) b)) ∧
    (∀ q, (∀ j, j ≤ k → q ≠ a j) → runC V b q = b q)

/-- one more rung: `g · V · g` with `g` a Toffoli from `(c (k+2), a k)` onto `a (k+1)`. -/
theorem sandwich (c a : Nat → Nat) (k : Nat) (V : List CGate) (g : CGate)
    (hV : VProp c a k V) (hg : TofLike g (c (k + 2)) (a k) (a (k + 1)))
    (ha : ∀ j, j ≤ k → a j ≠ a (k + 1))
    (hc : ∀ i, i ≤ k + 2 → c i ≠ a (k + 1))
    (hck : ∀ j, j ≤ k → c (k + 2) ≠ a j) :
    VProp c a (k + 1) (g :: (V ++ [g])) := by
  intro b
  obtain ⟨h1, h2⟩ := hV (g.apply b)
  have e1 : g.apply b = b.set (a (k + 1)) (xor (b (a (k + 1))) (b (c (k + 2)) && b (a k))) := hg b
  have run : runC (g :: (V ++ [g])) b = g.apply (runC V (g.apply b)) := by simp
  -- facts about b1 := g.apply b
  have b1_other : ∀ r, r ≠ a (k + 1) → g.apply b r = b r := by
    intro r hr; rw [e1]; exact Lab.cset_other _ _ _ _ hr
  have and_b1 : ∀ n, n ≤ k + 3 → andUpTo c n (g.apply b) = andUpTo c n b := by
    intro n hn
    apply andUpTo_congr
    intro i hi
    exact b1_other _ (hc i (by omega))
  -- facts about b2 := runC V b1
  have b2_top : runC V (g.apply b) (a (k + 1)) = xor (b (a (k + 1))) (b (c (k + 2)) && b (a k)) := by
    rw [h2 _ (fun j hj => (ha j hj).symm), e1, Lab.cset_same]
  have b2_ctl : runC V (g.apply b) (c (k + 2)) = b (c (k + 2)) := by
    rw [h2 _ (fun j hj => hck j hj), b1_other _ (hc _ (le_refl _))]
  have b2_ak : runC V (g.apply b) (a k) = xor (b (a k)) (andUpTo c (k + 2) b) := by
    rw [h1 k (le_refl _), b1_other _ (ha k (le_refl _)), and_b1 _ (by omega)]
  have e3 := hg (runC V (g.apply b))
  refine ⟨?_, ?_⟩
  · intro j hj
    rw [run, e3]
    by_cases hjk : j = k + 1
    · subst hjk
      rw [Lab.cset_same, b2_top, b2_ctl, b2_ak, andUpTo_succ c (k + 2) b]
      cases b (a (k + 1)) <;> cases b (c (k + 2)) <;> cases b (a k) <;> cases andUpTo c (k + 2) b <;> rfl
    · have hjk' : j ≤ k := by omega
      rw [Lab.cset_other _ _ _ _ (ha j hjk'), h1 j hjk', b1_other _ (ha j hjk'), and_b1 _ (by omega)]
  · intro q hq
    rw [run, e3, Lab.cset_other _ _ _ _ (hq (k + 1) (le_refl _)),
      h2 q (fun j hj => hq j (by omega)), b1_other _ (hq (k + 1) (le_refl _))]

/-- the V-shaped chain `G k, …, G 1, G 0, G 1, …, G k`. -/
def halfV (G : Nat → CGate) (k : Nat) : List CGate :=
  (List.range k).map (fun i => G (k - i)) ++ [G 0] ++ ((List.range k).map (fun i => G (k - i))).reverse

theorem halfV_zero (G : Nat → CGate) : halfV G 0 = [G 0] := rfl

theorem halfV_succ (G : Nat → CGate) (k : Nat) :
    halfV G (k + 1) = G (k + 1) :: (halfV G k ++ [G (k + 1)]) := by
  have h : (List.range (k + 1)).map (fun i => G (k + 1 - i))
      = G (k + 1) :: (List.range k).map (fun i => G (k - i)) := by
    rw [List.range_succ_eq_map, List.map_cons, List.map_map]
    congr 1
    apply List.map_congr_left
    intro i _
    simp [Nat.add_sub_add_right]
  unfold halfV
  rw [h]
  simp

/-- ladder lemma: the V-shaped chain of Toffoli-like gates has the V property. -/
theorem halfV_VProp (G : Nat → CGate) (c a : Nat → Nat) (K : Nat)
    (hG0 : TofLike (G 0) (c 0) (c 1) (a 0))
    (hG : ∀ j, j < K → TofLike (G (j + 1)) (c (j + 2)) (a j) (a (j + 1)))
    (ha : ∀ i j, i < j → j ≤ K → a i ≠ a j)
    (hca : ∀ i j, i ≤ K + 1 → j ≤ K → c i ≠ a j) :
    ∀ k, k ≤ K → VProp c a k (halfV G k) := by
  intro k
  induction k with
  | zero =>
    intro _ b
    rw [halfV_zero]
    have e := hG0 b
    refine ⟨?_, ?_⟩
    · intro j hj
      have : j = 0 := by omega
      subst this
      simp only [runC_cons, runC_nil]
      rw [e, Lab.cset_same, andUpTo_two]
    · intro q hq
      simp only [runC_cons, runC_nil]
      rw [e, Lab.cset_other _ _ _ _ (hq 0 (le_refl _))]
  | succ k ih =>
    intro hk
    rw [halfV_succ]
    exact sandwich c a k (halfV G k) (G (k + 1)) (ih (by omega)) (hG k (by omega))
      (fun j hj => ha j (k + 1) (by omega) hk)
      (fun i hi => hca i (k + 1) (by omega) hk)
      (fun j hj => hca (k + 2) j (by omega) (by omega))

/-- the doubled ladder `V_{k+1} · V_k` computes the AND of `c 0 … c (k+2)` onto `a (k+1)`
    and restores `a 0 … a k`, whatever their values. -/
theorem double_ladder (c a : Nat → Nat) (k : Nat) (V1 V0 : List CGate)
    (h1 : VProp c a (k + 1) V1) (h0 : VProp c a k V0)
    (ha : ∀ j, j ≤ k → a j ≠ a (k + 1))
    (hca : ∀ i j, i ≤ k + 2 → j ≤ k + 1 → c i ≠ a j) (b : Lab) :
    runC (V1 ++ V0) b = b.set (a (k + 1)) (xor (b (a (k + 1))) (andUpTo c (k + 3) b)) := by
  funext q
  rw [runC_append]
  obtain ⟨p1, p2⟩ := h1 b
  obtain ⟨r1, r2⟩ := h0 (runC V1 b)
  have ctl : ∀ n, n ≤ k + 3 → andUpTo c n (runC V1 b) = andUpTo c n b := by
    intro n hn
    apply andUpTo_congr
    intro i hi
    exact p2 _ (fun j hj => hca i j (by omega) hj)
  by_cases hq : ∃ j, j ≤ k + 1 ∧ q = a j
  · obtain ⟨j, hj, rfl⟩ := hq
    by_cases hjk : j = k + 1
    · subst hjk
      rw [r2 _ (fun j hj => (ha j hj).symm), p1 _ (le_refl _), Lab.cset_same]
    · have hj' : j ≤ k := by omega
      rw [r1 j hj', p1 j hj, ctl _ (by omega), Lab.cset_other _ _ _ _ (ha j hj')]
      cases b (a j) <;> cases andUpTo c (j + 2) b <;> rfl
  · have hq' : ∀ j, j ≤ k + 1 → q ≠ a j := fun j hj e => hq ⟨j, hj, e⟩
    rw [r2 q (fun j hj => hq' j (by omega)), p2 q hq', Lab.cset_other _ _ _ _ (hq' (k + 1) (le_refl _))]

/-! ### the ladder of the model -/

theorem getD_eq (l : List Nat) (i : Nat) (hi : i < l.length) : l.getD i 0 = l[i] := by
  simp [List.getD_eq_getElem?_getD, hi]

theorem all_eq_andUpTo (cs : List Nat) (b : Lab) :
    cs.all b = andUpTo (fun i => cs.getD i 0) cs.length b := by
  rw [Bool.eq_iff_iff]
  simp only [andUpTo, List.all_eq_true, List.mem_range]
  constructor
  · intro h i hi
    rw [getD_eq _ _ hi]
    exact h _ (List.getElem_mem hi)
  · intro h x hx
    obtain ⟨i, hi, rfl⟩ := List.getElem_of_mem hx
    have := h i hi
    rwa [getD_eq _ _ hi] at this

theorem getD_mem (l : List Nat) (i : Nat) (hi : i < l.length) : l.getD i 0 ∈ l := by
  rw [getD_eq _ _ hi]; exact List.getElem_mem hi

theorem getD_ne_of_nodup (l : List Nat) (hn : l.Nodup) (i j : Nat) (hij : i < j) (hj : j < l.length) :
    l.getD i 0 ≠ l.getD j 0 := by
  rw [getD_eq _ _ (by omega), getD_eq _ _ hj]
  intro e
  have := (List.Nodup.getElem_inj_iff hn).1 e
  omega

/-- the gates of the ladder branch, indexed from the bottom rung. -/
def ladderG (ut : Bool) (cs : List Nat) (t : Nat) (fs : List Nat) (k : Nat) (j : Nat) : CGate :=
  if j = 0 then congruent ut (cs.getD 0 0) (cs.getD 1 0) (fs.getD 0 0)
  else if j ≤ k then congruent ut (cs.getD (j + 1) 0) (fs.getD (j - 1) 0) (fs.getD j 0)
  else tof (cs.getD (j + 1) 0) (fs.getD (j - 1) 0) t

theorem ladderHalf_eq (ut : Bool) (cs : List Nat) (t : Nat) (fs : List Nat) (k : Nat)
    (hm : cs.length = k + 3) :
    ladderHalf ut cs t fs = ladderG ut cs t fs k (k + 1) :: halfV (ladderG ut cs t fs k) k := by
  have hg1 : (List.range (cs.length - 3)).map (fun i =>
        congruent ut (cs.getD (cs.length - 2 - i) 0) (fs.getD (cs.length - 4 - i) 0)
          (fs.getD (cs.length - 3 - i) 0))
      = (List.range k).map (fun i => ladderG ut cs t fs k (k - i)) := by
    rw [hm]
    simp only [Nat.add_sub_cancel]
    apply List.map_congr_left
    intro i hi
    have hi' : i < k := List.mem_range.1 hi
    have h0 : k - i ≠ 0 := by omega
    have h1 : k - i ≤ k := by omega
    simp only [ladderG, h0, h1, if_false, if_true]
    have e1 : k + 3 - 2 - i = k - i + 1 := by omega
    have e2 : k + 3 - 4 - i = k - i - 1 := by omega
    have e3 : k + 3 - 3 - i = k - i := by omega
    rw [e1, e2]
  unfold ladderHalf
  simp only [hg1]
  have hfirst : tof (cs.getD (cs.length - 1) 0) (fs.getD (cs.length - 3) 0) t
      = ladderG ut cs t fs k (k + 1) := by
    have h0 : k + 1 ≠ 0 := by omega
    have h1 : ¬ (k + 1 ≤ k) := by omega
    simp only [ladderG, h0, h1, if_false, hm]
    have e1 : k + 3 - 1 = k + 1 + 1 := by omega
    have e2 : k + 3 - 3 = k + 1 - 1 := by omega
    rw [e1, e2]
  have hg2 : congruent ut (cs.getD 0 0) (cs.getD 1 0) (fs.getD 0 0) = ladderG ut cs t fs k 0 := by
    simp [ladderG]
  rw [hfirst, hg2]
  simp [halfV]

/-- the doubled ladder of the model meets the specification. -/
theorem ladder_spec (ut : Bool) (cs : List Nat) (t : Nat) (fs : List Nat)
    (hm : 3 ≤ cs.length) (hf : cs.length - 2 ≤ fs.length)
    (hn : (cs ++ t :: fs).Nodup) (b : Lab) :
    runC (ladderHalf ut cs t fs ++ ladderHalf ut cs t fs) b = mcxSpec cs t b := by
  obtain ⟨k, hk⟩ : ∃ k, cs.length = k + 3 := ⟨cs.length - 3, by omega⟩
  have hfl : k + 1 ≤ fs.length := by omega
  rw [List.nodup_append] at hn
  obtain ⟨hcs, htfs, hdis⟩ := hn
  rw [List.nodup_cons] at htfs
  obtain ⟨htf, hfs⟩ := htfs
  have hdis' : ∀ x, x ∈ cs → ∀ y, y ∈ t :: fs → x ≠ y := by
    intro x hx y hy
    exact hdis x hx y hy
  set G := ladderG ut cs t fs k with hGdef
  set c : Nat → Nat := fun i => cs.getD i 0 with hc
  set a : Nat → Nat := fun j => if j ≤ k then fs.getD j 0 else t with ha
  have a_le : ∀ j, j ≤ k → a j = fs.getD j 0 := by intro j hj; simp [ha, hj]
  have a_top : a (k + 1) = t := by simp [ha]
  have a_mem : ∀ j, j ≤ k → a j ∈ fs := by
    intro j hj; rw [a_le j hj]; exact getD_mem fs j (by omega)
  have c_mem : ∀ i, i ≤ k + 2 → c i ∈ cs := by
    intro i hi; exact getD_mem cs i (by omega)
  have a_inj : ∀ i j, i < j → j ≤ k + 1 → a i ≠ a j := by
    intro i j hij hj
    by_cases hjk : j = k + 1
    · subst hjk
      rw [a_top]
      intro e
      exact htf (e ▸ a_mem i (by omega))
    · rw [a_le i (by omega), a_le j (by omega)]
      exact getD_ne_of_nodup fs hfs i j hij (by omega)
  have ca_ne : ∀ i j, i ≤ k + 2 → j ≤ k + 1 → c i ≠ a j := by
    intro i j hi hj
    apply hdis' _ (c_mem i hi)
    by_cases hjk : j = k + 1
    · subst hjk; rw [a_top]; exact List.mem_cons_self
    · exact List.mem_cons_of_mem _ (a_mem j (by omega))
  have hG0 : TofLike (G 0) (c 0) (c 1) (a 0) := by
    have : G 0 = congruent ut (cs.getD 0 0) (cs.getD 1 0) (fs.getD 0 0) := by simp [hGdef, ladderG]
    rw [this, a_le 0 (by omega)]
    exact tofLike_congruent ut _ _ _
  have hG : ∀ j, j < k + 1 → TofLike (G (j + 1)) (c (j + 2)) (a j) (a (j + 1)) := by
    intro j hj
    by_cases hjk : j + 1 ≤ k
    · have : G (j + 1) = congruent ut (cs.getD (j + 2) 0) (fs.getD j 0) (fs.getD (j + 1) 0) := by
        simp [hGdef, ladderG, hjk]
      rw [this, a_le j (by omega), a_le (j + 1) hjk]
      exact tofLike_congruent ut _ _ _
    · have hj' : j = k := by omega
      subst hj'
      have : G (j + 1) = tof (cs.getD (j + 2) 0) (fs.getD j 0) t := by
        simp [hGdef, ladderG]
      rw [this, a_le j (le_refl _), a_top]
      exact tofLike_toffoli _ _ _
  have hV := halfV_VProp G c a (k + 1) hG0 hG a_inj (fun i j hi hj => ca_ne i j (by omega) hj)
  have hV1 := hV (k + 1) (le_refl _)
  have hV0 := hV k (by omega)
  rw [ladderHalf_eq ut cs t fs k hk]
  have hsplit : (G (k + 1) :: halfV G k) ++ (G (k + 1) :: halfV G k) = halfV G (k + 1) ++ halfV G k := by
    rw [halfV_succ]; simp
  rw [hsplit, double_ladder c a k _ _ hV1 hV0 (fun j hj => a_inj j (k + 1) (by omega) (le_refl _)) ca_ne b]
  rw [a_top, mcxSpec, all_eq_andUpTo cs b, hk]

/-! ### base case and the splitting branch -/

theorem mcxSmall_spec (cs : List Nat) (t : Nat) (h : cs.length < 3) (b : Lab) :
    (mcxSmall cs t).apply b = mcxSpec cs t b := by
  match cs, h with
  | [], _ => simp [mcxSmall, CGate.apply, mcxSpec]
  | [c], _ => simp [mcxSmall, CGate.apply, mcxSpec]
  | [c0, c1], _ => simp [mcxSmall, tof, CGate.apply, mcxSpec, and_min_max]
  | _ :: _ :: _ :: _, h => simp at h; omega

theorem all_congr_of (l : List Nat) (b b' : Lab) (h : ∀ q, q ∈ l → b q = b' q) :
    l.all b = l.all b' := by
  induction l with
  | nil => rfl
  | cons x l ih =>
    simp only [List.all_cons]
    rw [h x List.mem_cons_self, ih (fun q hq => h q (List.mem_cons_of_mem _ hq))]

/-- the splitting branch: `(part1 · part2)²` where part1 computes AND(A) onto the borrowed
    qubit `f0` and part2 computes AND(B, f0) onto the target. -/
theorem split_spec (A B : List Nat) (t f0 : Nat) (p1 p2 : List CGate)
    (h1 : ∀ b, runC p1 b = mcxSpec A f0 b) (h2 : ∀ b, runC p2 b = mcxSpec (B ++ [f0]) t b)
    (hf0A : f0 ∉ A) (hf0B : f0 ∉ B) (htA : t ∉ A) (htB : t ∉ B) (hft : f0 ≠ t) (b : Lab) :
    runC ((p1 ++ p2) ++ (p1 ++ p2)) b = mcxSpec (A ++ B) t b := by
  simp only [runC_append, h1, h2]
  have allA : ∀ (x : Lab) (u v : Bool), A.all ((x.set f0 u).set t v) = A.all x := by
    intro x u v
    apply all_congr_of
    intro q hq
    rw [Lab.cset_other _ _ _ _ (ne_of_mem_of_not_mem hq htA), Lab.cset_other _ _ _ _ (ne_of_mem_of_not_mem hq hf0A)]
  have allA' : ∀ (x : Lab) (u : Bool), A.all (x.set t u) = A.all x := by
    intro x u
    apply all_congr_of
    intro q hq
    rw [Lab.cset_other _ _ _ _ (ne_of_mem_of_not_mem hq htA)]
  have allB : ∀ (x : Lab) (u : Bool), B.all (x.set f0 u) = B.all x := by
    intro x u
    apply all_congr_of
    intro q hq
    rw [Lab.cset_other _ _ _ _ (ne_of_mem_of_not_mem hq hf0B)]
  have allB' : ∀ (x : Lab) (u : Bool), B.all (x.set t u) = B.all x := by
    intro x u
    apply all_congr_of
    intro q hq
    rw [Lab.cset_other _ _ _ _ (ne_of_mem_of_not_mem hq htB)]
  have htf : t ≠ f0 := fun e => hft e.symm
  funext q
  simp only [mcxSpec, List.all_append, List.all_cons, List.all_nil, Bool.and_true]
  by_cases hqt : q = t
  · subst hqt
    simp only [Lab.cset_same, Lab.cset_other _ _ _ _ htf, Lab.cset_other _ _ _ _ hft, allA, allA', allB, allB']
    cases b q <;> cases b f0 <;> cases A.all b <;> cases B.all b <;> rfl
  · by_cases hqf : q = f0
    · subst hqf
      simp only [Lab.cset_same, Lab.cset_other _ _ _ _ hqt, Lab.cset_other _ _ _ _ hft, allA, allA', allB, allB']
      cases b q <;> cases A.all b <;> rfl
    · simp only [Lab.cset_other _ _ _ _ hqt, Lab.cset_other _ _ _ _ hqf]

theorem perm_call1 (A B fs' : List Nat) (t f0 : Nat) :
    (A ++ f0 :: (B ++ [t] ++ fs')).Perm (A ++ B ++ t :: f0 :: fs') := by
  rw [List.perm_iff_count]
  intro a
  simp only [List.count_append, List.count_cons, List.count_nil]
  omega

theorem perm_call2 (A B fs' : List Nat) (t f0 : Nat) :
    ((B ++ [f0]) ++ t :: (A ++ fs')).Perm (A ++ B ++ t :: f0 :: fs') := by
  rw [List.perm_iff_count]
  intro a
  simp only [List.count_append, List.count_cons, List.count_nil]
  omega

theorem insSorted_perm (x : Nat) (l : List Nat) : (insSorted x l).Perm (x :: l) := by
  induction l with
  | nil => exact List.Perm.refl _
  | cons y ys ih =>
    unfold insSorted
    split
    · exact List.Perm.refl _
    · exact ((List.Perm.cons y ih).trans (List.Perm.swap x y ys))

theorem srt_perm (l : List Nat) : (srt l).Perm l := by
  induction l with
  | nil => exact List.Perm.refl _
  | cons x xs ih =>
    show (insSorted x (srt xs)).Perm (x :: xs)
    exact (insSorted_perm x (srt xs)).trans (List.Perm.cons x ih)

theorem all_perm {l l' : List Nat} (h : l.Perm l') (b : Lab) : l.all b = l'.all b := by
  rw [Bool.eq_iff_iff]
  simp only [List.all_eq_true]
  exact ⟨fun H x hx => H x (h.mem_iff.2 hx), fun H x hx => H x (h.mem_iff.1 hx)⟩

theorem mcxSpec_srt (l : List Nat) (t : Nat) (b : Lab) : mcxSpec (srt l) t b = mcxSpec l t b := by
  unfold mcxSpec
  rw [all_perm (srt_perm l)]

theorem nodup_srt_append (l r : List Nat) : (srt l ++ r).Nodup ↔ (l ++ r).Nodup :=
  ((srt_perm l).append_right r).nodup_iff

theorem length_srt (l : List Nat) : (srt l).length = l.length := (srt_perm l).length_eq

theorem nodup_parts (cs : List Nat) (t f0 : Nat) (fs' : List Nat) (m1 : Nat)
    (hn : (cs ++ t :: f0 :: fs').Nodup) :
    (cs.take m1 ++ f0 :: (cs.drop m1 ++ [t] ++ fs')).Nodup ∧
    ((cs.drop m1 ++ [f0]) ++ t :: (cs.take m1 ++ fs')).Nodup ∧
    f0 ∉ cs.take m1 ∧ f0 ∉ cs.drop m1 ∧ t ∉ cs.take m1 ∧ t ∉ cs.drop m1 ∧ f0 ≠ t := by
  have hcs : cs.take m1 ++ cs.drop m1 = cs := List.take_append_drop m1 cs
  rw [← hcs] at hn
  refine ⟨(perm_call1 _ _ _ _ _).nodup_iff.2 hn, (perm_call2 _ _ _ _ _).nodup_iff.2 hn, ?_⟩
  simp only [List.nodup_append, List.nodup_cons, List.mem_append, List.mem_cons] at hn
  obtain ⟨⟨hA, hB, hAB⟩, ⟨htn, hfn, hfs⟩, hdis⟩ := hn
  refine ⟨?_, ?_, ?_, ?_, ?_⟩
  · intro h; exact hdis f0 (Or.inl h) f0 (Or.inr (Or.inl rfl)) rfl
  · intro h; exact hdis f0 (Or.inr h) f0 (Or.inr (Or.inl rfl)) rfl
  · intro h; exact hdis t (Or.inl h) t (Or.inl rfl) rfl
  · intro h; exact hdis t (Or.inr h) t (Or.inl rfl) rfl
  · intro e; exact htn (Or.inl e.symm)

/-- **main theorem** (all numbers of controls, all admissible free lists, both values of
    `use_toffolis` — classical action): whenever the model of `X.decompose` returns a gate
    list, running it maps every bit assignment `b` to `b[t := b t xor AND(controls)]`. -/
theorem xDecompose_spec (ut : Bool) : ∀ (fuel : Nat) (cs : List Nat) (t : Nat) (fs : List Nat)
    (gs : List CGate), (cs ++ t :: fs).Nodup → xDecompose ut fuel cs t fs = .ok gs →
    ∀ b, runC gs b = mcxSpec cs t b := by
  intro fuel
  induction fuel with
  | zero => intro cs t fs gs _ h; simp [xDecompose] at h
  | succ fuel ih =>
    intro cs t fs gs hn h b
    rw [xDecompose] at h
    dsimp only at h
    split_ifs at h with h12 hv hm hl hf
    · injection h with h; subst h
      simp [mcxSmall_spec cs t (by omega)]
    · injection h with h; subst h
      simp [mcxSmall_spec cs t hm]
    · injection h with h; subst h
      exact ladder_spec ut cs t fs (by omega) (by omega) hn b
    · obtain ⟨f0, fs', rfl⟩ : ∃ f0 fs', fs = f0 :: fs' := by
        cases fs with
        | nil => simp at hf
        | cons f0 fs' => exact ⟨f0, fs', rfl⟩
      simp only [List.getD_cons_zero, List.drop_one, List.tail_cons, List.length_cons] at h
      obtain ⟨n1, n2, hf0A, hf0B, htA, htB, hft⟩ := nodup_parts cs t f0 fs' ((cs.length + 1 + (fs'.length + 1)) / 2) hn
      cases h1 : xDecompose ut fuel (srt (List.take ((cs.length + 1 + (fs'.length + 1)) / 2) cs)) f0
          (List.drop ((cs.length + 1 + (fs'.length + 1)) / 2) cs ++ [t] ++ fs') with
      | ok p1 =>
        rw [h1] at h
        simp only at h
        cases h2 : xDecompose ut fuel (srt (List.drop ((cs.length + 1 + (fs'.length + 1)) / 2) cs ++ [f0])) t
            (List.take ((cs.length + 1 + (fs'.length + 1)) / 2) cs ++ fs') with
        | ok p2 =>
          rw [h2] at h
          simp only at h
          injection h with h; subst h
          have s1 := ih _ _ _ _ ((nodup_srt_append _ _).2 n1) h1
          have s2 := ih _ _ _ _ ((nodup_srt_append _ _).2 n2) h2
          simp only [mcxSpec_srt] at s1 s2
          have := split_spec _ _ t f0 p1 p2 s1 s2 hf0A hf0B htA htB hft b
          rwa [List.take_append_drop] at this
        | valueError => rw [h2] at h; simp at h
        | notImplemented => rw [h2] at h; simp at h
        | outOfFuel => rw [h2] at h; simp at h
      | valueError => rw [h1] at h; simp at h
      | notImplemented => rw [h1] at h; simp at h
      | outOfFuel => rw [h1] at h; simp at h

/-- the recursion of `X.decompose` terminates with a gate list (it never reaches the
    `NotImplementedError` / `ValueError` branches in a recursive call) as soon as the qubits
    are distinct and at least one free qubit is given when there are ≥ 3 controls. -/
theorem xDecompose_total (ut : Bool) : ∀ (fuel : Nat) (cs : List Nat) (t : Nat) (fs : List Nat),
    cs.length < fuel → (cs ++ t :: fs).Nodup → (cs.length < 3 ∨ fs ≠ []) →
    ∃ gs, xDecompose ut fuel cs t fs = .ok gs := by
  intro fuel
  induction fuel with
  | zero => intro cs t fs h; omega
  | succ fuel ih =>
    intro cs t fs hlen hn hfree
    have hv : (fs.any fun q => q == t || cs.contains q) = false := by
      rw [List.any_eq_false]
      intro q hq
      simp only [List.nodup_append, List.nodup_cons, List.mem_cons] at hn
      obtain ⟨_, ⟨htn, _⟩, hdis⟩ := hn
      simp only [Bool.or_eq_true, beq_iff_eq, List.contains_iff_mem, not_or]
      exact ⟨fun e => htn (e ▸ hq), fun hc => hdis q hc q (Or.inr hq) rfl⟩
    rw [xDecompose]
    dsimp only
    rw [hv]
    simp only [Bool.false_eq_true, if_false]
    split_ifs with h12 hm hl hf
    · exact ⟨_, rfl⟩
    · exact ⟨_, rfl⟩
    · exact ⟨_, rfl⟩
    · obtain ⟨f0, fs', rfl⟩ : ∃ f0 fs', fs = f0 :: fs' := by
        cases fs with
        | nil => simp at hf
        | cons f0 fs' => exact ⟨f0, fs', rfl⟩
      simp only [List.getD_cons_zero, List.drop_one, List.tail_cons, List.length_cons] at *
      obtain ⟨n1, n2, _⟩ := nodup_parts cs t f0 fs' ((cs.length + 1 + (fs'.length + 1)) / 2) hn
      obtain ⟨p1, h1⟩ := ih (srt (List.take ((cs.length + 1 + (fs'.length + 1)) / 2) cs)) f0
        (List.drop ((cs.length + 1 + (fs'.length + 1)) / 2) cs ++ [t] ++ fs')
        (by rw [length_srt, List.length_take]; omega) ((nodup_srt_append _ _).2 n1) (Or.inr (by simp))
      rw [h1]
      dsimp only
      have hA : (List.take ((cs.length + 1 + (fs'.length + 1)) / 2) cs) ≠ [] := by
        intro e
        have := congrArg List.length e
        rw [List.length_take] at this
        simp only [List.length_nil] at this
        omega
      obtain ⟨p2, h2⟩ := ih (srt (List.drop ((cs.length + 1 + (fs'.length + 1)) / 2) cs ++ [f0])) t
        (List.take ((cs.length + 1 + (fs'.length + 1)) / 2) cs ++ fs')
        (by rw [length_srt, List.length_append, List.length_drop]; simp only [List.length_cons, List.length_nil]; omega)
        ((nodup_srt_append _ _).2 n2) (Or.inr (by simp [hA]))
      rw [h2]
      exact ⟨_, rfl⟩
    · exfalso
      rcases hfree with h | h
      · omega
      · apply h
        cases fs with
        | nil => rfl
        | cons _ _ => simp at hf

end QV
