/-
  QV.Proofs.HamilKron — Kronecker chains of one-qubit matrices as products of one-qubit
  gates, and `SymbolicTerm.matrix` (QV/Model/Hamil.lean: `STerm.matrix`, `STerm.gate`).

  * `kron_chain`          : Σ_y (Π_{q ∈ ts} m_q[x_q, y_q]) ψ(y) = (Π_{q ∈ ts} gate(m_q, q)) ψ (x)
  * `localBit_idx`, `zipIdx_foldl_kron` : the `zipIdx`/`localBit` product of `STerm.matrix`
                            read at the local indices of two labels is that Kronecker entry
  * `wordApply_split`, `wordApply_regroup` : factors on different qubits commute, so a word
                            is the product over its (duplicate-free) qubits of the sub-words
                            on each qubit, same-qubit factors keeping their order
  * `wordApply_single`    : a word on one qubit is the gate of its ordered matrix product
  * `STerm.applyGate_gate`: the term's gate acts as the term's operator
-/
import QV.Proofs.Hamil

namespace QV

open Finset

variable {α : Type} [CommSemiring α]

/-! ### one-qubit gates -/

/-- the one-qubit gate with matrix `m` on qubit `q`. -/
def g1 (m : Nat → Nat → α) (q : Nat) : MGate α := { mat := m, targets := [q], controls := [] }

omit [CommSemiring α] in
theorem PSym.gate_eq_g1 (s : PSym α) : s.gate = g1 s.mat s.q := rfl

theorem applyGate_g1 (m : Nat → Nat → α) (q : Nat) (φ : Lab → α) (x : Lab) :
    applyGate (g1 m q) φ x
      = m (bit (x q)) 0 * φ (x.set q false) + m (bit (x q)) 1 * φ (x.set q true) := by
  simp [applyGate, g1, Lab.allOne, sumOver, Lab.idx, bit]

theorem g1_comm (A B : Nat → Nat → α) {a b : Nat} (h : a ≠ b) (ψ : Lab → α) :
    applyGate (g1 A a) (applyGate (g1 B b) ψ) = applyGate (g1 B b) (applyGate (g1 A a) ψ) := by
  apply applyGate_comm_of_disjoint (g1 A a) (g1 B b) (by simp [g1]) (by simp [g1])
  intro r hr
  simp only [g1, List.append_nil, List.mem_singleton] at hr ⊢
  omega

/-- product of one-qubit gates over a qubit list (first listed outermost). -/
def chainApply (m : Nat → Nat → Nat → α) (ts : List Nat) (ψ : Lab → α) : Lab → α :=
  ts.foldr (fun q φ => applyGate (g1 (m q) q) φ) ψ

/-- entry of the Kronecker product of `m q`, `q ∈ ts`, between two labels. -/
def kronEntry (m : Nat → Nat → Nat → α) (ts : List Nat) (x y : Lab) : α :=
  (ts.map (fun q => m q (bit (x q)) (bit (y q)))).prod

theorem kronEntry_congr_left (m : Nat → Nat → Nat → α) (ts : List Nat) {x x' : Lab} (y : Lab)
    (h : ∀ r ∈ ts, x r = x' r) : kronEntry m ts x y = kronEntry m ts x' y := by
  unfold kronEntry
  congr 1
  apply List.map_congr_left
  intro q hq
  rw [h q hq]

/-- **Kronecker chain = product of one-qubit gates**: summing the Kronecker entries
against a state over all assignments of a duplicate-free qubit list applies, qubit by
qubit, the one-qubit gates. -/
theorem kron_chain (m : Nat → Nat → Nat → α) (ts : List Nat) (hn : ts.Nodup) (ψ : Lab → α)
    (x : Lab) :
    sumOver ts (fun y => kronEntry m ts x y * ψ y) x = chainApply m ts ψ x := by
  induction ts generalizing x with
  | nil => simp [kronEntry, chainApply]
  | cons q qs ih =>
    have hq : q ∉ qs := (List.nodup_cons.mp hn).1
    have hn' : qs.Nodup := (List.nodup_cons.mp hn).2
    have key : ∀ b : Bool,
        sumOver qs (fun y => kronEntry m (q :: qs) x y * ψ y) (x.set q b)
          = m q (bit (x q)) (bit b) * chainApply m qs ψ (x.set q b) := by
      intro b
      rw [← ih hn' (x.set q b), ← sumOver_mul_left]
      apply sumOver_congr
      intro y hy
      have hyq : y q = b := by rw [hy q hq]; simp
      have e : kronEntry m qs x y = kronEntry m qs (x.set q b) y :=
        kronEntry_congr_left m qs y fun r hr =>
          (Lab.set_other x b (fun e => hq (by rw [← e]; exact hr))).symm
      simp only [kronEntry, List.map_cons, List.prod_cons] at e ⊢
      rw [hyq, e, mul_assoc]
    rw [sumOver_cons, key, key]
    show _ = applyGate (g1 (m q) q) (chainApply m qs ψ) x
    rw [applyGate_g1]
    simp [bit]

/-! ### the local indices of `STerm.matrix` -/

theorem idx_append (ps qs : List Nat) (x : Lab) :
    Lab.idx (ps ++ qs) x = Lab.idx ps x * 2 ^ qs.length + Lab.idx qs x := by
  show (ps ++ qs).foldl _ 0 = _
  rw [List.foldl_append, Lab.idx_foldl]
  rfl

/-- bit `|pre|` (from the most significant) of the local index of `x` on `pre ++ q :: post`
is the bit of `q`. -/
theorem localBit_idx (pre post : List Nat) (q : Nat) (x : Lab) :
    localBit (pre ++ q :: post).length pre.length (Lab.idx (pre ++ q :: post) x) = bit (x q) := by
  unfold localBit
  rw [idx_append, Lab.idx_cons, Nat.shiftRight_eq_div_pow]
  have hl : (pre ++ q :: post).length - 1 - pre.length = post.length := by
    simp only [List.length_append, List.length_cons]; omega
  rw [hl, List.length_cons, pow_succ]
  have hlt := Lab.idx_lt post x
  generalize Lab.idx post x = r at hlt
  generalize Lab.idx pre x = A
  generalize 2 ^ post.length = P at hlt
  have e : A * (P * 2) + ((if x q = true then 1 else 0) * P + r)
      = r + (2 * A + (if x q = true then 1 else 0)) * P := by ring
  rw [e, Nat.add_mul_div_right _ _ (by omega : 0 < P), Nat.div_eq_of_lt hlt]
  cases x q <;> simp [bit]

theorem zipIdx_foldl_kron (m : Nat → Nat → Nat → α) (x y : Lab) (ts : List Nat) :
    ∀ (l pre : List Nat) (acc : α), ts = pre ++ l →
      (l.zipIdx pre.length).foldl (fun acc (qp : Nat × Nat) =>
          acc * m qp.1 (localBit ts.length qp.2 (Lab.idx ts x)) (localBit ts.length qp.2 (Lab.idx ts y))) acc
        = acc * kronEntry m l x y := by
  intro l
  induction l with
  | nil => intro pre acc _; simp [kronEntry]
  | cons q l ih =>
    intro pre acc hts
    rw [List.zipIdx_cons, List.foldl_cons]
    have h2 : ts = (pre ++ [q]) ++ l := by rw [hts]; simp
    have h3 : pre.length + 1 = (pre ++ [q]).length := by simp
    rw [h3, ih (pre ++ [q]) _ h2]
    simp only [kronEntry, List.map_cons, List.prod_cons]
    subst hts
    rw [localBit_idx, localBit_idx, mul_assoc]

/-- **entries of `SymbolicTerm.matrix`** at the local indices of two labels. -/
theorem STerm.matrix_idx (t : STerm α) (x y : Lab) :
    t.matrix (Lab.idx t.targets x) (Lab.idx t.targets y)
      = t.coef * kronEntry (fun q => t.qubitMatrix q) t.targets x y := by
  unfold STerm.matrix
  simp only
  have := zipIdx_foldl_kron (fun q => t.qubitMatrix q) x y t.targets t.targets [] 1 (by simp)
  simp only [List.length_nil, one_mul] at this
  rw [this]

/-! ### sorted target qubits -/

theorem mem_insertSorted (q r : Nat) (l : List Nat) :
    r ∈ insertSorted q l ↔ r = q ∨ r ∈ l := by
  induction l with
  | nil => simp [insertSorted]
  | cons a l ih =>
    unfold insertSorted
    split
    · simp
    · split
      · rename_i h; subst h; simp
      · simp only [List.mem_cons, ih]
        constructor
        · rintro (h | h | h) <;> simp [h]
        · rintro (h | h | h) <;> simp [h]

theorem insertSorted_sorted (q : Nat) (l : List Nat) (h : l.Pairwise (· < ·)) :
    (insertSorted q l).Pairwise (· < ·) := by
  induction l with
  | nil => simp [insertSorted]
  | cons a l ih =>
    have ha := (List.pairwise_cons.mp h).1
    have hl := (List.pairwise_cons.mp h).2
    unfold insertSorted
    split
    · rename_i hqa
      refine List.pairwise_cons.mpr ⟨?_, h⟩
      intro b hb
      rcases List.mem_cons.mp hb with e | hb
      · omega
      · have := ha b hb; omega
    · split
      · exact h
      · rename_i h1 h2
        refine List.pairwise_cons.mpr ⟨?_, ih hl⟩
        intro b hb
        rcases (mem_insertSorted q b l).mp hb with e | hb
        · omega
        · exact ha b hb

omit [CommSemiring α] in
theorem foldl_insertSorted (fs : List (PSym α)) (acc : List Nat) (h : acc.Pairwise (· < ·)) :
    (fs.foldl (fun acc s => insertSorted s.q acc) acc).Pairwise (· < ·) ∧
      ∀ r, r ∈ fs.foldl (fun acc s => insertSorted s.q acc) acc ↔ r ∈ acc ∨ ∃ s ∈ fs, s.q = r := by
  induction fs generalizing acc with
  | nil => simp [h]
  | cons s fs ih =>
    rw [List.foldl_cons]
    obtain ⟨h1, h2⟩ := ih (insertSorted s.q acc) (insertSorted_sorted s.q acc h)
    refine ⟨h1, fun r => ?_⟩
    rw [h2, mem_insertSorted]
    simp only [List.mem_cons, exists_eq_or_imp]
    constructor
    · rintro ((h | h) | h)
      · exact Or.inr (Or.inl h.symm)
      · exact Or.inl h
      · exact Or.inr (Or.inr h)
    · rintro (h | h | h)
      · exact Or.inl (Or.inr h)
      · exact Or.inl (Or.inl h.symm)
      · exact Or.inr h

omit [CommSemiring α] in
theorem STerm.targets_nodup (t : STerm α) : t.targets.Nodup := by
  have := (foldl_insertSorted t.factors [] List.Pairwise.nil).1
  exact this.imp (fun h => Nat.ne_of_lt h)

omit [CommSemiring α] in
theorem STerm.mem_targets (t : STerm α) (r : Nat) : r ∈ t.targets ↔ ∃ s ∈ t.factors, s.q = r := by
  have := (foldl_insertSorted t.factors [] List.Pairwise.nil).2 r
  unfold STerm.targets
  simpa using this

/-! ### words: factors on different qubits commute -/

theorem wordApply_comm_gate (s : PSym α) (w : List (PSym α)) (h : ∀ r ∈ w, r.q ≠ s.q)
    (ψ : Lab → α) :
    applyGate s.gate (wordApply w ψ) = wordApply w (applyGate s.gate ψ) := by
  induction w with
  | nil => rfl
  | cons r w ih =>
    have hr : r.q ≠ s.q := h r (List.mem_cons_self ..)
    rw [wordApply_cons, wordApply_cons, ← ih (fun r' hr' => h r' (List.mem_cons_of_mem _ hr')),
      PSym.gate_eq_g1, PSym.gate_eq_g1, g1_comm s.mat r.mat (Ne.symm hr)]

/-- the factors on qubit `q` can be moved to the front, keeping their order. -/
theorem wordApply_split (q : Nat) (fs : List (PSym α)) (ψ : Lab → α) :
    wordApply fs ψ
      = wordApply (fs.filter (fun s => s.q == q)) (wordApply (fs.filter (fun s => !(s.q == q))) ψ) := by
  induction fs with
  | nil => rfl
  | cons s fs ih =>
    by_cases hs : s.q = q
    · have e1 : (s.q == q) = true := by simpa using hs
      rw [List.filter_cons_of_pos (by simpa using e1), List.filter_cons_of_neg (by simp [e1]),
        wordApply_cons, wordApply_cons, ih]
    · have e1 : (s.q == q) = false := by simpa using hs
      rw [List.filter_cons_of_neg (by simp [e1]), List.filter_cons_of_pos (by simp [e1]),
        wordApply_cons, wordApply_cons, ih]
      apply wordApply_comm_gate
      intro r hr
      have := (List.mem_filter.mp hr).2
      simp only [beq_iff_eq] at this
      rw [this]
      exact Ne.symm hs

theorem foldr_congr_mem {β γ : Type} (l : List β) (f g : β → γ → γ) (c : γ)
    (h : ∀ b ∈ l, f b = g b) : l.foldr f c = l.foldr g c := by
  induction l with
  | nil => rfl
  | cons b l ih =>
    rw [List.foldr_cons, List.foldr_cons, h b (List.mem_cons_self ..),
      ih (fun b' hb' => h b' (List.mem_cons_of_mem _ hb'))]

/-- **regrouping by qubit**: a word whose qubits lie in the duplicate-free list `ts` is the
product, over `ts`, of its sub-words on each qubit (order inside a qubit kept). -/
theorem wordApply_regroup (ts : List Nat) (hn : ts.Nodup) (fs : List (PSym α))
    (h : ∀ s ∈ fs, s.q ∈ ts) (ψ : Lab → α) :
    wordApply fs ψ = ts.foldr (fun q φ => wordApply (fs.filter (fun s => s.q == q)) φ) ψ := by
  induction ts generalizing fs with
  | nil =>
    have : fs = [] := by
      cases fs with
      | nil => rfl
      | cons s fs => exact absurd (h s (List.mem_cons_self ..)) (by simp)
    subst this
    rfl
  | cons q qs ih =>
    have hq : q ∉ qs := (List.nodup_cons.mp hn).1
    have hn' : qs.Nodup := (List.nodup_cons.mp hn).2
    rw [List.foldr_cons, wordApply_split q fs ψ]
    congr 1
    have h' : ∀ s ∈ fs.filter (fun s => !(s.q == q)), s.q ∈ qs := by
      intro s hs
      obtain ⟨h1, h2⟩ := List.mem_filter.mp hs
      have hne : s.q ≠ q := by simpa using h2
      exact (List.mem_cons.mp (h s h1)).resolve_left hne
    rw [ih hn' _ h']
    apply foldr_congr_mem
    intro r hr
    have hrq : r ≠ q := fun e => hq (e ▸ hr)
    funext φ
    congr 1
    rw [List.filter_filter]
    apply List.filter_congr
    intro s _
    by_cases e : s.q = r
    · have : s.q ≠ q := e ▸ hrq
      simp [e, hrq]
    · simp [e]

/-! ### a word on one qubit = the gate of its ordered matrix product -/

omit [CommSemiring α] in
theorem M2.ofFn_toFn (a : M2 α) : M2.ofFn a.toFn = a := by
  cases a; simp [M2.ofFn, M2.toFn]

theorem g1_toFn_ofFn (m : Nat → Nat → α) (q : Nat) (φ : Lab → α) :
    applyGate (g1 (M2.ofFn m).toFn q) φ = applyGate (g1 m q) φ := by
  funext x
  rw [applyGate_g1, applyGate_g1]
  cases x q <;> simp [M2.ofFn, M2.toFn, bit]

theorem g1_one (q : Nat) (φ : Lab → α) : applyGate (g1 (M2.one : M2 α).toFn q) φ = φ := by
  funext x
  rw [applyGate_g1]
  have e : x.set q (x q) = x := Lab.set_self x q
  cases hx : x q <;> rw [hx] at e <;> simp [M2.one, M2.toFn, bit, e]

/-- two gates on one qubit compose by the 2×2 matrix product, in this order. -/
theorem g1_mul (A : M2 α) (B : Nat → Nat → α) (q : Nat) (φ : Lab → α) :
    applyGate (g1 A.toFn q) (applyGate (g1 B q) φ)
      = applyGate (g1 (M2.mul A (M2.ofFn B)).toFn q) φ := by
  funext x
  simp only [applyGate_g1, Lab.set_same, Lab.set_set]
  cases x q <;> simp [M2.mul, M2.toFn, M2.ofFn, bit] <;> ring

theorem g1_foldl_mul (q : Nat) (ss : List (PSym α)) (h : ∀ s ∈ ss, s.q = q) (acc : M2 α)
    (ψ : Lab → α) :
    applyGate (g1 (ss.foldl (fun acc r => M2.mul acc (M2.ofFn r.mat)) acc).toFn q) ψ
      = applyGate (g1 acc.toFn q) (wordApply ss ψ) := by
  induction ss generalizing acc with
  | nil => rfl
  | cons r ss ih =>
    rw [List.foldl_cons, ih (fun s hs => h s (List.mem_cons_of_mem _ hs)), ← g1_mul,
      wordApply_cons, PSym.gate_eq_g1, h r (List.mem_cons_self ..)]

/-- the ordered 2×2 product of a word (`reduce(matmul, matrix_map[q])`). -/
def wordM2 (w : List (PSym α)) : M2 α :=
  match w with
  | [] => M2.one
  | s :: ss => ss.foldl (fun acc r => M2.mul acc (M2.ofFn r.mat)) (M2.ofFn s.mat)

theorem wordApply_single (q : Nat) (w : List (PSym α)) (h : ∀ s ∈ w, s.q = q) (ψ : Lab → α) :
    wordApply w ψ = applyGate (g1 (wordM2 w).toFn q) ψ := by
  cases w with
  | nil => exact (g1_one q ψ).symm
  | cons s ss =>
    show _ = applyGate (g1 (ss.foldl _ (M2.ofFn s.mat)).toFn q) ψ
    rw [g1_foldl_mul q ss (fun r hr => h r (List.mem_cons_of_mem _ hr)), g1_toFn_ofFn,
      wordApply_cons, PSym.gate_eq_g1, h s (List.mem_cons_self ..)]

theorem STerm.qubitMatrix_eq (t : STerm α) (q : Nat) :
    t.qubitMatrix q = (wordM2 (t.factors.filter (fun s => s.q == q))).toFn := by
  unfold STerm.qubitMatrix STerm.qubitM2 wordM2
  rfl

/-! ### the term's gate -/

/-- **`SymbolicTerm.matrix` denotes the term**: the gate with the term's matrix on the
sorted target qubits acts as coefficient · product of the factors in the written order. -/
theorem STerm.applyGate_gate (t : STerm α) (ψ : Lab → α) : applyGate t.gate ψ = t.denote ψ := by
  funext x
  have hn := t.targets_nodup
  show (if Lab.allOne [] x then
      sumOver t.targets (fun y => t.matrix (Lab.idx t.targets x) (Lab.idx t.targets y) * ψ y) x
    else ψ x) = _
  rw [if_pos (by rfl)]
  simp only [STerm.matrix_idx, mul_assoc]
  rw [sumOver_mul_left, kron_chain _ _ hn]
  show _ = t.coef * wordApply t.factors ψ x
  congr 1
  rw [wordApply_regroup t.targets hn t.factors
    (fun s hs => (t.mem_targets s.q).mpr ⟨s, hs, rfl⟩) ψ]
  unfold chainApply
  apply congrFun
  apply foldr_congr_mem
  intro q _
  funext φ
  show applyGate (g1 (t.qubitMatrix q) q) φ = _
  rw [STerm.qubitMatrix_eq,
    ← wordApply_single q _ (fun s hs => by simpa using (List.mem_filter.mp hs).2) φ]

end QV
