/-
  Lemmas about `MeasurementOutcomes.probabilities` on a result without final state
  (QV/Model/MeasureProbs.lean): the marginal computed from the frequencies is the empirical
  marginal of the shot table in the requested qubit order, and the `_probs` cache keeps it so
  for every history of accessor calls.
-/
import QV.Proofs.Measure
import QV.Model.MeasureProbs

set_option linter.unusedSectionVars false
set_option linter.unusedSimpArgs false
set_option linter.unusedVariables false

namespace QV
open Finset

/-! ### the marginal of a histogram -/

theorem born_add {β : Type} [AddCommMonoid β] (n : Nat) (qs : List Nat) (w1 w2 : Lab → β) (k : Nat) :
    born n qs (fun x => w1 x + w2 x) k = born n qs w1 k + born n qs w2 k := by
  unfold born
  exact sumOver_add _ w1 w2 _

theorem born_zero {β : Type} [AddCommMonoid β] (n : Nat) (qs : List Nat) (k : Nat) :
    born n qs (fun _ => (0 : β)) k = 0 := by
  unfold born
  exact sumOver_zero _ _

/-- weight of a single shot `a`: 1 on the label whose index on `range k` is `a`. -/
def shotWeight (k a : Nat) : Lab → Nat := fun x => if a = Lab.idx (List.range k) x then 1 else 0

theorem totalWeight_shotWeight {k a : Nat} (ha : a < 2 ^ k) : totalWeight k (shotWeight k a) = 1 := by
  unfold totalWeight
  rw [sumOver_eq_sum' List.nodup_range, List.length_range]
  unfold shotWeight
  have : ∀ i ∈ range (2 ^ k),
      (if a = Lab.idx (List.range k) (Lab.wIdx zeroLab (List.range k) i) then 1 else 0)
        = if a = i then 1 else 0 := by
    intro i hi
    rw [Lab.idx_wIdx zeroLab List.nodup_range (by rw [List.length_range]; exact mem_range.mp hi)]
  rw [sum_congr rfl this, sum_ite_eq (range (2 ^ k)) a (fun _ => 1), if_pos (mem_range.mpr ha)]

/-- label of the decimal outcome `a` of `k` measured qubits. -/
def shotLab (k a : Nat) : Lab := Lab.withIdx zeroLab (List.range k) a

theorem idx_range_shotLab {k a : Nat} (ha : a < 2 ^ k) : Lab.idx (List.range k) (shotLab k a) = a :=
  Lab.idx_withIdx zeroLab List.nodup_range (by rw [List.length_range]; exact ha)

/-- the register value of a shot is the index of the shot's label on the register's positions. -/
theorem projDec_eq_idx {k a : Nat} (ha : a < 2 ^ k) (pos : List Nat) (hpos : ∀ p ∈ pos, p < k) :
    projDec k pos a = Lab.idx pos (shotLab k a) := by
  unfold projDec
  rw [← samplesToDecimal_bits]
  congr 1
  have hrow : samplesToBinary k a = (List.range k).map fun q => if shotLab k a q then 1 else 0 := by
    have h := samplesToBinary_samplesToDecimal ((List.range k).map fun q => if shotLab k a q then 1 else 0)
      (by intro b hb; simp only [List.mem_map] at hb; obtain ⟨q, _, rfl⟩ := hb; split <;> omega)
    rw [samplesToDecimal_bits, List.length_map, List.length_range, idx_range_shotLab ha] at h
    exact h
  unfold pick
  apply List.map_congr_left
  intro p hp
  rw [hrow, List.getD_eq_getElem?_getD, List.getElem?_map, List.getElem?_range (hpos p hp)]
  rfl

/-- **marginal of one shot**: 1 at the register value of the shot, 0 elsewhere. -/
theorem born_shotWeight {k a : Nat} (ha : a < 2 ^ k) {pos : List Nat} (hn : pos.Nodup)
    (hpos : ∀ p ∈ pos, p < k) {j : Nat} (hj : j < 2 ^ pos.length) :
    born k pos (shotWeight k a) j = if projDec k pos a = j then 1 else 0 := by
  -- off the shot's value the marginal vanishes
  have hoff : ∀ j', j' < 2 ^ pos.length → j' ≠ projDec k pos a → born k pos (shotWeight k a) j' = 0 := by
    intro j' hj' hne
    by_contra hc
    obtain ⟨x, hx, hxi⟩ := born_support k hn (shotWeight k a) hj' hc
    unfold shotWeight at hx
    have hax : a = Lab.idx (List.range k) x := by
      by_contra h; rw [if_neg h] at hx; exact hx rfl
    apply hne
    rw [projDec_eq_idx ha pos hpos, ← hxi]
    apply Lab.idx_congr
    intro r hr
    have hr' : r ∈ List.range k := List.mem_range.mpr (hpos r hr)
    have h1 : Lab.idx (List.range k) (shotLab k a) = Lab.idx (List.range k) x := by
      rw [idx_range_shotLab ha]; exact hax
    exact (agree_of_idx_eq h1 r hr').symm
  have hj0 : projDec k pos a < 2 ^ pos.length := by
    rw [projDec_eq_idx ha pos hpos]; exact Lab.idx_lt pos _
  have htot := born_sum_total k pos hn hpos (shotWeight k a)
  rw [totalWeight_shotWeight ha,
    sum_eq_single_of_mem (projDec k pos a) (mem_range.mpr hj0)
      (fun b hb hne => hoff b (mem_range.mp hb) hne)] at htot
  by_cases e : projDec k pos a = j
  · rw [if_pos e, ← e]; exact htot
  · rw [if_neg e]; exact hoff j hj (fun h => e h.symm)

/-- **the marginal of the frequencies is the histogram of the projected shots.** -/
theorem born_hist {k : Nat} (T : List Nat) (hT : ∀ s ∈ T, s < 2 ^ k) {pos : List Nat}
    (hn : pos.Nodup) (hpos : ∀ p ∈ pos, p < k) {j : Nat} (hj : j < 2 ^ pos.length) :
    born k pos (weightOf k (hist T)) j = hist (T.map (projDec k pos)) j := by
  induction T with
  | nil =>
    have : weightOf k (hist []) = fun _ => 0 := by funext x; simp [weightOf, hist]
    rw [this, born_zero]; simp [hist]
  | cons a T ih =>
    have ha : a < 2 ^ k := hT a (List.mem_cons_self ..)
    have hw : weightOf k (hist (a :: T)) = fun x => weightOf k (hist T) x + shotWeight k a x := by
      funext x; unfold weightOf shotWeight; rw [hist_cons]
    rw [hw, born_add, ih (fun s hs => hT s (List.mem_cons_of_mem _ hs)), born_shotWeight ha hn hpos hj,
      List.map_cons, hist_cons]

theorem probsTable_hist {k : Nat} (T : List Nat) (hT : ∀ s ∈ T, s < 2 ^ k) {pos : List Nat}
    (hn : pos.Nodup) (hpos : ∀ p ∈ pos, p < k) :
    probsTable k pos (hist T) = (List.range (2 ^ pos.length)).map (hist (T.map (projDec k pos))) := by
  unfold probsTable
  apply List.map_congr_left
  intro j hj
  rw [calculateProbabilities_eq_born k pos hpos]
  exact born_hist T hT hn hpos (List.mem_range.mp hj)

/-! ### positions of requested qubits -/

theorem positions_lt {glob qs : List Nat} (hsub : ∀ q ∈ qs, q ∈ glob) :
    ∀ p ∈ positions glob qs, p < glob.length := by
  intro p hp
  unfold positions at hp
  obtain ⟨q, hq, rfl⟩ := List.mem_map.mp hp
  exact List.idxOf_lt_length_iff.mpr (hsub q hq)

theorem positions_nodup {glob qs : List Nat} (hn : qs.Nodup) (hsub : ∀ q ∈ qs, q ∈ glob) :
    (positions glob qs).Nodup := by
  unfold positions
  rw [List.nodup_map_iff_inj_on hn]
  intro a ha b hb hab
  have h1 := List.getElem_idxOf (List.idxOf_lt_length_iff.mpr (hsub a ha))
  have h2 := List.getElem_idxOf (List.idxOf_lt_length_iff.mpr (hsub b hb))
  rw [← h1, ← h2]
  simp only [hab]

/-! ### histories -/

/-- a valid `probabilities` request: distinct measured qubits. -/
def POp.ok (c : RCfg) : POp → Prop
  | .acc _ => True
  | .probs qs => qs.Nodup ∧ ∀ q ∈ qs, q ∈ c.glob

structure PInv (c : RCfg) (o : Oracle) (T : List Nat) (s : PState) : Prop where
  base : RInv c o T s.base
  rep : s.repFreq = none ∨ s.repFreq = some (hist T)
  probs : s.probs = none ∨ s.probs = some (hist T)

variable {c : RCfg} {o : Oracle} {T : List Nat} {s : PState}

theorem pFreq_spec (h : PInv c o T s) (hT : ∀ x ∈ T, x < 2 ^ c.k) :
    PInv c o T (pFreq c o s).1 ∧ (pFreq c o s).2 = hist T ∧ (pFreq c o s).1.probs = s.probs := by
  unfold pFreq
  cases hr : s.repFreq with
  | some F =>
    simp only
    refine ⟨h, ?_, trivial⟩
    rcases h.rep with h1 | h1
    · rw [hr] at h1; cases h1
    · rw [hr] at h1; exact Option.some.inj h1
  | none =>
    simp only
    obtain ⟨h1, h2⟩ := ensureFreq_spec h.base hT
    exact ⟨⟨h1, by simp [hr], h.probs⟩, h2, trivial⟩

theorem pstep_spec (h : PInv c o T s) (hT : ∀ x ∈ T, x < 2 ^ c.k) (op : POp) (hok : op.ok c) :
    PInv c o T (pstep c o s op).1 ∧ (pstep c o s op).2 = pview c T op := by
  have hbase : ∀ op' : ROp,
      PInv c o T { s with base := (rstep c o s.base op').1 } ∧
        PAns.view (rstep c o s.base op').2 = pview c T (.acc op') := by
    intro op'
    obtain ⟨h1, h2⟩ := rstep_spec h.base hT op'
    exact ⟨⟨h1, h.rep, h.probs⟩, by rw [h2]; rfl⟩
  cases op with
  | probs qs =>
    obtain ⟨hn, hsub⟩ := hok
    have hpn := positions_nodup hn hsub
    have hpl : ∀ p ∈ positions c.glob qs, p < c.k := positions_lt hsub
    have hlen : (positions c.glob qs).length = qs.length := by simp [positions]
    have htab : probsTable c.k (positions c.glob qs) (hist T) = empirical c T qs := by
      rw [probsTable_hist T hT hpn hpl, hlen]; rfl
    unfold pstep pProbs
    simp only
    cases hp : s.probs with
    | some P =>
      have hP : P = hist T := by
        rcases h.probs with h1 | h1
        · rw [hp] at h1; cases h1
        · rw [hp] at h1; exact Option.some.inj h1
      simp only [hP, htab]
      exact ⟨h, rfl⟩
    | none =>
      obtain ⟨h1, h2, h3⟩ := pFreq_spec h hT
      simp only [h2, htab]
      exact ⟨⟨h1.base, h1.rep, Or.inr rfl⟩, rfl⟩
  | acc op' =>
    cases op' with
    | freqs b r =>
      cases r with
      | true => exact hbase (.freqs b true)
      | false =>
        cases hr : s.repFreq with
        | none =>
          have : pstep c o s (.acc (.freqs b false))
              = ({ s with base := (rstep c o s.base (.freqs b false)).1 },
                 .view (rstep c o s.base (.freqs b false)).2) := by
            simp only [pstep, hr]
          rw [this]; exact hbase (.freqs b false)
        | some F =>
          have hF : F = hist T := by
            rcases h.rep with h1 | h1
            · rw [hr] at h1; cases h1
            · rw [hr] at h1; exact Option.some.inj h1
          have : pstep c o s (.acc (.freqs b false)) = (s, .view (.freq F)) := by
            simp only [pstep, hr]
          rw [this, hF]
          exact ⟨h, by cases b <;> rfl⟩
    | samples b r => exact hbase (.samples b r)
    | regSamples i b => exact hbase (.regSamples i b)
    | regFreqs i b => exact hbase (.regFreqs i b)

theorem prun_of_inv (h : PInv c o T s) (hT : ∀ x ∈ T, x < 2 ^ c.k) (ops : List POp)
    (hok : ∀ op ∈ ops, op.ok c) : prun c o s ops = ops.map (pview c T) := by
  induction ops generalizing s with
  | nil => rfl
  | cons op ops ih =>
    obtain ⟨h1, h2⟩ := pstep_spec h hT op (hok op (List.mem_cons_self ..))
    rw [prun, List.map_cons, h2, ih h1 (fun op' hop' => hok op' (List.mem_cons_of_mem _ hop'))]

theorem pinv_repeated (c : RCfg) (o : Oracle) (T : List Nat) : PInv c o T (PState.repeated c T) :=
  ⟨rinv_withSamples c o T, Or.inr rfl, Or.inl rfl⟩

end QV
