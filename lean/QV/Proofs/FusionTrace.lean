/-
  QV.Proofs.FusionTrace — the flattened fused queue is TRACE EQUIVALENT to the input queue:

    theorem fuseModel_traceEq (n maxq : Nat) (queue : List FIn) :
      TraceEq TGate.qs (tgates n queue)
        ((fuseModel n maxq queue).flatten.map (fun i => (tgates n queue).getD i default))

  (no side conditions).  Built on QV.Proofs.FusionInv (`AllOK`, `PI`, `SameCore`, `contribs`).

  * (S1) `TraceEq.block_swap / block_move_left / block_move_right`
  * (S2) `seg`, `seg_split2`, `content`, `content_eq_seg`: the output order split at two nodes
  * (S3) `content_append`, `content_prepend`: a successful `fuseNodes` is a trace-equivalent
         rearrangement PROVIDED the child's qubits are disjoint from every live node in between
  * (S4) the neighbour invariant `W` ("a pointer never skips a LIVE node containing that qubit":
         for live `i`, `k` sharing `q`, `k < i → left_i[q] = some j ∧ k ≤ j`, and symmetrically).
         It is weaker than "nearest live neighbour" (targets may be dead/stale), which is what
         makes it inductive without any case analysis on stale pointers.
         - `W_append_logic`, `W_prepend_logic`: pure logic of the two branches
         - `EffR`, `EffL`, `fuseNodes_branch`: what the pointer loops of `fuseNodes` do, with the
           guards (`rightGates = []` resp. `leftGates = []`) exposed
         - `fuseNodes_W`: `fuseNodes` preserves `W` and the trace
         - `EffT`, `tfStep_TW`, `toFused_TW`, `toFused_W`: the initial graph satisfies `W`
  * (S5) `Inv2`, `fuse_step2`, `fuseAt_inv2`, `fuseLoop_inv2`, `fuseModel_traceEq_of_W`,
         `fuseModel_traceEq`
  Remark: the guard `between_gates == {child}` (`shared.all …`) and `shared ≠ ∅` are not needed
  for trace equivalence; only the `leftGates/rightGates` emptiness guards are used.
-/
import QV.Proofs.FusionInv
import QV.Proofs.TraceEq
namespace QV

/-! ### (S1) block moves -/

section
variable {G : Type} {supp : G → List Nat}

/-- a block `Y` commutes to the left past a block `X` all of whose items are disjoint from it. -/
theorem TraceEq.block_swap (X Y : List G)
    (h : ∀ y ∈ Y, ∀ x ∈ X, disjointB (supp y) (supp x) = true) :
    TraceEq supp (X ++ Y) (Y ++ X) := by
  induction Y with
  | nil => simpa using TraceEq.refl supp X
  | cons y Y ih =>
    have h1 : TraceEq supp (X ++ y :: Y) (y :: (X ++ Y)) :=
      (TraceEq.cons_move y X Y (fun x hx => h y (List.mem_cons_self ..) x hx)).symm
    have h2 := ih (fun y' hy' => h y' (List.mem_cons_of_mem _ hy'))
    exact h1.trans (TraceEq.cons y h2)

theorem TraceEq.block_move_left (A X B : List G)
    (h : ∀ y ∈ B, ∀ x ∈ X, disjointB (supp y) (supp x) = true) :
    TraceEq supp (A ++ X ++ B) (A ++ B ++ X) := by
  rw [List.append_assoc, List.append_assoc]
  exact TraceEq.append_left A (TraceEq.block_swap X B h)

theorem TraceEq.block_move_right (A X B : List G)
    (h : ∀ y ∈ A, ∀ x ∈ X, disjointB (supp y) (supp x) = true) :
    TraceEq supp (A ++ X ++ B) (X ++ A ++ B) :=
  TraceEq.append_right B (TraceEq.block_swap (supp := supp) X A (fun y hy x hx => h y hy x hx)).symm

end

/-! ### segments of a flattened map over a range -/

def seg (f : Nat → List Nat) (lo hi : Nat) : List Nat :=
  ((List.range' lo (hi - lo)).map f).flatten

theorem seg_split (f : Nat → List Nat) {lo m hi : Nat} (h1 : lo ≤ m) (h2 : m < hi) :
    seg f lo hi = seg f lo m ++ f m ++ seg f (m + 1) hi := by
  unfold seg
  have e : List.range' lo (hi - lo) =
      List.range' lo (m - lo) ++ m :: List.range' (m + 1) (hi - (m + 1)) := by
    have : hi - lo = (m - lo) + ((hi - (m + 1)) + 1) := by omega
    have e2 : lo + (m - lo) = m := by omega
    rw [this, ← List.range'_append_1, List.range'_succ, e2]
  rw [e]
  simp

theorem seg_congr {f g : Nat → List Nat} {lo hi : Nat}
    (h : ∀ i, lo ≤ i → i < hi → f i = g i) : seg f lo hi = seg g lo hi := by
  unfold seg
  congr 1
  refine List.map_congr_left (fun i hi' => ?_)
  rw [List.mem_range'_1] at hi'
  exact h i hi'.1 (by omega)

theorem mem_seg {f : Nat → List Nat} {lo hi x : Nat} :
    x ∈ seg f lo hi ↔ ∃ i, lo ≤ i ∧ i < hi ∧ x ∈ f i := by
  unfold seg
  simp only [List.mem_flatten, List.mem_map, List.mem_range'_1]
  constructor
  · rintro ⟨l, ⟨i, ⟨h1, h2⟩, rfl⟩, hx⟩
    exact ⟨i, h1, by omega, hx⟩
  · rintro ⟨i, h1, h2, hx⟩
    exact ⟨f i, ⟨i, ⟨h1, by omega⟩, rfl⟩, hx⟩

theorem flatten_range_eq_seg (f : Nat → List Nat) (N : Nat) :
    ((List.range N).map f).flatten = seg f 0 N := by
  unfold seg; rw [List.range_eq_range']; rfl

/-- splitting the content at two positions `a < b < N`. -/
theorem seg_split2 (f : Nat → List Nat) {a b N : Nat} (hab : a < b) (hb : b < N) :
    seg f 0 N = seg f 0 a ++ f a ++ seg f (a + 1) b ++ f b ++ seg f (b + 1) N := by
  rw [seg_split f (Nat.zero_le a) (by omega : a < N),
    seg_split f (by omega : a + 1 ≤ b) hb]
  simp [List.append_assoc]

/-! ### the gates as trace items -/

/-- the trace item of the gate at position `i`. -/
def gItem (n : Nat) (queue : List FIn) (i : Nat) : TGate := (tgates n queue).getD i default

theorem gItem_qs {n : Nat} {queue : List FIn} {g : Nat} (hg : g < queue.length) :
    (gItem n queue g).qs = gateQs n queue g := by
  unfold gItem tgates gateQs
  simp [List.getD_eq_getElem?_getD, hg]

theorem map_gItem_range (n : Nat) (queue : List FIn) :
    (List.range queue.length).map (gItem n queue) = tgates n queue := by
  apply List.ext_getElem
  · simp [tgates]
  · intro i h1 h2
    have hi : i < queue.length := by simpa using h1
    simp [gItem, tgates, List.getD_eq_getElem?_getD, hi]

/-! ### live nodes and content -/

variable {n maxq : Nat} {queue : List FIn}

/-- a node is LIVE unless it is a fused child (marked and emitting nothing). -/
def Live (queue : List FIn) (s : FState) (k : Nat) : Prop :=
  (nodeAt s k).marked = false ∨ contrib queue (nodeAt s k) ≠ []

theorem Live.congr {s s' : FState} (h : SameCore s s') {k : Nat} :
    Live queue s' k ↔ Live queue s k := by
  have := h.2 k
  have h2 := contrib_congr (queue := queue) this
  simp only [FNode.core, Prod.mk.injEq] at this
  unfold Live
  rw [h2, this.2.2]

theorem contrib_sub {nd : FNode} {g : Nat} (h : g ∈ contrib queue nd) : g ∈ nd.gates := by
  unfold contrib at h
  split_ifs at h
  · exact h
  · cases hg : nd.gates with
    | nil => rw [hg] at h; simp at h
    | cons x l =>
      rw [hg] at h
      dsimp only at h
      split_ifs at h
      · simp at h; subst h; simp
      · simp at h

theorem item_qs_sub {s : FState} (ok : AllOK n maxq queue s) {k g : Nat}
    (hg : g ∈ contrib queue (nodeAt s k)) :
    ∀ q ∈ (gItem n queue g).qs, q ∈ (nodeAt s k).qubits := by
  have h := (ok.at k).2.1 g (contrib_sub hg)
  intro q hq
  rw [gItem_qs h.1] at hq
  exact h.2 q hq

/-- the output order of a state. -/
def content (queue : List FIn) (s : FState) : List Nat := (contribs queue s).flatten

theorem content_eq_seg (s : FState) :
    content queue s = seg (fun i => contrib queue (nodeAt s i)) 0 s.size := by
  unfold content contribs; exact flatten_range_eq_seg _ _

theorem content_sameCore {s s' : FState} (h : SameCore s s') :
    content queue s' = content queue s := by
  unfold content; rw [contribs_sameCore h]

/-- items of live nodes between `a` and `b` are disjoint from items of a node `c` whose qubits are
disjoint from all of them. -/
theorem mid_disjoint {s : FState} (ok : AllOK n maxq queue s) {a b c : Nat}
    (hdis : ∀ k, a < k → k < b → Live queue s k →
      ∀ q, q ∈ (nodeAt s c).qubits → q ∉ (nodeAt s k).qubits) :
    ∀ y ∈ (contrib queue (nodeAt s c)).map (gItem n queue),
    ∀ x ∈ (seg (fun i => contrib queue (nodeAt s i)) (a + 1) b).map (gItem n queue),
      disjointB (TGate.qs y) (TGate.qs x) = true := by
  intro y hy x hx
  obtain ⟨g, hg, rfl⟩ := List.mem_map.1 hy
  obtain ⟨g', hg', rfl⟩ := List.mem_map.1 hx
  obtain ⟨k, h1, h2, hk⟩ := mem_seg.1 hg'
  have hlive : Live queue s k := Or.inr (List.ne_nil_of_mem hk)
  rw [disjointB_iff]
  intro q hq hq'
  exact hdis k (by omega) h2 hlive q (item_qs_sub ok hg q hq) (item_qs_sub ok hk q hq')

/-- (S3, append branch) -/
theorem content_append {s t : FState} (ok : AllOK n maxq queue s) {a b : Nat} (hab : a < b)
    (hb : b < s.size) (hA : (nodeAt s a).marked = false) (hB : (nodeAt s b).marked = false)
    (hc : SameCore (state1 s a b) t)
    (hdis : ∀ k, a < k → k < b → Live queue s k →
      ∀ q, q ∈ (nodeAt s b).qubits → q ∉ (nodeAt s k).qubits) :
    TraceEq TGate.qs ((content queue s).map (gItem n queue))
      ((content queue t).map (gItem n queue)) := by
  have ha : a < s.size := by omega
  rw [content_sameCore hc, content_eq_seg, content_eq_seg]
  have hsz : (state1 s a b).size = s.size := by simp [state1]
  rw [hsz, seg_split2 _ hab hb, seg_split2 _ hab hb]
  have e1 : seg (fun i => contrib queue (nodeAt (state1 s a b) i)) 0 a
      = seg (fun i => contrib queue (nodeAt s i)) 0 a :=
    seg_congr (fun i _ h2 => by
      unfold state1; rw [nodeAt_modify_ne _ _ (by omega), nodeAt_modify_ne _ _ (by omega)])
  have e2 : seg (fun i => contrib queue (nodeAt (state1 s a b) i)) (a + 1) b
      = seg (fun i => contrib queue (nodeAt s i)) (a + 1) b :=
    seg_congr (fun i _ h2 => by
      unfold state1; rw [nodeAt_modify_ne _ _ (by omega), nodeAt_modify_ne _ _ (by omega)])
  have e3 : seg (fun i => contrib queue (nodeAt (state1 s a b) i)) (b + 1) s.size
      = seg (fun i => contrib queue (nodeAt s i)) (b + 1) s.size :=
    seg_congr (fun i _ h2 => by
      unfold state1; rw [nodeAt_modify_ne _ _ (by omega), nodeAt_modify_ne _ _ (by omega)])
  have e4 : contrib queue (nodeAt (state1 s a b) b) = [] := by
    unfold state1
    rw [nodeAt_modify_ne _ _ (by omega), nodeAt_modify_self _ _ hb]
    exact contrib_mark (ok b hb) hB
  have e5 : contrib queue (nodeAt (state1 s a b) a)
      = contrib queue (nodeAt s a) ++ contrib queue (nodeAt s b) := by
    unfold state1
    rw [nodeAt_modify_self _ _ (by simpa using ha), nodeAt_modify_ne _ _ (by omega),
      contrib_unmarked hA, contrib_unmarked hB, contrib_unmarked (by exact hA)]
  simp only [e1, e2, e3, e4, e5, List.append_nil, List.map_append]
  refine TraceEq.append_right _ ?_
  have := TraceEq.block_move_left (supp := TGate.qs)
    ((seg (fun i => contrib queue (nodeAt s i)) 0 a).map (gItem n queue) ++
      (contrib queue (nodeAt s a)).map (gItem n queue))
    ((seg (fun i => contrib queue (nodeAt s i)) (a + 1) b).map (gItem n queue))
    ((contrib queue (nodeAt s b)).map (gItem n queue)) (mid_disjoint ok hdis)
  simpa [List.append_assoc] using this

/-- (S3, prepend branch) -/
theorem content_prepend {s t : FState} (ok : AllOK n maxq queue s) {a b : Nat} (hab : a < b)
    (hb : b < s.size) (hA : (nodeAt s a).marked = false) (hB : (nodeAt s b).marked = false)
    (hc : SameCore (state2 s a b) t)
    (hdis : ∀ k, a < k → k < b → Live queue s k →
      ∀ q, q ∈ (nodeAt s a).qubits → q ∉ (nodeAt s k).qubits) :
    TraceEq TGate.qs ((content queue s).map (gItem n queue))
      ((content queue t).map (gItem n queue)) := by
  have ha : a < s.size := by omega
  rw [content_sameCore hc, content_eq_seg, content_eq_seg]
  have hsz : (state2 s a b).size = s.size := by simp [state2]
  rw [hsz, seg_split2 _ hab hb, seg_split2 _ hab hb]
  have e1 : seg (fun i => contrib queue (nodeAt (state2 s a b) i)) 0 a
      = seg (fun i => contrib queue (nodeAt s i)) 0 a :=
    seg_congr (fun i _ h2 => by
      unfold state2; rw [nodeAt_modify_ne _ _ (by omega), nodeAt_modify_ne _ _ (by omega)])
  have e2 : seg (fun i => contrib queue (nodeAt (state2 s a b) i)) (a + 1) b
      = seg (fun i => contrib queue (nodeAt s i)) (a + 1) b :=
    seg_congr (fun i _ h2 => by
      unfold state2; rw [nodeAt_modify_ne _ _ (by omega), nodeAt_modify_ne _ _ (by omega)])
  have e3 : seg (fun i => contrib queue (nodeAt (state2 s a b) i)) (b + 1) s.size
      = seg (fun i => contrib queue (nodeAt s i)) (b + 1) s.size :=
    seg_congr (fun i _ h2 => by
      unfold state2; rw [nodeAt_modify_ne _ _ (by omega), nodeAt_modify_ne _ _ (by omega)])
  have e4 : contrib queue (nodeAt (state2 s a b) a) = [] := by
    unfold state2
    rw [nodeAt_modify_ne _ _ (by omega), nodeAt_modify_self _ _ ha]
    exact contrib_mark (ok a ha) hA
  have e5 : contrib queue (nodeAt (state2 s a b) b)
      = contrib queue (nodeAt s a) ++ contrib queue (nodeAt s b) := by
    unfold state2
    rw [nodeAt_modify_self _ _ (by simpa using hb), nodeAt_modify_ne _ _ (by omega),
      contrib_unmarked hA, contrib_unmarked hB, contrib_unmarked (by exact hB)]
  simp only [e1, e2, e3, e4, e5, List.append_nil, List.map_append]
  refine TraceEq.append_right _ ?_
  have := TraceEq.block_move_right (supp := TGate.qs)
    ((contrib queue (nodeAt s a)).map (gItem n queue))
    ((seg (fun i => contrib queue (nodeAt s i)) (a + 1) b).map (gItem n queue))
    ((contrib queue (nodeAt s b)).map (gItem n queue)) (mid_disjoint ok hdis)
  have h2 := TraceEq.append_left (supp := TGate.qs)
    ((seg (fun i => contrib queue (nodeAt s i)) 0 a).map (gItem n queue)) this
  simpa [List.append_assoc] using h2

/-! ### (S4) the neighbour invariant: pointers never skip a live node with that qubit -/

/-- the neighbour property, abstractly: `live`, `qb i q` (qubit `q` belongs to node `i`),
left and right pointer maps. -/
def WProp (live : Nat → Prop) (qb : Nat → Nat → Prop) (L R : Nat → Nat → Option Nat) : Prop :=
  ∀ i k q, live i → live k → qb i q → qb k q →
    (k < i → ∃ j, L i q = some j ∧ k ≤ j) ∧ (i < k → ∃ j, R i q = some j ∧ j ≤ k)

/-- pure logic of the "append" branch (parent `a`, child `b`). -/
theorem W_append_logic
    (liveS liveT : Nat → Prop) (qS qT : Nat → Nat → Prop)
    (LS RS LT RT : Nat → Nat → Option Nat) (a b : Nat) (hab : a < b)
    (piR : ∀ i q j, RS i q = some j → i < j ∧ qS j q)
    (piL : ∀ i q j, LS i q = some j → j < i ∧ qS j q)
    (wS : WProp liveS qS LS RS)
    (la : liveS a) (lb : liveS b)
    (G1 : ∀ q nb, LS b q = some nb → nb = a)
    (Lv : ∀ k, liveT k → liveS k ∧ k ≠ b)
    (Qa : ∀ q, qT a q ↔ qS a q ∨ qS b q)
    (Qo : ∀ k q, k ≠ a → (qT k q ↔ qS k q))
    (E1 : ∀ q nb, qS b q → RS b q = some nb → RT a q = some nb)
    (E2 : ∀ q, ¬ qS b q → RT a q = RS a q)
    (E3 : ∀ q, LT a q = LS a q)
    (E4 : ∀ i q, i ≠ a → RT i q = RS i q)
    (E5 : ∀ i q, i ≠ a → LT i q = LS i q ∨ (LT i q = some a ∧ qS b q ∧ RS b q = some i)) :
    WProp liveT qT LT RT := by
  -- a live node left of `b` sharing a qubit with `b` is `a` or lies left of `a`, and `a` has it
  have D12 : ∀ k q, qS b q → liveS k → k < b → qS k q → k ≤ a ∧ qS a q := by
    intro k q hqb hk hkb hqk
    obtain ⟨j, hj, hkj⟩ := (wS b k q lb hk hqb hqk).1 hkb
    have := G1 q j hj; subst this
    exact ⟨hkj, (piL b q j hj).2⟩
  intro i k q hi hk hqi hqk
  obtain ⟨hi', hib⟩ := Lv i hi
  obtain ⟨hk', hkb⟩ := Lv k hk
  refine ⟨fun hlt => ?_, fun hlt => ?_⟩
  · by_cases hia : i = a
    · subst hia
      have hka : k ≠ i := by omega
      have hqk' := (Qo k q hka).1 hqk
      have hqa : qS i q := by
        rcases (Qa q).1 hqi with h | h
        · exact h
        · exact (D12 k q h hk' (by omega) hqk').2
      obtain ⟨j, hj, hkj⟩ := (wS i k q hi' hk' hqa hqk').1 hlt
      exact ⟨j, by rw [E3]; exact hj, hkj⟩
    · have hqi' := (Qo i q hia).1 hqi
      have old : ∃ j, LS i q = some j ∧ k ≤ j := by
        by_cases hka : k = a
        · subst hka
          rcases (Qa q).1 hqk with h | h
          · exact (wS i k q hi' hk' hqi' h).1 hlt
          · by_cases hib' : i < b
            · have := (D12 i q h hi' hib' hqi').1; omega
            · obtain ⟨j, hj, hbj⟩ := (wS i b q hi' lb hqi' h).1 (by omega)
              exact ⟨j, hj, by omega⟩
        · exact (wS i k q hi' hk' hqi' ((Qo k q hka).1 hqk)).1 hlt
      rcases E5 i q hia with h | ⟨h1, h2, h3⟩
      · rw [h]; exact old
      · refine ⟨a, h1, ?_⟩
        by_cases hka : k = a
        · omega
        · have hqk' := (Qo k q hka).1 hqk
          have hbi := (piR b q i h3).1
          by_cases hkb' : k < b
          · exact (D12 k q h2 hk' hkb' hqk').1
          · obtain ⟨j, hj, hjk⟩ := (wS b k q lb hk' h2 hqk').2 (by omega)
            rw [h3] at hj; simp at hj; omega
  · by_cases hia : i = a
    · subst hia
      have hka : k ≠ i := by omega
      have hqk' := (Qo k q hka).1 hqk
      by_cases hqb : qS b q
      · have hbk : b < k := by
          by_contra hc
          have := (D12 k q hqb hk' (by omega) hqk').1; omega
        obtain ⟨j, hj, hjk⟩ := (wS b k q lb hk' hqb hqk').2 hbk
        exact ⟨j, E1 q j hqb hj, hjk⟩
      · have hqa : qS i q := by
          rcases (Qa q).1 hqi with h | h
          · exact h
          · exact absurd h hqb
        obtain ⟨j, hj, hjk⟩ := (wS i k q hi' hk' hqa hqk').2 hlt
        exact ⟨j, by rw [E2 q hqb]; exact hj, hjk⟩
    · have hqi' := (Qo i q hia).1 hqi
      rw [E4 i q hia]
      by_cases hka : k = a
      · subst hka
        rcases (Qa q).1 hqk with h | h
        · exact (wS i k q hi' hk' hqi' h).2 hlt
        · exact (wS i k q hi' hk' hqi' (D12 i q h hi' (by omega) hqi').2).2 hlt
      · exact (wS i k q hi' hk' hqi' ((Qo k q hka).1 hqk)).2 hlt

/-- pure logic of the "prepend" branch (parent `b`, child `a`). -/
theorem W_prepend_logic
    (liveS liveT : Nat → Prop) (qS qT : Nat → Nat → Prop)
    (LS RS LT RT : Nat → Nat → Option Nat) (a b : Nat) (hab : a < b)
    (piR : ∀ i q j, RS i q = some j → i < j ∧ qS j q)
    (piL : ∀ i q j, LS i q = some j → j < i ∧ qS j q)
    (wS : WProp liveS qS LS RS)
    (la : liveS a) (lb : liveS b)
    (G1 : ∀ q nb, RS a q = some nb → nb = b)
    (Lv : ∀ k, liveT k → liveS k ∧ k ≠ a)
    (Qb : ∀ q, qT b q ↔ qS b q ∨ qS a q)
    (Qo : ∀ k q, k ≠ b → (qT k q ↔ qS k q))
    (E1 : ∀ q nb, qS a q → LS a q = some nb → LT b q = some nb)
    (E2 : ∀ q, ¬ qS a q → LT b q = LS b q)
    (E3 : ∀ q, RT b q = RS b q)
    (E4 : ∀ i q, i ≠ b → LT i q = LS i q)
    (E5 : ∀ i q, i ≠ b → RT i q = RS i q ∨ (RT i q = some b ∧ qS a q ∧ LS a q = some i)) :
    WProp liveT qT LT RT := by
  have D12 : ∀ k q, qS a q → liveS k → a < k → qS k q → b ≤ k ∧ qS b q := by
    intro k q hqa hk hak hqk
    obtain ⟨j, hj, hjk⟩ := (wS a k q la hk hqa hqk).2 hak
    have := G1 q j hj; subst this
    exact ⟨hjk, (piR a q j hj).2⟩
  intro i k q hi hk hqi hqk
  obtain ⟨hi', hia⟩ := Lv i hi
  obtain ⟨hk', hka⟩ := Lv k hk
  refine ⟨fun hlt => ?_, fun hlt => ?_⟩
  · by_cases hib : i = b
    · subst hib
      have hkb : k ≠ i := by omega
      have hqk' := (Qo k q hkb).1 hqk
      by_cases hqa : qS a q
      · have hka' : k < a := by
          by_contra hc
          have := (D12 k q hqa hk' (by omega) hqk').1; omega
        obtain ⟨j, hj, hkj⟩ := (wS a k q la hk' hqa hqk').1 hka'
        exact ⟨j, E1 q j hqa hj, hkj⟩
      · have hqb : qS i q := by
          rcases (Qb q).1 hqi with h | h
          · exact h
          · exact absurd h hqa
        obtain ⟨j, hj, hkj⟩ := (wS i k q hi' hk' hqb hqk').1 hlt
        exact ⟨j, by rw [E2 q hqa]; exact hj, hkj⟩
    · have hqi' := (Qo i q hib).1 hqi
      rw [E4 i q hib]
      by_cases hkb : k = b
      · subst hkb
        rcases (Qb q).1 hqk with h | h
        · exact (wS i k q hi' hk' hqi' h).1 hlt
        · exact (wS i k q hi' hk' hqi' (D12 i q h hi' (by omega) hqi').2).1 hlt
      · exact (wS i k q hi' hk' hqi' ((Qo k q hkb).1 hqk)).1 hlt
  · by_cases hib : i = b
    · subst hib
      have hkb : k ≠ i := by omega
      have hqk' := (Qo k q hkb).1 hqk
      have hqb : qS i q := by
        rcases (Qb q).1 hqi with h | h
        · exact h
        · exact (D12 k q h hk' (by omega) hqk').2
      obtain ⟨j, hj, hjk⟩ := (wS i k q hi' hk' hqb hqk').2 hlt
      exact ⟨j, by rw [E3]; exact hj, hjk⟩
    · have hqi' := (Qo i q hib).1 hqi
      have old : ∃ j, RS i q = some j ∧ j ≤ k := by
        by_cases hkb : k = b
        · subst hkb
          rcases (Qb q).1 hqk with h | h
          · exact (wS i k q hi' hk' hqi' h).2 hlt
          · by_cases hia' : a < i
            · have := (D12 i q h hi' hia' hqi').1; omega
            · obtain ⟨j, hj, hja⟩ := (wS i a q hi' la hqi' h).2 (by omega)
              exact ⟨j, hj, by omega⟩
        · exact (wS i k q hi' hk' hqi' ((Qo k q hkb).1 hqk)).2 hlt
      rcases E5 i q hib with h | ⟨h1, h2, h3⟩
      · rw [h]; exact old
      · refine ⟨b, h1, ?_⟩
        by_cases hkb : k = b
        · omega
        · have hqk' := (Qo k q hkb).1 hqk
          have hia2 := (piL a q i h3).1
          by_cases hka' : a < k
          · exact (D12 k q h2 hk' hka' hqk').1
          · obtain ⟨j, hj, hkj⟩ := (wS a k q la hk' h2 hqk').1 (by omega)
            rw [h3] at hj; simp at hj; omega

/-! ### effect of the pointer loops of `fuseNodes` -/

theorem eff_fold {E : (Nat → Prop) → FState → Prop} (step : FState → Nat → FState) :
    ∀ (l : List Nat), (∀ D t q, q ∈ l → E D t → E (fun x => x = q ∨ D x) (step t q)) →
      ∀ D t, E D t → E (fun x => x ∈ l ∨ D x) (l.foldl step t)
  | [], _, D, t, e => by
    have : (fun x => x ∈ ([] : List Nat) ∨ D x) = D := by funext x; simp
    rw [this]; exact e
  | q :: l, hstep, D, t, e => by
    have ih := eff_fold step l (fun D t q' hq' e => hstep D t q' (List.mem_cons_of_mem _ hq') e)
      _ _ (hstep D t q (List.mem_cons_self ..) e)
    have : (fun x => x ∈ q :: l ∨ D x) = (fun x => x ∈ l ∨ (x = q ∨ D x)) := by
      funext x; simp only [List.mem_cons, eq_iff_iff]; tauto
    rw [this]; exact ih

/-- two successive updates at distinct in-range positions. -/
theorem nodeAt_modify2 (t : FState) {p nb : Nat} (f g : FNode → FNode) (hne : p ≠ nb)
    (hp : p < t.size) (hnb : nb < t.size) :
    nodeAt ((t.modify p f).modify nb g) p = f (nodeAt t p) ∧
    nodeAt ((t.modify p f).modify nb g) nb = g (nodeAt t nb) ∧
    ∀ i, i ≠ p → i ≠ nb → nodeAt ((t.modify p f).modify nb g) i = nodeAt t i := by
  refine ⟨?_, ?_, fun i h1 h2 => ?_⟩
  · rw [nodeAt_modify_ne _ _ (Ne.symm hne), nodeAt_modify_self _ _ hp]
  · rw [nodeAt_modify_self _ _ (by simpa using hnb), nodeAt_modify_ne _ _ hne]
  · rw [nodeAt_modify_ne _ _ (Ne.symm h2), nodeAt_modify_ne _ _ (Ne.symm h1)]

/-- effect of "right" relinking steps (parent `p`, child `c`, processed qubits `D`) relative to
the state `s2` before the loops. -/
structure EffR (s2 : FState) (p c : Nat) (D : Nat → Prop) (t : FState) : Prop where
  size : t.size = s2.size
  child : nodeAt t c = nodeAt s2 c
  e1 : ∀ q nb, D q → dget (nodeAt s2 c).right q = some nb → dget (nodeAt t p).right q = some nb
  e2 : ∀ q, ¬ D q → dget (nodeAt t p).right q = dget (nodeAt s2 p).right q
  e3 : (nodeAt t p).left = (nodeAt s2 p).left
  e4 : ∀ i, i ≠ p → (nodeAt t i).right = (nodeAt s2 i).right
  e5 : ∀ i q, i ≠ p → dget (nodeAt t i).left q = dget (nodeAt s2 i).left q ∨
      (dget (nodeAt t i).left q = some p ∧ D q ∧ dget (nodeAt s2 c).right q = some i)

theorem EffR.init (s2 : FState) (p c : Nat) : EffR s2 p c (fun _ => False) s2 :=
  ⟨rfl, rfl, fun _ _ h => h.elim, fun _ _ => rfl, rfl, fun _ _ => rfl, fun _ _ _ => Or.inl rfl⟩

theorem EffR.link {s2 t : FState} {p c q nb : Nat} {D : Nat → Prop} (pi2 : PI s2) (hpc : p < c)
    (e : EffR s2 p c D t) (hnb : dget (nodeAt t c).right q = some nb) :
    EffR s2 p c (fun x => x = q ∨ D x)
      ((t.modify p (fun nd => { nd with right := dset nd.right q nb })).modify nb
        (fun nd => { nd with left := dset nd.left q p })) := by
  have hnb2 : dget (nodeAt s2 c).right q = some nb := by rw [← e.child]; exact hnb
  obtain ⟨h1, h2, _⟩ := (pi2 c q nb).1 hnb2
  obtain ⟨hP, hN, hO⟩ := nodeAt_modify2 t (fun nd => { nd with right := dset nd.right q nb })
    (fun nd => { nd with left := dset nd.left q p }) (by omega : p ≠ nb)
    (by rw [e.size]; omega) (by rw [e.size]; exact h2)
  refine ⟨by simp [e.size], ?_, ?_, ?_, ?_, ?_, ?_⟩
  · rw [hO c (by omega) (by omega)]; exact e.child
  · intro q' nb' hD hs
    rw [hP]
    show dget (dset (nodeAt t p).right q nb) q' = some nb'
    rw [dget_dset]
    split_ifs with hq
    · subst hq; rw [hnb2] at hs; exact hs
    · rcases hD with h | h
      · exact absurd h hq
      · exact e.e1 q' nb' h hs
  · intro q' hD
    rw [hP]
    show dget (dset (nodeAt t p).right q nb) q' = _
    rw [dget_dset, if_neg (fun h => hD (Or.inl h))]
    exact e.e2 q' (fun h => hD (Or.inr h))
  · rw [hP]; exact e.e3
  · intro i hi
    by_cases hin : i = nb
    · subst hin; rw [hN]; exact e.e4 i hi
    · rw [hO i hi hin]; exact e.e4 i hi
  · intro i q' hi
    by_cases hin : i = nb
    · subst hin
      rw [hN]
      show dget (dset (nodeAt t i).left q p) q' = _ ∨ dget (dset (nodeAt t i).left q p) q' = _ ∧ _
      rw [dget_dset]
      split_ifs with hq
      · subst hq; exact Or.inr ⟨rfl, Or.inl rfl, hnb2⟩
      · rcases e.e5 i q' hi with h | ⟨a1, a2, a3⟩
        · exact Or.inl h
        · exact Or.inr ⟨a1, Or.inr a2, a3⟩
    · rw [hO i hi hin]
      rcases e.e5 i q' hi with h | ⟨a1, a2, a3⟩
      · exact Or.inl h
      · exact Or.inr ⟨a1, Or.inr a2, a3⟩

theorem EffR.skip {s2 t : FState} {p c q : Nat} {D : Nat → Prop}
    (e : EffR s2 p c D t) (hnb : dget (nodeAt t c).right q = none) :
    EffR s2 p c (fun x => x = q ∨ D x) t := by
  have hnb2 : dget (nodeAt s2 c).right q = none := by rw [← e.child]; exact hnb
  refine ⟨e.size, e.child, ?_, fun q' hD => e.e2 q' (fun h => hD (Or.inr h)), e.e3, e.e4, ?_⟩
  · intro q' nb' hD hs
    rcases hD with h | h
    · subst h; rw [hnb2] at hs; simp at hs
    · exact e.e1 q' nb' h hs
  · intro i q' hi
    rcases e.e5 i q' hi with h | ⟨a1, a2, a3⟩
    · exact Or.inl h
    · exact Or.inr ⟨a1, Or.inr a2, a3⟩

theorem EffR.linkRight {s2 t : FState} {p c : Nat} {D : Nat → Prop} (pi2 : PI s2) (hpc : p < c)
    (e : EffR s2 p c D t) (q : Nat) :
    EffR s2 p c (fun x => x = q ∨ D x) (linkRight t p c q) := by
  unfold QV.linkRight
  split
  · rename_i nb hnb; exact e.link pi2 hpc hnb
  · rename_i hnb; exact e.skip hnb

theorem EffR.sharedStep1 {s2 t : FState} {p c : Nat} {D : Nat → Prop} (pi2 : PI s2) (hpc : p < c)
    (hp : p < s2.size) (e : EffR s2 p c D t) (q : Nat) :
    EffR s2 p c (fun x => x = q ∨ D x) (sharedStep1 p c t q) := by
  unfold QV.sharedStep1
  split
  · rename_i nb hnb; exact e.link pi2 hpc hnb
  · rename_i hnb
    have hnb2 : dget (nodeAt s2 c).right q = none := by rw [← e.child]; exact hnb
    have hP : nodeAt (t.modify p (fun nd => { nd with right := dpop nd.right q })) p
        = { nodeAt t p with right := dpop (nodeAt t p).right q } :=
      nodeAt_modify_self _ _ (by rw [e.size]; exact hp)
    have hO : ∀ i, i ≠ p →
        nodeAt (t.modify p (fun nd => { nd with right := dpop nd.right q })) i = nodeAt t i :=
      fun i hi => nodeAt_modify_ne _ _ (Ne.symm hi)
    refine ⟨by simp [e.size], ?_, ?_, ?_, ?_, ?_, ?_⟩
    · rw [hO c (by omega)]; exact e.child
    · intro q' nb' hD hs
      rw [hP]
      show dget (dpop (nodeAt t p).right q) q' = some nb'
      rw [dget_dpop]
      split_ifs with hq
      · subst hq; rw [hnb2] at hs; simp at hs
      · rcases hD with h | h
        · exact absurd h hq
        · exact e.e1 q' nb' h hs
    · intro q' hD
      rw [hP]
      show dget (dpop (nodeAt t p).right q) q' = _
      rw [dget_dpop, if_neg (fun h => hD (Or.inl h))]
      exact e.e2 q' (fun h => hD (Or.inr h))
    · rw [hP]; exact e.e3
    · intro i hi; rw [hO i hi]; exact e.e4 i hi
    · intro i q' hi
      rw [hO i hi]
      rcases e.e5 i q' hi with h | ⟨a1, a2, a3⟩
      · exact Or.inl h
      · exact Or.inr ⟨a1, Or.inr a2, a3⟩

/-- effect of "left" relinking steps (parent `p`, child `c`). -/
structure EffL (s2 : FState) (p c : Nat) (D : Nat → Prop) (t : FState) : Prop where
  size : t.size = s2.size
  child : nodeAt t c = nodeAt s2 c
  e1 : ∀ q nb, D q → dget (nodeAt s2 c).left q = some nb → dget (nodeAt t p).left q = some nb
  e2 : ∀ q, ¬ D q → dget (nodeAt t p).left q = dget (nodeAt s2 p).left q
  e3 : (nodeAt t p).right = (nodeAt s2 p).right
  e4 : ∀ i, i ≠ p → (nodeAt t i).left = (nodeAt s2 i).left
  e5 : ∀ i q, i ≠ p → dget (nodeAt t i).right q = dget (nodeAt s2 i).right q ∨
      (dget (nodeAt t i).right q = some p ∧ D q ∧ dget (nodeAt s2 c).left q = some i)

theorem EffL.init (s2 : FState) (p c : Nat) : EffL s2 p c (fun _ => False) s2 :=
  ⟨rfl, rfl, fun _ _ h => h.elim, fun _ _ => rfl, rfl, fun _ _ => rfl, fun _ _ _ => Or.inl rfl⟩

theorem EffL.link {s2 t : FState} {p c q nb : Nat} {D : Nat → Prop} (pi2 : PI s2) (hcp : c < p)
    (hp : p < s2.size) (e : EffL s2 p c D t) (hnb : dget (nodeAt t c).left q = some nb) :
    EffL s2 p c (fun x => x = q ∨ D x)
      ((t.modify p (fun nd => { nd with left := dset nd.left q nb })).modify nb
        (fun nd => { nd with right := dset nd.right q p })) := by
  have hnb2 : dget (nodeAt s2 c).left q = some nb := by rw [← e.child]; exact hnb
  obtain ⟨h1, _⟩ := (pi2 c q nb).2 hnb2
  obtain ⟨hP, hN, hO⟩ := nodeAt_modify2 t (fun nd => { nd with left := dset nd.left q nb })
    (fun nd => { nd with right := dset nd.right q p }) (by omega : p ≠ nb)
    (by rw [e.size]; omega) (by rw [e.size]; omega)
  refine ⟨by simp [e.size], ?_, ?_, ?_, ?_, ?_, ?_⟩
  · rw [hO c (by omega) (by omega)]; exact e.child
  · intro q' nb' hD hs
    rw [hP]
    show dget (dset (nodeAt t p).left q nb) q' = some nb'
    rw [dget_dset]
    split_ifs with hq
    · subst hq; rw [hnb2] at hs; exact hs
    · rcases hD with h | h
      · exact absurd h hq
      · exact e.e1 q' nb' h hs
  · intro q' hD
    rw [hP]
    show dget (dset (nodeAt t p).left q nb) q' = _
    rw [dget_dset, if_neg (fun h => hD (Or.inl h))]
    exact e.e2 q' (fun h => hD (Or.inr h))
  · rw [hP]; exact e.e3
  · intro i hi
    by_cases hin : i = nb
    · subst hin; rw [hN]; exact e.e4 i hi
    · rw [hO i hi hin]; exact e.e4 i hi
  · intro i q' hi
    by_cases hin : i = nb
    · subst hin
      rw [hN]
      show dget (dset (nodeAt t i).right q p) q' = _ ∨ dget (dset (nodeAt t i).right q p) q' = _ ∧ _
      rw [dget_dset]
      split_ifs with hq
      · subst hq; exact Or.inr ⟨rfl, Or.inl rfl, hnb2⟩
      · rcases e.e5 i q' hi with h | ⟨a1, a2, a3⟩
        · exact Or.inl h
        · exact Or.inr ⟨a1, Or.inr a2, a3⟩
    · rw [hO i hi hin]
      rcases e.e5 i q' hi with h | ⟨a1, a2, a3⟩
      · exact Or.inl h
      · exact Or.inr ⟨a1, Or.inr a2, a3⟩

theorem EffL.skip {s2 t : FState} {p c q : Nat} {D : Nat → Prop}
    (e : EffL s2 p c D t) (hnb : dget (nodeAt t c).left q = none) :
    EffL s2 p c (fun x => x = q ∨ D x) t := by
  have hnb2 : dget (nodeAt s2 c).left q = none := by rw [← e.child]; exact hnb
  refine ⟨e.size, e.child, ?_, fun q' hD => e.e2 q' (fun h => hD (Or.inr h)), e.e3, e.e4, ?_⟩
  · intro q' nb' hD hs
    rcases hD with h | h
    · subst h; rw [hnb2] at hs; simp at hs
    · exact e.e1 q' nb' h hs
  · intro i q' hi
    rcases e.e5 i q' hi with h | ⟨a1, a2, a3⟩
    · exact Or.inl h
    · exact Or.inr ⟨a1, Or.inr a2, a3⟩

theorem EffL.linkLeft {s2 t : FState} {p c : Nat} {D : Nat → Prop} (pi2 : PI s2) (hcp : c < p)
    (hp : p < s2.size) (e : EffL s2 p c D t) (q : Nat) :
    EffL s2 p c (fun x => x = q ∨ D x) (linkLeft t p c q) := by
  unfold QV.linkLeft
  split
  · rename_i nb hnb; exact e.link pi2 hcp hp hnb
  · rename_i hnb; exact e.skip hnb

/-! ### the branches of `fuseNodes`, with guards and pointer effects -/

theorem pred_ext {D D' : Nat → Prop} (h : ∀ x, D x ↔ D' x) : D = D' :=
  funext (fun x => propext (h x))

theorem EffR.congrD {s2 t : FState} {p c : Nat} {D D' : Nat → Prop} (e : EffR s2 p c D t)
    (h : ∀ x, D x ↔ D' x) : EffR s2 p c D' t := pred_ext h ▸ e

theorem EffL.congrD {s2 t : FState} {p c : Nat} {D D' : Nat → Prop} (e : EffL s2 p c D t)
    (h : ∀ x, D x ↔ D' x) : EffL s2 p c D' t := pred_ext h ▸ e

theorem fuseNodes_branch {s : FState} (pi : PI s) {a b : Nat} (hab : a < b) (hb : b < s.size) :
    fuseNodes s a b = s ∨
    ((∀ q nb, dget (nodeAt s b).left q = some nb → nb = a) ∧
      SameCore (state1 s a b) (fuseNodes s a b) ∧
      EffR (state1 s a b) a b (fun x => x ∈ (nodeAt s b).qubits) (fuseNodes s a b)) ∨
    ((∀ q nb, dget (nodeAt s a).right q = some nb → nb = b) ∧
      SameCore (state2 s a b) (fuseNodes s a b) ∧
      EffL (state2 s a b) b a (fun x => x ∈ (nodeAt s a).qubits) (fuseNodes s a b)) := by
  have ha : a < s.size := by omega
  have hne : a ≠ b := by omega
  unfold fuseNodes
  simp only []
  split_ifs with g1 g2 c1 c2
  · exact Or.inl rfl
  · -- parent `a`, child `b`
    right; left
    have hR : (dvals (nodeAt s b).left).filter (· != a) = [] := by
      apply List.eq_nil_of_length_eq_zero
      simp only [Bool.and_eq_true, decide_eq_true_eq, not_and] at g1
      omega
    have hguard := guard_of_filter_nil hR
    have pi2 := state1_PI pi a b
    have hsz : a < (state1 s a b).size := by simpa [state1] using ha
    refine ⟨hguard, ?_, ?_⟩
    · refine SameCore.trans ?_ (rewire_sameCore _ _ _ _)
      exact sameCore_foldl _ (sharedStep1_sameCore a b) _ _
    · have e3 := eff_fold (E := EffR (state1 s a b) a b) (sharedStep1 a b)
        ((nodeAt s a).qubits.filter (fun q => (nodeAt s b).qubits.contains q))
        (fun D t q _ e => e.sharedStep1 pi2 hab hsz q) _ _ (EffR.init _ a b)
      have hchild := e3.child
      have e4 := eff_fold (E := EffR (state1 s a b) a b)
        (fun s q => linkLeft (linkRight s a b q) a b q)
        ((nodeAt (((nodeAt s a).qubits.filter (fun q => (nodeAt s b).qubits.contains q)).foldl
            (sharedStep1 a b) (state1 s a b)) b).qubits.filter
          (fun q => !((nodeAt s a).qubits.filter
            (fun q => (nodeAt s b).qubits.contains q)).contains q))
        (fun D t q hq e => by
          have e' := e.linkRight pi2 hab q
          have hnone : dget (nodeAt (linkRight t a b q) b).left q = none := by
            rw [e'.child, (state1_child hne hb).2]
            obtain ⟨hq1, hq2⟩ := List.mem_filter.1 hq
            rw [hchild, (state1_child hne hb).1] at hq1
            cases hd : dget (nodeAt s b).left q with
            | none => rfl
            | some nb =>
              have := hguard q nb hd; subst this
              have hqA := ((pi b q nb).2 hd).2
              simp at hq2
              rcases hq2 with h | h
              · exact absurd hqA h
              · exact absurd hq1 h
          show EffR _ a b _ (linkLeft (linkRight t a b q) a b q)
          rw [linkLeft_none hnone]; exact e') _ _ e3
      refine e4.congrD (fun x => ?_)
      rw [hchild, (state1_child hne hb).1]
      simp only [List.mem_filter, List.contains_iff_mem, Bool.not_eq_true', or_false]
      by_cases hx : x ∈ (nodeAt s b).qubits <;> by_cases hx' : x ∈ (nodeAt s a).qubits <;>
        simp [hx, hx']
  · exact Or.inl rfl
  · -- parent `b`, child `a`
    right; right
    have hL : (dvals (nodeAt s a).right).filter (· != b) = [] := by
      apply List.eq_nil_of_length_eq_zero
      simp only [Bool.and_eq_true, decide_eq_true_eq, not_and] at g1
      omega
    have hguard := guard_of_filter_nil hL
    have pi2 := state2_PI pi a b
    have hsz : b < (state2 s a b).size := by simpa [state2] using hb
    refine ⟨hguard, ?_, ?_⟩
    · refine SameCore.trans ?_ (rewire_sameCore _ _ _ _)
      exact sameCore_foldl _ (fun s q => linkLeft_sameCore _ _ _ _) _ _
    · have e3 := eff_fold (E := EffL (state2 s a b) b a) (fun t q => linkLeft t b a q)
        ((nodeAt s a).qubits.filter (fun q => (nodeAt s b).qubits.contains q))
        (fun D t q _ e => e.linkLeft pi2 hab hsz q) _ _ (EffL.init _ b a)
      have hchild := e3.child
      have e4 := eff_fold (E := EffL (state2 s a b) b a)
        (fun s q => linkLeft (linkRight s b a q) b a q)
        ((nodeAt (((nodeAt s a).qubits.filter (fun q => (nodeAt s b).qubits.contains q)).foldl
            (fun t q => linkLeft t b a q) (state2 s a b)) a).qubits.filter
          (fun q => !((nodeAt s a).qubits.filter
            (fun q => (nodeAt s b).qubits.contains q)).contains q))
        (fun D t q hq e => by
          have hnone : dget (nodeAt t a).right q = none := by
            rw [e.child, (state2_child hne ha).2]
            obtain ⟨hq1, hq2⟩ := List.mem_filter.1 hq
            rw [hchild, (state2_child hne ha).1] at hq1
            cases hd : dget (nodeAt s a).right q with
            | none => rfl
            | some nb =>
              have := hguard q nb hd; subst this
              have hqB := ((pi a q nb).1 hd).2.2
              simp at hq2
              rcases hq2 with h | h
              · exact absurd hq1 h
              · exact absurd hqB h
          show EffL _ b a _ (linkLeft (linkRight t b a q) b a q)
          rw [linkRight_none hnone]; exact e.linkLeft pi2 hab hsz q) _ _ e3
      refine e4.congrD (fun x => ?_)
      rw [hchild, (state2_child hne ha).1]
      simp only [List.mem_filter, List.contains_iff_mem, Bool.not_eq_true', or_false]
      by_cases hx : x ∈ (nodeAt s b).qubits <;> by_cases hx' : x ∈ (nodeAt s a).qubits <;>
        simp [hx, hx']
  · exact Or.inl rfl

/-! ### `fuseNodes` preserves the neighbour invariant and the trace -/

/-- the neighbour invariant of a state. -/
def W (queue : List FIn) (s : FState) : Prop :=
  WProp (Live queue s) (fun i q => q ∈ (nodeAt s i).qubits)
    (fun i q => dget (nodeAt s i).left q) (fun i q => dget (nodeAt s i).right q)

theorem state1_ptr (s : FState) (a b i : Nat) :
    (nodeAt (state1 s a b) i).left = (nodeAt s i).left ∧
    (nodeAt (state1 s a b) i).right = (nodeAt s i).right := by
  unfold state1
  rw [nodeAt_modify, nodeAt_modify]
  split_ifs <;> exact ⟨rfl, rfl⟩

theorem state2_ptr (s : FState) (a b i : Nat) :
    (nodeAt (state2 s a b) i).left = (nodeAt s i).left ∧
    (nodeAt (state2 s a b) i).right = (nodeAt s i).right := by
  unfold state2
  rw [nodeAt_modify, nodeAt_modify]
  split_ifs <;> exact ⟨rfl, rfl⟩

theorem state1_other (s : FState) {a b i : Nat} (h1 : i ≠ a) (h2 : i ≠ b) :
    nodeAt (state1 s a b) i = nodeAt s i := by
  unfold state1
  rw [nodeAt_modify_ne _ _ (Ne.symm h1), nodeAt_modify_ne _ _ (Ne.symm h2)]

theorem state2_other (s : FState) {a b i : Nat} (h1 : i ≠ a) (h2 : i ≠ b) :
    nodeAt (state2 s a b) i = nodeAt s i := by
  unfold state2
  rw [nodeAt_modify_ne _ _ (Ne.symm h2), nodeAt_modify_ne _ _ (Ne.symm h1)]

theorem not_live_marked {s : FState} (ok : AllOK n maxq queue s) {c : Nat} (hc : c < s.size)
    (hC : (nodeAt s c).marked = false) :
    ¬ ((({ nodeAt s c with marked := true } : FNode).marked = false) ∨
      contrib queue ({ nodeAt s c with marked := true } : FNode) ≠ []) := by
  rintro (h | h)
  · simp at h
  · exact h (contrib_mark (ok c hc) hC)

theorem fuseNodes_W {s : FState} (ok : AllOK n maxq queue s) (pi : PI s) (w : W queue s)
    {a b : Nat} (hab : a < b) (hb : b < s.size) (hA : (nodeAt s a).marked = false)
    (hB : (nodeAt s b).marked = false) :
    W queue (fuseNodes s a b) ∧
    TraceEq TGate.qs ((content queue s).map (gItem n queue))
      ((content queue (fuseNodes s a b)).map (gItem n queue)) := by
  have ha : a < s.size := by omega
  have hne : a ≠ b := by omega
  have la : Live queue s a := Or.inl hA
  have lb : Live queue s b := Or.inl hB
  rcases fuseNodes_branch pi hab hb with h | ⟨hG, sc, e⟩ | ⟨hG, sc, e⟩
  · rw [h]; exact ⟨w, TraceEq.refl _ _⟩
  · -- append
    refine ⟨?_, ?_⟩
    · refine W_append_logic (Live queue s) _ (fun i q => q ∈ (nodeAt s i).qubits) _
        (fun i q => dget (nodeAt s i).left q) (fun i q => dget (nodeAt s i).right q) _ _ a b hab
        (fun i q j h => ⟨((pi i q j).1 h).1, ((pi i q j).1 h).2.2⟩) (fun i q j h => (pi i q j).2 h)
        w la lb hG ?_ ?_ ?_ ?_ ?_ ?_ ?_ ?_
      · intro k hk
        rw [Live.congr sc] at hk
        by_cases hkb : k = b
        · subst hkb
          exfalso
          unfold Live state1 at hk
          rw [nodeAt_modify_ne _ _ hne, nodeAt_modify_self _ _ hb] at hk
          exact not_live_marked ok hb hB hk
        · refine ⟨?_, hkb⟩
          by_cases hka : k = a
          · subst hka; exact la
          · unfold Live at hk ⊢; rw [state1_other s hka hkb] at hk; exact hk
      · intro q
        show q ∈ (nodeAt (fuseNodes s a b) a).qubits ↔ _
        rw [sc.qubits a, state1_parent hne ha, mem_unionS]
      · intro k q hka
        show q ∈ (nodeAt (fuseNodes s a b) k).qubits ↔ _
        rw [sc.qubits k]
        by_cases hkb : k = b
        · subst hkb; rw [(state1_child hne hb).1]
        · rw [state1_other s hka hkb]
      · intro q nb hq h
        exact e.e1 q nb hq (by rw [(state1_ptr s a b b).2]; exact h)
      · intro q hq
        show dget (nodeAt (fuseNodes s a b) a).right q = _
        rw [e.e2 q hq, (state1_ptr s a b a).2]
      · intro q
        show dget (nodeAt (fuseNodes s a b) a).left q = _
        rw [e.e3, (state1_ptr s a b a).1]
      · intro i q hi
        show dget (nodeAt (fuseNodes s a b) i).right q = _
        rw [e.e4 i hi, (state1_ptr s a b i).2]
      · intro i q hi
        show dget (nodeAt (fuseNodes s a b) i).left q = _ ∨
          (dget (nodeAt (fuseNodes s a b) i).left q = _ ∧ _)
        have := e.e5 i q hi
        rw [(state1_ptr s a b i).1, (state1_ptr s a b b).2] at this
        exact this
    · refine content_append ok hab hb hA hB sc (fun k h1 h2 hk q hqb hqk => ?_)
      obtain ⟨j, hj, hkj⟩ := (w b k q lb hk hqb hqk).1 h2
      have := hG q j hj
      omega
  · -- prepend
    refine ⟨?_, ?_⟩
    · refine W_prepend_logic (Live queue s) _ (fun i q => q ∈ (nodeAt s i).qubits) _
        (fun i q => dget (nodeAt s i).left q) (fun i q => dget (nodeAt s i).right q) _ _ a b hab
        (fun i q j h => ⟨((pi i q j).1 h).1, ((pi i q j).1 h).2.2⟩) (fun i q j h => (pi i q j).2 h)
        w la lb hG ?_ ?_ ?_ ?_ ?_ ?_ ?_ ?_
      · intro k hk
        rw [Live.congr sc] at hk
        by_cases hka : k = a
        · subst hka
          exfalso
          unfold Live state2 at hk
          rw [nodeAt_modify_ne _ _ (Ne.symm hne), nodeAt_modify_self _ _ ha] at hk
          exact not_live_marked ok ha hA hk
        · refine ⟨?_, hka⟩
          by_cases hkb : k = b
          · subst hkb; exact lb
          · unfold Live at hk ⊢; rw [state2_other s hka hkb] at hk; exact hk
      · intro q
        show q ∈ (nodeAt (fuseNodes s a b) b).qubits ↔ _
        rw [sc.qubits b, state2_parent hne hb, mem_unionS]
      · intro k q hkb
        show q ∈ (nodeAt (fuseNodes s a b) k).qubits ↔ _
        rw [sc.qubits k]
        by_cases hka : k = a
        · subst hka; rw [(state2_child hne ha).1]
        · rw [state2_other s hka hkb]
      · intro q nb hq h
        exact e.e1 q nb hq (by rw [(state2_ptr s a b a).1]; exact h)
      · intro q hq
        show dget (nodeAt (fuseNodes s a b) b).left q = _
        rw [e.e2 q hq, (state2_ptr s a b b).1]
      · intro q
        show dget (nodeAt (fuseNodes s a b) b).right q = _
        rw [e.e3, (state2_ptr s a b b).2]
      · intro i q hi
        show dget (nodeAt (fuseNodes s a b) i).left q = _
        rw [e.e4 i hi, (state2_ptr s a b i).1]
      · intro i q hi
        show dget (nodeAt (fuseNodes s a b) i).right q = _ ∨
          (dget (nodeAt (fuseNodes s a b) i).right q = _ ∧ _)
        have := e.e5 i q hi
        rw [(state2_ptr s a b i).2, (state2_ptr s a b a).1] at this
        exact this
    · refine content_prepend ok hab hb hA hB sc (fun k h1 h2 hk q hqa hqk => ?_)
      obtain ⟨j, hj, hjk⟩ := (w a k q la hk hqa hqk).2 h1
      have := hG q j hj
      omega

/-! ### the initial graph satisfies the neighbour invariant -/

theorem eff_fold_nodup {σ : Type} {E : (Nat → Prop) → σ → Prop} (step : σ → Nat → σ)
    (hstep : ∀ D t q, ¬ D q → E D t → E (fun x => x = q ∨ D x) (step t q)) :
    ∀ (l : List Nat), l.Nodup → ∀ D t, (∀ x ∈ l, ¬ D x) → E D t →
      E (fun x => x ∈ l ∨ D x) (l.foldl step t)
  | [], _, D, t, _, e => by
    have : (fun x => x ∈ ([] : List Nat) ∨ D x) = D := by funext x; simp
    rw [this]; exact e
  | q :: l, hnd, D, t, hD, e => by
    rw [List.nodup_cons] at hnd
    have ih := eff_fold_nodup step hstep l hnd.2 (fun x => x = q ∨ D x) (step t q)
      (fun x hx h => by
        rcases h with h | h
        · subst h; exact hnd.1 hx
        · exact hD x (List.mem_cons_of_mem _ hx) h)
      (hstep D t q (hD q (List.mem_cons_self ..)) e)
    have : (fun x => x ∈ q :: l ∨ D x) = (fun x => x ∈ l ∨ (x = q ∨ D x)) := by
      funext x; simp only [List.mem_cons, eq_iff_iff]; tauto
    rw [this]; exact ih

/-- effect of the inner loop of `toFused` for the new node `i`. -/
structure EffT (s0 : FState) (last0 : Dict) (i : Nat) (D : Nat → Prop) (tl : FState × Dict) :
    Prop where
  size : tl.1.size = s0.size
  l1 : ∀ q, D q → dget tl.2 q = some i
  l2 : ∀ q, ¬ D q → dget tl.2 q = dget last0 q
  n1 : ∀ q, D q → dget (nodeAt tl.1 i).left q = dget last0 q
  n2 : ∀ q, ¬ D q → dget (nodeAt tl.1 i).left q = none
  o1 : ∀ j, j ≠ i → (nodeAt tl.1 j).left = (nodeAt s0 j).left
  o2 : ∀ j q, j ≠ i → D q → dget last0 q = some j → dget (nodeAt tl.1 j).right q = some i
  o3 : ∀ j q, j ≠ i → ¬ (D q ∧ dget last0 q = some j) →
    dget (nodeAt tl.1 j).right q = dget (nodeAt s0 j).right q

theorem EffT.step {s0 : FState} {last0 : Dict} {i : Nat} {D : Nat → Prop} {tl : FState × Dict}
    (hi : i < s0.size) (hlast : ∀ q nb, dget last0 q = some nb → nb < i)
    (q : Nat) (hq : ¬ D q) (e : EffT s0 last0 i D tl) :
    EffT s0 last0 i (fun x => x = q ∨ D x) (tfInner i tl q) := by
  have hL1 : ∀ q', (q' = q ∨ D q') → dget (dset tl.2 q i) q' = some i := by
    intro q' h
    rw [dget_dset]
    split_ifs with hq'
    · rfl
    · rcases h with h | h
      · exact absurd h hq'
      · exact e.l1 q' h
  have hL2 : ∀ q', ¬ (q' = q ∨ D q') → dget (dset tl.2 q i) q' = dget last0 q' := by
    intro q' h
    rw [dget_dset, if_neg (fun h' => h (Or.inl h'))]
    exact e.l2 q' (fun h' => h (Or.inr h'))
  have hlq : dget tl.2 q = dget last0 q := e.l2 q hq
  unfold tfInner
  cases hd : dget tl.2 q with
  | none =>
    dsimp only
    rw [hlq] at hd
    refine ⟨e.size, hL1, hL2, ?_, fun q' h => e.n2 q' (fun h' => h (Or.inr h')), e.o1, ?_, ?_⟩
    · intro q' h
      rcases h with h | h
      · subst h; rw [hd]; exact e.n2 q' hq
      · exact e.n1 q' h
    · intro j q' hj h hl
      rcases h with h | h
      · subst h; rw [hd] at hl; simp at hl
      · exact e.o2 j q' hj h hl
    · intro j q' hj h
      exact e.o3 j q' hj (fun h' => h ⟨Or.inr h'.1, h'.2⟩)
  | some nb =>
    dsimp only
    rw [hlq] at hd
    have hnb := hlast q nb hd
    obtain ⟨hP, hN, hO⟩ := nodeAt_modify2 tl.1 (fun nd => { nd with left := dset nd.left q nb })
      (fun nd => { nd with right := dset nd.right q i }) (by omega : i ≠ nb)
      (by rw [e.size]; omega) (by rw [e.size]; omega)
    refine ⟨by simp [e.size], hL1, hL2, ?_, ?_, ?_, ?_, ?_⟩
    · intro q' h
      rw [hP]
      show dget (dset (nodeAt tl.1 i).left q nb) q' = _
      rw [dget_dset]
      split_ifs with hq'
      · subst hq'; exact hd.symm
      · rcases h with h | h
        · exact absurd h hq'
        · exact e.n1 q' h
    · intro q' h
      rw [hP]
      show dget (dset (nodeAt tl.1 i).left q nb) q' = _
      rw [dget_dset, if_neg (fun h' => h (Or.inl h'))]
      exact e.n2 q' (fun h' => h (Or.inr h'))
    · intro j hj
      by_cases hjn : j = nb
      · subst hjn; rw [hN]; exact e.o1 j hj
      · rw [hO j hj hjn]; exact e.o1 j hj
    · intro j q' hj h hl
      by_cases hjn : j = nb
      · subst hjn
        rw [hN]
        show dget (dset (nodeAt tl.1 j).right q i) q' = _
        rw [dget_dset]
        split_ifs with hq'
        · rfl
        · rcases h with h | h
          · exact absurd h hq'
          · exact e.o2 j q' hj h hl
      · rw [hO j hj hjn]
        rcases h with h | h
        · subst h; rw [hd] at hl; simp at hl; exact absurd hl.symm hjn
        · exact e.o2 j q' hj h hl
    · intro j q' hj h
      by_cases hjn : j = nb
      · subst hjn
        rw [hN]
        show dget (dset (nodeAt tl.1 j).right q i) q' = _
        rw [dget_dset]
        split_ifs with hq'
        · subst hq'; exact absurd ⟨Or.inl rfl, hd⟩ h
        · exact e.o3 j q' hj (fun h' => h ⟨Or.inr h'.1, h'.2⟩)
      · rw [hO j hj hjn]
        exact e.o3 j q' hj (fun h' => h ⟨Or.inr h'.1, h'.2⟩)

/-- the neighbour property for ALL nodes (every node of the initial graph is live). -/
def TW (s : FState) : Prop := ∀ i k q, q ∈ (nodeAt s i).qubits → q ∈ (nodeAt s k).qubits →
  (k < i → ∃ j, dget (nodeAt s i).left q = some j ∧ k ≤ j) ∧
  (i < k → ∃ j, dget (nodeAt s i).right q = some j ∧ j ≤ k)

/-- `last` points at or beyond every node containing the qubit. -/
def LastW (s : FState) (last : Dict) : Prop :=
  ∀ j q, q ∈ (nodeAt s j).qubits → ∃ x, dget last q = some x ∧ j ≤ x

theorem TW.toW {s : FState} (h : TW s) : W queue s :=
  fun i k q _ _ hi hk => h i k q hi hk

theorem default_qubits : (default : FNode).qubits = [] := rfl

theorem tfStep_TW {s : FState} {last : Dict} (lok : LastOK s last) (tw : TW s)
    (lw : LastW s last) (Q : List Nat) (hQ : Q.Pairwise (· < ·)) (G : List Nat) (m : Bool) :
    TW (Q.foldl (tfInner s.size)
      (s.push { qubits := Q, gates := G, marked := m, left := [], right := [] }, last)).1 ∧
    LastW (Q.foldl (tfInner s.size)
      (s.push { qubits := Q, gates := G, marked := m, left := [], right := [] }, last)).1
      (Q.foldl (tfInner s.size)
      (s.push { qubits := Q, gates := G, marked := m, left := [], right := [] }, last)).2 := by
  generalize hs0 : s.push { qubits := Q, gates := G, marked := m, left := [], right := [] } = s0
  have h_lt : ∀ j, j < s.size → nodeAt s0 j = nodeAt s j := by
    intro j hj; rw [← hs0, nodeAt_push]; simp [hj]
  have h_eq : nodeAt s0 s.size =
      { qubits := Q, gates := G, marked := m, left := [], right := [] } := by
    rw [← hs0, nodeAt_push]; simp
  have h_gt : ∀ j, s.size < j → nodeAt s0 j = default := by
    intro j hj; rw [← hs0, nodeAt_push]
    rw [if_neg (by omega), if_neg (by omega)]
  have hsz : s0.size = s.size + 1 := by rw [← hs0]; simp
  have hsc := tfInner_fold_sameCore s.size Q (s0, last)
  have e0 : EffT s0 last s.size (fun _ => False) (s0, last) :=
    ⟨rfl, fun _ h => h.elim, fun _ _ => rfl, fun _ h => h.elim,
      fun q _ => by rw [h_eq]; rfl, fun _ _ => rfl, fun _ _ _ h => h.elim, fun _ _ _ _ => rfl⟩
  have e := eff_fold_nodup (E := EffT s0 last s.size) (tfInner s.size)
    (fun D t q hq e => e.step (by omega) (fun q nb h => (lok q nb h).1) q hq) Q
    (hQ.imp (fun h => Nat.ne_of_lt h)) _ _ (fun _ _ h => h) e0
  generalize Q.foldl (tfInner s.size) (s0, last) = r at hsc e
  dsimp only at hsc
  -- qubits of the new state
  have q_lt : ∀ j, j < s.size → (nodeAt r.1 j).qubits = (nodeAt s j).qubits := by
    intro j hj; rw [hsc.qubits j, h_lt j hj]
  have q_eq : (nodeAt r.1 s.size).qubits = Q := by rw [hsc.qubits, h_eq]
  have q_gt : ∀ j, s.size < j → (nodeAt r.1 j).qubits = [] := by
    intro j hj; rw [hsc.qubits j, h_gt j hj]; rfl
  refine ⟨?_, ?_⟩
  · intro i k q hqi hqk
    refine ⟨fun hlt => ?_, fun hlt => ?_⟩
    · rcases Nat.lt_trichotomy i s.size with hi | hi | hi
      · rw [q_lt i hi] at hqi
        rw [q_lt k (by omega)] at hqk
        rw [e.o1 i (by omega), h_lt i hi]
        exact (tw i k q hqi hqk).1 hlt
      · subst hi
        rw [q_eq] at hqi
        rw [q_lt k hlt] at hqk
        obtain ⟨x, hx, hkx⟩ := lw k q hqk
        exact ⟨x, by rw [e.n1 q (Or.inl hqi)]; exact hx, hkx⟩
      · rw [q_gt i hi] at hqi; simp at hqi
    · rcases Nat.lt_trichotomy k s.size with hk | hk | hk
      · have hi : i < s.size := by omega
        rw [q_lt i hi] at hqi
        rw [q_lt k hk] at hqk
        obtain ⟨x, hx, hkx⟩ := lw k q hqk
        rw [e.o3 i q (by omega) (fun h => by rw [hx] at h; simp at h; omega), h_lt i hi]
        exact (tw i k q hqi hqk).2 hlt
      · subst hk
        rw [q_eq] at hqk
        rw [q_lt i hlt] at hqi
        obtain ⟨x, hx, hix⟩ := lw i q hqi
        by_cases hxi : x = i
        · subst hxi
          exact ⟨s.size, e.o2 x q (by omega) (Or.inl hqk) hx, Nat.le_refl _⟩
        · obtain ⟨hx1, hx2⟩ := lok q x hx
          rw [e.o3 i q (by omega) (fun h => by rw [hx] at h; simp at h; omega), h_lt i hlt]
          obtain ⟨j, hj, hjx⟩ := (tw i x q hqi hx2).2 (by omega)
          exact ⟨j, hj, by omega⟩
      · rw [q_gt k hk] at hqk; simp at hqk
  · intro j q hq
    by_cases hqQ : q ∈ Q
    · refine ⟨s.size, e.l1 q (Or.inl hqQ), ?_⟩
      by_contra hc
      rw [q_gt j (by omega)] at hq; simp at hq
    · rcases Nat.lt_trichotomy j s.size with hj | hj | hj
      · rw [q_lt j hj] at hq
        obtain ⟨x, hx, hjx⟩ := lw j q hq
        exact ⟨x, by rw [e.l2 q (fun h => by simp [hqQ] at h)]; exact hx, hjx⟩
      · subst hj; rw [q_eq] at hq; exact absurd hq hqQ
      · rw [q_gt j hj] at hq; simp at hq

theorem toFused_TW (n : Nat) (queue : List FIn) : TW (toFused n queue) := by
  rw [toFused_eq]
  have main := foldl_inv (fun k (acc : FState × Dict × Nat) => acc.2.2 = k ∧ acc.1.size = k ∧
    PI acc.1 ∧ LastOK acc.1 acc.2.1 ∧ TW acc.1 ∧ LastW acc.1 acc.2.1) (tfStep n) queue
    (#[], [], 0) ?_ ?_
  · exact main.2.2.2.2.1
  · have hd : ∀ i, (nodeAt (#[] : FState) i).qubits = [] := by
      intro i; rw [nodeAt_of_ge (by simp)]; rfl
    refine ⟨rfl, rfl, fun i q j => ?_, fun q nb h => by simp [dget_nil] at h, ?_, ?_⟩
    · have h1 : (default : FNode).right = [] := rfl
      have h2 : (default : FNode).left = [] := rfl
      rw [nodeAt_of_ge (by simp), h1, h2]
      exact ⟨fun h => by simp [dget_nil] at h, fun h => by simp [dget_nil] at h⟩
    · intro i k q hq; dsimp only at hq; rw [hd] at hq; simp at hq
    · intro j q hq; dsimp only at hq; rw [hd] at hq; simp at hq
  · rintro k hk ⟨s, last, i⟩ ⟨hi, hs, pis, hlast, tw, lw⟩
    dsimp only at hi hs pis hlast tw lw
    subst hi
    have hpush : ∀ j, j < s.size →
        nodeAt (s.push { qubits := qubitsOf n queue[i], gates := [i],
                         marked := queue[i].kind != 0, left := [], right := [] }) j
          = nodeAt s j := by
      intro j hj; rw [nodeAt_push]; simp [hj]
    have := tfInner_fold_PI (pis.push (qubitsOf n queue[i]) [i] (queue[i].kind != 0)) i
      (by simp [hs]) (qubitsOf n queue[i]) (qubitsOf_pairwise n _)
      (by rw [nodeAt_push]; simp [hs]) last
      (fun q nb h => by
        obtain ⟨h1, h2⟩ := hlast q nb h
        exact ⟨by omega, by rw [hpush nb h1]; exact h2⟩)
    have hsz := (tfInner_fold_sameCore i (qubitsOf n queue[i])
      (s.push { qubits := qubitsOf n queue[i], gates := [i], marked := queue[i].kind != 0,
                left := [], right := [] }, last)).1
    have htw := tfStep_TW hlast tw lw (qubitsOf n queue[i]) (qubitsOf_pairwise n _) [i]
      (queue[i].kind != 0)
    rw [hs] at htw
    refine ⟨rfl, ?_, this.1, this.2, htw.1, htw.2⟩
    show ((qubitsOf n queue[i]).foldl (tfInner i) _).1.size = i + 1
    rw [hsz]; simp [hs]

theorem toFused_W (n : Nat) (queue : List FIn) : W queue (toFused n queue) :=
  (toFused_TW n queue).toW

/-! ### the fusion loop -/

/-- the invariant of the fusion loop, with trace equivalence. -/
def Inv2 (n maxq : Nat) (queue : List FIn) (sz : Nat) (s : FState) : Prop :=
  s.size = sz ∧ AllOK n maxq queue s ∧ PI s ∧ W queue s ∧
    TraceEq TGate.qs (tgates n queue) ((content queue s).map (gItem n queue))

theorem fuse_step2 {sz : Nat} {s : FState} (inv : Inv2 n maxq queue sz s) {a b : Nat}
    (hab : a < b) (hb : b < s.size) (hc : canFuse s a (some b) maxq = true) :
    Inv2 n maxq queue sz (fuseNodes s a b) := by
  obtain ⟨h1, h2, h3, h4, h5⟩ := inv
  obtain ⟨hA, hB, -⟩ := canFuse_some hc
  have := fuseNodes_W h2 h3 h4 hab hb hA hB
  exact ⟨(fuseNodes_size s a b).trans h1, fuseNodes_ok h2 hc, fuseNodes_PI h3 hab hb,
    this.1, h5.trans this.2⟩

theorem fuseAt_inv2 {sz : Nat} {s : FState} (i q : Nat) (hi : i < sz)
    (inv : Inv2 n maxq queue sz s) : Inv2 n maxq queue sz (fuseAt maxq i s q) := by
  have key1 : ∀ t, Inv2 n maxq queue sz t →
      Inv2 n maxq queue sz (if canFuse t i (dget (nodeAt t i).right q) maxq then
        fuseNodes t i ((dget (nodeAt t i).right q).getD 0) else t) := by
    intro t invt
    split_ifs with h
    · cases hd : dget (nodeAt t i).right q with
      | none => rw [hd] at h; simp [canFuse] at h
      | some b =>
        rw [hd] at h
        obtain ⟨h1, h2, _⟩ := (invt.2.2.1 i q b).1 hd
        exact fuse_step2 invt h1 h2 h
    · exact invt
  have key2 : ∀ t, Inv2 n maxq queue sz t →
      Inv2 n maxq queue sz (if canFuse t i (dget (nodeAt t i).left q) maxq then
        fuseNodes t ((dget (nodeAt t i).left q).getD 0) i else t) := by
    intro t invt
    split_ifs with h
    · cases hd : dget (nodeAt t i).left q with
      | none => rw [hd] at h; simp [canFuse] at h
      | some a =>
        rw [hd] at h
        obtain ⟨h1, _⟩ := (invt.2.2.1 i q a).2 hd
        refine fuse_step2 invt h1 (by rw [invt.1]; exact hi) ?_
        have := canFuse_some h
        simp only [canFuse, Bool.and_eq_true, Bool.not_eq_true', decide_eq_true_eq,
          Option.getD_some]
        refine ⟨⟨this.2.1, this.1⟩, ?_⟩
        rw [unionS_comm (invt.2.1.at a).1 (invt.2.1.at i).1]; exact this.2.2
    · exact invt
  unfold fuseAt
  exact key2 _ (key1 s inv)

theorem fuseLoop_inv2 {s : FState} (inv : Inv2 n maxq queue s.size s) :
    Inv2 n maxq queue s.size (fuseLoop maxq s) := by
  unfold fuseLoop
  refine foldl_pres_mem (Inv2 n maxq queue s.size) _ _ s (fun t i hi invt => ?_) inv
  have hi' : i < s.size := by simpa using hi
  split_ifs
  · exact invt
  · exact foldl_pres (Inv2 n maxq queue s.size) _ (fun u q invu => fuseAt_inv2 i q hi' invu) _ t invt

/-- the main theorem, conditional on the neighbour invariant of the initial graph. -/
theorem fuseModel_traceEq_of_W (n maxq : Nat) (queue : List FIn)
    (hW : W queue (toFused n queue)) :
    TraceEq TGate.qs (tgates n queue)
      ((fuseModel n maxq queue).flatten.map (fun i => (tgates n queue).getD i default)) := by
  unfold fuseModel
  rw [fromFused_flatten]
  have inv0 : Inv2 n maxq queue (toFused n queue).size (toFused n queue) := by
    refine ⟨rfl, toFused_ok n maxq queue, toFused_PI n queue, hW, ?_⟩
    unfold content
    rw [toFused_contribs, map_gItem_range]
    exact TraceEq.refl _ _
  exact (fuseLoop_inv2 inv0).2.2.2.2

/-- **the flattened fused queue is trace equivalent to the input queue** (no side conditions). -/
theorem fuseModel_traceEq (n maxq : Nat) (queue : List FIn) :
    TraceEq TGate.qs (tgates n queue)
      ((fuseModel n maxq queue).flatten.map (fun i => (tgates n queue).getD i default)) :=
  fuseModel_traceEq_of_W n maxq queue (toFused_W n queue)

end QV
