/-
  QV.Proofs.NoiseIBMQKeys — the key parser of the IBMQ noise model (QV/Model/NoiseIBMQ.lean:
  `parseNat`, `parsePairKey`, `parseQubitKey`) reads decimal numerals of ANY length: for every
  `a b : ℕ`, the strings `"a-b"`, `" a - b "`, … (blanks anywhere around the numerals) parse to
  `[a, b]`, and `" a "` parses to `a`.  `decimal n` is the usual decimal numeral of `n`
  (most significant digit first, digits `'0' + d`).
-/
import Mathlib.Data.Nat.Digits.Defs
import Mathlib.Tactic.IntervalCases
import QV.Model.NoiseIBMQ

namespace QV.Noise

/-- the character of a digit. -/
def digitChar (d : Nat) : Char := Char.ofNat (48 + d)

/-- the decimal numeral of `n`. -/
def decimal (n : Nat) : List Char :=
  if n = 0 then ['0'] else (Nat.digits 10 n).reverse.map digitChar

theorem digitVal_digitChar {d : Nat} (h : d < 10) : digitVal (digitChar d) = some d := by
  interval_cases d <;> decide

theorem digitChar_ne_space {d : Nat} (h : d < 10) : digitChar d ≠ ' ' := by
  interval_cases d <;> decide

theorem digitChar_ne_dash {d : Nat} (h : d < 10) : digitChar d ≠ '-' := by
  interval_cases d <;> decide

theorem foldr_digitStep (l : List Nat) (hl : ∀ d ∈ l, d < 10) :
    l.foldr (fun d acc => digitStep acc (digitChar d)) (some 0) = some (Nat.ofDigits 10 l) := by
  induction l with
  | nil => simp
  | cons d l ih =>
    rw [List.foldr_cons, ih (fun x hx => hl x (List.mem_cons_of_mem _ hx))]
    simp only [digitStep, digitVal_digitChar (hl d (List.mem_cons_self ..)), Nat.ofDigits_cons]
    congr 1
    simp [Nat.add_comm]

theorem decimal_chars (n : Nat) : ∀ c ∈ decimal n, ∃ d, d < 10 ∧ c = digitChar d := by
  intro c hc
  unfold decimal at hc
  split at hc
  · simp at hc; exact ⟨0, by omega, by subst hc; rfl⟩
  · simp only [List.mem_map, List.mem_reverse] at hc
    obtain ⟨d, hd, rfl⟩ := hc
    exact ⟨d, Nat.digits_lt_base (by omega) hd, rfl⟩

theorem decimal_ne_nil (n : Nat) : decimal n ≠ [] := by
  unfold decimal
  split
  · simp
  · rename_i h
    simp [Nat.digits_ne_nil_iff_ne_zero, h]

/-- **`int(str(n)) = n`** for the model's parser, every `n`. -/
theorem parseNat_decimal (n : Nat) : parseNat (decimal n) = some n := by
  unfold parseNat
  have hne := decimal_ne_nil n
  have he : (decimal n).isEmpty = false := by
    cases h : decimal n with
    | nil => exact absurd h hne
    | cons a t => rfl
  rw [he]
  simp only [Bool.false_eq_true, if_false]
  unfold decimal
  split
  · rename_i h; subst h; decide
  · rw [List.foldl_map, List.foldl_reverse]
    have := foldr_digitStep (Nat.digits 10 n) (fun d hd => Nat.digits_lt_base (by omega) hd)
    rw [Nat.ofDigits_digits] at this
    exact this

/-! ### blanks and the separator -/

def blanks (k : Nat) : List Char := List.replicate k ' '

theorem filter_blanks (k : Nat) : (blanks k).filter (· ≠ ' ') = [] := by
  induction k with
  | zero => rfl
  | succ k ih => simp [blanks, List.replicate_succ] at ih ⊢

theorem filter_decimal (n : Nat) : (decimal n).filter (· ≠ ' ') = decimal n := by
  apply List.filter_eq_self.mpr
  intro c hc
  obtain ⟨d, hd, rfl⟩ := decimal_chars n c hc
  simpa using digitChar_ne_space hd

theorem splitDash_of_no_dash (x : List Char) (hx : ∀ c ∈ x, c ≠ '-') : splitDash x = [x] := by
  induction x with
  | nil => rfl
  | cons c x ih =>
    have hc : c ≠ '-' := hx c (List.mem_cons_self ..)
    simp only [splitDash, hc, if_false, ih (fun y hy => hx y (List.mem_cons_of_mem _ hy))]

theorem splitDash_append (x y : List Char) (hx : ∀ c ∈ x, c ≠ '-') :
    splitDash (x ++ '-' :: y) = x :: splitDash y := by
  induction x with
  | nil => simp [splitDash]
  | cons c x ih =>
    have hc : c ≠ '-' := hx c (List.mem_cons_self ..)
    simp only [List.cons_append, splitDash, hc, if_false, ih (fun y hy => hx y (List.mem_cons_of_mem _ hy))]

theorem decimal_no_dash (n : Nat) : ∀ c ∈ decimal n, c ≠ '-' := by
  intro c hc
  obtain ⟨d, hd, rfl⟩ := decimal_chars n c hc
  exact digitChar_ne_dash hd

/-- **pair keys with numerals of any length and blanks anywhere around them**:
`" a - b "` ↦ `(a, b)`. -/
theorem parsePairKey_decimal (a b k1 k2 k3 k4 : Nat) :
    parsePairKey (blanks k1 ++ decimal a ++ blanks k2 ++ '-' :: (blanks k3 ++ decimal b ++ blanks k4))
      = some [a, b] := by
  unfold parsePairKey
  have hf : (blanks k1 ++ decimal a ++ blanks k2 ++ '-' :: (blanks k3 ++ decimal b ++ blanks k4)).filter (· ≠ ' ')
      = decimal a ++ '-' :: decimal b := by
    simp only [List.filter_append, List.filter_cons, filter_blanks, filter_decimal, List.nil_append,
      List.append_nil]
    simp
  rw [hf, splitDash_append _ _ (decimal_no_dash a), splitDash_of_no_dash _ (decimal_no_dash b)]
  simp [allSome, parseNat_decimal]

theorem stripSpaces_decimal (n k1 k2 : Nat) :
    stripSpaces (blanks k1 ++ decimal n ++ blanks k2) = decimal n := by
  obtain ⟨c, t, hct⟩ := List.exists_cons_of_ne_nil (decimal_ne_nil n)
  have hc : c ≠ ' ' := by
    obtain ⟨d, hd, rfl⟩ := decimal_chars n c (by rw [hct]; simp)
    exact digitChar_ne_space hd
  have hlast : ∀ l : List Char, (∀ x ∈ l, x ≠ ' ') → l ≠ [] → ∀ k,
      (l ++ blanks k).reverse.dropWhile (· = ' ') = l.reverse := by
    intro l hl hne k
    rw [List.reverse_append]
    have : (blanks k).reverse = blanks k := by simp [blanks]
    rw [this]
    induction k with
    | zero =>
      simp only [blanks, List.replicate_zero, List.nil_append]
      obtain ⟨y, s, hys⟩ := List.exists_cons_of_ne_nil (by simpa using hne : l.reverse ≠ [])
      rw [hys, List.dropWhile_cons]
      have : y ≠ ' ' := hl y (by rw [← List.mem_reverse, hys]; simp)
      simp [this]
    | succ k ih => simpa [blanks, List.replicate_succ, List.dropWhile_cons] using ih
  unfold stripSpaces
  have h1 : (blanks k1 ++ decimal n ++ blanks k2).dropWhile (· = ' ') = decimal n ++ blanks k2 := by
    rw [List.append_assoc]
    induction k1 with
    | zero => simp [blanks, hct, hc]
    | succ k ih => simpa [blanks, List.replicate_succ, List.dropWhile_cons] using ih
  rw [h1, hlast (decimal n) (fun x hx => by
    obtain ⟨d, hd, rfl⟩ := decimal_chars n x hx; exact digitChar_ne_space hd) (decimal_ne_nil n) k2]
  simp

/-- **per-qubit keys**: `" n "` ↦ `n` for every `n`. -/
theorem parseQubitKey_decimal (n k1 k2 : Nat) :
    parseQubitKey (blanks k1 ++ decimal n ++ blanks k2) = some n := by
  unfold parseQubitKey
  rw [stripSpaces_decimal, parseNat_decimal]

end QV.Noise
