/-
  QV.Proofs.Superop — lemmas about the index model QV.Model.Superop
  (vectorisation orders, reshuffling, Choi / Liouville / Kraus actions, Stinespring).
-/
import Mathlib.Algebra.BigOperators.Group.Finset.Basic
import Mathlib.Algebra.BigOperators.Ring.Finset
import Mathlib.Algebra.BigOperators.Intervals
import Mathlib.Algebra.Ring.Defs
import Mathlib.Tactic.Ring
import QV.Model.Superop

namespace QV.Superop
open Finset

/-! ### sums -/

section sums
variable {α : Type}

theorem sumRange_eq_sum [AddCommMonoid α] (n : Nat) (f : Nat → α) :
    sumRange n f = ∑ k ∈ range n, f k := by
  induction n with
  | zero => simp [sumRange]
  | succ n ih => rw [sumRange, ih, Finset.sum_range_succ]

theorem sumList_add [AddCommMonoid α] {β : Type} (l : List β) (f g : β → α) :
    sumList l (fun x => f x + g x) = sumList l f + sumList l g := by
  induction l with
  | nil => simp [sumList]
  | cons x xs ih => simp only [sumList, ih]; rw [add_add_add_comm]

theorem sumList_mul_right [NonUnitalNonAssocSemiring α] {β : Type} (l : List β) (f : β → α) (c : α) :
    sumList l f * c = sumList l (fun x => f x * c) := by
  induction l with
  | nil => simp [sumList]
  | cons x xs ih => simp only [sumList, add_mul, ih]

theorem sumList_congr [Zero α] [Add α] {β : Type} (l : List β) {f g : β → α} (h : ∀ x ∈ l, f x = g x) :
    sumList l f = sumList l g := by
  induction l with
  | nil => rfl
  | cons x xs ih =>
    simp only [sumList]
    rw [h x (by simp), ih (fun y hy => h y (by simp [hy]))]

theorem sum_sumList_comm [AddCommMonoid α] {β : Type} (s : Finset Nat) (l : List β) (f : Nat → β → α) :
    ∑ k ∈ s, sumList l (f k) = sumList l (fun x => ∑ k ∈ s, f k x) := by
  induction l with
  | nil => simp [sumList]
  | cons x xs ih => simp only [sumList, Finset.sum_add_distrib, ih]

/-- a sum over `range (m * d)` as a double sum over `(a, b) ↦ a * d + b`. -/
theorem sum_range_mul [AddCommMonoid α] (m d : Nat) (f : Nat → α) :
    ∑ k ∈ range (m * d), f k = ∑ a ∈ range m, ∑ b ∈ range d, f (a * d + b) := by
  induction m with
  | zero => simp
  | succ m ih =>
    rw [Nat.succ_mul, Finset.sum_range_add, ih, Finset.sum_range_succ]

end sums

/-! ### index arithmetic -/

theorem mul_add_div' {d : Nat} (a : Nat) {b : Nat} (hb : b < d) : (a * d + b) / d = a := by
  have hd : 0 < d := by omega
  rw [Nat.add_comm, Nat.add_mul_div_right _ _ hd, Nat.div_eq_of_lt hb, Nat.zero_add]

theorem mul_add_mod' {d : Nat} (a : Nat) {b : Nat} (hb : b < d) : (a * d + b) % d = b := by
  rw [Nat.add_comm, Nat.add_mul_mod_self_right, Nat.mod_eq_of_lt hb]

theorem div_mul_add_mod (k d : Nat) : (k / d) * d + k % d = k := by
  rw [Nat.mul_comm]; exact Nat.div_add_mod k d

theorem div_lt_of_lt_sq {k d : Nat} (h : k < d * d) : k / d < d :=
  Nat.div_lt_of_lt_mul h

theorem mod_lt_of_lt_sq {k d : Nat} (h : k < d * d) : k % d < d := by
  have hd : 0 < d := by
    rcases Nat.eq_zero_or_pos d with h0 | h0
    · subst h0; simp at h
    · exact h0
  exact Nat.mod_lt _ hd

/-! ### the `system` order: bit interleaving -/

theorem sysRow_sysIdx : ∀ (n i j : Nat), i < 2 ^ n → sysRow n (sysIdx n i j) = i
  | 0, i, j, h => by simp at h; simp [sysRow, h]
  | n + 1, i, j, h => by
    have hi : i / 2 < 2 ^ n := by rw [Nat.pow_succ] at h; omega
    have ih := sysRow_sysIdx n (i / 2) (j / 2) hi
    simp only [sysIdx, sysRow]
    have h1 : (4 * sysIdx n (i / 2) (j / 2) + (2 * (j % 2) + i % 2)) / 4 = sysIdx n (i / 2) (j / 2) := by omega
    have h2 : (4 * sysIdx n (i / 2) (j / 2) + (2 * (j % 2) + i % 2)) % 2 = i % 2 := by omega
    rw [h1, h2, ih]; omega

theorem sysCol_sysIdx : ∀ (n i j : Nat), j < 2 ^ n → sysCol n (sysIdx n i j) = j
  | 0, i, j, h => by simp at h; simp [sysCol, h]
  | n + 1, i, j, h => by
    have hj : j / 2 < 2 ^ n := by rw [Nat.pow_succ] at h; omega
    have ih := sysCol_sysIdx n (i / 2) (j / 2) hj
    simp only [sysIdx, sysCol]
    have h1 : (4 * sysIdx n (i / 2) (j / 2) + (2 * (j % 2) + i % 2)) / 4 = sysIdx n (i / 2) (j / 2) := by omega
    have h2 : (4 * sysIdx n (i / 2) (j / 2) + (2 * (j % 2) + i % 2)) / 2 % 2 = j % 2 := by omega
    rw [h1, h2, ih]; omega

theorem sysIdx_sysRow_sysCol : ∀ (n k : Nat), k < 4 ^ n → sysIdx n (sysRow n k) (sysCol n k) = k
  | 0, k, h => by simp at h; simp [sysIdx, h]
  | n + 1, k, h => by
    have hk : k / 4 < 4 ^ n := by rw [Nat.pow_succ] at h; omega
    have ih := sysIdx_sysRow_sysCol n (k / 4) hk
    simp only [sysIdx, sysRow, sysCol]
    have h1 : (2 * sysRow n (k / 4) + k % 2) / 2 = sysRow n (k / 4) := by omega
    have h2 : (2 * sysCol n (k / 4) + k / 2 % 2) / 2 = sysCol n (k / 4) := by omega
    have h3 : (2 * sysRow n (k / 4) + k % 2) % 2 = k % 2 := by omega
    have h4 : (2 * sysCol n (k / 4) + k / 2 % 2) % 2 = k / 2 % 2 := by omega
    rw [h1, h2, h3, h4, ih]; omega

theorem sysRow_lt : ∀ (n k : Nat), sysRow n k < 2 ^ n
  | 0, k => by simp [sysRow]
  | n + 1, k => by
    have := sysRow_lt n (k / 4)
    simp only [sysRow, Nat.pow_succ]; omega

theorem sysCol_lt : ∀ (n k : Nat), sysCol n k < 2 ^ n
  | 0, k => by simp [sysCol]
  | n + 1, k => by
    have := sysCol_lt n (k / 4)
    simp only [sysCol, Nat.pow_succ]; omega

theorem sysIdx_lt : ∀ (n i j : Nat), sysIdx n i j < 4 ^ n
  | 0, i, j => by simp [sysIdx]
  | n + 1, i, j => by
    have := sysIdx_lt n (i / 2) (j / 2)
    simp only [sysIdx, Nat.pow_succ]; omega

/-- well-formedness of `(order, d, n)`: the `system` order needs `d = 2^n`. -/
def WF (o : Order) (d n : Nat) : Prop :=
  match o with
  | .system => d = 2 ^ n
  | _ => True

theorem rowOf_vecIdx (o : Order) {d n i j : Nat} (h : WF o d n) (hi : i < d) (hj : j < d) :
    rowOf o d n (vecIdx o d n i j) = i := by
  cases o with
  | row => exact mul_add_div' i hj
  | column => exact mul_add_mod' j hi
  | system => simp only [WF] at h; subst h; exact sysRow_sysIdx n i j hi

theorem colOf_vecIdx (o : Order) {d n i j : Nat} (h : WF o d n) (hi : i < d) (hj : j < d) :
    colOf o d n (vecIdx o d n i j) = j := by
  cases o with
  | row => exact mul_add_mod' i hj
  | column => exact mul_add_div' j hi
  | system => simp only [WF] at h; subst h; exact sysCol_sysIdx n i j hj

theorem four_pow (n : Nat) : 4 ^ n = 2 ^ n * 2 ^ n := by
  rw [← Nat.mul_pow]

theorem vecIdx_rowOf_colOf (o : Order) {d n k : Nat} (h : WF o d n) (hk : k < d * d) :
    vecIdx o d n (rowOf o d n k) (colOf o d n k) = k := by
  cases o with
  | row => exact div_mul_add_mod k d
  | column => exact div_mul_add_mod k d
  | system =>
    simp only [WF] at h; subst h
    exact sysIdx_sysRow_sysCol n k (by rw [four_pow]; exact hk)

theorem rowOf_lt (o : Order) {d n k : Nat} (h : WF o d n) (hk : k < d * d) : rowOf o d n k < d := by
  cases o with
  | row => exact div_lt_of_lt_sq hk
  | column => exact mod_lt_of_lt_sq hk
  | system => simp only [WF] at h; subst h; exact sysRow_lt n k

theorem colOf_lt (o : Order) {d n k : Nat} (h : WF o d n) (hk : k < d * d) : colOf o d n k < d := by
  cases o with
  | row => exact mod_lt_of_lt_sq hk
  | column => exact div_lt_of_lt_sq hk
  | system => simp only [WF] at h; subst h; exact sysCol_lt n k

theorem vecIdx_lt (o : Order) {d n i j : Nat} (h : WF o d n) (hi : i < d) (hj : j < d) :
    vecIdx o d n i j < d * d := by
  cases o with
  | row =>
    show i * d + j < d * d
    calc i * d + j < i * d + d := by omega
      _ = (i + 1) * d := by ring
      _ ≤ d * d := Nat.mul_le_mul_right d hi
  | column =>
    show j * d + i < d * d
    calc j * d + i < j * d + d := by omega
      _ = (j + 1) * d := by ring
      _ ≤ d * d := Nat.mul_le_mul_right d hj
  | system => simp only [WF] at h; subst h; rw [← four_pow]; exact sysIdx_lt n i j

/-! ### vectorisation -/

variable {α : Type}

theorem vectorization_at (o : Order) {d n i j : Nat} (h : WF o d n) (hi : i < d) (hj : j < d)
    (A : Mat α) : vectorization o d n A (vecIdx o d n i j) = A i j := by
  simp only [vectorization, rowOf_vecIdx o h hi hj, colOf_vecIdx o h hi hj]

theorem unvec_vec (o : Order) {d n i j : Nat} (h : WF o d n) (hi : i < d) (hj : j < d) (A : Mat α) :
    unvectorization o d n (vectorization o d n A) i j = A i j :=
  vectorization_at o h hi hj A

theorem vec_unvec (o : Order) {d n k : Nat} (h : WF o d n) (hk : k < d * d) (v : Nat → α) :
    vectorization o d n (unvectorization o d n v) k = v k := by
  simp only [vectorization, unvectorization, vecIdx_rowOf_colOf o h hk]

/-! ### reshuffling -/

/-- defining property of the reshuffling, uniform in the order: the entry at
`(vec-position of (a,c), vec-position of (b,e))` of the reshuffled matrix is the entry at
`(vec-position of (a,b), vec-position of (c,e))` of the original. -/
theorem reshuffle_at (o : Order) (ho : o ≠ .system) {d a b c e : Nat} (ha : a < d) (hb : b < d)
    (hc : c < d) (he : e < d) (n : Nat) (M : Mat α) :
    reshuffle o d M (vecIdx o d n a c) (vecIdx o d n b e)
      = M (vecIdx o d n a b) (vecIdx o d n c e) := by
  cases o with
  | row =>
    simp only [reshuffle, vecIdx, mul_add_div' a hc, mul_add_div' b he, mul_add_mod' a hc,
      mul_add_mod' b he]
  | column =>
    simp only [reshuffle, vecIdx, mul_add_div' c ha, mul_add_div' e hb, mul_add_mod' c ha,
      mul_add_mod' e hb]
  | system => exact absurd rfl ho

theorem reshuffle_involutive (o : Order) {d r c : Nat} (hr : r < d * d) (hc : c < d * d)
    (M : Mat α) : reshuffle o d (reshuffle o d M) r c = M r c := by
  have h1 := div_lt_of_lt_sq hr
  have h2 := div_lt_of_lt_sq hc
  have h3 := mod_lt_of_lt_sq hr
  have h4 := mod_lt_of_lt_sq hc
  cases o with
  | row =>
    simp only [reshuffle, mul_add_div' (r / d) h2, mul_add_div' (r % d) h4,
      mul_add_mod' (r / d) h2, mul_add_mod' (r % d) h4, div_mul_add_mod]
  | column =>
    simp only [reshuffle, mul_add_div' (c % d) h3, mul_add_div' (c / d) h1,
      mul_add_mod' (c % d) h3, mul_add_mod' (c / d) h1, div_mul_add_mod]
  | system => rfl

/-! ### Choi and Liouville actions -/

section action
variable [CommSemiring α]

theorem krausToChoi_at (conj : α → α) (o : Order) {d n a b c e : Nat} (h : WF o d n)
    (ha : a < d) (hb : b < d) (hc : c < d) (he : e < d) (Ks : List (Mat α)) :
    krausToChoi conj o d n Ks (vecIdx o d n a b) (vecIdx o d n c e)
      = sumList Ks (fun K => K a b * conj (K c e)) := by
  simp only [krausToChoi, vectorization_at o h ha hb, vectorization_at o h hc he]

/-- the Choi matrix built from a Kraus set acts as the Kraus map, for every order. -/
theorem applyChoi_krausToChoi (conj : α → α) (o : Order) {d n : Nat} (h : WF o d n)
    (Ks : List (Mat α)) (ρ : Mat α) {a c : Nat} (ha : a < d) (hc : c < d) :
    applyChoi o d n (krausToChoi conj o d n Ks) ρ a c = applyKraus conj d Ks ρ a c := by
  simp only [applyChoi, applyKraus, sumRange_eq_sum]
  have : ∀ b ∈ range d, ∀ e ∈ range d,
      krausToChoi conj o d n Ks (vecIdx o d n a b) (vecIdx o d n c e) * ρ b e
        = sumList Ks (fun K => K a b * ρ b e * conj (K c e)) := by
    intro b hb e he
    rw [krausToChoi_at conj o h ha (mem_range.mp hb) hc (mem_range.mp he), sumList_mul_right]
    exact sumList_congr _ (fun K _ => by ring)
  rw [Finset.sum_congr rfl (fun b hb => Finset.sum_congr rfl (fun e he => this b hb e he))]
  rw [Finset.sum_congr rfl (fun b _ => sum_sumList_comm _ _ _), sum_sumList_comm]

/-- reshuffling turns the Choi action into a matrix–vector product on the vectorised operator
(row and column orders): `(reshuffle C) · vec ρ = vec (C-action on ρ)`. -/
theorem matVec_choiToLiouville (o : Order) (ho : o ≠ .system) {d : Nat} (n : Nat) (C ρ : Mat α)
    {i j : Nat} (hi : i < d) (hj : j < d) :
    matVec (d * d) (choiToLiouville o d C) (vectorization o d n ρ) (vecIdx o d n i j)
      = applyChoi o d n C ρ i j := by
  have hw : WF o d n := by
    cases o with
    | row => trivial
    | column => trivial
    | system => exact absurd rfl ho
  simp only [matVec, applyChoi, choiToLiouville, sumRange_eq_sum, sum_range_mul]
  cases o with
  | row =>
    refine Finset.sum_congr rfl (fun b hb => Finset.sum_congr rfl (fun e he => ?_))
    have hb' := mem_range.mp hb
    have he' := mem_range.mp he
    have h1 := reshuffle_at .row ho hi hb' hj he' n C
    have h2 := vectorization_at .row hw hb' he' ρ
    simp only [vecIdx] at h1 h2 ⊢
    rw [h1, h2]
  | column =>
    rw [Finset.sum_comm]
    refine Finset.sum_congr rfl (fun b hb => Finset.sum_congr rfl (fun e he => ?_))
    have hb' := mem_range.mp hb
    have he' := mem_range.mp he
    have h1 := reshuffle_at .column ho hi hb' hj he' n C
    have h2 := vectorization_at .column hw hb' he' ρ
    simp only [vecIdx] at h1 h2 ⊢
    rw [h1, h2]
  | system => exact absurd rfl ho

/-- the Liouville matrix of a Kraus set in the `K ⊗ K*` (row) / `K* ⊗ K` (column) convention. -/
theorem krausToLiouville_row (conj : α → α) {d n r c : Nat} (_hr : r < d * d) (hc : c < d * d)
    (Ks : List (Mat α)) :
    krausToLiouville conj .row d n Ks r c = sumList Ks (fun K => kron d K (fun i j => conj (K i j)) r c) := by
  have h2 := div_lt_of_lt_sq hc
  have h4 := mod_lt_of_lt_sq hc
  simp only [krausToLiouville, choiToLiouville, reshuffle, krausToChoi, vectorization, rowOf, colOf,
    kron, mul_add_div' (r / d) h2, mul_add_div' (r % d) h4, mul_add_mod' (r / d) h2,
    mul_add_mod' (r % d) h4]

theorem krausToLiouville_column (conj : α → α) {d n r c : Nat} (hr : r < d * d) (_hc : c < d * d)
    (Ks : List (Mat α)) :
    krausToLiouville conj .column d n Ks r c = sumList Ks (fun K => kron d (fun i j => conj (K i j)) K r c) := by
  have h1 := div_lt_of_lt_sq hr
  have h3 := mod_lt_of_lt_sq hr
  simp only [krausToLiouville, choiToLiouville, reshuffle, krausToChoi, vectorization, rowOf, colOf,
    kron, mul_add_div' (c % d) h3, mul_add_div' (c / d) h1, mul_add_mod' (c % d) h3,
    mul_add_mod' (c / d) h1]
  exact sumList_congr _ (fun K _ => mul_comm _ _)

end action

/-! ### Stinespring -/

section stinespring
variable [CommSemiring α]

theorem stinespring_roundtrip (conj : α → α) {e a : Nat} (ha : a < e) (Ks : List (Mat α))
    (v : Nat → α) (i j : Nat) :
    stinespringToKraus e (krausToStinespring conj e Ks v) v a i j
      = (Ks.getD a (fun _ _ => 0)) i j * sumRange e (fun b => conj (v b) * v b) := by
  simp only [stinespringToKraus, krausToStinespring, sumRange_eq_sum, Finset.mul_sum]
  refine Finset.sum_congr rfl (fun b hb => ?_)
  have hb' := mem_range.mp hb
  simp only [mul_add_div' i ha, mul_add_mod' i ha, mul_add_div' j hb', mul_add_mod' j hb']
  rw [Finset.sum_eq_single a]
  · simp only [if_true]; ring
  · intro a' _ hne
    rw [if_neg (fun h => hne h.symm), mul_zero]
  · intro hna
    exact absurd (mem_range.mpr ha) hna

end stinespring

end QV.Superop
