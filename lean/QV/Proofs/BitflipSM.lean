/-
  Lemmas about the application of bit flips and about the result state machine with readout
  noise (QV/Model/Bitflip.lean): locality of the flips, the p = 0 / p = 1 cases, and "every
  accessor is a view of ONE flipped table".  Also: results that hold frequencies only.
-/
import Mathlib.Data.List.Basic
import Mathlib.Tactic.Common
import QV.Model.Bitflip
import QV.Proofs.Measure

set_option linter.unusedSectionVars false
set_option linter.unusedSimpArgs false
set_option linter.unusedVariables false

namespace QV.BF
open QV

variable {P : Type} [Zero P] [One P] [Add P] [LT P] [DecidableLT P]

/-! ### one entry -/

theorem flipBit_zero (p0 p1 u : P) : flipBit p0 p1 u 0 = if u < p0 then 1 else 0 := by
  unfold flipBit; split <;> simp

theorem flipBit_one (p0 p1 u : P) : flipBit p0 p1 u 1 = if u < p1 then 0 else 1 := by
  unfold flipBit; by_cases h : u < p1 <;> simp [h]

theorem flipBit_le_one (p0 p1 u : P) {b : Nat} (hb : b ≤ 1) : flipBit p0 p1 u b ≤ 1 := by
  have : b = 0 ∨ b = 1 := by omega
  rcases this with rfl | rfl
  · rw [flipBit_zero]; split <;> omega
  · rw [flipBit_one]; split <;> omega

/-- neither comparison fires: the entry is unchanged (any integer entry). -/
theorem flipBit_of_not_lt {p0 p1 u : P} (h0 : ¬ u < p0) (h1 : ¬ u < p1) (b : Nat) :
    flipBit p0 p1 u b = b := by
  unfold flipBit; simp [h0, h1]

/-- both comparisons fire: a bit is complemented. -/
theorem flipBit_of_lt {p0 p1 u : P} (h0 : u < p0) (h1 : u < p1) {b : Nat} (hb : b ≤ 1) :
    flipBit p0 p1 u b = 1 - b := by
  have : b = 0 ∨ b = 1 := by omega
  rcases this with rfl | rfl
  · rw [flipBit_zero, if_pos h0]
  · rw [flipBit_one, if_pos h1]

/-! ### rows and tables -/

/-- all the arrays have the shapes numpy requires: `k` probabilities per map, one row of `k`
uniform numbers per sample row of `k` bits. -/
structure Shape (k : Nat) (p0s p1s : List P) (u : List (List P)) (rows : List (List Nat)) : Prop where
  hp0 : p0s.length = k
  hp1 : p1s.length = k
  hu : u.length = rows.length
  hur : ∀ r ∈ u, r.length = k
  hrows : ∀ r ∈ rows, r.length = k

theorem flipRow_length : ∀ (k : Nat) (p0s p1s us : List P) (bs : List Nat), p0s.length = k →
    p1s.length = k → us.length = k → bs.length = k → (flipRow p0s p1s us bs).length = k := by
  intro k
  induction k with
  | zero =>
    intro p0s p1s us bs h0 _ _ _
    have : p0s = [] := List.length_eq_zero_iff.mp h0
    subst this; rfl
  | succ k ih =>
    intro p0s p1s us bs h0 h1 hu hb
    match p0s, p1s, us, bs, h0, h1, hu, hb with
    | a :: p0s, b :: p1s, c :: us, d :: bs, h0, h1, hu, hb =>
      simp only [flipRow, List.length_cons] at *
      rw [ih p0s p1s us bs (by omega) (by omega) (by omega) (by omega)]

/-- **locality inside a row**: entry `j` depends only on entry `j` of every array. -/
theorem flipRow_getD : ∀ (k : Nat) (p0s p1s us : List P) (bs : List Nat), p0s.length = k →
    p1s.length = k → us.length = k → bs.length = k → ∀ j, j < k →
    (flipRow p0s p1s us bs).getD j 0
      = flipBit (p0s.getD j 0) (p1s.getD j 0) (us.getD j 0) (bs.getD j 0) := by
  intro k
  induction k with
  | zero => intro _ _ _ _ _ _ _ _ j hj; omega
  | succ k ih =>
    intro p0s p1s us bs h0 h1 hu hb j hj
    match p0s, p1s, us, bs, h0, h1, hu, hb with
    | a :: p0s, b :: p1s, c :: us, d :: bs, h0, h1, hu, hb =>
      simp only [List.length_cons] at h0 h1 hu hb
      cases j with
      | zero => simp [flipRow]
      | succ j =>
        simp only [flipRow, List.getD_cons_succ]
        exact ih p0s p1s us bs (by omega) (by omega) (by omega) (by omega) j (by omega)

theorem flipRow_le_one : ∀ (p0s p1s us : List P) (bs : List Nat), (∀ b ∈ bs, b ≤ 1) →
    ∀ b ∈ flipRow p0s p1s us bs, b ≤ 1 := by
  intro p0s p1s us bs
  induction bs generalizing p0s p1s us with
  | nil =>
    intro _ b hb
    cases p0s <;> cases p1s <;> cases us <;> simp [flipRow] at hb
  | cons d bs ih =>
    intro h b hb
    match p0s, p1s, us with
    | [], _, _ => simp [flipRow] at hb
    | _ :: _, [], _ => simp [flipRow] at hb
    | _ :: _, _ :: _, [] => simp [flipRow] at hb
    | a :: p0s, b' :: p1s, c :: us =>
      simp only [flipRow, List.mem_cons] at hb
      rcases hb with rfl | hb
      · exact flipBit_le_one _ _ _ (h d (List.mem_cons_self ..))
      · exact ih p0s p1s us (fun x hx => h x (List.mem_cons_of_mem _ hx)) b hb

theorem applyBitflips_length (p0s p1s : List P) : ∀ (u : List (List P)) (rows : List (List Nat)),
    u.length = rows.length → (applyBitflips p0s p1s u rows).length = rows.length := by
  intro u rows
  induction rows generalizing u with
  | nil => intro h; cases u <;> simp [applyBitflips]
  | cons r rows ih =>
    intro h
    cases u with
    | nil => simp at h
    | cons x u => simp only [applyBitflips, List.length_cons]; rw [ih u (by simpa using h)]

theorem applyBitflips_getD (p0s p1s : List P) : ∀ (u : List (List P)) (rows : List (List Nat)),
    u.length = rows.length → ∀ s, s < rows.length →
    (applyBitflips p0s p1s u rows).getD s [] = flipRow p0s p1s (u.getD s []) (rows.getD s []) := by
  intro u rows
  induction rows generalizing u with
  | nil => intro _ s hs; simp at hs
  | cons r rows ih =>
    intro h s hs
    cases u with
    | nil => simp at h
    | cons x u =>
      cases s with
      | zero => simp [applyBitflips]
      | succ s =>
        simp only [applyBitflips, List.getD_cons_succ]
        exact ih u (by simpa using h) s (by simpa using hs)

theorem mem_getD_of_lt {α : Type} {l : List α} {s : Nat} (hs : s < l.length) (d : α) : l.getD s d ∈ l := by
  rw [List.getD_eq_getElem?_getD, List.getElem?_eq_getElem hs]
  exact List.getElem_mem hs

/-- **locality**: entry (shot `s`, column `j`) of the noisy table is a function of the same
entry of the clean table, of the same entry of the array of uniform numbers and of the two
probabilities of column `j` — no other shot, no other qubit. -/
theorem applyBitflips_entry {k : Nat} {p0s p1s : List P} {u : List (List P)} {rows : List (List Nat)}
    (h : Shape k p0s p1s u rows) {s j : Nat} (hs : s < rows.length) (hj : j < k) :
    ((applyBitflips p0s p1s u rows).getD s []).getD j 0
      = flipBit (p0s.getD j 0) (p1s.getD j 0) ((u.getD s []).getD j 0) ((rows.getD s []).getD j 0) := by
  rw [applyBitflips_getD p0s p1s u rows h.hu s hs]
  exact flipRow_getD k p0s p1s _ _ h.hp0 h.hp1 (h.hur _ (mem_getD_of_lt (by rw [h.hu]; exact hs) _))
    (h.hrows _ (mem_getD_of_lt hs _)) j hj

theorem applyBitflips_rows {k : Nat} {p0s p1s : List P} : ∀ {u : List (List P)} {rows : List (List Nat)},
    Shape k p0s p1s u rows → (∀ r ∈ rows, ∀ b ∈ r, b ≤ 1) →
    ∀ r ∈ applyBitflips p0s p1s u rows, r.length = k ∧ ∀ b ∈ r, b ≤ 1 := by
  intro u rows
  induction rows generalizing u with
  | nil => intro h _ r hr; cases u <;> simp [applyBitflips] at hr
  | cons r0 rows ih =>
    intro h hb r hr
    cases u with
    | nil => have := h.hu; simp at this
    | cons x u =>
      simp only [applyBitflips, List.mem_cons] at hr
      rcases hr with rfl | hr
      · exact ⟨flipRow_length k p0s p1s x r0 h.hp0 h.hp1 (h.hur x (List.mem_cons_self ..))
          (h.hrows r0 (List.mem_cons_self ..)), flipRow_le_one _ _ _ _ (hb r0 (List.mem_cons_self ..))⟩
      · refine ih ⟨h.hp0, h.hp1, by simpa using h.hu, fun r hr => h.hur r (List.mem_cons_of_mem _ hr),
          fun r hr => h.hrows r (List.mem_cons_of_mem _ hr)⟩ (fun r hr => hb r (List.mem_cons_of_mem _ hr)) r hr

/-- a table is determined by its entries. -/
theorem table_ext {k : Nat} {A B : List (List Nat)} (hl : A.length = B.length)
    (hA : ∀ r ∈ A, r.length = k) (hB : ∀ r ∈ B, r.length = k)
    (h : ∀ s, s < A.length → ∀ j, j < k → (A.getD s []).getD j 0 = (B.getD s []).getD j 0) : A = B := by
  apply List.ext_getElem hl
  intro s h1 h2
  have ea : A[s] = A.getD s [] := by rw [List.getD_eq_getElem?_getD, List.getElem?_eq_getElem h1]; rfl
  have eb : B[s] = B.getD s [] := by rw [List.getD_eq_getElem?_getD, List.getElem?_eq_getElem h2]; rfl
  have la : (A[s]).length = k := hA _ (List.getElem_mem h1)
  have lb : (B[s]).length = k := hB _ (List.getElem_mem h2)
  apply List.ext_getElem (by rw [la, lb])
  intro j j1 j2
  have := h s h1 j (by rw [← la]; exact j1)
  rw [← ea, ← eb] at this
  rw [List.getD_eq_getElem?_getD, List.getD_eq_getElem?_getD, List.getElem?_eq_getElem j1,
    List.getElem?_eq_getElem j2] at this
  exact this

/-- if no comparison fires anywhere (e.g. all probabilities 0 and the uniform numbers are
non-negative), the table is unchanged. -/
theorem applyBitflips_id {k : Nat} {p0s p1s : List P} {u : List (List P)} {rows : List (List Nat)}
    (h : Shape k p0s p1s u rows)
    (hno : ∀ r ∈ u, ∀ x ∈ r, (∀ p ∈ p0s, ¬ x < p) ∧ (∀ p ∈ p1s, ¬ x < p)) :
    applyBitflips p0s p1s u rows = rows := by
  have hlen := applyBitflips_length p0s p1s u rows h.hu
  refine table_ext (k := k) hlen ?_ h.hrows ?_
  · intro r hr
    -- lengths do not need the bit bound: reuse flipRow_length through getD
    obtain ⟨s, hs, rfl⟩ := List.mem_iff_getElem.mp hr
    have e : (applyBitflips p0s p1s u rows)[s] = (applyBitflips p0s p1s u rows).getD s [] := by
      rw [List.getD_eq_getElem?_getD, List.getElem?_eq_getElem hs]; rfl
    rw [e, applyBitflips_getD p0s p1s u rows h.hu s (by rw [← hlen]; exact hs)]
    exact flipRow_length k _ _ _ _ h.hp0 h.hp1
      (h.hur _ (mem_getD_of_lt (by rw [h.hu, ← hlen]; exact hs) _))
      (h.hrows _ (mem_getD_of_lt (by rw [← hlen]; exact hs) _))
  · intro s hs j hj
    have hs' : s < rows.length := by rw [← hlen]; exact hs
    rw [applyBitflips_entry h hs' hj]
    have hu : u.getD s [] ∈ u := mem_getD_of_lt (by rw [h.hu]; exact hs') _
    have hx : (u.getD s []).getD j 0 ∈ u.getD s [] := mem_getD_of_lt (by rw [h.hur _ hu]; exact hj) _
    obtain ⟨a, b⟩ := hno _ hu _ hx
    exact flipBit_of_not_lt (a _ (mem_getD_of_lt (by rw [h.hp0]; exact hj) _))
      (b _ (mem_getD_of_lt (by rw [h.hp1]; exact hj) _)) _

/-- if every comparison fires (e.g. all probabilities 1 and the uniform numbers are below 1),
every bit is complemented. -/
theorem applyBitflips_compl {k : Nat} {p0s p1s : List P} {u : List (List P)} {rows : List (List Nat)}
    (h : Shape k p0s p1s u rows) (hb : ∀ r ∈ rows, ∀ b ∈ r, b ≤ 1)
    (hall : ∀ r ∈ u, ∀ x ∈ r, (∀ p ∈ p0s, x < p) ∧ (∀ p ∈ p1s, x < p)) :
    applyBitflips p0s p1s u rows = rows.map fun r => r.map fun b => 1 - b := by
  have hlen := applyBitflips_length p0s p1s u rows h.hu
  refine table_ext (k := k) (by rw [hlen, List.length_map]) ?_ ?_ ?_
  · intro r hr; exact (applyBitflips_rows h hb r hr).1
  · intro r hr
    obtain ⟨r0, hr0, rfl⟩ := List.mem_map.mp hr
    rw [List.length_map]; exact h.hrows r0 hr0
  · intro s hs j hj
    have hs' : s < rows.length := by rw [← hlen]; exact hs
    rw [applyBitflips_entry h hs' hj]
    have hu : u.getD s [] ∈ u := mem_getD_of_lt (by rw [h.hu]; exact hs') _
    have hx : (u.getD s []).getD j 0 ∈ u.getD s [] := mem_getD_of_lt (by rw [h.hur _ hu]; exact hj) _
    obtain ⟨a, b⟩ := hall _ hu _ hx
    have hr : rows.getD s [] ∈ rows := mem_getD_of_lt hs' _
    have hjr : j < (rows.getD s []).length := by rw [h.hrows _ hr]; exact hj
    have hbit : (rows.getD s []).getD j 0 ≤ 1 := hb _ hr _ (mem_getD_of_lt hjr _)
    rw [flipBit_of_lt (a _ (mem_getD_of_lt (by rw [h.hp0]; exact hj) _))
      (b _ (mem_getD_of_lt (by rw [h.hp1]; exact hj) _)) hbit]
    have e1 : (rows.map fun r => r.map fun b => 1 - b).getD s [] = (rows.getD s []).map fun b => 1 - b := by
      rw [List.getD_eq_getElem?_getD, List.getElem?_map, List.getElem?_eq_getElem hs',
        List.getD_eq_getElem?_getD, List.getElem?_eq_getElem hs']; rfl
    rw [e1]
    generalize rows.getD s [] = row at hjr ⊢
    simp [List.getD_eq_getElem?_getD, List.getElem?_map, List.getElem?_eq_getElem hjr]

/-- rows are flipped independently: the table of a repeated execution (one call of
`apply_bitflips` per shot, each on a one-row table) is the table flipped at once with the
uniform numbers stacked. -/
theorem applyBitflips_append (p0s p1s : List P) : ∀ (u1 u2 : List (List P)) (r1 r2 : List (List Nat)),
    u1.length = r1.length →
    applyBitflips p0s p1s (u1 ++ u2) (r1 ++ r2)
      = applyBitflips p0s p1s u1 r1 ++ applyBitflips p0s p1s u2 r2 := by
  intro u1 u2 r1 r2
  induction r1 generalizing u1 with
  | nil => intro h; have : u1 = [] := List.length_eq_zero_iff.mp h; subst this; rfl
  | cons r r1 ih =>
    intro h
    cases u1 with
    | nil => simp at h
    | cons x u1 =>
      simp only [List.cons_append, applyBitflips]
      rw [ih u1 (by simpa using h)]

/-! ### the state machine -/

variable {c : RCfg} {nz : Noise P} {o : Oracle} {u : List (List P)}

theorem nEnsureSamples_off (h : nz.on = false) (s : RState) :
    nEnsureSamples c nz o u s = ensureSamples c o s := by
  unfold nEnsureSamples ensureSamples
  cases s.gSamples with
  | some t => rfl
  | none => cases s.gFreq <;> simp [h]

theorem nEnsureSamples_some {s : RState} {t : List (List Nat)} (h : s.gSamples = some t) :
    nEnsureSamples c nz o u s = ensureSamples c o s := by
  unfold nEnsureSamples ensureSamples
  simp only [h]

/-- the two situations in which the noisy accessor code runs exactly the noiseless one. -/
def Quiet (nz : Noise P) (s : RState) : Prop := nz.on = false ∨ s.gSamples.isSome = true

theorem nEnsureSamples_quiet {s : RState} (h : Quiet nz s) :
    nEnsureSamples c nz o u s = ensureSamples c o s := by
  rcases h with h | h
  · exact nEnsureSamples_off h s
  · obtain ⟨t, ht⟩ := Option.isSome_iff_exists.mp h
    exact nEnsureSamples_some ht

theorem ensureSamples_isSome (s : RState) : (ensureSamples c o s).1.gSamples.isSome = true := by
  unfold ensureSamples
  cases h : s.gSamples with
  | some t => simp [h]
  | none => simp

theorem quiet_ensureSamples {s : RState} (h : Quiet nz s) : Quiet nz (ensureSamples c o s).1 :=
  Or.inr (ensureSamples_isSome s)

theorem nEnsureRegSamples_quiet {s : RState} (h : Quiet nz s) (i : Nat) :
    nEnsureRegSamples c nz o u s i = ensureRegSamples c o s i := by
  unfold nEnsureRegSamples ensureRegSamples
  cases s.rSamples i with
  | some t => rfl
  | none => simp only [nEnsureSamples_quiet h]

theorem quiet_ensureRegSamples {s : RState} (h : Quiet nz s) (i : Nat) :
    Quiet nz (ensureRegSamples c o s i).1 := by
  unfold ensureRegSamples
  cases s.rSamples i with
  | some t => exact h
  | none => exact quiet_ensureSamples h

theorem nEnsureRegFreq_quiet {s : RState} (h : Quiet nz s) (i : Nat) :
    nEnsureRegFreq c nz o u s i = ensureRegFreq c o s i := by
  unfold nEnsureRegFreq ensureRegFreq
  cases s.rFreq i with
  | some F => rfl
  | none => simp only [nEnsureRegSamples_quiet h]

theorem quiet_ensureRegFreq {s : RState} (h : Quiet nz s) (i : Nat) :
    Quiet nz (ensureRegFreq c o s i).1 := by
  unfold ensureRegFreq
  cases s.rFreq i with
  | some F => exact h
  | none =>
    rcases quiet_ensureRegSamples (c := c) (o := o) h i with h' | h'
    · exact Or.inl h'
    · exact Or.inr h'

theorem nEnsureFreq_quiet {s : RState} (h : Quiet nz s) :
    nEnsureFreq c nz o u s = ensureFreq c o s := by
  unfold nEnsureFreq ensureFreq
  cases hf : s.gFreq with
  | some F => rfl
  | none =>
    have hs1 : (if nz.on && !s.gSamples.isSome then (nEnsureSamples c nz o u s).1 else s) = s := by
      rcases h with h | h
      · simp [h]
      · simp [h]
    simp only [hs1]
    rw [nEnsureSamples_quiet h]

theorem quiet_ensureFreq {s : RState} (h : Quiet nz s) : Quiet nz (ensureFreq c o s).1 := by
  rcases h with h | h
  · exact Or.inl h
  · right
    unfold ensureFreq
    cases s.gFreq with
    | some F => exact h
    | none =>
      simp only [h, if_true]
      exact ensureSamples_isSome s

theorem nAllRegFreq_quiet {s : RState} (h : Quiet nz s) :
    nAllRegFreq c nz o u s = allRegFreq c o s := by
  unfold nAllRegFreq allRegFreq allRegFreq.ensureSamplesIfNeeded
  rw [nEnsureSamples_quiet h]
  have hq : Quiet nz (if (List.range c.nregs).all (fun i => (s.rFreq i).isSome) then s
      else (ensureSamples c o s).1) := by
    split
    · exact h
    · exact quiet_ensureSamples h
  simp only [nEnsureRegFreq_quiet hq]

theorem quiet_allRegFreq {s : RState} (h : Quiet nz s) : Quiet nz (allRegFreq c o s).1 := by
  unfold allRegFreq allRegFreq.ensureSamplesIfNeeded
  show Quiet nz { (if (List.range c.nregs).all (fun i => (s.rFreq i).isSome) then s
      else (ensureSamples c o s).1) with rFreq := _ }
  split
  · exact h
  · exact Or.inr (ensureSamples_isSome s)

theorem nstep_quiet {s : RState} (h : Quiet nz s) (op : ROp) :
    nstep c nz o u s op = rstep c o s op ∧ Quiet nz (rstep c o s op).1 := by
  cases op with
  | samples b r =>
    constructor
    · simp only [nstep, rstep, nEnsureSamples_quiet h]
    · have : (rstep c o s (.samples b r)).1 = (ensureSamples c o s).1 := by
        unfold rstep; cases r <;> cases b <;> rfl
      rw [this]; exact quiet_ensureSamples h
  | freqs b r =>
    constructor
    · simp only [nstep, rstep, nEnsureFreq_quiet h, nAllRegFreq_quiet (quiet_ensureFreq h)]
    · cases r with
      | false =>
        have : (rstep c o s (.freqs b false)).1 = (ensureFreq c o s).1 := by unfold rstep; rfl
        rw [this]; exact quiet_ensureFreq h
      | true =>
        have : (rstep c o s (.freqs b true)).1 = (allRegFreq c o (ensureFreq c o s).1).1 := by
          unfold rstep; rfl
        rw [this]; exact quiet_allRegFreq (quiet_ensureFreq h)
  | regSamples i b =>
    constructor
    · simp only [nstep, rstep, nEnsureRegSamples_quiet h]
    · have : (rstep c o s (.regSamples i b)).1 = (ensureRegSamples c o s i).1 := by
        unfold rstep; cases b <;> rfl
      rw [this]; exact quiet_ensureRegSamples h i
  | regFreqs i b =>
    constructor
    · simp only [nstep, rstep, nEnsureRegFreq_quiet h]
    · have : (rstep c o s (.regFreqs i b)).1 = (ensureRegFreq c o s i).1 := by unfold rstep; rfl
      rw [this]; exact quiet_ensureRegFreq h i

/-- without active noise, or once the samples exist, the accessors with noise ARE the
accessors without. -/
theorem nrun_quiet (ops : List ROp) : ∀ {s : RState}, Quiet nz s →
    nrun c nz o u s ops = rrun c o s ops := by
  induction ops with
  | nil => intros; rfl
  | cons op ops ih =>
    intro s h
    obtain ⟨h1, h2⟩ := nstep_quiet (c := c) (o := o) (u := u) h op
    rw [nrun, rrun, h1, ih h2]

/-- the state after the samples of a fresh noisy result were forced. -/
def forced (c : RCfg) (nz : Noise P) (o : Oracle) (u : List (List P)) : RState :=
  (nEnsureSamples c nz o u {}).1

/-- **with noise every accessor forces the samples first**: the first call on a fresh result
behaves as the same call made after `samples()`. -/
theorem nstep_fresh_forces (hon : nz.on = true) (op : ROp) :
    nstep c nz o u {} op = nstep c nz o u (forced c nz o u) op := by
  obtain ⟨on, p0, p1⟩ := nz
  simp only at hon
  subst hon
  cases op with
  | samples b r => cases b <;> cases r <;> rfl
  | freqs b r => cases r <;> rfl
  | regSamples i b => cases b <;> rfl
  | regFreqs i b => rfl

theorem forced_eq (hon : nz.on = true) {T : List Nat}
    (hT : applyBitflips nz.p0 nz.p1 u (o.shots.map (samplesToBinary c.k)) = T.map (samplesToBinary c.k)) :
    forced c nz o u = RState.withSamples c T := by
  unfold forced nEnsureSamples RState.withSamples
  simp only [hon, if_true, hT]

/-- shape of the oracle of a fresh noisy result. -/
structure NValid (c : RCfg) (nz : Noise P) (o : Oracle) (u : List (List P)) : Prop where
  hp0 : nz.p0.length = c.k
  hp1 : nz.p1.length = c.k
  hu : u.length = o.shots.length
  hur : ∀ r ∈ u, r.length = c.k

theorem NValid.shape (h : NValid c nz o u) :
    Shape c.k nz.p0 nz.p1 u (o.shots.map (samplesToBinary c.k)) :=
  ⟨h.hp0, h.hp1, by rw [h.hu, List.length_map], h.hur, by
    intro r hr
    obtain ⟨x, _, rfl⟩ := List.mem_map.mp hr
    exact samplesToBinary_length c.k x⟩

theorem noisy_rows (h : NValid c nz o u) :
    ∀ r ∈ applyBitflips nz.p0 nz.p1 u (o.shots.map (samplesToBinary c.k)),
      r.length = c.k ∧ ∀ b ∈ r, b ≤ 1 :=
  applyBitflips_rows h.shape (by
    intro r hr
    obtain ⟨x, _, rfl⟩ := List.mem_map.mp hr
    exact samplesToBinary_le_one c.k x)

theorem noisyTable_binary (h : NValid c nz o u) :
    applyBitflips nz.p0 nz.p1 u (o.shots.map (samplesToBinary c.k))
      = (noisyTable c nz o u).map (samplesToBinary c.k) := by
  unfold noisyTable
  rw [List.map_map]
  conv_lhs => rw [← List.map_id (applyBitflips nz.p0 nz.p1 u (o.shots.map (samplesToBinary c.k)))]
  apply List.map_congr_left
  intro r hr
  obtain ⟨hl, hb⟩ := noisy_rows h r hr
  have := samplesToBinary_samplesToDecimal r hb
  rw [hl] at this
  simp [this]

theorem noisyTable_lt (h : NValid c nz o u) : ∀ x ∈ noisyTable c nz o u, x < 2 ^ c.k := by
  intro x hx
  unfold noisyTable at hx
  obtain ⟨r, hr, rfl⟩ := List.mem_map.mp hx
  obtain ⟨hl, hb⟩ := noisy_rows h r hr
  have := samplesToDecimal_lt r hb
  rwa [hl] at this

/-- **one flipped table, many views.** -/
theorem nrun_fresh (hon : nz.on = true) (h : NValid c nz o u) (ops : List ROp) :
    nrun c nz o u {} ops = ops.map (rview c (noisyTable c nz o u)) := by
  cases ops with
  | nil => rfl
  | cons op rest =>
    have hf : forced c nz o u = RState.withSamples c (noisyTable c nz o u) :=
      forced_eq hon (noisyTable_binary h)
    have hq : Quiet nz (RState.withSamples c (noisyTable c nz o u)) := Or.inr rfl
    have hinv := rinv_withSamples c o (noisyTable c nz o u)
    obtain ⟨e1, q1⟩ := nstep_quiet (c := c) (o := o) (u := u) hq op
    obtain ⟨i1, v1⟩ := rstep_spec hinv (noisyTable_lt h) op
    rw [nrun, nstep_fresh_forces hon, hf, e1, v1, List.map_cons, nrun_quiet rest q1,
      rrun_of_inv i1 (noisyTable_lt h)]

/-! ### results that hold frequencies only -/

theorem rinv_after_samples_withFreq {c : RCfg} {o : Oracle} {F : Freq}
    (hT : hist (applyPerm o.perm (repeatFreq c.k F)) = F) :
    RInv c o (applyPerm o.perm (repeatFreq c.k F)) (ensureSamples c o (RState.withFreq F)).1 := by
  refine ⟨Or.inr rfl, Or.inr ?_, ?_, fun _ => Or.inl rfl, ?_⟩
  · simp [ensureSamples, RState.withFreq, hT]
  · intro i; simp [ensureSamples, RState.withFreq, List.map_map, Function.comp_def]
  · intro hn; simp [ensureSamples, RState.withFreq] at hn

theorem rstep_withFreq_forces {c : RCfg} {o : Oracle} {F : Freq} (hreg : c.nregs ≠ 0) (op : ROp)
    (hop : ∀ b, op ≠ .freqs b false) :
    rstep c o (RState.withFreq F) op = rstep c o (ensureSamples c o (RState.withFreq F)).1 op := by
  cases op with
  | samples b r => cases b <;> cases r <;> rfl
  | freqs b r =>
    cases r with
    | false => exact absurd rfl (hop b)
    | true =>
      obtain ⟨n, hn⟩ : ∃ n, c.nregs = n + 1 := ⟨c.nregs - 1, by omega⟩
      simp only [rstep, ensureFreq, RState.withFreq, allRegFreq, allRegFreq.ensureSamplesIfNeeded,
        ensureSamples, hn, List.range_succ_eq_map, List.all_cons, Option.isSome_none,
        Bool.false_and, Bool.false_eq_true, if_false]
      rfl
  | regSamples i b => cases b <;> rfl
  | regFreqs i b => rfl

/-- **a result built from frequencies only**: whatever the history of accessor calls, every
answer is the view of the one table obtained by expanding the frequencies (keys ascending,
each repeated `F key` times) and shuffling it. -/
theorem rrun_withFreq {c : RCfg} {o : Oracle} {F : Freq} (hreg : c.nregs ≠ 0)
    (hsupp : ∀ v, 2 ^ c.k ≤ v → F v = 0)
    (hperm : o.perm.Perm (List.range (repeatFreq c.k F).length)) (ops : List ROp) :
    rrun c o (RState.withFreq F) ops
      = ops.map (rview c (applyPerm o.perm (repeatFreq c.k F))) := by
  have hT : hist (applyPerm o.perm (repeatFreq c.k F)) = F := hist_shuffle_repeat hsupp hperm
  have hlt : ∀ x ∈ applyPerm o.perm (repeatFreq c.k F), x < 2 ^ c.k := by
    intro x hx
    exact mem_repeatFreq ((applyPerm_perm hperm).mem_iff.mp hx)
  induction ops with
  | nil => rfl
  | cons op ops ih =>
    by_cases hop : ∃ b, op = .freqs b false
    · obtain ⟨b, rfl⟩ := hop
      have e : rstep c o (RState.withFreq F) (.freqs b false) = (RState.withFreq F, .freq F) := rfl
      rw [rrun, e, ih, List.map_cons]
      congr 1
      show ROut.freq F = ROut.freq (hist _)
      rw [hT]
    · have hop' : ∀ b, op ≠ .freqs b false := fun b hb => hop ⟨b, hb⟩
      obtain ⟨i1, v1⟩ := rstep_spec (rinv_after_samples_withFreq hT) hlt op
      rw [rrun, rstep_withFreq_forces hreg op hop', v1, List.map_cons, rrun_of_inv i1 hlt]

/-! ### binary keys -/

theorem binKey_of_lt {k v : Nat} (hk : 0 < k) (h : v < 2 ^ k) : binKey k v = samplesToBinary k v := by
  unfold binKey
  have : Nat.log2 v + 1 ≤ k := by
    by_cases hv : v = 0
    · subst hv
      simp [Nat.log2_zero]; omega
    · have := (Nat.log2_lt hv).mpr h
      omega
  rw [Nat.max_eq_left this]

theorem decimal_binKey (k v : Nat) : samplesToDecimal (binKey k v) = v := by
  unfold binKey
  apply samplesToDecimal_samplesToBinary
  have h1 : v < 2 ^ (Nat.log2 v + 1) := Nat.lt_log2_self
  exact Nat.lt_of_lt_of_le h1 (Nat.pow_le_pow_right (by omega) (Nat.le_max_right _ _))

end QV.BF
