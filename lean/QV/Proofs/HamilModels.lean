/-
  QV.Proofs.HamilModels — the dense model builders of hamiltonians/models.py
  (`_build_spin_model` = `buildSpin`, TFIM, the one-body X/Y/Z models) as operators, for
  every number of qubits.

  * `mulVec_multikron`   : a Kronecker chain over qubits 0 … n-1 acts as the product of the
                           one-qubit gates
  * `chainApply_filter`  : identity factors drop out
  * `chainApply_perm`    : one-qubit gates on a list of qubits may be permuted
  * `mulVec_buildSpin`   : `_build_spin_model` = Σ_i Π_{j : cond i j} gate(m, j)
  * `filter_site`, `filter_ring_succ`, `filter_ring_zero` : the qubits selected by the
                           conditions of the one-body models and of the periodic TFIM ring
-/
import QV.Proofs.HamilKron

namespace QV

open Finset

variable {α : Type} [CommSemiring α]

/-! ### Kronecker chains over the register -/

theorem kprod_map_range' (M : Nat → Nat → Nat → α) (x y : Lab) (k p : Nat) :
    kprod x y p ((List.range' p k).map M) = kronEntry M (List.range' p k) x y := by
  induction k generalizing p with
  | zero => simp [kprod, kronEntry]
  | succ k ih =>
    rw [List.range'_succ, List.map_cons, kprod, ih]
    simp [kronEntry]

theorem multikron_map_range (M : Nat → Nat → Nat → α) (n : Nat) (x y : Lab) :
    multikron ((List.range n).map M) x y = kronEntry M (List.range n) x y := by
  rw [multikron_eq, List.range_eq_range', kprod_map_range']

/-- **`_multikron` of one 2×2 matrix per qubit acts as the product of the one-qubit
gates.** -/
theorem mulVec_multikron (M : Nat → Nat → Nat → α) (n : Nat) (ψ : Lab → α) (x : Lab) :
    mulVec n (multikron ((List.range n).map M)) ψ x = chainApply M (List.range n) ψ x := by
  unfold mulVec
  simp only [multikron_map_range]
  exact kron_chain M (List.range n) List.nodup_range ψ x

theorem g1_eye2 (q : Nat) (φ : Lab → α) : applyGate (g1 (eye2 : Nat → Nat → α) q) φ = φ := by
  funext x
  rw [applyGate_g1]
  have e : x.set q (x q) = x := Lab.set_self x q
  cases hx : x q <;> rw [hx] at e <;> simp [eye2, bit, e]

/-- identity factors of a chain drop out. -/
theorem chainApply_filter (m : Nat → Nat → Nat → α) (c : Nat → Bool) (l : List Nat) (ψ : Lab → α) :
    chainApply (fun j => if c j then m j else eye2) l ψ = chainApply m (l.filter c) ψ := by
  induction l with
  | nil => rfl
  | cons j l ih =>
    unfold chainApply at ih ⊢
    rw [List.foldr_cons, ih]
    by_cases hc : c j = true
    · rw [List.filter_cons_of_pos hc, List.foldr_cons]
      simp only [hc, if_true]
    · rw [List.filter_cons_of_neg hc]
      simp only [hc, Bool.false_eq_true, if_false]
      exact g1_eye2 j _

/-- one-qubit gates along a list of qubits may be permuted (same qubit: same gate;
different qubits: disjoint gates commute). -/
theorem chainApply_perm (m : Nat → Nat → Nat → α) {l₁ l₂ : List Nat} (p : l₁.Perm l₂) (ψ : Lab → α) :
    chainApply m l₁ ψ = chainApply m l₂ ψ := by
  unfold chainApply
  apply List.Perm.foldr_eq' p
  intro a _ b _ φ
  by_cases e : a = b
  · subst e; rfl
  · exact g1_comm (m b) (m a) (Ne.symm e) φ

/-! ### `_build_spin_model` -/

theorem mulVec_mZero (n : Nat) (ψ : Lab → α) (x : Lab) : mulVec n (mZero : DM α) ψ x = 0 := by
  unfold mulVec mZero
  simp only [zero_mul]
  exact sumOver_zero _ _

theorem mulVec_foldl_mAdd {ι : Type} (n : Nat) (K : ι → DM α) (l : List ι) (A : DM α)
    (ψ : Lab → α) (x : Lab) :
    mulVec n (l.foldl (fun acc i => mAdd acc (K i)) A) ψ x
      = mulVec n A ψ x + (l.map (fun i => mulVec n (K i) ψ x)).sum := by
  induction l generalizing A with
  | nil => simp
  | cons i l ih =>
    rw [List.foldl_cons, ih, mulVec_mAdd]
    simp only [List.map_cons, List.sum_cons, add_assoc]

/-- **`_build_spin_model`** as an operator: the sum over `i` of the product of the gates
of `m` on the qubits `j` with `cond i j`. -/
theorem mulVec_buildSpin (n : Nat) (m : Nat → Nat → α) (cond : Nat → Nat → Bool) (ψ : Lab → α)
    (x : Lab) :
    mulVec n (buildSpin n m cond) ψ x
      = ((List.range n).map (fun i =>
          chainApply (fun _ => m) ((List.range n).filter (cond i)) ψ x)).sum := by
  unfold buildSpin
  rw [mulVec_foldl_mAdd n
    (fun i => multikron ((List.range n).map (fun j => if cond i j then m else eye2))),
    mulVec_mZero, zero_add]
  congr 1
  apply List.map_congr_left
  intro i _
  rw [mulVec_multikron (fun j => if cond i j then m else eye2) n ψ x,
    chainApply_filter (fun _ => m) (cond i)]

/-! ### the selected qubits -/

theorem filter_perm_of_mem {l : List Nat} (hl : l.Nodup) (c : Nat → Bool) {t : List Nat}
    (ht : t.Nodup) (h : ∀ j, (j ∈ l ∧ c j = true) ↔ j ∈ t) : (l.filter c).Perm t := by
  rw [List.perm_ext_iff_of_nodup (hl.filter _) ht]
  intro j
  rw [List.mem_filter]
  exact h j

/-- the one-body condition `i == j % n` selects qubit `i`. -/
theorem filter_site {n i : Nat} (hi : i < n) :
    ((List.range n).filter (siteCond n i)).Perm [i] := by
  apply filter_perm_of_mem List.nodup_range _ (by simp)
  intro j
  simp only [List.mem_range, siteCond, beq_iff_eq, List.mem_singleton]
  constructor
  · rintro ⟨hj, e⟩
    rw [Nat.mod_eq_of_lt hj] at e
    exact e.symm
  · rintro rfl
    exact ⟨hi, (Nat.mod_eq_of_lt hi).symm⟩

/-- the ring condition for `i = k + 1`: qubits `k` and `k + 1`. -/
theorem filter_ring_succ {n k : Nat} (hk : k + 1 < n) :
    ((List.range n).filter (ringCond n (k + 1))).Perm [k, k + 1] := by
  apply filter_perm_of_mem List.nodup_range _ (by simp)
  intro j
  simp only [List.mem_range, ringCond, Bool.or_eq_true, beq_iff_eq, List.mem_cons,
    List.not_mem_nil, or_false]
  constructor
  · rintro ⟨hj, e⟩
    rw [Nat.mod_eq_of_lt hj] at e
    rcases e with e | e
    · exact Or.inr e.symm
    · by_cases hj1 : j + 1 < n
      · rw [Nat.mod_eq_of_lt hj1] at e
        left; omega
      · have : j + 1 = n := by omega
        rw [this, Nat.mod_self] at e
        omega
  · rintro (rfl | rfl)
    · refine ⟨by omega, Or.inr ?_⟩
      rw [Nat.mod_eq_of_lt hk]
    · exact ⟨hk, Or.inl (Nat.mod_eq_of_lt hk).symm⟩

/-- the ring condition for `i = 0` on `n = m + 1 ≥ 2` qubits: the periodic pair `m`, `0`. -/
theorem filter_ring_zero {m : Nat} (hm : 1 ≤ m) :
    ((List.range (m + 1)).filter (ringCond (m + 1) 0)).Perm [m, 0] := by
  apply filter_perm_of_mem List.nodup_range _ (by simp; omega)
  intro j
  simp only [List.mem_range, ringCond, Bool.or_eq_true, beq_iff_eq, List.mem_cons,
    List.not_mem_nil, or_false]
  constructor
  · rintro ⟨hj, e⟩
    rw [Nat.mod_eq_of_lt hj] at e
    rcases e with e | e
    · exact Or.inr e.symm
    · by_cases hj1 : j + 1 < m + 1
      · rw [Nat.mod_eq_of_lt hj1] at e
        omega
      · left; omega
  · rintro (rfl | rfl)
    · exact ⟨by omega, Or.inr (Nat.mod_self _).symm⟩
    · refine ⟨by omega, Or.inl ?_⟩
      rw [Nat.mod_eq_of_lt (by omega)]

/-! ### sums of forms -/

theorem denote_foldl_add {ι : Type} (F : ι → PForm α) (l : List ι) (a : PForm α) (ψ : Lab → α)
    (x : Lab) :
    (l.foldl (fun acc i => PForm.add acc (F i)) a).denote ψ x
      = a.denote ψ x + (l.map (fun i => (F i).denote ψ x)).sum := by
  induction l generalizing a with
  | nil => simp
  | cons i l ih =>
    rw [List.foldl_cons, ih]
    simp only [PForm.denote, List.map_cons, List.sum_cons, add_assoc]

/-! ### ring sums and site sums of `_build_spin_model` -/

theorem sum_range_succ_shift (T : Nat → α) (m : Nat) :
    ((List.range (m + 1)).map T).sum = T 0 + ((List.range m).map (fun i => T (i + 1))).sum := by
  rw [List.range_succ_eq_map, List.map_cons, List.sum_cons, List.map_map]
  rfl

/-- **the periodic ring**: on `m + 1 ≥ 2` qubits the chains selected by
`i in {j % n, (j + 1) % n}` are the wrap-around pair `σ_m σ_0` (for `i = 0`) and the
neighbour pairs `σ_i σ_{i+1}` (for `i + 1`). -/
theorem ring_sum (mat : Nat → Nat → α) {m : Nat} (hm : 1 ≤ m) (ψ : Lab → α) (x : Lab) :
    ((List.range (m + 1)).map (fun i =>
        chainApply (fun _ => mat) ((List.range (m + 1)).filter (ringCond (m + 1) i)) ψ x)).sum
      = applyGate (g1 mat m) (applyGate (g1 mat 0) ψ) x
        + ((List.range m).map (fun i =>
            applyGate (g1 mat i) (applyGate (g1 mat (i + 1)) ψ) x)).sum := by
  rw [sum_range_succ_shift]
  congr 1
  · rw [chainApply_perm _ (filter_ring_zero hm)]; rfl
  · congr 1
    apply List.map_congr_left
    intro i hi
    have hi' : i + 1 < m + 1 := by have := List.mem_range.mp hi; omega
    rw [chainApply_perm _ (filter_ring_succ hi')]; rfl

/-- the one-site chains: `i == j % n` selects `σ_i`. -/
theorem site_sum (mat : Nat → Nat → α) (n : Nat) (ψ : Lab → α) (x : Lab) :
    ((List.range n).map (fun i =>
        chainApply (fun _ => mat) ((List.range n).filter (siteCond n i)) ψ x)).sum
      = ((List.range n).map (fun i => applyGate (g1 mat i) ψ x)).sum := by
  congr 1
  apply List.map_congr_left
  intro i hi
  rw [chainApply_perm _ (filter_site (List.mem_range.mp hi))]; rfl

theorem list_sum_comm {β γ : Type} (F : β → γ → α) (l : List β) (m : List γ) :
    (l.map (fun t => (m.map (fun k => F t k)).sum)).sum
      = (m.map (fun k => (l.map (fun t => F t k)).sum)).sum := by
  induction l with
  | nil => simp
  | cons t l ih => simp only [List.map_cons, List.sum_cons, ih, List.sum_map_add]

theorem sum_filter_of_zero {β : Type} (p : β → Bool) (f : β → α) (l : List β)
    (h : ∀ b ∈ l, p b = false → f b = 0) : ((l.filter p).map f).sum = (l.map f).sum := by
  induction l with
  | nil => rfl
  | cons b l ih =>
    have ih' := ih (fun b' hb' => h b' (List.mem_cons_of_mem _ hb'))
    by_cases hp : p b = true
    · rw [List.filter_cons_of_pos hp, List.map_cons, List.sum_cons, ih', List.map_cons, List.sum_cons]
    · rw [List.filter_cons_of_neg hp, ih', List.map_cons, List.sum_cons,
        h b (List.mem_cons_self ..) (by simpa using hp), zero_add]

theorem denote_foldl_foldl_add {ι κ : Type} (F : ι → κ → PForm α) (l : List ι) (l' : List κ)
    (a : PForm α) (ψ : Lab → α) (x : Lab) :
    (l.foldl (fun acc q => l'.foldl (fun acc c => PForm.add acc (F q c)) acc) a).denote ψ x
      = a.denote ψ x + (l.map (fun q => (l'.map (fun c => (F q c).denote ψ x)).sum)).sum := by
  induction l generalizing a with
  | nil => simp
  | cons q l ih =>
    rw [List.foldl_cons, ih, denote_foldl_add]
    simp only [List.map_cons, List.sum_cons, add_assoc]

end QV
