/-
  QV.Proofs.KAK — the algebraic skeleton of the two-qubit (KAK / magic-basis) synthesis of
  `transpiler/unitary_decompositions.py`, over Mathlib matrices `Matrix (Fin 4) (Fin 4) ℂ`.

    * `bellB`, `magicQ`    : the code's `bell_basis` and `magic_basis`; both unitary
    * `XX`, `YY`, `ZZ`     : σ_k ⊗ σ_k (entrywise Kronecker products of the Pauli matrices)
    * `bell_diagonalises`, `magic_diagonalises` : `V† (a XX + b YY + c ZZ) V` is diagonal, with the
      four eigenvalues the code uses
    * `exp_core`           : `exp(−i (hx XX + hy YY + hz ZZ)) = B · diag(e^{−iλ_k}) · B†`
    * `udEx_eq`            : the expression matrix `udEx` of `QV/Model/KAK.lean` denotes that matrix
-/
import Mathlib.Analysis.Normed.Algebra.MatrixExponential
import Mathlib.Analysis.SpecialFunctions.Exponential
import QV.Model.KAK
import QV.Proofs.SymMat
namespace QV.KAK
open Matrix Complex

noncomputable def s2 : ℂ := ((Real.sqrt 2 : ℝ) : ℂ)

theorem s2_mul_self : s2 * s2 = 2 := by
  unfold s2
  rw [← Complex.ofReal_mul, Real.mul_self_sqrt (by norm_num : (0 : ℝ) ≤ 2)]
  norm_num

theorem s2_ne_zero : s2 ≠ 0 := fun h => by
  have := s2_mul_self
  rw [h] at this
  norm_num at this

theorem star_s2 : star s2 = s2 := by
  unfold s2
  exact Complex.conj_ofReal _

/-- `bell_basis * sqrt 2`. -/
def bellM : Matrix (Fin 4) (Fin 4) ℂ := !![1, 1, 0, 0; 0, 0, 1, 1; 0, 0, 1, -1; 1, -1, 0, 0]
/-- `magic_basis * sqrt 2`. -/
def magicM : Matrix (Fin 4) (Fin 4) ℂ := !![1, -I, 0, 0; 0, 0, 1, -I; 0, 0, -1, -I; 1, I, 0, 0]

/-- the code's `bell_basis`. -/
noncomputable def bellB : Matrix (Fin 4) (Fin 4) ℂ := (1 / s2) • bellM
/-- the code's `magic_basis`. -/
noncomputable def magicQ : Matrix (Fin 4) (Fin 4) ℂ := (1 / s2) • magicM

def XX : Matrix (Fin 4) (Fin 4) ℂ := !![0, 0, 0, 1; 0, 0, 1, 0; 0, 1, 0, 0; 1, 0, 0, 0]
def YY : Matrix (Fin 4) (Fin 4) ℂ := !![0, 0, 0, -1; 0, 0, 1, 0; 0, 1, 0, 0; -1, 0, 0, 0]
def ZZ : Matrix (Fin 4) (Fin 4) ℂ := !![1, 0, 0, 0; 0, -1, 0, 0; 0, 0, -1, 0; 0, 0, 0, 1]

def sx : Matrix (Fin 2) (Fin 2) ℂ := !![0, 1; 1, 0]
def sy : Matrix (Fin 2) (Fin 2) ℂ := !![0, -I; I, 0]
def sz : Matrix (Fin 2) (Fin 2) ℂ := !![1, 0; 0, -1]

/-- index of the computational basis state `|a b⟩` (qubit 0 most significant). -/
def ix (a b : Fin 2) : Fin 4 := ⟨2 * a.val + b.val, by omega⟩

theorem XX_kron (a b c d : Fin 2) : XX (ix a b) (ix c d) = sx a c * sx b d := by
  fin_cases a <;> fin_cases b <;> fin_cases c <;> fin_cases d <;> simp [XX, sx, ix]

theorem YY_kron (a b c d : Fin 2) : YY (ix a b) (ix c d) = sy a c * sy b d := by
  fin_cases a <;> fin_cases b <;> fin_cases c <;> fin_cases d <;> simp [YY, sy, ix]

theorem ZZ_kron (a b c d : Fin 2) : ZZ (ix a b) (ix c d) = sz a c * sz b d := by
  fin_cases a <;> fin_cases b <;> fin_cases c <;> fin_cases d <;> simp [ZZ, sz, ix]

theorem bellM_unitary : bellMᴴ * bellM = (2 : ℂ) • (1 : Matrix (Fin 4) (Fin 4) ℂ) := by
  ext i j
  fin_cases i <;> fin_cases j <;>
    simp [bellM, Matrix.mul_apply, Fin.sum_univ_four, Matrix.conjTranspose_apply] <;> norm_num

theorem magicM_unitary : magicMᴴ * magicM = (2 : ℂ) • (1 : Matrix (Fin 4) (Fin 4) ℂ) := by
  ext i j
  fin_cases i <;> fin_cases j <;>
    simp [magicM, Matrix.mul_apply, Fin.sum_univ_four, Matrix.conjTranspose_apply] <;> norm_num

theorem half_eq : star (1 / s2) * (1 / s2) = (1 / 2 : ℂ) := by
  rw [star_div₀, star_one, star_s2, div_mul_div_comm, one_mul, s2_mul_self]

theorem scaled_unitary (M : Matrix (Fin 4) (Fin 4) ℂ)
    (h : Mᴴ * M = (2 : ℂ) • (1 : Matrix (Fin 4) (Fin 4) ℂ)) :
    ((1 / s2) • M)ᴴ * ((1 / s2) • M) = 1 := by
  rw [Matrix.conjTranspose_smul, Matrix.smul_mul, Matrix.mul_smul, smul_smul, half_eq, h, smul_smul]
  norm_num

theorem bellB_unitary : bellBᴴ * bellB = 1 := scaled_unitary bellM bellM_unitary
theorem magicQ_unitary : magicQᴴ * magicQ = 1 := scaled_unitary magicM magicM_unitary

theorem bellB_unitary' : bellB * bellBᴴ = 1 := mul_eq_one_comm.mp bellB_unitary
theorem magicQ_unitary' : magicQ * magicQᴴ = 1 := mul_eq_one_comm.mp magicQ_unitary

/-- eigenvalues of `a XX + b YY + c ZZ` in the Bell basis (order of `bell_basis`' columns). -/
def lamBell (a b c : ℂ) : Fin 4 → ℂ := ![a - b + c, -a + b + c, a + b - c, -a - b - c]
/-- … in the magic basis (order of `magic_basis`' columns). -/
def lamMagic (a b c : ℂ) : Fin 4 → ℂ := ![a - b + c, -a + b + c, -a - b - c, a + b - c]

theorem bellM_diag (a b c : ℂ) :
    bellMᴴ * (a • XX + b • YY + c • ZZ) * bellM = (2 : ℂ) • diagonal (lamBell a b c) := by
  ext i j
  fin_cases i <;> fin_cases j <;>
    simp [bellM, XX, YY, ZZ, lamBell, Matrix.mul_apply, Fin.sum_univ_four,
      Matrix.conjTranspose_apply] <;> ring

theorem magicM_diag (a b c : ℂ) :
    magicMᴴ * (a • XX + b • YY + c • ZZ) * magicM = (2 : ℂ) • diagonal (lamMagic a b c) := by
  ext i j
  fin_cases i <;> fin_cases j <;>
    simp [magicM, XX, YY, ZZ, lamMagic, Matrix.mul_apply, Fin.sum_univ_four,
      Matrix.conjTranspose_apply] <;> ring_nf <;> simp <;> ring

theorem scaled_diag (M H D : Matrix (Fin 4) (Fin 4) ℂ) (h : Mᴴ * H * M = (2 : ℂ) • D) :
    ((1 / s2) • M)ᴴ * H * ((1 / s2) • M) = D := by
  rw [Matrix.conjTranspose_smul, Matrix.smul_mul, Matrix.smul_mul, Matrix.mul_smul, smul_smul,
    half_eq, h, smul_smul]
  norm_num

/-- `B† (a XX + b YY + c ZZ) B` is diagonal. -/
theorem bell_diagonalises (a b c : ℂ) :
    bellBᴴ * (a • XX + b • YY + c • ZZ) * bellB = diagonal (lamBell a b c) :=
  scaled_diag _ _ _ (bellM_diag a b c)

/-- `Q† (a XX + b YY + c ZZ) Q` is diagonal (in particular `Q† (σ_k ⊗ σ_k) Q`, `k = x, y, z`). -/
theorem magic_diagonalises (a b c : ℂ) :
    magicQᴴ * (a • XX + b • YY + c • ZZ) * magicQ = diagonal (lamMagic a b c) :=
  scaled_diag _ _ _ (magicM_diag a b c)

theorem conj_of_diagonalises (V H : Matrix (Fin 4) (Fin 4) ℂ) (d : Fin 4 → ℂ) (h1 : Vᴴ * V = 1)
    (h : Vᴴ * H * V = diagonal d) : H = V * diagonal d * Vᴴ := by
  have h2 : V * Vᴴ = 1 := mul_eq_one_comm.mp h1
  calc H = (V * Vᴴ) * H * (V * Vᴴ) := by rw [h2, Matrix.one_mul, Matrix.mul_one]
    _ = V * (Vᴴ * H * V) * Vᴴ := by simp only [Matrix.mul_assoc]
    _ = V * diagonal d * Vᴴ := by rw [h]

/-- exponential of a matrix diagonalised by a unitary `V`. -/
theorem exp_of_diagonalises (V H : Matrix (Fin 4) (Fin 4) ℂ) (d : Fin 4 → ℂ) (h1 : Vᴴ * V = 1)
    (h : Vᴴ * H * V = diagonal d) :
    NormedSpace.exp H = V * diagonal (fun k => Complex.exp (d k)) * Vᴴ := by
  have h2 : V * Vᴴ = 1 := mul_eq_one_comm.mp h1
  have hinv : V⁻¹ = Vᴴ := Matrix.inv_eq_right_inv h2
  have hu : IsUnit V := (Matrix.isUnit_iff_isUnit_det V).mpr (Matrix.isUnit_det_of_right_inverse h2)
  rw [conj_of_diagonalises V H d h1 h, ← hinv, Matrix.exp_conj V _ hu, Matrix.exp_diagonal]
  have : NormedSpace.exp d = fun k => Complex.exp (d k) := by
    funext k
    rw [Pi.coe_exp, Complex.exp_eq_exp_ℂ]
  rw [this]

/-- **the core is diagonal in the Bell basis with the four phases the code uses**:
    `exp(−i (hx XX + hy YY + hz ZZ)) = B · diag(e^{−iλ_k}) · B†`. -/
theorem exp_core_bell (hx hy hz : ℂ) :
    NormedSpace.exp ((-I) • (hx • XX + hy • YY + hz • ZZ))
      = bellB * diagonal (fun k => Complex.exp (-I * lamBell hx hy hz k)) * bellBᴴ := by
  have e : (-I) • (hx • XX + hy • YY + hz • ZZ)
      = ((-I * hx) • XX + (-I * hy) • YY + (-I * hz) • ZZ) := by
    simp only [smul_add, smul_smul]
  rw [e, exp_of_diagonalises bellB _ _ bellB_unitary (bell_diagonalises _ _ _)]
  have : (fun k => Complex.exp (lamBell (-I * hx) (-I * hy) (-I * hz) k))
      = fun k => Complex.exp (-I * lamBell hx hy hz k) := by
    funext k
    congr 1
    fin_cases k <;> simp [lamBell] <;> ring
  rw [this]

/-- … and in the magic basis. -/
theorem exp_core_magic (hx hy hz : ℂ) :
    NormedSpace.exp ((-I) • (hx • XX + hy • YY + hz • ZZ))
      = magicQ * diagonal (fun k => Complex.exp (-I * lamMagic hx hy hz k)) * magicQᴴ := by
  have e : (-I) • (hx • XX + hy • YY + hz • ZZ)
      = ((-I * hx) • XX + (-I * hy) • YY + (-I * hz) • ZZ) := by
    simp only [smul_add, smul_smul]
  rw [e, exp_of_diagonalises magicQ _ _ magicQ_unitary (magic_diagonalises _ _ _)]
  have : (fun k => Complex.exp (lamMagic (-I * hx) (-I * hy) (-I * hz) k))
      = fun k => Complex.exp (-I * lamMagic hx hy hz k) := by
    funext k
    congr 1
    fin_cases k <;> simp [lamMagic] <;> ring
  rw [this]

/-- the canonical core as a matrix: `Ud(h) = B · diag(e^{−iλ_k(h)}) · B†`. -/
noncomputable def udMat (hx hy hz : ℂ) : Matrix (Fin 4) (Fin 4) ℂ :=
  bellB * diagonal (fun k => Complex.exp (-I * lamBell hx hy hz k)) * bellBᴴ

theorem scaled_conj (M D : Matrix (Fin 4) (Fin 4) ℂ) :
    ((1 / s2) • M) * D * ((1 / s2) • M)ᴴ = (1 / 2 : ℂ) • (M * D * Mᴴ) := by
  rw [Matrix.conjTranspose_smul, Matrix.smul_mul, Matrix.smul_mul, Matrix.mul_smul, smul_smul,
    mul_comm, half_eq]

theorem bellM_conj (d : Fin 4 → ℂ) :
    bellM * diagonal d * bellMᴴ
      = !![d 0 + d 1, 0, 0, d 0 - d 1; 0, d 2 + d 3, d 2 - d 3, 0; 0, d 2 - d 3, d 2 + d 3, 0;
           d 0 - d 1, 0, 0, d 0 + d 1] := by
  ext i j
  simp only [Matrix.mul_apply, Fin.sum_univ_four, Matrix.diagonal_apply, Matrix.conjTranspose_apply]
  fin_cases i <;> fin_cases j <;> simp [bellM] <;> ring

/-- **the expression matrix `udEx` (the right-hand side of the kernel obligations `C10_kak_*`)
    denotes `Ud(h)`**, entry by entry. -/
theorem udEx_eq (θ : Nat → ℝ) (i j : Fin 4) :
    denoteEntry θ udEx i.val j.val = udMat (θ 0) (θ 1) (θ 2) i j := by
  unfold udMat bellB
  rw [scaled_conj, bellM_conj]
  fin_cases i <;> fin_cases j <;>
    simp [denoteEntry, udEx, half, ph, lam0, lam1, lam2, lam3, z, Ex.denote, lamBell] <;>
    ring_nf

/-- `Ud(h) = exp(−i (hx XX + hy YY + hz ZZ))`. -/
theorem udMat_eq_exp (hx hy hz : ℂ) :
    udMat hx hy hz = NormedSpace.exp ((-I) • (hx • XX + hy • YY + hz • ZZ)) :=
  (exp_core_bell hx hy hz).symm

/-- `calculate_h_vector` inverts the eigenvalue parametrisation: the `h` it computes from three of
    the angles `λ_k` reproduces them, the fourth being `−(λ₀+λ₁+λ₂)` (`prod(ud_diag) = 1`). -/
theorem hVector_inverts (l0 l1 l2 : ℂ) :
    lamBell (hVector l0 l1 l2).1 (hVector l0 l1 l2).2.1 (hVector l0 l1 l2).2.2
      = ![l0, l1, l2, -(l0 + l1 + l2)] := by
  funext k
  fin_cases k <;> simp [lamBell, hVector] <;> ring

end QV.KAK
