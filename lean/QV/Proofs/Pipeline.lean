/-
  Lemmas about the pipeline model (QV/Model/Pipeline.lean): padding, placement
  predicates as permutations, sorting by value, position swaps, the translation between
  edges in wire indices (routers) and edges in device names (acceptance predicate),
  locality of gate application (used for "padding acts as the identity on added wires").
-/
import Mathlib.Data.List.Perm.Basic
import Mathlib.Data.List.Perm.Subperm
import Mathlib.Data.List.Sort
import Mathlib.Data.List.Nodup
import Mathlib.Tactic
import QV.Model.Pipeline
import QV.Proofs.RouterLemmas
import QV.Proofs.Unroller

set_option linter.unusedSectionVars false
set_option linter.unusedVariables false
set_option linter.unusedSimpArgs false

namespace QV.Pipe
open QV QV.Router

/-! ### padding -/

theorem pad_cases {d : Device} {c c' : Circ} (h : pad d c = some c') :
    (c' = c ∧ c.nqubits = d.nodes.length) ∨
    (c' = { nqubits := d.nodes.length,
            wires := c.wires ++ d.nodes.filter (fun v => !c.wires.contains v),
            queue := c.queue } ∧ c.nqubits < d.nodes.length ∧
      (c.wires ++ d.nodes.filter (fun v => !c.wires.contains v)).length = d.nodes.length) := by
  unfold pad at h
  split at h
  · cases h
  · split at h
    · cases h
    · split at h
      · rename_i h3
        left
        exact ⟨by injection h with h; exact h.symm, by simpa using h3⟩
      · rename_i h2 h3
        dsimp only at h
        split at h
        · rename_i h4
          right
          refine ⟨by injection h with h; exact h.symm, ?_, by simpa using h4⟩
          have : c.nqubits ≠ d.nodes.length := by simpa using h3
          omega
        · cases h

theorem pad_wires_subset {d : Device} {c c' : Circ} (h : pad d c = some c') :
    ∀ v ∈ c.wires, v ∈ d.nodes := by
  unfold pad at h
  split at h
  · cases h
  · rename_i h1
    simpa using h1

/-! ### placement as a permutation -/

theorem perm_of_subset_length {l₁ l₂ : List Nat} (hn : l₂.Nodup) (hs : ∀ v ∈ l₂, v ∈ l₁)
    (hl : l₁.length = l₂.length) : l₁.Perm l₂ := by
  have hsub : l₂.Subperm l₁ := List.subperm_of_subset hn hs
  exact (hsub.perm_of_length_le (le_of_eq hl)).symm

theorem permOf_perm {d : Device} {w : List Name} (hn : d.nodes.Nodup) (h : permOf d w = true) :
    w.Perm d.nodes := by
  simp only [permOf, Bool.and_eq_true, beq_iff_eq, List.all_eq_true, List.contains_iff_mem] at h
  exact perm_of_subset_length hn h.1.2 h.1.1

theorem assertPlacement_perm {d : Device} {c : Circ} (hn : d.nodes.Nodup)
    (h : assertPlacement d c = true) : c.wires.Perm d.nodes ∧ c.wires.length = c.nqubits := by
  simp only [assertPlacement, Bool.and_eq_true, beq_iff_eq, List.all_eq_true,
    List.contains_iff_mem] at h
  obtain ⟨⟨⟨h1, h2⟩, h3⟩, h4⟩ := h
  exact ⟨perm_of_subset_length hn h4 (by omega), h1.symm⟩

theorem assertPlacement_of_perm {d : Device} {c : Circ} (hp : c.wires.Perm d.nodes)
    (hl : c.wires.length = c.nqubits) : assertPlacement d c = true := by
  simp only [assertPlacement, Bool.and_eq_true, beq_iff_eq, List.all_eq_true,
    List.contains_iff_mem]
  refine ⟨⟨⟨hl.symm, by rw [← hl]; exact hp.length_eq⟩, fun v hv => hp.subset hv⟩,
    fun v hv => hp.symm.subset hv⟩

/-- the wires of a padded circuit: own wires, then the device nodes not among them. -/
theorem filter_not_mem_perm {nodes wires : List Nat} (hn : nodes.Nodup) (hw : wires.Nodup)
    (hs : ∀ v ∈ wires, v ∈ nodes) :
    (wires ++ nodes.filter (fun v => !wires.contains v)).Perm nodes := by
  have h1 : (nodes.filter (fun v => wires.contains v)).Perm wires := by
    apply List.perm_of_nodup_nodup_toFinset_eq (hn.filter _) hw
    ext v
    simp only [List.toFinset_filter, List.mem_toFinset, Finset.mem_filter, List.contains_iff_mem]
    constructor
    · exact fun h => h.2
    · exact fun h => ⟨hs v h, h⟩
  have h2 := List.filter_append_perm (fun v => wires.contains v) nodes
  have h3 : nodes.filter (fun v => !wires.contains v) = nodes.filter (fun v => !(fun v => wires.contains v) v) := rfl
  exact (List.Perm.append_right _ h1.symm).trans (by rw [h3]; exact h2)

/-! ### sorting a mapping by value -/

theorem insertByVal_eq (x : Name × Nat) (l : List (Name × Nat)) :
    insertByVal x l = List.orderedInsert (fun a b : Name × Nat => a.2 ≤ b.2) x l := by
  induction l with
  | nil => rfl
  | cons y ys ih =>
    simp only [insertByVal, List.orderedInsert]
    split <;> simp_all

theorem sortByVal_eq (l : List (Name × Nat)) :
    sortByVal l = List.insertionSort (fun a b : Name × Nat => a.2 ≤ b.2) l := by
  induction l with
  | nil => rfl
  | cons x xs ih => simp [sortByVal, List.insertionSort, insertByVal_eq, ih]

theorem sortByVal_perm (l : List (Name × Nat)) : (sortByVal l).Perm l := by
  rw [sortByVal_eq]; exact List.perm_insertionSort _ l

theorem sortedKeys_perm (m : List (Name × Nat)) : (sortedKeys m).Perm (m.map (·.1)) :=
  (sortByVal_perm m).map _

instance : Std.Total (fun a b : Name × Nat => a.2 ≤ b.2) := ⟨fun a b => Nat.le_total a.2 b.2⟩
instance : IsTrans (Name × Nat) (fun a b => a.2 ≤ b.2) := ⟨fun _ _ _ h1 h2 => Nat.le_trans h1 h2⟩

theorem sortByVal_pairwise (l : List (Name × Nat)) :
    (sortByVal l).Pairwise (fun a b => a.2 ≤ b.2) := by
  rw [sortByVal_eq]; exact List.pairwise_insertionSort _ l

/-- for a bijection onto 0..n-1 the sorted key list has the key of value `v` at index `v`. -/
theorem sortedKeys_index (m : List (Name × Nat))
    (hv : (m.map (·.2)).Perm (List.range m.length)) (k : Name) (v : Nat) (hm : (k, v) ∈ m) :
    (sortedKeys m)[v]? = some k := by
  have hp := sortByVal_perm m
  have h1 : ((sortByVal m).map (·.2)).Pairwise (· ≤ ·) := by
    rw [List.pairwise_map]; exact sortByVal_pairwise m
  have h2 : ((sortByVal m).map (·.2)).Perm (List.range m.length) := (hp.map _).trans hv
  have h3 : (sortByVal m).map (·.2) = List.range m.length :=
    List.Perm.eq_of_pairwise (fun a b _ _ h h' => Nat.le_antisymm h h') h1 List.pairwise_le_range h2
  have hmem : (k, v) ∈ sortByVal m := hp.symm.subset hm
  obtain ⟨i, hi⟩ := List.mem_iff_getElem?.1 hmem
  have h4 : ((sortByVal m).map (·.2))[i]? = some v := by simp [List.getElem?_map, hi]
  rw [h3] at h4
  have hiv : i = v := by
    rcases List.getElem?_eq_some_iff.1 h4 with ⟨hlt, e⟩
    simpa using e
  subst hiv
  simp [sortedKeys, List.getElem?_map, hi]

/-! ### swapping two positions -/

theorem swapAt_perm (w : List Name) (i j : Nat) (hi : i < w.length) (hj : j < w.length) :
    (swapAt w i j).Perm w := by
  unfold swapAt
  have gi : w.getD i 0 = w[i] := by simp [List.getD_eq_getElem?_getD, hi]
  have gj : w.getD j 0 = w[j] := by simp [List.getD_eq_getElem?_getD, hj]
  rw [gi, gj]
  by_cases hij : i = j
  · subst hij
    simp
  · apply List.perm_iff_count.2
    intro a
    rw [List.count_set (by simpa using hj), List.count_set hi]
    simp only [List.getElem_set, List.length_set]
    simp only [hij, if_false, ite_self]
    have hci : 0 < List.count w[i] w := List.count_pos_iff.2 (List.getElem_mem hi)
    have hcj : 0 < List.count w[j] w := List.count_pos_iff.2 (List.getElem_mem hj)
    by_cases e1 : w[i] = a <;> by_cases e2 : w[j] = a <;> simp [e1, e2] <;>
      (try subst e1) <;> (try subst e2) <;> omega

/-! ### edges in wire indices vs. edges in device names -/

theorem wireAt_idxOf {w : List Name} {v : Name} (hv : v ∈ w) : wireAt w (w.idxOf v) = v := by
  unfold wireAt
  have hl : w.idxOf v < w.length := List.idxOf_lt_length_iff.2 hv
  simp [List.getD_eq_getElem?_getD, hl]

theorem hasEdge_symm (d : Device) (a b : Name) : d.hasEdge a b = d.hasEdge b a := by
  simp [Device.hasEdge, Bool.or_comm]

/-- an edge of the relabelled graph (what the routers respect) is an edge of the device
    between the wires' physical names (what `assert_connectivity` tests). -/
theorem edgeOk_relabel {d : Device} {w : List Name}
    (hE : ∀ e ∈ d.edges, e.1 ∈ w ∧ e.2 ∈ w) {a b : Nat}
    (h : edgeOk (relabelEdges w d.edges) a b = true) :
    d.hasEdge (wireAt w a) (wireAt w b) = true := by
  have key : ∀ a b, (relabelEdges w d.edges).contains (a, b) = true →
      d.edges.contains (wireAt w a, wireAt w b) = true := by
    intro a b hc
    simp only [relabelEdges, List.contains_iff_mem, List.mem_map] at hc
    obtain ⟨e, he, heq⟩ := hc
    obtain ⟨h1, h2⟩ := hE e he
    have ea : w.idxOf e.1 = a := congrArg Prod.fst heq
    have eb : w.idxOf e.2 = b := congrArg Prod.snd heq
    rw [← ea, ← eb, wireAt_idxOf h1, wireAt_idxOf h2]
    simpa [List.contains_iff_mem] using he
  simp only [edgeOk, Bool.or_eq_true] at h
  simp only [Device.hasEdge, Bool.or_eq_true]
  rcases h with h | h
  · exact Or.inl (key a b h)
  · exact Or.inr (key b a h)

/-! ### locality: gates never touch the wires they do not name -/

section Locality
variable {α : Type} [CommSemiring α]

/-- `χ` does not depend on the listed qubits. -/
def Indep (qs : List Nat) (χ : Lab → α) : Prop := ∀ q ∈ qs, ∀ (y : Lab) (b : Bool), χ (y.set q b) = χ y

theorem sumOver_mul_indep (qs : List Nat) (F : Lab → α) (χ : Lab → α) (hχ : Indep qs χ) (x : Lab) :
    sumOver qs (fun y => F y * χ y) x = sumOver qs F x * χ x := by
  induction qs generalizing x with
  | nil => rfl
  | cons q qs ih =>
    have hq : Indep qs χ := fun r hr => hχ r (List.mem_cons_of_mem _ hr)
    simp only [sumOver]
    rw [ih hq, ih hq, hχ q (List.mem_cons_self ..), hχ q (List.mem_cons_self ..)]
    ring

theorem applyGate_mul_indep (g : MGate α) (φ χ : Lab → α) (hχ : Indep g.targets χ) :
    applyGate g (fun y => φ y * χ y) = fun x => applyGate g φ x * χ x := by
  funext x
  simp only [applyGate]
  split
  · have := sumOver_mul_indep g.targets
      (fun y => g.mat (Lab.idx g.targets x) (Lab.idx g.targets y) * φ y) χ hχ x
    simp only [mul_assoc] at this ⊢
    exact this
  · rfl

theorem runCircuit_mul_indep (gs : List (MGate α)) (φ χ : Lab → α)
    (hχ : ∀ g ∈ gs, Indep g.targets χ) :
    runCircuit gs (fun y => φ y * χ y) = fun x => runCircuit gs φ x * χ x := by
  induction gs generalizing φ with
  | nil => rfl
  | cons g gs ih =>
    simp only [runCircuit, List.foldl_cons]
    rw [applyGate_mul_indep g φ χ (hχ g (List.mem_cons_self ..))]
    exact ih (applyGate g φ) (fun h hh => hχ h (List.mem_cons_of_mem _ hh))

end Locality

end QV.Pipe
