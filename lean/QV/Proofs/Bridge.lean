/-
  QV.Proofs.Bridge — from the kernel-decided table obligations (`QV.Core.Oblig`: `SGate`, `Ob`,
  `Ob.check`, lifted to complex matrices by `QV.Proofs.SymSound`) to the simulator model
  (`QV.Model.Sim`: `MGate`, `applyGate`, `runCircuit` on functions `Lab → ℂ`).

  * `SGate.toMGate θ`          : a traced gate at parameter values `θ` as a simulator gate
                                 (entries = denotation of the `Ex` entries, dagger flag =
                                 conjugate transpose, same ordered targets / controls)
  * `SGate.embedEntry_eq_sem`  : the enlarged matrix of `QV.Model.Fusion.embedEntry` on the
                                 register `0 … n-1` is entry by entry the semantic matrix
                                 `SGate.sem` of SymSound (embedding + control conventions of
                                 `Oblig` and of `applyGate` coincide; qubit 0 most significant)
  * `SGate.applyGate_toMGate`  : one gate acts like its full `2^n × 2^n` matrix
  * `runCircuit_toMGate`, `_apply`, `_table`, `_prodOf`
                               : a list of traced gates acts like the evaluated product matrix
                                 (`semProd` / `prodOf`), on every state of every register that
                                 contains the template qubits — other qubits are untouched
  * `Ob.check_run`, `Ob.check_run_exact`, `Ob.check_run_phase`, `Ob.check_run_single`
                               : `o.check = true` ⇒ for all parameter values both sides of the
                                 obligation act in the same way on every state (exactly / up to
                                 a unit-modulus scalar)
  * `Ob.SingleStmt`, `Ob.singleStmt_of_check`
                               : right side a single gate: "the left list implements that gate"
                                 (hypothesis of `T08_placement` / `T08_circuit`, one entry of
                                 C10's `TablesOK`); `unitPhases` = the unit circle as a submonoid
  * `Ob.daggerUndoes_of_check` : dagger obligation + unitarity of the class matrix ⇒ the traced
                                 `dagger()` gate undoes the gate (C05's `hdag`)
  The side condition `Ob.wf` (targets / controls duplicate-free, `< n`, disjoint) is a Bool
  decided by the kernel on the generated obligation.
-/
import Mathlib.Algebra.Group.Submonoid.Defs
import QV.Proofs.SymSound
import QV.Proofs.FusedMat

namespace QV

open Finset

/-! ### index convention: `SMat.bit` / `sub_index` / `agreeOff` versus labels -/

theorem idxOf?_range {n q : Nat} (h : q < n) : (List.range n).idxOf? q = some q := by
  unfold List.idxOf?
  rw [List.findIdx?_eq_some_iff_getElem]
  refine ⟨by simpa using h, by simp, ?_⟩
  intro j hj
  simp
  omega

theorem Lab.withIdx_range (x : Lab) (n i : Nat) {q : Nat} (h : q < n) :
    Lab.withIdx x (List.range n) i q = (SMat.bit n q i == 1) := by
  unfold Lab.withIdx SMat.bit
  rw [idxOf?_range h]
  simp

theorem Lab.ofLocal_range (n i : Nat) {q : Nat} (h : q < n) :
    Lab.ofLocal (List.range n) i q = (SMat.bit n q i == 1) := Lab.withIdx_range _ n i h

theorem SMat.bit_lt_two (n q i : Nat) : SMat.bit n q i < 2 := Nat.mod_lt _ (by decide)

theorem SMat.bit_eq_ite (n q i : Nat) : SMat.bit n q i = if (SMat.bit n q i == 1) then 1 else 0 := by
  have := SMat.bit_lt_two n q i
  by_cases h : SMat.bit n q i = 1
  · simp [h]
  · have : SMat.bit n q i = 0 := by omega
    simp [this]

theorem SMat.bit_ofLocal (n i : Nat) {q : Nat} (h : q < n) :
    SMat.bit n q i = if Lab.ofLocal (List.range n) i q then 1 else 0 := by
  rw [Lab.ofLocal_range n i h]; exact SMat.bit_eq_ite n q i

theorem SMat.sub_index_eq_idx (n : Nat) (qs : List Nat) (i : Nat) (hqs : ∀ q ∈ qs, q < n) :
    SMat.sub_index n qs i = Lab.idx qs (Lab.ofLocal (List.range n) i) := by
  unfold SMat.sub_index Lab.idx
  have key : ∀ acc : Nat, qs.foldl (fun acc q => 2 * acc + SMat.bit n q i) acc =
      qs.foldl (fun acc q => 2 * acc + (if Lab.ofLocal (List.range n) i q then 1 else 0)) acc := by
    induction qs with
    | nil => intro acc; rfl
    | cons q qs ih =>
      intro acc
      simp only [List.foldl_cons]
      rw [SMat.bit_ofLocal n i (hqs q (List.mem_cons_self ..))]
      exact ih (fun r hr => hqs r (List.mem_cons_of_mem _ hr)) _
  exact key 0

theorem Lab.idx_ofLocal_range {n i : Nat} (hi : i < 2 ^ n) :
    Lab.idx (List.range n) (Lab.ofLocal (List.range n) i) = i := by
  unfold Lab.ofLocal
  exact Lab.idx_withIdx _ List.nodup_range (by simpa using hi)

theorem SMat.allbits_eq_allOne (n : Nat) (cs : List Nat) (i : Nat) (hcs : ∀ q ∈ cs, q < n) :
    cs.all (fun c => SMat.bit n c i == 1) = Lab.allOne cs (Lab.ofLocal (List.range n) i) := by
  unfold Lab.allOne
  induction cs with
  | nil => rfl
  | cons c cs ih =>
    simp only [List.all_cons]
    rw [Lab.ofLocal_range n i (hcs c (List.mem_cons_self ..)),
      ih (fun r hr => hcs r (List.mem_cons_of_mem _ hr))]



/-! ### traced gates as simulator gates -/

/-- local matrix of a traced gate at parameter values `θ` (dagger flag applied).  No size
condition is needed anywhere below: entries outside the traced list read as `0` on both sides
of the bridge, and both sides only read indices `< 2 ^ |targets|`. -/
noncomputable def SGate.locMat (θ : Nat → ℝ) (g : SGate) : CMat :=
  if g.dagger then CMat.dagger g.mat.length (denoteEntry θ g.mat) else denoteEntry θ g.mat

/-- the traced gate as the simulator sees it: same ordered targets, same controls. -/
noncomputable def SGate.toMGate (θ : Nat → ℝ) (g : SGate) : MGate ℂ :=
  { mat := g.locMat θ, targets := g.targets, controls := g.controls }

theorem SGate.locMat_of_not_dagger (θ : Nat → ℝ) (g : SGate) (h : g.dagger = false) :
    g.locMat θ = denoteEntry θ g.mat := by
  simp [SGate.locMat, h]

/-- with the dagger flag the local matrix is the conjugate transpose of the traced one. -/
theorem SGate.locMat_dagger_apply (θ : Nat → ℝ) (g : SGate) (h : g.dagger = true) {i j : Nat}
    (hi : i < g.mat.length) (hj : j < g.mat.length) :
    g.locMat θ i j = starRingEnd ℂ (denoteEntry θ g.mat j i) := by
  unfold SGate.locMat
  rw [if_pos h, CMat.dagger_apply_of_lt _ _ hi hj]

theorem CMat.ctrl_nil (n : Nat) (U : CMat) : CMat.ctrl n [] U = U := by
  funext i j; simp [CMat.ctrl]

theorem SGate.sem_eq_ctrl (θ : Nat → ℝ) (n : Nat) (g : SGate) :
    g.sem θ n = CMat.ctrl n g.controls (CMat.embed n g.targets (g.locMat θ)) := by
  unfold SGate.sem SGate.locMat
  cases hc : g.controls with
  | nil => simp [CMat.ctrl_nil]
  | cons c cs => simp

theorem SGate.embedEntry_eq_sem (θ : Nat → ℝ) (n : Nat) (g : SGate)
    (hts : ∀ q ∈ g.targets, q < n) (hcs : ∀ q ∈ g.controls, q < n)
    {i j : Nat} (hi : i < 2 ^ n) (hj : j < 2 ^ n) :
    embedEntry (List.range n) (g.toMGate θ) i j = g.sem θ n i j := by
  rw [SGate.sem_eq_ctrl]
  unfold embedEntry CMat.ctrl CMat.embed SGate.toMGate
  simp only []
  rw [SMat.allbits_eq_allOne n g.controls i hcs, SMat.allbits_eq_allOne n g.controls j hcs,
    SMat.sub_index_eq_idx n g.targets i hts, SMat.sub_index_eq_idx n g.targets j hts]
  generalize hx : Lab.ofLocal (List.range n) i = x
  generalize hy : Lab.ofLocal (List.range n) j = y
  have hbit : ∀ q, q < n → ((SMat.bit n q i == SMat.bit n q j) = (x q == y q)) := by
    intro q hq
    rw [SMat.bit_ofLocal n i hq, SMat.bit_ofLocal n j hq, hx, hy]
    cases x q <;> cases y q <;> rfl
  have hij : i = j ↔ ∀ q, q < n → x q = y q := by
    constructor
    · intro e q _; rw [← hx, ← hy, e]
    · intro h
      rw [← Lab.idx_ofLocal_range hi, ← Lab.idx_ofLocal_range hj, hx, hy]
      exact Lab.idx_congr fun r hr => h r (List.mem_range.mp hr)
  have hAts : SMat.agreeOff n g.targets i j = true ↔ ∀ q, q < n → q ∈ g.targets ∨ x q = y q := by
    unfold SMat.agreeOff
    simp only [List.all_eq_true, List.mem_range, Bool.or_eq_true, List.contains_iff_mem]
    constructor
    · intro h q hq; rcases h q hq with h | h
      · exact Or.inl h
      · rw [hbit q hq] at h; exact Or.inr (eq_of_beq h)
    · intro h q hq; rcases h q hq with h | h
      · exact Or.inl h
      · rw [hbit q hq]; exact Or.inr (by simp [h])
  have hAown : ((List.range n).filter (fun q => !(g.controls ++ g.targets).contains q)).all
      (fun q => x q == y q) = true ↔
      ∀ q, q < n → (q ∈ g.controls ∨ q ∈ g.targets) ∨ x q = y q := by
    simp only [List.all_eq_true, List.mem_filter, List.mem_range, Bool.not_eq_true',
      List.contains_eq_mem, decide_eq_false_iff_not, List.mem_append, beq_iff_eq, and_imp]
    constructor
    · intro h q hq
      by_cases hm : q ∈ g.controls ∨ q ∈ g.targets
      · exact Or.inl hm
      · exact Or.inr (h q hq hm)
    · intro h q hq hm
      exact (h q hq).resolve_left hm
  have hown : (g.controls ++ g.targets).all (fun q => x q == y q) = true ↔
      ∀ q, (q ∈ g.controls ∨ q ∈ g.targets) → x q = y q := by
    simp only [List.all_eq_true, List.mem_append, beq_iff_eq]
  have hone : ∀ z : Lab, Lab.allOne g.controls z = true ↔ ∀ c ∈ g.controls, z c = true := by
    intro z; simp [Lab.allOne, List.all_eq_true]
  generalize locMat θ g (Lab.idx g.targets x) (Lab.idx g.targets y) = m
  cases hcx : Lab.allOne g.controls x <;> cases hcy : Lab.allOne g.controls y
  · -- both off
    simp only [Bool.and_false, Bool.false_eq_true, if_false]
    by_cases e : i = j
    · have h := hij.mp e
      rw [if_pos e, if_pos (hAown.mpr fun q hq => Or.inr (h q hq)),
        if_pos (hown.mpr fun q hq => h q (hq.elim (hcs q) (hts q)))]
    · rw [if_neg e]
      by_cases h1 : ((List.range n).filter (fun q => !(g.controls ++ g.targets).contains q)).all
          (fun q => x q == y q) = true
      · rw [if_pos h1, if_neg]
        intro h2
        apply e
        rw [hij]
        intro q hq
        rcases hAown.mp h1 q hq with h | h
        · exact hown.mp h2 q h
        · exact h
      · rw [if_neg h1]
  · -- x off, y on : x ≠ y on a control
    simp only [Bool.false_and, Bool.false_eq_true, if_false]
    have hne : ∃ c ∈ g.controls, x c ≠ y c := by
      by_contra hall
      have : Lab.allOne g.controls x = true := by
        rw [hone]; intro c hc
        have : x c = y c := by by_contra hh; exact hall ⟨c, hc, hh⟩
        rw [this]; exact (hone y).mp hcy c hc
      rw [hcx] at this; cases this
    obtain ⟨c, hc, hxy⟩ := hne
    have e : i ≠ j := fun e => hxy (hij.mp e c (hcs c hc))
    rw [if_neg e, if_neg (fun h2 => hxy (hown.mp h2 c (Or.inl hc)))]
    simp
  · -- x on, y off
    simp only [Bool.and_false, Bool.false_eq_true, if_false, if_true]
    have hne : ∃ c ∈ g.controls, x c ≠ y c := by
      by_contra hall
      have : Lab.allOne g.controls y = true := by
        rw [hone]; intro c hc
        have : x c = y c := by by_contra hh; exact hall ⟨c, hc, hh⟩
        rw [← this]; exact (hone x).mp hcx c hc
      rw [hcy] at this; cases this
    obtain ⟨c, hc, hxy⟩ := hne
    rw [if_neg (fun h2 => hxy (hown.mp h2 c (Or.inl hc)))]
    simp
  · -- both on
    simp only [Bool.and_true, if_true]
    have hiff : ((List.range n).filter (fun q => !(g.controls ++ g.targets).contains q)).all
          (fun q => x q == y q) = true ↔ SMat.agreeOff n g.targets i j = true := by
      rw [hAown, hAts]
      constructor
      · intro h q hq
        rcases h q hq with (h | h) | h
        · right; rw [(hone x).mp hcx q h, (hone y).mp hcy q h]
        · exact Or.inl h
        · exact Or.inr h
      · intro h q hq
        rcases h q hq with h | h
        · exact Or.inl (Or.inr h)
        · exact Or.inr h
    by_cases h1 : SMat.agreeOff n g.targets i j = true
    · rw [if_pos h1, if_pos (hiff.mpr h1)]
    · rw [if_neg h1, if_neg (fun h => h1 (hiff.mp h))]



/-! ### the full-register gate of a semantic matrix -/

/-- a `2^n × 2^n` semantic matrix as a simulator gate on the register `0 … n-1`
(qubit 0 most significant). -/
def fullGate (n : Nat) (A : CMat) : MGate ℂ :=
  { mat := A, targets := List.range n, controls := [] }

theorem applyGate_fullGate (n : Nat) (A : CMat) (ψ : Lab → ℂ) (x : Lab) :
    applyGate (fullGate n A) ψ x =
      ∑ k ∈ range (2 ^ n), A (Lab.toIndex n x) k * ψ (Lab.wIdx x (List.range n) k) := by
  rw [applyGate_eq_sum (fullGate n A) List.nodup_range]
  simp [fullGate, Lab.allOne, Lab.toIndex]

theorem applyGate_fullGate_congr (n : Nat) (A B : CMat)
    (h : ∀ i j, i < 2 ^ n → j < 2 ^ n → A i j = B i j) (ψ : Lab → ℂ) :
    applyGate (fullGate n A) ψ = applyGate (fullGate n B) ψ := by
  funext x
  rw [applyGate_fullGate, applyGate_fullGate]
  refine sum_congr rfl fun k hk => ?_
  rw [h _ _ (by simpa [Lab.toIndex] using Lab.idx_lt (List.range n) x) (mem_range.mp hk)]

theorem applyGate_fullGate_smul (n : Nat) (c : ℂ) (A B : CMat)
    (h : ∀ i j, i < 2 ^ n → j < 2 ^ n → A i j = c * B i j) (ψ : Lab → ℂ) :
    applyGate (fullGate n A) ψ = fun x => c * applyGate (fullGate n B) ψ x := by
  funext x
  rw [applyGate_fullGate, applyGate_fullGate, mul_sum]
  refine sum_congr rfl fun k hk => ?_
  rw [h _ _ (by simpa [Lab.toIndex] using Lab.idx_lt (List.range n) x) (mem_range.mp hk),
    mul_assoc]

theorem applyGate_fullGate_mul (n : Nat) (A B : CMat) (ψ : Lab → ℂ) :
    applyGate (fullGate n A) (applyGate (fullGate n B) ψ) =
      applyGate (fullGate n (CMat.mul (2 ^ n) A B)) ψ := by
  have := applyGate_mul (List.range n) [] List.nodup_range (fun c hc => by cases hc) A B ψ
  rw [List.length_range] at this
  exact this

theorem applyGate_fullGate_one (n : Nat) (ψ : Lab → ℂ) :
    applyGate (fullGate n CMat.one) ψ = ψ :=
  applyGate_one (fullGate n CMat.one) List.nodup_range (fun _ _ _ _ => rfl) ψ

/-! ### well-formed traced gates -/

def nodupB : List Nat → Bool
  | [] => true
  | a :: l => !l.contains a && nodupB l

theorem nodupB_sound : ∀ l : List Nat, nodupB l = true → l.Nodup
  | [], _ => List.nodup_nil
  | a :: l, h => by
    simp only [nodupB, Bool.and_eq_true, Bool.not_eq_true', List.contains_eq_mem,
      decide_eq_false_iff_not] at h
    exact List.nodup_cons.mpr ⟨h.1, nodupB_sound l h.2⟩

/-- the layout of a traced gate fits the template register `0 … n-1`. -/
def SGate.wf (n : Nat) (g : SGate) : Bool :=
  nodupB g.targets && nodupB g.controls && g.targets.all (· < n) && g.controls.all (· < n) &&
    g.controls.all (fun c => !g.targets.contains c)

structure SGate.WF (n : Nat) (g : SGate) : Prop where
  tn : g.targets.Nodup
  cn : g.controls.Nodup
  tlt : ∀ q ∈ g.targets, q < n
  clt : ∀ q ∈ g.controls, q < n
  disj : ∀ c, c ∈ g.controls → c ∉ g.targets

theorem SGate.wf_sound {n : Nat} {g : SGate} (h : g.wf n = true) : g.WF n := by
  simp only [SGate.wf, Bool.and_eq_true, List.all_eq_true, decide_eq_true_eq,
    Bool.not_eq_true', List.contains_eq_mem, decide_eq_false_iff_not] at h
  obtain ⟨⟨⟨⟨h1, h2⟩, h3⟩, h4⟩, h5⟩ := h
  exact ⟨nodupB_sound _ h1, nodupB_sound _ h2, h3, h4, h5⟩

/-- **one gate**: a traced gate, as a simulator gate on its own targets / controls, acts on
every state of every register like its full `2^n × 2^n` semantic matrix on `0 … n-1`. -/
theorem SGate.applyGate_toMGate (θ : Nat → ℝ) {n : Nat} {g : SGate} (h : g.WF n)
    (ψ : Lab → ℂ) :
    applyGate (g.toMGate θ) ψ = applyGate (fullGate n (g.sem θ n)) ψ := by
  rw [← applyGate_embed (List.range n) List.nodup_range (g.toMGate θ) h.tn h.cn h.disj
    (fun q hq => by
      rcases List.mem_append.mp hq with hq | hq
      · exact List.mem_range.mpr (h.clt q hq)
      · exact List.mem_range.mpr (h.tlt q hq)) ψ]
  exact applyGate_fullGate_congr n _ _
    (fun i j hi hj => SGate.embedEntry_eq_sem θ n g h.tlt h.clt hi hj) ψ

theorem runCircuit_toMGate_acc (θ : Nat → ℝ) (n : Nat) :
    ∀ (gs : List SGate) (acc : CMat) (ψ : Lab → ℂ), (∀ g ∈ gs, g.WF n) →
      runCircuit (gs.map (SGate.toMGate θ)) (applyGate (fullGate n acc) ψ) =
        applyGate (fullGate n (semProd θ n gs acc)) ψ
  | [], acc, ψ, _ => rfl
  | g :: gs, acc, ψ, h => by
    rw [List.map_cons, runCircuit_cons, SGate.applyGate_toMGate θ (h g (List.mem_cons_self ..)),
      applyGate_fullGate_mul]
    exact runCircuit_toMGate_acc θ n gs _ ψ (fun g' hg' => h g' (List.mem_cons_of_mem _ hg'))

/-- **circuits**: running a list of traced gates = applying the evaluated product matrix. -/
theorem runCircuit_toMGate (θ : Nat → ℝ) (n : Nat) (gs : List SGate) (h : ∀ g ∈ gs, g.WF n)
    (ψ : Lab → ℂ) :
    runCircuit (gs.map (SGate.toMGate θ)) ψ =
      applyGate (fullGate n (semProd θ n gs CMat.one)) ψ := by
  have := runCircuit_toMGate_acc θ n gs CMat.one ψ h
  rwa [applyGate_fullGate_one] at this



/-! ### the `2^n`-vector reading (qubit 0 most significant: `Lab.toIndex` / `Lab.ofIndex`) -/

theorem Lab.ofIndex_eq_ofLocal (n i : Nat) : Lab.ofIndex n i = Lab.ofLocal (List.range n) i := by
  funext q
  by_cases h : q < n
  · rw [Lab.ofLocal_range n i h]
    simp [Lab.ofIndex, SMat.bit, h]
  · have hnone : (List.range n).idxOf? q = none := by
      rw [List.idxOf?_eq_none_iff]; simpa using h
    simp [Lab.ofIndex, Lab.ofLocal, Lab.withIdx, h, hnone]

theorem Lab.toIndex_ofIndex {n i : Nat} (hi : i < 2 ^ n) : Lab.toIndex n (Lab.ofIndex n i) = i := by
  rw [Lab.ofIndex_eq_ofLocal]; exact Lab.idx_ofLocal_range hi

theorem Lab.wIdx_ofIndex (n i j : Nat) :
    Lab.wIdx (Lab.ofIndex n i) (List.range n) j = Lab.ofIndex n j := by
  rw [Lab.ofIndex_eq_ofLocal, Lab.ofIndex_eq_ofLocal]
  unfold Lab.ofLocal
  rw [Lab.withIdx_eq_wIdx, Lab.withIdx_eq_wIdx, Lab.wIdx_wIdx]

/-- value at an arbitrary label `x` of an arbitrary register: row `toIndex n x` of the product
matrix against the `2^n` amplitudes obtained by varying the template qubits of `x`; the other
bits of `x` are untouched. -/
theorem runCircuit_toMGate_apply (θ : Nat → ℝ) (n : Nat) (gs : List SGate) (h : ∀ g ∈ gs, g.WF n)
    (ψ : Lab → ℂ) (x : Lab) :
    runCircuit (gs.map (SGate.toMGate θ)) ψ x =
      ∑ k ∈ range (2 ^ n), semProd θ n gs CMat.one (Lab.toIndex n x) k *
        ψ (Lab.wIdx x (List.range n) k) := by
  rw [runCircuit_toMGate θ n gs h, applyGate_fullGate]

/-- the `2^n`-vector form: on the `n`-qubit register the output vector is the product matrix
times the input vector. -/
theorem runCircuit_toMGate_table (θ : Nat → ℝ) (n : Nat) (gs : List SGate) (h : ∀ g ∈ gs, g.WF n)
    (ψ : Lab → ℂ) {i : Nat} (hi : i < 2 ^ n) :
    runCircuit (gs.map (SGate.toMGate θ)) ψ (Lab.ofIndex n i) =
      ∑ k ∈ range (2 ^ n), semProd θ n gs CMat.one i k * ψ (Lab.ofIndex n k) := by
  rw [runCircuit_toMGate_apply θ n gs h, Lab.toIndex_ofIndex hi]
  simp only [Lab.wIdx_ofIndex]

/-- the same with the kernel-side product `prodOf` evaluated at `θ`. -/
theorem runCircuit_toMGate_prodOf (θ : Nat → ℝ) (np n : Nat) (gs : List SGate) (M : SMat)
    (hM : prodOf np n gs (SMat.one np (2 ^ n)) = some M) (h : ∀ g ∈ gs, g.WF n)
    (ψ : Lab → ℂ) {i : Nat} (hi : i < 2 ^ n) :
    runCircuit (gs.map (SGate.toMGate θ)) ψ (Lab.ofIndex n i) =
      ∑ k ∈ range (2 ^ n), SMat.evalEntry (vals θ) M i k * ψ (Lab.ofIndex n k) := by
  rw [runCircuit_toMGate_table θ n gs h ψ hi]
  have hs := (prodOf_sound np n θ gs _ M CMat.one hM (by simp)
    (fun i j hi hj => SMat.evalEntry_one (vals θ) np (2 ^ n) hi hj)).2
  exact sum_congr rfl fun k hk => by rw [hs i k hi (mem_range.mp hk)]

/-! ### obligations -/

def Ob.wf (o : Ob) : Bool := o.ls.all (SGate.wf o.n) && o.rs.all (SGate.wf o.n)

theorem Ob.wf_sound {o : Ob} (h : o.wf = true) :
    (∀ g ∈ o.ls, g.WF o.n) ∧ (∀ g ∈ o.rs, g.WF o.n) := by
  simp only [Ob.wf, Bool.and_eq_true, List.all_eq_true] at h
  exact ⟨fun g hg => SGate.wf_sound (h.1 g hg), fun g hg => SGate.wf_sound (h.2 g hg)⟩

/-- simulator reading of one side of an obligation at parameter values `θ`. -/
noncomputable def Ob.lsRun (o : Ob) (θ : Nat → ℝ) : List (MGate ℂ) := o.ls.map (SGate.toMGate θ)
noncomputable def Ob.rsRun (o : Ob) (θ : Nat → ℝ) : List (MGate ℂ) := o.rs.map (SGate.toMGate θ)

theorem Ob.check_run_exact (o : Ob) (hwf : o.wf = true) (hm : o.mode = .exact)
    (h : o.check = true) (θ : Nat → ℝ) (ψ : Lab → ℂ) :
    runCircuit (o.lsRun θ) ψ = runCircuit (o.rsRun θ) ψ := by
  obtain ⟨hl, hr⟩ := Ob.wf_sound hwf
  unfold Ob.lsRun Ob.rsRun
  rw [runCircuit_toMGate θ o.n o.ls hl, runCircuit_toMGate θ o.n o.rs hr]
  exact applyGate_fullGate_congr o.n _ _ (Ob.check_sound_exact o hm h θ) ψ

theorem Ob.check_run_phase (o : Ob) (hwf : o.wf = true) (hm : o.mode = .phase)
    (h : o.check = true) (θ : Nat → ℝ) :
    ∃ c : ℂ, ‖c‖ = 1 ∧ ∀ (ψ : Lab → ℂ) (x : Lab),
      runCircuit (o.lsRun θ) ψ x = c * runCircuit (o.rsRun θ) ψ x := by
  obtain ⟨hl, hr⟩ := Ob.wf_sound hwf
  obtain ⟨c, hc, he⟩ := (Ob.check_sound_phase o hm h θ).2.2
  refine ⟨c, hc, fun ψ x => ?_⟩
  unfold Ob.lsRun Ob.rsRun
  rw [runCircuit_toMGate θ o.n o.ls hl, runCircuit_toMGate θ o.n o.rs hr]
  exact congrFun (applyGate_fullGate_smul o.n c _ _ he ψ) x

/-- **what a successful `Ob.check` means for the simulator**: for all parameter values the
two gate lists act in the same way on every state of every register containing the template
qubits — exactly (`c = 1`) in exact mode, up to a unit-modulus scalar in phase mode. -/
theorem Ob.check_run (o : Ob) (hwf : o.wf = true) (h : o.check = true) (θ : Nat → ℝ) :
    ∃ c : ℂ, ‖c‖ = 1 ∧ (o.mode = .exact → c = 1) ∧ ∀ (ψ : Lab → ℂ) (x : Lab),
      runCircuit (o.lsRun θ) ψ x = c * runCircuit (o.rsRun θ) ψ x := by
  cases hm : o.mode with
  | exact =>
    exact ⟨1, by simp, fun _ => rfl, fun ψ x => by
      rw [Ob.check_run_exact o hwf hm h θ ψ, one_mul]⟩
  | phase =>
    obtain ⟨c, hc, he⟩ := Ob.check_run_phase o hwf hm h θ
    exact ⟨c, hc, (fun hh => by cases hh), he⟩


/-- the statement a generated `…_run` corollary proves about its obligation. -/
def Ob.RunStmt (o : Ob) : Prop :=
  ∀ θ : Nat → ℝ, ∃ c : ℂ, ‖c‖ = 1 ∧ (o.mode = .exact → c = 1) ∧ ∀ (ψ : Lab → ℂ) (x : Lab),
    runCircuit (o.lsRun θ) ψ x = c * runCircuit (o.rsRun θ) ψ x

theorem Ob.runStmt_of_check (o : Ob) (hwf : o.wf = true) (h : o.check = true) : o.RunStmt :=
  fun θ => Ob.check_run o hwf h θ

/-- right-hand side a single gate `G` (decomposition / table-entry obligations): the form of the
hypothesis of `T08_placement`, `T08_circuit`. -/
theorem Ob.check_run_single (o : Ob) (hwf : o.wf = true) (h : o.check = true) (G : SGate)
    (hrs : o.rs = [G]) (θ : Nat → ℝ) :
    ∃ c : ℂ, ‖c‖ = 1 ∧ (o.mode = .exact → c = 1) ∧ ∀ (ψ : Lab → ℂ) (x : Lab),
      runCircuit (o.lsRun θ) ψ x = c * applyGate (G.toMGate θ) ψ x := by
  obtain ⟨c, hc, h1, he⟩ := Ob.check_run o hwf h θ
  refine ⟨c, hc, h1, fun ψ x => ?_⟩
  rw [he ψ x]
  unfold Ob.rsRun
  rw [hrs]
  rfl

/-- the reference gate of a decomposition / table-entry obligation (its single right-hand gate). -/
def Ob.refGate (o : Ob) : SGate := o.rs.headD default

/-- well-formed layout and exactly one gate on the right, decided by the kernel. -/
def Ob.singleShape (o : Ob) : Bool := o.wf && o.rs.length == 1

/-- "the left list implements the reference gate" (exactly / up to a unit-modulus scalar), for
all parameter values, on every state of every register: the hypothesis of `T08_placement`,
`T08_circuit` and of one entry of C10's `TablesOK`. -/
def Ob.SingleStmt (o : Ob) : Prop :=
  ∀ θ : Nat → ℝ, ∃ c : ℂ, ‖c‖ = 1 ∧ (o.mode = .exact → c = 1) ∧ ∀ (ψ : Lab → ℂ) (x : Lab),
    runCircuit (o.lsRun θ) ψ x = c * applyGate (o.refGate.toMGate θ) ψ x

theorem Ob.singleStmt_of_check (o : Ob) (hs : o.singleShape = true) (h : o.check = true) :
    o.SingleStmt := by
  simp only [Ob.singleShape, Bool.and_eq_true, beq_iff_eq] at hs
  obtain ⟨hwf, hr⟩ := hs
  obtain ⟨r, hrr⟩ : ∃ r, o.rs = [r] := by
    match hrs : o.rs, hr with
    | [r], _ => exact ⟨r, rfl⟩
  intro θ
  have := Ob.check_run_single o hwf h r hrr θ
  unfold Ob.refGate
  rw [hrr]
  exact this

/-! ### the unit circle as a submonoid (the `P` of C10's `PhaseEq`) -/

/-- complex numbers of modulus one. -/
def unitPhases : Submonoid ℂ where
  carrier := { c | ‖c‖ = 1 }
  mul_mem' := by
    intro a b ha hb
    have ha' : ‖a‖ = 1 := ha
    have hb' : ‖b‖ = 1 := hb
    show ‖a * b‖ = 1
    rw [norm_mul, ha', hb', mul_one]
  one_mem' := by
    show ‖(1 : ℂ)‖ = 1
    simp

theorem mem_unitPhases {c : ℂ} : c ∈ unitPhases ↔ ‖c‖ = 1 := Iff.rfl

/-! ### dagger obligations (C05) -/

/-- the gate returned by qibo's `dagger()` as traced (left side of a dagger obligation). -/
def Ob.dagGate (o : Ob) : SGate := o.ls.headD default
/-- the class's own traced gate (right side of a dagger obligation without its dagger flag). -/
def Ob.baseGate (o : Ob) : SGate := { o.rs.headD default with dagger := false }

/-- shape of a dagger obligation `⟦g.dagger()⟧ = ⟦g⟧ᴴ` (exact mode, one gate per side, the right
one flagged `dagger`, square local matrix of the size of its targets), decided by the kernel. -/
def Ob.dagShape (o : Ob) : Bool :=
  o.wf && o.ls.length == 1 && o.rs.length == 1 && (o.rs.headD default).dagger &&
    (o.mode == .exact) &&
    ((o.rs.headD default).mat.length == 2 ^ (o.rs.headD default).targets.length)

/-- "the traced `dagger()` gate undoes the gate": the hypothesis `hdag` of `T05_invert_run` for
the gate class of the obligation, for all parameter values and all states. -/
def Ob.DaggerUndoes (o : Ob) : Prop :=
  ∀ (θ : Nat → ℝ) (ψ : Lab → ℂ),
    applyGate (o.dagGate.toMGate θ) (applyGate (o.baseGate.toMGate θ) ψ) = ψ

/-- a gate whose traced matrix is unitary is undone by the same gate with the dagger flag. -/
theorem SGate.applyGate_dagger_flag (np : Nat) (r : SGate) (hd : r.dagger = true)
    (hn : r.targets.Nodup) (hdisj : ∀ c, c ∈ r.controls → c ∉ r.targets)
    (hsq : r.mat.length = 2 ^ r.targets.length)
    (hu : unitaryCheck np r.mat = true) (θ : Nat → ℝ) (ψ : Lab → ℂ) :
    applyGate (r.toMGate θ) (applyGate (({ r with dagger := false } : SGate).toMGate θ) ψ) = ψ := by
  have hun := unitaryCheck_sound np r.mat hu θ
  have h := applyGate_inv r.targets r.controls hn hdisj (r.locMat θ) (denoteEntry θ r.mat)
    (fun i j hi hj => by
      rw [← hsq] at hi hj ⊢
      rw [← hun i j hi hj]
      refine sum_congr rfl fun k hk => ?_
      unfold SGate.locMat
      rw [if_pos hd, CMat.dagger_apply_of_lt _ _ hi (mem_range.mp hk)]) ψ
  simpa [SGate.toMGate, SGate.locMat] using h

/-- **C05, per class**: a checked dagger obligation together with the unitarity of the class
matrix gives `hdag` for that class. -/
theorem Ob.daggerUndoes_of_check (o : Ob) (hs : o.dagShape = true) (h : o.check = true)
    (hu : unitaryCheck o.np (o.rs.headD default).mat = true) : o.DaggerUndoes := by
  simp only [Ob.dagShape, Bool.and_eq_true, beq_iff_eq] at hs
  obtain ⟨⟨⟨⟨⟨hwf, hl⟩, hr⟩, hd⟩, hm⟩, hsq⟩ := hs
  intro θ ψ
  obtain ⟨d, hld⟩ : ∃ d, o.ls = [d] := by
    match hls : o.ls, hl with
    | [d], _ => exact ⟨d, rfl⟩
  obtain ⟨r, hrr⟩ : ∃ r, o.rs = [r] := by
    match hrs : o.rs, hr with
    | [r], _ => exact ⟨r, rfl⟩
  have hrwf : r.WF o.n := (Ob.wf_sound hwf).2 r (by rw [hrr]; exact List.mem_singleton_self r)
  have e := Ob.check_run_exact o hwf hm h θ
  unfold Ob.lsRun Ob.rsRun at e
  unfold Ob.dagGate Ob.baseGate
  rw [hld, hrr] at e
  simp only [hld, hrr, List.headD_cons] at hd hsq hu ⊢
  have e' : ∀ φ, applyGate (d.toMGate θ) φ = applyGate (r.toMGate θ) φ := fun φ => e φ
  rw [e']
  exact SGate.applyGate_dagger_flag o.np r hd hrwf.tn hrwf.disj hsq hu θ ψ

/-! ### helpers for generated "for every class of the table" proofs -/

theorem forall_mem_nil {α : Type} (p : α → Prop) : ∀ x ∈ ([] : List α), p x :=
  fun _ h => nomatch h

theorem forall_mem_cons_of {α : Type} {p : α → Prop} {a : α} {l : List α} (h1 : p a)
    (h2 : ∀ x ∈ l, p x) : ∀ x ∈ a :: l, p x := by
  intro x hx
  rcases List.mem_cons.mp hx with rfl | hx
  · exact h1
  · exact h2 x hx

end QV
