/-
  QV.Proofs.FusionKeep — the fusion loop never moves, merges or reorders the entries that
  are not ordinary gates (measurements `M`, special gates such as `CallbackGate`).

  Invariant `KeepOK`: the node created for a non-gate entry `j` keeps `gates = [j]` and stays
  marked; the node created for an ordinary gate only ever holds ordinary gates.

  Results
    * `fuseLoop_keep`, `fuseModel_keep`
    * `fuseModel_groups_kind` : every group of the fused queue is either `[j]` (an original
      entry) or consists of ordinary gates only
    * `fuseModel_filter_kept` : the non-gate entries occur in the flattened fused queue in
      their original order
-/
import QV.Proofs.FusionInv
namespace QV

variable {queue : List FIn}

/-- kind of the `j`-th entry of the queue. -/
def kindAt (queue : List FIn) (j : Nat) : Nat := (queue.getD j default).kind

def KeepOK (queue : List FIn) (s : FState) : Prop :=
  ∀ j, j < s.size →
    (kindAt queue j ≠ 0 → (nodeAt s j).gates = [j] ∧ (nodeAt s j).marked = true) ∧
    (kindAt queue j = 0 → ∀ g ∈ (nodeAt s j).gates, kindAt queue g = 0)

theorem KeepOK.sameCore {s s' : FState} (h : SameCore s s') (k : KeepOK queue s) :
    KeepOK queue s' := by
  intro j hj
  have hc := h.2 j
  simp only [FNode.core, Prod.mk.injEq] at hc
  obtain ⟨_, h2, h3⟩ := hc
  rw [h2, h3]
  exact k j (h.1 ▸ hj)

/-- an unmarked node holds ordinary gates only. -/
theorem KeepOK.unmarked {s : FState} (k : KeepOK queue s) {b : Nat}
    (hB : (nodeAt s b).marked = false) : ∀ g ∈ (nodeAt s b).gates, kindAt queue g = 0 := by
  by_cases hb : b < s.size
  · by_cases hk : kindAt queue b = 0
    · exact (k b hb).2 hk
    · have := ((k b hb).1 hk).2
      rw [hB] at this
      exact absurd this (by simp)
  · rw [nodeAt_of_ge (by omega)]
    intro g hg
    have : (default : FNode).gates = [] := rfl
    rw [this] at hg
    exact absurd hg (by simp)

theorem KeepOK.unmarked_kind {s : FState} (k : KeepOK queue s) {b : Nat} (hb : b < s.size)
    (hB : (nodeAt s b).marked = false) : kindAt queue b = 0 := by
  by_contra hk
  have := ((k b hb).1 hk).2
  rw [hB] at this
  exact absurd this (by simp)

/-- merging the unmarked node `c` into the unmarked node `p` (either order of the gates). -/
theorem KeepOK.merge {s : FState} (k : KeepOK queue s) {p c : Nat}
    (hP : (nodeAt s p).marked = false) (hC : (nodeAt s c).marked = false)
    (Q : FNode → List Nat) (G : FNode → List Nat)
    (hG : ∀ nd g, g ∈ G nd → g ∈ nd.gates ∨ g ∈ (nodeAt s c).gates) :
    KeepOK queue ((s.modify c (fun nd => { nd with marked := true })).modify p (fun nd =>
        { nd with qubits := Q nd, gates := G nd })) := by
  intro j hj
  have hj' : j < s.size := by simpa using hj
  rw [nodeAt_modify, nodeAt_modify]
  simp only [Array.size_modify]
  have kj := k j hj'
  by_cases h1 : p = j <;> by_cases h2 : c = j
  · subst h1; subst h2
    simp only [true_and, hj', if_true]
    have hk0 := k.unmarked_kind hj' hP
    refine ⟨fun hk => absurd hk0 hk, fun _ g hg => ?_⟩
    rcases hG _ g hg with h | h
    · exact k.unmarked hP g h
    · exact k.unmarked hC g h
  · subst h1
    simp only [true_and, hj', if_true, h2, false_and, if_false]
    have hk0 := k.unmarked_kind hj' hP
    refine ⟨fun hk => absurd hk0 hk, fun _ g hg => ?_⟩
    rcases hG _ g hg with h | h
    · exact k.unmarked hP g h
    · exact k.unmarked hC g h
  · subst h2
    simp only [true_and, hj', if_true, h1, false_and, if_false]
    exact ⟨fun hk => ⟨(kj.1 hk).1, trivial⟩, kj.2⟩
  · simp only [h1, h2, false_and, if_false]
    exact kj

theorem fuseNodes_keep {s : FState} {a b : Nat} (k : KeepOK queue s)
    (hA : (nodeAt s a).marked = false) (hB : (nodeAt s b).marked = false) :
    KeepOK queue (fuseNodes s a b) := by
  rcases fuseNodes_cases s a b with hc | hc | hc
  · exact k.sameCore hc
  · refine KeepOK.sameCore hc ?_
    exact k.merge hA hB (fun nd => unionS nd.qubits (nodeAt s b).qubits)
      (fun nd => nd.gates ++ (nodeAt s b).gates) (fun nd g hg => List.mem_append.1 hg)
  · refine KeepOK.sameCore hc ?_
    exact k.merge hB hA (fun nd => unionS nd.qubits (nodeAt s a).qubits)
      (fun nd => (nodeAt s a).gates ++ nd.gates)
      (fun nd g hg => (List.mem_append.1 hg).symm)

theorem fuseAt_keep {maxq : Nat} {s : FState} (i q : Nat) (k : KeepOK queue s) :
    KeepOK queue (fuseAt maxq i s q) := by
  unfold fuseAt
  have key : ∀ (t : FState) (ob : Option Nat) (first : Bool), KeepOK queue t →
      KeepOK queue (if canFuse t i ob maxq then
        (if first then fuseNodes t i (ob.getD 0) else fuseNodes t (ob.getD 0) i) else t) := by
    intro t ob first kt
    split_ifs with h h'
    · cases ob with
      | none => simp [canFuse] at h
      | some b =>
        have := canFuse_some h
        exact fuseNodes_keep kt this.1 this.2.1
    · cases ob with
      | none => simp [canFuse] at h
      | some b =>
        have := canFuse_some h
        exact fuseNodes_keep kt this.2.1 this.1
    · exact kt
  have h1 := key s (dget (nodeAt s i).right q) true k
  simp only [if_true] at h1
  have h2 := key _ (dget (nodeAt (if canFuse s i (dget (nodeAt s i).right q) maxq = true then
      fuseNodes s i ((dget (nodeAt s i).right q).getD 0) else s) i).left q) false h1
  simpa using h2

theorem fuseLoop_keep {maxq : Nat} {s : FState} (k : KeepOK queue s) :
    KeepOK queue (fuseLoop maxq s) := by
  unfold fuseLoop
  refine foldl_pres (KeepOK queue) _ (fun t i kt => ?_) _ s k
  split_ifs
  · exact kt
  · exact foldl_pres (KeepOK queue) _ (fun u q ku => fuseAt_keep i q ku) _ t kt

theorem toFused_keep (n : Nat) (queue : List FIn) : KeepOK queue (toFused n queue) := by
  intro j hj
  rw [toFused_size] at hj
  have hc := toFused_core n queue j hj
  simp only [FNode.core, coreOf, Prod.mk.injEq] at hc
  obtain ⟨_, h2, h3⟩ := hc
  rw [h2, h3]
  refine ⟨fun hk => ⟨rfl, ?_⟩, fun hk g hg => ?_⟩
  · simpa [kindAt] using hk
  · rw [List.mem_singleton] at hg; subst hg; exact hk

theorem fuseModel_keep (n maxq : Nat) (queue : List FIn) :
    KeepOK queue (fuseLoop maxq (toFused n queue)) :=
  fuseLoop_keep (toFused_keep n queue)

/-! ### consequences for the output -/

/-- a kept node contributes exactly its own entry; a gate node contributes ordinary gates. -/
theorem contrib_keep {s : FState} (k : KeepOK queue s) {j : Nat} (hj : j < s.size) :
    (kindAt queue j ≠ 0 → contrib queue (nodeAt s j) = [j]) ∧
    (kindAt queue j = 0 → ∀ g ∈ contrib queue (nodeAt s j), kindAt queue g = 0) := by
  constructor
  · intro hk
    obtain ⟨h1, h2⟩ := (k j hj).1 hk
    unfold contrib
    rw [h1, h2]
    have : ((queue.getD j default).kind != 0) = true := by simpa [kindAt] using hk
    simp only [Bool.not_true, Bool.false_eq_true, if_false, this, if_true]
  · intro hk g hg
    have hall := (k j hj).2 hk
    unfold contrib at hg
    split_ifs at hg with hm
    · exact hall g hg
    · cases hgs : (nodeAt s j).gates with
      | nil => rw [hgs] at hg; simp at hg
      | cons g0 l =>
        rw [hgs] at hg
        dsimp only at hg
        split_ifs at hg with hk0
        · rw [List.mem_singleton] at hg; subst hg
          have := hall g (by rw [hgs]; simp)
          simp [kindAt] at this
          simp [this] at hk0
        · simp at hg

/-- **Every group of the fused queue is an original entry or a group of ordinary gates.** -/
theorem fuseModel_groups_kind (n maxq : Nat) (queue : List FIn) :
    ∀ grp ∈ fuseModel n maxq queue,
      (∃ j, grp = [j]) ∨ ∀ g ∈ grp, kindAt queue g = 0 := by
  intro grp hg
  unfold fuseModel fromFused at hg
  obtain ⟨nd, hnd, hf⟩ := List.mem_filterMap.1 hg
  obtain ⟨i, hi, rfl⟩ := mem_toList_iff.1 hnd
  have k := fuseModel_keep n maxq queue
  have ki := k i hi
  by_cases hm : (nodeAt (fuseLoop maxq (toFused n queue)) i).marked
  · simp only [hm, Bool.not_true, Bool.false_eq_true, if_false] at hf
    cases hgs : (nodeAt (fuseLoop maxq (toFused n queue)) i).gates with
    | nil => rw [hgs] at hf; simp at hf
    | cons g l =>
      rw [hgs] at hf
      dsimp only at hf
      split_ifs at hf
      simp only [Option.some.injEq] at hf
      exact Or.inl ⟨g, hf.symm⟩
  · simp only [hm, Bool.not_false, if_true, Option.some.injEq] at hf
    subst hf
    have hm' : (nodeAt (fuseLoop maxq (toFused n queue)) i).marked = false := by simpa using hm
    exact Or.inr (k.unmarked hm')

theorem filter_flatten_range (f : Nat → List Nat) (p : Nat → Bool) (N : Nat)
    (h1 : ∀ j, j < N → p j = true → f j = [j])
    (h2 : ∀ j, j < N → p j = false → ∀ g ∈ f j, p g = false) :
    (((List.range N).map f).flatten).filter p = (List.range N).filter p := by
  induction N with
  | zero => rfl
  | succ N ih =>
    rw [List.range_succ, List.map_append, List.flatten_append, List.filter_append,
      List.filter_append,
      ih (fun j hj => h1 j (by omega)) (fun j hj => h2 j (by omega))]
    congr 1
    simp only [List.map_cons, List.map_nil, List.flatten_cons, List.flatten_nil,
      List.append_nil]
    cases hp : p N with
    | true => rw [h1 N (by omega) hp]
    | false =>
      rw [List.filter_eq_nil_iff.2 (fun g hg => by simp [h2 N (by omega) hp g hg])]
      simp [hp]

/-- **The entries that are not ordinary gates keep their order**: filtering the flattened
fused queue for them gives the same list as filtering the original queue. -/
theorem fuseModel_filter_kept (n maxq : Nat) (queue : List FIn) :
    (fuseModel n maxq queue).flatten.filter (fun g => kindAt queue g != 0)
      = (List.range queue.length).filter (fun g => kindAt queue g != 0) := by
  unfold fuseModel
  rw [fromFused_flatten]
  have k := fuseModel_keep n maxq queue
  have hsz : (fuseLoop maxq (toFused n queue)).size = queue.length := by
    have inv0 : Inv n maxq queue (toFused n queue).size (toFused n queue) :=
      ⟨rfl, toFused_ok n maxq queue, toFused_PI n queue, by rw [toFused_contribs]⟩
    rw [(fuseLoop_inv inv0).1, toFused_size]
  unfold contribs
  rw [hsz]
  apply filter_flatten_range
  · intro j hj hp
    exact (contrib_keep k (hsz ▸ hj)).1 (by simpa using hp)
  · intro j hj hp g hg
    have := (contrib_keep k (hsz ▸ hj)).2 (by simpa using hp) g hg
    simp [this]

end QV
