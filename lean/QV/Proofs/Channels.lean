/-
  QV.Proofs.Channels — lemmas about the channel model (QV/Model/Channels.lean).
-/
import Mathlib.Algebra.Ring.Hom.Defs
import Mathlib.Tactic.Ring
import Mathlib.Tactic.LinearCombination
import QV.Proofs.DMLemmas
import QV.Model.Channels

namespace QV
open Finset

variable {α : Type} [CommRing α]

/-! ### single-qubit gates, explicitly -/

theorem Lab.setMany_single (y z : Lab) (q : Nat) : Lab.setMany y [q] z = y.set q (z q) := by
  funext r
  by_cases h : r = q
  · subst h; simp [Lab.setMany, Lab.set]
  · simp [Lab.setMany, Lab.set, h]

/-- local index of a bit. -/
def bn (b : Bool) : Nat := if b then 1 else 0

theorem idx_single (q : Nat) (x : Lab) : Lab.idx [q] x = bn (x q) := by
  simp [Lab.idx, bn]

/-- `G ρ G†` for an uncontrolled single-qubit gate, entry by entry. -/
theorem applyGateDM_g1 (conj : α → α) (m : Nat → Nat → α) (q : Nat) (ρ : DM α) (x y : Lab) :
    applyGateDM conj { mat := m, targets := [q] } ρ x y
      = m (bn (x q)) 0 * (conj (m (bn (y q)) 0) * ρ (x.set q false) (y.set q false)
                          + conj (m (bn (y q)) 1) * ρ (x.set q false) (y.set q true))
      + m (bn (x q)) 1 * (conj (m (bn (y q)) 0) * ρ (x.set q true) (y.set q false)
                          + conj (m (bn (y q)) 1) * ρ (x.set q true) (y.set q true)) := by
  simp [applyGateDM, applyLeft, applyRight, applyGate, sumOver, Lab.allOne, idx_single, bn]

theorem gX_eq (q : Nat) : (gX q : MGate α) = { mat := matX, targets := [q] } := rfl
theorem gZ_eq (q : Nat) : (gZ q : MGate α) = { mat := matZ, targets := [q] } := rfl

theorem ptraceSet_single (q : Nat) (ρ : DM α) (x y : Lab) :
    ptraceSet [q] ρ x y = ρ (x.set q false) (y.set q false) + ρ (x.set q true) (y.set q true) := by
  simp [ptraceSet, sumOver, Lab.setMany_single]

theorem traceZero_set (q : Nat) (ρ : DM α) (x y : Lab) (a b : Bool) :
    traceZero q ρ (x.set q a) (y.set q b)
      = if a = false ∧ b = false then
          ρ (x.set q false) (y.set q false) + ρ (x.set q true) (y.set q true) else 0 := by
  simp [traceZero, ptraceSet_single, Lab.set_set]

theorem traceZero_eq (q : Nat) (ρ : DM α) (x y : Lab) :
    traceZero q ρ x y
      = if x q = false ∧ y q = false then
          ρ (x.set q false) (y.set q false) + ρ (x.set q true) (y.set q true) else 0 := by
  simp [traceZero, ptraceSet_single]

/-- the closed form of the reset channel, entry by entry: with `t = ρ₀₀ + ρ₁₁` (partial trace
over `q`), `c0·ρ + p0·t⊗|0⟩⟨0| + p1·t⊗|1⟩⟨1|`. -/
def resetSpec (c0 p0 p1 : α) (q : Nat) (ρ : DM α) : DM α := fun x y =>
  c0 * ρ x y
    + (if x q = y q then
        (if x q then p1 else p0) * (ρ (x.set q false) (y.set q false) + ρ (x.set q true) (y.set q true))
       else 0)

theorem resetFast_eq_spec (conj : α →+* α) (c0 p0 p1 : α) (q : Nat) (ρ : DM α) :
    resetFast conj c0 p0 p1 q ρ = resetSpec c0 p0 p1 q ρ := by
  funext x y
  simp only [resetFast, resetSpec, gX_eq, applyGateDM_g1, traceZero_eq]
  cases hx : x q <;> cases hy : y q <;> simp [bn, matX, Lab.set_set]
  all_goals ring

/-- two density matrices agree if they agree on all labels whose bit `q` is written out. -/
theorem dm_ext_bit (q : Nat) (F G : DM α)
    (h : ∀ (x y : Lab) (a b : Bool), F (x.set q a) (y.set q b) = G (x.set q a) (y.set q b)) :
    F = G := by
  funext x y
  have := h x y (x q) (y q)
  rwa [Lab.set_self, Lab.set_self] at this

theorem resetKraus_eq_spec (conj : α →+* α) (a b c c0 p0 p1 : α) (ha : a * a = p0)
    (hb : b * b = p1) (hc : c * c = c0) (hca : conj a = a) (hcb : conj b = b) (hcc : conj c = c)
    (q : Nat) (ρ : DM α) :
    applyChannelDM conj (resetChan a b c true q) ρ = resetSpec c0 p0 p1 q ρ := by
  apply dm_ext_bit q
  intro x y bx bby
  simp only [applyChannelDM, resetChan, krausChan, krausFold, resetSpec, g1, applyGateDM_g1,
    Lab.set_same, Lab.set_set, List.map, List.zip, List.zipWith, List.foldl,
    List.cons_append, List.nil_append, if_true]
  subst ha hb hc
  cases bx <;> cases bby <;> simp [bn, mat2, hca, hcb, hcc] <;> ring

theorem resetKraus_noId_eq_spec (conj : α →+* α) (a b c p0 p1 : α) (ha : a * a = p0)
    (hb : b * b = p1) (hca : conj a = a) (hcb : conj b = b) (q : Nat) (ρ : DM α) :
    applyChannelDM conj (resetChan a b c false q) ρ = resetSpec 0 p0 p1 q ρ := by
  apply dm_ext_bit q
  intro x y bx bby
  simp only [applyChannelDM, resetChan, krausChan, krausFold, resetSpec, g1, applyGateDM_g1,
    Lab.set_same, Lab.set_set, List.map, List.zip, List.zipWith, List.foldl,
    List.append_nil, Bool.false_eq_true, if_false]
  subst ha hb
  cases bx <;> cases bby <;> simp [bn, mat2, hca, hcb] <;> ring

/-! ### thermal relaxation -/

/-- closed form for `t_1 ≥ t_2`: reset part plus dephasing `p_z (Z ρ Z − ρ)`. -/
def thermalHiSpec (c0 p0 p1 pz : α) (q : Nat) (ρ : DM α) : DM α := fun x y =>
  resetSpec c0 p0 p1 q ρ x y - (if x q = y q then 0 else (pz + pz) * ρ x y)

theorem thermalFastHi_eq_spec (conj : α →+* α) (c0 p0 p1 pz : α) (q : Nat) (ρ : DM α) :
    thermalFastHi conj c0 p0 p1 pz q ρ = thermalHiSpec c0 p0 p1 pz q ρ := by
  apply dm_ext_bit q
  intro x y bx bby
  simp only [thermalFastHi, thermalHiSpec, resetFast_eq_spec, resetSpec, gZ_eq, applyGateDM_g1,
    Lab.set_same, Lab.set_set]
  cases bx <;> cases bby <;> simp [bn, matZ] <;> ring

theorem thermalKrausHi_eq_spec (conj : α →+* α) (a b z c c0 p0 p1 pz : α) (ha : a * a = p0)
    (hb : b * b = p1) (hz : z * z = pz) (hc : c * c + pz = c0)
    (hca : conj a = a) (hcb : conj b = b) (hcz : conj z = z) (hcc : conj c = c)
    (q : Nat) (ρ : DM α) :
    applyChannelDM conj (thermalChanHi a b z c q) ρ = thermalHiSpec c0 p0 p1 pz q ρ := by
  apply dm_ext_bit q
  intro x y bx bby
  simp only [applyChannelDM, thermalChanHi, krausChan, krausFold, thermalHiSpec, resetSpec, g1,
    applyGateDM_g1, Lab.set_same, Lab.set_set, List.map, List.zip, List.zipWith, List.foldl]
  subst ha hb hz hc
  cases bx <;> cases bby <;> simp [bn, mat2, hca, hcb, hcz, hcc] <;> ring

/-- closed form for `t_1 < t_2` (the documented Choi matrix Λ), entry by entry. -/
def thermalLoSpec (p0 p1 e : α) (q : Nat) (ρ : DM α) : DM α := fun x y =>
  if x q = y q then
    (if x q then p1 * ρ (x.set q false) (y.set q false) + (1 - p0) * ρ (x.set q true) (y.set q true)
     else (1 - p1) * ρ (x.set q false) (y.set q false) + p0 * ρ (x.set q true) (y.set q true))
  else e * ρ x y

theorem thermalKrausLo_eq_spec (conj : α →+* α) (a b x1 y1 x2 y2 p0 p1 e : α)
    (ha : a * a = p0) (hb : b * b = p1)
    (hxx : x1 * x1 + x2 * x2 = 1 - p1) (hyy : y1 * y1 + y2 * y2 = 1 - p0)
    (hxy : x1 * y1 + x2 * y2 = e)
    (hca : conj a = a) (hcb : conj b = b) (hx1 : conj x1 = x1) (hy1 : conj y1 = y1)
    (hx2 : conj x2 = x2) (hy2 : conj y2 = y2) (q : Nat) (ρ : DM α) :
    applyChannelDM conj (thermalChanLo a b x1 y1 x2 y2 q) ρ = thermalLoSpec p0 p1 e q ρ := by
  apply dm_ext_bit q
  intro x y bx bby
  simp only [applyChannelDM, thermalChanLo, krausChan, krausFold, thermalLoSpec, g1,
    applyGateDM_g1, Lab.set_same, Lab.set_set, List.map, List.zip, List.zipWith, List.foldl]
  subst ha hb hxy
  cases bx <;> cases bby <;> simp [bn, mat2, hca, hcb, hx1, hy1, hx2, hy2]
  · linear_combination (ρ (x.set q false) (y.set q false)) * hxx
  · ring
  · ring
  · linear_combination (ρ (x.set q true) (y.set q true)) * hyy

/-! ### amplitude / phase damping -/

def ampDampSpec (γ s : α) (q : Nat) (ρ : DM α) : DM α := fun x y =>
  if x q = y q then
    (if x q then (1 - γ) * ρ x y else ρ x y + γ * ρ (x.set q true) (y.set q true))
  else s * ρ x y

theorem ampDampKraus_eq_spec (conj : α →+* α) (s a γ : α) (hs : s * s = 1 - γ) (ha : a * a = γ)
    (hcs : conj s = s) (hca : conj a = a) (q : Nat) (ρ : DM α) :
    applyChannelDM conj (ampDampChan s a q) ρ = ampDampSpec γ s q ρ := by
  apply dm_ext_bit q
  intro x y bx bby
  simp only [applyChannelDM, ampDampChan, krausChan, krausFold, ampDampSpec, g1,
    applyGateDM_g1, Lab.set_same, Lab.set_set, List.map, List.zip, List.zipWith, List.foldl]
  subst ha
  cases bx <;> cases bby <;> simp [bn, mat2, hcs, hca]
  · ring
  · linear_combination (ρ (x.set q true) (y.set q true)) * hs

def phaseDampSpec (s : α) (q : Nat) (ρ : DM α) : DM α := fun x y =>
  if x q = y q then ρ x y else s * ρ x y

theorem phaseDampKraus_eq_spec (conj : α →+* α) (s a γ : α) (hs : s * s = 1 - γ) (ha : a * a = γ)
    (hcs : conj s = s) (hca : conj a = a) (q : Nat) (ρ : DM α) :
    applyChannelDM conj (phaseDampChan s a q) ρ = phaseDampSpec s q ρ := by
  apply dm_ext_bit q
  intro x y bx bby
  simp only [applyChannelDM, phaseDampChan, krausChan, krausFold, phaseDampSpec, g1,
    applyGateDM_g1, Lab.set_same, Lab.set_set, List.map, List.zip, List.zipWith, List.foldl]
  subst ha
  cases bx <;> cases bby <;> simp [bn, mat2, hcs, hca]
  linear_combination (ρ (x.set q true) (y.set q true)) * hs

/-! ### one-qubit depolarizing channel = Pauli twirl -/

def depolSpec (c0 w : α) (q : Nat) (ρ : DM α) : DM α := fun x y =>
  c0 * ρ x y + (if x q = y q then
    w * (ρ (x.set q false) (y.set q false) + ρ (x.set q true) (y.set q true)) else 0)

theorem depolFast_single_eq_spec (c0 w : α) (q : Nat) (ρ : DM α) :
    depolFast c0 w [q] ρ = depolSpec c0 w q ρ := by
  funext x y
  simp only [depolFast, depolSpec, ptraceSet_single, List.all_cons, List.all_nil, Bool.and_true]
  cases hx : x q <;> cases hy : y q <;> simp

theorem pauliCodes_one : pauliCodes 1 = [[0], [1], [2], [3]] := by
  simp [pauliCodes]

/-- the Pauli-twirl identity on one qubit at any position: `(1-3u)ρ + u(XρX + YρY + ZρZ)`
equals `(1-4u)ρ + 2u·(Tr_q ρ ⊗ I)`. -/
theorem depolKraus_single_eq_spec (conj : α →+* α) (I u : α) (hI : I * I = -1)
    (hcI : conj I = -I) (q : Nat) (ρ : DM α) :
    applyChannelDM conj (depolChan I u [q]) ρ = depolSpec (1 - 4 * u) (2 * u) q ρ := by
  apply dm_ext_bit q
  intro x y bx bby
  simp only [applyChannelDM, depolChan, pauliChan, unitaryChan, krausFold, depolSpec,
    pauliCodes_one, List.length_singleton, List.drop_succ_cons, List.drop_zero,
    applyGateDM_g1, Lab.set_same, Lab.set_set, List.map, List.zip, List.zipWith, List.foldl]
  cases bx <;> cases bby <;>
    simp [bn, pauliStringMat, pauliMat, matX, matY, matZ, hcI] <;> grind

/-! ### trace preservation of the closed forms, at any position of any register -/

theorem trN_single (q : Nat) (F : DM α) (z : Lab) :
    trN [q] F z = F (z.set q false) (z.set q false) + F (z.set q true) (z.set q true) := by
  simp [trN, sumOver]

/-- a statement about the partial trace over the touched qubits lifts to every register
(`qs`) containing them. -/
theorem trN_congr_of_targets (ts qs : List Nat) (hn : ts.Nodup) (hsub : ∀ t, t ∈ ts → t ∈ qs)
    (F G : DM α) (h : ∀ z, trN ts F z = trN ts G z) (x : Lab) : trN qs F x = trN qs G x := by
  obtain ⟨l', hl', hsl⟩ := List.subperm_of_subset hn hsub
  obtain ⟨l, hl⟩ := hsl.exists_perm_append
  have hperm : qs.Perm (l ++ ts) := hl.trans ((hl'.append_right l).trans List.perm_append_comm)
  unfold trN
  rw [sumOver_perm hperm, sumOver_perm hperm, sumOver_append, sumOver_append]
  congr 1
  funext z
  exact h z

theorem trN_resetSpec (c0 p0 p1 : α) (h1 : c0 + p0 + p1 = 1) (q : Nat) (ρ : DM α) (z : Lab) :
    trN [q] (resetSpec c0 p0 p1 q ρ) z = trN [q] ρ z := by
  simp only [trN_single, resetSpec, Lab.set_same, Lab.set_set]
  simp
  linear_combination (ρ (z.set q false) (z.set q false) + ρ (z.set q true) (z.set q true)) * h1

theorem trN_thermalHiSpec (c0 p0 p1 pz : α) (h1 : c0 + p0 + p1 = 1) (q : Nat) (ρ : DM α)
    (z : Lab) : trN [q] (thermalHiSpec c0 p0 p1 pz q ρ) z = trN [q] ρ z := by
  simp only [trN_single, thermalHiSpec, resetSpec, Lab.set_same, Lab.set_set]
  simp
  linear_combination (ρ (z.set q false) (z.set q false) + ρ (z.set q true) (z.set q true)) * h1

theorem trN_thermalLoSpec (p0 p1 e : α) (q : Nat) (ρ : DM α) (z : Lab) :
    trN [q] (thermalLoSpec p0 p1 e q ρ) z = trN [q] ρ z := by
  simp only [trN_single, thermalLoSpec, Lab.set_same, Lab.set_set]
  simp
  ring

theorem trN_ampDampSpec (γ s : α) (q : Nat) (ρ : DM α) (z : Lab) :
    trN [q] (ampDampSpec γ s q ρ) z = trN [q] ρ z := by
  simp only [trN_single, ampDampSpec, Lab.set_same, Lab.set_set]
  simp
  ring

theorem trN_phaseDampSpec (s : α) (q : Nat) (ρ : DM α) (z : Lab) :
    trN [q] (phaseDampSpec s q ρ) z = trN [q] ρ z := by
  simp only [trN_single, phaseDampSpec, Lab.set_same, Lab.set_set]
  simp

theorem trN_depolSpec (c0 w : α) (h1 : c0 + 2 * w = 1) (q : Nat) (ρ : DM α) (z : Lab) :
    trN [q] (depolSpec c0 w q ρ) z = trN [q] ρ z := by
  simp only [trN_single, depolSpec, Lab.set_same, Lab.set_set]
  simp
  linear_combination (ρ (z.set q false) (z.set q false) + ρ (z.set q true) (z.set q true)) * h1

/-! ### the thermal fast path of the regime `t_1 < t_2` -/

/-- `ρ` only looks at the bits of an `n`-qubit register. -/
def DM.OnRegister (n : Nat) (ρ : DM α) : Prop :=
  ∀ x x' y y' : Lab, (∀ r, r < n → x r = x' r) → (∀ r, r < n → y r = y' r) → ρ x y = ρ x' y'

/-- the label of the flattened state that `unflattenDM` reads. -/
def joinLab (n : Nat) (x y : Lab) : Lab := fun r => if r < n then x r else (r - n < n && y (r - n))

theorem flatten_entry (n q : Nat) (hq : q < n) (ρ : DM α) (hρ : DM.OnRegister n ρ) (x y : Lab)
    (a b : Bool) :
    flattenDM n ρ (((joinLab n x y).set q a).set (q + n) b) = ρ (x.set q a) (y.set q b) := by
  unfold flattenDM
  apply hρ
  · intro r hr
    have h1 : r ≠ q + n := by omega
    by_cases h2 : r = q
    · subst h2
      have h0 : n ≠ 0 := by omega
      simp [Lab.set, hr, h0]
    · simp [Lab.set, joinLab, hr, h1, h2]
  · intro r hr
    by_cases h2 : r = q
    · subst h2; simp [Lab.set, hr]
    · have h3 : r + n ≠ q + n := by omega
      have h4 : r + n ≠ q := by omega
      have h5 : ¬ (r + n < n) := by omega
      simp [Lab.set, joinLab, hr, h2, h3, h4, h5]

theorem joinLab_q (n q : Nat) (hq : q < n) (x y : Lab) : joinLab n x y q = x q := by
  simp [joinLab, hq]

theorem joinLab_qn (n q : Nat) (hq : q < n) (x y : Lab) : joinLab n x y (q + n) = y q := by
  have h5 : ¬ (q + n < n) := by omega
  simp [joinLab, h5, hq]

theorem thermalFastLo_eq_spec (n q : Nat) (hq : q < n) (p0 p1 e : α) (ρ : DM α)
    (hρ : DM.OnRegister n ρ) :
    thermalFastLo n (thermalMat p0 p1 e) q ρ = thermalLoSpec p0 p1 e q ρ := by
  funext x y
  have hne : q ≠ q + n := by omega
  have key : ∀ a b, flattenDM n ρ (((joinLab n x y).set q a).set (q + n) b)
      = ρ (x.set q a) (y.set q b) := fun a b => flatten_entry n q hq ρ hρ x y a b
  have hx : x = x.set q (x q) := (Lab.set_self x q).symm
  have hy : y = y.set q (y q) := (Lab.set_self y q).symm
  show applyGate { mat := thermalMat p0 p1 e, targets := [q, q + n] } (flattenDM n ρ)
      (joinLab n x y) = _
  simp only [applyGate, Lab.allOne, List.all_nil, if_true, sumOver, key, Lab.idx, List.foldl,
    Lab.set_same, Lab.set_other _ _ hne, joinLab_q n q hq, joinLab_qn n q hq, thermalLoSpec]
  cases hxq : x q <;> cases hyq : y q <;> simp [thermalMat]
  · rw [hx, hy, hxq, hyq]; simp [Lab.set_set]
  · rw [hx, hy, hxq, hyq]; simp [Lab.set_set]

/-! ### the generic path: sum form, linearity -/

theorem krausFold_acc (conj : α → α) (terms : List (α × MGate α)) (ρ : DM α) (acc : DM α)
    (x y : Lab) :
    terms.foldl (fun acc cg => fun x y => acc x y + cg.1 * applyGateDM conj cg.2 ρ x y) acc x y
      = acc x y + (terms.map (fun t => t.1 * applyGateDM conj t.2 ρ x y)).sum := by
  induction terms generalizing acc with
  | nil => simp
  | cons t ts ih => simp only [List.foldl_cons, ih, List.map_cons, List.sum_cons]; ring

/-- `apply_channel_density_matrix` computes `c0·ρ + Σ_k c_k · G_k ρ G_k†`. -/
theorem krausFold_eq (conj : α → α) (c0 : α) (terms : List (α × MGate α)) (ρ : DM α)
    (x y : Lab) :
    krausFold conj c0 terms ρ x y
      = c0 * ρ x y + (terms.map (fun t => t.1 * applyGateDM conj t.2 ρ x y)).sum := by
  unfold krausFold
  rw [krausFold_acc]

theorem krausFold_add (conj : α → α) (c0 : α) (terms : List (α × MGate α)) (ρ σ : DM α) :
    krausFold conj c0 terms (fun x y => ρ x y + σ x y)
      = fun x y => krausFold conj c0 terms ρ x y + krausFold conj c0 terms σ x y := by
  funext x y
  simp only [krausFold_eq, applyGateDM_add]
  induction terms with
  | nil => simp; ring
  | cons t ts ih =>
    simp only [List.map_cons, List.sum_cons]
    linear_combination ih

theorem krausFold_smul (conj : α → α) (c0 c : α) (terms : List (α × MGate α)) (ρ : DM α) :
    krausFold conj c0 terms (fun x y => c * ρ x y)
      = fun x y => c * krausFold conj c0 terms ρ x y := by
  funext x y
  simp only [krausFold_eq, applyGateDM_smul]
  induction terms with
  | nil => simp; ring
  | cons t ts ih =>
    simp only [List.map_cons, List.sum_cons]
    linear_combination ih

/-- partial trace of the generic path, term by term. -/
theorem trN_krausFold (conj : α → α) (qs : List Nat) (c0 : α) (terms : List (α × MGate α))
    (ρ : DM α) (z : Lab) :
    trN qs (krausFold conj c0 terms ρ) z
      = c0 * trN qs ρ z + (terms.map (fun t => t.1 * trN qs (applyGateDM conj t.2 ρ) z)).sum := by
  have h : krausFold conj c0 terms ρ
      = fun x y => c0 * ρ x y + (terms.map (fun t => t.1 * applyGateDM conj t.2 ρ x y)).sum := by
    funext x y; exact krausFold_eq conj c0 terms ρ x y
  rw [h]
  clear h
  unfold trN
  induction terms with
  | nil => simp [sumOver_mul_left]
  | cons t ts ih =>
    simp only [List.map_cons, List.sum_cons]
    have e : (fun y : Lab => c0 * ρ y y + (t.1 * applyGateDM conj t.2 ρ y y
          + (ts.map (fun t => t.1 * applyGateDM conj t.2 ρ y y)).sum))
        = fun y => t.1 * applyGateDM conj t.2 ρ y y
          + (c0 * ρ y y + (ts.map (fun t => t.1 * applyGateDM conj t.2 ρ y y)).sum) := by
      funext y; ring
    rw [e, sumOver_add, ih, sumOver_mul_left]
    ring

/-- mixtures of unitaries preserve the trace: if every gate satisfies `M†M = 1` and the weights
(with the identity weight `c0`) sum to one. -/
theorem trN_krausFold_unitary (conj : α → α) (qs : List Nat) (c0 : α)
    (terms : List (α × MGate α))
    (hgs : ∀ t ∈ terms, t.2.targets.Nodup ∧ (∀ c, c ∈ t.2.controls → c ∉ t.2.targets) ∧
      (∀ q, q ∈ t.2.targets → q ∈ qs) ∧
      ∀ i j, i < 2 ^ t.2.targets.length → j < 2 ^ t.2.targets.length →
        ∑ k ∈ range (2 ^ t.2.targets.length), conj (t.2.mat k i) * t.2.mat k j
          = if i = j then 1 else 0)
    (hsum : c0 + (terms.map (·.1)).sum = 1) (ρ : DM α) (z : Lab) :
    trN qs (krausFold conj c0 terms ρ) z = trN qs ρ z := by
  rw [trN_krausFold]
  have : (terms.map (fun t => t.1 * trN qs (applyGateDM conj t.2 ρ) z)).sum
      = (terms.map (·.1)).sum * trN qs ρ z := by
    clear hsum
    induction terms with
    | nil => simp
    | cons t ts ih =>
      obtain ⟨hn, hd, hsub, hU⟩ := hgs t (List.mem_cons_self ..)
      simp only [List.map_cons, List.sum_cons]
      rw [ih (fun t' hm => hgs t' (List.mem_cons_of_mem _ hm)),
        trN_applyGateDM conj qs t.2 hn hd hsub hU]
      ring
  rw [this]
  linear_combination (trN qs ρ z) * hsum

/-! ### the channel object under representation queries -/

theorem Chan.run_queries (ch : Chan α) (qs : List Query) : qs.foldl Chan.query ch = ch := by
  induction qs with
  | nil => rfl
  | cons q qs ih => simpa [List.foldl_cons, Chan.query] using ih

/-- what the original (defective) `to_choi` did to later executions: the appended identity term
is executed on top of the unchanged `1 - coefficient_sum` weight. -/
theorem applyChannelDM_queryMutating (conj : α →+* α) (ch : Chan α) (idq : List Nat)
    (hn : idq.Nodup) (hlen : ch.coeffs.length = ch.gates.length) (c0 : α) (Q : Query) (ρ : DM α) :
    applyChannelDM conj (ch.queryMutating idq true c0 Q) ρ
      = fun x y => applyChannelDM conj ch ρ x y + c0 * ρ x y := by
  have hI : applyGateDM conj ({ mat := matI, targets := idq } : MGate α) ρ = ρ := by
    have h1 : ∀ (g : MGate α), g.targets = idq → (∀ i j, g.mat i j = if i = j then 1 else 0) →
        ∀ ψ : Lab → α, applyGate g ψ = ψ := fun g hg hm ψ =>
      applyGate_one g (hg ▸ hn) (fun i j _ _ => hm i j) ψ
    funext x y
    unfold applyGateDM applyLeft applyRight
    rw [h1 _ rfl (fun i j => by simp [matI]), h1 _ rfl (fun i j => by
      by_cases h : i = j <;> simp [matI, h])]
  funext x y
  simp only [applyChannelDM, Chan.queryMutating, if_true, krausFold_eq,
    List.zip_append hlen, List.map_append, List.sum_append, List.zip_cons_cons, List.zip_nil_right,
    List.map_cons, List.map_nil, List.sum_cons, List.sum_nil, hI]
  ring

end QV
