/-
  QV.Proofs.EncodingsHS0 — shared definitions for the all-`n` theorem of the hyperspherical
  binary encoder: labels of numpy-order bit strings, the two kinds of chain steps between
  consecutive strings, and alignment of a step list with a list of strings.
-/
import QV.Proofs.EncodingsB

namespace QV.Enc
open QV

/-- basis label of a bit string in numpy-array order on `n` qubits: position `p` is qubit `n-1-p`. -/
def labR (n : Nat) (bs : List Bool) : Lab := fun q => decide (q < n) && bs.getD (n - 1 - q) false

/-- the chain step that moves the 1 of `u` from position `i` to position `j`, controlled on
every other 1 of `u` (what `_get_next_bistring` / `_get_gate` produce with
`optimize_controls=False`). -/
def moveOf (n : Nat) (u : List Bool) (i j : Nat) : ChainStep :=
  { add := false, a := n - 1 - i, b := n - 1 - j,
    cs := sortNat (((onesOf u).filter (· ≠ i)).map (fun c => n - 1 - c)) }

/-- the chain step that writes a 1 at position `j` of `u`, controlled on every 1 of `u`
(`_intermediate_gate`). -/
def addOf (n : Nat) (u : List Bool) (j : Nat) (last : Bool) : ChainStep :=
  { add := true, a := n - 1 - j, cs := sortNat ((onesOf u).map (fun c => n - 1 - c)), last := last }

/-- `d` is the step of the encoder between the consecutive strings `u` and `w`. -/
inductive StepRel (n : Nat) : ChainStep → List Bool → List Bool → Prop
  | move (u : List Bool) (i j : Nat) (hi : i < u.length) (hj : j < u.length) (hij : i ≠ j)
      (hui : u.getD i false = true) (huj : u.getD j false = false) :
      StepRel n (moveOf n u i j) u ((u.set i false).set j true)
  | add (u : List Bool) (j : Nat) (last : Bool) (hj : j < u.length) (huj : u.getD j false = false) :
      StepRel n (addOf n u j last) u (u.set j true)

/-- the steps `ds` lead through the strings `ws` (one more string than steps). -/
inductive Aligned (n : Nat) : List ChainStep → List (List Bool) → Prop
  | one (w : List Bool) : Aligned n [] [w]
  | cons {d : ChainStep} {u w : List Bool} {rest : List (List Bool)} {ds : List ChainStep} :
      StepRel n d u w → Aligned n ds (w :: rest) → Aligned n (d :: ds) (u :: w :: rest)

end QV.Enc
