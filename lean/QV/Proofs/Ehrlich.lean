/-
  QV.Proofs.Ehrlich — completeness of the Ehrlich walk `_ehrlich_algorithm` (model:
  QV/Model/Encodings.lean :: ehrlichLoop / nextString / getMarkers), for every length and weight.
-/
import Mathlib.Data.List.Nodup
import Mathlib.Tactic.Ring
import QV.Proofs.Encodings

set_option linter.unusedSimpArgs false
set_option linter.unusedVariables false
set_option linter.unnecessarySimpa false

namespace QV.Enc
open QV

/-! ### splitting a run -/


theorem ehrState_add (a b : Nat) (bs : List Bool) (ms : List Nat) :
    ehrState (a + b) bs ms = ehrState b (ehrState a bs ms).1 (ehrState a bs ms).2 := by
  induction a generalizing bs ms with
  | zero => simp [ehrState]
  | succ a ih => rw [Nat.succ_add]; simp only [ehrState]; exact ih _ _

theorem ehrlichLoop_add (a b : Nat) (bs : List Bool) (ms : List Nat) :
    ehrlichLoop (a + b) bs ms
      = ehrlichLoop a bs ms ++ ehrlichLoop b (ehrState a bs ms).1 (ehrState a bs ms).2 := by
  induction a generalizing bs ms with
  | zero => simp [ehrState, ehrlichLoop]
  | succ a ih => rw [Nat.succ_add]; simp only [ehrlichLoop, ehrState, List.cons_append]; rw [ih]

theorem regularRun_add (a b : Nat) (bs : List Bool) (ms : List Nat) :
    regularRun (a + b) bs ms
      = (regularRun a bs ms && regularRun b (ehrState a bs ms).1 (ehrState a bs ms).2) := by
  induction a generalizing bs ms with
  | zero => simp [ehrState, regularRun]
  | succ a ih => rw [Nat.succ_add]; simp only [regularRun, ehrState]; rw [ih, Bool.and_assoc]

theorem length_ehrlichLoop (k : Nat) (bs : List Bool) (ms : List Nat) :
    (ehrlichLoop k bs ms).length = k := by
  induction k generalizing bs ms with
  | zero => rfl
  | succ k ih => simp [ehrlichLoop, ih]

/-- the bit strings of a run. -/
def ehrBits (k : Nat) (bs : List Bool) (ms : List Nat) : List (List Bool) :=
  (ehrlichLoop k bs ms).map (·.bits)

theorem ehrBits_add (a b : Nat) (bs : List Bool) (ms : List Nat) :
    ehrBits (a + b) bs ms = ehrBits a bs ms ++ ehrBits b (ehrState a bs ms).1 (ehrState a bs ms).2 := by
  simp [ehrBits, ehrlichLoop_add]

theorem ehrBits_one (bs : List Bool) (ms : List Nat) :
    ehrBits 1 bs ms = [nextBits bs (listMax ms)] := by
  simp [ehrBits, ehrlichLoop, nextString_bits]

/-! ### binomial coefficients and weights -/

theorem choose_pos {n k : Nat} (h : k ≤ n) : 0 < choose n k := by
  induction n generalizing k with
  | zero => have : k = 0 := by omega
            subst this; simp [choose]
  | succ n ih =>
    cases k with
    | zero => simp [choose]
    | succ k => simp only [choose]; have := ih (k := k) (by omega); omega

theorem choose_zero_right (n : Nat) : choose n 0 = 1 := by cases n <;> rfl

theorem choose_gt (n k : Nat) (h : n < k) : choose n k = 0 := by
  induction n generalizing k with
  | zero => cases k with
    | zero => omega
    | succ k => rfl
  | succ n ih =>
    cases k with
    | zero => omega
    | succ k => simp only [choose]; rw [ih k (by omega), ih (k + 1) (by omega)]

theorem choose_self (n : Nat) : choose n n = 1 := by
  induction n with
  | zero => rfl
  | succ n ih => simp only [choose]; rw [ih, choose_gt n (n + 1) (by omega)]

theorem weight_le_length (bs : List Bool) : weight bs ≤ bs.length := by
  unfold weight; exact List.length_filter_le _ _

theorem weight_append (a b : List Bool) : weight (a ++ b) = weight a + weight b := by
  simp [weight, List.filter_append]

theorem weight_replicate_true (n : Nat) : weight (List.replicate n true) = n := by
  simp [weight, List.filter_replicate]

theorem weight_replicate_false (n : Nat) : weight (List.replicate n false) = 0 := by
  simp [weight, List.filter_replicate]

theorem weight_eq_zero {bs : List Bool} (h : weight bs = 0) : ∀ x ∈ bs, x = false := by
  induction bs with
  | nil => simp
  | cons b bs ih =>
    rw [weight_cons] at h
    intro x hx
    rcases List.mem_cons.mp hx with rfl | hx
    · cases x
      · rfl
      · simp at h
    · exact ih (by omega) x hx

theorem weight_eq_length {bs : List Bool} (h : weight bs = bs.length) : ∀ x ∈ bs, x = true := by
  induction bs with
  | nil => simp
  | cons b bs ih =>
    rw [weight_cons, List.length_cons] at h
    have := weight_le_length bs
    intro x hx
    rcases List.mem_cons.mp hx with rfl | hx
    · cases x
      · simp at h; omega
      · rfl
    · refine ih ?_ x hx
      cases b <;> simp at h <;> omega


/-! ### first / last element of a filtered range -/

theorem filter_range_succ (p : Nat → Bool) (n : Nat) :
    (List.range (n + 1)).filter p = (List.range n).filter p ++ (if p n then [n] else []) := by
  rw [List.range_succ, List.filter_append]
  cases h : p n <;> simp [h]

theorem filter_range_nil (p : Nat → Bool) (n : Nat) (h : ∀ j, j < n → p j = false) :
    (List.range n).filter p = [] := by
  rw [List.filter_eq_nil_iff]
  intro j hj
  rw [h j (List.mem_range.mp hj)]
  simp

theorem head?_filter_range (p : Nat → Bool) (n m : Nat) (hm : m < n) (hp : p m = true)
    (hlt : ∀ j, j < m → p j = false) : ((List.range n).filter p).head? = some m := by
  induction n with
  | zero => omega
  | succ n ih =>
    rw [filter_range_succ]
    by_cases hmn : m < n
    · have := ih hmn
      cases hl : (List.range n).filter p with
      | nil => rw [hl] at this; simp at this
      | cons x xs => rw [hl] at this; simpa using this
    · have hmn' : m = n := by omega
      subst hmn'
      rw [filter_range_nil p m hlt, hp]
      rfl

theorem getLast?_filter_range (p : Nat → Bool) (n m : Nat) (hm : m < n) (hp : p m = true)
    (hgt : ∀ j, m < j → j < n → p j = false) : ((List.range n).filter p).getLast? = some m := by
  induction n with
  | zero => omega
  | succ n ih =>
    rw [filter_range_succ]
    by_cases hmn : m < n
    · rw [hgt n hmn (by omega)]
      simp only [Bool.false_eq_true, if_false, List.append_nil]
      exact ih hmn (fun j h1 h2 => hgt j h1 (by omega))
    · have hmn' : m = n := by omega
      subst hmn'
      rw [hp]
      simp

/-! ### the two kinds of step, pointwise form -/

/-- the marked position holds 0 and the nearest 1 above it is at `no`: the 1 moves down. -/
theorem nextBits_down (bs : List Bool) (mx no : Nat) (h0 : bs.getD mx false = false)
    (hno : no < bs.length) (hmn : mx < no) (h1 : bs.getD no false = true)
    (hbetween : ∀ j, mx < j → j < no → bs.getD j false = false) :
    nextBits bs mx = (bs.set mx true).set no false ∧ regularAt bs mx = true := by
  have hnear : nearestOne bs mx = some no := by
    unfold nearestOne
    apply head?_filter_range _ _ _ hno
    · simp only [h1]
      simp [hmn]
    · intro j hj
      by_cases hjm : mx < j
      · simp only [hbetween j hjm hj]
        simp
      · simp [hjm]
  constructor
  · unfold nextBits
    rw [h0, hnear]
    rfl
  · unfold regularAt
    rw [h0, hnear]
    have : mx < bs.length := by omega
    simp [this]

/-- the marked position holds 1, zeros lie above it up to `fz`, and `fz + 1` holds a 1 or is
the end of the string: the 1 moves up to `fz`. -/
theorem nextBits_up (bs : List Bool) (mx fz : Nat) (h1 : bs.getD mx false = true)
    (hfz : fz < bs.length) (hmf : mx < fz)
    (hz : ∀ j, mx < j → j ≤ fz → bs.getD j false = false)
    (hnext : fz + 1 < bs.length → bs.getD (fz + 1) false = true) :
    nextBits bs mx = (bs.set mx false).set fz true ∧ regularAt bs mx = true := by
  have hfar : farthestZero bs mx (nearestOne bs mx) = some fz := by
    by_cases hlast : fz + 1 < bs.length
    · have hnear : nearestOne bs mx = some (fz + 1) := by
        unfold nearestOne
        apply head?_filter_range _ _ _ hlast
        · have : mx < fz + 1 := by omega
          simp only [hnext hlast]
          simp [this]
        · intro j hj
          by_cases hjm : mx < j
          · simp only [hz j hjm (by omega)]
            simp
          · simp [hjm]
      rw [hnear]
      unfold farthestZero
      apply getLast?_filter_range _ _ _ hfz
      · simp only [hz fz hmf (le_refl _)]
        simp [hmf]
      · intro j h1 h2
        have : ¬ j < fz + 1 := by omega
        simp [this]
    · have hnear : nearestOne bs mx = none := by
        unfold nearestOne
        rw [filter_range_nil]
        · rfl
        · intro j hj
          by_cases hjm : mx < j
          · simp only [hz j hjm (by omega)]
            simp
          · simp [hjm]
      rw [hnear]
      unfold farthestZero
      apply getLast?_filter_range _ _ _ hfz
      · simp only [hz fz hmf (le_refl _)]
        simp [hmf]
      · intro j h1 h2
        omega
  constructor
  · unfold nextBits
    rw [h1]
    simp only [hfar]
    rfl
  · unfold regularAt
    rw [h1, hfar]
    have : mx < bs.length := by omega
    simp [this]

/-! ### the two kinds of step on concrete shapes -/

theorem getD_app (pre tl : List Bool) (t : Nat) :
    (pre ++ tl).getD (pre.length + t) false = tl.getD t false := by
  simp [List.getD_eq_getElem?_getD, List.getElem?_append_right]

theorem set_app (pre tl : List Bool) (t : Nat) (v : Bool) :
    (pre ++ tl).set (pre.length + t) v = pre ++ tl.set t v := by
  rw [List.set_append_right _ _ (by omega)]
  simp

theorem set_app0 (pre tl : List Bool) (v : Bool) :
    (pre ++ tl).set pre.length v = pre ++ tl.set 0 v := set_app pre tl 0 v

theorem getD_app0 (pre tl : List Bool) :
    (pre ++ tl).getD pre.length false = tl.getD 0 false := getD_app pre tl 0

theorem getD_rep_lt (a t : Nat) (v : Bool) (tl : List Bool) (h : t < a) :
    (List.replicate a v ++ tl).getD t false = v := by
  simp [List.getD_eq_getElem?_getD, List.getElem?_append_left, h]

theorem getD_rep_ge (a u : Nat) (v : Bool) (tl : List Bool) :
    (List.replicate a v ++ tl).getD (a + u) false = tl.getD u false := by
  have := getD_app (List.replicate a v) tl u
  simpa using this

theorem set_rep (a u : Nat) (v w : Bool) (tl : List Bool) :
    (List.replicate a v ++ tl).set (a + u) w = List.replicate a v ++ tl.set u w := by
  have := set_app (List.replicate a v) tl u w
  simpa using this

/-- toggle of a 0: the nearest 1 above comes down. -/
theorem toggle_down (pre rest : List Bool) (a : Nat) :
    nextBits (pre ++ false :: (List.replicate a false ++ true :: rest)) pre.length
        = pre ++ true :: (List.replicate a false ++ false :: rest) ∧
      regularAt (pre ++ false :: (List.replicate a false ++ true :: rest)) pre.length = true := by
  have key := nextBits_down (pre ++ false :: (List.replicate a false ++ true :: rest)) pre.length
    (pre.length + (1 + a))
    (by rw [getD_app0]; rfl)
    (by simp only [List.length_append, List.length_cons, List.length_replicate]; omega) (by omega)
    (by rw [getD_app, Nat.add_comm 1 a, List.getD_cons_succ]
        have := getD_rep_ge a 0 false (true :: rest)
        simpa using this)
    (by intro j h1 h2
        obtain ⟨t, rfl⟩ : ∃ t, j = pre.length + (t + 1) := ⟨j - pre.length - 1, by omega⟩
        rw [getD_app, List.getD_cons_succ]
        exact getD_rep_lt a t false _ (by omega))
  refine ⟨?_, key.2⟩
  rw [key.1]
  rw [set_app0, set_app]
  congr 1
  rw [List.set_cons_zero, Nat.add_comm 1 a, List.set_cons_succ]
  congr 1
  have := set_rep a 0 false false (true :: rest)
  simpa using this

/-- toggle of a 1: it moves up to the last 0 of the run of zeros above it. -/
theorem toggle_up (pre rest : List Bool) (a : Nat) (hrest : rest = [] ∨ ∃ r, rest = true :: r) :
    nextBits (pre ++ true :: (List.replicate (a + 1) false ++ rest)) pre.length
        = pre ++ false :: (List.replicate a false ++ true :: rest) ∧
      regularAt (pre ++ true :: (List.replicate (a + 1) false ++ rest)) pre.length = true := by
  have key := nextBits_up (pre ++ true :: (List.replicate (a + 1) false ++ rest)) pre.length
    (pre.length + (a + 1))
    (by rw [getD_app0]; rfl)
    (by simp only [List.length_append, List.length_cons, List.length_replicate]; omega) (by omega)
    (by intro j h1 h2
        obtain ⟨t, rfl⟩ : ∃ t, j = pre.length + (t + 1) := ⟨j - pre.length - 1, by omega⟩
        rw [getD_app, List.getD_cons_succ]
        exact getD_rep_lt (a + 1) t false _ (by omega))
    (by intro hlt
        rw [Nat.add_assoc, getD_app, List.getD_cons_succ]
        rcases hrest with rfl | ⟨r, rfl⟩
        · exfalso; simp at hlt; omega
        · have := getD_rep_ge (a + 1) 0 false (true :: r)
          simpa using this)
  refine ⟨?_, key.2⟩
  rw [key.1]
  rw [set_app0, set_app]
  congr 1
  rw [List.set_cons_zero, List.set_cons_succ]
  congr 1
  rw [List.replicate_succ', List.append_assoc]
  have := set_rep a 0 false true ([false] ++ rest)
  simpa using this

/-! ### the trailing run and the marker sets -/

/-- the string is constant from position `j` on. -/
def constFrom (bs : List Bool) (j : Nat) : Prop :=
  ∀ l, j ≤ l → l < bs.length → bs.getD l false = bs.getD (bs.length - 1) false

/-- length of the trailing run of equal entries (0 for the empty string). -/
def runLen (bs : List Bool) : Nat :=
  match bs.reverse with
  | [] => 0
  | l :: rest => 1 + (rest.takeWhile (· == l)).length

theorem getMarkers_eq (bs : List Bool) (lastRun : Bool) :
    getMarkers bs lastRun = (List.range bs.length).filter
      (fun i => if lastRun then bs.length - runLen bs ≤ i else i < bs.length - runLen bs) := rfl

theorem takeWhile_spec (p : Bool → Bool) (r : List Bool) :
    (∀ u, u < (r.takeWhile p).length → p (r.getD u false) = true) ∧
    ((r.takeWhile p).length < r.length → p (r.getD (r.takeWhile p).length false) = false) ∧
    (r.takeWhile p).length ≤ r.length := by
  induction r with
  | nil => simp
  | cons x r ih =>
    by_cases hx : p x = true
    · rw [List.takeWhile_cons_of_pos hx]
      refine ⟨?_, ?_, ?_⟩
      · intro u hu
        cases u with
        | zero => simpa using hx
        | succ u => rw [List.getD_cons_succ]; exact ih.1 u (by simpa using hu)
      · intro h
        rw [List.length_cons, List.getD_cons_succ]
        exact ih.2.1 (by simpa using h)
      · simpa using ih.2.2
    · rw [List.takeWhile_cons_of_neg hx]
      refine ⟨by simp, ?_, by simp⟩
      intro _
      simpa using hx

theorem getD_reverse (bs : List Bool) (u : Nat) (hu : u < bs.length) :
    bs.reverse.getD u false = bs.getD (bs.length - 1 - u) false := by
  simp [List.getD_eq_getElem?_getD, List.getElem?_reverse hu]

theorem runLen_spec (bs : List Bool) (j : Nat) (hj : j < bs.length) :
    bs.length - runLen bs ≤ j ↔ constFrom bs j := by
  unfold runLen
  cases hr : bs.reverse with
  | nil =>
    have : bs = [] := List.reverse_eq_nil_iff.mp hr
    subst this; simp at hj
  | cons l0 rest =>
    have hlen : rest.length + 1 = bs.length := by
      have := congrArg List.length hr
      simp at this; omega
    have hl0 : l0 = bs.getD (bs.length - 1) false := by
      have := getD_reverse bs 0 (by omega)
      rw [hr] at this
      simpa using this
    have hrest : ∀ u, u < rest.length → rest.getD u false = bs.getD (bs.length - 2 - u) false := by
      intro u hu
      have := getD_reverse bs (u + 1) (by omega)
      rw [hr, List.getD_cons_succ] at this
      rw [this]
      congr 1
      omega
    obtain ⟨s1, s2, s3⟩ := takeWhile_spec (· == l0) rest
    simp only []
    generalize (rest.takeWhile (· == l0)).length = t at *
    constructor
    · intro h l hl1 hl2
      by_cases hl : l = bs.length - 1
      · rw [hl]
      · have hu : bs.length - 2 - l < t := by omega
        have := s1 _ hu
        rw [hrest _ (by omega)] at this
        have e : bs.length - 2 - (bs.length - 2 - l) = l := by omega
        rw [e] at this
        rw [← hl0]
        simpa using this
    · intro hc
      by_contra hcon
      have ht : t < rest.length := by omega
      have := s2 ht
      rw [hrest _ ht, hc (bs.length - 2 - t) (by omega) (by omega), ← hl0] at this
      simp at this

theorem mem_getMarkers_true (bs : List Bool) (j : Nat) :
    j ∈ getMarkers bs true ↔ j < bs.length ∧ constFrom bs j := by
  rw [getMarkers_eq]
  simp only [List.mem_filter, List.mem_range, if_true, decide_eq_true_eq]
  constructor
  · rintro ⟨h1, h2⟩; exact ⟨h1, (runLen_spec bs j h1).mp h2⟩
  · rintro ⟨h1, h2⟩; exact ⟨h1, (runLen_spec bs j h1).mpr h2⟩

theorem mem_getMarkers_false (bs : List Bool) (j : Nat) :
    j ∈ getMarkers bs false ↔ j < bs.length ∧ ¬ constFrom bs j := by
  rw [getMarkers_eq]
  simp only [List.mem_filter, List.mem_range, Bool.false_eq_true, if_false, decide_eq_true_eq]
  constructor
  · rintro ⟨h1, h2⟩; exact ⟨h1, fun hc => by have := (runLen_spec bs j h1).mpr hc; omega⟩
  · rintro ⟨h1, h2⟩
    refine ⟨h1, ?_⟩
    by_contra hcon
    exact h2 ((runLen_spec bs j h1).mp (by omega))


/-! ### the largest marker and the marker update -/

theorem le_listMax (ms : List Nat) (j : Nat) (hj : j ∈ ms) : j ≤ listMax ms := by
  induction ms with
  | nil => simp at hj
  | cons a as ih =>
    simp only [listMax]
    rcases List.mem_cons.mp hj with rfl | h
    · omega
    · have := ih h; omega

theorem listMax_le (ms : List Nat) (i : Nat) (h : ∀ j ∈ ms, j ≤ i) : listMax ms ≤ i := by
  induction ms with
  | nil => simp [listMax]
  | cons a as ih =>
    simp only [listMax]
    have h1 := h a List.mem_cons_self
    have h2 := ih (fun j hj => h j (List.mem_cons_of_mem _ hj))
    omega

theorem listMax_eq (ms : List Nat) (i : Nat) (hi : i ∈ ms) (hle : ∀ j ∈ ms, j ≤ i) :
    listMax ms = i := by
  have := le_listMax ms i hi
  have := listMax_le ms i hle
  omega

theorem mem_nextString_markers (bs : List Bool) (ms : List Nat) (j : Nat) :
    j ∈ (nextString bs ms).markers ↔
      (j ∈ ms ∧ j ≠ listMax ms) ∨
      (j < bs.length ∧ listMax ms < j ∧ j ∉ getMarkers (nextBits bs (listMax ms)) true ∧ j ∉ ms) := by
  unfold nextString
  simp only [List.mem_append, List.mem_filter, List.mem_range, decide_eq_true_eq, ne_eq,
    Bool.not_eq_true', List.contains_iff_mem, Bool.decide_and, Bool.and_eq_true,
    decide_eq_false_iff_not, Bool.decide_eq_true, List.contains_eq_mem]
  try tauto


/-! ### the recursive structure of the walk -/

/-- the markers at positions `≥ i` are exactly the positions from which the string is not
constant ("every position above `i` that still has something to enumerate is pending"). -/
def Fresh (i : Nat) (bs : List Bool) (ms : List Nat) : Prop :=
  ∀ j, i ≤ j → (j ∈ ms ↔ (j < bs.length ∧ ¬ constFrom bs j))

/-- outcome of the sub-walk that enumerates the suffix `σ` behind the fixed prefix `pre`:
`C(|σ|, weight σ) - 1` steps, all regular, whose strings are `pre ++ τ` for pairwise different
`τ` covering every string of the length and weight of `σ`; it ends in `pre ++ ρ` and has used up
every marker at the positions of the suffix. -/
def GenRes (pre σ ρ : List Bool) (ms : List Nat) : Prop :=
  ∃ T : List (List Bool),
    ehrBits (choose σ.length (weight σ) - 1) (pre ++ σ) ms = T.map (pre ++ ·) ∧
    regularRun (choose σ.length (weight σ) - 1) (pre ++ σ) ms = true ∧
    (σ :: T).Nodup ∧
    (∀ τ : List Bool, τ.length = σ.length → weight τ = weight σ → τ ∈ σ :: T) ∧
    (ehrState (choose σ.length (weight σ) - 1) (pre ++ σ) ms).1 = pre ++ ρ ∧
    ∀ j, j ∈ (ehrState (choose σ.length (weight σ) - 1) (pre ++ σ) ms).2 ↔ (j ∈ ms ∧ j < pre.length)

def GenHolds (σ ρ : List Bool) : Prop :=
  ∀ (pre : List Bool) (ms : List Nat), Fresh pre.length (pre ++ σ) ms → GenRes pre σ ρ ms

theorem getD_eq_getElem' (σ : List Bool) (t : Nat) (h : t < σ.length) : σ.getD t false = σ[t] := by
  simp [List.getD_eq_getElem?_getD, h]

theorem getD_mem_of_lt (σ : List Bool) (t : Nat) (h : t < σ.length) : σ.getD t false ∈ σ := by
  rw [getD_eq_getElem' _ _ h]; exact List.getElem_mem h

theorem constFrom_of_all (pre σ : List Bool) (v : Bool) (h : ∀ x ∈ σ, x = v) (j : Nat)
    (hj : pre.length ≤ j) : constFrom (pre ++ σ) j := by
  have key : ∀ l, pre.length ≤ l → l < (pre ++ σ).length → (pre ++ σ).getD l false = v := by
    intro l h1 h2
    obtain ⟨t, rfl⟩ : ∃ t, l = pre.length + t := ⟨l - pre.length, by omega⟩
    rw [getD_app]
    exact h _ (getD_mem_of_lt σ t (by simp at h2; omega))
  intro l h1 h2
  rw [key l (by omega) h2, key _ (by omega) (by omega)]

theorem all_of_constFrom (pre σ : List Bool) (h : constFrom (pre ++ σ) pre.length) :
    ∀ x ∈ σ, x = (pre ++ σ).getD ((pre ++ σ).length - 1) false := by
  intro x hx
  obtain ⟨t, ht, rfl⟩ := List.getElem_of_mem hx
  have := h (pre.length + t) (by omega) (by simp; omega)
  rw [getD_app, getD_eq_getElem' _ _ ht] at this
  exact this

theorem weight_of_constFrom (pre σ : List Bool) (h : constFrom (pre ++ σ) pre.length) :
    weight σ = 0 ∨ weight σ = σ.length := by
  have hall := all_of_constFrom pre σ h
  generalize (pre ++ σ).getD ((pre ++ σ).length - 1) false = v at hall
  have : σ = List.replicate σ.length v := List.eq_replicate_iff.mpr ⟨rfl, hall⟩
  rw [this]
  cases v
  · left; exact weight_replicate_false _
  · right; rw [weight_replicate_true]; simp

theorem eq_of_all {σ τ : List Bool} {v : Bool} (hl : τ.length = σ.length)
    (h1 : ∀ x ∈ σ, x = v) (h2 : ∀ x ∈ τ, x = v) : τ = σ := by
  rw [List.eq_replicate_iff.mpr ⟨rfl, h1⟩, List.eq_replicate_iff.mpr ⟨rfl, h2⟩, hl]

/-- a constant suffix needs no step. -/
theorem gen_const (σ : List Bool) (h : weight σ = 0 ∨ weight σ = σ.length) : GenHolds σ σ := by
  intro pre ms hfresh
  have hN : choose σ.length (weight σ) - 1 = 0 := by
    rcases h with h | h
    · rw [h, choose_zero_right]
    · rw [h, choose_self]
  obtain ⟨v, hv⟩ : ∃ v, ∀ x ∈ σ, x = v := by
    rcases h with h | h
    · exact ⟨false, weight_eq_zero h⟩
    · exact ⟨true, weight_eq_length h⟩
  refine ⟨[], ?_, ?_, ?_, ?_, ?_, ?_⟩
  · rw [hN]; rfl
  · rw [hN]; rfl
  · simp
  · intro τ hl hw
    have : ∀ x ∈ τ, x = v := by
      rcases h with h | h
      · have hv' : v = false ∨ σ = [] := by
          cases σ with
          | nil => right; rfl
          | cons a as => left; rw [← hv a List.mem_cons_self]; exact weight_eq_zero h a List.mem_cons_self
        rcases hv' with rfl | rfl
        · exact weight_eq_zero (by rw [hw, h])
        · have : τ = [] := List.length_eq_zero_iff.mp hl
          subst this; simp
      · have hv' : v = true ∨ σ = [] := by
          cases σ with
          | nil => right; rfl
          | cons a as => left; rw [← hv a List.mem_cons_self]; exact weight_eq_length h a List.mem_cons_self
        rcases hv' with rfl | rfl
        · exact weight_eq_length (by rw [hw, h, hl])
        · have : τ = [] := List.length_eq_zero_iff.mp hl
          subst this; simp
    rw [eq_of_all hl hv this]
    exact List.mem_cons_self
  · rw [hN]; rfl
  · rw [hN]
    intro j
    show j ∈ ms ↔ _
    constructor
    · intro hj
      refine ⟨hj, ?_⟩
      by_contra hcon
      have := (hfresh j (by omega)).mp hj
      exact this.2 (constFrom_of_all pre σ v hv j (by omega))
    · exact fun hj => hj.1

theorem ehrState_one (bs : List Bool) (ms : List Nat) :
    ehrState 1 bs ms = ((nextString bs ms).bits, (nextString bs ms).markers) := rfl

theorem regularRun_one (bs : List Bool) (ms : List Nat) :
    regularRun 1 bs ms = regularAt bs (listMax ms) := by
  simp [regularRun]

/-- **composition**: enumerate the suffix behind the current first bit `b`, toggle the first
bit (one step at the marked position), enumerate the suffix behind `!b`. -/
theorem gen_step (b : Bool) (σ' ρ' σ'' ρ'' : List Bool)
    (h1 : GenHolds σ' ρ') (h2 : GenHolds σ'' ρ'')
    (hl2 : σ''.length = σ'.length)
    (hw : weight σ'' + (if b then 0 else 1) = weight σ' + (if b then 1 else 0))
    (hnc : 0 < weight (b :: σ') ∧ weight (b :: σ') < (b :: σ').length)
    (htog : ∀ pre : List Bool, nextBits (pre ++ b :: ρ') pre.length = pre ++ (!b) :: σ'' ∧
      regularAt (pre ++ b :: ρ') pre.length = true) :
    GenHolds (b :: σ') ((!b) :: ρ'') := by
  intro pre ms hfresh
  have e1 : pre ++ b :: σ' = (pre ++ [b]) ++ σ' := by simp
  have hfresh1 : Fresh (pre ++ [b]).length ((pre ++ [b]) ++ σ') ms := by
    rw [← e1]; intro j hj
    exact hfresh j (by simp at hj; omega)
  obtain ⟨T1, hb1, hr1, hn1, hc1, hs1, hm1⟩ := h1 (pre ++ [b]) ms hfresh1
  -- sizes
  have hc1pos : 0 < choose σ'.length (weight σ') := choose_pos (weight_le_length σ')
  have hc2pos : 0 < choose σ''.length (weight σ'') := choose_pos (weight_le_length σ'')
  have hN : choose (b :: σ').length (weight (b :: σ')) - 1
      = (choose σ'.length (weight σ') - 1) + (1 + (choose σ''.length (weight σ'') - 1)) := by
    rw [List.length_cons, weight_cons, hl2] at *
    cases b
    · simp only [Bool.false_eq_true, if_false, Nat.zero_add, Nat.add_zero] at hw ⊢
      rw [← hw]
      simp only [choose]
      rw [← hw] at hc1pos
      omega
    · simp only [if_true, Nat.add_zero] at hw ⊢
      rw [hw, Nat.add_comm 1 (weight σ')]
      simp only [choose]
      rw [hw] at hc2pos
      omega
  generalize hN1 : choose σ'.length (weight σ') - 1 = N1 at *
  generalize hN2 : choose σ''.length (weight σ'') - 1 = N2 at *
  -- state after the first sub-walk
  have hi_ms : pre.length ∈ ms := by
    apply (hfresh _ (le_refl _)).mpr
    refine ⟨by simp, fun hc => ?_⟩
    have := weight_of_constFrom pre (b :: σ') hc
    omega
  rw [← e1] at hs1 hm1 hb1 hr1
  generalize hst1 : ehrState N1 (pre ++ b :: σ') ms = st1 at *
  have hbits1 : st1.1 = pre ++ b :: ρ' := by rw [hs1]; simp
  have hi1 : pre.length ∈ st1.2 := (hm1 _).mpr ⟨hi_ms, by simp⟩
  have hmax : listMax st1.2 = pre.length :=
    listMax_eq _ _ hi1 (fun j hj => by have := ((hm1 j).mp hj).2; simp at this; omega)
  -- the toggle
  obtain ⟨htb, htr⟩ := htog pre
  have e2 : pre ++ (!b) :: σ'' = (pre ++ [!b]) ++ σ'' := by simp
  have hbits2 : (nextString st1.1 st1.2).bits = pre ++ (!b) :: σ'' := by
    rw [nextString_bits, hmax, hbits1, htb]
  have hmem2 : ∀ j, j ∈ (nextString st1.1 st1.2).markers ↔
      (j ∈ ms ∧ j < pre.length) ∨
      (pre.length < j ∧ j < (pre ++ (!b) :: σ'').length ∧ ¬ constFrom (pre ++ (!b) :: σ'') j) := by
    intro j
    rw [mem_nextString_markers, hmax, hbits1, htb, mem_getMarkers_true, hm1]
    have hlen : (pre ++ b :: ρ').length = (pre ++ (!b) :: σ'').length := by
      have := congrArg List.length htb
      rw [← this]
      have h3 := (nextBits_weight (pre ++ b :: ρ') pre.length (by simp) ((regularAt_iff _ _ htr).2)).2
      exact h3.symm
    rw [hlen]
    simp only [List.length_append, List.length_singleton]
    constructor
    · rintro (⟨⟨a, b'⟩, c⟩ | ⟨a, b', c, d⟩)
      · left; exact ⟨a, by omega⟩
      · right; exact ⟨b', a, fun hc => c ⟨a, hc⟩⟩
    · rintro (⟨a, b'⟩ | ⟨a, b', c⟩)
      · left; exact ⟨⟨a, by omega⟩, by omega⟩
      · right; exact ⟨b', a, fun hc => c hc.2, fun hc => by omega⟩
  have hfresh2 : Fresh (pre ++ [!b]).length ((pre ++ [!b]) ++ σ'') (nextString st1.1 st1.2).markers := by
    rw [← e2]
    intro j hj
    rw [hmem2]
    simp only [List.length_append, List.length_singleton] at hj
    constructor
    · rintro (⟨_, c⟩ | ⟨_, b', c⟩)
      · omega
      · exact ⟨b', c⟩
    · rintro ⟨a, c⟩
      right; exact ⟨by omega, a, c⟩
  obtain ⟨T2, hb2, hr2, hn2, hc2, hs2, hm2⟩ := h2 (pre ++ [!b]) _ hfresh2
  rw [hN2, ← e2] at hb2 hr2 hs2 hm2
  -- assemble
  have hst : ehrState (N1 + (1 + N2)) (pre ++ b :: σ') ms
      = ehrState N2 (pre ++ (!b) :: σ'') (nextString st1.1 st1.2).markers := by
    rw [ehrState_add, hst1, ehrState_add, ehrState_one, hbits2]
  refine ⟨T1.map (b :: ·) ++ (((!b) :: σ'') :: T2.map ((!b) :: ·)), ?_, ?_, ?_, ?_, ?_, ?_⟩
  · rw [hN, ehrBits_add, hst1, ehrBits_add, ehrBits_one, ehrState_one, hb1]
    dsimp only
    rw [← nextString_bits, hbits2, hb2]
    simp [List.map_append, List.map_map, Function.comp_def]
  · rw [hN, regularRun_add, hst1, regularRun_add, regularRun_one, ehrState_one, hr1]
    dsimp only
    rw [hbits2, hr2, hmax, hbits1, htr]
    rfl
  · have : (b :: σ') :: (T1.map (b :: ·) ++ (((!b) :: σ'') :: T2.map ((!b) :: ·)))
        = (σ' :: T1).map (b :: ·) ++ (σ'' :: T2).map ((!b) :: ·) := by simp
    rw [this, List.nodup_append]
    refine ⟨hn1.map (List.cons_injective), hn2.map (List.cons_injective), ?_⟩
    intro x hx y hy hxy
    obtain ⟨x', _, rfl⟩ := List.mem_map.mp hx
    obtain ⟨y', _, rfl⟩ := List.mem_map.mp hy
    have := (List.cons.inj hxy).1
    cases b <;> simp at this
  · intro τ hl hwt
    cases τ with
    | nil => simp at hl
    | cons c τ' =>
      have hl' : τ'.length = σ'.length := by simpa using hl
      rw [weight_cons, weight_cons] at hwt
      by_cases hcb : c = b
      · subst hcb
        have : τ' ∈ σ' :: T1 := hc1 τ' hl' (by omega)
        rcases List.mem_cons.mp this with rfl | h
        · exact List.mem_cons_self
        · apply List.mem_cons_of_mem
          apply List.mem_append_left
          exact List.mem_map.mpr ⟨τ', h, rfl⟩
      · have hcb' : c = !b := by cases c <;> cases b <;> simp at hcb ⊢
        subst hcb'
        have : τ' ∈ σ'' :: T2 := hc2 τ' (by rw [hl', hl2]) (by cases b <;> simp at hw hwt ⊢ <;> omega)
        apply List.mem_cons_of_mem
        apply List.mem_append_right
        rcases List.mem_cons.mp this with rfl | h
        · exact List.mem_cons_self
        · exact List.mem_cons_of_mem _ (List.mem_map.mpr ⟨τ', h, rfl⟩)
  · rw [hN, hst, hs2]; simp
  · intro j
    rw [hN, hst, hm2, hmem2]
    simp only [List.length_append, List.length_singleton]
    constructor
    · rintro ⟨(⟨a, c⟩ | ⟨a, _⟩), d⟩
      · exact ⟨a, c⟩
      · omega
    · rintro ⟨a, c⟩
      exact ⟨Or.inl ⟨a, c⟩, by omega⟩


/-! ### the shapes that occur and their end points -/
open List (replicate)


/-- the (start, end) pairs of the sub-walks that occur: `1^w 0^z`, `0 1^w 0^z` (w even or
z = 0) and `0^z 1^w` (w odd or z ≤ 1). -/
inductive SE : List Bool → List Bool → Prop
  | A (w z : Nat) : SE (replicate w true ++ replicate z false) (endA w z)
  | B (w z : Nat) (h : w % 2 = 0 ∨ z = 0) :
      SE (false :: (replicate w true ++ replicate z false)) (replicate w true ++ replicate (z + 1) false)
  | C (z w : Nat) (h : w % 2 = 1 ∨ z ≤ 1) :
      SE (replicate z false ++ replicate w true) (replicate w true ++ replicate z false)

theorem endA_zero_left (z : Nat) : endA 0 z = replicate z false := by simp [endA]
theorem endA_zero_right (w : Nat) : endA w 0 = replicate w true := by simp [endA]
theorem endA_odd (w z : Nat) (hw : w % 2 = 1) :
    endA w (z + 1) = false :: (replicate w true ++ replicate z false) := by
  have : w ≠ 0 := by omega
  simp [endA, this, hw]
theorem endA_even (w z : Nat) (hw : w % 2 = 0) (hw0 : w ≠ 0) :
    endA w (z + 1) = replicate (z + 1) false ++ replicate w true := by
  simp [endA, hw0, hw]

theorem rep_append_cons (z : Nat) (v : Bool) (X : List Bool) :
    replicate z v ++ v :: X = replicate (z + 1) v ++ X := by
  rw [List.replicate_succ', List.append_assoc]; rfl

macro "wsimp" : tactic => `(tactic|
  simp only [weight_cons, weight_append, weight_replicate_true, weight_replicate_false,
    List.length_cons, List.length_append, List.length_replicate, List.length_nil, weight_nil,
    if_true, Bool.false_eq_true, if_false])

/-- **every sub-walk of the recursive structure is complete**, by induction on the length of the
suffix it enumerates. -/
theorem gen_main : ∀ (L : Nat) (σ ρ : List Bool), σ.length = L → SE σ ρ → GenHolds σ ρ := by
  intro L
  induction L using Nat.strong_induction_on with
  | _ L ih =>
  intro σ ρ hL hSE
  cases hSE with
  | A w z =>
    cases w with
    | zero =>
      rw [endA_zero_left]
      simp only [List.replicate_zero, List.nil_append]
      exact gen_const _ (Or.inl (weight_replicate_false z))
    | succ w' =>
      cases z with
      | zero =>
        rw [endA_zero_right]
        simp only [List.replicate_zero, List.append_nil]
        exact gen_const _ (Or.inr (by rw [weight_replicate_true]; simp))
      | succ z' =>
        have hlen : L = w' + z' + 2 := by rw [← hL]; simp; omega
        -- σ = true :: σ', σ' = 1^w' 0^(z'+1)
        have h1 : GenHolds (replicate w' true ++ replicate (z' + 1) false) (endA w' (z' + 1)) :=
          ih (w' + (z' + 1)) (by omega) _ _ (by simp) (SE.A w' (z' + 1))
        show GenHolds (true :: (replicate w' true ++ replicate (z' + 1) false)) _
        have hnc : 0 < weight (true :: (replicate w' true ++ replicate (z' + 1) false)) ∧
            weight (true :: (replicate w' true ++ replicate (z' + 1) false))
              < (true :: (replicate w' true ++ replicate (z' + 1) false)).length := by
          wsimp; omega
        rcases Nat.eq_zero_or_pos w' with hw0 | hwpos
        · -- w' = 0
          subst hw0
          have h2 : GenHolds (replicate z' false ++ replicate 1 true) (replicate 1 true ++ replicate z' false) :=
            ih (z' + 1) (by omega) _ _ (by simp) (SE.C z' 1 (Or.inl rfl))
          have hend : endA (0 + 1) (z' + 1) = (!true) :: (replicate 1 true ++ replicate z' false) :=
            endA_odd 1 z' rfl
          rw [hend]
          refine gen_step true _ _ _ _ h1 h2 (by simp) (by wsimp) hnc ?_
          intro pre
          rw [endA_zero_left]
          have := toggle_up pre [] z' (Or.inl rfl)
          simpa using this
        · by_cases hodd : w' % 2 = 1
          · -- w' odd: first sub-walk ends on 0 1^w' 0^z'
            have h2 : GenHolds (replicate (w' + 1) true ++ replicate z' false) (endA (w' + 1) z') :=
              ih (w' + 1 + z') (by omega) _ _ (by simp) (SE.A (w' + 1) z')
            have hend : endA (w' + 1) (z' + 1) = (!true) :: endA (w' + 1) z' := by
              rw [endA_even (w' + 1) z' (by omega) (by omega)]
              cases z' with
              | zero => rw [endA_zero_right]; rfl
              | succ z'' => rw [endA_even (w' + 1) z'' (by omega) (by omega)]; rfl
            rw [hend]
            refine gen_step true _ _ _ _ h1 h2 (by simp; omega) (by wsimp) hnc ?_
            intro pre
            rw [endA_odd w' z' hodd]
            obtain ⟨u, rfl⟩ : ∃ u, w' = u + 1 := ⟨w' - 1, by omega⟩
            have := toggle_up pre (replicate (u + 1) true ++ replicate z' false) 0
              (Or.inr ⟨replicate u true ++ replicate z' false, rfl⟩)
            exact this
          · -- w' even ≥ 2: first sub-walk ends on 0^(z'+1) 1^w'
            have h2 : GenHolds (replicate z' false ++ replicate (w' + 1) true)
                (replicate (w' + 1) true ++ replicate z' false) :=
              ih (z' + (w' + 1)) (by omega) _ _ (by simp) (SE.C z' (w' + 1) (Or.inl (by omega)))
            have hend : endA (w' + 1) (z' + 1)
                = (!true) :: (replicate (w' + 1) true ++ replicate z' false) :=
              endA_odd (w' + 1) z' (by omega)
            rw [hend]
            refine gen_step true _ _ _ _ h1 h2 (by simp; omega) (by wsimp; omega) hnc ?_
            intro pre
            rw [endA_even w' z' (by omega) (by omega)]
            obtain ⟨u, rfl⟩ : ∃ u, w' = u + 1 := ⟨w' - 1, by omega⟩
            have := toggle_up pre (replicate (u + 1) true) z' (Or.inr ⟨replicate u true, rfl⟩)
            exact this
  | B w z h =>
    cases w with
    | zero =>
      simp only [List.replicate_zero, List.nil_append]
      rw [List.replicate_succ]
      exact gen_const _ (Or.inl (by wsimp))
    | succ w' =>
      have hlen : L = w' + z + 2 := by rw [← hL]; simp; omega
      have h1 : GenHolds (replicate (w' + 1) true ++ replicate z false) (endA (w' + 1) z) :=
        ih (w' + 1 + z) (by omega) _ _ (by simp) (SE.A (w' + 1) z)
      have hnc : 0 < weight (false :: (replicate (w' + 1) true ++ replicate z false)) ∧
          weight (false :: (replicate (w' + 1) true ++ replicate z false))
            < (false :: (replicate (w' + 1) true ++ replicate z false)).length := by
        wsimp; omega
      cases z with
      | zero =>
        have h2 : GenHolds (false :: (replicate w' true ++ replicate 0 false))
            (replicate w' true ++ replicate (0 + 1) false) :=
          ih (w' + 1) (by omega) _ _ (by simp) (SE.B w' 0 (Or.inr rfl))
        show GenHolds _ ((!false) :: (replicate w' true ++ replicate (0 + 1) false))
        refine gen_step false _ _ _ _ h1 h2 (by simp) (by wsimp; omega) hnc ?_
        intro pre
        rw [endA_zero_right]
        have := toggle_down pre (replicate w' true) 0
        simpa [List.replicate_succ] using this
      | succ z' =>
        have hev : (w' + 1) % 2 = 0 := by omega
        have h2 : GenHolds (replicate (z' + 1 + 1) false ++ replicate w' true)
            (replicate w' true ++ replicate (z' + 1 + 1) false) :=
          ih (z' + 1 + 1 + w') (by omega) _ _ (by simp) (SE.C (z' + 1 + 1) w' (Or.inl (by omega)))
        show GenHolds _ ((!false) :: (replicate w' true ++ replicate (z' + 1 + 1) false))
        rw [← rep_append_cons (z' + 1) false (replicate w' true)] at h2
        refine gen_step false _ _ _ _ h1 h2 (by simp; omega) (by wsimp; omega) hnc ?_
        intro pre
        rw [endA_even (w' + 1) z' hev (by omega)]
        exact toggle_down pre (replicate w' true) (z' + 1)
  | C z w h =>
    cases z with
    | zero =>
      simp only [List.replicate_zero, List.nil_append, List.append_nil]
      exact gen_const _ (Or.inr (by rw [weight_replicate_true]; simp))
    | succ z' =>
      cases w with
      | zero =>
        simp only [List.replicate_zero, List.nil_append, List.append_nil]
        exact gen_const _ (Or.inl (weight_replicate_false _))
      | succ w' =>
        have hlen : L = w' + z' + 2 := by rw [← hL]; simp; omega
        have h1 : GenHolds (replicate z' false ++ replicate (w' + 1) true)
            (replicate (w' + 1) true ++ replicate z' false) :=
          ih (z' + (w' + 1)) (by omega) _ _ (by simp) (SE.C z' (w' + 1) (by omega))
        have h2 : GenHolds (false :: (replicate w' true ++ replicate z' false))
            (replicate w' true ++ replicate (z' + 1) false) :=
          ih (w' + z' + 1) (by omega) _ _ (by simp) (SE.B w' z' (by omega))
        have hnc : 0 < weight (false :: (replicate z' false ++ replicate (w' + 1) true)) ∧
            weight (false :: (replicate z' false ++ replicate (w' + 1) true))
              < (false :: (replicate z' false ++ replicate (w' + 1) true)).length := by
          wsimp; omega
        show GenHolds (false :: (replicate z' false ++ replicate (w' + 1) true))
          ((!false) :: (replicate w' true ++ replicate (z' + 1) false))
        refine gen_step false _ _ _ _ h1 h2 (by simp; omega) (by wsimp; omega) hnc ?_
        intro pre
        have := toggle_down pre (replicate w' true ++ replicate z' false) 0
        simpa [List.replicate_succ] using this

/-! ### the whole walk -/

theorem defaultInit_eq (n k : Nat) :
    defaultInit n k = replicate k true ++ replicate (n - k) false := rfl

theorem fresh_initial (bs : List Bool) : Fresh ([] : List Bool).length ([] ++ bs) (getMarkers bs false) := by
  intro j _
  rw [List.nil_append]
  exact mem_getMarkers_false bs j

/-- the sub-walk statement instantiated at the empty prefix and the start `1^k 0^(n-k)`. -/
theorem ehrlich_genRes (n k : Nat) :
    GenRes [] (defaultInit n k) (endA k (n - k)) (getMarkers (defaultInit n k) false) :=
  gen_main _ _ _ rfl (SE.A k (n - k)) [] _ (fresh_initial _)

theorem ehrlichStrings_eq (init : List Bool) :
    ehrlichStrings init
      = init :: ehrBits (choose init.length (weight init) - 1) init (getMarkers init false) := rfl

/-- **completeness of the Ehrlich walk, all `n`, all `k ≤ n`**: every step is one of the two
designed situations, the strings are pairwise different, there are `C(n,k)` of them, every
string of length `n` and weight `k` occurs, the walk ends on `endA k (n-k)` and no marker is
left. -/
theorem ehrlich_walk (n k : Nat) (hk : k ≤ n) :
    regularRun (choose n k - 1) (defaultInit n k) (getMarkers (defaultInit n k) false) = true ∧
    (ehrlichStrings (defaultInit n k)).Nodup ∧
    (ehrlichStrings (defaultInit n k)).length = choose n k ∧
    (∀ τ : List Bool, τ.length = n → weight τ = k → τ ∈ ehrlichStrings (defaultInit n k)) ∧
    (ehrState (choose n k - 1) (defaultInit n k) (getMarkers (defaultInit n k) false)).1
      = endA k (n - k) ∧
    (ehrState (choose n k - 1) (defaultInit n k) (getMarkers (defaultInit n k) false)).2 = [] := by
  obtain ⟨T, hb, hr, hn, hc, hs, hm⟩ := ehrlich_genRes n k
  have hl := length_defaultInit (n := n) (k := k) hk
  have hw := weight_defaultInit n k
  rw [hl, hw, List.nil_append] at hb hr hs hm
  have hT : T.map (([] : List Bool) ++ ·) = T := by simp
  rw [hT] at hb
  have hstr : ehrlichStrings (defaultInit n k) = defaultInit n k :: T := by
    rw [ehrlichStrings_eq, hl, hw, hb]
  refine ⟨hr, ?_, ?_, ?_, ?_, ?_⟩
  · rw [hstr]; exact hn
  · rw [ehrlichStrings_eq, hl, hw]
    simp only [List.length_cons, ehrBits, List.length_map, length_ehrlichLoop]
    have := choose_pos hk
    omega
  · intro τ h1 h2
    rw [hstr]
    exact hc τ (by rw [h1, hl]) (by rw [h2, hw])
  · rw [hs]; rfl
  · apply List.eq_nil_iff_forall_not_mem.mpr
    intro j hj
    have := (hm j).mp hj
    simp at this

/-- the same for every admissible initial string (`SE σ ρ`): `1^w 0^z`, `0 1^w 0^z` with `w` even
or `z = 0`, `0^z 1^w` with `w` odd or `z ≤ 1` — this covers the initial strings that the
hyperspherical binary encoder passes to `hamming_weight_encoder` (`0^(n-w) 1^w`, `w` odd). -/
theorem ehrlich_walk_shape (σ ρ : List Bool) (hse : SE σ ρ) :
    regularRun (choose σ.length (weight σ) - 1) σ (getMarkers σ false) = true ∧
    (ehrlichStrings σ).Nodup ∧
    (ehrlichStrings σ).length = choose σ.length (weight σ) ∧
    (∀ τ : List Bool, τ.length = σ.length → weight τ = weight σ → τ ∈ ehrlichStrings σ) ∧
    ehrState (choose σ.length (weight σ) - 1) σ (getMarkers σ false) = (ρ, []) := by
  obtain ⟨T, hb, hr, hn, hc, hs, hm⟩ := gen_main _ σ ρ rfl hse [] _ (fresh_initial σ)
  rw [List.nil_append] at hb hr hs hm
  have hT : T.map (([] : List Bool) ++ ·) = T := by simp
  rw [hT] at hb
  have hstr : ehrlichStrings σ = σ :: T := by rw [ehrlichStrings_eq, hb]
  refine ⟨hr, ?_, ?_, ?_, ?_⟩
  · rw [hstr]; exact hn
  · rw [ehrlichStrings_eq]
    simp only [List.length_cons, ehrBits, List.length_map, length_ehrlichLoop]
    have := choose_pos (weight_le_length σ)
    omega
  · intro τ h1 h2
    rw [hstr]
    exact hc τ h1 h2
  · apply Prod.ext
    · rw [hs]; rfl
    · apply List.eq_nil_iff_forall_not_mem.mpr
      intro j hj
      have := (hm j).mp hj
      simp at this

theorem ehrlichOK_all (n k : Nat) (hk : k ≤ n) : ehrlichOK n k = true := by
  obtain ⟨h1, h2, h3, _⟩ := ehrlich_walk n k hk
  unfold ehrlichOK
  simp only [length_defaultInit hk, weight_defaultInit, h1, Bool.true_and, Bool.and_eq_true,
    decide_eq_true_eq]
  exact ⟨h2, h3⟩


/-! ### the initial strings of the hyperspherical binary encoder -/

theorem ehrLast_of_SE (σ ρ : List Bool) (h : SE σ ρ) : ehrLast σ = ρ := by
  have := (ehrlich_walk_shape σ ρ h).2.2.2.2
  unfold ehrLast
  rw [this]

/-- odd weight: the lowest empty position is filled. -/
theorem hsNext_odd (a w : Nat) (rest : List Bool) (hw : w % 2 = 1) :
    hsNextInit (replicate a true ++ false :: rest) w = replicate a true ++ true :: rest := by
  unfold hsNextInit
  have hne : ¬ w % 2 = 0 := by omega
  simp only [hne, if_false]
  have hhead : ((List.range (replicate a true ++ false :: rest).length).filter
      (fun i => !(replicate a true ++ false :: rest).getD i false)).head? = some a := by
    apply head?_filter_range _ _ a (by simp)
    · have := getD_rep_ge a 0 true (false :: rest)
      simp only [Nat.add_zero] at this
      simp only [this]
      rfl
    · intro j hj
      simp only [getD_rep_lt a j true _ hj]
      rfl
  rw [hhead]
  have := set_rep a 0 true true (false :: rest)
  simpa using this

theorem getD_replicate_lt (u t : Nat) (v : Bool) (h : t < u) : (replicate u v).getD t false = v := by
  have := getD_rep_lt u t v [] h
  simpa using this

/-- even weight: the highest empty position is filled. -/
theorem hsNext_even (z u w : Nat) (hw : w % 2 = 0) :
    hsNextInit (replicate z false ++ false :: replicate u true) w
      = replicate z false ++ true :: replicate u true := by
  unfold hsNextInit
  simp only [hw, if_true]
  have hlast : ((List.range (replicate z false ++ false :: replicate u true).length).filter
      (fun i => !(replicate z false ++ false :: replicate u true).getD i false)).getLast? = some z := by
    apply getLast?_filter_range _ _ z (by simp)
    · have := getD_rep_ge z 0 false (false :: replicate u true)
      simp only [Nat.add_zero] at this
      simp only [this]
      rfl
    · intro j h1 h2
      obtain ⟨t, rfl⟩ : ∃ t, j = z + (t + 1) := ⟨j - z - 1, by omega⟩
      simp only [getD_rep_ge, List.getD_cons_succ]
      rw [getD_replicate_lt u t true (by simp at h2; omega)]
      rfl
  rw [hlast]
  have := set_rep z 0 false true (false :: replicate u true)
  simpa using this

theorem hsInitClosed_valid (n w : Nat) :
    ∃ ρ, SE (hsInitClosed n w) ρ := by
  unfold hsInitClosed
  split
  · exact ⟨_, SE.A w (n - w)⟩
  · rename_i h
    exact ⟨_, SE.C (n - w) w (Or.inl (by omega))⟩

/-- `_intermediate_gate` maps the closed form of weight `w` to the closed form of weight `w+1`. -/
theorem hsNext_closed (n w : Nat) (hw : 1 ≤ w) (hn : w + 2 ≤ n) :
    hsNextInit (ehrLast (hsInitClosed n w)) w = hsInitClosed n (w + 1) := by
  obtain ⟨z, rfl⟩ : ∃ z, n = w + (z + 2) := ⟨n - w - 2, by omega⟩
  have hz : w + (z + 2) - w = z + 2 := by omega
  have hz1 : w + (z + 2) - (w + 1) = z + 1 := by omega
  by_cases hev : w % 2 = 0
  · -- even weight, start 1^w 0^(z+2), end 0^(z+2) 1^w
    have h1 : hsInitClosed (w + (z + 2)) w = replicate w true ++ replicate (z + 2) false := by
      simp [hsInitClosed, hev, seStart, hz]
    have h2 : hsInitClosed (w + (z + 2)) (w + 1) = replicate (z + 1) false ++ replicate (w + 1) true := by
      have : ¬ (w + 1 = 1 ∨ (w + 1) % 2 = 0) := by omega
      simp only [hsInitClosed, this, if_false, seStart, hz1]
    rw [h1, h2, ehrLast_of_SE _ _ (SE.A w (z + 2)), endA_even w (z + 1) hev (by omega)]
    rw [← rep_append_cons (z + 1) false (replicate w true)]
    exact hsNext_even (z + 1) w w hev
  · by_cases h1w : w = 1
    · subst h1w
      have h1 : hsInitClosed (1 + (z + 2)) 1 = replicate 1 true ++ replicate (z + 2) false := by
        simp [hsInitClosed, seStart, hz]
      have h2 : hsInitClosed (1 + (z + 2)) (1 + 1) = replicate (1 + 1) true ++ replicate (z + 1) false := by
        simp [hsInitClosed, seStart, hz1]
      rw [h1, h2, ehrLast_of_SE _ _ (SE.A 1 (z + 2)), endA_odd 1 (z + 1) rfl]
      exact hsNext_odd 0 1 _ rfl
    · -- odd weight ≥ 3, start 0^(z+2) 1^w, end 1^w 0^(z+2)
      have hc : ¬ (w = 1 ∨ w % 2 = 0) := by omega
      have h1 : hsInitClosed (w + (z + 2)) w = replicate (z + 2) false ++ replicate w true := by
        simp only [hsInitClosed, hc, if_false, seStart, hz]
      have h2 : hsInitClosed (w + (z + 2)) (w + 1) = replicate (w + 1) true ++ replicate (z + 1) false := by
        have : (w + 1 = 1 ∨ (w + 1) % 2 = 0) := Or.inr (by omega)
        simp only [hsInitClosed, this, if_true, seStart, hz1]
      rw [h1, h2, ehrLast_of_SE _ _ (SE.C (z + 2) w (Or.inl (by omega)))]
      rw [← rep_append_cons w true (replicate (z + 1) false)]
      exact hsNext_odd w w _ (by omega)

theorem hsInitsFrom_closed (n : Nat) : ∀ (fuel w : Nat), 1 ≤ w → w + fuel ≤ n →
    hsInitsFrom fuel w (hsInitClosed n w) = (List.range fuel).map (fun i => hsInitClosed n (w + i)) := by
  intro fuel
  induction fuel with
  | zero => intro w _ _; rfl
  | succ fuel ih =>
    intro w hw hn
    rw [List.range_succ_eq_map, List.map_cons, List.map_map]
    simp only [hsInitsFrom, Nat.add_zero]
    congr 1
    cases fuel with
    | zero => rfl
    | succ f =>
      rw [hsNext_closed n w hw (by omega), ih (w + 1) (by omega) (by omega)]
      apply List.map_congr_left
      intro i _
      simp only [Function.comp, Nat.succ_eq_add_one]
      congr 1
      omega

/-- **the initial strings of all Hamming-weight blocks of the hyperspherical binary encoder**, for
every number of qubits. -/
theorem hsInits_closed (n : Nat) (hn : 1 ≤ n) :
    hsInits n = (List.range (n - 1)).map (fun i => hsInitClosed n (1 + i)) := by
  have h0 : (true :: replicate (n - 1) false) = hsInitClosed n 1 := by
    simp [hsInitClosed, seStart]
  unfold hsInits
  rw [h0]
  exact hsInitsFrom_closed n (n - 1) 1 (le_refl _) (by omega)


end QV.Enc
