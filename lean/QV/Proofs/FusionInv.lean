/-
  QV.Proofs.FusionInv — invariants of the gate-fusion model of QV/Model/Fusion.lean.

  Organisation: every state update is `s.modify i f` / `s.push`; the *core* of a node is
  (qubits, gates, marked) and pointer updates leave it unchanged (`SameCore`).
  `fuseNodes_cases` reduces `fuseNodes` to three possible core effects.

  Part 1 (per-node invariant `NodeOK`, all nodes: `AllOK`)
    * `mem_insertS`, `pairwise_insertS`, `mem_unionS`, `pairwise_unionS`, `asc_ext`,
      `unionS_comm`, `mem_sortS`, `pairwise_sortS`
    * `toFused_size`, `toFused_core`, `toFused_ok`
    * `fuseNodes_ok` (under `canFuse`), `fuseAt_ok`, `fuseLoop_ok`, `fuseModel_state_ok`
    * `fuseModelQ`, `fuseModelQ_fst`, `fuseModelQ_ok`
  Part 2 (the flattened output is a permutation of the input)
    * `contrib`, `contribs`, `fromFused_flatten`, `fuseNodes_contribs` (needs `a ≠ b`)
    * pointer invariant `PI` (index monotone, in range, target node contains the qubit):
      `toFused_PI`, `fuseNodes_PI`
    * `Inv`, `fuseAt_inv`, `fuseLoop_inv`, `fuseModel_perm`
-/
import QV.Model.Fusion
import Mathlib.Data.List.Perm.Basic
import Mathlib.Algebra.BigOperators.Group.List.Basic
import Mathlib.Data.Multiset.Basic
import Mathlib.Tactic.Ring
namespace QV

/-! ### insertS / unionS / sortS -/

theorem mem_insertS {q x : Nat} {l : List Nat} : x ∈ insertS q l ↔ x = q ∨ x ∈ l := by
  induction l with
  | nil => simp [insertS]
  | cons a l ih =>
    simp only [insertS]
    split_ifs with h1 h2
    · simp
    · subst h2; simp
    · simp [ih]; tauto

theorem pairwise_insertS {q : Nat} {l : List Nat} (h : l.Pairwise (· < ·)) :
    (insertS q l).Pairwise (· < ·) := by
  induction l with
  | nil => simp [insertS]
  | cons a l ih =>
    rw [List.pairwise_cons] at h
    simp only [insertS]
    split_ifs with h1 h2
    · refine List.pairwise_cons.2 ⟨?_, List.pairwise_cons.2 h⟩
      intro x hx
      rcases List.mem_cons.1 hx with rfl | hx
      · exact h1
      · exact lt_trans h1 (h.1 x hx)
    · exact List.pairwise_cons.2 h
    · refine List.pairwise_cons.2 ⟨?_, ih h.2⟩
      intro x hx
      rcases mem_insertS.1 hx with rfl | hx
      · omega
      · exact h.1 x hx

theorem unionS_cons (a : List Nat) (c : Nat) (b : List Nat) :
    unionS a (c :: b) = unionS (insertS c a) b := rfl

theorem mem_unionS {x : Nat} {a b : List Nat} : x ∈ unionS a b ↔ x ∈ a ∨ x ∈ b := by
  induction b generalizing a with
  | nil => simp [unionS]
  | cons c b ih =>
    rw [unionS_cons, ih, mem_insertS]; simp; tauto

theorem pairwise_unionS {a b : List Nat} (h : a.Pairwise (· < ·)) :
    (unionS a b).Pairwise (· < ·) := by
  induction b generalizing a with
  | nil => simpa [unionS] using h
  | cons c b ih =>
    rw [unionS_cons]; exact ih (pairwise_insertS h)

/-- two strictly ascending lists with the same members are equal. -/
theorem asc_ext : ∀ {a b : List Nat}, a.Pairwise (· < ·) → b.Pairwise (· < ·) →
    (∀ x, x ∈ a ↔ x ∈ b) → a = b
  | [], [], _, _, _ => rfl
  | [], y :: b, _, _, h => by have := (h y).2 (by simp); simp at this
  | x :: a, [], _, _, h => by have := (h x).1 (by simp); simp at this
  | x :: a, y :: b, ha, hb, h => by
    rw [List.pairwise_cons] at ha hb
    have hxy : x = y := by
      have h1 := (h x).1 (by simp)
      have h2 := (h y).2 (by simp)
      rcases List.mem_cons.1 h1 with h1 | h1
      · exact h1
      · rcases List.mem_cons.1 h2 with h2 | h2
        · exact h2.symm
        · have := ha.1 y h2; have := hb.1 x h1; omega
    subst hxy
    congr 1
    refine asc_ext ha.2 hb.2 (fun z => ⟨fun hz => ?_, fun hz => ?_⟩)
    · rcases List.mem_cons.1 ((h z).1 (List.mem_cons_of_mem _ hz)) with h1 | h1
      · have := ha.1 z hz; omega
      · exact h1
    · rcases List.mem_cons.1 ((h z).2 (List.mem_cons_of_mem _ hz)) with h1 | h1
      · have := hb.1 z hz; omega
      · exact h1

theorem unionS_comm {a b : List Nat} (ha : a.Pairwise (· < ·)) (hb : b.Pairwise (· < ·)) :
    unionS a b = unionS b a :=
  asc_ext (pairwise_unionS ha) (pairwise_unionS hb) (fun x => by
    rw [mem_unionS, mem_unionS]; tauto)

theorem mem_sortS {x : Nat} {l : List Nat} : x ∈ sortS l ↔ x ∈ l := by
  simp [sortS, mem_unionS]

theorem pairwise_sortS (l : List Nat) : (sortS l).Pairwise (· < ·) :=
  pairwise_unionS List.Pairwise.nil

/-! ### generic fold lemmas -/

theorem foldl_pres {α β : Type} (P : β → Prop) (f : β → α → β)
    (h : ∀ b x, P b → P (f b x)) : ∀ (l : List α) (b : β), P b → P (l.foldl f b)
  | [], _, hb => hb
  | x :: l, b, hb => foldl_pres P f h l (f b x) (h b x hb)

theorem foldl_inv {α β : Type} (P : Nat → β → Prop) (f : β → α → β) :
    ∀ (l : List α) (b : β), P 0 b →
      (∀ k (hk : k < l.length) b, P k b → P (k + 1) (f b l[k])) → P l.length (l.foldl f b)
  | [], _, h0, _ => h0
  | x :: l, b, h0, hs => by
    have := foldl_inv (fun k => P (k + 1)) f l (f b x) (hs 0 (by simp) b h0)
      (fun k hk b hb => hs (k + 1) (by simpa using hk) b hb)
    simpa using this

/-! ### `nodeAt` and array updates -/

theorem nodeAt_of_lt {s : FState} {j : Nat} (h : j < s.size) : nodeAt s j = s[j] := by
  simp [nodeAt, h]

theorem nodeAt_of_ge {s : FState} {j : Nat} (h : s.size ≤ j) : nodeAt s j = default := by
  simp [nodeAt, h]

theorem nodeAt_modify (s : FState) (i j : Nat) (f : FNode → FNode) :
    nodeAt (s.modify i f) j = if i = j ∧ j < s.size then f (nodeAt s j) else nodeAt s j := by
  by_cases hj : j < s.size
  · rw [nodeAt_of_lt (by simpa using hj), nodeAt_of_lt hj, Array.getElem_modify]
    simp [hj]
  · rw [nodeAt_of_ge (by simpa using hj), nodeAt_of_ge (by simpa using hj)]
    simp [hj]

theorem nodeAt_push (s : FState) (x : FNode) (j : Nat) :
    nodeAt (s.push x) j = if j < s.size then nodeAt s j else if j = s.size then x else default := by
  by_cases hj : j < s.size
  · rw [nodeAt_of_lt (by simp; omega), nodeAt_of_lt hj, Array.getElem_push]; simp [hj]
  · by_cases hj2 : j = s.size
    · subst hj2; rw [nodeAt_of_lt (by simp)]; simp
    · rw [nodeAt_of_ge (by simp; omega)]; simp [hj, hj2]

theorem mem_toList_iff {s : FState} {nd : FNode} :
    nd ∈ s.toList ↔ ∃ i, i < s.size ∧ nodeAt s i = nd := by
  constructor
  · intro h
    obtain ⟨i, hi, rfl⟩ := List.getElem_of_mem h
    have hi' : i < s.size := by simpa using hi
    exact ⟨i, hi', by rw [nodeAt_of_lt hi']; simp⟩
  · rintro ⟨i, hi, rfl⟩
    rw [nodeAt_of_lt hi]; simp

/-! ### the core of a node -/

/-- the part of a node which is not a pointer. -/
def FNode.core (nd : FNode) : List Nat × List Nat × Bool := (nd.qubits, nd.gates, nd.marked)

def SameCore (s s' : FState) : Prop :=
  s'.size = s.size ∧ ∀ i, (nodeAt s' i).core = (nodeAt s i).core

theorem SameCore.refl (s : FState) : SameCore s s := ⟨rfl, fun _ => rfl⟩

theorem SameCore.trans {s s' s'' : FState} (h : SameCore s s') (h' : SameCore s' s'') :
    SameCore s s'' := ⟨h'.1.trans h.1, fun i => (h'.2 i).trans (h.2 i)⟩

theorem SameCore.modify (s : FState) (i : Nat) {f : FNode → FNode}
    (hf : ∀ nd, (f nd).core = nd.core) : SameCore s (s.modify i f) := by
  refine ⟨by simp, fun j => ?_⟩
  rw [nodeAt_modify]; split_ifs
  · exact hf _
  · rfl

theorem SameCore.modify2 (s : FState) (i j : Nat) {f g : FNode → FNode}
    (hf : ∀ nd, (f nd).core = nd.core) (hg : ∀ nd, (g nd).core = nd.core) :
    SameCore s ((s.modify i f).modify j g) :=
  (SameCore.modify s i hf).trans (SameCore.modify _ j hg)

theorem sameCore_foldl {α : Type} (f : FState → α → FState) (h : ∀ s x, SameCore s (f s x))
    (l : List α) (s : FState) : SameCore s (l.foldl f s) :=
  foldl_pres (fun t => SameCore s t) f (fun t x ht => ht.trans (h t x)) l s (SameCore.refl s)

theorem linkRight_sameCore (s : FState) (p c q : Nat) : SameCore s (linkRight s p c q) := by
  unfold linkRight; split
  · exact SameCore.modify2 _ _ _ (fun _ => rfl) (fun _ => rfl)
  · exact SameCore.refl _

theorem linkLeft_sameCore (s : FState) (p c q : Nat) : SameCore s (linkLeft s p c q) := by
  unfold linkLeft; split
  · exact SameCore.modify2 _ _ _ (fun _ => rfl) (fun _ => rfl)
  · exact SameCore.refl _

theorem rewire_sameCore (s : FState) (p c : Nat) (qs : List Nat) :
    SameCore s (rewire s p c qs) :=
  sameCore_foldl _ (fun s q => (linkRight_sameCore s p c q).trans (linkLeft_sameCore _ p c q)) qs s

/-- the three possible effects of `fuseNodes` on the cores. -/
theorem fuseNodes_cases (s : FState) (a b : Nat) :
    SameCore s (fuseNodes s a b) ∨
    SameCore ((s.modify b (fun nd => { nd with marked := true })).modify a (fun nd =>
        { nd with qubits := unionS nd.qubits (nodeAt s b).qubits,
                  gates := nd.gates ++ (nodeAt s b).gates })) (fuseNodes s a b) ∨
    SameCore ((s.modify a (fun nd => { nd with marked := true })).modify b (fun nd =>
        { nd with qubits := unionS nd.qubits (nodeAt s a).qubits,
                  gates := (nodeAt s a).gates ++ nd.gates })) (fuseNodes s a b) := by
  unfold fuseNodes
  simp only []
  split_ifs
  · exact Or.inl (SameCore.refl _)
  · refine Or.inr (Or.inl ?_)
    refine SameCore.trans ?_ (rewire_sameCore _ _ _ _)
    refine sameCore_foldl _ (fun s q => ?_) _ _
    split
    · exact SameCore.modify2 _ _ _ (fun _ => rfl) (fun _ => rfl)
    · exact SameCore.modify _ _ (fun _ => rfl)
  · exact Or.inl (SameCore.refl _)
  · refine Or.inr (Or.inr ?_)
    refine SameCore.trans ?_ (rewire_sameCore _ _ _ _)
    exact sameCore_foldl _ (fun s q => linkLeft_sameCore _ _ _ _) _ _
  · exact Or.inl (SameCore.refl _)

/-! ### per-node invariant -/

/-- qubits a gate of the original queue acts on, as seen by fusion / trace equivalence. -/
def gateQs (n : Nat) (queue : List FIn) (g : Nat) : List Nat :=
  if (queue.getD g default).kind == 2 then List.range n else (queue.getD g default).qs

def NodeOK (n maxq : Nat) (queue : List FIn) (nd : FNode) : Prop :=
  nd.qubits.Pairwise (· < ·) ∧
  (∀ g ∈ nd.gates, g < queue.length ∧
    ∀ q ∈ (if (queue.getD g default).kind == 2 then List.range n else (queue.getD g default).qs),
      q ∈ nd.qubits) ∧
  (nd.gates.length ≤ 1 ∨ nd.qubits.length ≤ maxq) ∧
  (nd.marked = false → ∀ g ∈ nd.gates, (queue.getD g default).kind = 0)

def AllOK (n maxq : Nat) (queue : List FIn) (s : FState) : Prop :=
  ∀ i, i < s.size → NodeOK n maxq queue (nodeAt s i)

variable {n maxq : Nat} {queue : List FIn}

theorem NodeOK.congr {nd nd' : FNode} (h : nd.core = nd'.core) (ok : NodeOK n maxq queue nd) :
    NodeOK n maxq queue nd' := by
  simp only [FNode.core, Prod.mk.injEq] at h
  obtain ⟨h1, h2, h3⟩ := h
  unfold NodeOK
  rw [← h1, ← h2, ← h3]
  exact ok

theorem AllOK.sameCore {s s' : FState} (h : SameCore s s') (ok : AllOK n maxq queue s) :
    AllOK n maxq queue s' :=
  fun i hi => (ok i (h.1 ▸ hi)).congr (h.2 i).symm

theorem nodeOK_default : NodeOK n maxq queue default := by
  have h1 : (default : FNode).qubits = [] := rfl
  have h2 : (default : FNode).gates = [] := rfl
  exact ⟨by rw [h1]; exact .nil, by rw [h2]; simp, by rw [h2]; simp, by rw [h2]; simp⟩

theorem AllOK.at {s : FState} (ok : AllOK n maxq queue s) (i : Nat) :
    NodeOK n maxq queue (nodeAt s i) := by
  by_cases hi : i < s.size
  · exact ok i hi
  · rw [nodeAt_of_ge (by omega)]; exact nodeOK_default

theorem NodeOK.mark {nd : FNode} (ok : NodeOK n maxq queue nd) :
    NodeOK n maxq queue { nd with marked := true } :=
  ⟨ok.1, ok.2.1, ok.2.2.1, fun h => by simp at h⟩

theorem NodeOK.merge {X B : FNode} (Q G : List Nat) (hX : NodeOK n maxq queue X)
    (hB : NodeOK n maxq queue B) (hBu : B.marked = false)
    (hQ : Q = unionS X.qubits B.qubits) (hG : ∀ g, g ∈ G ↔ g ∈ X.gates ∨ g ∈ B.gates)
    (hlen : Q.length ≤ maxq) :
    NodeOK n maxq queue { X with qubits := Q, gates := G } := by
  subst hQ
  refine ⟨pairwise_unionS hX.1, ?_, Or.inr hlen, ?_⟩
  · intro g hg
    rcases (hG g).1 hg with h | h
    · exact ⟨(hX.2.1 g h).1, fun q hq => mem_unionS.2 (Or.inl ((hX.2.1 g h).2 q hq))⟩
    · exact ⟨(hB.2.1 g h).1, fun q hq => mem_unionS.2 (Or.inr ((hB.2.1 g h).2 q hq))⟩
  · intro hm g hg
    rcases (hG g).1 hg with h | h
    · exact hX.2.2.2 hm g h
    · exact hB.2.2.2 hBu g h

/-! ### `toFused` -/

def qubitsOf (n : Nat) (g : FIn) : List Nat := if g.kind == 2 then List.range n else sortS g.qs

def tfInner (i : Nat) (sl : FState × Dict) (q : Nat) : FState × Dict :=
  ((match dget sl.2 q with
    | some nb =>
      (sl.1.modify i (fun nd => { nd with left := dset nd.left q nb })).modify nb
        (fun nd => { nd with right := dset nd.right q i })
    | none => sl.1), dset sl.2 q i)

def tfStep (n : Nat) (acc : FState × Dict × Nat) (g : FIn) : FState × Dict × Nat :=
  let node : FNode :=
    { qubits := qubitsOf n g, gates := [acc.2.2], marked := g.kind != 0, left := [], right := [] }
  let r := (qubitsOf n g).foldl (tfInner acc.2.2) (acc.1.push node, acc.2.1)
  (r.1, r.2, acc.2.2 + 1)

theorem toFused_eq (n : Nat) (queue : List FIn) :
    toFused n queue = (queue.foldl (tfStep n) (#[], [], 0)).1 := rfl

theorem tfInner_sameCore (i : Nat) (sl : FState × Dict) (q : Nat) :
    SameCore sl.1 (tfInner i sl q).1 := by
  unfold tfInner; dsimp only; split
  · exact SameCore.modify2 _ _ _ (fun _ => rfl) (fun _ => rfl)
  · exact SameCore.refl _

theorem tfInner_fold_sameCore (i : Nat) (qs : List Nat) (sl : FState × Dict) :
    SameCore sl.1 (qs.foldl (tfInner i) sl).1 :=
  foldl_pres (fun t => SameCore sl.1 t.1) _ (fun t q ht => ht.trans (tfInner_sameCore i t q))
    qs sl (SameCore.refl _)

/-- the core of the `j`-th node of `toFused`. -/
def coreOf (n : Nat) (queue : List FIn) (j : Nat) : List Nat × List Nat × Bool :=
  (qubitsOf n (queue.getD j default), [j], (queue.getD j default).kind != 0)

theorem toFused_inv (n : Nat) (queue : List FIn) :
    (queue.foldl (tfStep n) (#[], [], 0)).2.2 = queue.length ∧
    (queue.foldl (tfStep n) (#[], [], 0)).1.size = queue.length ∧
    ∀ j, j < queue.length →
      (nodeAt (queue.foldl (tfStep n) (#[], [], 0)).1 j).core = coreOf n queue j := by
  refine foldl_inv (fun k (acc : FState × Dict × Nat) => acc.2.2 = k ∧ acc.1.size = k ∧
    ∀ j, j < k → (nodeAt acc.1 j).core = coreOf n queue j) (tfStep n) queue _ ?_ ?_
  · exact ⟨rfl, rfl, fun j hj => absurd hj (Nat.not_lt_zero _)⟩
  · rintro k hk ⟨s, last, i⟩ ⟨hi, hs, hc⟩
    dsimp only at hi hs hc
    subst hi
    have hsc := tfInner_fold_sameCore i (qubitsOf n queue[i])
      (s.push { qubits := qubitsOf n queue[i], gates := [i], marked := queue[i].kind != 0,
                left := [], right := [] }, last)
    refine ⟨rfl, ?_, fun j hj => ?_⟩
    · show ((qubitsOf n queue[i]).foldl (tfInner i) _).1.size = i + 1
      rw [hsc.1]; simp [hs]
    · show (nodeAt ((qubitsOf n queue[i]).foldl (tfInner i) _).1 j).core = _
      rw [hsc.2 j]
      dsimp only
      rw [nodeAt_push, hs]
      split_ifs with h1 h2
      · exact hc j h1
      · subst h2
        have : queue.getD j default = queue[j] := by simp [List.getD, hk]
        unfold coreOf; rw [this]; rfl
      · omega

theorem toFused_size (n : Nat) (queue : List FIn) : (toFused n queue).size = queue.length :=
  (toFused_inv n queue).2.1

theorem toFused_core (n : Nat) (queue : List FIn) (j : Nat) (hj : j < queue.length) :
    (nodeAt (toFused n queue) j).core = coreOf n queue j :=
  (toFused_inv n queue).2.2 j hj

theorem toFused_ok (n maxq : Nat) (queue : List FIn) : AllOK n maxq queue (toFused n queue) := by
  intro j hj
  rw [toFused_size] at hj
  have hc := toFused_core n queue j hj
  simp only [FNode.core, coreOf, Prod.mk.injEq] at hc
  obtain ⟨h1, h2, h3⟩ := hc
  refine ⟨?_, ?_, ?_, ?_⟩
  · rw [h1]; unfold qubitsOf; split_ifs
    · exact List.pairwise_lt_range
    · exact pairwise_sortS _
  · rw [h1, h2]; intro g hg
    rw [List.mem_singleton] at hg; subst hg
    refine ⟨hj, fun q hq => ?_⟩
    unfold qubitsOf
    split_ifs at hq ⊢
    · exact hq
    · exact mem_sortS.2 hq
  · rw [h2]; left; simp
  · rw [h2, h3]; intro hm g hg
    rw [List.mem_singleton] at hg; subst hg
    simpa using hm

/-! ### `fuseNodes`, `fuseAt`, `fuseLoop` preserve the invariant -/

theorem canFuse_some {s : FState} {a b : Nat} (h : canFuse s a (some b) maxq = true) :
    (nodeAt s a).marked = false ∧ (nodeAt s b).marked = false ∧
      (unionS (nodeAt s a).qubits (nodeAt s b).qubits).length ≤ maxq := by
  simpa [canFuse, and_assoc] using h

theorem fuseNodes_ok {s : FState} {a b : Nat} (ok : AllOK n maxq queue s)
    (h : canFuse s a (some b) maxq = true) : AllOK n maxq queue (fuseNodes s a b) := by
  obtain ⟨hA, hB, hlen⟩ := canFuse_some h
  rcases fuseNodes_cases s a b with hc | hc | hc
  · exact ok.sameCore hc
  · refine AllOK.sameCore hc (fun j hj => ?_)
    have hj' : j < s.size := by simpa using hj
    rw [nodeAt_modify, nodeAt_modify]
    simp only [Array.size_modify]
    have okj := ok j hj'
    by_cases h1 : a = j <;> by_cases h2 : b = j
    · subst h1; subst h2
      simp only [true_and, hj', if_true]
      exact NodeOK.merge _ _ okj.mark okj hB rfl (fun g => by simp) hlen
    · subst h1
      simp only [true_and, hj', if_true, h2, false_and, if_false]
      exact NodeOK.merge _ _ okj (ok.at b) hB rfl (fun g => by simp) hlen
    · subst h2
      simp only [true_and, hj', if_true, h1, false_and, if_false]
      exact okj.mark
    · simp only [h1, h2, false_and, if_false]
      exact okj
  · refine AllOK.sameCore hc (fun j hj => ?_)
    have hj' : j < s.size := by simpa using hj
    rw [nodeAt_modify, nodeAt_modify]
    simp only [Array.size_modify]
    have okj := ok j hj'
    by_cases h1 : b = j <;> by_cases h2 : a = j
    · subst h1; subst h2
      simp only [true_and, hj', if_true]
      exact NodeOK.merge _ _ okj.mark okj hB rfl (fun g => by simp) hlen
    · subst h1
      simp only [true_and, hj', if_true, h2, false_and, if_false]
      refine NodeOK.merge _ _ okj (ok.at a) hA rfl (fun g => by simp [or_comm]) ?_
      rw [unionS_comm okj.1 (ok.at a).1]; exact hlen
    · subst h2
      simp only [true_and, hj', if_true, h1, false_and, if_false]
      exact okj.mark
    · simp only [h1, h2, false_and, if_false]
      exact okj

theorem fuseAt_ok {s : FState} (i q : Nat) (ok : AllOK n maxq queue s) :
    AllOK n maxq queue (fuseAt maxq i s q) := by
  unfold fuseAt
  have key : ∀ (t : FState) (ob : Option Nat) (first : Bool), AllOK n maxq queue t →
      AllOK n maxq queue (if canFuse t i ob maxq then
        (if first then fuseNodes t i (ob.getD 0) else fuseNodes t (ob.getD 0) i) else t) := by
    intro t ob first okt
    split_ifs with h h'
    · cases ob with
      | none => simp [canFuse] at h
      | some b => exact fuseNodes_ok okt h
    · cases ob with
      | none => simp [canFuse] at h
      | some b =>
        refine fuseNodes_ok okt ?_
        simp only [Option.getD_some]
        have := canFuse_some h
        simp only [canFuse, Bool.and_eq_true, Bool.not_eq_true', decide_eq_true_eq]
        refine ⟨⟨this.2.1, this.1⟩, ?_⟩
        rw [unionS_comm (okt.at b).1 (okt.at i).1]; exact this.2.2
    · exact okt
  have h1 := key s (dget (nodeAt s i).right q) true ok
  simp only [if_true] at h1
  have h2 := key _ (dget (nodeAt (if canFuse s i (dget (nodeAt s i).right q) maxq = true then
      fuseNodes s i ((dget (nodeAt s i).right q).getD 0) else s) i).left q) false h1
  simpa using h2

theorem fuseLoop_ok {s : FState} (ok : AllOK n maxq queue s) :
    AllOK n maxq queue (fuseLoop maxq s) := by
  unfold fuseLoop
  refine foldl_pres (AllOK n maxq queue) _ (fun t i okt => ?_) _ s ok
  split_ifs
  · exact okt
  · exact foldl_pres (AllOK n maxq queue) _ (fun u q oku => fuseAt_ok i q oku) _ t okt

theorem fuseModel_state_ok (n maxq : Nat) (queue : List FIn) :
    AllOK n maxq queue (fuseLoop maxq (toFused n queue)) :=
  fuseLoop_ok (toFused_ok n maxq queue)

/-! ### the output -/

/-- groups of the fused queue together with their `FusedGate.target_qubits`. -/
def fuseModelQ (n maxq : Nat) (queue : List FIn) : List (List Nat × List Nat) :=
  (fuseLoop maxq (toFused n queue)).toList.filterMap (fun nd =>
    if !nd.marked then some (nd.gates, nd.qubits)
    else match nd.gates with
      | g :: _ => if (queue.getD g default).kind != 0 then some ([g], nd.qubits) else none
      | [] => none)

theorem fuseModelQ_fst (n maxq : Nat) (queue : List FIn) :
    (fuseModelQ n maxq queue).map Prod.fst = fuseModel n maxq queue := by
  unfold fuseModelQ fuseModel fromFused
  rw [List.map_filterMap]
  congr 1
  funext nd
  by_cases hm : nd.marked
  · simp only [hm, Bool.not_true, Bool.false_eq_true, if_false]
    cases nd.gates with
    | nil => rfl
    | cons g l =>
      dsimp only
      split_ifs <;> rfl
  · simp [hm]

theorem fuseModelQ_ok (n maxq : Nat) (queue : List FIn) : ∀ p ∈ fuseModelQ n maxq queue,
    p.2.Pairwise (· < ·) ∧ (p.1.length ≤ 1 ∨ p.2.length ≤ maxq) ∧
    ∀ g ∈ p.1, g < queue.length ∧
      ∀ q ∈ (if (queue.getD g default).kind == 2 then List.range n
              else (queue.getD g default).qs), q ∈ p.2 := by
  intro p hp
  unfold fuseModelQ at hp
  obtain ⟨nd, hnd, hf⟩ := List.mem_filterMap.1 hp
  obtain ⟨i, hi, rfl⟩ := mem_toList_iff.1 hnd
  have ok := fuseModel_state_ok n maxq queue i hi
  generalize nodeAt (fuseLoop maxq (toFused n queue)) i = nd at ok hf
  by_cases hm : nd.marked
  · simp only [hm, Bool.not_true, Bool.false_eq_true, if_false] at hf
    cases hg : nd.gates with
    | nil => rw [hg] at hf; simp at hf
    | cons g l =>
      rw [hg] at hf
      dsimp only at hf
      split_ifs at hf
      · simp only [Option.some.injEq] at hf
        subst hf
        refine ⟨ok.1, Or.inl (by simp), fun g' hg' => ?_⟩
        rw [List.mem_singleton] at hg'; subst hg'
        exact ok.2.1 g' (by rw [hg]; simp)
  · simp only [hm, Bool.not_false, if_true, Option.some.injEq] at hf
    subst hf
    exact ⟨ok.1, ok.2.2.1, ok.2.1⟩

/-! ### Part 2: the flattened output is a permutation of the input -/

/-- what a node contributes to the fused queue. -/
def contrib (queue : List FIn) (nd : FNode) : List Nat :=
  if !nd.marked then nd.gates
  else match nd.gates with
    | g :: _ => if (queue.getD g default).kind != 0 then [g] else []
    | [] => []

theorem contrib_congr {nd nd' : FNode} (h : nd.core = nd'.core) :
    contrib queue nd = contrib queue nd' := by
  simp only [FNode.core, Prod.mk.injEq] at h
  obtain ⟨_, h2, h3⟩ := h
  unfold contrib
  rw [h2, h3]

theorem toList_eq_map_nodeAt (s : FState) : s.toList = (List.range s.size).map (nodeAt s) := by
  apply List.ext_getElem
  · simp
  · intro i h1 h2
    have hi : i < s.size := by simpa using h1
    simp [nodeAt_of_lt hi]

def contribs (queue : List FIn) (s : FState) : List (List Nat) :=
  (List.range s.size).map (fun i => contrib queue (nodeAt s i))

theorem fromFused_flatten (queue : List FIn) (s : FState) :
    (fromFused queue s).flatten = (contribs queue s).flatten := by
  have : contribs queue s = s.toList.map (contrib queue) := by
    rw [toList_eq_map_nodeAt, List.map_map]; rfl
  rw [this]
  unfold fromFused
  induction s.toList with
  | nil => rfl
  | cons nd l ih =>
    rw [List.map_cons, List.flatten_cons, ← ih, List.filterMap_cons]
    by_cases hm : nd.marked
    · cases hg : nd.gates with
      | nil => simp [contrib, hm, hg]
      | cons g r =>
        by_cases hk : (queue[g]?.getD default).kind = 0 <;> simp [contrib, hm, hg, hk]
    · simp [contrib, hm]

theorem sum_range_two (f f' : Nat → Nat) (a b : Nat) (N : Nat) (ha : a < N) (hb : b < N)
    (hother : ∀ i, i ≠ a → i ≠ b → f i = f' i) (hab : a ≠ b)
    (hsum : f a + f b = f' a + f' b) :
    ((List.range N).map f).sum = ((List.range N).map f').sum := by
  have key : ∀ M, ((List.range M).map f).sum + (if a < M then f' a else 0)
        + (if b < M then f' b else 0)
      = ((List.range M).map f').sum + (if a < M then f a else 0)
        + (if b < M then f b else 0) := by
    intro M
    induction M with
    | zero => simp
    | succ M ih =>
      rw [List.range_succ, List.map_append, List.map_append, List.sum_append, List.sum_append]
      simp only [List.map_cons, List.map_nil, List.sum_cons, List.sum_nil, Nat.add_zero]
      by_cases h1 : M = a
      · subst h1
        have : ¬ b = M := fun h => hab h.symm
        split_ifs at ih ⊢ <;> omega
      · by_cases h2 : M = b
        · subst h2
          split_ifs at ih ⊢ <;> omega
        · have := hother M h1 h2
          split_ifs at ih ⊢ <;> omega
  have := key N
  simp only [ha, hb, if_true] at this
  omega

theorem contribs_perm_of_two {s s' : FState} (hsize : s'.size = s.size) {a b : Nat}
    (ha : a < s.size) (hb : b < s.size) (hab : a ≠ b)
    (hother : ∀ i, i ≠ a → i ≠ b → contrib queue (nodeAt s' i) = contrib queue (nodeAt s i))
    (hsum : (contrib queue (nodeAt s' a) ++ contrib queue (nodeAt s' b)).Perm
      (contrib queue (nodeAt s a) ++ contrib queue (nodeAt s b))) :
    (contribs queue s').flatten.Perm (contribs queue s).flatten := by
  rw [List.perm_iff_count]
  intro x
  rw [List.count_flatten, List.count_flatten]
  unfold contribs
  rw [hsize, List.map_map, List.map_map]
  refine sum_range_two _ _ a b s.size ha hb (fun i h1 h2 => ?_) hab ?_
  · simp only [Function.comp]; rw [hother i h1 h2]
  · have := List.perm_iff_count.1 hsum x
    simpa [List.count_append] using this

theorem contribs_sameCore {s s' : FState} (h : SameCore s s') :
    contribs queue s' = contribs queue s := by
  unfold contribs
  rw [h.1]
  exact List.map_congr_left (fun i _ => contrib_congr (h.2 i))

theorem contrib_unmarked {nd : FNode} (h : nd.marked = false) : contrib queue nd = nd.gates := by
  simp [contrib, h]

theorem contrib_mark {nd : FNode} (ok : NodeOK n maxq queue nd) (h : nd.marked = false) :
    contrib queue { nd with marked := true } = [] := by
  unfold contrib
  simp only [Bool.not_true, Bool.false_eq_true, if_false]
  cases hg : nd.gates with
  | nil => rfl
  | cons g r =>
    have := ok.2.2.2 h g (by rw [hg]; simp)
    simpa using this

/-- `fuseNodes` preserves the multiset of contributions, PROVIDED the two nodes are distinct
and inside the array. -/
theorem fuseNodes_contribs {s : FState} {a b : Nat} (ok : AllOK n maxq queue s)
    (h : canFuse s a (some b) maxq = true) (hab : a ≠ b) (ha : a < s.size) (hb : b < s.size) :
    (contribs queue (fuseNodes s a b)).flatten.Perm (contribs queue s).flatten := by
  obtain ⟨hA, hB, -⟩ := canFuse_some h
  have hba : b ≠ a := fun h => hab h.symm
  rcases fuseNodes_cases s a b with hc | hc | hc
  · rw [contribs_sameCore hc]
  · rw [contribs_sameCore hc]
    refine contribs_perm_of_two (by simp) ha hb hab (fun i h1 h2 => ?_) ?_
    · rw [nodeAt_modify, nodeAt_modify]
      simp [Ne.symm h1, Ne.symm h2]
    · rw [nodeAt_modify, nodeAt_modify, nodeAt_modify, nodeAt_modify]
      simp only [Array.size_modify, ha, hb, hba, hab, and_true, if_true, if_false]
      rw [contrib_mark (ok b hb) hB, contrib_unmarked hA, contrib_unmarked hB,
        contrib_unmarked (by exact hA)]
      simp
  · rw [contribs_sameCore hc]
    refine contribs_perm_of_two (by simp) ha hb hab (fun i h1 h2 => ?_) ?_
    · rw [nodeAt_modify, nodeAt_modify]
      simp [Ne.symm h1, Ne.symm h2]
    · rw [nodeAt_modify, nodeAt_modify, nodeAt_modify, nodeAt_modify]
      simp only [Array.size_modify, ha, hb, hba, hab, and_true, if_true, if_false]
      rw [contrib_mark (ok a ha) hA, contrib_unmarked hA, contrib_unmarked hB,
        contrib_unmarked (by exact hB)]
      simp

/-! ### dictionaries -/

theorem dget_dpop (d : Dict) (q q' : Nat) :
    dget (dpop d q) q' = if q' = q then none else dget d q' := by
  unfold dget dpop
  rw [List.find?_filter]
  split_ifs with h
  · subst h
    rw [List.find?_eq_none.2 (by intro kv _; simp)]; rfl
  · congr 2
    funext kv
    by_cases h2 : kv.1 = q'
    · simp [h2]; exact h
    · simp [h2]

theorem dget_dset (d : Dict) (q v q' : Nat) :
    dget (dset d q v) q' = if q' = q then some v else dget d q' := by
  have := dget_dpop d q q'
  unfold dset
  unfold dget at this ⊢
  rw [List.find?_cons]
  by_cases h : q' = q
  · subst h; simp
  · have h' : ¬ q = q' := fun e => h e.symm
    simp only [h, if_false] at this
    have hb : (q == q') = false := by simpa using h'
    simp only [h, if_false, hb]
    exact this

theorem dget_mem_dvals {d : Dict} {q v : Nat} (h : dget d q = some v) : v ∈ dvals d := by
  unfold dget at h
  obtain ⟨kv, hkv, rfl⟩ := Option.map_eq_some_iff.1 h
  unfold dvals
  rw [List.mem_eraseDups]
  exact List.mem_map_of_mem (List.mem_of_find?_eq_some hkv)

theorem guard_of_filter_nil {d : Dict} {a : Nat} (h : (dvals d).filter (· != a) = []) :
    ∀ q nb, dget d q = some nb → nb = a := by
  intro q nb hd
  have := List.filter_eq_nil_iff.1 h nb (dget_mem_dvals hd)
  simpa using this

/-! ### pointer invariant: index monotone, in range, target contains the qubit -/

def PI (s : FState) : Prop := ∀ i q j,
  (dget (nodeAt s i).right q = some j → i < j ∧ j < s.size ∧ q ∈ (nodeAt s j).qubits) ∧
  (dget (nodeAt s i).left q = some j → j < i ∧ q ∈ (nodeAt s j).qubits)

theorem nodeAt_modify_ne (s : FState) {p j : Nat} (f : FNode → FNode) (h : p ≠ j) :
    nodeAt (s.modify p f) j = nodeAt s j := by
  rw [nodeAt_modify]; simp [h]

theorem nodeAt_modify_self (s : FState) {p : Nat} (f : FNode → FNode) (h : p < s.size) :
    nodeAt (s.modify p f) p = f (nodeAt s p) := by
  rw [nodeAt_modify]; simp [h]

theorem SameCore.qubits {s s' : FState} (h : SameCore s s') (i : Nat) :
    (nodeAt s' i).qubits = (nodeAt s i).qubits := by
  have := h.2 i
  simp only [FNode.core, Prod.mk.injEq] at this
  exact this.1

theorem PI.modify {s : FState} (pi : PI s) (p : Nat) (f : FNode → FNode)
    (hq : ∀ x ∈ (nodeAt s p).qubits, x ∈ (f (nodeAt s p)).qubits)
    (hr : ∀ q j, dget (f (nodeAt s p)).right q = some j →
      dget (nodeAt s p).right q = some j ∨ (p < j ∧ j < s.size ∧ q ∈ (nodeAt s j).qubits))
    (hl : ∀ q j, dget (f (nodeAt s p)).left q = some j →
      dget (nodeAt s p).left q = some j ∨ (j < p ∧ q ∈ (nodeAt s j).qubits)) :
    PI (s.modify p f) := by
  have hsub : ∀ j x, x ∈ (nodeAt s j).qubits → x ∈ (nodeAt (s.modify p f) j).qubits := by
    intro j x hx
    rw [nodeAt_modify]; split_ifs with h
    · obtain ⟨rfl, _⟩ := h; exact hq x hx
    · exact hx
  have old : ∀ i q j,
      (dget (nodeAt s i).right q = some j →
        i < j ∧ j < (s.modify p f).size ∧ q ∈ (nodeAt (s.modify p f) j).qubits) ∧
      (dget (nodeAt s i).left q = some j → j < i ∧ q ∈ (nodeAt (s.modify p f) j).qubits) := by
    intro i q j
    refine ⟨fun h => ?_, fun h => ?_⟩
    · obtain ⟨h1, h2, h3⟩ := (pi i q j).1 h
      exact ⟨h1, by simpa using h2, hsub _ _ h3⟩
    · obtain ⟨h1, h3⟩ := (pi i q j).2 h
      exact ⟨h1, hsub _ _ h3⟩
  intro i q j
  rw [nodeAt_modify]
  split_ifs with h
  · obtain ⟨rfl, hi⟩ := h
    refine ⟨fun h => ?_, fun h => ?_⟩
    · rcases hr q j h with h | ⟨h1, h2, h3⟩
      · exact (old p q j).1 h
      · exact ⟨h1, by simpa using h2, hsub _ _ h3⟩
    · rcases hl q j h with h | ⟨h1, h3⟩
      · exact (old p q j).2 h
      · exact ⟨h1, hsub _ _ h3⟩
  · exact old i q j

theorem PI.setRight {s : FState} (pi : PI s) (p q nb : Nat) (h1 : p < nb) (h2 : nb < s.size)
    (h3 : q ∈ (nodeAt s nb).qubits) :
    PI (s.modify p (fun nd => { nd with right := dset nd.right q nb })) := by
  refine pi.modify p _ (fun x hx => hx) (fun q' j h => ?_) (fun q' j h => Or.inl h)
  dsimp only at h
  rw [dget_dset] at h
  split_ifs at h with hq
  · subst hq
    simp only [Option.some.injEq] at h; subst h
    exact Or.inr ⟨h1, h2, h3⟩
  · exact Or.inl h

theorem PI.setLeft {s : FState} (pi : PI s) (p q nb : Nat) (h1 : nb < p)
    (h3 : q ∈ (nodeAt s nb).qubits) :
    PI (s.modify p (fun nd => { nd with left := dset nd.left q nb })) := by
  refine pi.modify p _ (fun x hx => hx) (fun q' j h => Or.inl h) (fun q' j h => ?_)
  dsimp only at h
  rw [dget_dset] at h
  split_ifs at h with hq
  · subst hq
    simp only [Option.some.injEq] at h; subst h
    exact Or.inr ⟨h1, h3⟩
  · exact Or.inl h

theorem PI.popRight {s : FState} (pi : PI s) (p q : Nat) :
    PI (s.modify p (fun nd => { nd with right := dpop nd.right q })) := by
  refine pi.modify p _ (fun x hx => hx) (fun q' j h => ?_) (fun q' j h => Or.inl h)
  dsimp only at h
  rw [dget_dpop] at h
  split_ifs at h with hq
  exact Or.inl h

theorem linkRight_PI {t : FState} (pi : PI t) (p c q : Nat) (hpc : p < c)
    (hq : q ∈ (nodeAt t p).qubits) : PI (linkRight t p c q) := by
  unfold linkRight
  split
  · rename_i nb hnb
    obtain ⟨h1, h2, h3⟩ := (pi c q nb).1 hnb
    have pi1 := pi.setRight p q nb (by omega) h2 h3
    refine pi1.setLeft nb q p (by omega) ?_
    rw [(SameCore.modify t p (f := fun nd => { nd with right := dset nd.right q nb })
      (fun _ => rfl)).qubits p]
    exact hq
  · exact pi

theorem linkLeft_PI {t : FState} (pi : PI t) (p c q : Nat) (hcp : c < p) (hp : p < t.size)
    (hq : q ∈ (nodeAt t p).qubits) : PI (linkLeft t p c q) := by
  unfold linkLeft
  split
  · rename_i nb hnb
    obtain ⟨h1, h3⟩ := (pi c q nb).2 hnb
    have pi1 := pi.setLeft p q nb (by omega) h3
    refine pi1.setRight nb q p (by omega) (by simpa using hp) ?_
    rw [(SameCore.modify t p (f := fun nd => { nd with left := dset nd.left q nb })
      (fun _ => rfl)).qubits p]
    exact hq
  · exact pi

theorem linkRight_nodeAt_child {t : FState} (pi : PI t) (p c q : Nat) (hpc : p ≠ c) :
    nodeAt (linkRight t p c q) c = nodeAt t c := by
  unfold linkRight
  split
  · rename_i nb hnb
    obtain ⟨h1, _, _⟩ := (pi c q nb).1 hnb
    rw [nodeAt_modify_ne _ _ (by omega), nodeAt_modify_ne _ _ hpc]
  · rfl

theorem linkLeft_nodeAt_child {t : FState} (pi : PI t) (p c q : Nat) (hpc : p ≠ c) :
    nodeAt (linkLeft t p c q) c = nodeAt t c := by
  unfold linkLeft
  split
  · rename_i nb hnb
    obtain ⟨h1, _⟩ := (pi c q nb).2 hnb
    rw [nodeAt_modify_ne _ _ (by omega), nodeAt_modify_ne _ _ hpc]
  · rfl

theorem linkRight_none {t : FState} {p c q : Nat} (h : dget (nodeAt t c).right q = none) :
    linkRight t p c q = t := by
  unfold linkRight; rw [h]

theorem linkLeft_none {t : FState} {p c q : Nat} (h : dget (nodeAt t c).left q = none) :
    linkLeft t p c q = t := by
  unfold linkLeft; rw [h]

theorem foldl_pres_mem {α β : Type} (P : β → Prop) (f : β → α → β) :
    ∀ (l : List α) (b : β), (∀ b x, x ∈ l → P b → P (f b x)) → P b → P (l.foldl f b)
  | [], _, _, hb => hb
  | x :: l, b, h, hb =>
    foldl_pres_mem P f l (f b x) (fun b y hy => h b y (List.mem_cons_of_mem _ hy))
      (h b x (by simp) hb)

/-- the loop body over the shared qubits in the "append" branch of `fuseNodes`. -/
def sharedStep1 (a b : Nat) (s : FState) (q : Nat) : FState :=
  match dget (nodeAt s b).right q with
  | some nb =>
    (s.modify a (fun nd => { nd with right := dset nd.right q nb })).modify nb
      (fun nd => { nd with left := dset nd.left q a })
  | none => s.modify a (fun nd => { nd with right := dpop nd.right q })

theorem sharedStep1_sameCore (a b : Nat) (s : FState) (q : Nat) :
    SameCore s (sharedStep1 a b s q) := by
  unfold sharedStep1; split
  · exact SameCore.modify2 _ _ _ (fun _ => rfl) (fun _ => rfl)
  · exact SameCore.modify _ _ (fun _ => rfl)

/-- invariant of the pointer loops: pointer invariant, same cores as `s2`, node `c` untouched. -/
def Stab (s2 : FState) (c : Nat) (t : FState) : Prop :=
  PI t ∧ SameCore s2 t ∧ nodeAt t c = nodeAt s2 c

theorem branch1_PI {s2 : FState} (pi2 : PI s2) {a b : Nat} (hab : a < b)
    (shared rest : List Nat) (hsh : ∀ q ∈ shared, q ∈ (nodeAt s2 a).qubits)
    (hrest : ∀ q ∈ rest, q ∈ (nodeAt s2 a).qubits ∧ dget (nodeAt s2 b).left q = none) :
    PI (rewire (shared.foldl (sharedStep1 a b) s2) a b rest) := by
  have st1 : Stab s2 b (shared.foldl (sharedStep1 a b) s2) := by
    refine foldl_pres_mem (Stab s2 b) _ shared s2 ?_ ⟨pi2, SameCore.refl _, rfl⟩
    rintro t q hq ⟨pit, sct, hbt⟩
    unfold sharedStep1; split
    · rename_i nb hnb
      obtain ⟨h1, h2, h3⟩ := (pit b q nb).1 hnb
      have pi' := pit.setRight a q nb (by omega) h2 h3
      have sc' := SameCore.modify t a (f := fun nd => { nd with right := dset nd.right q nb })
        (fun _ => rfl)
      refine ⟨pi'.setLeft nb q a (by omega) ?_,
        sct.trans (SameCore.modify2 _ _ _ (fun _ => rfl) (fun _ => rfl)), ?_⟩
      · rw [sc'.qubits a, sct.qubits a]; exact hsh q hq
      · rw [nodeAt_modify_ne _ _ (by omega), nodeAt_modify_ne _ _ (by omega)]; exact hbt
    · refine ⟨pit.popRight a q, sct.trans (SameCore.modify _ _ (fun _ => rfl)), ?_⟩
      rw [nodeAt_modify_ne _ _ (by omega)]; exact hbt
  unfold rewire
  refine (foldl_pres_mem (Stab s2 b) _ rest _ ?_ st1).1
  rintro t q hq ⟨pit, sct, hbt⟩
  have hqa : q ∈ (nodeAt t a).qubits := by rw [sct.qubits a]; exact (hrest q hq).1
  have piR := linkRight_PI pit a b q hab hqa
  have scR := sct.trans (linkRight_sameCore t a b q)
  have hbR : nodeAt (linkRight t a b q) b = nodeAt s2 b :=
    (linkRight_nodeAt_child pit a b q (by omega)).trans hbt
  have hnone : dget (nodeAt (linkRight t a b q) b).left q = none := by
    rw [hbR]; exact (hrest q hq).2
  rw [linkLeft_none hnone]
  exact ⟨piR, scR, hbR⟩

theorem branch2_PI {s2 : FState} (pi2 : PI s2) {a b : Nat} (hab : a < b) (hb : b < s2.size)
    (shared rest : List Nat) (hsh : ∀ q ∈ shared, q ∈ (nodeAt s2 b).qubits)
    (hrest : ∀ q ∈ rest, q ∈ (nodeAt s2 b).qubits ∧ dget (nodeAt s2 a).right q = none) :
    PI (rewire (shared.foldl (fun t q => linkLeft t b a q) s2) b a rest) := by
  have hstep : ∀ t q, q ∈ (nodeAt s2 b).qubits → Stab s2 a t → Stab s2 a (linkLeft t b a q) := by
    rintro t q hq ⟨pit, sct, hat⟩
    refine ⟨linkLeft_PI pit b a q hab (by rw [sct.1]; exact hb) (by rw [sct.qubits b]; exact hq),
      sct.trans (linkLeft_sameCore t b a q), ?_⟩
    exact (linkLeft_nodeAt_child pit b a q (by omega)).trans hat
  have st1 : Stab s2 a (shared.foldl (fun t q => linkLeft t b a q) s2) :=
    foldl_pres_mem (Stab s2 a) _ shared s2 (fun t q hq st => hstep t q (hsh q hq) st)
      ⟨pi2, SameCore.refl _, rfl⟩
  unfold rewire
  refine (foldl_pres_mem (Stab s2 a) _ rest _ ?_ st1).1
  rintro t q hq st
  have hnone : dget (nodeAt t a).right q = none := by
    rw [st.2.2]; exact (hrest q hq).2
  rw [linkRight_none hnone]
  exact hstep t q (hrest q hq).1 st

/-- state after the two core updates of the "append" branch. -/
def state1 (s : FState) (a b : Nat) : FState :=
  (s.modify b (fun nd => { nd with marked := true })).modify a (fun nd =>
    { nd with qubits := unionS nd.qubits (nodeAt s b).qubits,
              gates := nd.gates ++ (nodeAt s b).gates })

/-- state after the two core updates of the "prepend" branch. -/
def state2 (s : FState) (a b : Nat) : FState :=
  (s.modify a (fun nd => { nd with marked := true })).modify b (fun nd =>
    { nd with qubits := unionS nd.qubits (nodeAt s a).qubits,
              gates := (nodeAt s a).gates ++ nd.gates })

theorem state1_PI {s : FState} (pi : PI s) (a b : Nat) : PI (state1 s a b) := by
  unfold state1
  refine PI.modify (PI.modify pi b _ (fun x hx => hx) (fun _ _ h => Or.inl h)
    (fun _ _ h => Or.inl h)) a _ (fun x hx => ?_) (fun _ _ h => Or.inl h) (fun _ _ h => Or.inl h)
  exact mem_unionS.2 (Or.inl hx)

theorem state2_PI {s : FState} (pi : PI s) (a b : Nat) : PI (state2 s a b) := by
  unfold state2
  refine PI.modify (PI.modify pi a _ (fun x hx => hx) (fun _ _ h => Or.inl h)
    (fun _ _ h => Or.inl h)) b _ (fun x hx => ?_) (fun _ _ h => Or.inl h) (fun _ _ h => Or.inl h)
  exact mem_unionS.2 (Or.inl hx)

theorem state1_parent {s : FState} {a b : Nat} (hab : a ≠ b) (ha : a < s.size) :
    (nodeAt (state1 s a b) a).qubits = unionS (nodeAt s a).qubits (nodeAt s b).qubits := by
  unfold state1
  rw [nodeAt_modify_self _ _ (by simpa using ha), nodeAt_modify_ne _ _ (Ne.symm hab)]

theorem state1_child {s : FState} {a b : Nat} (hab : a ≠ b) (hb : b < s.size) :
    (nodeAt (state1 s a b) b).qubits = (nodeAt s b).qubits ∧
    (nodeAt (state1 s a b) b).left = (nodeAt s b).left := by
  unfold state1
  rw [nodeAt_modify_ne _ _ hab, nodeAt_modify_self _ _ hb]
  exact ⟨rfl, rfl⟩

theorem state2_parent {s : FState} {a b : Nat} (hab : a ≠ b) (hb : b < s.size) :
    (nodeAt (state2 s a b) b).qubits = unionS (nodeAt s b).qubits (nodeAt s a).qubits := by
  unfold state2
  rw [nodeAt_modify_self _ _ (by simpa using hb), nodeAt_modify_ne _ _ hab]

theorem state2_child {s : FState} {a b : Nat} (hab : a ≠ b) (ha : a < s.size) :
    (nodeAt (state2 s a b) a).qubits = (nodeAt s a).qubits ∧
    (nodeAt (state2 s a b) a).right = (nodeAt s a).right := by
  unfold state2
  rw [nodeAt_modify_ne _ _ (Ne.symm hab), nodeAt_modify_self _ _ ha]
  exact ⟨rfl, rfl⟩

theorem fuseNodes_PI {s : FState} (pi : PI s) {a b : Nat} (hab : a < b) (hb : b < s.size) :
    PI (fuseNodes s a b) := by
  have ha : a < s.size := by omega
  have hne : a ≠ b := by omega
  unfold fuseNodes
  simp only []
  split_ifs with g1 g2 c1 c2
  · exact pi
  · -- parent `a`, child `b`
    have hR : (dvals (nodeAt s b).left).filter (· != a) = [] := by
      apply List.eq_nil_of_length_eq_zero
      simp only [Bool.and_eq_true, decide_eq_true_eq, not_and] at g1
      omega
    have hguard := guard_of_filter_nil hR
    refine branch1_PI (s2 := state1 s a b) (state1_PI pi a b) hab _ _ (fun q hq => ?_)
      (fun q hq => ?_)
    · rw [state1_parent hne ha]
      exact mem_unionS.2 (Or.inl (List.mem_filter.1 hq).1)
    · obtain ⟨hq1, hq2⟩ := List.mem_filter.1 hq
      have hsc := sameCore_foldl (sharedStep1 a b) (sharedStep1_sameCore a b)
        ((nodeAt s a).qubits.filter (fun q => (nodeAt s b).qubits.contains q)) (state1 s a b)
      have hqb := hsc.qubits b
      rw [(state1_child hne hb).1] at hqb
      replace hq1 : q ∈ (nodeAt s b).qubits := by rw [← hqb]; exact hq1
      have hqA : q ∉ (nodeAt s a).qubits := by
        intro hqA
        simp at hq2
        rcases hq2 with h | h
        · exact h hqA
        · exact h hq1
      refine ⟨?_, ?_⟩
      · rw [state1_parent hne ha]; exact mem_unionS.2 (Or.inr hq1)
      · rw [(state1_child hne hb).2]
        cases hd : dget (nodeAt s b).left q with
        | none => rfl
        | some nb =>
          have := hguard q nb hd; subst this
          exact absurd ((pi b q nb).2 hd).2 hqA
  · exact pi
  · -- parent `b`, child `a`
    have hL : (dvals (nodeAt s a).right).filter (· != b) = [] := by
      apply List.eq_nil_of_length_eq_zero
      simp only [Bool.and_eq_true, decide_eq_true_eq, not_and] at g1
      omega
    have hguard := guard_of_filter_nil hL
    refine branch2_PI (s2 := state2 s a b) (state2_PI pi a b) hab
      (by simpa [state2] using hb) _ _ (fun q hq => ?_) (fun q hq => ?_)
    · rw [state2_parent hne hb]
      exact mem_unionS.2 (Or.inl (by simpa using (List.mem_filter.1 hq).2))
    · obtain ⟨hq1, hq2⟩ := List.mem_filter.1 hq
      have hsc := sameCore_foldl (fun t q => linkLeft t b a q)
        (fun t q => linkLeft_sameCore t b a q)
        ((nodeAt s a).qubits.filter (fun q => (nodeAt s b).qubits.contains q)) (state2 s a b)
      have hqa := hsc.qubits a
      rw [(state2_child hne ha).1] at hqa
      replace hq1 : q ∈ (nodeAt s a).qubits := by rw [← hqa]; exact hq1
      have hqB : q ∉ (nodeAt s b).qubits := by
        intro hqB
        simp at hq2
        rcases hq2 with h | h
        · exact h hq1
        · exact h hqB
      refine ⟨?_, ?_⟩
      · rw [state2_parent hne hb]; exact mem_unionS.2 (Or.inr hq1)
      · rw [(state2_child hne ha).2]
        cases hd : dget (nodeAt s a).right q with
        | none => rfl
        | some nb =>
          have := hguard q nb hd; subst this
          exact absurd ((pi a q nb).1 hd).2.2 hqB
  · exact pi

theorem fuseNodes_size (s : FState) (a b : Nat) : (fuseNodes s a b).size = s.size := by
  rcases fuseNodes_cases s a b with hc | hc | hc
  · exact hc.1
  · rw [hc.1]; simp
  · rw [hc.1]; simp

/-- the full invariant of the fusion loop. -/
def Inv (n maxq : Nat) (queue : List FIn) (sz : Nat) (s : FState) : Prop :=
  s.size = sz ∧ AllOK n maxq queue s ∧ PI s ∧
    (contribs queue s).flatten.Perm (List.range queue.length)

theorem fuse_step {sz : Nat} {s : FState} (inv : Inv n maxq queue sz s) {a b : Nat}
    (hab : a < b) (hb : b < s.size) (hc : canFuse s a (some b) maxq = true) :
    Inv n maxq queue sz (fuseNodes s a b) := by
  obtain ⟨h1, h2, h3, h4⟩ := inv
  exact ⟨(fuseNodes_size s a b).trans h1, fuseNodes_ok h2 hc, fuseNodes_PI h3 hab hb,
    (fuseNodes_contribs h2 hc (by omega) (by omega) hb).trans h4⟩

theorem fuseAt_inv {sz : Nat} {s : FState} (i q : Nat) (hi : i < sz)
    (inv : Inv n maxq queue sz s) : Inv n maxq queue sz (fuseAt maxq i s q) := by
  have key1 : ∀ t, Inv n maxq queue sz t →
      Inv n maxq queue sz (if canFuse t i (dget (nodeAt t i).right q) maxq then
        fuseNodes t i ((dget (nodeAt t i).right q).getD 0) else t) := by
    intro t invt
    split_ifs with h
    · cases hd : dget (nodeAt t i).right q with
      | none => rw [hd] at h; simp [canFuse] at h
      | some b =>
        rw [hd] at h
        obtain ⟨h1, h2, _⟩ := (invt.2.2.1 i q b).1 hd
        exact fuse_step invt h1 h2 h
    · exact invt
  have key2 : ∀ t, Inv n maxq queue sz t →
      Inv n maxq queue sz (if canFuse t i (dget (nodeAt t i).left q) maxq then
        fuseNodes t ((dget (nodeAt t i).left q).getD 0) i else t) := by
    intro t invt
    split_ifs with h
    · cases hd : dget (nodeAt t i).left q with
      | none => rw [hd] at h; simp [canFuse] at h
      | some a =>
        rw [hd] at h
        obtain ⟨h1, _⟩ := (invt.2.2.1 i q a).2 hd
        refine fuse_step invt h1 (by rw [invt.1]; exact hi) ?_
        have := canFuse_some h
        simp only [canFuse, Bool.and_eq_true, Bool.not_eq_true', decide_eq_true_eq,
          Option.getD_some]
        refine ⟨⟨this.2.1, this.1⟩, ?_⟩
        rw [unionS_comm (invt.2.1.at a).1 (invt.2.1.at i).1]; exact this.2.2
    · exact invt
  unfold fuseAt
  exact key2 _ (key1 s inv)

theorem fuseLoop_inv {s : FState} (inv : Inv n maxq queue s.size s) :
    Inv n maxq queue s.size (fuseLoop maxq s) := by
  unfold fuseLoop
  refine foldl_pres_mem (Inv n maxq queue s.size) _ _ s (fun t i hi invt => ?_) inv
  have hi' : i < s.size := by simpa using hi
  split_ifs
  · exact invt
  · exact foldl_pres (Inv n maxq queue s.size) _ (fun u q invu => fuseAt_inv i q hi' invu) _ t invt

/-! ### the initial state -/

theorem contrib_of_core {nd : FNode} {j : Nat} (h : nd.core = coreOf n queue j) :
    contrib queue nd = [j] := by
  simp only [FNode.core, coreOf, Prod.mk.injEq] at h
  obtain ⟨_, h2, h3⟩ := h
  unfold contrib
  rw [h2, h3]
  by_cases hk : ((queue.getD j default).kind != 0) = true
  · simp only [hk, Bool.not_true, Bool.false_eq_true, if_false, if_true]
  · simp only [hk, Bool.not_false, if_true]

theorem flatten_map_single (l : List Nat) : (l.map (fun i => [i])).flatten = l := by
  induction l with
  | nil => rfl
  | cons x l ih => simp [ih]

theorem toFused_contribs (n : Nat) (queue : List FIn) :
    (contribs queue (toFused n queue)).flatten = List.range queue.length := by
  unfold contribs
  rw [toFused_size]
  rw [List.map_congr_left (g := fun i => [i]) (fun i hi =>
    contrib_of_core (toFused_core n queue i (by simpa using hi)))]
  exact flatten_map_single _

theorem qubitsOf_pairwise (n : Nat) (g : FIn) : (qubitsOf n g).Pairwise (· < ·) := by
  unfold qubitsOf; split_ifs
  · exact List.pairwise_lt_range
  · exact pairwise_sortS _

def LastOK (s : FState) (last : Dict) : Prop :=
  ∀ q nb, dget last q = some nb → nb < s.size ∧ q ∈ (nodeAt s nb).qubits

theorem dget_nil (q : Nat) : dget [] q = none := rfl

theorem PI.push {s : FState} (pi : PI s) (Q G : List Nat) (m : Bool) :
    PI (s.push { qubits := Q, gates := G, marked := m, left := [], right := [] }) := by
  have hsame : ∀ j, j < s.size →
      nodeAt (s.push { qubits := Q, gates := G, marked := m, left := [], right := [] }) j
        = nodeAt s j := by
    intro j hj; rw [nodeAt_push]; simp [hj]
  intro i q j
  rw [nodeAt_push]
  split_ifs with h1 h2
  · refine ⟨fun h => ?_, fun h => ?_⟩
    · obtain ⟨a1, a2, a3⟩ := (pi i q j).1 h
      exact ⟨a1, by simp; omega, by rw [hsame j a2]; exact a3⟩
    · obtain ⟨a1, a3⟩ := (pi i q j).2 h
      exact ⟨a1, by rw [hsame j (by omega)]; exact a3⟩
  · exact ⟨fun h => by simp [dget_nil] at h, fun h => by simp [dget_nil] at h⟩
  · have h1 : (default : FNode).right = [] := rfl
    have h2 : (default : FNode).left = [] := rfl
    rw [h1, h2]
    exact ⟨fun h => by simp [dget_nil] at h, fun h => by simp [dget_nil] at h⟩

theorem tfInner_fold_PI {s0 : FState} (pi0 : PI s0) (i : Nat) (hi : i < s0.size) (Q : List Nat)
    (hQ : Q.Pairwise (· < ·)) (hQi : (nodeAt s0 i).qubits = Q) (last : Dict)
    (hlast : ∀ q nb, dget last q = some nb → nb < i ∧ q ∈ (nodeAt s0 nb).qubits) :
    PI (Q.foldl (tfInner i) (s0, last)).1 ∧ LastOK (Q.foldl (tfInner i) (s0, last)).1
      (Q.foldl (tfInner i) (s0, last)).2 := by
  have main := foldl_inv (fun m (tl : FState × Dict) => PI tl.1 ∧ SameCore s0 tl.1 ∧
      ∀ q nb, dget tl.2 q = some nb → (nb < i ∧ q ∈ (nodeAt tl.1 nb).qubits) ∨
        (nb = i ∧ ∃ m', m' < m ∧ Q[m']? = some q)) (tfInner i) Q (s0, last)
    ⟨pi0, SameCore.refl _, fun q nb h => Or.inl (hlast q nb h)⟩ ?_
  · obtain ⟨pit, sct, hl⟩ := main
    refine ⟨pit, fun q nb h => ?_⟩
    rcases hl q nb h with ⟨h1, h2⟩ | ⟨rfl, m', _, hm'⟩
    · exact ⟨by rw [sct.1]; omega, h2⟩
    · refine ⟨by rw [sct.1]; exact hi, ?_⟩
      rw [sct.qubits nb, hQi]
      exact List.mem_of_getElem? hm'
  · rintro m hm ⟨t, last'⟩ ⟨pit, sct, hl⟩
    dsimp only at pit sct hl
    have hqm : Q[m] ∈ (nodeAt t i).qubits := by
      rw [sct.qubits i, hQi]; exact List.getElem_mem hm
    have hnew : ∀ t' : FState, SameCore t t' → ∀ q nb, dget (dset last' Q[m] i) q = some nb →
        (nb < i ∧ q ∈ (nodeAt t' nb).qubits) ∨ (nb = i ∧ ∃ m', m' < m + 1 ∧ Q[m']? = some q) := by
      intro t' hsc q nb h
      rw [dget_dset] at h
      split_ifs at h with hq
      · simp only [Option.some.injEq] at h
        exact Or.inr ⟨h.symm, m, by omega, by rw [hq]; exact List.getElem?_eq_getElem hm⟩
      · rcases hl q nb h with ⟨h1, h2⟩ | ⟨h1, m', h2, h3⟩
        · exact Or.inl ⟨h1, by rw [hsc.qubits nb]; exact h2⟩
        · exact Or.inr ⟨h1, m', by omega, h3⟩
    unfold tfInner
    dsimp only
    split
    · rename_i nb hnb
      have hnb' : nb < i ∧ Q[m] ∈ (nodeAt t nb).qubits := by
        rcases hl _ nb hnb with h | ⟨_, m', h2, h3⟩
        · exact h
        · exfalso
          have hm' : m' < Q.length := by
            by_contra hc
            rw [List.getElem?_eq_none (by omega)] at h3; simp at h3
          rw [List.getElem?_eq_getElem hm'] at h3
          simp only [Option.some.injEq] at h3
          have := List.pairwise_iff_getElem.1 hQ m' m hm' hm h2
          omega
      have sc1 := SameCore.modify t i (f := fun nd => { nd with left := dset nd.left Q[m] nb })
        (fun _ => rfl)
      have pi1 := pit.setLeft i Q[m] nb hnb'.1 hnb'.2
      have sc2 : SameCore t _ := SameCore.modify2 t i nb
        (f := fun nd => { nd with left := dset nd.left Q[m] nb })
        (g := fun nd => { nd with right := dset nd.right Q[m] i }) (fun _ => rfl) (fun _ => rfl)
      refine ⟨pi1.setRight nb Q[m] i hnb'.1 (by rw [sc1.1, sct.1]; exact hi)
        (by rw [sc1.qubits i]; exact hqm), sct.trans sc2, hnew _ sc2⟩
    · exact ⟨pit, sct, hnew _ (SameCore.refl _)⟩

theorem toFused_PI (n : Nat) (queue : List FIn) : PI (toFused n queue) := by
  rw [toFused_eq]
  have main := foldl_inv (fun k (acc : FState × Dict × Nat) => acc.2.2 = k ∧ acc.1.size = k ∧
    PI acc.1 ∧ LastOK acc.1 acc.2.1) (tfStep n) queue (#[], [], 0) ?_ ?_
  · exact main.2.2.1
  · refine ⟨rfl, rfl, fun i q j => ?_, fun q nb h => by simp [dget_nil] at h⟩
    have h1 : (default : FNode).right = [] := rfl
    have h2 : (default : FNode).left = [] := rfl
    rw [nodeAt_of_ge (by simp), h1, h2]
    exact ⟨fun h => by simp [dget_nil] at h, fun h => by simp [dget_nil] at h⟩
  · rintro k hk ⟨s, last, i⟩ ⟨hi, hs, pis, hlast⟩
    dsimp only at hi hs pis hlast
    subst hi
    have hpush : ∀ j, j < s.size →
        nodeAt (s.push { qubits := qubitsOf n queue[i], gates := [i],
                         marked := queue[i].kind != 0, left := [], right := [] }) j
          = nodeAt s j := by
      intro j hj; rw [nodeAt_push]; simp [hj]
    have := tfInner_fold_PI (pis.push (qubitsOf n queue[i]) [i] (queue[i].kind != 0)) i
      (by simp [hs]) (qubitsOf n queue[i]) (qubitsOf_pairwise n _)
      (by rw [nodeAt_push]; simp [hs]) last
      (fun q nb h => by
        obtain ⟨h1, h2⟩ := hlast q nb h
        exact ⟨by omega, by rw [hpush nb h1]; exact h2⟩)
    have hsz := (tfInner_fold_sameCore i (qubitsOf n queue[i])
      (s.push { qubits := qubitsOf n queue[i], gates := [i], marked := queue[i].kind != 0,
                left := [], right := [] }, last)).1
    refine ⟨rfl, ?_, this.1, this.2⟩
    show ((qubitsOf n queue[i]).foldl (tfInner i) _).1.size = i + 1
    rw [hsz]; simp [hs]

/-! ### main theorem of Part 2 -/

theorem fuseModel_perm (n maxq : Nat) (queue : List FIn) :
    (fuseModel n maxq queue).flatten.Perm (List.range queue.length) := by
  unfold fuseModel
  rw [fromFused_flatten]
  have inv0 : Inv n maxq queue (toFused n queue).size (toFused n queue) :=
    ⟨rfl, toFused_ok n maxq queue, toFused_PI n queue, by rw [toFused_contribs]⟩
  exact (fuseLoop_inv inv0).2.2.2

end QV
