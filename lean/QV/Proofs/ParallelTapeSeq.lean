/-
  QV.Proofs.ParallelTapeSeq — closed form of the allocation of the global generator under the
  schedule of the plain loop (`tapeSeq`, one worker): job `j` is given the consecutive block of
  answers that starts after all answers of the jobs before it.  Unbounded in jobs and job lengths.
-/
import QV.Proofs.ParallelTape

namespace QV.Par

/-- number of drawing steps of a job -/
def draws (p : List Bool) : Nat := p.count true

/-- number of answers consumed by the jobs before job `j` -/
def offset (progs : List (List Bool)) (j : Nat) : Nat := ((progs.take j).map draws).sum

theorem offset_succ (progs : List (List Bool)) (j : Nat) (h : j < progs.length) :
    offset progs (j + 1) = offset progs j + draws (progs.getD j []) := by
  unfold offset
  rw [List.take_succ_eq_append_getElem h, List.map_append, List.sum_append]
  simp [List.getD_eq_getElem?_getD, List.getElem?_eq_getElem h]

/-- the state while job `j` runs alone and has executed `pc` steps: jobs before it have finished
with their consecutive blocks, jobs after it are untouched. -/
structure SeqAt (progs : List (List Bool)) (j pc : Nat) (τ : Tape) : Prop where
  pcsLen : τ.pcs.length = progs.length
  gotLen : τ.got.length = progs.length
  cur : τ.cursor = offset progs j + ((progs.getD j []).take pc).count true
  before : ∀ i : Nat, i < j → i < progs.length → τ.pcs[i]? = some (progs.getD i []).length ∧
    τ.got[i]? = some (List.range' (offset progs i) (draws (progs.getD i [])))
  own : j < progs.length → τ.pcs[j]? = some pc ∧
    τ.got[j]? = some (List.range' (offset progs j) (((progs.getD j []).take pc).count true))
  after : ∀ i : Nat, j < i → i < progs.length → τ.pcs[i]? = some 0 ∧ τ.got[i]? = some []

theorem seqAt_init (progs : List (List Bool)) : SeqAt progs 0 0 (tapeInit progs) := by
  refine ⟨by simp [tapeInit], by simp [tapeInit], by simp [tapeInit, offset], ?_, ?_, ?_⟩
  · intro i hi; omega
  · intro h
    simp [tapeInit, List.getElem?_eq_getElem h]
  · intro i _ h
    simp [tapeInit, List.getElem?_eq_getElem h]

theorem seqAt_step (progs : List (List Bool)) (j pc : Nat) (τ : Tape) (hj : j < progs.length)
    (hpc : pc < (progs.getD j []).length) (I : SeqAt progs j pc τ) :
    SeqAt progs j (pc + 1) (tapeStep progs τ j) := by
  obtain ⟨p, hpdef⟩ : ∃ p, progs.getD j [] = p := ⟨_, rfl⟩
  obtain ⟨hown1, hown2⟩ := I.own hj
  have hc := I.cur
  rw [hpdef] at hpc hown2 hc
  have hp : progs[j]? = some p := by
    rw [← hpdef]; simp [List.getD_eq_getElem?_getD, List.getElem?_eq_getElem hj]
  have hb : p[pc]? = some p[pc] := List.getElem?_eq_getElem hpc
  have htake : p.take (pc + 1) = p.take pc ++ [p[pc]] := List.take_succ_eq_append_getElem hpc
  have hjp : j < τ.pcs.length := by rw [I.pcsLen]; exact hj
  have hjg : j < τ.got.length := by rw [I.gotLen]; exact hj
  unfold tapeStep
  cases hbb : p[pc] with
  | false =>
    rw [hbb] at hb htake
    simp only [hp, hown1, hown2, hb]
    refine ⟨by simpa using I.pcsLen, I.gotLen, ?_, ?_, ?_, ?_⟩
    · rw [hpdef, htake, List.count_append]; simpa using hc
    · intro i hi hn
      have hne : j ≠ i := by omega
      simpa [List.getElem?_set_ne hne] using I.before i hi hn
    · intro _
      refine ⟨by simp [List.getElem?_set_self hjp], ?_⟩
      rw [hpdef, htake, List.count_append]; simpa using hown2
    · intro i hi hn
      have hne : j ≠ i := by omega
      simpa [List.getElem?_set_ne hne] using I.after i hi hn
  | true =>
    rw [hbb] at hb htake
    simp only [hp, hown1, hown2, hb]
    refine ⟨by simpa using I.pcsLen, by simpa using I.gotLen, ?_, ?_, ?_, ?_⟩
    · rw [hpdef, htake, List.count_append]
      simp [hc]; omega
    · intro i hi hn
      have hne : j ≠ i := by omega
      simpa [List.getElem?_set_ne hne] using I.before i hi hn
    · intro _
      refine ⟨by simp [List.getElem?_set_self hjp], ?_⟩
      rw [hpdef, htake, List.count_append]
      simp [List.getElem?_set_self hjg, List.range'_concat, hc]
    · intro i hi hn
      have hne : j ≠ i := by omega
      simpa [List.getElem?_set_ne hne] using I.after i hi hn

theorem seqAt_block (progs : List (List Bool)) (j : Nat) (hj : j < progs.length) :
    ∀ (k pc : Nat) (τ : Tape), pc + k = (progs.getD j []).length → SeqAt progs j pc τ →
      SeqAt progs j (progs.getD j []).length ((List.replicate k j).foldl (tapeStep progs) τ) := by
  intro k
  induction k with
  | zero => intro pc τ h I; simp at h; subst h; simpa using I
  | succ k ih =>
    intro pc τ h I
    rw [List.replicate_succ, List.foldl_cons]
    exact ih (pc + 1) _ (by omega) (seqAt_step progs j pc τ hj (by omega) I)

theorem seqAt_next (progs : List (List Bool)) (j : Nat) (τ : Tape) (hj : j < progs.length)
    (I : SeqAt progs j (progs.getD j []).length τ) : SeqAt progs (j + 1) 0 τ := by
  refine ⟨I.pcsLen, I.gotLen, ?_, ?_, ?_, ?_⟩
  · rw [offset_succ progs j hj]
    have := I.cur
    simp only [List.take_length] at this
    simpa [draws] using this
  · intro i hi hn
    by_cases h : i = j
    · subst h
      have := I.own hj
      simpa [List.take_length, draws] using this
    · exact I.before i (by omega) hn
  · intro h
    simpa using I.after (j + 1) (by omega) h
  · intro i hi hn
    exact I.after i (by omega) hn

theorem seqAt_prefix (progs : List (List Bool)) :
    ∀ m : Nat, m ≤ progs.length →
      SeqAt progs m 0 (((List.range m).flatMap fun j => List.replicate (progs.getD j []).length j).foldl
        (tapeStep progs) (tapeInit progs)) := by
  intro m
  induction m with
  | zero => intro _; simpa using seqAt_init progs
  | succ m ih =>
    intro hm
    have hj : m < progs.length := by omega
    rw [List.range_succ, List.flatMap_append, List.foldl_append]
    simp only [List.flatMap_cons, List.flatMap_nil, List.append_nil]
    exact seqAt_next progs m _ hj (seqAt_block progs m hj _ 0 _ (by simp) (ih (by omega)))

theorem tapeSeq_closed (progs : List (List Bool)) :
    (tapeRun progs (tapeSeq progs)).got =
      (List.range progs.length).map fun j => List.range' (offset progs j) (draws (progs.getD j [])) := by
  have I := seqAt_prefix progs progs.length (Nat.le_refl _)
  unfold tapeRun tapeSeq
  apply List.ext_getElem?
  intro i
  by_cases hi : i < progs.length
  · rw [(I.before i hi hi).2]
    simp [hi]
  · have h1 : progs.length ≤ i := by omega
    rw [List.getElem?_eq_none (by rw [I.gotLen]; exact h1), List.getElem?_eq_none (by simpa using h1)]

theorem tapeSeq_cursor (progs : List (List Bool)) :
    (tapeRun progs (tapeSeq progs)).cursor = offset progs progs.length := by
  have I := seqAt_prefix progs progs.length (Nat.le_refl _)
  have := I.cur
  unfold tapeRun tapeSeq
  simpa using this

end QV.Par

namespace QV.Par

theorem tapeStep_lengths (progs : List (List Bool)) (τ : Tape) (j : Nat) :
    (tapeStep progs τ j).pcs.length = τ.pcs.length ∧ (tapeStep progs τ j).got.length = τ.got.length := by
  unfold tapeStep
  cases progs[j]? with
  | none => exact ⟨rfl, rfl⟩
  | some p =>
    cases τ.pcs[j]? with
    | none => exact ⟨rfl, rfl⟩
    | some pc =>
      cases τ.got[j]? with
      | none => exact ⟨rfl, rfl⟩
      | some g =>
        cases hb : p[pc]? with
        | none => simp [hb]
        | some b => cases b <;> simp [hb]

theorem tapeFold_lengths (progs : List (List Bool)) :
    ∀ (sched : List Nat) (τ : Tape),
      (sched.foldl (tapeStep progs) τ).pcs.length = τ.pcs.length ∧
      (sched.foldl (tapeStep progs) τ).got.length = τ.got.length := by
  intro sched
  induction sched with
  | nil => intro τ; exact ⟨rfl, rfl⟩
  | cons j sched ih =>
    intro τ
    rw [List.foldl_cons]
    exact ⟨(ih _).1.trans (tapeStep_lengths progs τ j).1, (ih _).2.trans (tapeStep_lengths progs τ j).2⟩

theorem tapeRun_lengths (progs : List (List Bool)) (sched : List Nat) :
    (tapeRun progs sched).pcs.length = progs.length ∧ (tapeRun progs sched).got.length = progs.length := by
  have h := tapeFold_lengths progs sched (tapeInit progs)
  unfold tapeRun
  simpa [tapeInit] using h

/-- every job has executed all its steps -/
def Finished (progs : List (List Bool)) (τ : Tape) : Prop :=
  ∀ j : Nat, j < progs.length → τ.pcs[j]? = some (progs.getD j []).length

/-- after ANY schedule that lets every job finish, the generator has advanced by the total number
of drawing steps and every job holds as many answers as it has drawing steps. -/
theorem tapeRun_finished (progs : List (List Bool)) (sched : List Nat)
    (hf : Finished progs (tapeRun progs sched)) :
    (tapeRun progs sched).got.map List.length = progs.map draws ∧
    (tapeRun progs sched).cursor = (progs.map draws).sum := by
  have I := tapeRun_inv progs sched
  have hl := tapeRun_lengths progs sched
  have h1 : (tapeRun progs sched).got.map List.length = progs.map draws := by
    apply List.ext_getElem?
    intro i
    by_cases hi : i < progs.length
    · have hig : i < (tapeRun progs sched).got.length := by rw [hl.2]; exact hi
      have hp : progs[i]? = some (progs.getD i []) := by
        simp [List.getD_eq_getElem?_getD, List.getElem?_eq_getElem hi]
      have hg : (tapeRun progs sched).got[i]? = some (tapeRun progs sched).got[i] :=
        List.getElem?_eq_getElem hig
      have hc := I.count i _ _ _ hp (hf i hi) hg
      rw [List.take_length] at hc
      rw [List.getElem?_map, List.getElem?_map, hg, hp]
      simp [hc, draws]
    · have h1 : progs.length ≤ i := by omega
      rw [List.getElem?_eq_none (by simpa [hl.2] using h1), List.getElem?_eq_none (by simpa using h1)]
  refine ⟨h1, ?_⟩
  have hperm := I.perm.length_eq
  rw [List.length_range, List.length_flatten, h1] at hperm
  exact hperm.symm

theorem tapeSeq_finished (progs : List (List Bool)) : Finished progs (tapeRun progs (tapeSeq progs)) := by
  intro j hj
  have I := seqAt_prefix progs progs.length (Nat.le_refl _)
  unfold tapeRun tapeSeq
  exact (I.before j hj hj).1

end QV.Par
