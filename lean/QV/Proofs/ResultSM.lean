/-
  QV.Proofs.ResultSM — lemmas about the result state machine QV/Model/ResultSM.lean:
  frame properties of the accessors, the invariant "an executed result always has a source of
  its own", locality of the repaired accessors, and the simulation between a history and the
  sub-history of one result run alone.  Unbounded in the history length.
-/
import QV.Model.ResultSM

namespace QV.RSM

/-! ### accessors as functions of (caches, result) -/

/-- the accessor an operation performs on the addressed result. -/
def accOf (c : Cfg) : Op → List GCache → Res → List GCache × Res × Obs
  | .samples _ reg d p => fun cs r => accSamples c cs r reg d p
  | .freqs _ reg d => fun cs r => accFreqs c cs r reg d
  | .probs _ => fun cs r => accProbs c cs r
  | .state _ => fun cs r => (cs, r, accState c r)
  | .exec .. => fun cs r => (cs, r, Out.invalid, 0)

theorem step_acc (c : Cfg) (σ : St) (op : Op) (i : Nat) (h : op.target = some i) :
    step c σ op = onResult σ i (accOf c op) := by
  cases op <;> simp [Op.target] at h <;> subst h <;> rfl

theorem accOf_retarget (c : Cfg) (op : Op) : accOf c op.retarget = accOf c op := by
  cases op <;> rfl

theorem target_retarget (op : Op) (i : Nat) (h : op.target = some i) :
    op.retarget.target = some 0 := by
  cases op <;> simp [Op.target] at h <;> rfl

theorem isExec_of_target (op : Op) (i : Nat) (h : op.target = some i) : op.isExec = false := by
  cases op <;> simp [Op.target] at h <;> rfl

theorem target_of_not_exec (op : Op) (h : op.isExec = false) : ∃ i, op.target = some i := by
  cases op <;> simp [Op.isExec] at h <;> exact ⟨_, rfl⟩

/-! ### frame: an accessor never changes whose state a result holds -/

theorem ensureSamples_inp (c : Cfg) (cs : List GCache) (r : Res) (d p : List Nat) :
    (ensureSamples c cs r d p).2.1.inp = r.inp ∧ (ensureSamples c cs r d p).2.1.nshots = r.nshots ∧
    (ensureSamples c cs r d p).2.1.probs = r.probs ∧ (ensureSamples c cs r d p).2.1.freq = r.freq ∧
    (ensureSamples c cs r d p).2.1.repFreq = r.repFreq := by
  unfold ensureSamples
  split
  · simp
  · split
    · simp
    · split <;> simp

theorem accSamples_inp (c : Cfg) (cs : List GCache) (r : Res) (reg : Bool) (d p : List Nat) :
    (accSamples c cs r reg d p).2.1.inp = r.inp := by
  simp [accSamples, (ensureSamples_inp c cs r d p).1]

theorem ensureFreq_inp (c : Cfg) (cs : List GCache) (r : Res) (d : List Nat) :
    (ensureFreq c cs r d).2.1.inp = r.inp := by
  unfold ensureFreq
  split
  · rfl
  · split
    · simp [(ensureSamples_inp c cs r [] []).1]
    · rfl

theorem accFreqs_inp (c : Cfg) (cs : List GCache) (r : Res) (reg : Bool) (d : List Nat) :
    (accFreqs c cs r reg d).2.1.inp = r.inp := by
  unfold accFreqs
  split
  · rfl
  · split
    · split <;> simp [ensureFreq_inp]
    · simp [ensureFreq_inp]

theorem accProbs_inp (c : Cfg) (cs : List GCache) (r : Res) :
    (accProbs c cs r).2.1.inp = r.inp := by
  unfold accProbs
  split
  · split
    · rfl
    · simp [accFreqs_inp]
  · rfl

theorem accOf_inp (c : Cfg) (op : Op) (cs : List GCache) (r : Res) :
    (accOf c op cs r).2.1.inp = r.inp := by
  cases op <;> simp [accOf, accSamples_inp, accFreqs_inp, accProbs_inp]

/-! ### an executed result always has a source of its own -/

theorem fromGates_of_samples (r : Res) (h : r.samples.isSome = true) : fromGates r = false := by
  cases hs : r.samples with
  | none => simp [hs] at h
  | some t => simp [fromGates, hs]

theorem ensureSamples_isSome (c : Cfg) (cs : List GCache) (r : Res) (d p : List Nat) :
    (ensureSamples c cs r d p).2.1.samples.isSome = true := by
  unfold ensureSamples
  split
  · next h => simp [h]
  · split
    · simp
    · split <;> simp

theorem accSamples_owns (c : Cfg) (cs : List GCache) (r : Res) (reg : Bool) (d p : List Nat) :
    fromGates (accSamples c cs r reg d p).2.1 = false :=
  fromGates_of_samples _ (by simp [accSamples, ensureSamples_isSome])

theorem ensureFreq_owns (c : Cfg) (cs : List GCache) (r : Res) (d : List Nat)
    (hr : fromGates r = false) : fromGates (ensureFreq c cs r d).2.1 = false := by
  unfold ensureFreq
  split
  · exact hr
  · split <;> simp [fromGates]

theorem accFreqs_owns (c : Cfg) (cs : List GCache) (r : Res) (reg : Bool) (d : List Nat)
    (hr : fromGates r = false) : fromGates (accFreqs c cs r reg d).2.1 = false := by
  unfold accFreqs
  split
  · exact hr
  · split
    · split <;> exact ensureFreq_owns c cs r d hr
    · exact ensureFreq_owns c cs r d hr

theorem accProbs_owns (c : Cfg) (cs : List GCache) (r : Res)
    (hr : fromGates r = false) : fromGates (accProbs c cs r).2.1 = false := by
  unfold accProbs
  split
  · split
    · exact hr
    · simp [fromGates, Probs.isNone]
  · exact hr

theorem accOf_owns (c : Cfg) (op : Op) (cs : List GCache) (r : Res)
    (hr : fromGates r = false) : fromGates (accOf c op cs r).2.1 = false := by
  cases op
  · exact hr
  · exact accSamples_owns ..
  · exact accFreqs_owns _ _ _ _ _ hr
  · exact accProbs_owns _ _ _ hr
  · exact hr

/-! ### locality of the repaired accessors: the shared caches are never read -/

theorem ensureSamples_local (c : Cfg) (hc : c.legacy = false) (cs1 cs2 : List GCache) (r : Res)
    (d p : List Nat) (hr : fromGates r = false) :
    (ensureSamples c cs1 r d p).2 = (ensureSamples c cs2 r d p).2 := by
  unfold ensureSamples
  split
  · rfl
  · simp only [readsGates, hc, hr]
    cases r.freq <;> simp

theorem accSamples_local (c : Cfg) (hc : c.legacy = false) (cs1 cs2 : List GCache) (r : Res)
    (reg : Bool) (d p : List Nat) (hr : fromGates r = false) :
    (accSamples c cs1 r reg d p).2 = (accSamples c cs2 r reg d p).2 := by
  simp [accSamples, hc, ensureSamples_local c hc cs1 cs2 r d p hr]

theorem hasSamples_local (c : Cfg) (hc : c.legacy = false) (cs1 cs2 : List GCache) (r : Res)
    (hr : fromGates r = false) : hasSamples c cs1 r = hasSamples c cs2 r := by
  simp [hasSamples, hc, hr]

theorem ensureFreq_local (c : Cfg) (hc : c.legacy = false) (cs1 cs2 : List GCache) (r : Res)
    (d : List Nat) (hr : fromGates r = false) :
    (ensureFreq c cs1 r d).2 = (ensureFreq c cs2 r d).2 := by
  unfold ensureFreq
  split
  · rfl
  · rw [hasSamples_local c hc cs1 cs2 r hr]
    split
    · simp [ensureSamples_local c hc cs1 cs2 r [] [] hr]
    · rfl

theorem accFreqs_local (c : Cfg) (hc : c.legacy = false) (cs1 cs2 : List GCache) (r : Res)
    (reg : Bool) (d : List Nat) (hr : fromGates r = false) :
    (accFreqs c cs1 r reg d).2 = (accFreqs c cs2 r reg d).2 := by
  unfold accFreqs
  split
  · rfl
  · simp only [hc, ensureFreq_local c hc cs1 cs2 r d hr]
    split <;> rfl

theorem accProbs_local (c : Cfg) (hc : c.legacy = false) (cs1 cs2 : List GCache) (r : Res)
    (hr : fromGates r = false) : (accProbs c cs1 r).2 = (accProbs c cs2 r).2 := by
  unfold accProbs
  split
  · split
    · rfl
    · simp [accFreqs_local c hc cs1 cs2 r false [] hr]
  · rfl

theorem accOf_local (c : Cfg) (hc : c.legacy = false) (op : Op) (cs1 cs2 : List GCache) (r : Res)
    (hr : fromGates r = false) : (accOf c op cs1 r).2 = (accOf c op cs2 r).2 := by
  cases op
  · rfl
  · exact accSamples_local c hc cs1 cs2 r _ _ _ hr
  · exact accFreqs_local c hc cs1 cs2 r _ _ hr
  · exact accProbs_local c hc cs1 cs2 r hr
  · rfl

/-! ### one step of the machine -/

theorem onResult_none (σ : St) (i : Nat) (f : List GCache → Res → List GCache × Res × Obs)
    (h : σ.results[i]? = none) : onResult σ i f = (σ, Out.invalid, 0) := by
  simp [onResult, h]

theorem onResult_some (σ : St) (i : Nat) (f : List GCache → Res → List GCache × Res × Obs)
    (r : Res) (h : σ.results[i]? = some r) :
    onResult σ i f = ({ σ with caches := (f σ.caches r).1,
                               results := σ.results.set i (f σ.caches r).2.1 }, (f σ.caches r).2.2) := by
  simp [onResult, h]

/-- the result object an execution creates and the random answers it consumes (repaired code:
independent of everything the circuit object did before). -/
def newRes (c : Cfg) (inp nshots : Nat) (draws : List Nat) : Res × Nat :=
  match c.kind with
  | .plain => ({ inp := inp, nshots := nshots, probs := .ofState inp }, 0)
  | kind =>
    ({ inp := inp, nshots := nshots, probs := .none,
       samples := some (shotRows c.pre nshots draws),
       repFreq := if kind = .repSV then some (histOf (2 ^ c.k) (shotRows c.pre nshots draws))
                  else none }, nshots * (c.pre + 1))

theorem repRows_repaired (c : Cfg) (hc : c.legacy = false) (cs : List GCache) (n : Nat)
    (ds : List Nat) : repRows c cs n ds = (shotRows c.pre n ds, n * (c.pre + 1)) := by
  cases n <;> simp [repRows, staleFirst, hc]

theorem stepExec_repaired (c : Cfg) (hc : c.legacy = false) (σ : St) (inp n : Nat)
    (ds : List Nat) :
    (stepExec c σ inp n ds).1.results = σ.results ++ [(newRes c inp n ds).1] ∧
    (stepExec c σ inp n ds).2 = (Out.created, (newRes c inp n ds).2) := by
  cases hk : c.kind <;> simp [stepExec, newRes, hk, hc, repRows_repaired c hc]

theorem newRes_owns (c : Cfg) (inp n : Nat) (ds : List Nat) :
    fromGates (newRes c inp n ds).1 = false := by
  cases hk : c.kind <;> simp [newRes, hk, fromGates, Probs.isNone]

theorem newRes_inp (c : Cfg) (inp n : Nat) (ds : List Nat) : (newRes c inp n ds).1.inp = inp := by
  cases hk : c.kind <;> simp [newRes, hk]

/-! ### simulation between a history and the sub-history of result `j` run alone -/

/-- `σ` = state of the full history after `created` executions, `σ'` = state of the fresh
circuit object on which only result `j`'s operations are replayed. -/
structure Match (j created : Nat) (σ σ' : St) : Prop where
  len : σ.results.length = created
  inv : ∀ r ∈ σ.results, fromGates r = false
  before : created ≤ j → σ'.results = []
  after : j < created → ∃ r, σ'.results = [r] ∧ σ.results[j]? = some r

theorem match_init (c : Cfg) (j : Nat) : Match j 0 (St.init c) (St.init c) :=
  ⟨rfl, by simp [St.init], fun _ => rfl, fun h => absurd h (Nat.not_lt_zero j)⟩

theorem match_acc_other (c : Cfg) (j created : Nat) (σ σ' : St) (op : Op) (i : Nat)
    (ht : op.target = some i) (hij : i ≠ j) (m : Match j created σ σ') :
    Match j created (step c σ op).1 σ' := by
  rw [step_acc c σ op i ht]
  cases hr : σ.results[i]? with
  | none => rw [onResult_none σ i _ hr]; exact m
  | some r =>
    rw [onResult_some σ i _ r hr]
    refine ⟨?_, ?_, m.before, ?_⟩
    · simpa using m.len
    · intro x hx
      rcases List.mem_or_eq_of_mem_set hx with h | h
      · exact m.inv x h
      · subst h
        exact accOf_owns c op σ.caches r (m.inv r (List.mem_of_getElem? hr))
    · intro hj
      obtain ⟨r0, h1, h2⟩ := m.after hj
      exact ⟨r0, h1, by simpa [List.getElem?_set_ne hij] using h2⟩

theorem match_acc_same (c : Cfg) (hc : c.legacy = false) (j created : Nat) (σ σ' : St) (op : Op)
    (ht : op.target = some j) (m : Match j created σ σ') :
    Match j created (step c σ op).1 (step c σ' op.retarget).1 ∧
    (step c σ op).2 = (step c σ' op.retarget).2 := by
  rw [step_acc c σ op j ht, step_acc c σ' op.retarget 0 (target_retarget op j ht), accOf_retarget]
  by_cases hj : j < created
  · obtain ⟨r, h1, h2⟩ := m.after hj
    have h0 : σ'.results[0]? = some r := by simp [h1]
    have hown : fromGates r = false := m.inv r (List.mem_of_getElem? h2)
    have hloc := accOf_local c hc op σ.caches σ'.caches r hown
    rw [onResult_some σ j _ r h2, onResult_some σ' 0 _ r h0]
    refine ⟨⟨?_, ?_, ?_, ?_⟩, ?_⟩
    · simpa using m.len
    · intro x hx
      rcases List.mem_or_eq_of_mem_set hx with h | h
      · exact m.inv x h
      · subst h
        exact accOf_owns c op σ.caches r hown
    · intro hle; exact absurd hj (Nat.not_lt.mpr hle)
    · intro _
      refine ⟨(accOf c op σ.caches r).2.1, ?_, ?_⟩
      · simp [h1, hloc]
      · have : j < σ.results.length := by rw [m.len]; exact hj
        simp [List.getElem?_set_self this]
    · simp [hloc]
  · have hle : created ≤ j := Nat.le_of_not_lt hj
    have h1 : σ.results[j]? = none := by
      apply List.getElem?_eq_none; rw [m.len]; exact hle
    have h2 : σ'.results[0]? = none := by simp [m.before hle]
    rw [onResult_none σ j _ h1, onResult_none σ' 0 _ h2]
    exact ⟨m, rfl⟩

theorem match_exec_other (c : Cfg) (hc : c.legacy = false) (j created : Nat) (σ σ' : St)
    (inp n : Nat) (ds : List Nat) (hne : created ≠ j) (m : Match j created σ σ') :
    Match j (created + 1) (stepExec c σ inp n ds).1 σ' := by
  obtain ⟨hres, _⟩ := stepExec_repaired c hc σ inp n ds
  refine ⟨?_, ?_, ?_, ?_⟩
  · simp [hres, m.len]
  · intro x hx
    rw [hres] at hx
    rcases List.mem_append.mp hx with h | h
    · exact m.inv x h
    · simp at h; subst h; exact newRes_owns ..
  · intro hle; exact m.before (by omega)
  · intro hj
    have hj' : j < created := by omega
    obtain ⟨r0, h1, h2⟩ := m.after hj'
    refine ⟨r0, h1, ?_⟩
    rw [hres, List.getElem?_append_left (by rw [m.len]; exact hj')]
    exact h2

theorem match_exec_same (c : Cfg) (hc : c.legacy = false) (j : Nat) (σ σ' : St)
    (inp n : Nat) (ds : List Nat) (m : Match j j σ σ') :
    Match j (j + 1) (stepExec c σ inp n ds).1 (stepExec c σ' inp n ds).1 ∧
    (stepExec c σ inp n ds).2 = (stepExec c σ' inp n ds).2 := by
  obtain ⟨hres, hobs⟩ := stepExec_repaired c hc σ inp n ds
  obtain ⟨hres', hobs'⟩ := stepExec_repaired c hc σ' inp n ds
  refine ⟨⟨?_, ?_, ?_, ?_⟩, by rw [hobs, hobs']⟩
  · simp [hres, m.len]
  · intro x hx
    rw [hres] at hx
    rcases List.mem_append.mp hx with h | h
    · exact m.inv x h
    · simp at h; subst h; exact newRes_owns ..
  · intro hle; omega
  · intro _
    refine ⟨(newRes c inp n ds).1, ?_, ?_⟩
    · rw [hres', m.before (Nat.le_refl j)]; rfl
    · rw [hres]
      have : σ.results.length = j := m.len
      simp [this]

/-- the observables a history shows on result `j` are those of `j`'s own sub-history on a
fresh circuit object (repaired accessor logic). -/
theorem obsOn_eq_alone (c : Cfg) (hc : c.legacy = false) (j : Nat) :
    ∀ (h : List Op) (created : Nat) (σ σ' : St), Match j created σ σ' →
      obsOnFrom c j created σ h = runFrom c σ' (aloneFrom j created h) := by
  intro h
  induction h with
  | nil => intros; rfl
  | cons op ops ih =>
    intro created σ σ' m
    cases hop : op.isExec with
    | true =>
      obtain ⟨inp, n, ds, rfl⟩ : ∃ inp n ds, op = .exec inp n ds := by
        cases op <;> simp [Op.isExec] at hop
        exact ⟨_, _, _, rfl⟩
      by_cases hc' : created = j
      · subst hc'
        obtain ⟨m', ho⟩ := match_exec_same c hc created σ σ' inp n ds m
        simp only [obsOnFrom, aloneFrom, Op.isExec, if_true, runFrom, step]
        rw [ih _ _ _ m', ho]
      · have m' := match_exec_other c hc j created σ σ' inp n ds hc' m
        simp only [obsOnFrom, aloneFrom, Op.isExec, if_true, hc', if_false, step]
        exact ih _ _ _ m'
    | false =>
      obtain ⟨i, ht⟩ := target_of_not_exec op hop
      by_cases hij : i = j
      · subst hij
        obtain ⟨m', ho⟩ := match_acc_same c hc i created σ σ' op ht m
        simp only [obsOnFrom, aloneFrom, hop, ht, if_true, runFrom, Bool.false_eq_true, if_false]
        rw [ih _ _ _ m', ho]
      · have m' := match_acc_other c j created σ σ' op i ht hij m
        have hne : ¬ (op.target = some j) := by rw [ht]; simpa using hij
        simp only [obsOnFrom, aloneFrom, hop, hne, if_false, Bool.false_eq_true]
        exact ih _ _ _ m'

/-! ### whose state a result holds (all modes, legacy included) -/

/-- inputs of the executions of a history, in order. -/
def inputs : List Op → List Nat
  | [] => []
  | .exec inp _ _ :: ops => inp :: inputs ops
  | _ :: ops => inputs ops

theorem map_set_same {α β : Type} (f : α → β) :
    ∀ (l : List α) (i : Nat) (a r : α), l[i]? = some r → f a = f r → (l.set i a).map f = l.map f
  | [], _, _, _, h, _ => by simp at h
  | x :: xs, 0, a, r, h, hf => by simp at h; subst h; simp [hf]
  | x :: xs, i + 1, a, r, h, hf => by
    simp at h
    simp [map_set_same f xs i a r h hf]

theorem stepExec_inps (c : Cfg) (σ : St) (inp n : Nat) (ds : List Nat) :
    (stepExec c σ inp n ds).1.results.map (·.inp) = σ.results.map (·.inp) ++ [inp] ∧
    ((∀ r ∈ σ.results, fromGates r = false) →
      ∀ r ∈ (stepExec c σ inp n ds).1.results, fromGates r = false) := by
  cases hk : c.kind <;> simp [stepExec, hk, fromGates, Probs.isNone] <;>
    (intro hinv r hr; rcases hr with hr | hr
     · exact hinv r hr
     · subst hr; simp)

theorem step_inps (c : Cfg) (σ : St) (op : Op) :
    (step c σ op).1.results.map (·.inp) = σ.results.map (·.inp) ++ inputs [op] := by
  cases hop : op.isExec with
  | true =>
    obtain ⟨inp, n, ds, rfl⟩ : ∃ inp n ds, op = .exec inp n ds := by
      cases op <;> simp [Op.isExec] at hop
      exact ⟨_, _, _, rfl⟩
    simpa [step, inputs] using (stepExec_inps c σ inp n ds).1
  | false =>
    obtain ⟨i, ht⟩ := target_of_not_exec op hop
    have hin : inputs [op] = [] := by cases op <;> simp [Op.isExec] at hop <;> rfl
    rw [step_acc c σ op i ht, hin, List.append_nil]
    cases hr : σ.results[i]? with
    | none => rw [onResult_none σ i _ hr]
    | some r =>
      rw [onResult_some σ i _ r hr]
      exact map_set_same (·.inp) σ.results i _ r hr (accOf_inp c op σ.caches r)

theorem inputs_cons (op : Op) (ops : List Op) : inputs (op :: ops) = inputs [op] ++ inputs ops := by
  cases op <;> simp [inputs]

theorem stateAfter_inps (c : Cfg) : ∀ (h : List Op) (σ : St),
    (stateAfter c σ h).results.map (·.inp) = σ.results.map (·.inp) ++ inputs h
  | [], σ => by simp [stateAfter, inputs]
  | op :: ops, σ => by
    rw [stateAfter, stateAfter_inps c ops, step_inps, List.append_assoc, ← inputs_cons]

theorem step_owns (c : Cfg) (σ : St) (op : Op) (hinv : ∀ r ∈ σ.results, fromGates r = false) :
    ∀ r ∈ (step c σ op).1.results, fromGates r = false := by
  cases hop : op.isExec with
  | true =>
    obtain ⟨inp, n, ds, rfl⟩ : ∃ inp n ds, op = .exec inp n ds := by
      cases op <;> simp [Op.isExec] at hop
      exact ⟨_, _, _, rfl⟩
    exact (stepExec_inps c σ inp n ds).2 hinv
  | false =>
    obtain ⟨i, ht⟩ := target_of_not_exec op hop
    rw [step_acc c σ op i ht]
    cases hr : σ.results[i]? with
    | none => rw [onResult_none σ i _ hr]; exact hinv
    | some r =>
      rw [onResult_some σ i _ r hr]
      intro x hx
      rcases List.mem_or_eq_of_mem_set hx with h | h
      · exact hinv x h
      · subst h
        exact accOf_owns c op σ.caches r (hinv r (List.mem_of_getElem? hr))

theorem stateAfter_owns (c : Cfg) : ∀ (h : List Op) (σ : St),
    (∀ r ∈ σ.results, fromGates r = false) →
    ∀ r ∈ (stateAfter c σ h).results, fromGates r = false
  | [], _, hinv => hinv
  | op :: ops, σ, hinv => stateAfter_owns c ops _ (step_owns c σ op hinv)

/-! ### once drawn, the samples of a result never change (all modes) -/

theorem ensureSamples_stable (c : Cfg) (cs : List GCache) (r : Res) (d p t : List Nat)
    (h : r.samples = some t) : ensureSamples c cs r d p = (cs, r, 0) := by
  simp [ensureSamples, h]

theorem ensureFreq_stable (c : Cfg) (cs : List GCache) (r : Res) (d t : List Nat)
    (h : r.samples = some t) : (ensureFreq c cs r d).2.1.samples = some t := by
  unfold ensureFreq
  split
  · exact h
  · split
    · simp [ensureSamples_stable c cs r [] [] t h, h]
    · exact h

theorem accFreqs_stable (c : Cfg) (cs : List GCache) (r : Res) (reg : Bool) (d t : List Nat)
    (h : r.samples = some t) : (accFreqs c cs r reg d).2.1.samples = some t := by
  unfold accFreqs
  split
  · exact h
  · split
    · split <;> exact ensureFreq_stable c cs r d t h
    · exact ensureFreq_stable c cs r d t h

theorem accProbs_stable (c : Cfg) (cs : List GCache) (r : Res) (t : List Nat)
    (h : r.samples = some t) : (accProbs c cs r).2.1.samples = some t := by
  unfold accProbs
  split
  · split
    · exact h
    · simp [accFreqs_stable c cs r false [] t h]
  · exact h

theorem accOf_stable (c : Cfg) (op : Op) (cs : List GCache) (r : Res) (t : List Nat)
    (h : r.samples = some t) : (accOf c op cs r).2.1.samples = some t := by
  cases op
  · exact h
  · simp [accOf, accSamples, ensureSamples_stable c cs r _ _ t h, h]
  · exact accFreqs_stable c cs r _ _ t h
  · exact accProbs_stable c cs r t h
  · exact h

theorem step_stable (c : Cfg) (σ : St) (op : Op) (j : Nat) (r : Res) (t : List Nat)
    (hr : σ.results[j]? = some r) (ht : r.samples = some t) :
    ∃ r', (step c σ op).1.results[j]? = some r' ∧ r'.samples = some t := by
  have hjl : j < σ.results.length := by
    rcases Nat.lt_or_ge j σ.results.length with h | h
    · exact h
    · rw [List.getElem?_eq_none h] at hr; cases hr
  cases hop : op.isExec with
  | true =>
    obtain ⟨inp, n, ds, rfl⟩ : ∃ inp n ds, op = .exec inp n ds := by
      cases op <;> simp [Op.isExec] at hop
      exact ⟨_, _, _, rfl⟩
    refine ⟨r, ?_, ht⟩
    show (stepExec c σ inp n ds).1.results[j]? = some r
    cases hk : c.kind <;> simp [stepExec, hk, List.getElem?_append_left hjl, hr]
  | false =>
    obtain ⟨i, hti⟩ := target_of_not_exec op hop
    rw [step_acc c σ op i hti]
    cases hri : σ.results[i]? with
    | none => rw [onResult_none σ i _ hri]; exact ⟨r, hr, ht⟩
    | some ri =>
      rw [onResult_some σ i _ ri hri]
      by_cases hij : i = j
      · subst hij
        rw [hr] at hri; cases hri
        exact ⟨_, by simp [List.getElem?_set_self hjl], accOf_stable c op σ.caches r t ht⟩
      · exact ⟨r, by simpa [List.getElem?_set_ne hij] using hr, ht⟩

theorem stateAfter_stable (c : Cfg) : ∀ (h : List Op) (σ : St) (j : Nat) (r : Res) (t : List Nat),
    σ.results[j]? = some r → r.samples = some t →
    ∃ r', (stateAfter c σ h).results[j]? = some r' ∧ r'.samples = some t
  | [], _, _, r, _, hr, ht => ⟨r, hr, ht⟩
  | op :: ops, σ, j, r, t, hr, ht => by
    obtain ⟨r', h1, h2⟩ := step_stable c σ op j r t hr ht
    exact stateAfter_stable c ops _ j r' t h1 h2

end QV.RSM
