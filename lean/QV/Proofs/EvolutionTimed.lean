/-
  QV.Proofs.EvolutionTimed — solvers with a clock (time-dependent Hamiltonians), property C16:
  what `StateEvolution.execute` returns is the ORDERED product of the step operators read at the
  times `t0, t0 + dt, …, t0 + (k-1) dt`, applied to the initial state.
-/
import Mathlib.Analysis.CStarAlgebra.Matrix
import QV.Proofs.EvolutionRK

namespace QV
namespace Evo

open NormedSpace

section loop
variable {T V : Type}

theorem timedStep_iterate (adv : T → T) (U : T → V → V) (n : ℕ) (t : T) (v : V) :
    (timedStep adv U)^[n] (t, v) = (adv^[n] t, timedIter adv U n t v) := by
  induction n generalizing t v with
  | zero => rfl
  | succ n ih =>
    rw [Function.iterate_succ_apply, Function.iterate_succ_apply]
    exact ih (adv t) (U t v)

theorem timedNorm_comp_step (adv : T → T) (U : T → V → V) (N : V → V) :
    (fun p => timedNorm N (timedStep adv U p)) = timedStep adv (fun t v => N (U t v)) := rfl

/-- the loop of `execute` for a solver with a clock, without callbacks … -/
theorem execute_timed_nocb (adv : T → T) (U : T → V → V) (N : V → V) (n : ℕ) (t0 : T) (ψ : V) :
    (execute (timedStep adv U) (timedNorm N) false n (t0, ψ)).1
      = (adv^[n] t0, N (timedIter adv U n t0 ψ)) := by
  show (evolveLoop _ _ false n (t0, ψ) [(t0, ψ)]).1 = _
  rw [evolveLoop_fst_nocb, timedStep_iterate]
  rfl

/-- … and with callbacks (the state is normalised after every step). -/
theorem execute_timed_cb (adv : T → T) (U : T → V → V) (N : V → V) (n : ℕ) (t0 : T) (ψ : V) :
    (execute (timedStep adv U) (timedNorm N) true n (t0, ψ)).1
      = (adv^[n] t0, N (timedIter adv (fun t v => N (U t v)) n t0 ψ)) := by
  show (evolveLoop _ _ true n (t0, ψ) [(t0, ψ)]).1 = _
  rw [evolveLoop_fst_cb, timedNorm_comp_step, timedStep_iterate]
  rfl

/-- solvers that do not normalise ('exp', Trotter): callbacks are irrelevant. -/
theorem execute_timed_id (adv : T → T) (U : T → V → V) (cb : Bool) (n : ℕ) (t0 : T) (ψ : V) :
    (execute (timedStep adv U) (timedNorm id) cb n (t0, ψ)).1
      = (adv^[n] t0, timedIter adv U n t0 ψ) := by
  cases cb
  · exact execute_timed_nocb adv U id n t0 ψ
  · exact execute_timed_cb adv U id n t0 ψ

/-- the reads of the Hamiltonian during `execute`: the stage times of the steps, in order. -/
theorem timedIter_log {W : Type} (adv : T → T) (f : T → List W) (n : ℕ) (t : T) (log : List W) :
    timedIter adv (fun t log => log ++ f t) n t log
      = log ++ ((List.range n).map fun j => f (adv^[j] t)).flatten := by
  induction n generalizing t log with
  | zero => simp [timedIter]
  | succ n ih =>
    rw [timedIter, ih, List.range_succ_eq_map, List.map_cons, List.flatten_cons, List.map_map,
      List.append_assoc]
    rfl

end loop

theorem iterate_add_const (dt t0 : ℝ) (j : ℕ) : (fun t => t + dt)^[j] t0 = t0 + j * dt := by
  induction j generalizing t0 with
  | zero => simp
  | succ j ih => rw [Function.iterate_succ_apply, ih]; push_cast; ring

/-! ### ordered products -/

section tprod
variable {M : Type*} [Monoid M]

/-- the ordered product `B (k-1) ⋯ B 1 B 0` (the latest step leftmost). -/
def tprod (B : ℕ → M) : ℕ → M
  | 0 => 1
  | k + 1 => B k * tprod B k

theorem tprod_succ_right (B : ℕ → M) (k : ℕ) :
    tprod B (k + 1) = tprod (fun j => B (j + 1)) k * B 0 := by
  induction k with
  | zero => simp [tprod]
  | succ k ih =>
    rw [tprod, ih, ← mul_assoc]
    rfl

theorem tprod_eq_list (B : ℕ → M) (k : ℕ) : tprod B k = ((List.range k).reverse.map B).prod := by
  induction k with
  | zero => simp [tprod]
  | succ k ih => rw [tprod, ih, List.range_succ]; simp

theorem tprod_const (A : M) (k : ℕ) : tprod (fun _ => A) k = A ^ k := by
  induction k with
  | zero => simp [tprod]
  | succ k ih => rw [tprod, ih, pow_succ']

end tprod

section matrix
variable {n : Type} [Fintype n] [DecidableEq n] {T : Type}

/-- for linear steps `v ↦ A(t) v` the ordered composition is the ordered matrix product. -/
theorem timedIter_mulVec (adv : T → T) (A : T → Matrix n n ℂ) (k : ℕ) (t : T) (ψ : n → ℂ) :
    timedIter adv (fun t v => (A t).mulVec v) k t ψ
      = (tprod (fun j => A (adv^[j] t)) k).mulVec ψ := by
  induction k generalizing t ψ with
  | zero => simp [timedIter, tprod]
  | succ k ih =>
    rw [timedIter, ih, Matrix.mulVec_mulVec, tprod_succ_right]
    rfl

open scoped Matrix.Norms.L2Operator

theorem mprop_eq_l2 (a : ℂ) (H : Matrix n n ℂ) : mprop a H = propagator a H := rfl

theorem mtrotter_eq_l2 (a : ℂ) (hs : List (Matrix n n ℂ)) : mtrotter a hs = trotterProd a hs :=
  rfl

theorem l2_norm_one_le : ‖(1 : Matrix n n ℂ)‖ ≤ 1 := cstar_norm_one_le

/-- **time-dependent Trotter against the frozen exponentials** (spectral norm): the ordered
product of the Trotter steps `S_j = S(dt; terms at t_j)` differs from the ordered product of
`E_j = exp(-i dt H(t_j))` by at most the sum of the local bounds. -/
theorem tprod_trotter_vs_frozen (hs : ℕ → List (Matrix n n ℂ))
    (hh : ∀ j, ∀ h ∈ hs j, h.IsHermitian) (dt : ℝ) (k : ℕ) :
    ‖tprod (fun j => mtrotter ((dt : ℂ) / 2) (hs j)) k
        - tprod (fun j => mprop (dt : ℂ) (hs j).sum) k‖
      ≤ ((List.range k).map fun j => 2 * rem3 (|dt| * ((hs j).map fun h => ‖h‖).sum)).sum := by
  rw [tprod_eq_list, tprod_eq_list]
  have e : ((dt : ℂ) / 2) = ((dt / 2 : ℝ) : ℂ) := by push_cast; rfl
  set l : List (Matrix n n ℂ × Matrix n n ℂ) :=
    (List.range k).reverse.map fun j => (mtrotter ((dt : ℂ) / 2) (hs j), mprop (dt : ℂ) (hs j).sum)
    with hl
  have h1 : (List.range k).reverse.map (fun j => mtrotter ((dt : ℂ) / 2) (hs j))
      = l.map Prod.fst := by rw [hl, List.map_map]; rfl
  have h2 : (List.range k).reverse.map (fun j => mprop (dt : ℂ) (hs j).sum)
      = l.map Prod.snd := by rw [hl, List.map_map]; rfl
  rw [h1, h2]
  have hb : ∀ p ∈ l, ‖p.1‖ ≤ 1 ∧ ‖p.2‖ ≤ 1 := by
    intro p hp
    obtain ⟨j, _, rfl⟩ := List.mem_map.mp hp
    constructor
    · show ‖mtrotter ((dt : ℂ) / 2) (hs j)‖ ≤ 1
      rw [mtrotter_eq_l2, e]
      exact norm_trotterProd_le_one _ _ (fun h hm => hh j h hm)
    · show ‖mprop (dt : ℂ) (hs j).sum‖ ≤ 1
      rw [mprop_eq_l2]
      exact norm_propagator_le_one dt (isSelfAdjoint_list_sum _ (fun h hm => hh j h hm))
  refine (norm_prod_sub_prod_le l2_norm_one_le l hb).trans ?_
  rw [hl, List.map_map, List.map_reverse, List.sum_reverse]
  apply List.sum_le_sum
  intro j _
  show ‖mtrotter ((dt : ℂ) / 2) (hs j) - mprop (dt : ℂ) (hs j).sum‖ ≤ _
  rw [mtrotter_eq_l2, mprop_eq_l2]
  have := trotterProd_error_le l2_norm_one_le (hs j) (dt : ℂ)
  rwa [Complex.norm_real, Real.norm_eq_abs] at this

end matrix

end Evo
end QV
