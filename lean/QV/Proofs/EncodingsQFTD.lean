/-
  QV.Proofs.EncodingsQFTD — the distributed QFT (`QFT(n, accelerators=…)`, `_DistributedQFT`,
  modelled by `qftDist` in QV/Model/EncodingsB.lean) prepares the same state as the plain
  `QFT(n)` with its final swaps, on every basis input.

  Invariant: after `m` steps the state is `fun y => qftState P n b m (y ∘ dσ n m)`, where `dσ n m`
  exchanges the positions `i ↔ n-1-i` for `⌈n/2⌉ ≤ i < m` (`dσ n m = id` for `m ≤ ⌈n/2⌉`,
  `dσ n n` = reversal of the register).
-/
import Mathlib.Algebra.Ring.Defs
import Mathlib.Tactic.Ring
import Mathlib.Tactic.Linarith
import Mathlib.Algebra.BigOperators.Intervals
import QV.Proofs.Encodings
import QV.Model.EncodingsB

set_option linter.unusedSimpArgs false
set_option linter.unusedVariables false

namespace QV.Enc
open QV Finset

variable {α : Type} [CommRing α]

/-! ### relabelling the positions of a label -/

/-- the label read through the position map `σ`. -/
def perm (σ : Nat → Nat) (y : Lab) : Lab := fun q => y (σ q)

theorem perm_set {σ : Nat → Nat} (hσ : ∀ q, σ (σ q) = q) (y : Lab) (q : Nat) (v : Bool) :
    perm σ (y.set q v) = (perm σ y).set (σ q) v := by
  funext r
  unfold perm Lab.set
  by_cases h : r = σ q
  · subst h; simp [hσ]
  · have : ¬ σ r = q := fun h' => h (by rw [← h', hσ])
    simp [h, this]

theorem applyGate_H_perm {σ : Nat → Nat} (hσ : ∀ q, σ (σ q) = q) (h : α) (q : Nat) (ψ : Lab → α) :
    applyGate ({ mat := matH h, targets := [q], controls := [] } : MGate α) (fun y => ψ (perm σ y))
      = fun y => applyGate ({ mat := matH h, targets := [σ q], controls := [] } : MGate α) ψ
          (perm σ y) := by
  funext y
  rw [applyGate_H, applyGate_H]
  simp only [perm_set hσ]
  have : perm σ y (σ q) = y q := by unfold perm; rw [hσ]
  rw [this]

theorem applyGate_CU1_perm {σ : Nat → Nat} (hσ : ∀ q, σ (σ q) = q) (w : α) (c t : Nat)
    (ψ : Lab → α) :
    applyGate ({ mat := matPhase w, targets := [t], controls := [c] } : MGate α)
        (fun y => ψ (perm σ y))
      = fun y => applyGate ({ mat := matPhase w, targets := [σ t], controls := [σ c] } : MGate α) ψ
          (perm σ y) := by
  funext y
  rw [applyGate_CU1, applyGate_CU1]
  have h1 : perm σ y (σ c) = y c := by unfold perm; rw [hσ]
  have h2 : perm σ y (σ t) = y t := by unfold perm; rw [hσ]
  rw [h1, h2]

/-! ### the position map of the distributed QFT -/

/-- positions after `m` steps of `_DistributedQFT`: `i ↔ n-1-i` for `⌈n/2⌉ ≤ i < m`. -/
def dσ (n m : Nat) (q : Nat) : Nat :=
  if (n / 2 + n % 2 ≤ q ∧ q < m) ∨ (n - m ≤ q ∧ q < n - (n / 2 + n % 2)) then n - 1 - q else q

theorem dσ_invol {n m : Nat} (hm : m ≤ n) (q : Nat) : dσ n m (dσ n m q) = q := by
  unfold dσ
  split_ifs <;> omega

theorem dσ_of_le {n m : Nat} (hm : m ≤ n / 2 + n % 2) : dσ n m = id := by
  funext q
  unfold dσ
  have : ¬ ((n / 2 + n % 2 ≤ q ∧ q < m) ∨ (n - m ≤ q ∧ q < n - (n / 2 + n % 2))) := by omega
  rw [if_neg this]; rfl

theorem perm_id (y : Lab) : perm id y = y := rfl

theorem dσ_full (n : Nat) (y : Lab) : perm (dσ n n) y = rev n y := by
  funext q
  unfold perm dσ rev
  by_cases hq : q < n
  · rw [if_pos hq]
    by_cases hr : (n / 2 + n % 2 ≤ q ∧ q < n) ∨ (n - n ≤ q ∧ q < n - (n / 2 + n % 2))
    · rw [if_pos hr]
    · rw [if_neg hr]
      have : n - 1 - q = q := by omega
      rw [this]
  · rw [if_neg hq]
    have : ¬ ((n / 2 + n % 2 ≤ q ∧ q < n) ∨ (n - n ≤ q ∧ q < n - (n / 2 + n % 2))) := by omega
    rw [if_neg this]

/-- the swap of step `m` extends the position map. -/
theorem perm_dσ_sw {n m : Nat} (hm : m < n) (hc : n / 2 + n % 2 ≤ m) (y : Lab) :
    perm (dσ n m) (sw m (n - m - 1) y) = perm (dσ n (m + 1)) y := by
  have hab : m ≠ n - m - 1 := by omega
  funext q
  unfold perm
  rw [sw_apply hab]
  unfold dσ
  split_ifs <;> first | rfl | (congr 1; omega)

theorem dσ_succ_eff {n m : Nat} (hm : m < n) (hc : n / 2 + n % 2 ≤ m) :
    dσ n (m + 1) (n - m - 1) = m := by
  unfold dσ
  split_ifs <;> omega

theorem dσ_succ_ctrl {n m : Nat} (hm : m < n) (hc : n / 2 + n % 2 ≤ m) (d : Nat) :
    dσ n (m + 1) (m + 1 + d) = m + 1 + d := by
  unfold dσ
  split_ifs <;> omega

/-! ### one step of the second half -/

/-- the controlled-phase part of step `m ≥ ⌈n/2⌉`: controls `m+1+d`, target `eff`. -/
def cu1sOn (m eff D : Nat) : List GD :=
  (List.range D).map (fun d => { kind := .CU1, q0 := m + 1 + d, q1 := eff, e := d + 1 })

theorem runCircuit_cu1sOn (P : Par α) (n : Nat) (b : Lab) {m : Nat} (hm : m < n)
    (hc : n / 2 + n % 2 ≤ m) (D : Nat) :
    runCircuit ((cu1sOn m (n - m - 1) D).map (GD.sem P))
        (fun y => ladState P n b m 0 (perm (dσ n (m + 1)) y))
      = fun y => ladState P n b m D (perm (dσ n (m + 1)) y) := by
  induction D with
  | zero => simp [cu1sOn, runCircuit]
  | succ D ih =>
    have : cu1sOn m (n - m - 1) (D + 1)
        = cu1sOn m (n - m - 1) D ++ [{ kind := .CU1, q0 := m + 1 + D, q1 := n - m - 1, e := D + 1 }] := by
      simp [cu1sOn, List.range_succ]
    rw [this, runCircuit_map_append, ih]
    simp only [List.map_cons, List.map_nil, runCircuit_cons, runCircuit_nil]
    show applyGate ({ mat := matPhase (P.w (D + 1)), targets := [n - m - 1], controls := [m + 1 + D] }
      : MGate α) _ = _
    rw [applyGate_CU1_perm (dσ_invol (by omega)), dσ_succ_eff hm hc, dσ_succ_ctrl hm hc,
      CU1_ladState]

theorem qftDistStep_lo {n m : Nat} (hc : m < n / 2 + n % 2) : qftDistStep n m = qftLadder n m := by
  unfold qftDistStep qftLadder
  simp only [if_pos hc, List.nil_append]

theorem qftDistStep_hi {n m : Nat} (hc : n / 2 + n % 2 ≤ m) :
    qftDistStep n m = { kind := .SWAP, q0 := m, q1 := n - m - 1 } ::
      { kind := .H, q0 := n - m - 1 } :: cu1sOn m (n - m - 1) (n - m - 1) := by
  have h : ¬ m < n / 2 + n % 2 := by omega
  unfold qftDistStep cu1sOn
  simp only [if_neg h, List.singleton_append]

theorem runCircuit_qftDistStep_hi (P : Par α) (hw0 : P.w 0 = -1) (n : Nat) (b : Lab) {m : Nat}
    (hm : m < n) (hc : n / 2 + n % 2 ≤ m) :
    runCircuit ((qftDistStep n m).map (GD.sem P)) (fun y => qftState P n b m (perm (dσ n m) y))
      = fun y => qftState P n b (m + 1) (perm (dσ n (m + 1)) y) := by
  have hab : m ≠ n - m - 1 := by omega
  rw [qftDistStep_hi hc, List.map_cons, runCircuit_cons, List.map_cons, runCircuit_cons]
  have hsw : applyGate (GD.sem P { kind := .SWAP, q0 := m, q1 := n - m - 1 })
        (fun y => qftState P n b m (perm (dσ n m) y))
      = fun y => qftState P n b m (perm (dσ n (m + 1)) y) := by
    funext y
    show applyGate ({ mat := matSwap, targets := [m, n - m - 1], controls := [] } : MGate α) _ y = _
    rw [applyGate_SWAP hab]
    show qftState P n b m (perm (dσ n m) (sw m (n - m - 1) y)) = _
    rw [perm_dσ_sw hm hc]
  rw [hsw]
  have hH : applyGate (GD.sem P { kind := .H, q0 := n - m - 1 })
        (fun y => qftState P n b m (perm (dσ n (m + 1)) y))
      = fun y => ladState P n b m 0 (perm (dσ n (m + 1)) y) := by
    show applyGate ({ mat := matH P.h, targets := [n - m - 1], controls := [] } : MGate α) _ = _
    rw [applyGate_H_perm (dσ_invol (by omega)), dσ_succ_eff hm hc, H_qftState P hw0]
  rw [hH, runCircuit_cu1sOn P n b hm hc]
  funext y
  unfold ladState qftState
  rw [prod_range_succ]
  have h1 : n - m - 1 + 1 = n - m := by omega
  simp only [fac, h1]
  ring

/-! ### the whole circuit -/

theorem runCircuit_qftDist_aux (P : Par α) (hw0 : P.w 0 = -1) (n : Nat) (b : Lab) (m : Nat)
    (hm : m ≤ n) :
    runCircuit (((List.range m).flatMap (qftDistStep n)).map (GD.sem P)) (ket b)
      = fun y => qftState P n b m (perm (dσ n m) y) := by
  induction m with
  | zero =>
    rw [dσ_of_le (Nat.zero_le _)]
    simp only [perm_id]
    show _ = qftState P n b 0
    rw [qftState_zero]
    simp [runCircuit]
  | succ m ih =>
    rw [List.range_succ, List.flatMap_append, runCircuit_map_append, ih (by omega)]
    simp only [List.flatMap_cons, List.flatMap_nil, List.append_nil]
    by_cases hc : m < n / 2 + n % 2
    · rw [qftDistStep_lo hc, dσ_of_le (by omega : m ≤ n / 2 + n % 2),
        dσ_of_le (by omega : m + 1 ≤ n / 2 + n % 2)]
      simp only [perm_id]
      exact runCircuit_qftLadder P hw0 n b (by omega)
    · exact runCircuit_qftDistStep_hi P hw0 n b (by omega) (by omega)

/-- state prepared by the distributed QFT on a basis input: the product form read in reversed
qubit order. -/
theorem runCircuit_qftDist (P : Par α) (hw0 : P.w 0 = -1) (n : Nat) (b : Lab) :
    runCircuit ((qftDist n).map (GD.sem P)) (ket b) = fun y => qftState P n b n (rev n y) := by
  unfold qftDist
  rw [runCircuit_qftDist_aux P hw0 n b n (le_refl n)]
  funext y
  rw [dσ_full]

/-- **`QFT(n, accelerators=…)` prepares the same state as `QFT(n)`** on every basis input. -/
theorem qftDist_eq_qft (P : Par α) (hw0 : P.w 0 = -1) (n : Nat) (b : Lab) :
    runCircuit ((qftDist n).map (GD.sem P)) (ket b)
      = runCircuit ((qft n true).map (GD.sem P)) (ket b) := by
  rw [runCircuit_qftDist P hw0]
  unfold qft
  rw [if_pos rfl, runCircuit_map_append, runCircuit_qftBody P hw0, runCircuit_qftSwaps]

end QV.Enc

