/-
  QV.Proofs.TraceEq — properties of Mazurkiewicz trace equivalence (`QV.Model.TraceEq`):
  equivalence relation, congruence for append, commuting an item past a disjoint block,
  soundness and completeness of the per-qubit projection criterion (`traceEqB`), and the
  semantic lemma: trace equivalent lists act identically under any action whose disjoint
  items commute.
-/
import QV.Model.TraceEq
import Mathlib.Data.List.Basic

namespace QV

variable {G : Type} {supp : G → List Nat}

/-! ### disjointness -/

theorem disjointB_iff {a b : List Nat} :
    disjointB a b = true ↔ ∀ q, q ∈ a → q ∉ b := by
  simp [disjointB, List.all_eq_true]

theorem disjointB_comm (a b : List Nat) : disjointB a b = disjointB b a := by
  rw [Bool.eq_iff_iff, disjointB_iff, disjointB_iff]
  constructor <;> intro h q hq hq' <;> exact h q hq' hq

/-! ### equivalence relation -/

theorem TraceEq.refl (supp : G → List Nat) (l : List G) : TraceEq supp l l := by
  induction l with
  | nil => exact TraceEq.nil
  | cons a l ih => exact TraceEq.cons a ih

theorem TraceEq.symm {l₁ l₂ : List G} (h : TraceEq supp l₁ l₂) : TraceEq supp l₂ l₁ := by
  induction h with
  | nil => exact TraceEq.nil
  | cons a _ ih => exact TraceEq.cons a ih
  | swap a b l hd => exact TraceEq.swap b a l (by rw [disjointB_comm]; exact hd)
  | trans _ _ ih₁ ih₂ => exact TraceEq.trans ih₂ ih₁

theorem TraceEq.perm {l₁ l₂ : List G} (h : TraceEq supp l₁ l₂) : l₁.Perm l₂ := by
  induction h with
  | nil => exact List.Perm.nil
  | cons a _ ih => exact List.Perm.cons a ih
  | swap a b l _ => exact List.Perm.swap b a l
  | trans _ _ ih₁ ih₂ => exact List.Perm.trans ih₁ ih₂

/-! ### congruence for append -/

theorem TraceEq.append_left {l₁ l₂ : List G} (l : List G) (h : TraceEq supp l₁ l₂) :
    TraceEq supp (l ++ l₁) (l ++ l₂) := by
  induction l with
  | nil => exact h
  | cons a l ih => exact TraceEq.cons a ih

theorem TraceEq.append_right {l₁ l₂ : List G} (l : List G) (h : TraceEq supp l₁ l₂) :
    TraceEq supp (l₁ ++ l) (l₂ ++ l) := by
  induction h with
  | nil => exact TraceEq.refl supp l
  | cons a _ ih => exact TraceEq.cons a ih
  | swap a b l' hd => exact TraceEq.swap a b (l' ++ l) hd
  | trans _ _ ih₁ ih₂ => exact TraceEq.trans ih₁ ih₂

theorem TraceEq.append {l₁ l₂ m₁ m₂ : List G} (h : TraceEq supp l₁ l₂)
    (h' : TraceEq supp m₁ m₂) : TraceEq supp (l₁ ++ m₁) (l₂ ++ m₂) :=
  TraceEq.trans (TraceEq.append_right m₁ h) (TraceEq.append_left l₂ h')

/-! ### commuting an item past a disjoint block -/

theorem TraceEq.cons_move (a : G) (l r : List G)
    (h : ∀ b ∈ l, disjointB (supp a) (supp b) = true) :
    TraceEq supp (a :: (l ++ r)) (l ++ a :: r) := by
  induction l with
  | nil => exact TraceEq.refl supp _
  | cons b l ih =>
    have hb : disjointB (supp a) (supp b) = true := h b (List.mem_cons_self ..)
    have ih' := ih (fun c hc => h c (List.mem_cons_of_mem _ hc))
    exact TraceEq.trans (TraceEq.swap a b (l ++ r) hb) (TraceEq.cons b ih')

theorem TraceEq.move_end (a : G) (l : List G)
    (h : ∀ b ∈ l, disjointB (supp a) (supp b) = true) :
    TraceEq supp (a :: l) (l ++ [a]) := by
  have := TraceEq.cons_move (supp := supp) a l [] h
  simpa using this

/-! ### projections -/

theorem proj_nil (q : Nat) : proj supp q [] = [] := rfl

theorem proj_cons (q : Nat) (a : G) (l : List G) :
    proj supp q (a :: l) = if (supp a).contains q then a :: proj supp q l else proj supp q l := by
  simp only [proj, List.filter_cons]

theorem proj_cons_of_mem {q : Nat} {a : G} (l : List G) (h : q ∈ supp a) :
    proj supp q (a :: l) = a :: proj supp q l := by
  rw [proj_cons, if_pos (by simpa using h)]

theorem proj_cons_of_not_mem {q : Nat} {a : G} (l : List G) (h : q ∉ supp a) :
    proj supp q (a :: l) = proj supp q l := by
  rw [proj_cons, if_neg (by simpa using h)]

theorem proj_append (q : Nat) (l r : List G) :
    proj supp q (l ++ r) = proj supp q l ++ proj supp q r := by
  simp only [proj, List.filter_append]

theorem mem_proj {q : Nat} {g : G} {l : List G} :
    g ∈ proj supp q l ↔ g ∈ l ∧ q ∈ supp g := by
  simp [proj, List.mem_filter]

theorem proj_eq_nil_of {q : Nat} {l : List G} (h : ∀ g ∈ l, q ∉ supp g) :
    proj supp q l = [] := by
  rw [List.eq_nil_iff_forall_not_mem]
  intro g hg
  rw [mem_proj] at hg
  exact h g hg.1 hg.2

/-- soundness of the projection criterion. -/
theorem traceEq_proj {l₁ l₂ : List G} (h : TraceEq supp l₁ l₂) :
    ∀ q, proj supp q l₁ = proj supp q l₂ := by
  induction h with
  | nil => intro q; rfl
  | cons a _ ih =>
    intro q
    rw [proj_cons, proj_cons, ih q]
  | swap a b l hd =>
    intro q
    rw [disjointB_iff] at hd
    by_cases ha : q ∈ supp a
    · have hb : q ∉ supp b := hd q ha
      rw [proj_cons_of_mem _ ha, proj_cons_of_not_mem _ hb, proj_cons_of_not_mem _ hb,
        proj_cons_of_mem _ ha]
    · by_cases hb : q ∈ supp b
      · rw [proj_cons_of_not_mem _ ha, proj_cons_of_mem _ hb, proj_cons_of_mem _ hb,
          proj_cons_of_not_mem _ ha]
      · rw [proj_cons_of_not_mem _ ha, proj_cons_of_not_mem _ hb, proj_cons_of_not_mem _ hb,
          proj_cons_of_not_mem _ ha]
  | trans _ _ ih₁ ih₂ => intro q; rw [ih₁ q, ih₂ q]

/-- completeness of the projection criterion (every item touches at least one qubit). -/
theorem traceEq_of_proj [DecidableEq G] {l₁ l₂ : List G}
    (h₁ : ∀ g ∈ l₁, supp g ≠ []) (h₂ : ∀ g ∈ l₂, supp g ≠ [])
    (h : ∀ q, proj supp q l₁ = proj supp q l₂) : TraceEq supp l₁ l₂ := by
  induction l₁ generalizing l₂ with
  | nil =>
    cases l₂ with
    | nil => exact TraceEq.nil
    | cons b l₂ =>
      exfalso
      obtain ⟨q, hq⟩ := List.exists_mem_of_ne_nil _ (h₂ b (List.mem_cons_self ..))
      have := h q
      rw [proj_cons_of_mem _ hq, proj_nil] at this
      exact (List.cons_ne_nil _ _ this.symm).elim
  | cons a l₁ ih =>
    obtain ⟨q, hq⟩ := List.exists_mem_of_ne_nil _ (h₁ a (List.mem_cons_self ..))
    -- `a` occurs in `l₂`
    have ha₂ : a ∈ l₂ := by
      have : a ∈ proj supp q l₂ := by
        rw [← h q, proj_cons_of_mem _ hq]; exact List.mem_cons_self ..
      exact (mem_proj.1 this).1
    obtain ⟨u, v, rfl, hau⟩ := List.eq_append_cons_of_mem ha₂
    -- everything before the first occurrence of `a` is disjoint from `a`
    have hdis : ∀ b ∈ u, disjointB (supp a) (supp b) = true := by
      intro b hb
      rw [disjointB_iff]
      intro q' hq'a hq'b
      have hbm : b ∈ proj supp q' u := mem_proj.2 ⟨hb, hq'b⟩
      have hq' := h q'
      rw [proj_cons_of_mem _ hq'a, proj_append] at hq'
      cases hpu : proj supp q' u with
      | nil => rw [hpu] at hbm; exact List.not_mem_nil hbm
      | cons c w =>
        rw [hpu, List.cons_append] at hq'
        have hca : a = c := (List.cons.inj hq').1
        have hc : c ∈ proj supp q' u := by rw [hpu]; exact List.mem_cons_self ..
        exact hau (hca ▸ (mem_proj.1 hc).1)
    -- the remaining projections agree
    have hrest : ∀ q', proj supp q' l₁ = proj supp q' (u ++ v) := by
      intro q'
      have hq' := h q'
      rw [proj_append] at hq' ⊢
      by_cases hqa : q' ∈ supp a
      · have hu : proj supp q' u = [] :=
          proj_eq_nil_of (fun g hg => (disjointB_iff.1 (hdis g hg)) q' hqa)
        rw [proj_cons_of_mem _ hqa, proj_cons_of_mem _ hqa, hu, List.nil_append] at hq'
        rw [hu, List.nil_append]
        exact (List.cons.inj hq').2
      · rw [proj_cons_of_not_mem _ hqa, proj_cons_of_not_mem _ hqa] at hq'
        exact hq'
    have hrec : TraceEq supp l₁ (u ++ v) :=
      ih (fun g hg => h₁ g (List.mem_cons_of_mem _ hg))
        (fun g hg => h₂ g (by
          rcases List.mem_append.1 hg with hg | hg
          · exact List.mem_append_left _ hg
          · exact List.mem_append_right _ (List.mem_cons_of_mem _ hg)))
        hrest
    exact TraceEq.trans (TraceEq.cons a hrec) (TraceEq.cons_move a u v hdis)

/-- the decision procedure `traceEqB` decides trace equivalence. -/
theorem traceEqB_iff [DecidableEq G] {l₁ l₂ : List G}
    (h₁ : ∀ g ∈ l₁, supp g ≠ []) (h₂ : ∀ g ∈ l₂, supp g ≠ []) :
    traceEqB supp l₁ l₂ = true ↔ TraceEq supp l₁ l₂ := by
  constructor
  · intro hB
    refine traceEq_of_proj h₁ h₂ (fun q => ?_)
    by_cases hq : q ∈ supportOf supp (l₁ ++ l₂)
    · have := (List.all_eq_true.1 hB) q hq
      simpa using this
    · have hno : ∀ g ∈ l₁ ++ l₂, q ∉ supp g := by
        intro g hg hqg
        exact hq (List.mem_flatMap.2 ⟨g, hg, hqg⟩)
      rw [proj_eq_nil_of (fun g hg => hno g (List.mem_append_left _ hg)),
        proj_eq_nil_of (fun g hg => hno g (List.mem_append_right _ hg))]
  · intro hT
    unfold traceEqB
    rw [List.all_eq_true]
    intro q _
    simpa using traceEq_proj hT q

/-! ### semantics: trace equivalent lists act identically -/

theorem traceEq_foldl {S : Type} (act : S → G → S)
    (hcomm : ∀ a b, disjointB (supp a) (supp b) = true →
      ∀ s, act (act s a) b = act (act s b) a) {l₁ l₂ : List G}
    (h : TraceEq supp l₁ l₂) : ∀ s, l₁.foldl act s = l₂.foldl act s := by
  induction h with
  | nil => intro s; rfl
  | cons a _ ih => intro s; simp only [List.foldl_cons]; exact ih _
  | swap a b l hd => intro s; simp only [List.foldl_cons]; rw [hcomm a b hd s]
  | trans _ _ ih₁ ih₂ => intro s; rw [ih₁ s, ih₂ s]

theorem traceEq_foldl_of {S : Type} (act : S → G → S) (P : G → Prop)
    (hcomm : ∀ a b, P a → P b → disjointB (supp a) (supp b) = true →
      ∀ s, act (act s a) b = act (act s b) a) {l₁ l₂ : List G}
    (h : TraceEq supp l₁ l₂) : (∀ g ∈ l₁, P g) → ∀ s, l₁.foldl act s = l₂.foldl act s := by
  induction h with
  | nil => intro _ s; rfl
  | cons a _ ih =>
    intro hP s
    simp only [List.foldl_cons]
    exact ih (fun g hg => hP g (List.mem_cons_of_mem _ hg)) _
  | swap a b l hd =>
    intro hP s
    simp only [List.foldl_cons]
    rw [hcomm a b (hP a (List.mem_cons_self ..))
      (hP b (List.mem_cons_of_mem _ (List.mem_cons_self ..))) hd s]
  | trans h₁₂ _ ih₁ ih₂ =>
    intro hP s
    rw [ih₁ hP s]
    exact ih₂ (fun g hg => hP g (h₁₂.perm.mem_iff.2 hg)) s

end QV
