/-
  QV.Proofs.CliffordCollapse — the tableau update of a random measurement outcome
  (`_random_outcome`) against the projected state vector: the new tableau keeps the invariant,
  stays non-degenerate and its stabiliser rows fix the collapsed state; chained along `measure`.
-/
import QV.Proofs.CliffordMeas

namespace QV.Cliff
open QV

/-- the new stabiliser `(-1)^b Z_q`. -/
def zRow (q : Nat) (b : Bool) : Row := ⟨fun _ => false, fun k => k == q, b⟩

/-- the rows of the tableau written by `_random_outcome`. -/
theorem getRow_randomOutcome (n : Nat) (T : Tableau) (p q : Nat) (b : Bool) (h : Nat)
    (hh : h < T.length) (hp : p < T.length) (hpn : n ≤ p) :
    getRow (randomOutcome n T p q b) h =
      if h = p then zRow q b
      else if h = p - n then getRow T p
      else if h < 2 * n ∧ (getRow T h).x q = true then rowsum n (getRow T p) (getRow T h)
      else getRow T h := by
  have hpn' : p - n < T.length := by omega
  have hr : (List.range T.length)[h]? = some h := by simp [hh]
  simp only [getRow, randomOutcome, List.getD_eq_getElem?_getD, List.getElem?_set, List.length_set,
    List.length_map, List.length_range, List.getElem?_map, hr]
  by_cases h1 : h = p
  · subst h1; simp [hp, zRow]
  · have h1' : ¬ p = h := fun e => h1 e.symm
    by_cases h2 : h = p - n
    · subst h2; simp [h1, h1', hpn']
    · have h2' : ¬ p - n = h := fun e => h2 e.symm
      simp only [h1, h1', h2, h2', if_false, Option.map_some, Option.getD_some]
      by_cases h3 : h < 2 * n ∧ ((T[h]?.getD Row.zero).x q = true)
      · simp [h3.1, h3.2, h1]
      · rw [if_neg h3]
        rw [not_and_or] at h3
        rcases h3 with h3 | h3
        · simp [h3]
        · simp [h3]

theorem symp_zRow_right (n q : Nat) (b : Bool) (hq : q < n) (v : Row) :
    symp n v (zRow q b) = v.x q := by
  have := symp_congr n (a := v) (a' := v) (b := zRow q b) (b' := unitZ q) (fun _ _ => ⟨rfl, rfl⟩)
    (fun _ _ => ⟨rfl, rfl⟩)
  rw [this, symp_unitZ_right]
  simp [hq]

/-- hypotheses of the random branch: valid tableau, `p = n + j0` a stabiliser row with an X on `q`. -/
structure RCtx (n : Nat) (T : Tableau) (p q j0 : Nat) : Prop where
  hv : Valid n T
  hq : q < n
  hp : p = n + j0
  hj0 : j0 < n
  hpx : (getRow T p).x q = true

section
variable {n : Nat} {T : Tableau} {p q j0 : Nat} (C : RCtx n T p q j0) (b : Bool)
include C

theorem RCtx.row (h : Nat) (hh : h < 2 * n) :
    getRow (randomOutcome n T p q b) h =
      if h = p then zRow q b
      else if h = j0 then getRow T p
      else if (getRow T h).x q = true then rowsum n (getRow T p) (getRow T h)
      else getRow T h := by
  have hl := C.hv.1
  have := C.hp; have := C.hj0
  rw [getRow_randomOutcome n T p q b h (by omega) (by omega) (by omega)]
  have e : p - n = j0 := by omega
  rw [e]
  simp only [hh, true_and]

/-- old commutation relations with the pivot row `p`. -/
theorem RCtx.omega_p (k : Nat) (hk : k < 2 * n) :
    symp n (getRow T p) (getRow T k) = decide (k = j0) := by
  have := C.hp; have := C.hj0
  rw [C.hv.2 p k (by omega) hk]
  by_cases e : k = j0
  · subst e; simp; omega
  · simp [e]; omega

/-- commutation of a new row with an arbitrary string. -/
theorem RCtx.symp_new (i : Nat) (hi : i < 2 * n) (c : Row) :
    symp n (getRow (randomOutcome n T p q b) i) c =
      if i = p then c.x q
      else if i = j0 then symp n (getRow T p) c
      else (((getRow T i).x q && symp n (getRow T p) c) ^^ symp n (getRow T i) c) := by
  rw [C.row b i hi]
  by_cases h1 : i = p
  · simp only [h1, if_true]; rw [symp_comm, symp_zRow_right n q b C.hq]
  · simp only [h1, if_false]
    by_cases h2 : i = j0
    · simp only [h2, if_true]
    · simp only [h2, if_false]
      by_cases h3 : (getRow T i).x q = true
      · rw [if_pos h3, symp_rowsum_left, h3]; simp
      · rw [if_neg h3]
        have : (getRow T i).x q = false := by simpa using h3
        rw [this]; simp

/-- the X bit on `q` of a new row. -/
theorem RCtx.xq_new (j : Nat) (hj : j < 2 * n) :
    (getRow (randomOutcome n T p q b) j).x q = decide (j = j0) := by
  have := C.hp; have := C.hj0
  rw [C.row b j hj]
  by_cases h1 : j = p
  · simp [h1, zRow]; omega
  · simp only [h1, if_false]
    by_cases h2 : j = j0
    · simp [h2, C.hpx]
    · simp only [h2, if_false]
      by_cases h3 : (getRow T j).x q = true
      · rw [if_pos h3]; simp [rowsum, C.hpx, h3]
      · rw [if_neg h3]; simpa [h2] using h3

/-- commutation of the pivot row with a new row. -/
theorem RCtx.symp_p_new (j : Nat) (hj : j < 2 * n) :
    symp n (getRow T p) (getRow (randomOutcome n T p q b) j) = decide (j = p) := by
  have := C.hp; have := C.hj0
  rw [symp_comm, C.symp_new b j hj]
  have hpp : symp n (getRow T p) (getRow T p) = false := by
    rw [C.omega_p p (by omega)]; simp; omega
  by_cases h1 : j = p
  · simp [h1, C.hpx]
  · simp only [h1, if_false]
    by_cases h2 : j = j0
    · simp [h2, hpp]
    · simp only [h2, if_false, hpp, Bool.and_false, Bool.false_xor]
      rw [symp_comm, C.omega_p j hj]; simp [h2]

/-- commutation of an old row with a new row. -/
theorem RCtx.symp_old_new (i j : Nat) (hi : i < 2 * n) (hj : j < 2 * n) :
    symp n (getRow T i) (getRow (randomOutcome n T p q b) j) =
      if j = p then (getRow T i).x q
      else if j = j0 then decide (i = j0)
      else (((getRow T j).x q && decide (i = j0)) ^^ decide (j + n = i ∨ i + n = j)) := by
  rw [symp_comm, C.symp_new b j hj, C.omega_p i hi, C.hv.2 j i hj hi]

/-- **the new tableau satisfies the invariant**. -/
theorem RCtx.valid_new : Valid n (randomOutcome n T p q b) := by
  have hp := C.hp; have hj0 := C.hj0
  refine ⟨by simpa [randomOutcome] using C.hv.1, fun i j hi hj => ?_⟩
  rw [C.symp_new b i hi]
  by_cases h1 : i = p
  · simp only [h1, if_true]
    rw [C.xq_new b j hj]
    by_cases e : j = j0
    · simp [e]; omega
    · simp [e]; omega
  · simp only [h1, if_false]
    by_cases h2 : i = j0
    · simp only [h2, if_true]
      rw [C.symp_p_new b j hj]
      by_cases e : j = p
      · simp [e]; omega
      · simp [e]; omega
    · simp only [h2, if_false]
      rw [C.symp_p_new b j hj, C.symp_old_new b i j hi hj]
      by_cases e1 : j = p
      · simp only [e1, if_true, decide_true, Bool.and_true, Bool.xor_self]
        symm; simp; omega
      · simp only [e1, if_false, decide_false, Bool.and_false, Bool.false_xor]
        by_cases e2 : j = j0
        · simp only [e2, if_true]
          simp [h2]; omega
        · simp only [e2, if_false, h2, decide_false, Bool.and_false, Bool.false_xor]
          congr 1
          apply propext
          constructor <;> (intro h; omega)

end

/-! ### non-degeneracy after a random outcome -/

theorem RCtx.nonDeg_new {n : Nat} {T : Tableau} {p q j0 : Nat} (C : RCtx n T p q j0) (b : Bool)
    (hnd : NonDeg n T) : NonDeg n (randomOutcome n T p q b) := by
  have hp := C.hp; have hj0 := C.hj0
  intro v hv'
  have hxq : v.x q = false := by
    have := hv' p (by omega)
    rw [symp_comm, C.symp_new b p (by omega)] at this
    simpa using this
  have hrp : symp n (getRow T p) v = false := by
    have := hv' j0 (by omega)
    rw [symp_comm, C.symp_new b j0 (by omega)] at this
    have hne : ¬ j0 = p := by omega
    simpa [hne] using this
  have hk : ∀ k, k < 2 * n → k ≠ j0 → symp n v (getRow T k) = false := by
    intro k hk2 hkj
    by_cases hkp : k = p
    · rw [hkp, symp_comm]; exact hrp
    · have := hv' k hk2
      rw [symp_comm, C.symp_new b k hk2] at this
      simp only [hkp, hkj, if_false, hrp, Bool.and_false, Bool.false_xor] at this
      rw [symp_comm]; exact this
  cases ht : symp n v (getRow T j0)
  · -- `v` commutes with every old row
    refine hnd v (fun k hk2 => ?_)
    by_cases hkj : k = j0
    · rw [hkj]; exact ht
    · exact hk k hk2 hkj
  · -- impossible: `v ⊕ (pivot row)` would commute with every old row, but has an X on `q`
    exfalso
    have hz := hnd (rowsum 0 v (getRow T p)) (fun k hk2 => by
      rw [symp_rowsum_left, C.omega_p k hk2]
      by_cases hkj : k = j0
      · rw [hkj, ht]; simp
      · rw [hk k hk2 hkj]; simp [hkj])
    have := (hz q C.hq).1
    simp [rowsum, hxq, C.hpx] at this

/-! ### the collapsed state -/

/-- projection on `x_q = b` (unnormalised). -/
def proj (q : Nat) (b : Bool) (ψ : Lab → GI) : Lab → GI := fun x => if x q = b then ψ x else 0

theorem g1_sigma_apply' (xb zb : Bool) (k : Nat) (x : Lab) :
    ∃ c : GI, ∀ φ : Lab → GI, QV.applyGate (g1 (sigma xb zb) k) φ x = c * φ (x.set k (x k ^^ xb)) := by
  cases xb <;> cases zb <;> cases hx : x k <;>
    first
    | (refine ⟨1, fun φ => ?_⟩; rw [g1_apply]; simp [nat2, sigma, ofRows2, gi_zero, gi_one, hx]; done)
    | (refine ⟨gi (-1) 0, fun φ => ?_⟩; rw [g1_apply]; simp [nat2, sigma, ofRows2, gi_zero, hx]; done)
    | (refine ⟨gi 0 1, fun φ => ?_⟩; rw [g1_apply]; simp [nat2, sigma, ofRows2, gi_zero, hx]; done)
    | (refine ⟨gi 0 (-1), fun φ => ?_⟩; rw [g1_apply]; simp [nat2, sigma, ofRows2, gi_zero, hx])

/-- closed form with a scalar that does not depend on the state. -/
theorem pauliList_closed' (qs : List Nat) (hn : qs.Nodup) (w : Row) (x : Lab) :
    ∃ c : GI, ∀ ψ : Lab → GI,
      pauliList qs w ψ x = c * ψ (fun k => if k ∈ qs then (x k ^^ w.x k) else x k) := by
  induction qs generalizing x with
  | nil => exact ⟨1, fun ψ => by simp [pauliList]⟩
  | cons k qs ih =>
    have hk : k ∉ qs := (List.nodup_cons.1 hn).1
    obtain ⟨c1, h1⟩ := g1_sigma_apply' (w.x k) (w.z k) k x
    obtain ⟨c2, h2⟩ := ih (List.nodup_cons.1 hn).2 (x.set k (x k ^^ w.x k))
    refine ⟨c1 * c2, fun ψ => ?_⟩
    rw [pauliList_cons]
    show QV.applyGate (g1 (sigma (w.x k) (w.z k)) k) (pauliList qs w ψ) x = _
    have hfun : (fun j => if j ∈ qs then (x.set k (x k ^^ w.x k)) j ^^ w.x j
          else (x.set k (x k ^^ w.x k)) j)
        = (fun j => if j ∈ k :: qs then x j ^^ w.x j else x j) := by
      funext j
      by_cases hj : j = k
      · subst hj; simp [hk, Lab.set]
      · simp [hj, Lab.set]
    rw [h1, h2, mul_assoc, hfun]

/-- a string without X on `q` commutes with the projection on `x_q = b`. -/
theorem pauliOp_proj_comm (n q : Nat) (hq : q < n) (w : Row) (hw : w.x q = false) (b : Bool)
    (ψ : Lab → GI) : pauliOp n w (proj q b ψ) = proj q b (pauliOp n w ψ) := by
  funext x
  obtain ⟨c, hc⟩ := pauliList_closed' (List.range n) List.nodup_range w x
  unfold pauliOp
  rw [hc]
  simp only [proj]
  rw [hc ψ]
  by_cases hx : x q = b
  · simp [hx, hq, hw]
  · simp [hx, hq, hw]

/-- `(-1)^b Z_q` fixes the projection on `x_q = b`. -/
theorem pauliOp_zRow_proj (n q : Nat) (hq : q < n) (b : Bool) (ψ : Lab → GI) :
    pauliOp n (zRow q b) (proj q b ψ) = proj q b ψ := by
  obtain ⟨hp, hnq⟩ := range_perm1 n q hq
  funext x
  unfold pauliOp
  rw [pauliList_perm hp, pauliList_cons,
    pauliList_id (by
      intro j hj
      have : j ≠ q := fun e => hnq (e ▸ hj)
      simp [zRow, this])]
  simp only [pauliGate, zRow, g1_apply, proj, Lab.set_same]
  cases hxq : x q <;> cases b <;>
    simp [nat2, sigma, ofRows2, gi_one, gi_zero, sgn] <;>
    first
    | (have e : x.set q false = x := by rw [← hxq]; exact Lab.set_self x q
       rw [e])
    | (have e : x.set q true = x := by rw [← hxq]; exact Lab.set_self x q
       rw [e]
       exact GI.ext' (by simp [gi]) (by simp [gi]))

/-! ### tableau/state pairs and measurement steps -/

/-- the tableau `T` describes the (unnormalised, non-zero) state `ψ`. -/
structure TabState (n : Nat) (T : Tableau) (ψ : Lab → GI) : Prop where
  valid : Valid n T
  nondeg : NonDeg n T
  fix : ∀ i, i < n → pauliOp n (getRow T (n + i)) ψ = ψ
  nz : ∃ x, ψ x ≠ 0

theorem TabState.random_step {n : Nat} {T : Tableau} {ψ : Lab → GI} (S : TabState n T ψ)
    {q p : Nat} (hq : q < n) (hp : findP n T q = some p) (b : Bool) :
    TabState n (randomOutcome n T p q b) (proj q b ψ) := by
  obtain ⟨j0, hj0, rfl, hx⟩ := findP_some hp
  have C : RCtx n T (n + j0) q j0 := ⟨S.valid, hq, rfl, hj0, hx⟩
  refine ⟨C.valid_new b, C.nonDeg_new b S.nondeg, ?_, ?_⟩
  · intro i hi
    rw [C.row b (n + i) (by omega)]
    by_cases h1 : n + i = n + j0
    · rw [if_pos h1]; exact pauliOp_zRow_proj n q hq b ψ
    · have h2 : ¬ n + i = j0 := by omega
      rw [if_neg h1, if_neg h2]
      by_cases h3 : (getRow T (n + i)).x q = true
      · rw [if_pos h3]
        have hcm : symp n (getRow T (n + j0)) (getRow T (n + i)) = false := by
          rw [C.omega_p (n + i) (by omega)]; simpa using h2
        rw [pauliOp_proj_comm n q hq _ (by simp [rowsum, hx, h3]) b ψ, pauliOp_rowsum n _ _ hcm,
          S.fix i hi, S.fix j0 hj0]
      · rw [if_neg h3, pauliOp_proj_comm n q hq _ (by simpa using h3) b ψ, S.fix i hi]
  · have hb := both_outcomes n q hq _ hx ψ (S.fix j0 hj0) S.nz
    cases b
    · obtain ⟨x, hx1, hx2⟩ := hb.1
      exact ⟨x, by simpa [proj, hx1] using hx2⟩
    · obtain ⟨x, hx1, hx2⟩ := hb.2
      exact ⟨x, by simpa [proj, hx1] using hx2⟩

theorem getRow_set_ne (T : Tableau) (m h : Nat) (s : Row) (hne : h ≠ m) :
    getRow (T.set m s) h = getRow T h := by
  simp [getRow, List.getD_eq_getElem?_getD, Ne.symm hne]

theorem TabState.determined_step {n : Nat} {T : Tableau} {ψ : Lab → GI} (S : TabState n T ψ)
    (s : Row) : TabState n (T.set (2 * n) s) ψ := by
  refine ⟨⟨by simpa using S.valid.1, fun i j hi hj => ?_⟩, fun v hv => ?_, fun i hi => ?_, S.nz⟩
  · rw [getRow_set_ne T _ i s (by omega), getRow_set_ne T _ j s (by omega)]
    exact S.valid.2 i j hi hj
  · refine S.nondeg v (fun j hj => ?_)
    have := hv j hj
    rwa [getRow_set_ne T _ j s (by omega)] at this
  · rw [getRow_set_ne T _ (n + i) s (by omega)]
    exact S.fix i hi

theorem proj_eq_self {q : Nat} {o : Bool} {ψ : Lab → GI} (h : ∀ x : Lab, x q ≠ o → ψ x = 0) :
    proj q o ψ = ψ := by
  funext x
  by_cases hx : x q = o
  · simp [proj, hx]
  · simp [proj, hx, h x hx]

/-- one measured qubit: the new tableau describes the state projected on the returned bit. -/
theorem TabState.measure_step {n : Nat} {T : Tableau} {ψ : Lab → GI} (S : TabState n T ψ)
    {q : Nat} (hq : q < n) (coin : Bool) :
    TabState n (measureQubit n T q coin).1 (proj q (measureQubit n T q coin).2.1 ψ) := by
  cases hf : findP n T q with
  | some p =>
    simp only [measureQubit, hf]
    exact S.random_step hq hf coin
  | none =>
    simp only [measureQubit, hf]
    have hcomm : ∀ i j, i < n → j < n → symp n (getRow T (n + i)) (getRow T (n + j)) = false := by
      intro i j hi hj
      rw [S.valid.2 (n + i) (n + j) (by omega) (by omega)]
      simp; omega
    have hZ := determinedScratch_is_Z n T q hq S.valid S.nondeg (findP_none hf)
    have hs := determinedScratch_fixes n T q ψ hcomm S.fix
    rw [proj_eq_self (fun x hne => support_of_signed_Z n q hq _ (fun k hk => (hZ k hk).1)
      (fun k hk => (hZ k hk).2) ψ hs x hne)]
    exact S.determined_step _

/-- the state projected on a list of recorded (qubit, outcome) pairs, in order. -/
def collapse : List (Nat × Bool) → (Lab → GI) → (Lab → GI)
  | [], ψ => ψ
  | (q, b) :: rest, ψ => collapse rest (proj q b ψ)

theorem collapse_apply (l : List (Nat × Bool)) (ψ : Lab → GI) (x : Lab) :
    collapse l ψ x = if (∀ qb ∈ l, x qb.1 = qb.2) then ψ x else 0 := by
  induction l generalizing ψ with
  | nil => simp [collapse]
  | cons qb l ih =>
    obtain ⟨q, b⟩ := qb
    simp only [collapse, ih, proj, List.forall_mem_cons]
    by_cases h2 : ∀ qb ∈ l, x qb.1 = qb.2
    · by_cases h1 : x q = b
      · rw [if_pos h2, if_pos h1, if_pos (And.intro h1 h2)]
      · rw [if_pos h2, if_neg h1, if_neg (fun h : x q = b ∧ ∀ qb ∈ l, x qb.1 = qb.2 => h1 h.1)]
    · rw [if_neg h2, if_neg (fun h : x q = b ∧ ∀ qb ∈ l, x qb.1 = qb.2 => h2 h.2)]

/-- **sequences of measurements**: after `measure` on any list of qubits with any coins, the final
tableau describes the state projected on the returned outcomes. -/
theorem TabState.measure_all {n : Nat} (qs : List Nat) (hqs : ∀ q ∈ qs, q < n) :
    ∀ (T : Tableau) (ψ : Lab → GI) (coins : List Bool), TabState n T ψ →
      TabState n (measure n T qs coins).1
        (collapse (qs.zip ((measure n T qs coins).2.map Prod.fst)) ψ) := by
  induction qs with
  | nil => intro T ψ coins S; simpa [measure, collapse] using S
  | cons q qs ih =>
    intro T ψ coins S
    have hq := hqs q (List.mem_cons_self ..)
    have S1 := S.measure_step hq (coins.headD false)
    have S2 := ih (fun q' h' => hqs q' (List.mem_cons_of_mem _ h')) _ _ coins.tail S1
    rcases hmq : measureQubit n T q (coins.headD false) with ⟨T', o, rnd⟩
    rw [hmq] at S2
    simp only [measure, hmq, List.map_cons, List.zip_cons_cons, collapse]
    exact S2

end QV.Cliff
