/-
  QV.Proofs.EncodingsHS3 — from "the walk visits every bit string of length n exactly once" to
  "the amplitude of the basis state with array index j is x_j": labels of bit strings are
  injective and cover the register.
-/
import QV.Proofs.EncodingsHS0

set_option linter.unusedSimpArgs false
set_option linter.unusedVariables false

namespace QV.Enc
open QV Finset

variable {α : Type} [CommRing α]

theorem getD_getElem {β : Type} (l : List β) (d : β) (k : Nat) (h : k < l.length) : l.getD k d = l[k] := by
  simp [List.getD_eq_getElem?_getD, h]

theorem labR_pos {n p : Nat} (hp : p < n) (u : List Bool) : labR n u (n - 1 - p) = u.getD p false := by
  unfold labR
  have h1 : n - 1 - p < n := by omega
  have h2 : n - 1 - (n - 1 - p) = p := by omega
  simp [h1, h2]

theorem labR_outside {n q : Nat} (hq : n ≤ q) (u : List Bool) : labR n u q = false := by
  unfold labR
  have : ¬ q < n := by omega
  simp [this]

theorem labR_inj {n : Nat} {u w : List Bool} (hu : u.length = n) (hw : w.length = n)
    (h : labR n u = labR n w) : u = w := by
  apply List.ext_getElem (by rw [hu, hw])
  intro p h1 h2
  have hp : p < n := by omega
  have := congrFun h (n - 1 - p)
  rw [labR_pos hp, labR_pos hp] at this
  rw [getD_getElem _ _ _ h1, getD_getElem _ _ _ h2] at this
  exact this

/-- the bit string of a label of the register. -/
def strOf (n : Nat) (y : Lab) : List Bool := (List.range n).map (fun p => y (n - 1 - p))

theorem length_strOf (n : Nat) (y : Lab) : (strOf n y).length = n := by simp [strOf]

theorem labR_strOf (n : Nat) (y : Lab) (hy : ∀ q, n ≤ q → y q = false) : labR n (strOf n y) = y := by
  funext q
  by_cases hq : q < n
  · unfold labR strOf
    have h1 : n - 1 - q < n := by omega
    have h2 : n - 1 - (n - 1 - q) = q := by omega
    simp [hq, h1, h2, List.getD_eq_getElem?_getD]
  · rw [labR_outside (by omega), hy q (by omega)]

/-- summing `X(index of the k-th visited state) · |k-th visited state⟩` over a walk that visits
every string of length `n` exactly once gives the vector `X` on the register. -/
theorem sum_over_walk (n : Nat) (W : List (List Bool)) (hlen : ∀ w ∈ W, w.length = n)
    (hnd : W.Nodup) (hc : ∀ τ : List Bool, τ.length = n → τ ∈ W) (X : Nat → α) (y : Lab) :
    ∑ k ∈ range W.length, X (val n (labR n (W.getD k []))) * ket (labR n (W.getD k [])) y
      = ind (∀ q, n ≤ q → y q = false) * X (val n y) := by
  classical
  by_cases hy : ∀ q, n ≤ q → y q = false
  · rw [ind_pos hy, one_mul]
    have hmem := hc (strOf n y) (length_strOf n y)
    obtain ⟨k0, hk0, hk0e⟩ := List.mem_iff_getElem.mp hmem
    have hv0 : labR n (W.getD k0 []) = y := by
      rw [getD_getElem _ _ _ hk0, hk0e, labR_strOf n y hy]
    rw [sum_eq_single k0]
    · rw [hv0, ket_apply, if_pos rfl, mul_one]
    · intro k hk hne
      have hk' : k < W.length := mem_range.mp hk
      have : y ≠ labR n (W.getD k []) := by
        intro e
        apply hne
        have e2 : labR n (W.getD k []) = labR n (W.getD k0 []) := by rw [← e, hv0]
        rw [getD_getElem _ _ _ hk', getD_getElem _ _ _ hk0] at e2
        have e3 := labR_inj (hlen _ (List.getElem_mem hk')) (hlen _ (List.getElem_mem hk0)) e2
        exact (List.Nodup.getElem_inj_iff hnd).mp e3
      rw [ket_apply, if_neg this, mul_zero]
    · intro h; exact absurd (mem_range.mpr hk0) h
  · rw [ind_neg hy, zero_mul]
    apply sum_eq_zero
    intro k hk
    have : y ≠ labR n (W.getD k []) := by
      intro e
      apply hy
      intro q hq
      rw [e, labR_outside hq]
    rw [ket_apply, if_neg this, mul_zero]

end QV.Enc
