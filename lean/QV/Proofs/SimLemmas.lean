/-
  QV.Proofs.SimLemmas — algebra of the state-vector simulator model `applyGate` /
  `runCircuit` of QV/Model/Sim.lean over an arbitrary commutative semiring (part B).
  No register size appears: all statements hold for every label `x : Nat → Bool`.

  Main results
    * `applyGate_eq_sum`            : `applyGate` as a `Finset.sum` over local indices
    * `applyGate_add/_smul/_zero/_sum` : linearity in the state
    * `applyGate_one`               : identity matrix acts as the identity
    * `applyGate_mul`               : two gates on the same qubits compose by matrix product
    * `applyGate_inv`               : `A * B = 1` ⇒ applying `B` then `A` is the identity
    * `applyGate_comm_of_disjoint`  : gates on disjoint qubit sets commute
    * `runCircuit_append/_add/_smul/_zero/_sum`, `runCircuit_inverse`,
      `runCircuit_comm_of_disjoint`
-/
import QV.Proofs.SumOver
import QV.Model.Sim

namespace QV

open Finset

variable {α : Type} [CommSemiring α]

/-! ### single gates -/

/-- **Sum form of the model.**  For duplicate-free targets, `applyGate` multiplies the
amplitudes on the target qubits by the local matrix. -/
theorem applyGate_eq_sum (g : MGate α) (hn : g.targets.Nodup) (ψ : Lab → α) (x : Lab) :
    applyGate g ψ x =
      if Lab.allOne g.controls x then
        ∑ k ∈ range (2 ^ g.targets.length),
          g.mat (Lab.idx g.targets x) k * ψ (Lab.wIdx x g.targets k)
      else ψ x := by
  unfold applyGate
  split
  · exact sumOver_eq_sum hn (fun k y => g.mat (Lab.idx g.targets x) k * ψ y) x
  · rfl

theorem applyGate_of_controls_off (g : MGate α) (ψ : Lab → α) {x : Lab}
    (h : Lab.allOne g.controls x = false) : applyGate g ψ x = ψ x := by
  simp [applyGate, h]

theorem applyGate_add (g : MGate α) (ψ φ : Lab → α) :
    applyGate g (fun x => ψ x + φ x) = fun x => applyGate g ψ x + applyGate g φ x := by
  funext x
  unfold applyGate
  split
  · simp only [mul_add]
    rw [sumOver_add]
  · rfl

theorem applyGate_smul (g : MGate α) (c : α) (ψ : Lab → α) :
    applyGate g (fun x => c * ψ x) = fun x => c * applyGate g ψ x := by
  funext x
  unfold applyGate
  split
  · simp only [mul_left_comm _ c]
    rw [sumOver_mul_left]
  · rfl

theorem applyGate_smul_right (g : MGate α) (c : α) (ψ : Lab → α) :
    applyGate g (fun x => ψ x * c) = fun x => applyGate g ψ x * c := by
  simp only [mul_comm _ c]
  exact applyGate_smul g c ψ

theorem applyGate_zero (g : MGate α) : applyGate g (fun _ => (0 : α)) = fun _ => 0 := by
  funext x
  unfold applyGate
  split
  · simp only [mul_zero]
    exact sumOver_zero _ _
  · rfl

theorem applyGate_sum {ι : Type} (g : MGate α) (s : Finset ι) (ψ : ι → Lab → α) :
    applyGate g (fun x => ∑ i ∈ s, ψ i x) = fun x => ∑ i ∈ s, applyGate g (ψ i) x := by
  classical
  induction s using Finset.induction_on with
  | empty => simpa using applyGate_zero g
  | insert a s ha ih =>
    simp only [sum_insert ha]
    rw [applyGate_add g (ψ a) (fun x => ∑ i ∈ s, ψ i x), ih]

/-- the identity matrix (on indices `< 2 ^ |targets|`) acts as the identity. -/
theorem applyGate_one (g : MGate α) (hn : g.targets.Nodup)
    (h1 : ∀ i j, i < 2 ^ g.targets.length → j < 2 ^ g.targets.length →
      g.mat i j = if i = j then 1 else 0) (ψ : Lab → α) :
    applyGate g ψ = ψ := by
  funext x
  rw [applyGate_eq_sum g hn]
  split
  · have hi := Lab.idx_lt g.targets x
    rw [sum_congr rfl (g := fun k => if Lab.idx g.targets x = k then
        ψ (Lab.wIdx x g.targets k) else 0)]
    · rw [sum_ite_eq, if_pos (mem_range.mpr hi), Lab.wIdx_idx]
    · intro k hk
      rw [h1 _ _ hi (mem_range.mp hk)]
      split <;> simp
  · rfl

/-- value of `applyGate` at a label given by a local index, when the controls are on. -/
theorem applyGate_wIdx (g : MGate α) (hn : g.targets.Nodup)
    (hd : ∀ c, c ∈ g.controls → c ∉ g.targets) (ψ : Lab → α) {x : Lab}
    (hc : Lab.allOne g.controls x = true) {k : Nat} (hk : k < 2 ^ g.targets.length) :
    applyGate g ψ (Lab.wIdx x g.targets k)
      = ∑ j ∈ range (2 ^ g.targets.length), g.mat k j * ψ (Lab.wIdx x g.targets j) := by
  rw [applyGate_eq_sum g hn, Lab.allOne_wIdx_of_disjoint x k hd, if_pos hc, Lab.idx_wIdx x hn hk]
  simp only [Lab.wIdx_wIdx]

/-- **Composition.**  Two gates on the same targets and controls compose by the matrix
product of their local matrices. -/
theorem applyGate_mul (ts cs : List Nat) (hn : ts.Nodup) (hd : ∀ c, c ∈ cs → c ∉ ts)
    (A B : Nat → Nat → α) (ψ : Lab → α) :
    applyGate { mat := A, targets := ts, controls := cs }
        (applyGate { mat := B, targets := ts, controls := cs } ψ)
      = applyGate { mat := fun i j => ∑ k ∈ range (2 ^ ts.length), A i k * B k j,
                    targets := ts, controls := cs } ψ := by
  funext x
  rw [applyGate_eq_sum { mat := A, targets := ts, controls := cs } hn,
    applyGate_eq_sum { mat := fun i j => ∑ k ∈ range (2 ^ ts.length), A i k * B k j,
                       targets := ts, controls := cs } hn]
  dsimp only
  cases hc : Lab.allOne cs x <;> simp only [if_true, Bool.false_eq_true, if_false]
  · exact applyGate_of_controls_off { mat := B, targets := ts, controls := cs } ψ hc
  · rw [sum_congr rfl fun k hk => by
      rw [applyGate_wIdx { mat := B, targets := ts, controls := cs } hn hd ψ hc (mem_range.mp hk)]]
    dsimp only
    simp only [mul_sum, sum_mul]
    rw [sum_comm]
    simp only [mul_assoc]

/-- **Inverse.**  If `A * B = 1` on indices `< 2 ^ |ts|` then applying `B` and then `A`
(on the same targets and controls) is the identity. -/
theorem applyGate_inv (ts cs : List Nat) (hn : ts.Nodup) (hd : ∀ c, c ∈ cs → c ∉ ts)
    (A B : Nat → Nat → α)
    (hAB : ∀ i j, i < 2 ^ ts.length → j < 2 ^ ts.length →
      ∑ k ∈ range (2 ^ ts.length), A i k * B k j = if i = j then 1 else 0)
    (ψ : Lab → α) :
    applyGate { mat := A, targets := ts, controls := cs }
        (applyGate { mat := B, targets := ts, controls := cs } ψ) = ψ := by
  rw [applyGate_mul ts cs hn hd]
  exact applyGate_one _ hn hAB ψ

/-- **Disjoint gates commute.** -/
theorem applyGate_comm_of_disjoint (g h : MGate α) (hng : g.targets.Nodup)
    (hnh : h.targets.Nodup)
    (hdis : ∀ r, r ∈ g.targets ++ g.controls → r ∉ h.targets ++ h.controls)
    (ψ : Lab → α) :
    applyGate g (applyGate h ψ) = applyGate h (applyGate g ψ) := by
  have htt : ∀ r, r ∈ g.targets → r ∉ h.targets := fun r hr hm =>
    hdis r (List.mem_append_left _ hr) (List.mem_append_left _ hm)
  have htt' : ∀ r, r ∈ h.targets → r ∉ g.targets := fun r hr hm => htt r hm hr
  have htc : ∀ r, r ∈ h.controls → r ∉ g.targets := fun r hr hm =>
    hdis r (List.mem_append_left _ hm) (List.mem_append_right _ hr)
  have hct : ∀ r, r ∈ g.controls → r ∉ h.targets := fun r hr hm =>
    hdis r (List.mem_append_right _ hr) (List.mem_append_left _ hm)
  funext x
  simp only [applyGate_eq_sum g hng, applyGate_eq_sum h hnh,
    Lab.allOne_wIdx_of_disjoint x _ htc, Lab.allOne_wIdx_of_disjoint x _ hct,
    Lab.idx_wIdx_of_disjoint x _ htt, Lab.idx_wIdx_of_disjoint x _ htt']
  cases hcg : Lab.allOne g.controls x <;> cases hch : Lab.allOne h.controls x <;>
    simp only [if_true, Bool.false_eq_true, if_false]
  simp only [mul_sum]
  rw [sum_comm]
  apply sum_congr rfl; intro j _
  apply sum_congr rfl; intro k _
  rw [mul_left_comm, Lab.wIdx_comm x k j htt]

/-! ### circuits -/

theorem runCircuit_nil (ψ : Lab → α) : runCircuit ([] : List (MGate α)) ψ = ψ := rfl

theorem runCircuit_cons (g : MGate α) (gs : List (MGate α)) (ψ : Lab → α) :
    runCircuit (g :: gs) ψ = runCircuit gs (applyGate g ψ) := rfl

theorem runCircuit_append (gs hs : List (MGate α)) (ψ : Lab → α) :
    runCircuit (gs ++ hs) ψ = runCircuit hs (runCircuit gs ψ) := by
  simp [runCircuit, List.foldl_append]

theorem runCircuit_add (gs : List (MGate α)) (ψ φ : Lab → α) :
    runCircuit gs (fun x => ψ x + φ x) = fun x => runCircuit gs ψ x + runCircuit gs φ x := by
  induction gs generalizing ψ φ with
  | nil => rfl
  | cons g gs ih => rw [runCircuit_cons, applyGate_add, ih]; rfl

theorem runCircuit_smul (gs : List (MGate α)) (c : α) (ψ : Lab → α) :
    runCircuit gs (fun x => c * ψ x) = fun x => c * runCircuit gs ψ x := by
  induction gs generalizing ψ with
  | nil => rfl
  | cons g gs ih => rw [runCircuit_cons, applyGate_smul, ih]; rfl

theorem runCircuit_smul_right (gs : List (MGate α)) (c : α) (ψ : Lab → α) :
    runCircuit gs (fun x => ψ x * c) = fun x => runCircuit gs ψ x * c := by
  simp only [mul_comm _ c]
  exact runCircuit_smul gs c ψ

theorem runCircuit_zero (gs : List (MGate α)) :
    runCircuit gs (fun _ => (0 : α)) = fun _ => 0 := by
  induction gs with
  | nil => rfl
  | cons g gs ih => rw [runCircuit_cons, applyGate_zero, ih]

theorem runCircuit_sum {ι : Type} (gs : List (MGate α)) (s : Finset ι) (ψ : ι → Lab → α) :
    runCircuit gs (fun x => ∑ i ∈ s, ψ i x) = fun x => ∑ i ∈ s, runCircuit gs (ψ i) x := by
  induction gs generalizing ψ with
  | nil => rfl
  | cons g gs ih => simp only [runCircuit_cons, applyGate_sum, ih]

/-- `h` undoes `g`: same duplicate-free targets, same controls (disjoint from the targets), and
`h.mat * g.mat = 1` on indices `< 2 ^ |targets|`. -/
structure MGate.IsLeftInv (h g : MGate α) : Prop where
  targets_eq : h.targets = g.targets
  controls_eq : h.controls = g.controls
  nodup : g.targets.Nodup
  disj : ∀ c, c ∈ g.controls → c ∉ g.targets
  mul_eq : ∀ i j, i < 2 ^ g.targets.length → j < 2 ^ g.targets.length →
    ∑ k ∈ range (2 ^ g.targets.length), h.mat i k * g.mat k j = if i = j then 1 else 0

theorem applyGate_leftInv {h g : MGate α} (hi : h.IsLeftInv g) (ψ : Lab → α) :
    applyGate h (applyGate g ψ) = ψ := by
  obtain ⟨hm, ht, hc⟩ := h
  obtain ⟨gm, gt, gc⟩ := g
  obtain ⟨e1, e2, hn, hd, hmul⟩ := hi
  simp only at e1 e2 hn hd hmul
  subst e1; subst e2
  exact applyGate_inv _ _ hn hd hm gm hmul ψ

/-- **A circuit followed by its inverse is the identity**: `hs` lists, in the same order as
`gs`, a left inverse for every gate; the inverse circuit is `hs` reversed. -/
theorem runCircuit_inverse {gs hs : List (MGate α)}
    (hinv : List.Forall₂ (fun h g => h.IsLeftInv g) hs gs) (ψ : Lab → α) :
    runCircuit (gs ++ hs.reverse) ψ = ψ := by
  induction hinv generalizing ψ with
  | nil => rfl
  | cons hg _ ih =>
    rw [List.reverse_cons, List.cons_append, runCircuit_cons, ← List.append_assoc,
      runCircuit_append, ih]
    exact applyGate_leftInv hg ψ

/-- a gate commutes with a circuit all of whose gates live on other qubits. -/
theorem runCircuit_comm_gate (g : MGate α) (hs : List (MGate α)) (hng : g.targets.Nodup)
    (hh : ∀ h ∈ hs, h.targets.Nodup ∧
      ∀ r, r ∈ g.targets ++ g.controls → r ∉ h.targets ++ h.controls)
    (ψ : Lab → α) :
    runCircuit hs (applyGate g ψ) = applyGate g (runCircuit hs ψ) := by
  induction hs generalizing ψ with
  | nil => rfl
  | cons h hs ih =>
    obtain ⟨hnh, hdis⟩ := hh h (List.mem_cons_self ..)
    rw [runCircuit_cons, runCircuit_cons, ← applyGate_comm_of_disjoint g h hng hnh hdis,
      ih (fun h' hm => hh h' (List.mem_cons_of_mem _ hm))]

/-- circuits on disjoint qubit sets commute. -/
theorem runCircuit_comm_of_disjoint (gs hs : List (MGate α))
    (hg : ∀ g ∈ gs, g.targets.Nodup) (hh : ∀ h ∈ hs, h.targets.Nodup)
    (hdis : ∀ g ∈ gs, ∀ h ∈ hs, ∀ r, r ∈ g.targets ++ g.controls → r ∉ h.targets ++ h.controls)
    (ψ : Lab → α) :
    runCircuit (gs ++ hs) ψ = runCircuit (hs ++ gs) ψ := by
  rw [runCircuit_append, runCircuit_append]
  induction gs generalizing ψ with
  | nil => rfl
  | cons g gs ih =>
    have hg' : ∀ g' ∈ gs, g'.targets.Nodup := fun g' hm => hg g' (List.mem_cons_of_mem _ hm)
    have hdis' : ∀ g' ∈ gs, ∀ h ∈ hs, ∀ r, r ∈ g'.targets ++ g'.controls →
        r ∉ h.targets ++ h.controls := fun g' hm => hdis g' (List.mem_cons_of_mem _ hm)
    rw [runCircuit_cons, runCircuit_cons, ih hg' hdis',
      runCircuit_comm_gate g hs (hg g (List.mem_cons_self ..))
        (fun h hm => ⟨hh h hm, hdis g (List.mem_cons_self ..) h hm⟩)]

end QV
