/-
  QV.Proofs.EncodingsHopf — the Hopf-parametrised `binary_encoder` (`hopf n` of
  QV/Model/EncodingsB.lean) loads the data vector for EVERY number of qubits `n`.

    * an X layer on a duplicate-free qubit list toggles the listed bits   (`run_xlayer`)
    * pointwise action of one block `X… · C^{n-1}RY · X…`                 (`hopfBlock_apply`)
    * the prefix pattern of block `(l, j)` is `val l x = j`               (`prefix_iff`)
    * invariant inside a level / between levels of the heap-ordered tree  (`inner_step`,
      `inner_inv`, `level_step`, `levels_inv`)
    * the loader theorem                                                  (`hopf_loader`)
-/
import QV.Proofs.EncodingsB

set_option linter.unusedSimpArgs false
set_option linter.unusedVariables false
set_option linter.unusedSectionVars false

namespace QV.Enc
open QV Finset

variable {α : Type} [CommRing α]

/-! ### X layers -/

/-- flip the bits of the listed qubits. -/
def tog (qs : List Nat) (x : Lab) : Lab := fun r => if r ∈ qs then !x r else x r

theorem tog_nil (x : Lab) : tog [] x = x := by
  funext r; simp [tog]

theorem tog_of_not_mem {qs : List Nat} {r : Nat} (h : r ∉ qs) (x : Lab) : tog qs x r = x r := by
  simp [tog, h]

theorem tog_of_mem {qs : List Nat} {r : Nat} (h : r ∈ qs) (x : Lab) : tog qs x r = !x r := by
  simp [tog, h]

theorem tog_cons {q : Nat} {qs : List Nat} (hq : q ∉ qs) (x : Lab) :
    tog (q :: qs) x = (tog qs x).set q (!(tog qs x) q) := by
  funext r
  by_cases hr : r = q
  · subst hr
    rw [Lab.set_same, tog_of_not_mem hq, tog_of_mem (List.mem_cons_self ..)]
  · rw [Lab.set_other _ _ hr]
    simp [tog, hr]

theorem tog_tog (qs : List Nat) (x : Lab) : tog qs (tog qs x) = x := by
  funext r
  by_cases h : r ∈ qs <;> simp [tog, h]

theorem tog_set {qs : List Nat} {t : Nat} (ht : t ∉ qs) (x : Lab) (b : Bool) :
    tog qs (x.set t b) = (tog qs x).set t b := by
  funext r
  by_cases hr : r = t
  · subst hr
    rw [Lab.set_same, tog_of_not_mem ht, Lab.set_same]
  · rw [Lab.set_other _ _ hr]
    by_cases h : r ∈ qs <;> simp [tog, h, Lab.set_other _ _ hr]

/-- a layer of X gates on a duplicate-free list of qubits relabels the amplitudes. -/
theorem run_xlayer (P : Par2 α) (qs : List Nat) (hn : qs.Nodup) (ψ : Lab → α) :
    runCircuit ((qs.map (fun q => ({ kind := .X, q0 := q } : BG))).map (BG.sem P)) ψ
      = fun x => ψ (tog qs x) := by
  induction qs generalizing ψ with
  | nil =>
    funext x
    simp [runCircuit_nil, tog_nil]
  | cons q qs ih =>
    obtain ⟨hq, hn'⟩ := List.nodup_cons.mp hn
    rw [List.map_cons, List.map_cons, runCircuit_cons, ih hn']
    funext x
    rw [tog_cons hq]
    exact applyGate_X q ψ (tog qs x)

/-! ### one block -/

theorem hopfAnti_nodup (n l j : Nat) : (hopfAnti n l j).Nodup :=
  List.Nodup.filter _ List.nodup_range

theorem mem_hopfAnti (n l j q : Nat) :
    q ∈ hopfAnti n l j ↔ q < n ∧ (if q < l then prefBit l j q = false else l < q) := by
  unfold hopfAnti
  rw [List.mem_filter, List.mem_range]
  by_cases h : q < l <;> simp [h]

theorem target_not_mem_hopfAnti (n l j : Nat) : l ∉ hopfAnti n l j := by
  rw [mem_hopfAnti]
  simp

theorem hopfBlock_eq (n l j : Nat) :
    hopfBlock n l j
      = (hopfAnti n l j).map (fun q => ({ kind := .X, q0 := q } : BG))
        ++ [{ kind := .RY, q0 := l, e := 2 ^ l - 1 + j, ctrl := (List.range n).filter (· ≠ l) }]
        ++ (hopfAnti n l j).map (fun q => ({ kind := .X, q0 := q } : BG)) := rfl

/-- the labels on which block `(l, j)` acts: prefix `j`, zeros behind the target. -/
def hopfCond (n l j : Nat) (x : Lab) : Prop :=
  (∀ q, q < l → x q = prefBit l j q) ∧ (∀ q, l < q → q < n → x q = false)

theorem allOne_tog_iff {n l : Nat} (hl : l < n) (j : Nat) (x : Lab) :
    Lab.allOne ((List.range n).filter (· ≠ l)) (tog (hopfAnti n l j) x) = true
      ↔ hopfCond n l j x := by
  unfold Lab.allOne hopfCond
  rw [List.all_eq_true]
  have key : ∀ q, q < n → q ≠ l →
      (tog (hopfAnti n l j) x q = true ↔
        (if q < l then x q = prefBit l j q else x q = false)) := by
    intro q hq hql
    unfold tog
    by_cases h : q < l
    · have hm : q ∈ hopfAnti n l j ↔ prefBit l j q = false := by
        rw [mem_hopfAnti]; simp [h, hq]
      rw [if_pos h]
      cases hp : prefBit l j q <;> cases hx : x q <;> simp [hm, hp, hx]
    · have hm : q ∈ hopfAnti n l j := by
        rw [mem_hopfAnti]; simp only [if_neg h]; exact ⟨hq, by omega⟩
      rw [if_neg h, if_pos hm]
      cases hx : x q <;> simp
  constructor
  · intro h
    constructor
    · intro q hq
      have h1 : q ∈ (List.range n).filter (· ≠ l) := by
        rw [List.mem_filter, List.mem_range]
        exact ⟨by omega, by simp; omega⟩
      have := (key q (by omega) (by omega)).mp (h q h1)
      rwa [if_pos hq] at this
    · intro q hq hqn
      have h1 : q ∈ (List.range n).filter (· ≠ l) := by
        rw [List.mem_filter, List.mem_range]
        exact ⟨hqn, by simp; omega⟩
      have := (key q hqn (by omega)).mp (h q h1)
      rwa [if_neg (by omega)] at this
  · rintro ⟨h1, h2⟩ q hq
    rw [List.mem_filter, List.mem_range] at hq
    obtain ⟨hqn, hql⟩ := hq
    have hql' : q ≠ l := by simpa using hql
    apply (key q hqn hql').mpr
    by_cases h : q < l
    · rw [if_pos h]; exact h1 q h
    · rw [if_neg h]; exact h2 q (by omega) hqn

/-- pointwise action of block `(l, j)`. -/
theorem hopfBlock_apply (P : Par2 α) {n l : Nat} (hl : l < n) (j : Nat) (ψ : Lab → α) (x : Lab)
    [Decidable (hopfCond n l j x)] :
    runCircuit ((hopfBlock n l j).map (BG.sem P)) ψ x
      = if hopfCond n l j x then
          matRY (P.c (2 ^ l - 1 + j)) (P.s (2 ^ l - 1 + j)) (b2n (x l)) 0 * ψ (x.set l false)
            + matRY (P.c (2 ^ l - 1 + j)) (P.s (2 ^ l - 1 + j)) (b2n (x l)) 1 * ψ (x.set l true)
        else ψ x := by
  have hA := target_not_mem_hopfAnti n l j
  rw [hopfBlock_eq, List.map_append, List.map_append, runCircuit_append, runCircuit_append,
    run_xlayer P _ (hopfAnti_nodup n l j), run_xlayer P _ (hopfAnti_nodup n l j)]
  show applyGate (MGate.mk (matRY (P.c (2 ^ l - 1 + j)) (P.s (2 ^ l - 1 + j))) [l]
      ((List.range n).filter (· ≠ l)))
    (fun x => ψ (tog (hopfAnti n l j) x)) (tog (hopfAnti n l j) x) = _
  rw [applyGate_single]
  simp only [← tog_set hA, tog_tog, tog_of_not_mem hA]
  by_cases hc : hopfCond n l j x
  · rw [if_pos hc, if_pos ((allOne_tog_iff hl j x).mpr hc)]
  · rw [if_neg hc, if_neg (fun h => hc ((allOne_tog_iff hl j x).mp h))]

/-! ### the prefix value -/

theorem val_lt (l : Nat) (y : Lab) : val l y < 2 ^ l := by
  rw [val_eq_toIndex]
  unfold Lab.toIndex
  have := Lab.idx_lt (List.range l) y
  rwa [List.length_range] at this

theorem val_set_ge {l t : Nat} (h : l ≤ t) (y : Lab) (b : Bool) : val l (y.set t b) = val l y := by
  unfold val
  apply sum_congr rfl
  intro q hq
  have : q ≠ t := by have := mem_range.mp hq; omega
  rw [Lab.set_other _ _ this]

theorem val_zero (y : Lab) : val 0 y = 0 := by simp [val]

theorem prefBit_succ_lt {l q : Nat} (h : q < l) (j : Nat) :
    prefBit (l + 1) j q = prefBit l (j / 2) q := by
  unfold prefBit
  have e : l + 1 - 1 - q = (l - 1 - q) + 1 := by omega
  rw [e, Nat.shiftRight_eq_div_pow, Nat.shiftRight_eq_div_pow, pow_succ', Nat.div_div_eq_div_mul]

theorem prefBit_succ_last (l j : Nat) : prefBit (l + 1) j l = (j % 2 == 1) := by
  unfold prefBit
  have e : l + 1 - 1 - l = 0 := by omega
  rw [e, Nat.shiftRight_zero]

/-- the prefix of `x` spells the `l`-bit number `j` iff its big-endian value is `j`. -/
theorem prefix_iff (l : Nat) : ∀ (j : Nat), j < 2 ^ l → ∀ x : Lab,
    ((∀ q, q < l → x q = prefBit l j q) ↔ val l x = j) := by
  induction l with
  | zero =>
    intro j hj x
    rw [val_zero]
    simp at hj
    constructor
    · intro _; exact hj.symm
    · intro _ q hq; exact absurd hq (Nat.not_lt_zero q)
  | succ l ih =>
    intro j hj x
    have hj2 : j / 2 < 2 ^ l := by rw [pow_succ] at hj; omega
    rw [val_succ]
    have hlast : (x l = (j % 2 == 1)) ↔ (if x l then 1 else 0) = j % 2 := by
      have := Nat.mod_two_eq_zero_or_one j
      cases hx : x l <;> rcases this with h | h <;> simp [h]
    constructor
    · intro h
      have h1 := (ih (j / 2) hj2 x).mp (fun q hq => by
        rw [← prefBit_succ_lt hq]; exact h q (by omega))
      have h2 := h l (by omega)
      rw [prefBit_succ_last] at h2
      have h3 := hlast.mp h2
      rw [h1, h3]
      exact Nat.div_add_mod j 2
    · intro h q hq
      have hb : (if x l then 1 else 0) < 2 := by split <;> omega
      have h1 : val l x = j / 2 := by omega
      have h3 : (if x l then 1 else 0) = j % 2 := by omega
      by_cases hql : q = l
      · subst hql
        rw [prefBit_succ_last]; exact hlast.mpr h3
      · have hq' : q < l := by omega
        rw [prefBit_succ_lt hq']
        exact (ih (j / 2) hj2 x).mpr h1 q hq'

/-! ### the invariants -/

/-- `R 0 ·` amplitude after the levels `< l`: node `val l y` of row `l`, zeros from qubit `l` on. -/
noncomputable def levelF (R : Nat → α) (l : Nat) (y : Lab) : α :=
  ind (∀ q, l ≤ q → y q = false) * R (2 ^ l - 1 + val l y)

/-- `R 0 ·` amplitude inside level `l` after the blocks `< j`. -/
noncomputable def innerF (R : Nat → α) (l j : Nat) (y : Lab) : α :=
  if val l y < j then levelF R (l + 1) y else levelF R l y

theorem innerF_zero (R : Nat → α) (l : Nat) (y : Lab) : innerF R l 0 y = levelF R l y := by
  unfold innerF; rw [if_neg (Nat.not_lt_zero _)]

theorem innerF_full (R : Nat → α) (l : Nat) (y : Lab) :
    innerF R l (2 ^ l) y = levelF R (l + 1) y := by
  unfold innerF; rw [if_pos (val_lt l y)]

theorem levelF_set_true (R : Nat → α) (l : Nat) (y : Lab) : levelF R l (y.set l true) = 0 := by
  unfold levelF
  rw [ind_neg, zero_mul]
  intro h
  have := h l (le_refl l)
  rw [Lab.set_same] at this
  exact Bool.noConfusion this

theorem ind_set_false (l : Nat) (y : Lab) :
    (ind (∀ q, l ≤ q → (y.set l false) q = false) : α) = ind (∀ q, l + 1 ≤ q → y q = false) := by
  apply ind_congr
  constructor
  · intro h q hq
    have := h q (by omega)
    rwa [Lab.set_other _ _ (by omega : q ≠ l)] at this
  · intro h q hq
    by_cases hql : q = l
    · subst hql; exact Lab.set_same _ _ _
    · rw [Lab.set_other _ _ hql]; exact h q (by omega)

section loader
variable (P : Par2 α) (n : Nat) (R : Nat → α)
  (hc : ∀ e, e < 2 ^ n - 1 → R e * P.c e = R (2 * e + 1))
  (hs : ∀ e, e < 2 ^ n - 1 → R e * P.s e = R (2 * e + 2))
include hc hs

/-- block `(l, j)` moves the invariant of level `l` from `j` to `j + 1`. -/
theorem inner_step {l : Nat} (hl : l < n) {j : Nat} (hj : j < 2 ^ l) (ψ : Lab → α)
    (h : ∀ y, R 0 * ψ y = innerF R l j y) (x : Lab) :
    R 0 * runCircuit ((hopfBlock n l j).map (BG.sem P)) ψ x = innerF R l (j + 1) x := by
  classical
  rw [hopfBlock_apply P hl j ψ x]
  have hp1 : 1 ≤ 2 ^ l := Nat.one_le_two_pow
  have hpn : 2 ^ (l + 1) ≤ 2 ^ n := Nat.pow_le_pow_right (by norm_num) hl
  have hps : 2 ^ (l + 1) = 2 * 2 ^ l := pow_succ' 2 l
  by_cases hcnd : hopfCond n l j x
  · rw [if_pos hcnd, mul_add, mul_left_comm, mul_left_comm (R 0), h, h]
    have hv : val l x = j := (prefix_iff l j hj x).mp hcnd.1
    have hin : ∀ b, innerF R l j (x.set l b) = levelF R l (x.set l b) := by
      intro b
      unfold innerF
      rw [val_set_ge (le_refl l), hv, if_neg (Nat.lt_irrefl j)]
    have hout : innerF R l (j + 1) x = levelF R (l + 1) x := by
      unfold innerF
      rw [hv, if_pos (Nat.lt_succ_self j)]
    rw [hin, hin, hout, levelF_set_true, mul_zero, add_zero]
    unfold levelF
    rw [ind_set_false, val_set_ge (le_refl l), hv, val_succ, hv]
    have he : 2 ^ l - 1 + j < 2 ^ n - 1 := by omega
    cases hx : x l
    · have e1 : 2 ^ (l + 1) - 1 + (2 * j + if false = true then 1 else 0)
          = 2 * (2 ^ l - 1 + j) + 1 := by simp; omega
      rw [e1, ← hc _ he]
      simp only [b2n, matRY, mat2, Bool.false_eq_true, if_false, if_true]
      ring
    · have e1 : 2 ^ (l + 1) - 1 + (2 * j + if true = true then 1 else 0)
          = 2 * (2 ^ l - 1 + j) + 2 := by simp; omega
      rw [e1, ← hs _ he]
      simp only [b2n, matRY, mat2, if_true]
      simp
      ring
  · rw [if_neg hcnd, h]
    by_cases hv : val l x = j
    · have hex : ¬ ∀ q, l < q → q < n → x q = false := by
        intro h2
        exact hcnd ⟨(prefix_iff l j hj x).mpr hv, h2⟩
      have hz1 : levelF R l x = 0 := by
        unfold levelF
        rw [ind_neg, zero_mul]
        intro h3
        exact hex (fun q hq _ => h3 q (by omega))
      have hz2 : levelF R (l + 1) x = 0 := by
        unfold levelF
        rw [ind_neg, zero_mul]
        intro h3
        exact hex (fun q hq _ => h3 q (by omega))
      unfold innerF
      rw [hz1, hz2]
      simp
    · unfold innerF
      by_cases h1 : val l x < j
      · rw [if_pos h1, if_pos (by omega)]
      · rw [if_neg h1, if_neg (by omega)]

/-- invariant inside level `l`. -/
theorem inner_inv {l : Nat} (hl : l < n) (ψ : Lab → α)
    (h : ∀ y, R 0 * ψ y = levelF R l y) : ∀ j, j ≤ 2 ^ l → ∀ y,
    R 0 * runCircuit (((List.range j).flatMap (hopfBlock n l)).map (BG.sem P)) ψ y
      = innerF R l j y := by
  intro j
  induction j with
  | zero =>
    intro _ y
    rw [innerF_zero]
    exact h y
  | succ j ih =>
    intro hj y
    rw [List.range_succ, List.flatMap_append, List.map_append, runCircuit_append]
    simp only [List.flatMap_cons, List.flatMap_nil, List.append_nil]
    exact inner_step P n R hc hs hl (by omega) _ (ih (by omega)) y

/-- level `l` moves the level invariant from `l` to `l + 1`. -/
theorem level_step {l : Nat} (hl : l < n) (ψ : Lab → α)
    (h : ∀ y, R 0 * ψ y = levelF R l y) (y : Lab) :
    R 0 * runCircuit ((hopfLevel n l).map (BG.sem P)) ψ y = levelF R (l + 1) y := by
  rw [← innerF_full]
  exact inner_inv P n R hc hs hl ψ h (2 ^ l) (le_refl _) y

/-- invariant between the levels. -/
theorem levels_inv : ∀ m, m ≤ n → ∀ y,
    R 0 * runCircuit (((List.range m).flatMap (hopfLevel n)).map (BG.sem P)) (ket zeroLab) y
      = levelF R m y := by
  intro m
  induction m with
  | zero =>
    intro _ y
    simp only [List.range_zero, List.flatMap_nil, List.map_nil, runCircuit_nil]
    unfold levelF
    rw [val_zero, ket_eq_ind, mul_comm]
    congr 1
    apply ind_congr
    constructor
    · intro h q _; rw [h]; rfl
    · intro h; funext q; exact h q (Nat.zero_le q)
  | succ m ih =>
    intro hm y
    rw [List.range_succ, List.flatMap_append, List.map_append, runCircuit_append]
    simp only [List.flatMap_cons, List.flatMap_nil, List.append_nil]
    exact level_step P n R hc hs (by omega) _ (ih (by omega)) y

end loader

/-- **Hopf loader, every `n`.**  With `R` the heap-ordered tree of partial norms (root `R 0`,
children `R e · cos θ_e`, `R e · sin θ_e`, leaves the data), `R 0 ·` the prepared state is the
data vector on the `n`-qubit register. -/
theorem hopf_loader (P : Par2 α) (n : Nat) (x R : Nat → α)
    (hleaf : ∀ p, p < 2 ^ n → R (2 ^ n - 1 + p) = x p)
    (hc : ∀ e, e < 2 ^ n - 1 → R e * P.c e = R (2 * e + 1))
    (hs : ∀ e, e < 2 ^ n - 1 → R e * P.s e = R (2 * e + 2)) (y : Lab) :
    R 0 * runCircuit ((hopf n).map (BG.sem P)) (ket zeroLab) y
      = ind (∀ q, n ≤ q → y q = false) * x (val n y) := by
  have h := levels_inv P n R hc hs n (le_refl n) y
  unfold hopf
  rw [h]
  unfold levelF
  rw [hleaf _ (val_lt n y)]

/-! ### sanity -/

example : hopf 1 = [{ kind := .RY, q0 := 0, e := 0, ctrl := [] }] := by decide

example : (hopf 2).map BG.show =
    ["x 1", "ry 0 0 c 1", "x 1",
     "x 0", "ry 1 1 c 0", "x 0",
     "ry 1 2 c 0"] := by decide

end QV.Enc
