/-
  Counting identities for bit-flip readout noise with the uniform numbers on a finite grid:
  the oracle takes the values `x/D`, `x < D`, the probabilities are `a/D`, `a ≤ D`; everything is
  stated on the numerators (`P := ℕ`, the comparison `u < p` is `x < a`).
-/
import Mathlib.Algebra.BigOperators.Group.Finset.Basic
import Mathlib.Algebra.BigOperators.Ring.Finset
import Mathlib.Algebra.BigOperators.Fin
import Mathlib.Data.Fintype.BigOperators
import Mathlib.Data.Fintype.Pi
import Mathlib.Logic.Equiv.Prod
import Mathlib.Tactic.Ring
import Mathlib.Tactic.Common
import QV.Proofs.BitflipSM

set_option linter.unusedSectionVars false
set_option linter.unusedSimpArgs false
set_option linter.unusedVariables false

namespace QV.BF
open QV Finset

/-- number of grid values below a threshold. -/
theorem sum_range_lt (D a : ℕ) (ha : a ≤ D) : ∑ x ∈ range D, (if x < a then 1 else 0) = a := by
  rw [Finset.sum_ite, Finset.sum_const_zero, add_zero, Finset.sum_const, smul_eq_mul, mul_one]
  have : (range D).filter (fun x => x < a) = range a := by
    ext x; simp only [mem_filter, mem_range]; omega
  rw [this, card_range]

/-- **one entry, all grid values**: out of the `D` equally likely values of the uniform number,
a clean `0` is reported as `1` for exactly `a0` of them and a clean `1` is reported as `1` for
exactly `D - a1` of them — the binary asymmetric channel `[[1-p0, p0], [p1, 1-p1]]`. -/
theorem cell_count (D a0 a1 : ℕ) (h0 : a0 ≤ D) (h1 : a1 ≤ D) {b : ℕ} (hb : b ≤ 1) :
    ∑ x ∈ range D, flipBit a0 a1 x b = (1 - b) * a0 + b * (D - a1) := by
  have : b = 0 ∨ b = 1 := by omega
  rcases this with rfl | rfl
  · simp only [flipBit_zero]
    rw [sum_range_lt D a0 h0]; simp
  · simp only [flipBit_one]
    have e : ∀ x, (if x < a1 then 0 else 1) = 1 - (if x < a1 then 1 else 0) := by
      intro x; split <;> rfl
    have hle : ∀ x ∈ range D, (if x < a1 then 1 else 0) ≤ 1 := by intro x _; split <;> omega
    have hs := Finset.sum_tsub_distrib (range D) hle
    simp only [e]
    rw [hs, sum_range_lt D a1 h1]
    simp

/-- summing a function of ONE coordinate over all assignments. -/
theorem sum_pi_eval {n D : ℕ} (s : Fin n) (g : Fin D → ℕ) :
    ∑ x : Fin n → Fin D, g (x s) = D ^ (n - 1) * ∑ y : Fin D, g y := by
  rw [← (Equiv.funSplitAt s (Fin D)).symm.sum_comp]
  rw [Fintype.sum_prod_type]
  have : ∀ (y : Fin D) (r : { j // j ≠ s } → Fin D),
      ((Equiv.funSplitAt s (Fin D)).symm (y, r)) s = y := by
    intro y r
    simp [Equiv.funSplitAt, Equiv.piSplitAt]
  simp only [this, Finset.sum_const, smul_eq_mul, Finset.card_univ, Fintype.card_fun,
    Fintype.card_fin, Fintype.card_subtype_compl, Fintype.card_subtype_eq]
  rw [Finset.mul_sum]

/-- **marginal of one measured qubit over all oracle values**: `col s` is the clean bit of the
qubit in shot `s`; summing the number of reported ones over all `D^n` assignments of grid values
to the `n` shots gives `D^(n-1) · Σ_s ((1 - col s)·a0 + col s·(D - a1))`: the expected number of
reported ones is `n0·p0 + n1·(1 - p1)` with `n0`, `n1` the clean counts — the clean marginal
pushed through the channel `[[1-p0, p0], [p1, 1-p1]]`. -/
theorem column_count (n D a0 a1 : ℕ) (h0 : a0 ≤ D) (h1 : a1 ≤ D) (col : Fin n → ℕ)
    (hcol : ∀ s, col s ≤ 1) :
    ∑ x : Fin n → Fin D, ∑ s : Fin n, flipBit a0 a1 (x s : ℕ) (col s)
      = D ^ (n - 1) * ∑ s : Fin n, ((1 - col s) * a0 + col s * (D - a1)) := by
  rw [Finset.sum_comm, Finset.mul_sum]
  apply Finset.sum_congr rfl
  intro s _
  rw [sum_pi_eval s (fun y => flipBit a0 a1 (y : ℕ) (col s))]
  congr 1
  rw [Fin.sum_univ_eq_sum_range (fun x => flipBit a0 a1 x (col s)) D]
  exact cell_count D a0 a1 h0 h1 (hcol s)

end QV.BF
