/-
  QV.Proofs.Dispatch — soundness of well-formed conversion pipelines (QV.Model.Dispatch).
-/
import QV.Model.Dispatch

namespace QV.Dispatch

/-- an interpretation of the call graph: what it means for an object to represent a channel in a
representation under a configuration, and what every function computes.  `repr_rel`: a
representation only depends on its relevant parameters. -/
structure Sem (Obj Chan : Type) where
  repr : Rep → Cfg → Obj → Chan → Prop
  fn : String → Cfg → Obj → Obj
  repr_rel : ∀ (r : Rep) (c c' : Cfg) (x : Obj) (ch : Chan),
    (∀ p ∈ relevant r, c.get p = c'.get p) → repr r c x ch → repr r c' x ch

variable {Obj Chan : Type}

/-- the function converts a representation of ANY channel into a representation of the same
channel, under every configuration. -/
def SoundT (S : Sem Obj Chan) (t : Typing) : Prop :=
  ∀ (c : Cfg) (x : Obj) (ch : Chan), S.repr t.2.1 c x ch → S.repr t.2.2 c (S.fn t.1 c x) ch

/-- what a pipeline computes. -/
def run (S : Sem Obj Chan) (steps : List Step) (c : Cfg) (x : Obj) : Obj :=
  steps.foldl (fun y st => S.fn st.callee (evalArgs st.args c) y) x

theorem evalArgs_get (a : Args) (c : Cfg) (p : Par) :
    (evalArgs a c).get p = evalArg c p (a.get p) := by
  cases p <;> rfl

theorem stepOk_agree {Γ : List Typing} {st : Step} (h : stepOk Γ st = true) (c : Cfg) :
    (st.callee, st.src, st.dst) ∈ Γ
      ∧ (∀ p ∈ relevant st.src, c.get p = (evalArgs st.args c).get p)
      ∧ (∀ p ∈ relevant st.dst, (evalArgs st.args c).get p = c.get p) := by
  simp only [stepOk, Bool.and_eq_true, List.all_eq_true, List.mem_append, beq_iff_eq,
    List.contains_iff_mem] at h
  obtain ⟨⟨⟨hmem, _⟩, hall⟩, _⟩ := h
  refine ⟨hmem, fun p hp => ?_, fun p hp => ?_⟩
  · rw [evalArgs_get, hall p (Or.inl hp)]; rfl
  · rw [evalArgs_get, hall p (Or.inr hp)]; rfl

/-- a well-formed chain of sound functions converts a representation (under the CALLER's
configuration) of a channel into a representation of the same channel. -/
theorem chain_sound (S : Sem Obj Chan) {Γ : List Typing} (hΓ : ∀ t ∈ Γ, SoundT S t) :
    ∀ (steps : List Step) (s d : Rep), chainOk Γ s steps d = true →
      ∀ (c : Cfg) (x : Obj) (ch : Chan), S.repr s c x ch → S.repr d c (run S steps c x) ch
  | [], s, d, h, c, x, ch, hx => by
    simp only [chainOk, beq_iff_eq] at h
    subst h; exact hx
  | st :: rest, s, d, h, c, x, ch, hx => by
    simp only [chainOk, Bool.and_eq_true, beq_iff_eq] at h
    obtain ⟨⟨hs, hst⟩, hrest⟩ := h
    obtain ⟨hmem, hin, hout⟩ := stepOk_agree hst c
    subst hs
    have h1 := S.repr_rel st.src c (evalArgs st.args c) x ch hin hx
    have h2 := hΓ _ hmem (evalArgs st.args c) x ch h1
    have h3 := S.repr_rel st.dst (evalArgs st.args c) c _ ch hout h2
    exact chain_sound S hΓ rest st.dst d hrest c _ ch h3

/-- the whole table: if the primitives are sound and every wrapper computes its pipeline, every
wrapper is sound (induction along the call order). -/
theorem table_sound (S : Sem Obj Chan) :
    ∀ (rows : List Row) (Γ : List Typing), (∀ t ∈ Γ, SoundT S t) → tableOk Γ rows = true →
      (∀ r ∈ rows, ∀ c x, S.fn r.name c x = run S r.steps c x) →
      ∀ r ∈ rows, SoundT S (r.name, r.src, r.dst)
  | [], _, _, _, _, r, hr => by simp at hr
  | r0 :: rs, Γ, hΓ, hok, hdef, r, hr => by
    simp only [tableOk, Bool.and_eq_true] at hok
    obtain ⟨⟨_, hchain⟩, hrest⟩ := hok
    have h0 : SoundT S (r0.name, r0.src, r0.dst) := by
      intro c x ch hx
      show S.repr r0.dst c (S.fn r0.name c x) ch
      rw [hdef r0 (by simp) c x]
      exact chain_sound S hΓ r0.steps r0.src r0.dst hchain c x ch hx
    rcases List.mem_cons.mp hr with rfl | hr'
    · exact h0
    · refine table_sound S rs ((r0.name, r0.src, r0.dst) :: Γ) ?_ hrest
        (fun r hr c x => hdef r (List.mem_cons_of_mem _ hr) c x) r hr'
      intro t ht
      rcases List.mem_cons.mp ht with rfl | ht'
      · exact h0
      · exact hΓ t ht'

end QV.Dispatch
