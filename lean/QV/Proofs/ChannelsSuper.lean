/-
  QV.Proofs.ChannelsSuper — the superoperator views of the channel model
  (`choiOf`, `liouvilleOf`, `choiTerms`, `fullMat` of QV/Model/Channels.lean) describe the
  executed map (`applyChannelDM`), via the index model of C17 (QV/Model/Superop.lean).
-/
import Mathlib.Algebra.BigOperators.Group.Finset.Basic
import Mathlib.Algebra.BigOperators.Ring.Finset
import Mathlib.Algebra.BigOperators.Group.List.Basic
import Mathlib.Algebra.BigOperators.Ring.List
import QV.Proofs.Channels
import QV.Proofs.Depol
import QV.Proofs.Superop

namespace QV
open Finset
open QV.Superop (Mat Order vecIdx vectorization matVec applyChoi applyKraus krausToChoi
  choiToLiouville sumList sumRange)

variable {α : Type} [CommRing α]

/-! ### (a) `choiOf` / `reshuffle` / `liouvilleOf` in terms of the C17 index model -/

/-- the vectorisation order named by the flag `col` of the channel model. -/
def ordOf (col : Bool) : Order := if col then .column else .row

theorem ordOf_ne_system (col : Bool) : ordOf col ≠ .system := by
  cases col <;> simp [ordOf]

omit [CommRing α] in
/-- the vector `v` that `choiOf` builds from an operator is the C17 vectorisation. -/
theorem choiVec_eq (D n : Nat) (col : Bool) (K : Nat → Nat → α) (a : Nat) :
    (if col then K (a % D) (a / D) else K (a / D) (a % D))
      = vectorization (ordOf col) D n K a := by
  cases col <;> rfl

theorem choiOf_acc (conj : α → α) (D : Nat) (col : Bool) (terms : List (α × (Nat → Nat → α)))
    (r s : Nat) (acc : α) :
    terms.foldl (fun acc t =>
        let v : Nat → α := fun a => if col then t.2 (a % D) (a / D) else t.2 (a / D) (a % D)
        acc + t.1 * (v r * conj (v s))) acc
      = acc + (terms.map (fun t => t.1 *
          ((if col then t.2 (r % D) (r / D) else t.2 (r / D) (r % D))
            * conj (if col then t.2 (s % D) (s / D) else t.2 (s / D) (s % D))))).sum := by
  induction terms generalizing acc with
  | nil => simp
  | cons t ts ih => simp only [List.foldl_cons, ih, List.map_cons, List.sum_cons]; ring

/-- **sum form of `to_choi`**: `Σ_k c_k · vec(K_k)[r] · conj(vec(K_k)[s])`. -/
theorem choiOf_eq_sum (conj : α → α) (D n : Nat) (col : Bool)
    (terms : List (α × (Nat → Nat → α))) (r s : Nat) :
    choiOf conj D col terms r s
      = (terms.map (fun t => t.1 * (vectorization (ordOf col) D n t.2 r
            * conj (vectorization (ordOf col) D n t.2 s)))).sum := by
  unfold choiOf
  rw [choiOf_acc, zero_add]
  simp only [choiVec_eq D n]

/-- … i.e. the weighted sum of the C17 model's `kraus_to_choi` of each operator. -/
theorem choiOf_eq_krausToChoi (conj : α → α) (D n : Nat) (col : Bool)
    (terms : List (α × (Nat → Nat → α))) (r s : Nat) :
    choiOf conj D col terms r s
      = (terms.map (fun t => t.1 * krausToChoi conj (ordOf col) D n [t.2] r s)).sum := by
  rw [choiOf_eq_sum conj D n]
  simp [krausToChoi, sumList]

omit [CommRing α] in
/-- `_reshuffling` of the channel model is the one of the C17 model (no index bound needed). -/
theorem reshuffle_eq (D : Nat) (col : Bool) (A : Nat → Nat → α) :
    reshuffle D col A = QV.Superop.reshuffle (ordOf col) D A := by
  cases col <;> rfl

theorem liouvilleOf_eq (conj : α → α) (D : Nat) (col : Bool)
    (terms : List (α × (Nat → Nat → α))) :
    liouvilleOf conj D col terms = choiToLiouville (ordOf col) D (choiOf conj D col terms) := by
  unfold liouvilleOf choiToLiouville
  exact reshuffle_eq D col _

/-! ### (b) the action of `to_choi` / `to_liouville` -/

/-- SPEC: the weighted Kraus action `Σ_k c_k · (K_k ρ K_k†)[i,j]` on a `D × D` operator. -/
def wKraus (conj : α → α) (D : Nat) (terms : List (α × (Nat → Nat → α))) (ρ : Mat α)
    (i j : Nat) : α :=
  (terms.map (fun t => t.1 * ∑ a ∈ range D, ∑ b ∈ range D, t.2 i a * ρ a b * conj (t.2 j b))).sum

theorem applyKraus_single (conj : α → α) (D : Nat) (K : Mat α) (ρ : Mat α) (i j : Nat) :
    applyKraus conj D [K] ρ i j = ∑ a ∈ range D, ∑ b ∈ range D, K i a * ρ a b * conj (K j b) := by
  simp [applyKraus, sumList, QV.Superop.sumRange_eq_sum]

/-- the Choi action is linear in the Choi matrix (list-weighted sums). -/
theorem applyChoi_list_sum {β : Type} (o : Order) (D n : Nat) (l : List β) (c : β → α)
    (C : β → Mat α) (ρ : Mat α) (i j : Nat) :
    applyChoi o D n (fun r s => (l.map (fun t => c t * C t r s)).sum) ρ i j
      = (l.map (fun t => c t * applyChoi o D n (C t) ρ i j)).sum := by
  simp only [applyChoi, QV.Superop.sumRange_eq_sum]
  induction l with
  | nil => simp
  | cons t ts ih =>
    simp only [List.map_cons, List.sum_cons, add_mul, Finset.sum_add_distrib, ih, mul_sum,
      mul_assoc]

/-- `to_choi` acts as the weighted Kraus map (both orders, every dimension). -/
theorem applyChoi_choiOf (conj : α → α) (D n : Nat) (col : Bool)
    (terms : List (α × (Nat → Nat → α))) (ρ : Mat α) {i j : Nat} (hi : i < D) (hj : j < D) :
    applyChoi (ordOf col) D n (choiOf conj D col terms) ρ i j = wKraus conj D terms ρ i j := by
  have hw : QV.Superop.WF (ordOf col) D n := by cases col <;> trivial
  have e : choiOf conj D col terms
      = fun r s => (terms.map (fun t => t.1 * krausToChoi conj (ordOf col) D n [t.2] r s)).sum := by
    funext r s; exact choiOf_eq_krausToChoi conj D n col terms r s
  rw [e, applyChoi_list_sum (ordOf col) D n terms (fun t => t.1)
    (fun t => krausToChoi conj (ordOf col) D n [t.2]) ρ i j, wKraus]
  congr 1
  apply List.map_congr_left
  intro t _
  rw [QV.Superop.applyChoi_krausToChoi conj (ordOf col) hw [t.2] ρ hi hj, applyKraus_single]

/-- **`to_liouville(ch) · vec(ρ) = vec(Σ_k c_k K_k ρ K_k†)`** for every term list, every
dimension, both orders, every (not necessarily Hermitian) `ρ`. -/
theorem matVec_liouvilleOf (conj : α → α) (D n : Nat) (col : Bool)
    (terms : List (α × (Nat → Nat → α))) (ρ : Mat α) {i j : Nat} (hi : i < D) (hj : j < D) :
    matVec (D * D) (liouvilleOf conj D col terms) (vectorization (ordOf col) D n ρ)
        (vecIdx (ordOf col) D n i j)
      = wKraus conj D terms ρ i j := by
  rw [liouvilleOf_eq,
    QV.Superop.matVec_choiToLiouville (ordOf col) (ordOf_ne_system col) n _ ρ hi hj,
    applyChoi_choiOf conj D n col terms ρ hi hj]

/-! ### (c) the bridge: a gate on labels of an `n`-qubit register acts as its full matrix -/

theorem idxOf?_range' {n q : Nat} (h : q < n) : (List.range n).idxOf? q = some q := by
  unfold List.idxOf?
  rw [List.findIdx?_eq_some_iff_getElem]
  refine ⟨by simpa using h, by simp, ?_⟩
  intro j hj
  simp
  omega

/-- `Lab.ofIndex` is the closed-form local-index label on `range n` over the all-false label. -/
theorem ofIndex_eq_wIdx (n i : Nat) :
    Lab.ofIndex n i = Lab.wIdx (fun _ => false) (List.range n) i := by
  rw [← Lab.withIdx_eq_wIdx]
  funext q
  by_cases h : q < n
  · simp [Lab.ofIndex, Lab.withIdx, idxOf?_range' h, h]
  · have hnone : (List.range n).idxOf? q = none := by
      rw [List.idxOf?_eq_none_iff]; simpa using h
    simp [Lab.ofIndex, Lab.withIdx, h, hnone]

theorem toIndex_ofIndex' {n i : Nat} (hi : i < 2 ^ n) : Lab.toIndex n (Lab.ofIndex n i) = i := by
  rw [ofIndex_eq_wIdx]
  exact Lab.idx_wIdx _ List.nodup_range (by simpa using hi)

theorem toIndex_lt (n : Nat) (x : Lab) : Lab.toIndex n x < 2 ^ n := by
  have := Lab.idx_lt (List.range n) x
  simpa [Lab.toIndex] using this

/-- a label lives on the `n`-qubit register: all bits `≥ n` are `false`. -/
def Lab.OnReg (n : Nat) (y : Lab) : Prop := ∀ q, n ≤ q → y q = false

theorem ofIndex_onReg (n i : Nat) : Lab.OnReg n (Lab.ofIndex n i) := by
  intro q hq
  have : ¬ q < n := by omega
  simp [Lab.ofIndex, this]

theorem ofIndex_toIndex {n : Nat} {y : Lab} (hy : Lab.OnReg n y) :
    Lab.ofIndex n (Lab.toIndex n y) = y := by
  rw [ofIndex_eq_wIdx, Lab.toIndex]
  have e : Lab.wIdx (fun _ => false) (List.range n) (Lab.idx (List.range n) y)
      = Lab.wIdx y (List.range n) (Lab.idx (List.range n) y) := by
    apply Lab.wIdx_agree
    intro r hr
    have : n ≤ r := by simpa using hr
    exact (hy r this).symm
  rw [e, Lab.wIdx_idx]

theorem wIdx_onReg {n : Nat} {x : Lab} (hx : Lab.OnReg n x) {ts : List Nat}
    (hts : ∀ t ∈ ts, t < n) (k : Nat) : Lab.OnReg n (Lab.wIdx x ts k) := by
  intro q hq
  have : q ∉ ts := fun h => by have := hts q h; omega
  rw [Lab.wIdx_of_not_mem _ _ this]
  exact hx q hq

/-- reading a function at `ofIndex (toIndex y)` through the basis indicator. -/
theorem sum_indicator_ofIndex {n : Nat} {y : Lab} (hy : Lab.OnReg n y) (ψ : Lab → α) :
    ∑ a ∈ range (2 ^ n), (if Lab.toIndex n y = a then (1 : α) else 0) * ψ (Lab.ofIndex n a)
      = ψ y := by
  simp only [ite_mul, one_mul, zero_mul]
  rw [sum_ite_eq, if_pos (mem_range.mpr (toIndex_lt n y)), ofIndex_toIndex hy]

/-- **state-vector bridge**: on the labels of an `n`-qubit register a gate with targets `< n`
acts as the matrix `fullMat n g` (controls arbitrary). -/
theorem applyGate_ofIndex (n : Nat) (g : MGate α) (hn : g.targets.Nodup)
    (hts : ∀ t ∈ g.targets, t < n) (ψ : Lab → α) (i : Nat) :
    applyGate g ψ (Lab.ofIndex n i)
      = ∑ a ∈ range (2 ^ n), fullMat n g i a * ψ (Lab.ofIndex n a) := by
  have hx := ofIndex_onReg n i
  unfold fullMat
  rw [applyGate_eq_sum g hn]
  simp only [applyGate_eq_sum g hn]
  cases hc : Lab.allOne g.controls (Lab.ofIndex n i)
  · simp only [Bool.false_eq_true, if_false]
    exact (sum_indicator_ofIndex hx ψ).symm
  · simp only [if_true, sum_mul]
    rw [sum_comm]
    apply sum_congr rfl
    intro k _
    simp only [mul_assoc]
    rw [← mul_sum, sum_indicator_ofIndex (wIdx_onReg hx hts k) ψ]

/-- the full matrix of the conjugated gate is the conjugate of the full matrix. -/
theorem fullMat_conjMat (conj : α →+* α) (n : Nat) (g : MGate α) (j b : Nat) :
    fullMat n (g.conjMat conj) j b = conj (fullMat n g j b) := by
  unfold fullMat
  rw [← applyGate_conj conj (map_add conj) (map_mul conj)]
  congr 1
  funext c
  split <;> simp

/-- the operator `ρ` restricted to the register, as a `2^n × 2^n` matrix. -/
def dmMat (n : Nat) (ρ : DM α) : Mat α := fun a b => ρ (Lab.ofIndex n a) (Lab.ofIndex n b)

/-- **density-matrix bridge**: `G ρ G†` on register labels is `F ρ F†` with `F = fullMat n g`
(what `FusedGate(*range(n)).append(gate).matrix()` returns). -/
theorem applyGateDM_ofIndex (conj : α →+* α) (n : Nat) (g : MGate α) (hn : g.targets.Nodup)
    (hts : ∀ t ∈ g.targets, t < n) (ρ : DM α) (i j : Nat) :
    applyGateDM conj g ρ (Lab.ofIndex n i) (Lab.ofIndex n j)
      = ∑ a ∈ range (2 ^ n), ∑ b ∈ range (2 ^ n),
          fullMat n g i a * dmMat n ρ a b * conj (fullMat n g j b) := by
  unfold applyGateDM
  rw [applyLeft_eq, applyGate_ofIndex n g hn hts]
  apply sum_congr rfl
  intro a _
  rw [applyRight_eq, applyGate_ofIndex n (g.conjMat conj) (by simpa using hn) (by simpa using hts),
    mul_sum]
  apply sum_congr rfl
  intro b _
  rw [fullMat_conjMat]
  simp only [dmMat]
  ring

/-! ### (c, end) `to_liouville` / `to_choi` of a channel describe the executed map -/

theorem wKraus_append (conj : α → α) (D : Nat) (l₁ l₂ : List (α × (Nat → Nat → α))) (ρ : Mat α)
    (i j : Nat) : wKraus conj D (l₁ ++ l₂) ρ i j = wKraus conj D l₁ ρ i j + wKraus conj D l₂ ρ i j := by
  simp [wKraus]

theorem wKraus_nil (conj : α → α) (D : Nat) (ρ : Mat α) (i j : Nat) :
    wKraus conj D [] ρ i j = 0 := by
  simp [wKraus]

/-- the identity term that `to_choi` appends contributes `c0 · ρ`. -/
theorem wKraus_identity (conj : α →+* α) (D : Nat) (c0 : α) (ρ : Mat α) {i j : Nat}
    (hi : i < D) (hj : j < D) : wKraus conj D [(c0, matI)] ρ i j = c0 * ρ i j := by
  simp only [wKraus, List.map_cons, List.map_nil, List.sum_cons, List.sum_nil, add_zero, matI]
  congr 1
  rw [sum_eq_single i]
  · rw [sum_eq_single j]
    · simp
    · intro b _ hb; simp [Ne.symm hb]
    · intro h; exact absurd (mem_range.mpr hj) h
  · intro a _ ha; simp [Ne.symm ha]
  · intro h; exact absurd (mem_range.mpr hi) h

/-- the channel's own terms, through the full matrices, give the executed Kraus sum. -/
theorem wKraus_fullMat (conj : α →+* α) (n : Nat) (ch : Chan α)
    (hg : ∀ g ∈ ch.gates, g.targets.Nodup ∧ ∀ t ∈ g.targets, t < n) (ρ : DM α) (i j : Nat) :
    wKraus conj (2 ^ n) (ch.coeffs.zip (ch.gates.map (fullMat n))) (dmMat n ρ) i j
      = ((ch.coeffs.zip ch.gates).map
          (fun t => t.1 * applyGateDM conj t.2 ρ (Lab.ofIndex n i) (Lab.ofIndex n j))).sum := by
  rw [wKraus, List.zip_map_right, List.map_map]
  congr 1
  apply List.map_congr_left
  intro t ht
  obtain ⟨hn, hts⟩ := hg t.2 (List.of_mem_zip ht).2
  simp only [Function.comp, Prod.map, id]
  rw [applyGateDM_ofIndex conj n t.2 hn hts ρ i j]

/-- the weighted Kraus action of `choiTerms` is the executed channel, entry by entry. -/
theorem wKraus_choiTerms_executes (conj : α →+* α) (n : Nat) (ch : Chan α)
    (hg : ∀ g ∈ ch.gates, g.targets.Nodup ∧ ∀ t ∈ g.targets, t < n) (ρ : DM α) {i j : Nat}
    (hi : i < 2 ^ n) (hj : j < 2 ^ n) :
    wKraus conj (2 ^ n) (choiTerms n ch true (1 - ch.csum)) (dmMat n ρ) i j
      = applyChannelDM conj ch ρ (Lab.ofIndex n i) (Lab.ofIndex n j) := by
  rw [choiTerms, if_pos rfl, wKraus_append, wKraus_identity conj _ _ _ hi hj,
    wKraus_fullMat conj n ch hg, applyChannelDM, krausFold_eq]
  simp only [dmMat]
  ring

/-- channels whose coefficients already sum to one (`addId = false`). -/
theorem wKraus_choiTerms_executes_noId (conj : α →+* α) (n : Nat) (ch : Chan α)
    (hg : ∀ g ∈ ch.gates, g.targets.Nodup ∧ ∀ t ∈ g.targets, t < n) (hsum : ch.csum = 1)
    (c0 : α) (ρ : DM α) (i j : Nat) :
    wKraus conj (2 ^ n) (choiTerms n ch false c0) (dmMat n ρ) i j
      = applyChannelDM conj ch ρ (Lab.ofIndex n i) (Lab.ofIndex n j) := by
  rw [choiTerms, if_neg (by simp), wKraus_append, wKraus_nil,
    wKraus_fullMat conj n ch hg, applyChannelDM, krausFold_eq, hsum]
  ring

end QV
