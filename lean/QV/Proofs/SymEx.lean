/-
  QV.Proofs.SymEx — denotation of `Ex` in ℂ and soundness of `Ex.clin`, `Lin.toMono`
  and the normaliser `Ex.norm`.
-/
import QV.Proofs.SymPoly

namespace QV

open Complex

/-! ## Denotation of expressions -/

/-- the real/complex-arithmetic reading of an expression. -/
noncomputable def Ex.denote (θ : Nat → ℝ) : Ex → ℂ
  | .rat n d => (n : ℂ) / (d : ℂ)
  | .I => Complex.I
  | .pi => (Real.pi : ℂ)
  | .sqrt2 => ((Real.sqrt 2 : ℝ) : ℂ)
  | .par i => (θ i : ℂ)
  | .add a b => a.denote θ + b.denote θ
  | .sub a b => a.denote θ - b.denote θ
  | .mul a b => a.denote θ * b.denote θ
  | .div a b => a.denote θ / b.denote θ
  | .neg a => - a.denote θ
  | .cos a => Complex.cos (a.denote θ)
  | .sin a => Complex.sin (a.denote θ)
  | .exp a => Complex.exp (a.denote θ)
  | .conj a => starRingEnd ℂ (a.denote θ)

theorem ratOf_cast (n : Int) (d : Nat) : ((ratOf n d : ℚ) : ℂ) = (n : ℂ) / (d : ℂ) := by
  simp [ratOf]

/-! ## Linear forms -/

/-- `Σ_i c_i · θ_(k+i)`. -/
noncomputable def Lin.coefSum (θ : Nat → ℝ) : Nat → List Rat → ℂ
  | _, [] => 0
  | k, c :: cs => ((c : ℚ) : ℂ) * (θ k : ℂ) + Lin.coefSum θ (k + 1) cs

noncomputable def Lin.eval (θ : Nat → ℝ) (l : Lin) : ℂ :=
  Lin.coefSum θ 0 l.coef + ((l.piC : ℚ) : ℂ) * (Real.pi : ℂ) + ((l.c0 : ℚ) : ℂ)

noncomputable def CLin.eval (θ : Nat → ℝ) (x : CLin) : ℂ :=
  x.re.eval θ + Complex.I * x.im.eval θ

namespace Lin

@[simp] theorem coefSum_nil (θ : Nat → ℝ) (k : Nat) : coefSum θ k [] = 0 := rfl
@[simp] theorem coefSum_cons (θ : Nat → ℝ) (k : Nat) (c : Rat) (cs : List Rat) :
    coefSum θ k (c :: cs) = ((c : ℚ) : ℂ) * (θ k : ℂ) + coefSum θ (k + 1) cs := rfl

theorem coefSum_zipAdd (θ : Nat → ℝ) :
    ∀ (k : Nat) (a b : List Rat),
      coefSum θ k (zipAdd a b) = coefSum θ k a + coefSum θ k b
  | k, [], b => by simp [zipAdd]
  | k, a :: as, [] => by simp [zipAdd]
  | k, a :: as, b :: bs => by
    simp only [zipAdd, coefSum_cons, coefSum_zipAdd θ (k + 1) as bs]
    push_cast; ring

theorem coefSum_map_mul (θ : Nat → ℝ) (c : Rat) :
    ∀ (k : Nat) (a : List Rat),
      coefSum θ k (a.map (c * ·)) = ((c : ℚ) : ℂ) * coefSum θ k a
  | k, [] => by simp
  | k, a :: as => by
    simp only [List.map_cons, coefSum_cons, coefSum_map_mul θ c (k + 1) as]
    push_cast; ring

theorem coefSum_unitVec (θ : Nat → ℝ) :
    ∀ (i k : Nat), coefSum θ k (unitVec i) = (θ (k + i) : ℂ)
  | 0, k => by simp [unitVec]
  | i + 1, k => by
    simp only [unitVec, coefSum_cons, coefSum_unitVec θ i (k + 1)]
    rw [show k + 1 + i = k + (i + 1) by omega]
    simp

theorem coefSum_of_all_zero (θ : Nat → ℝ) :
    ∀ (k : Nat) (a : List Rat), a.all (· == 0) = true → coefSum θ k a = 0
  | k, [], _ => rfl
  | k, a :: as, h => by
    simp only [List.all_cons, Bool.and_eq_true, beq_iff_eq] at h
    simp [h.1, coefSum_of_all_zero θ (k + 1) as h.2]

theorem eval_zero (θ : Nat → ℝ) : Lin.eval θ Lin.zero = 0 := by
  simp [Lin.eval, Lin.zero]

theorem eval_add (θ : Nat → ℝ) (a b : Lin) :
    Lin.eval θ (Lin.add a b) = Lin.eval θ a + Lin.eval θ b := by
  simp only [Lin.eval, Lin.add, coefSum_zipAdd]
  push_cast; ring

theorem eval_smul (θ : Nat → ℝ) (k : Rat) (a : Lin) :
    Lin.eval θ (Lin.smul k a) = ((k : ℚ) : ℂ) * Lin.eval θ a := by
  simp only [Lin.eval, Lin.smul, coefSum_map_mul]
  push_cast; ring

theorem eval_neg (θ : Nat → ℝ) (a : Lin) :
    Lin.eval θ (Lin.neg a) = - Lin.eval θ a := by
  simp [Lin.neg, eval_smul]

theorem eval_of_isConst (θ : Nat → ℝ) (a : Lin) (h : a.isConst = true) :
    Lin.eval θ a = ((a.c0 : ℚ) : ℂ) := by
  simp only [Lin.isConst, Bool.and_eq_true, beq_iff_eq] at h
  simp [Lin.eval, coefSum_of_all_zero θ 0 a.coef h.1, h.2]

theorem eval_of_isZero (θ : Nat → ℝ) (a : Lin) (h : a.isZero = true) :
    Lin.eval θ a = 0 := by
  simp only [Lin.isZero, Bool.and_eq_true, beq_iff_eq] at h
  rw [eval_of_isConst θ a h.1, h.2]; simp

end Lin

/-! ## `Ex.clin` -/

theorem Ex.clin_sound (θ : Nat → ℝ) :
    ∀ (e : Ex) (x : CLin), e.clin = some x → e.denote θ = x.eval θ := by
  intro e
  induction e with
  | rat n d =>
    intro x h
    simp only [Ex.clin, Option.some.injEq] at h
    subst h
    simp [Ex.denote, CLin.eval, Lin.eval, Lin.zero, ratOf]
  | I =>
    intro x h
    simp only [Ex.clin, Option.some.injEq] at h
    subst h
    simp [Ex.denote, CLin.eval, Lin.eval, Lin.zero]
  | pi =>
    intro x h
    simp only [Ex.clin, Option.some.injEq] at h
    subst h
    simp [Ex.denote, CLin.eval, Lin.eval, Lin.zero]
  | sqrt2 => intro x h; simp [Ex.clin] at h
  | par i =>
    intro x h
    simp only [Ex.clin, Option.some.injEq] at h
    subst h
    simp [Ex.denote, CLin.eval, Lin.eval, Lin.zero, Lin.coefSum_unitVec]
  | add a b iha ihb =>
    intro x h
    simp only [Ex.clin, Option.bind_eq_bind, Option.bind_eq_some_iff, Option.pure_def,
      Option.some.injEq] at h
    obtain ⟨xa, ha, xb, hb, rfl⟩ := h
    simp only [Ex.denote, iha xa ha, ihb xb hb, CLin.eval, Lin.eval_add]
    ring
  | sub a b iha ihb =>
    intro x h
    simp only [Ex.clin, Option.bind_eq_bind, Option.bind_eq_some_iff, Option.pure_def,
      Option.some.injEq] at h
    obtain ⟨xa, ha, xb, hb, rfl⟩ := h
    simp only [Ex.denote, iha xa ha, ihb xb hb, CLin.eval, Lin.eval_add, Lin.eval_neg]
    ring
  | neg a iha =>
    intro x h
    simp only [Ex.clin, Option.bind_eq_bind, Option.bind_eq_some_iff, Option.pure_def,
      Option.some.injEq] at h
    obtain ⟨xa, ha, rfl⟩ := h
    simp only [Ex.denote, iha xa ha, CLin.eval, Lin.eval_neg]
    ring
  | mul a b iha ihb =>
    intro x h
    simp only [Ex.clin, Option.bind_eq_bind, Option.bind_eq_some_iff, Option.pure_def] at h
    obtain ⟨xa, ha, xb, hb, h⟩ := h
    split at h
    · next hc =>
      simp only [Option.some.injEq] at h
      subst h
      simp only [Bool.and_eq_true] at hc
      simp only [Ex.denote, iha xa ha, ihb xb hb, CLin.eval, Lin.eval_add, Lin.eval_smul,
        Lin.eval_of_isConst θ _ hc.1, Lin.eval_of_isConst θ _ hc.2]
      push_cast
      linear_combination ((xa.im.c0 : ℂ) * (Lin.eval θ xb.im)) * Complex.I_sq
    · split at h
      · next hc =>
        simp only [Option.some.injEq] at h
        subst h
        simp only [Bool.and_eq_true] at hc
        simp only [Ex.denote, iha xa ha, ihb xb hb, CLin.eval, Lin.eval_add, Lin.eval_smul,
          Lin.eval_of_isConst θ _ hc.1, Lin.eval_of_isConst θ _ hc.2]
        push_cast
        linear_combination ((xb.im.c0 : ℂ) * (Lin.eval θ xa.im)) * Complex.I_sq
      · simp at h
  | div a b iha ihb =>
    intro x h
    simp only [Ex.clin, Option.bind_eq_bind, Option.bind_eq_some_iff, Option.pure_def] at h
    obtain ⟨xa, ha, xb, hb, h⟩ := h
    split at h
    · next hc =>
      simp only [Option.some.injEq] at h
      subst h
      simp only [Bool.and_eq_true, bne_iff_ne, ne_eq] at hc
      simp only [Ex.denote, iha xa ha, ihb xb hb, CLin.eval, Lin.eval_smul,
        Lin.eval_of_isConst θ _ hc.1.1, Lin.eval_of_isZero θ _ hc.1.2]
      push_cast
      ring
    · simp at h
  | cos a _ => intro x h; simp [Ex.clin] at h
  | sin a _ => intro x h; simp [Ex.clin] at h
  | exp a _ => intro x h; simp [Ex.clin] at h
  | conj a _ => intro x h; simp [Ex.clin] at h

/-! ## `Lin.toMono` -/

theorem eighths_sound (q : Rat) (z : Int) (h : eighths q = some z) :
    (z : ℂ) = ((q : ℚ) : ℂ) * 8 := by
  simp only [eighths] at h
  split at h
  · next hd =>
    simp only [Option.some.injEq] at h
    have h1 : (((q * 8).num : ℤ) : ℚ) = q * 8 := (Rat.den_eq_one_iff _).1 hd
    rw [h] at h1
    have h2 := congrArg (fun r : ℚ => (r : ℂ)) h1
    simpa using h2
  · simp at h

theorem vals_succ_zpow (θ : Nat → ℝ) (k : Nat) (q : Rat) (z : Int)
    (h : (z : ℂ) = ((q : ℚ) : ℂ) * 8) :
    vals θ (k + 1) ^ z = Complex.exp (Complex.I * (((q : ℚ) : ℂ) * (θ k : ℂ))) := by
  rw [vals_succ, ← Complex.exp_int_mul, h]
  congr 1; ring

theorem vals_zero_zpow (θ : Nat → ℝ) (q : Rat) (z : Int)
    (h : (z : ℂ) = ((q : ℚ) : ℂ) * 8) :
    vals θ 0 ^ z = Complex.exp (Complex.I * (((q : ℚ) : ℂ) * (Real.pi : ℂ))) := by
  rw [vals_zero, ← Complex.exp_int_mul, h]
  congr 1; ring

theorem eighthsList_sound (θ : Nat → ℝ) :
    ∀ (qs : List Rat) (es : List Int) (k : Nat), eighthsList qs = some es →
      es.length = qs.length ∧
      Mono.evalFrom (vals θ) (k + 1) es = Complex.exp (Complex.I * Lin.coefSum θ k qs)
  | [], es, k, h => by
    simp only [eighthsList, Option.some.injEq] at h
    subst h; simp
  | q :: qs, es, k, h => by
    simp only [eighthsList, Option.bind_eq_bind, Option.bind_eq_some_iff, Option.pure_def,
      Option.some.injEq] at h
    obtain ⟨a, ha, as, has, rfl⟩ := h
    obtain ⟨hl, ih⟩ := eighthsList_sound θ qs as (k + 1) has
    refine ⟨by simp [hl], ?_⟩
    rw [Mono.evalFrom_cons, ih, vals_succ_zpow θ k q a (eighths_sound q a ha),
      Lin.coefSum_cons, ← Complex.exp_add]
    congr 1; ring

theorem Lin.toMono_sound (θ : Nat → ℝ) (np : Nat) (l : Lin) (m : Mono)
    (h : l.toMono np = some m) :
    Complex.exp (Complex.I * l.eval θ) = Mono.eval (vals θ) m := by
  unfold Lin.toMono at h
  simp only [Option.bind_eq_bind, Option.pure_def] at h
  by_cases hc0 : (l.c0 != 0) = true
  · simp [hc0] at h
  by_cases hlen : l.coef.length > np
  · simp [hlen] at h
  simp only [hc0, hlen, if_false, Bool.false_eq_true, Option.bind_eq_some_iff,
    Option.some.injEq] at h
  obtain ⟨z, hz, es, hes, rfl⟩ := h
  obtain ⟨_, hes'⟩ := eighthsList_sound θ l.coef es 0 hes
  have hc0' : l.c0 = 0 := by simpa using hc0
  simp only [Mono.eval, Mono.evalFrom_cons, padTo, Mono.evalFrom_append,
    Mono.evalFrom_replicate_zero, mul_one, zero_add]
  rw [hes', vals_zero_zpow θ l.piC z (eighths_sound _ _ hz), ← Complex.exp_add]
  congr 1
  simp only [Lin.eval, hc0']
  push_cast; ring

/-! ## special constants -/

theorem vals_zero_zpow_two (θ : Nat → ℝ) :
    vals θ 0 ^ (2 : ℤ) = ((Real.sqrt 2 / 2 : ℝ) : ℂ) + ((Real.sqrt 2 / 2 : ℝ) : ℂ) * Complex.I := by
  rw [vals_zero, ← Complex.exp_int_mul]
  have : ((2 : ℤ) : ℂ) * (Complex.I * Real.pi / 8) = ((Real.pi / 4 : ℝ) : ℂ) * Complex.I := by
    push_cast; ring
  rw [this, Complex.exp_mul_I, ← Complex.ofReal_cos, ← Complex.ofReal_sin,
    Real.cos_pi_div_four, Real.sin_pi_div_four]

theorem vals_zero_zpow_four (θ : Nat → ℝ) : vals θ 0 ^ (4 : ℤ) = Complex.I := by
  rw [vals_zero, ← Complex.exp_int_mul]
  have : ((4 : ℤ) : ℂ) * (Complex.I * Real.pi / 8) = ((Real.pi / 2 : ℝ) : ℂ) * Complex.I := by
    push_cast; ring
  rw [this, Complex.exp_mul_I, ← Complex.ofReal_cos, ← Complex.ofReal_sin,
    Real.cos_pi_div_two, Real.sin_pi_div_two]
  simp

theorem sqrt2_mul_self_complex : ((Real.sqrt 2 : ℝ) : ℂ) * ((Real.sqrt 2 : ℝ) : ℂ) = 2 := by
  rw [← Complex.ofReal_mul, Real.mul_self_sqrt (by norm_num)]
  simp

theorem vals_zero_zpow_six (θ : Nat → ℝ) :
    vals θ 0 ^ (6 : ℤ) = vals θ 0 ^ (2 : ℤ) * Complex.I := by
  rw [← vals_zero_zpow_four θ, ← zpow_add₀ (vals_ne_zero θ 0)]
  norm_num

theorem Poly.eval_I (θ : Nat → ℝ) (np : Nat) :
    Poly.eval (vals θ) (Poly.I np) = Complex.I := by
  simp only [Poly.I, Poly.eval_cons, Poly.eval_nil, Mono.eval, Mono.evalFrom_cons,
    Mono.evalFrom_replicate_zero, vals_zero_zpow_four]
  simp

theorem Poly.eval_sqrt2 (θ : Nat → ℝ) (np : Nat) :
    Poly.eval (vals θ) (Poly.sqrt2 np) = ((Real.sqrt 2 : ℝ) : ℂ) := by
  simp only [Poly.sqrt2, Poly.eval_cons, Poly.eval_nil, Mono.eval, Mono.evalFrom_cons,
    Mono.evalFrom_replicate_zero, vals_zero_zpow_six, vals_zero_zpow_two]
  push_cast
  linear_combination (-(Real.sqrt 2 : ℂ) / 2) * Complex.I_sq

/-! ## `Ex.norm` -/

theorem Ex.norm_sound (np : Nat) (e : Ex) (p : Poly) (h : e.norm np = some p)
    (θ : Nat → ℝ) : e.denote θ = p.eval (vals θ) := by
  have hv := vals_good θ
  induction e generalizing p with
  | rat n d =>
    simp only [Ex.norm, Option.some.injEq] at h
    subst h
    simp [Ex.denote, Poly.eval_const, ratOf]
  | I =>
    simp only [Ex.norm, Option.some.injEq] at h
    subst h
    simp [Ex.denote, Poly.eval_I]
  | pi => simp [Ex.norm] at h
  | sqrt2 =>
    simp only [Ex.norm, Option.some.injEq] at h
    subst h
    simp [Ex.denote, Poly.eval_sqrt2]
  | par i => simp [Ex.norm] at h
  | add a b iha ihb =>
    simp only [Ex.norm, Option.bind_eq_bind, Option.bind_eq_some_iff, Option.pure_def,
      Option.some.injEq] at h
    obtain ⟨pa, ha, pb, hb, rfl⟩ := h
    simp [Ex.denote, iha pa ha, ihb pb hb, Poly.eval_normalize hv, Poly.eval_add]
  | sub a b iha ihb =>
    simp only [Ex.norm, Option.bind_eq_bind, Option.bind_eq_some_iff, Option.pure_def,
      Option.some.injEq] at h
    obtain ⟨pa, ha, pb, hb, rfl⟩ := h
    simp [Ex.denote, iha pa ha, ihb pb hb, Poly.eval_normalize hv, Poly.eval_sub]
  | mul a b iha ihb =>
    simp only [Ex.norm, Option.bind_eq_bind, Option.bind_eq_some_iff, Option.pure_def,
      Option.some.injEq] at h
    obtain ⟨pa, ha, pb, hb, rfl⟩ := h
    simp [Ex.denote, iha pa ha, ihb pb hb, Poly.eval_mul hv]
  | neg a iha =>
    simp only [Ex.norm, Option.bind_eq_bind, Option.bind_eq_some_iff, Option.pure_def,
      Option.some.injEq] at h
    obtain ⟨pa, ha, rfl⟩ := h
    simp [Ex.denote, iha pa ha, Poly.eval_neg]
  | conj a iha =>
    simp only [Ex.norm, Option.bind_eq_bind, Option.bind_eq_some_iff, Option.pure_def,
      Option.some.injEq] at h
    obtain ⟨pa, ha, rfl⟩ := h
    simp [Ex.denote, iha pa ha, Poly.eval_conj (vals_unit θ)]
  | div a b iha _ =>
    cases b with
    | rat n d =>
      simp only [Ex.norm] at h
      split at h
      · simp at h
      · simp only [Option.bind_eq_bind, Option.bind_eq_some_iff, Option.pure_def,
          Option.some.injEq] at h
        obtain ⟨pa, ha, rfl⟩ := h
        simp only [Ex.denote, iha pa ha, Poly.eval_smul, ratOf]
        push_cast
        ring
    | sqrt2 =>
      simp only [Ex.norm, Option.bind_eq_bind, Option.bind_eq_some_iff, Option.pure_def,
        Option.some.injEq] at h
      obtain ⟨pa, ha, rfl⟩ := h
      simp only [Ex.denote, iha pa ha, Poly.eval_mul hv, Poly.eval_smul, Poly.eval_sqrt2]
      have h2 := sqrt2_mul_self_complex
      have hne : ((Real.sqrt 2 : ℝ) : ℂ) ≠ 0 := by
        intro h0; rw [h0] at h2; norm_num at h2
      field_simp
      push_cast
      linear_combination (-(Poly.eval (vals θ) pa) / 2) * h2
    | I => simp [Ex.norm] at h
    | pi => simp [Ex.norm] at h
    | par i => simp [Ex.norm] at h
    | add _ _ => simp [Ex.norm] at h
    | sub _ _ => simp [Ex.norm] at h
    | mul _ _ => simp [Ex.norm] at h
    | div _ _ => simp [Ex.norm] at h
    | neg _ => simp [Ex.norm] at h
    | cos _ => simp [Ex.norm] at h
    | sin _ => simp [Ex.norm] at h
    | exp _ => simp [Ex.norm] at h
    | conj _ => simp [Ex.norm] at h
  | exp a _ =>
    simp only [Ex.norm, Option.bind_eq_bind, Option.bind_eq_some_iff, Option.pure_def] at h
    obtain ⟨l, hl, h⟩ := h
    by_cases hz : l.re.isZero = true
    · simp only [hz, Bool.not_true, Bool.false_eq_true, if_false, Option.bind_eq_some_iff,
        Option.some.injEq] at h
      obtain ⟨m, hm, rfl⟩ := h
      have := Lin.toMono_sound θ np l.im m hm
      simp only [Ex.denote, Ex.clin_sound θ a l hl, CLin.eval, Lin.eval_of_isZero θ _ hz,
        zero_add, this]
      simp
    · simp [hz] at h
  | cos a _ =>
    simp only [Ex.norm, Option.bind_eq_bind, Option.bind_eq_some_iff, Option.pure_def] at h
    obtain ⟨l, hl, h⟩ := h
    by_cases hz : l.im.isZero = true
    · simp only [hz, Bool.not_true, Bool.false_eq_true, if_false, Option.bind_eq_some_iff,
        Option.some.injEq] at h
      obtain ⟨m, hm, rfl⟩ := h
      have hm' := Lin.toMono_sound θ np l.re m hm
      simp only [Ex.denote, Ex.clin_sound θ a l hl, CLin.eval, Lin.eval_of_isZero θ _ hz,
        mul_zero, add_zero, Poly.eval_normalize hv, Poly.eval_cons, Poly.eval_nil,
        Mono.eval_inv, ← hm', Complex.cos, ← Complex.exp_neg]
      push_cast
      rw [mul_comm (Lin.eval θ l.re) Complex.I, neg_mul, mul_comm (Lin.eval θ l.re) Complex.I]
      ring
    · simp [hz] at h
  | sin a _ =>
    simp only [Ex.norm, Option.bind_eq_bind, Option.bind_eq_some_iff, Option.pure_def] at h
    obtain ⟨l, hl, h⟩ := h
    by_cases hz : l.im.isZero = true
    · simp only [hz, Bool.not_true, Bool.false_eq_true, if_false, Option.bind_eq_some_iff,
        Option.some.injEq] at h
      obtain ⟨m, hm, rfl⟩ := h
      have hm' := Lin.toMono_sound θ np l.re m hm
      simp only [Ex.denote, Ex.clin_sound θ a l hl, CLin.eval, Lin.eval_of_isZero θ _ hz,
        mul_zero, add_zero, Poly.eval_mul hv, Poly.eval_smul, Poly.eval_I, Poly.eval_cons,
        Poly.eval_nil, Mono.eval_inv, ← hm', Complex.sin, ← Complex.exp_neg]
      push_cast
      rw [mul_comm (Lin.eval θ l.re) Complex.I, neg_mul, mul_comm (Lin.eval θ l.re) Complex.I]
      ring
    · simp [hz] at h

end QV
