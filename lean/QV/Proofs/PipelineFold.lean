/-
  QV.Proofs.PipelineFold — `Passes.__call__` as a FOLD over an arbitrary list of passes
  (any order, any repetition): one-step lemmas for every kind of pass and the invariant
  carried through `runPasses` by induction over the list.  Used by QV/Props/C11b.lean.
-/
import QV.Props.C11
import QV.Proofs.PipelineUnroll

set_option linter.unusedSectionVars false
set_option linter.unusedVariables false
set_option linter.unusedSimpArgs false

namespace QV.Pipe
open QV QV.Router QV.Props.C11

/-- one distinct device node per wire, all nodes used. -/
def Placed (d : Device) (c : Circ) : Prop := c.wires.Perm d.nodes ∧ c.wires.length = c.nqubits

theorem Placed.fits {d : Device} {c : Circ} (hd : d.nodes.Nodup) (h : Placed d c) : Fits d c :=
  ⟨h.1.nodup_iff.2 hd, h.2, fun v hv => h.1.subset hv, by rw [← h.2, h.1.length_eq]⟩

theorem placed_of_assert {d : Device} {c : Circ} (hd : d.nodes.Nodup)
    (h : assertPlacement d c = true) : Placed d c := assertPlacement_perm hd h

theorem Placed.assert {d : Device} {c : Circ} (h : Placed d c) : assertPlacement d c = true :=
  assertPlacement_of_perm h.1 h.2

theorem Placed.nqubits {d : Device} {c : Circ} (h : Placed d c) : c.nqubits = d.nodes.length := by
  rw [← h.2, h.1.length_eq]

/-- padding a placed circuit is the identity. -/
theorem pad_of_placed {d : Device} {c : Circ} (h : Placed d c) : pad d c = some c := by
  unfold pad
  have h1 : c.wires.all d.nodes.contains = true := by
    simp only [List.all_eq_true, List.contains_iff_mem]; exact fun v hv => h.1.subset hv
  have h2 : c.nqubits = d.nodes.length := h.nqubits
  simp [h1, h2]

/-! ### what a successful step looks like -/

theorem pre_step {d : Device} {s s' : PState} (h : runPass d s .pre = some s') :
    ∃ c', pad d s.circ = some c' ∧ s' = { s with circ := c' } := by
  simp only [runPass, Option.map_eq_some_iff] at h
  obtain ⟨c', h1, h2⟩ := h
  exact ⟨c', h1, h2.symm⟩

theorem placer_step {d : Device} {s s' : PState} {ans : Option (List Name)}
    (h : runPass d s (.placer ans) = some s') :
    assertPlacement d s.circ = true ∧ ∃ w, ans = some w ∧ w.length = s.circ.nqubits ∧
      s' = ⟨{ s.circ with wires := w }, none⟩ := by
  simp only [runPass] at h
  split at h
  · cases h
  · rename_i hp
    cases ans with
    | none => simp at h
    | some w =>
      simp only [Option.bind_some] at h
      split at h
      · rename_i hl
        injection h with h
        exact ⟨by simpa using hp, w, rfl, by simpa using hl, h.symm⟩
      · cases h

theorem star_step {d : Device} {s s' : PState} (h : runPass d s .star = some s') :
    ∃ w, starPlace d s.circ = some w ∧ s' = ⟨{ s.circ with wires := w }, none⟩ := by
  simp only [runPass, Option.map_eq_some_iff] at h
  obtain ⟨w, h1, h2⟩ := h
  exact ⟨w, h1, h2.symm⟩

theorem router_step {d : Device} {s s' : PState} {ans : Option (List PGate × List Nat)}
    (h : runPass d s (.router ans) = some s') :
    assertPlacement d s.circ = true ∧ ∃ q l, ans = some (q, l) ∧
      s' = ⟨{ s.circ with queue := q }, some l⟩ := by
  simp only [runPass] at h
  split at h
  · cases h
  · rename_i hp
    cases ans with
    | none => simp at h
    | some a =>
      obtain ⟨q, l⟩ := a
      simp only [Option.map_some, Option.some.injEq] at h
      exact ⟨by simpa using hp, q, l, rfl, h.symm⟩

theorem unroller_step {d : Device} {s s' : PState} {ans : Option (List PGate)}
    (h : runPass d s (.unroller ans) = some s') :
    ∃ q, ans = some q ∧ s' = { s with circ := { s.circ with queue := q } } := by
  cases ans with
  | none => simp [runPass] at h
  | some q =>
    simp only [runPass, Option.map_some, Option.some.injEq] at h
    exact ⟨q, rfl, h.symm⟩

/-! ### the contracts, one consequence each -/

/-- a validated router answer passes `assert_connectivity` under the wire names. -/
theorem routeOk_connectivity {d : Device} {c : Circ} {q : List PGate} {l2p : List Nat}
    (hEw : ∀ e ∈ d.edges, e.1 ∈ c.wires ∧ e.2 ∈ c.wires) (hr : routeOk d c q l2p = true) :
    assertConnectivity d { c with queue := q } = true := by
  simp only [routeOk, Bool.and_eq_true, List.all_eq_true] at hr
  obtain ⟨⟨⟨hr1, hr2⟩, _⟩, _⟩ := hr
  simp only [assertConnectivity, List.all_eq_true]
  intro g hg
  unfold connOk
  by_cases hm : g.meas = true
  · simp [hm]
  · have hm' : g.meas = false := by simpa using hm
    have hok := hr1 g hg
    have hlen := hr2 g hg
    simp only [gateOk, PGate.toR, hm', Bool.false_or] at hok
    simp only [hm', Bool.false_or, decide_eq_true_eq] at hlen ⊢
    split
    · rename_i a b hab
      simp only [hab] at hok
      exact edgeOk_relabel hEw hok
    · simpa using hlen

/-- a validated unroller answer keeps `assert_connectivity`. -/
theorem unrollOk_connectivity {d : Device} {nat : Unroll.Natives} {w : List Name}
    {inp out : List PGate} (hu : unrollOk nat inp out = true)
    (hc : ∀ g ∈ inp, connOk d w g = true) : ∀ y ∈ out, connOk d w y = true := by
  simp only [unrollOk, Bool.and_eq_true, List.all_eq_true, Bool.or_eq_true] at hu
  obtain ⟨⟨hu1, hu2⟩, _⟩ := hu
  intro y hy
  by_cases hm : y.meas = true
  · simp [connOk, hm]
  · have hm' : y.meas = false := by simpa using hm
    simp only [connOk, hm', Bool.false_or]
    have hlen : y.qs.length ≤ 2 := by
      rcases hu1 y hy with h | h
      · exact absurd h hm
      · simp only [Bool.and_eq_true, decide_eq_true_eq] at h; exact h.1
    split
    · rename_i a b hab
      rcases hu2 y hy with (h | h) | h
      · exact absurd h hm
      · rw [hab] at h; simp at h
      · simp only [List.any_eq_true, Bool.and_eq_true, Bool.not_eq_true'] at h
        obtain ⟨g, hg, hgm, hsp⟩ := h
        have hcg := hc g hg
        simp only [connOk, hgm, Bool.false_or] at hcg
        simp only [samePair, Bool.or_eq_true, beq_iff_eq, hab] at hsp
        rcases hsp with e | e
        · rw [← e] at hcg; simpa using hcg
        · have e' : g.qs = [b, a] := by
            have := congrArg List.reverse e
            rw [List.reverse_reverse] at this
            simpa using this.symm
          rw [e'] at hcg
          rw [hasEdge_symm]
          simpa using hcg
    · simpa using hlen

/-- a validated unroller answer passes `assert_decomposition`. -/
theorem unrollOk_decomposition {nat : Unroll.Natives} {c : Circ} {inp out : List PGate}
    (hu : unrollOk nat inp out = true) : assertDecomposition nat { c with queue := out } = true := by
  simp only [unrollOk, Bool.and_eq_true, List.all_eq_true, Bool.or_eq_true] at hu
  obtain ⟨⟨hu1, _⟩, _⟩ := hu
  simp only [assertDecomposition, Unroll.assertDecomposition, List.all_map, List.all_eq_true,
    Function.comp, PGate.toU, Bool.or_eq_true, Bool.and_eq_true, decide_eq_true_eq]
  intro g hg
  rcases hu1 g hg with h | h
  · left; simpa [PGate.meas] using h
  · right; simp at h; exact ⟨decide_eq_true h.1, h.2⟩

/-! ### the invariant of the fold -/

/-- what is known about the state, indexed by the three flags the pass list computes. -/
structure Inv (d : Device) (nat : Unroll.Natives) (bp bc bd : Bool) (s : PState) : Prop where
  fits   : Fits d s.circ
  placed : bp = true → Placed d s.circ
  conn   : bc = true → Placed d s.circ ∧ assertConnectivity d s.circ = true
  dec    : bd = true → assertDecomposition nat s.circ = true

theorem placedAfter_cons (b : Bool) (p : Pass) (ps : List Pass) :
    placedAfter b (p :: ps) = placedAfter (placedAfter b [p]) ps := by
  cases p <;> rfl

theorem connAfter_cons (b : Bool) (p : Pass) (ps : List Pass) :
    connAfter b (p :: ps) = connAfter (connAfter b [p]) ps := by
  cases p <;> rfl

theorem decAfter_cons (b : Bool) (p : Pass) (ps : List Pass) :
    decAfter b (p :: ps) = decAfter (decAfter b [p]) ps := by
  cases p <;> rfl

theorem layoutAfter_cons (l : Option (List Nat)) (p : Pass) (ps : List Pass) :
    layoutAfter l (p :: ps) = layoutAfter (layoutAfter l [p]) ps := by
  cases p with
  | router a => cases a with
    | none => rfl
    | some a => rfl
  | _ => rfl

/-- ONE pass, of any kind, with a validated answer. -/
theorem step_inv {d : Device} {nat : Unroll.Natives} (hd : d.nodes.Nodup)
    (hE : ∀ e ∈ d.edges, e.1 ∈ d.nodes ∧ e.2 ∈ d.nodes)
    {bp bc bd : Bool} {s s' : PState} {p : Pass} (hi : Inv d nat bp bc bd s)
    (hv : validPass d nat s p = true) (h : runPass d s p = some s') :
    Inv d nat (placedAfter bp [p]) (connAfter bc [p]) (decAfter bd [p]) s' := by
  cases p with
  | pre =>
    obtain ⟨c', hp, rfl⟩ := pre_step h
    obtain ⟨h1, h2, h3⟩ := T11_padding_placement d s.circ c' hd hi.fits hp
    have hpl : Placed d c' := placed_of_assert hd h3
    have hq : c'.queue = s.circ.queue := (T11_padding d s.circ c' hp).1
    refine ⟨hpl.fits hd, fun _ => hpl, ?_, ?_⟩
    · intro hb
      obtain ⟨g1, g2⟩ := hi.conn hb
      have : c' = s.circ := by
        have := pad_of_placed g1
        rw [hp] at this
        exact (Option.some.inj this)
      rw [this]
      exact ⟨g1, g2⟩
    · intro hb
      have := hi.dec hb
      simp only [assertDecomposition] at this ⊢
      show Unroll.assertDecomposition nat (c'.queue.map PGate.toU) = true
      rw [hq]; exact this
  | placer ans =>
    obtain ⟨_, w, rfl, hl, rfl⟩ := placer_step h
    have hw : permOf d w = true := hv
    have hpl : Placed d { s.circ with wires := w } := ⟨permOf_perm hd hw, hl⟩
    exact ⟨hpl.fits hd, fun _ => hpl, (fun hb => by cases hb), fun hb => hi.dec hb⟩
  | star =>
    obtain ⟨w, hw, rfl⟩ := star_step h
    have hq : ∀ g ∈ s.circ.queue, ∀ i ∈ g.qs, i < s.circ.nqubits := by
      simp only [validPass, List.all_eq_true, decide_eq_true_eq] at hv
      exact hv
    obtain ⟨_, h2, h3⟩ := T11_star_placer d s.circ w hd hq hw
    have hpl : Placed d { s.circ with wires := w } := placed_of_assert hd h3
    exact ⟨hpl.fits hd, fun _ => hpl, (fun hb => by cases hb), fun hb => hi.dec hb⟩
  | router ans =>
    obtain ⟨ha, q, l, rfl, rfl⟩ := router_step h
    have hpl : Placed d s.circ := placed_of_assert hd ha
    have hpl' : Placed d { s.circ with queue := q } := hpl
    have hr : routeOk d s.circ q l = true := hv
    have hEw : ∀ e ∈ d.edges, e.1 ∈ s.circ.wires ∧ e.2 ∈ s.circ.wires := fun e he =>
      ⟨hpl.1.symm.subset (hE e he).1, hpl.1.symm.subset (hE e he).2⟩
    exact ⟨hpl'.fits hd, fun _ => hpl', fun _ => ⟨hpl', routeOk_connectivity hEw hr⟩,
      fun hb => by cases hb⟩
  | unroller ans =>
    obtain ⟨q, rfl, rfl⟩ := unroller_step h
    have hu : unrollOk nat s.circ.queue q = true := hv
    refine ⟨⟨hi.fits.nodup, hi.fits.len, hi.fits.sub, hi.fits.le⟩, fun hb => hi.placed hb, ?_,
      fun _ => unrollOk_decomposition hu⟩
    intro hb
    obtain ⟨g1, g2⟩ := hi.conn hb
    refine ⟨g1, ?_⟩
    simp only [assertConnectivity, List.all_eq_true] at g2 ⊢
    exact unrollOk_connectivity hu g2

/-- the invariant through an ARBITRARY pass list, by induction over the list. -/
theorem fold_inv {d : Device} {nat : Unroll.Natives} (hd : d.nodes.Nodup)
    (hE : ∀ e ∈ d.edges, e.1 ∈ d.nodes ∧ e.2 ∈ d.nodes) :
    ∀ (ps : List Pass) (s s' : PState) (bp bc bd : Bool), Inv d nat bp bc bd s →
      validRun d nat s ps = true → runPasses d s ps = some s' →
      Inv d nat (placedAfter bp ps) (connAfter bc ps) (decAfter bd ps) s'
  | [], s, s', bp, bc, bd, hi, _, h => by
      simp only [runPasses, Option.some.injEq] at h
      subst h
      exact hi
  | p :: ps, s, s', bp, bc, bd, hi, hv, h => by
      simp only [runPasses] at h
      cases h1 : runPass d s p with
      | none => simp [h1] at h
      | some s1 =>
        simp only [h1, Option.bind_some] at h
        simp only [validRun, h1, Bool.and_eq_true] at hv
        rw [placedAfter_cons, connAfter_cons, decAfter_cons]
        exact fold_inv hd hE ps s1 s' _ _ _ (step_inv hd hE hi hv.1 h1) hv.2 h

/-! ### size, own wires, reported layout: no validation needed -/

def isPre : Pass → Bool
  | .pre => true
  | _ => false

def isPlacer : Pass → Bool
  | .placer _ => true
  | .star => true
  | _ => false

def isRouter : Pass → Bool
  | .router _ => true
  | _ => false

theorem step_nqubits {d : Device} {s s' : PState} {p : Pass} (h : runPass d s p = some s') :
    (isPre p = false → s'.circ.nqubits = s.circ.nqubits) ∧
    (s'.circ.nqubits = s.circ.nqubits ∨ s'.circ.nqubits = d.nodes.length) := by
  cases p with
  | pre =>
    obtain ⟨c', hp, rfl⟩ := pre_step h
    refine ⟨(fun hb => by cases hb), ?_⟩
    rcases pad_cases hp with ⟨rfl, _⟩ | ⟨rfl, _, _⟩
    · exact Or.inl rfl
    · exact Or.inr rfl
  | placer ans =>
    obtain ⟨_, w, rfl, _, rfl⟩ := placer_step h
    exact ⟨fun _ => rfl, Or.inl rfl⟩
  | star =>
    obtain ⟨w, _, rfl⟩ := star_step h
    exact ⟨fun _ => rfl, Or.inl rfl⟩
  | router ans =>
    obtain ⟨_, q, l, rfl, rfl⟩ := router_step h
    exact ⟨fun _ => rfl, Or.inl rfl⟩
  | unroller ans =>
    obtain ⟨q, rfl, rfl⟩ := unroller_step h
    exact ⟨fun _ => rfl, Or.inl rfl⟩

theorem fold_nqubits {d : Device} :
    ∀ (ps : List Pass) (s s' : PState), runPasses d s ps = some s' →
      ((ps.all fun p => !isPre p) = true → s'.circ.nqubits = s.circ.nqubits) ∧
      (s'.circ.nqubits = s.circ.nqubits ∨ s'.circ.nqubits = d.nodes.length)
  | [], s, s', h => by
      simp only [runPasses, Option.some.injEq] at h
      subst h
      exact ⟨fun _ => rfl, Or.inl rfl⟩
  | p :: ps, s, s', h => by
      simp only [runPasses] at h
      cases h1 : runPass d s p with
      | none => simp [h1] at h
      | some s1 =>
        simp only [h1, Option.bind_some] at h
        obtain ⟨a1, a2⟩ := step_nqubits h1
        obtain ⟨b1, b2⟩ := fold_nqubits ps s1 s' h
        refine ⟨?_, ?_⟩
        · intro hall
          simp only [List.all_cons, Bool.and_eq_true, Bool.not_eq_true'] at hall
          rw [b1 hall.2, a1 hall.1]
        · rcases b2 with b2 | b2
          · rcases a2 with a2 | a2
            · exact Or.inl (by rw [b2, a2])
            · exact Or.inr (by rw [b2, a2])
          · exact Or.inr b2

/-- without a placer in the list the circuit's own wires stay where they are: the wire
    names of the input are a prefix of the output's. -/
theorem fold_wires_prefix {d : Device} :
    ∀ (ps : List Pass) (s s' : PState), runPasses d s ps = some s' →
      (ps.all fun p => !isPlacer p) = true → s.circ.wires <+: s'.circ.wires
  | [], s, s', h, _ => by
      simp only [runPasses, Option.some.injEq] at h
      subst h
      exact List.prefix_refl _
  | p :: ps, s, s', h, hall => by
      simp only [runPasses] at h
      cases h1 : runPass d s p with
      | none => simp [h1] at h
      | some s1 =>
        simp only [h1, Option.bind_some] at h
        simp only [List.all_cons, Bool.and_eq_true, Bool.not_eq_true'] at hall
        have ih := fold_wires_prefix ps s1 s' h hall.2
        have hstep : s.circ.wires <+: s1.circ.wires := by
          cases p with
          | pre =>
            obtain ⟨c', hp, rfl⟩ := pre_step h1
            obtain ⟨_, ⟨rest, hr, _⟩, _⟩ := T11_padding d s.circ c' hp
            exact ⟨rest, hr.symm⟩
          | placer ans => simp [isPlacer] at hall
          | star => simp [isPlacer] at hall
          | router ans =>
            obtain ⟨_, q, l, rfl, rfl⟩ := router_step h1
            exact List.prefix_refl _
          | unroller ans =>
            obtain ⟨q, rfl, rfl⟩ := unroller_step h1
            exact List.prefix_refl _
        exact hstep.trans ih

/-- the layout `Passes.__call__` reports is the fold `layoutAfter` of the list. -/
theorem fold_layout {d : Device} :
    ∀ (ps : List Pass) (s s' : PState), runPasses d s ps = some s' →
      s'.layout = layoutAfter s.layout ps
  | [], s, s', h => by
      simp only [runPasses, Option.some.injEq] at h
      subst h
      rfl
  | p :: ps, s, s', h => by
      simp only [runPasses] at h
      cases h1 : runPass d s p with
      | none => simp [h1] at h
      | some s1 =>
        simp only [h1, Option.bind_some] at h
        rw [layoutAfter_cons, fold_layout ps s1 s' h]
        congr 1
        cases p with
        | pre => obtain ⟨c', _, rfl⟩ := pre_step h1; rfl
        | placer ans => obtain ⟨_, w, rfl, _, rfl⟩ := placer_step h1; rfl
        | star => obtain ⟨w, _, rfl⟩ := star_step h1; rfl
        | router ans => obtain ⟨_, q, l, rfl, rfl⟩ := router_step h1; rfl
        | unroller ans => obtain ⟨q, rfl, rfl⟩ := unroller_step h1; rfl

/-! ### pass objects: the hand-over does not depend on the history of the objects -/

theorem runPassObj_eq {d : Device} {st : Store} {s : PState} {i : Nat} {p : Pass}
    (hi : i < st.length) :
    (runPassObj d st s i p).map (·.1) = runPass d s p ∧
    ∀ r, runPassObj d st s i p = some r → r.2.length = st.length := by
  have hg : (st.set i (some d)).getD i none = some d := by
    simp [List.getD_eq_getElem?_getD, hi]
  cases p with
  | unroller ans =>
    simp only [runPassObj]
    refine ⟨by cases runPass d s (.unroller ans) <;> rfl, ?_⟩
    intro r hr
    simp only [Option.map_eq_some_iff] at hr
    obtain ⟨_, _, rfl⟩ := hr
    rfl
  | pre =>
    simp only [runPassObj, hg]
    refine ⟨by cases runPass d s .pre <;> rfl, ?_⟩
    intro r hr
    simp only [Option.map_eq_some_iff] at hr
    obtain ⟨_, _, rfl⟩ := hr
    simp
  | star =>
    simp only [runPassObj, hg]
    refine ⟨by cases runPass d s .star <;> rfl, ?_⟩
    intro r hr
    simp only [Option.map_eq_some_iff] at hr
    obtain ⟨_, _, rfl⟩ := hr
    simp
  | placer ans =>
    simp only [runPassObj, hg]
    refine ⟨by cases runPass d s (.placer ans) <;> rfl, ?_⟩
    intro r hr
    simp only [Option.map_eq_some_iff] at hr
    obtain ⟨_, _, rfl⟩ := hr
    simp
  | router ans =>
    simp only [runPassObj, hg]
    refine ⟨by cases runPass d s (.router ans) <;> rfl, ?_⟩
    intro r hr
    simp only [Option.map_eq_some_iff] at hr
    obtain ⟨_, _, rfl⟩ := hr
    simp

theorem runPassesObj_eq {d : Device} :
    ∀ (ips : List (Nat × Pass)) (st : Store) (s : PState),
      (∀ ip ∈ ips, ip.1 < st.length) →
      (runPassesObj d st s ips).map (·.1) = runPasses d s (ips.map (·.2))
  | [], st, s, _ => rfl
  | (i, p) :: ips, st, s, hi => by
      obtain ⟨h1, h2⟩ := runPassObj_eq (d := d) (s := s) (p := p) (hi (i, p) (List.mem_cons_self ..))
      simp only [runPassesObj, List.map_cons, runPasses]
      cases hr : runPassObj d st s i p with
      | none =>
        rw [hr] at h1
        simp only [Option.map_none] at h1
        simp [← h1]
      | some r =>
        rw [hr] at h1
        simp only [Option.map_some] at h1
        rw [← h1]
        simp only [Option.bind_some]
        apply runPassesObj_eq ips r.2 r.1
        intro ip hip
        rw [h2 r hr]
        exact hi ip (List.mem_cons_of_mem _ hip)

end QV.Pipe
