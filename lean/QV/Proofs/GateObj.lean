/-
  QV.Proofs.GateObj — lemmas about the gate-object model (`QV.Model.GateObj`) used by the C06
  theorems of `QV/Props/C06c.lean`: every step of a history keeps every object coherent when
  the class table is `fresh`.
-/
import QV.Model.GateObj
set_option linter.unusedSimpArgs false
set_option linter.unusedVariables false
namespace QV.GateObj

variable {V : Type}

theorem sub_mem {a b : List Field} (h : sub a b = true) {f : Field} (hf : f ∈ a) : f ∈ b := by
  simp [sub, List.all_eq_true] at h
  exact h f hf

theorem Cls.ok_empty (T : Table) : Cls.empty.ok T = true := by
  simp [Cls.ok, Cls.empty, Cls.okFields, Cls.okViews, Cls.okSetters, Cls.okCopy, Cls.okProducers, sub]

/-- every row (also the default row used for out-of-range class numbers) is ok. -/
theorem fresh_cls {T : Table} (h : T.fresh = true) (i : Nat) : (T.cls i).ok T = true := by
  unfold Table.cls
  rw [List.getD_eq_getElem?_getD]
  cases hi : T[i]? with
  | none => simpa using Cls.ok_empty T
  | some c =>
    have hc : c ∈ T := List.mem_of_getElem? hi
    simp [Table.fresh, List.all_eq_true] at h
    simpa using h c hc

structure OkParts (T : Table) (c : Cls) : Prop where
  fields : sub c.live c.fields = true
  views : ∀ m ∈ c.views, sub m.reads c.live = true
  setters : ∀ s ∈ c.setters, ∀ f ∈ c.live, (f.slot ∈ s.slots → f ∈ s.writes) ∧ (f ∈ s.writes → f.slot ∈ s.slots)
  copied : sub c.live c.copied = true
  shared : ∀ f ∈ c.shared, f ∈ c.live → ∀ s ∈ c.setters, f ∉ s.writes
  producers : ∀ p ∈ c.producers, Producer.ok T c p = true

theorem okParts {T : Table} {c : Cls} (h : c.ok T = true) : OkParts T c := by
  simp only [Cls.ok, Bool.and_eq_true] at h
  obtain ⟨⟨⟨⟨h1, h2⟩, h3⟩, h4⟩, h5⟩ := h
  refine ⟨h1, ?_, ?_, ?_, ?_, ?_⟩
  · intro m hm
    simp only [Cls.okViews, List.all_eq_true] at h2
    exact h2 m hm
  · intro s hs f hf
    simp only [Cls.okSetters, List.all_eq_true] at h3
    have := h3 s hs f hf
    simp only [Bool.and_eq_true, Bool.or_eq_true, Bool.not_eq_true', List.contains_eq_mem,
      decide_eq_true_eq, decide_eq_false_iff_not] at this
    constructor
    · intro hsl
      rcases this.1 with h | h
      · exact absurd hsl h
      · exact h
    · intro hw
      rcases this.2 with h | h
      · exact absurd hw h
      · exact h
  · simp only [Cls.okCopy, Bool.and_eq_true] at h4
    exact h4.1
  · intro f hf hl s hs
    simp only [Cls.okCopy, Bool.and_eq_true, List.all_eq_true] at h4
    have := h4.2 f hf
    simp only [Bool.or_eq_true, Bool.not_eq_true', List.contains_eq_mem, decide_eq_false_iff_not,
      List.all_eq_true, decide_eq_true_eq] at this
    rcases this with h | h
    · exact absurd hl h
    · exact h s hs
  · intro p hp
    simp only [Cls.okProducers, List.all_eq_true] at h5
    exact h5 p hp

/-- on a coherent object the values a method reads from live fields are the current slot values -/
theorem map_obj_of_coh {T : Table} {e : Entry V} (he : Coh T e) {fs : List Field}
    (hfs : sub fs (T.cls e.cls).live = true) :
    fs.map e.obj = fs.map (fun f => some (e.cur f.slot)) := by
  apply List.map_congr_left
  intro f hf
  exact he f (sub_mem hfs hf)

theorem coh_construct {T : Table} (hT : T.fresh = true) (c n : Nat) (args : Nat → V) :
    Coh T (⟨c, construct (T.cls c) args, n, args⟩ : Entry V) := by
  intro f hf
  have hp := okParts (fresh_cls hT c)
  have : f ∈ (T.cls c).fields := sub_mem hp.fields hf
  simp [construct, this]

theorem coh_copy {T : Table} (hT : T.fresh = true) {t : Entry V} (ht : Coh T t) :
    Coh T (⟨t.cls, copyObj (T.cls t.cls) t.obj, t.fam, t.cur⟩ : Entry V) := by
  intro f hf
  have hp := okParts (fresh_cls hT t.cls)
  have : f ∈ (T.cls t.cls).copied := sub_mem hp.copied hf
  simp only [copyObj, this, if_true]
  exact ht f hf

theorem coh_update_target {T : Table} (hT : T.fresh = true) {t : Entry V} (ht : Coh T t)
    {S : Setter} (hS : S ∈ (T.cls t.cls).setters) (vals : Nat → V) :
    Coh T ({ t with obj := writeAll t.obj S.writes vals,
                    cur := fun i => if i ∈ S.slots then vals i else t.cur i } : Entry V) := by
  intro f hf
  have hp := okParts (fresh_cls hT t.cls)
  obtain ⟨h1, h2⟩ := hp.setters S hS f hf
  by_cases hw : f ∈ S.writes
  · simp [writeAll, hw, h2 hw]
  · have hs : f.slot ∉ S.slots := fun h => hw (h1 h)
    simp only [writeAll, hw, hs, if_false]
    exact ht f hf

theorem coh_leak {T : Table} (hT : T.fresh = true) {t e : Entry V} (he : Coh T e)
    {S : Setter} (hS : S ∈ (T.cls t.cls).setters) (vals : Nat → V) :
    Coh T (leak (T.cls t.cls) S vals t e) := by
  unfold leak
  split
  · rename_i hfc
    intro f hf
    have hf' : f ∈ (T.cls t.cls).live := by
      have : e.cls = t.cls := hfc.2
      simpa [this] using hf
    have hp := okParts (fresh_cls hT t.cls)
    have hnot : f ∉ S.writes.filter (fun f => decide (f ∈ (T.cls t.cls).shared)) := by
      intro hmem
      simp only [List.mem_filter, decide_eq_true_eq] at hmem
      exact hp.shared f hmem.2 hf' S hS hmem.1
    simp only [writeAll, hnot, if_false]
    exact he f hf
  · exact he

/-- on values that are all present, `outVal` is present and depends on the out-entry only
    through its function tag and its identity bit. -/
theorem outVal_some (F : Fn V) (p : Producer) (j : Nat) (x : OutField) (cur : Nat → V)
    (fs : List Field) :
    ∃ v, outVal F p j x (fs.map (fun f => some (cur f.slot))) = some v := by
  unfold outVal
  cases hd : decide (x.field ∈ p.idents) <;> cases fs <;> simp

theorem outVal_congr (F : Fn V) (p : Producer) (j : Nat) (x y : OutField)
    (hfn : x.fn = y.fn) (hid : decide (x.field ∈ p.idents) = decide (y.field ∈ p.idents))
    (vals : List (Option V)) : outVal F p j x vals = outVal F p j y vals := by
  unfold outVal
  rw [hid, hfn]

theorem Producer.ok_live {T : Table} {c : Cls} {p : Producer} (h : Producer.ok T c p = true)
    {g : Field} (hg : g ∈ (T.cls p.out).live) :
    ∃ x y, p.outs.find? (fun x => decide (x.field = g)) = some x ∧
      p.outs.find? (fun x => decide (x.field.slot = g.slot)) = some y ∧
      sub x.deps c.live = true ∧ x.deps.map (·.slot) = y.deps.map (·.slot) ∧ x.fn = y.fn ∧
      decide (x.field ∈ p.idents) = decide (y.field ∈ p.idents) := by
  simp only [Producer.ok, Bool.and_eq_true, List.all_eq_true] at h
  have hg' := h.1 g hg
  cases hx : p.outs.find? (fun x => decide (x.field = g)) with
  | none => simp [hx] at hg'
  | some x =>
    cases hy : p.outs.find? (fun x => decide (x.field.slot = g.slot)) with
    | none => simp [hx, hy] at hg'
    | some y =>
      simp only [hx, hy, Bool.and_eq_true, beq_iff_eq] at hg'
      obtain ⟨⟨⟨hd, hsl⟩, hfn⟩, hid⟩ := hg'
      exact ⟨x, y, rfl, rfl, hd, hsl, hfn, hid⟩

theorem Producer.ok_keeps {T : Table} {c : Cls} {p : Producer} (h : Producer.ok T c p = true)
    {i j : Nat} (hk : (i, j) ∈ p.keeps) :
    ∃ y, p.outs.find? (fun x => decide (x.field.slot = j)) = some y ∧
      y.field ∈ p.idents ∧ y.deps.map (·.slot) = [i] := by
  simp only [Producer.ok, Bool.and_eq_true, List.all_eq_true] at h
  have hk' := h.2 (i, j) hk
  cases hy : p.outs.find? (fun x => decide (x.field.slot = j)) with
  | none => simp [hy] at hk'
  | some y =>
    simp only [hy, Bool.and_eq_true, beq_iff_eq, decide_eq_true_eq] at hk'
    exact ⟨y, rfl, hk'.1, hk'.2⟩

/-- a kept slot of the returned gate is, by specification value, the source's slot. -/
theorem produceCur_keeps {T : Table} {c : Cls} {p : Producer} (h : Producer.ok T c p = true)
    (F : Fn V) (cur : Nat → V) {i j : Nat} (hk : (i, j) ∈ p.keeps) :
    produceCur F p cur j = cur i := by
  obtain ⟨y, hy, hid, hdeps⟩ := Producer.ok_keeps h hk
  simp only [produceCur, hy]
  cases hd : y.deps with
  | nil => simp [hd] at hdeps
  | cons f fs =>
    simp only [hd, List.map_cons, List.cons.injEq] at hdeps
    simp [outVal, hid, hdeps.1]

theorem coh_call {T : Table} (hT : T.fresh = true) (F : Fn V) {t : Entry V} (ht : Coh T t)
    {P : Producer} (hP : P ∈ (T.cls t.cls).producers) (n : Nat) :
    Coh T (⟨P.out, produceObj F P t.obj, n, produceCur F P t.cur⟩ : Entry V) := by
  intro g hg
  have hp := okParts (fresh_cls hT t.cls)
  obtain ⟨x, y, hx, hy, hd, hsl, hfn, hid⟩ := Producer.ok_live (hp.producers P hP) hg
  simp only [produceObj, produceCur, hx, hy]
  have h1 := map_obj_of_coh ht hd
  have h2 : x.deps.map (fun f => some (t.cur f.slot)) = y.deps.map (fun f => some (t.cur f.slot)) := by
    have := congrArg (List.map (fun i => some (t.cur i))) hsl
    simpa [List.map_map, Function.comp_def] using this
  rw [h1, h2, outVal_congr F P g.slot x y hfn hid]
  obtain ⟨v, hv⟩ := outVal_some F P g.slot y t.cur y.deps
  rw [hv]; rfl

/-- **one step keeps every object coherent.** -/
theorem step_coh {T : Table} (hT : T.fresh = true) (F : Fn V) (st : List (Entry V))
    (hst : ∀ e ∈ st, Coh T e) (op : Op V) : ∀ e ∈ step T F st op, Coh T e := by
  cases op with
  | construct c args =>
    intro e he
    simp only [step, List.mem_append, List.mem_singleton] at he
    rcases he with he | rfl
    · exact hst e he
    · exact coh_construct hT c _ args
  | update k s vals =>
    simp only [step]
    cases hk : st[k]? with
    | none => simpa using hst
    | some t =>
      simp only []
      cases hs : (T.cls t.cls).setters[s]? with
      | none => simpa using hst
      | some S =>
        simp only []
        have htm : t ∈ st := List.mem_of_getElem? hk
        have hS : S ∈ (T.cls t.cls).setters := List.mem_of_getElem? hs
        intro e he
        rcases List.mem_or_eq_of_mem_set he with he | rfl
        · simp only [List.mem_map] at he
          obtain ⟨e0, he0, rfl⟩ := he
          exact coh_leak hT (hst e0 he0) hS vals
        · exact coh_update_target hT (hst t htm) hS vals
  | copy k =>
    simp only [step]
    cases hk : st[k]? with
    | none => simpa using hst
    | some t =>
      simp only []
      intro e he
      simp only [List.mem_append, List.mem_singleton] at he
      rcases he with he | rfl
      · exact hst e he
      · exact coh_copy hT (hst t (List.mem_of_getElem? hk))
  | call k p =>
    simp only [step]
    cases hk : st[k]? with
    | none => simpa using hst
    | some t =>
      simp only []
      cases hp : (T.cls t.cls).producers[p]? with
      | none => simpa using hst
      | some P =>
        simp only []
        intro e he
        simp only [List.mem_append, List.mem_singleton] at he
        rcases he with he | rfl
        · exact hst e he
        · exact coh_call hT F (hst t (List.mem_of_getElem? hk)) (List.mem_of_getElem? hp) _

theorem foldl_coh {T : Table} (hT : T.fresh = true) (F : Fn V) (ops : List (Op V))
    (st : List (Entry V)) (hst : ∀ e ∈ st, Coh T e) :
    ∀ e ∈ ops.foldl (step T F) st, Coh T e := by
  induction ops generalizing st with
  | nil => simpa using hst
  | cons op ops ih => exact ih _ (step_coh hT F st hst op)

theorem run_coh {T : Table} (hT : T.fresh = true) (F : Fn V) (ops : List (Op V)) :
    ∀ e ∈ run T F ops, Coh T e :=
  foldl_coh hT F ops [] (by simp)

/-- a coherent object and the freshly constructed object with its current values agree on every
    live field. -/
theorem coh_eq_construct {T : Table} (hT : T.fresh = true) {e : Entry V} (he : Coh T e)
    {f : Field} (hf : f ∈ (T.cls e.cls).live) :
    e.obj f = construct (T.cls e.cls) e.cur f := by
  rw [he f hf]
  exact (coh_construct hT e.cls e.fam e.cur f hf).symm

/-! ### isolation: an update of one object leaves the other objects' specification state and
    live fields alone -/

theorem update_others {T : Table} (hT : T.fresh = true) (F : Fn V) (st : List (Entry V))
    (hst : ∀ e ∈ st, Coh T e) (k s : Nat) (vals : Nat → V) (j : Nat) (hj : j ≠ k)
    (e : Entry V) (he : st[j]? = some e) :
    ∃ e', (step T F st (.update k s vals))[j]? = some e' ∧ e'.cls = e.cls ∧ e'.cur = e.cur ∧
      ∀ f ∈ (T.cls e.cls).live, e'.obj f = e.obj f := by
  simp only [step]
  cases hk : st[k]? with
  | none => exact ⟨e, by simpa using he, rfl, rfl, fun _ _ => rfl⟩
  | some t =>
    simp only []
    cases hs : (T.cls t.cls).setters[s]? with
    | none => exact ⟨e, by simpa using he, rfl, rfl, fun _ _ => rfl⟩
    | some S =>
      simp only []
      have hS : S ∈ (T.cls t.cls).setters := List.mem_of_getElem? hs
      refine ⟨leak (T.cls t.cls) S vals t e, ?_, ?_, ?_, ?_⟩
      · rw [List.getElem?_set_ne (Ne.symm hj), List.getElem?_map, he]; rfl
      · unfold leak; split <;> rfl
      · unfold leak; split <;> rfl
      · intro f hf
        have hc := coh_leak hT (hst e (List.mem_of_getElem? he)) hS vals (t := t)
        have h1 := hc f (by
          have : (leak (T.cls t.cls) S vals t e).cls = e.cls := by unfold leak; split <;> rfl
          simpa [this] using hf)
        have h2 := hst e (List.mem_of_getElem? he) f hf
        have hcur : (leak (T.cls t.cls) S vals t e).cur = e.cur := by unfold leak; split <;> rfl
        rw [h1, h2, hcur]

end QV.GateObj
