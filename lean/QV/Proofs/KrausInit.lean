/-
  QV.Proofs.KrausInit — the relabelling of `KrausChannel.__init__` is positional in the gate's
  DECLARED qubit order, for every gate and every requested tuple.
-/
import QV.Model.KrausInit

namespace QV.KrausInit

theorem lookup_cons_ne (d r x : Nat) (rest : List (Nat × Nat)) (h : x ≠ d) :
    lookup ((d, r) :: rest) x = lookup rest x := by
  unfold lookup
  have : (x == d) = false := by simpa using h
  simp [List.lookup, this]

theorem lookup_cons_self (d r : Nat) (rest : List (Nat × Nat)) : lookup ((d, r) :: rest) d = r := by
  simp [lookup, List.lookup]

theorem map_lookup_cons (d r : Nat) (rest : List (Nat × Nat)) (xs : List Nat) (h : d ∉ xs) :
    xs.map (lookup ((d, r) :: rest)) = xs.map (lookup rest) := by
  apply List.map_congr_left
  intro x hx
  exact lookup_cons_ne d r x rest (fun e => h (e ▸ hx))

/-- i-th declared qubit ↦ i-th requested qubit. -/
theorem relabelGate_positional : ∀ (declared requested : List Nat), declared.Nodup →
    declared.length ≤ requested.length → relabelGate declared requested = requested.take declared.length
  | [], _, _, _ => by simp [relabelGate]
  | d :: ds, [], _, h => by simp at h
  | d :: ds, r :: rs, hn, h => by
    have hd : d ∉ ds := (List.nodup_cons.mp hn).1
    have ih := relabelGate_positional ds rs (List.nodup_cons.mp hn).2 (by simpa using h)
    unfold relabelGate relabelDict at *
    simp only [List.zip_cons_cons, List.map_cons, lookup_cons_self, List.length_cons, List.take_succ_cons]
    rw [map_lookup_cons d r _ ds hd, ih]

end QV.KrausInit

namespace QV.KrausInit

theorem mem_insertSorted (x y : Nat) : ∀ l : List Nat, y ∈ insertSorted x l ↔ y = x ∨ y ∈ l
  | [] => by simp [insertSorted]
  | z :: zs => by
    unfold insertSorted
    split
    · simp
    · split
      · rename_i h; subst h; simp
      · simp only [List.mem_cons, mem_insertSorted x y zs]
        constructor
        · rintro (h | h | h)
          · exact Or.inr (Or.inl h)
          · exact Or.inl h
          · exact Or.inr (Or.inr h)
        · rintro (h | h | h)
          · exact Or.inr (Or.inl h)
          · exact Or.inl h
          · exact Or.inr (Or.inr h)

theorem mem_sortedSet (y : Nat) : ∀ l : List Nat, y ∈ sortedSet l ↔ y ∈ l
  | [] => by simp [sortedSet]
  | x :: xs => by
    have ih := mem_sortedSet y xs
    unfold sortedSet at *
    simp only [List.foldr_cons, mem_insertSorted, ih, List.mem_cons]

theorem pairwise_insertSorted (x : Nat) : ∀ l : List Nat, l.Pairwise (· < ·) →
    (insertSorted x l).Pairwise (· < ·)
  | [], _ => by simp [insertSorted]
  | z :: zs, h => by
    have hz := List.pairwise_cons.mp h
    unfold insertSorted
    split
    · rename_i hlt
      refine List.pairwise_cons.mpr ⟨?_, h⟩
      intro a ha
      rcases List.mem_cons.mp ha with rfl | ha
      · exact hlt
      · exact Nat.lt_trans hlt (hz.1 a ha)
    · split
      · exact h
      · rename_i h1 h2
        refine List.pairwise_cons.mpr ⟨?_, pairwise_insertSorted x zs hz.2⟩
        intro a ha
        rcases (mem_insertSorted x a zs).mp ha with rfl | ha
        · omega
        · exact hz.1 a ha

theorem pairwise_sortedSet : ∀ l : List Nat, (sortedSet l).Pairwise (· < ·)
  | [] => by simp [sortedSet]
  | x :: xs => by
    have ih := pairwise_sortedSet xs
    unfold sortedSet at *
    simpa using pairwise_insertSorted x _ ih

end QV.KrausInit
