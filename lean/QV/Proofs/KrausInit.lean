/-
  QV.Proofs.KrausInit — the relabelling of `KrausChannel.__init__` is positional in the gate's
  DECLARED qubit order, for every gate and every requested tuple.
-/
import QV.Model.KrausInit

namespace QV.KrausInit

theorem lookup_cons_ne (d r x : Nat) (rest : List (Nat × Nat)) (h : x ≠ d) :
    lookup ((d, r) :: rest) x = lookup rest x := by
  unfold lookup
  have : (x == d) = false := by simpa using h
  simp [List.lookup, this]

theorem lookup_cons_self (d r : Nat) (rest : List (Nat × Nat)) : lookup ((d, r) :: rest) d = r := by
  simp [lookup, List.lookup]

theorem map_lookup_cons (d r : Nat) (rest : List (Nat × Nat)) (xs : List Nat) (h : d ∉ xs) :
    xs.map (lookup ((d, r) :: rest)) = xs.map (lookup rest) := by
  apply List.map_congr_left
  intro x hx
  exact lookup_cons_ne d r x rest (fun e => h (e ▸ hx))

/-- i-th declared qubit ↦ i-th requested qubit. -/
theorem relabelGate_positional : ∀ (declared requested : List Nat), declared.Nodup →
    declared.length ≤ requested.length → relabelGate declared requested = requested.take declared.length
  | [], _, _, _ => by simp [relabelGate]
  | d :: ds, [], _, h => by simp at h
  | d :: ds, r :: rs, hn, h => by
    have hd : d ∉ ds := (List.nodup_cons.mp hn).1
    have ih := relabelGate_positional ds rs (List.nodup_cons.mp hn).2 (by simpa using h)
    unfold relabelGate relabelDict at *
    simp only [List.zip_cons_cons, List.map_cons, lookup_cons_self, List.length_cons, List.take_succ_cons]
    rw [map_lookup_cons d r _ ds hd, ih]

end QV.KrausInit
