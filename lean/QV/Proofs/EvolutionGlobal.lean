/-
  QV.Proofs.EvolutionGlobal — GLOBAL error bounds for the solvers of property C16 (many steps).

  * telescoping ("Lady Windermere's fan") in any normed ring: `S^k - E^k` and products of
    different steps `∏ S_j - ∏ E_j` are bounded by the accumulated local errors
    (`norm_pow_sub_pow_le_geo`, `norm_pow_sub_pow_le`, `norm_pow_sub_pow_le_growth`,
    `norm_pow_sub_pow_le_perturb`, `norm_prod_sub_prod_le`);
  * in a C⋆-algebra (complex matrices with the spectral norm, bounded operators on a Hilbert
    space): `exp(-i a h)` is unitary for self-adjoint `h` and real `a`, hence so is the whole
    symmetric Trotter queue, hence both have norm `≤ 1`;
  * global Trotter bound `‖S(dt)^k - exp(-i k dt H)‖ ≤ k · 2 r₃(|dt| L)` for every `k`, `dt`, term
    list, and its closed form `≤ (L³ e^{dt L} / 3) · T · dt²`, `T = k dt`.
-/
import Mathlib.Analysis.CStarAlgebra.Basic
import Mathlib.Analysis.CStarAlgebra.Exponential
import Mathlib.Algebra.Star.SelfAdjoint
import Mathlib.Algebra.Group.Submonoid.BigOperators
import QV.Proofs.EvolutionBound

namespace QV
namespace Evo

open NormedSpace

/-! ### telescoping in a normed ring -/

section telescope
variable {𝔸 : Type*} [NormedRing 𝔸]

/-- `Σ_{j<k} a^j b^{k-1-j}`, written by its recursion. -/
def geo (a b : ℝ) : ℕ → ℝ
  | 0 => 0
  | k + 1 => a ^ k + geo a b k * b

theorem geo_succ (a b : ℝ) (k : ℕ) : geo a b (k + 1) = a ^ k + geo a b k * b := rfl

theorem geo_nonneg {a b : ℝ} (ha : 0 ≤ a) (hb : 0 ≤ b) (k : ℕ) : 0 ≤ geo a b k := by
  induction k with
  | zero => exact le_rfl
  | succ k ih => rw [geo_succ]; positivity

theorem norm_pow_le_of_le (h1 : ‖(1 : 𝔸)‖ ≤ 1) {S : 𝔸} {a : ℝ} (hS : ‖S‖ ≤ a) (k : ℕ) :
    ‖S ^ k‖ ≤ a ^ k := by
  have ha : 0 ≤ a := (norm_nonneg S).trans hS
  induction k with
  | zero => simpa using h1
  | succ k ih =>
    rw [pow_succ, pow_succ]
    exact (norm_mul_le _ _).trans (mul_le_mul ih hS (norm_nonneg _) (pow_nonneg ha k))

/-- **telescoping, general form**: `‖S^k - E^k‖ ≤ ‖S - E‖ · Σ_{j<k} a^j b^{k-1-j}` whenever
`‖S‖ ≤ a`, `‖E‖ ≤ b`. -/
theorem norm_pow_sub_pow_le_geo (h1 : ‖(1 : 𝔸)‖ ≤ 1) {S E : 𝔸} {a b : ℝ} (hS : ‖S‖ ≤ a)
    (hE : ‖E‖ ≤ b) (k : ℕ) : ‖S ^ k - E ^ k‖ ≤ ‖S - E‖ * geo a b k := by
  have ha : 0 ≤ a := (norm_nonneg S).trans hS
  have hb : 0 ≤ b := (norm_nonneg E).trans hE
  induction k with
  | zero => simp [geo]
  | succ k ih =>
    have split : S ^ (k + 1) - E ^ (k + 1) = S ^ k * (S - E) + (S ^ k - E ^ k) * E := by
      rw [pow_succ, pow_succ]; noncomm_ring
    rw [split]
    have p1 : ‖S ^ k * (S - E)‖ ≤ a ^ k * ‖S - E‖ :=
      (norm_mul_le _ _).trans
        (mul_le_mul_of_nonneg_right (norm_pow_le_of_le h1 hS k) (norm_nonneg _))
    have p2 : ‖(S ^ k - E ^ k) * E‖ ≤ ‖S - E‖ * geo a b k * b :=
      (norm_mul_le _ _).trans
        (mul_le_mul ih hE (norm_nonneg _) (mul_nonneg (norm_nonneg _) (geo_nonneg ha hb k)))
    calc _ ≤ ‖S ^ k * (S - E)‖ + ‖(S ^ k - E ^ k) * E‖ := norm_add_le _ _
      _ ≤ a ^ k * ‖S - E‖ + ‖S - E‖ * geo a b k * b := add_le_add p1 p2
      _ = ‖S - E‖ * geo a b (k + 1) := by rw [geo_succ]; ring

theorem geo_le_of_le_one {a b : ℝ} (ha : 0 ≤ a) (hb : 0 ≤ b) (ha1 : a ≤ 1) (hb1 : b ≤ 1) (k : ℕ) :
    geo a b k ≤ k := by
  induction k with
  | zero => simp [geo]
  | succ k ih =>
    rw [geo_succ]
    have h1 : a ^ k ≤ 1 := pow_le_one₀ ha ha1
    have h2 : geo a b k * b ≤ k * 1 :=
      mul_le_mul ih hb1 hb (Nat.cast_nonneg k)
    push_cast
    linarith

theorem geo_le_growth {a b : ℝ} (ha1 : 1 ≤ a) (hb : 0 ≤ b) (hb1 : b ≤ 1) (k : ℕ) :
    geo a b k ≤ k * a ^ (k - 1) := by
  have ha : 0 ≤ a := zero_le_one.trans ha1
  induction k with
  | zero => simp [geo]
  | succ k ih =>
    rw [geo_succ]
    have hmono : a ^ (k - 1) ≤ a ^ k := pow_le_pow_right₀ ha1 (Nat.sub_le k 1)
    have h2 : geo a b k * b ≤ (k * a ^ (k - 1)) * 1 :=
      mul_le_mul ih hb1 hb (by positivity)
    have h3 : (k : ℝ) * a ^ (k - 1) ≤ k * a ^ k :=
      mul_le_mul_of_nonneg_left hmono (Nat.cast_nonneg k)
    simp only [Nat.add_sub_cancel]
    push_cast
    linarith

theorem geo_perturb {e b : ℝ} (he : 0 ≤ e) (hb : 0 ≤ b) (hb1 : b ≤ 1) (k : ℕ) :
    e * geo (1 + e) b k ≤ (1 + e) ^ k - 1 := by
  induction k with
  | zero => simp [geo]
  | succ k ih =>
    rw [geo_succ]
    have hg := geo_nonneg (a := 1 + e) (b := b) (by linarith) hb k
    have h2 : e * (geo (1 + e) b k * b) ≤ e * geo (1 + e) b k := by
      have : geo (1 + e) b k * b ≤ geo (1 + e) b k * 1 := mul_le_mul_of_nonneg_left hb1 hg
      nlinarith
    rw [pow_succ]
    nlinarith [pow_nonneg (show (0 : ℝ) ≤ 1 + e by linarith) k]

/-- **telescoping for contractions**: `‖S^k - E^k‖ ≤ k ‖S - E‖` if `‖S‖, ‖E‖ ≤ 1`. -/
theorem norm_pow_sub_pow_le (h1 : ‖(1 : 𝔸)‖ ≤ 1) {S E : 𝔸} (hS : ‖S‖ ≤ 1) (hE : ‖E‖ ≤ 1)
    (k : ℕ) : ‖S ^ k - E ^ k‖ ≤ k * ‖S - E‖ := by
  have h := norm_pow_sub_pow_le_geo h1 hS hE k
  have g := geo_le_of_le_one (zero_le_one) (zero_le_one) (le_refl (1 : ℝ)) (le_refl (1 : ℝ)) k
  calc _ ≤ ‖S - E‖ * geo 1 1 k := h
    _ ≤ ‖S - E‖ * k := mul_le_mul_of_nonneg_left g (norm_nonneg _)
    _ = k * ‖S - E‖ := mul_comm _ _

/-- **telescoping with growth**: `‖S^k - E^k‖ ≤ k a^{k-1} ‖S - E‖` if `‖S‖ ≤ a`, `1 ≤ a`,
`‖E‖ ≤ 1`. -/
theorem norm_pow_sub_pow_le_growth (h1 : ‖(1 : 𝔸)‖ ≤ 1) {S E : 𝔸} {a : ℝ} (ha1 : 1 ≤ a)
    (hS : ‖S‖ ≤ a) (hE : ‖E‖ ≤ 1) (k : ℕ) :
    ‖S ^ k - E ^ k‖ ≤ k * a ^ (k - 1) * ‖S - E‖ := by
  have h := norm_pow_sub_pow_le_geo h1 hS hE k
  have g := geo_le_growth ha1 (zero_le_one) (le_refl (1 : ℝ)) k
  calc _ ≤ ‖S - E‖ * geo a 1 k := h
    _ ≤ ‖S - E‖ * (k * a ^ (k - 1)) := mul_le_mul_of_nonneg_left g (norm_nonneg _)
    _ = _ := mul_comm _ _

/-- **telescoping around a contraction**: if `‖E‖ ≤ 1` and `‖S - E‖ ≤ e` then
`‖S^k - E^k‖ ≤ (1 + e)^k - 1` (no separate bound on `‖S‖` needed). -/
theorem norm_pow_sub_pow_le_perturb (h1 : ‖(1 : 𝔸)‖ ≤ 1) {S E : 𝔸} {e : ℝ} (hE : ‖E‖ ≤ 1)
    (hd : ‖S - E‖ ≤ e) (k : ℕ) : ‖S ^ k - E ^ k‖ ≤ (1 + e) ^ k - 1 := by
  have he : 0 ≤ e := (norm_nonneg _).trans hd
  have hS : ‖S‖ ≤ 1 + e := by
    have : S = E + (S - E) := by abel
    rw [this]
    exact (norm_add_le _ _).trans (add_le_add hE hd)
  have h := norm_pow_sub_pow_le_geo h1 hS hE k
  have hg := geo_nonneg (a := 1 + e) (b := 1) (by linarith) zero_le_one k
  calc _ ≤ ‖S - E‖ * geo (1 + e) 1 k := h
    _ ≤ e * geo (1 + e) 1 k := mul_le_mul_of_nonneg_right hd hg
    _ ≤ _ := geo_perturb he zero_le_one le_rfl k

theorem norm_list_prod_le_one (h1 : ‖(1 : 𝔸)‖ ≤ 1) (l : List 𝔸) (hl : ∀ x ∈ l, ‖x‖ ≤ 1) :
    ‖l.prod‖ ≤ 1 := by
  induction l with
  | nil => simpa using h1
  | cons x l ih =>
    rw [List.prod_cons]
    calc ‖x * l.prod‖ ≤ ‖x‖ * ‖l.prod‖ := norm_mul_le _ _
      _ ≤ 1 * 1 := mul_le_mul (hl x (List.mem_cons_self ..))
          (ih fun y hy => hl y (List.mem_cons_of_mem _ hy)) (norm_nonneg _) zero_le_one
      _ = 1 := one_mul _

/-- **telescoping for products of different steps**: for a list of pairs (approximate step,
exact step), all of norm `≤ 1`, the ordered products differ by at most the sum of the local
errors. -/
theorem norm_prod_sub_prod_le (h1 : ‖(1 : 𝔸)‖ ≤ 1) (l : List (𝔸 × 𝔸))
    (hl : ∀ p ∈ l, ‖p.1‖ ≤ 1 ∧ ‖p.2‖ ≤ 1) :
    ‖(l.map Prod.fst).prod - (l.map Prod.snd).prod‖ ≤ (l.map fun p => ‖p.1 - p.2‖).sum := by
  induction l with
  | nil => simp
  | cons p l ih =>
    have hp := hl p (List.mem_cons_self ..)
    have hl' : ∀ q ∈ l, ‖q.1‖ ≤ 1 ∧ ‖q.2‖ ≤ 1 := fun q hq => hl q (List.mem_cons_of_mem _ hq)
    simp only [List.map_cons, List.prod_cons, List.sum_cons]
    have split : p.1 * (l.map Prod.fst).prod - p.2 * (l.map Prod.snd).prod
        = p.1 * ((l.map Prod.fst).prod - (l.map Prod.snd).prod)
          + (p.1 - p.2) * (l.map Prod.snd).prod := by noncomm_ring
    rw [split]
    have hE : ‖(l.map Prod.snd).prod‖ ≤ 1 :=
      norm_list_prod_le_one h1 _ (by
        intro x hx
        obtain ⟨q, hq, rfl⟩ := List.mem_map.mp hx
        exact (hl' q hq).2)
    have p1 : ‖p.1 * ((l.map Prod.fst).prod - (l.map Prod.snd).prod)‖
        ≤ 1 * (l.map fun p => ‖p.1 - p.2‖).sum :=
      (norm_mul_le _ _).trans (mul_le_mul hp.1 (ih hl') (norm_nonneg _) zero_le_one)
    have p2 : ‖(p.1 - p.2) * (l.map Prod.snd).prod‖ ≤ ‖p.1 - p.2‖ * 1 :=
      (norm_mul_le _ _).trans (mul_le_mul_of_nonneg_left hE (norm_nonneg _))
    calc _ ≤ _ + _ := norm_add_le _ _
      _ ≤ 1 * (l.map fun p => ‖p.1 - p.2‖).sum + ‖p.1 - p.2‖ * 1 := add_le_add p1 p2
      _ = _ := by ring

end telescope

/-! ### unitarity in a C⋆-algebra -/

section cstar
variable {𝔸 : Type*} [NormedRing 𝔸] [StarRing 𝔸] [CStarRing 𝔸] [NormedAlgebra ℂ 𝔸]
  [StarModule ℂ 𝔸] [CompleteSpace 𝔸]

omit [NormedAlgebra ℂ 𝔸] [StarModule ℂ 𝔸] [CompleteSpace 𝔸] in
theorem cstar_norm_one_le : ‖(1 : 𝔸)‖ ≤ 1 := by
  rcases subsingleton_or_nontrivial 𝔸 with h | h
  · have : (1 : 𝔸) = 0 := Subsingleton.elim _ _
    rw [this, norm_zero]; exact zero_le_one
  · exact le_of_eq CStarRing.norm_one

omit [NormedAlgebra ℂ 𝔸] [StarModule ℂ 𝔸] [CompleteSpace 𝔸] in
theorem norm_le_one_of_mem_unitary {U : 𝔸} (hU : U ∈ unitary 𝔸) : ‖U‖ ≤ 1 := by
  rcases subsingleton_or_nontrivial 𝔸 with h | h
  · have : U = 0 := Subsingleton.elim _ _
    rw [this, norm_zero]; exact zero_le_one
  · exact le_of_eq (CStarRing.norm_of_mem_unitary hU)

/-- `exp(-i a h)` is unitary for self-adjoint `h` and real `a`. -/
theorem propagator_mem_unitary (a : ℝ) {h : 𝔸} (hh : IsSelfAdjoint h) :
    propagator (a : ℂ) h ∈ unitary 𝔸 := by
  unfold propagator
  let +nondep : NormedAlgebra ℚ 𝔸 := .restrictScalars ℚ ℂ 𝔸
  apply exp_mem_unitary_of_mem_skewAdjoint
  rw [skewAdjoint.mem_iff, star_smul, hh.star_eq, ← neg_smul]
  congr 1
  simp [Complex.conj_ofReal]

theorem norm_propagator_le_one (a : ℝ) {h : 𝔸} (hh : IsSelfAdjoint h) :
    ‖propagator (a : ℂ) h‖ ≤ 1 :=
  norm_le_one_of_mem_unitary (propagator_mem_unitary a hh)

/-- the symmetric Trotter queue of self-adjoint terms with a real step is unitary. -/
theorem trotterProd_mem_unitary (a : ℝ) (hs : List 𝔸) (hh : ∀ h ∈ hs, IsSelfAdjoint h) :
    trotterProd (a : ℂ) hs ∈ unitary 𝔸 := by
  unfold trotterProd
  apply Submonoid.list_prod_mem
  intro x hx
  obtain ⟨h, hm, rfl⟩ := List.mem_map.mp hx
  apply propagator_mem_unitary
  rcases List.mem_append.mp hm with h1 | h1
  · exact hh h h1
  · exact hh h (List.mem_reverse.mp h1)

theorem norm_trotterProd_le_one (a : ℝ) (hs : List 𝔸) (hh : ∀ h ∈ hs, IsSelfAdjoint h) :
    ‖trotterProd (a : ℂ) hs‖ ≤ 1 :=
  norm_le_one_of_mem_unitary (trotterProd_mem_unitary a hs hh)

omit [CStarRing 𝔸] [NormedAlgebra ℂ 𝔸] [StarModule ℂ 𝔸] [CompleteSpace 𝔸] in
theorem isSelfAdjoint_list_sum (hs : List 𝔸) (hh : ∀ h ∈ hs, IsSelfAdjoint h) :
    IsSelfAdjoint hs.sum := by
  induction hs with
  | nil => simp
  | cons h hs ih =>
    rw [List.sum_cons]
    exact (hh h (List.mem_cons_self ..)).add (ih fun x hx => hh x (List.mem_cons_of_mem _ hx))

omit [StarRing 𝔸] [CStarRing 𝔸] [NormedAlgebra ℂ 𝔸] [StarModule ℂ 𝔸] [CompleteSpace 𝔸] in
theorem sum_norm_nonneg (hs : List 𝔸) : 0 ≤ (hs.map fun h => ‖h‖).sum :=
  List.sum_nonneg (by intro x hx; obtain ⟨h, _, rfl⟩ := List.mem_map.mp hx; exact norm_nonneg h)

/-- **global Trotter bound**: `k` symmetric Trotter steps of real size `dt` for self-adjoint terms
against the exact propagator for time `k dt`:
`‖S(dt)^k - exp(-i k dt Σh)‖ ≤ k · 2 r₃(|dt| Σ‖h_j‖)`, every `k`, `dt`, term list. -/
theorem trotter_global (hs : List 𝔸) (hh : ∀ h ∈ hs, IsSelfAdjoint h) (dt : ℝ) (k : ℕ) :
    ‖trotterProd ((dt : ℂ) / 2) hs ^ k - propagator ((k : ℂ) * (dt : ℂ)) hs.sum‖
      ≤ k * (2 * rem3 (|dt| * (hs.map fun h => ‖h‖).sum)) := by
  let +nondep : NormedAlgebra ℚ 𝔸 := .restrictScalars ℚ ℂ 𝔸
  rw [← propagator_pow]
  have e : ((dt : ℂ) / 2) = ((dt / 2 : ℝ) : ℂ) := by push_cast; rfl
  have hS : ‖trotterProd ((dt : ℂ) / 2) hs‖ ≤ 1 := by
    rw [e]; exact norm_trotterProd_le_one _ hs hh
  have hE : ‖propagator (dt : ℂ) hs.sum‖ ≤ 1 :=
    norm_propagator_le_one dt (isSelfAdjoint_list_sum hs hh)
  have loc := trotterProd_error_le cstar_norm_one_le hs (dt : ℂ)
  rw [Complex.norm_real, Real.norm_eq_abs] at loc
  calc _ ≤ (k : ℝ) * ‖trotterProd ((dt : ℂ) / 2) hs - propagator (dt : ℂ) hs.sum‖ :=
        norm_pow_sub_pow_le cstar_norm_one_le hS hE k
    _ ≤ _ := mul_le_mul_of_nonneg_left loc (Nat.cast_nonneg k)

/-- **second-order global convergence, closed form**: with `T = k dt`, `dt ≥ 0`,
`‖S(dt)^k - exp(-i T H)‖ ≤ (L³ e^{dt L} / 3) · T · dt²`, `L = Σ‖h_j‖`. -/
theorem trotter_global_order (hs : List 𝔸) (hh : ∀ h ∈ hs, IsSelfAdjoint h) (dt : ℝ)
    (hdt : 0 ≤ dt) (k : ℕ) :
    ‖trotterProd ((dt : ℂ) / 2) hs ^ k - propagator ((k : ℂ) * (dt : ℂ)) hs.sum‖
      ≤ ((hs.map fun h => ‖h‖).sum ^ 3 * Real.exp (dt * (hs.map fun h => ‖h‖).sum) / 3)
        * (k * dt) * dt ^ 2 := by
  have hL := sum_norm_nonneg hs
  have h := trotter_global hs hh dt k
  rw [abs_of_nonneg hdt] at h
  have r := rem3_le (mul_nonneg hdt hL)
  have hk : (0 : ℝ) ≤ k := Nat.cast_nonneg k
  calc _ ≤ k * (2 * rem3 (dt * (hs.map fun h => ‖h‖).sum)) := h
    _ ≤ k * (2 * ((dt * (hs.map fun h => ‖h‖).sum) ^ 3 / 6
          * Real.exp (dt * (hs.map fun h => ‖h‖).sum))) :=
        mul_le_mul_of_nonneg_left (mul_le_mul_of_nonneg_left r (by norm_num)) hk
    _ = _ := by ring

/-- … and with a constant independent of `dt` for `dt ≤ 1`: `C = L³ e^L / 3`,
`‖S(dt)^k - exp(-i T H)‖ ≤ C · T · dt²`. -/
theorem trotter_global_order_const (hs : List 𝔸) (hh : ∀ h ∈ hs, IsSelfAdjoint h) (dt : ℝ)
    (hdt : 0 ≤ dt) (hdt1 : dt ≤ 1) (k : ℕ) :
    ‖trotterProd ((dt : ℂ) / 2) hs ^ k - propagator ((k : ℂ) * (dt : ℂ)) hs.sum‖
      ≤ ((hs.map fun h => ‖h‖).sum ^ 3 * Real.exp ((hs.map fun h => ‖h‖).sum) / 3)
        * (k * dt) * dt ^ 2 := by
  have hL := sum_norm_nonneg hs
  have h := trotter_global_order hs hh dt hdt k
  have hk : (0 : ℝ) ≤ k := Nat.cast_nonneg k
  have he : Real.exp (dt * (hs.map fun h => ‖h‖).sum) ≤ Real.exp ((hs.map fun h => ‖h‖).sum) := by
    apply Real.exp_le_exp.mpr
    calc dt * (hs.map fun h => ‖h‖).sum ≤ 1 * (hs.map fun h => ‖h‖).sum :=
          mul_le_mul_of_nonneg_right hdt1 hL
      _ = _ := one_mul _
  refine h.trans ?_
  have hT : 0 ≤ (k : ℝ) * dt * dt ^ 2 := by positivity
  have hL3 : 0 ≤ (hs.map fun h => ‖h‖).sum ^ 3 := by positivity
  have : (hs.map fun h => ‖h‖).sum ^ 3 * Real.exp (dt * (hs.map fun h => ‖h‖).sum) / 3
      ≤ (hs.map fun h => ‖h‖).sum ^ 3 * Real.exp ((hs.map fun h => ‖h‖).sum) / 3 := by
    have := mul_le_mul_of_nonneg_left he hL3
    linarith
  calc _ = ((hs.map fun h => ‖h‖).sum ^ 3 * Real.exp (dt * (hs.map fun h => ‖h‖).sum) / 3)
        * (k * dt * dt ^ 2) := by ring
    _ ≤ ((hs.map fun h => ‖h‖).sum ^ 3 * Real.exp ((hs.map fun h => ‖h‖).sum) / 3)
        * (k * dt * dt ^ 2) := mul_le_mul_of_nonneg_right this hT
    _ = _ := by ring

end cstar

/-! ### commuting terms: the error of `k` steps is 0, by the same chain -/

section commuting
variable {𝔸 : Type*} [NormedRing 𝔸] [NormedAlgebra ℂ 𝔸] [CompleteSpace 𝔸]

/-- for pairwise commuting terms the local error is `0`, so the telescoped global error is `0`
(no self-adjointness needed: the general telescoping bound is `‖S - E‖ · Σ …`). -/
theorem trotter_global_commuting (h1 : ‖(1 : 𝔸)‖ ≤ 1) (hs : List 𝔸) (hc : hs.Pairwise Commute)
    (dt : ℂ) (k : ℕ) :
    ‖trotterProd (dt / 2) hs ^ k - propagator ((k : ℂ) * dt) hs.sum‖ = 0 := by
  let +nondep : NormedAlgebra ℚ 𝔸 := .restrictScalars ℚ ℂ 𝔸
  rw [← propagator_pow]
  have h := norm_pow_sub_pow_le_geo h1 (le_refl ‖trotterProd (dt / 2) hs‖)
    (le_refl ‖propagator dt hs.sum‖) k
  have d : ‖trotterProd (dt / 2) hs - propagator dt hs.sum‖ = 0 := by
    rw [trotterProd_of_commute dt hs hc, sub_self, norm_zero]
  rw [d, zero_mul] at h
  exact le_antisymm h (norm_nonneg _)

end commuting

end Evo
end QV
