/-
  QV.Proofs.DMLemmas — algebra of the density-matrix simulator model `applyLeft` /
  `applyRight` / `applyGateDM` / `runCircuitDM` of QV/Model/Sim.lean (part C).

  The scalar conjugation is an arbitrary map `conj : α → α`; the only facts ever used are
  `conj (a + b) = conj a + conj b` and `conj (a * b) = conj a * conj b`, passed as explicit
  hypotheses where needed (`starRingEnd ℂ`, or `star` on any commutative star ring, qualify).

  Main results
    * `applyLeft_applyRight_comm`      : left and right actions commute
    * `applyGateDM_outer`, `runCircuitDM_outer` : `|ψ⟩⟨φ| ↦ |Gψ⟩⟨Gφ|` (pure case of `U ρ U†`)
    * `applyGateDM_add/_smul/_zero/_sum`, `runCircuitDM_add/_smul/_zero/_sum`
    * `runCircuitDM_mixture`           : mixtures `Σ pᵢ |ψᵢ⟩⟨ψᵢ|`
    * `trN_applyGateDM`, `trN_runCircuitDM` : trace preservation for `M† M = 1`
-/
import QV.Proofs.SimLemmas

namespace QV

open Finset

/-- the gate with entrywise conjugated matrix (what `applyRight` applies to the column label). -/
def MGate.conjMat {α : Type} (conj : α → α) (g : MGate α) : MGate α :=
  { g with mat := fun i j => conj (g.mat i j) }

@[simp] theorem MGate.conjMat_targets {α : Type} (conj : α → α) (g : MGate α) :
    (g.conjMat conj).targets = g.targets := rfl
@[simp] theorem MGate.conjMat_controls {α : Type} (conj : α → α) (g : MGate α) :
    (g.conjMat conj).controls = g.controls := rfl
@[simp] theorem MGate.conjMat_mat {α : Type} (conj : α → α) (g : MGate α) (i j : Nat) :
    (g.conjMat conj).mat i j = conj (g.mat i j) := rfl

variable {α : Type} [CommSemiring α]

theorem applyRight_eq (conj : α → α) (g : MGate α) (ρ : DM α) (x y : Lab) :
    applyRight conj g ρ x y = applyGate (g.conjMat conj) (fun c => ρ x c) y := rfl

theorem applyLeft_eq (g : MGate α) (ρ : DM α) (x y : Lab) :
    applyLeft g ρ x y = applyGate g (fun r => ρ r y) x := rfl

/-! ### independent Fubini -/

theorem sumOver_sumOver_comm {β : Type} [AddCommMonoid β] (ps qs : List Nat)
    (F : Lab → Lab → β) (x y : Lab) :
    sumOver ps (fun r => sumOver qs (fun c => F r c) y) x
      = sumOver qs (fun c => sumOver ps (fun r => F r c) x) y := by
  induction ps generalizing x with
  | nil => rfl
  | cons p ps ih =>
    rw [sumOver_cons, ih, ih, ← sumOver_add]
    rfl

/-! ### left and right actions commute -/

/-- `G (ρ H†) = (G ρ) H†` for arbitrary gates `g`, `h`; no hypothesis at all is needed. -/
theorem applyLeft_applyRight_comm' (conj : α → α) (g h : MGate α) (ρ : DM α) :
    applyLeft g (applyRight conj h ρ) = applyRight conj h (applyLeft g ρ) := by
  funext x y
  simp only [applyLeft_eq, applyRight_eq]
  unfold applyGate
  simp only [MGate.conjMat_controls, MGate.conjMat_targets, MGate.conjMat_mat]
  rcases Bool.eq_false_or_eq_true (Lab.allOne g.controls x) with hg | hg <;>
    rcases Bool.eq_false_or_eq_true (Lab.allOne h.controls y) with hh | hh <;>
    simp only [hg, hh, if_true, Bool.false_eq_true, if_false]
  simp only [← sumOver_mul_left]
  rw [sumOver_sumOver_comm]
  simp only [mul_left_comm]

theorem applyLeft_applyRight_comm (conj : α → α) (g : MGate α) (ρ : DM α) :
    applyLeft g (applyRight conj g ρ) = applyRight conj g (applyLeft g ρ) :=
  applyLeft_applyRight_comm' conj g g ρ

/-! ### conjugation commutes with gate application -/

theorem applyGate_conj (conj : α → α) (hadd : ∀ a b, conj (a + b) = conj a + conj b)
    (hmul : ∀ a b, conj (a * b) = conj a * conj b) (g : MGate α) (ψ : Lab → α) (y : Lab) :
    applyGate (g.conjMat conj) (fun c => conj (ψ c)) y = conj (applyGate g ψ y) := by
  unfold applyGate
  simp only [MGate.conjMat_controls, MGate.conjMat_targets, MGate.conjMat_mat]
  rcases Bool.eq_false_or_eq_true (Lab.allOne g.controls y) with hc | hc <;>
    simp only [hc, if_true, Bool.false_eq_true, if_false]
  rw [sumOver_hom conj hadd]
  simp only [hmul]

/-! ### outer products (pure states) -/

theorem applyRight_outer (conj : α → α) (hadd : ∀ a b, conj (a + b) = conj a + conj b)
    (hmul : ∀ a b, conj (a * b) = conj a * conj b) (g : MGate α) (ψ φ : Lab → α) :
    applyRight conj g (fun x y => ψ x * conj (φ y))
      = fun x y => ψ x * conj (applyGate g φ y) := by
  funext x y
  rw [applyRight_eq, applyGate_smul]
  dsimp only
  rw [applyGate_conj conj hadd hmul]

theorem applyLeft_outer (g : MGate α) (ψ c : Lab → α) :
    applyLeft g (fun x y => ψ x * c y) = fun x y => applyGate g ψ x * c y := by
  funext x y
  rw [applyLeft_eq, applyGate_smul_right]

/-- **Pure case of `ρ ↦ G ρ G†`** (stated for a general outer product `|ψ⟩⟨φ|`). -/
theorem applyGateDM_outer (conj : α → α) (hadd : ∀ a b, conj (a + b) = conj a + conj b)
    (hmul : ∀ a b, conj (a * b) = conj a * conj b) (g : MGate α) (ψ φ : Lab → α) :
    applyGateDM conj g (fun x y => ψ x * conj (φ y))
      = fun x y => applyGate g ψ x * conj (applyGate g φ y) := by
  unfold applyGateDM
  rw [applyRight_outer conj hadd hmul, applyLeft_outer g ψ (fun y => conj (applyGate g φ y))]

theorem runCircuitDM_nil (conj : α → α) (ρ : DM α) :
    runCircuitDM conj ([] : List (MGate α)) ρ = ρ := rfl

theorem runCircuitDM_cons (conj : α → α) (g : MGate α) (gs : List (MGate α)) (ρ : DM α) :
    runCircuitDM conj (g :: gs) ρ = runCircuitDM conj gs (applyGateDM conj g ρ) := rfl

theorem runCircuitDM_append (conj : α → α) (gs hs : List (MGate α)) (ρ : DM α) :
    runCircuitDM conj (gs ++ hs) ρ = runCircuitDM conj hs (runCircuitDM conj gs ρ) := by
  simp [runCircuitDM, List.foldl_append]

/-- **Density-matrix execution of a pure input is the projector onto the state-vector result.** -/
theorem runCircuitDM_outer (conj : α → α) (hadd : ∀ a b, conj (a + b) = conj a + conj b)
    (hmul : ∀ a b, conj (a * b) = conj a * conj b) (gs : List (MGate α)) (ψ φ : Lab → α) :
    runCircuitDM conj gs (fun x y => ψ x * conj (φ y))
      = fun x y => runCircuit gs ψ x * conj (runCircuit gs φ y) := by
  induction gs generalizing ψ φ with
  | nil => rfl
  | cons g gs ih =>
    rw [runCircuitDM_cons, applyGateDM_outer conj hadd hmul, ih]
    rfl

/-! ### linearity in ρ -/

theorem applyLeft_add (g : MGate α) (ρ σ : DM α) :
    applyLeft g (fun x y => ρ x y + σ x y)
      = fun x y => applyLeft g ρ x y + applyLeft g σ x y := by
  funext x y
  exact congrFun (applyGate_add g (fun r => ρ r y) (fun r => σ r y)) x

theorem applyRight_add (conj : α → α) (g : MGate α) (ρ σ : DM α) :
    applyRight conj g (fun x y => ρ x y + σ x y)
      = fun x y => applyRight conj g ρ x y + applyRight conj g σ x y := by
  funext x y
  exact congrFun (applyGate_add (g.conjMat conj) (fun c => ρ x c) (fun c => σ x c)) y

theorem applyLeft_smul (g : MGate α) (c : α) (ρ : DM α) :
    applyLeft g (fun x y => c * ρ x y) = fun x y => c * applyLeft g ρ x y := by
  funext x y
  exact congrFun (applyGate_smul g c (fun r => ρ r y)) x

theorem applyRight_smul (conj : α → α) (g : MGate α) (c : α) (ρ : DM α) :
    applyRight conj g (fun x y => c * ρ x y) = fun x y => c * applyRight conj g ρ x y := by
  funext x y
  exact congrFun (applyGate_smul (g.conjMat conj) c (fun r => ρ x r)) y

theorem applyLeft_zero (g : MGate α) : applyLeft g (fun _ _ => (0 : α)) = fun _ _ => 0 := by
  funext x y
  exact congrFun (applyGate_zero g) x

theorem applyRight_zero (conj : α → α) (g : MGate α) :
    applyRight conj g (fun _ _ => (0 : α)) = fun _ _ => 0 := by
  funext x y
  exact congrFun (applyGate_zero (g.conjMat conj)) y

theorem applyGateDM_add (conj : α → α) (g : MGate α) (ρ σ : DM α) :
    applyGateDM conj g (fun x y => ρ x y + σ x y)
      = fun x y => applyGateDM conj g ρ x y + applyGateDM conj g σ x y := by
  unfold applyGateDM
  rw [applyRight_add, applyLeft_add]

theorem applyGateDM_smul (conj : α → α) (g : MGate α) (c : α) (ρ : DM α) :
    applyGateDM conj g (fun x y => c * ρ x y) = fun x y => c * applyGateDM conj g ρ x y := by
  unfold applyGateDM
  rw [applyRight_smul, applyLeft_smul]

theorem applyGateDM_zero (conj : α → α) (g : MGate α) :
    applyGateDM conj g (fun _ _ => (0 : α)) = fun _ _ => 0 := by
  unfold applyGateDM
  rw [applyRight_zero, applyLeft_zero]

theorem applyGateDM_sum {ι : Type} (conj : α → α) (g : MGate α) (s : Finset ι) (ρ : ι → DM α) :
    applyGateDM conj g (fun x y => ∑ i ∈ s, ρ i x y)
      = fun x y => ∑ i ∈ s, applyGateDM conj g (ρ i) x y := by
  classical
  induction s using Finset.induction_on with
  | empty => simpa using applyGateDM_zero conj g
  | insert a s ha ih =>
    simp only [sum_insert ha]
    rw [applyGateDM_add conj g (ρ a) (fun x y => ∑ i ∈ s, ρ i x y), ih]

theorem runCircuitDM_add (conj : α → α) (gs : List (MGate α)) (ρ σ : DM α) :
    runCircuitDM conj gs (fun x y => ρ x y + σ x y)
      = fun x y => runCircuitDM conj gs ρ x y + runCircuitDM conj gs σ x y := by
  induction gs generalizing ρ σ with
  | nil => rfl
  | cons g gs ih => rw [runCircuitDM_cons, applyGateDM_add, ih]; rfl

theorem runCircuitDM_smul (conj : α → α) (gs : List (MGate α)) (c : α) (ρ : DM α) :
    runCircuitDM conj gs (fun x y => c * ρ x y)
      = fun x y => c * runCircuitDM conj gs ρ x y := by
  induction gs generalizing ρ with
  | nil => rfl
  | cons g gs ih => rw [runCircuitDM_cons, applyGateDM_smul, ih]; rfl

theorem runCircuitDM_zero (conj : α → α) (gs : List (MGate α)) :
    runCircuitDM conj gs (fun _ _ => (0 : α)) = fun _ _ => 0 := by
  induction gs with
  | nil => rfl
  | cons g gs ih => rw [runCircuitDM_cons, applyGateDM_zero, ih]

theorem runCircuitDM_sum {ι : Type} (conj : α → α) (gs : List (MGate α)) (s : Finset ι)
    (ρ : ι → DM α) :
    runCircuitDM conj gs (fun x y => ∑ i ∈ s, ρ i x y)
      = fun x y => ∑ i ∈ s, runCircuitDM conj gs (ρ i) x y := by
  induction gs generalizing ρ with
  | nil => rfl
  | cons g gs ih => simp only [runCircuitDM_cons, applyGateDM_sum, ih]

/-- **Mixtures**: `Σ pᵢ |ψᵢ⟩⟨ψᵢ|` is sent to `Σ pᵢ |C ψᵢ⟩⟨C ψᵢ|`. -/
theorem runCircuitDM_mixture {ι : Type} (conj : α → α)
    (hadd : ∀ a b, conj (a + b) = conj a + conj b)
    (hmul : ∀ a b, conj (a * b) = conj a * conj b) (gs : List (MGate α)) (s : Finset ι)
    (p : ι → α) (ψ : ι → Lab → α) :
    runCircuitDM conj gs (fun x y => ∑ i ∈ s, p i * (ψ i x * conj (ψ i y)))
      = fun x y => ∑ i ∈ s, p i * (runCircuit gs (ψ i) x * conj (runCircuit gs (ψ i) y)) := by
  rw [runCircuitDM_sum conj gs s (fun i x y => p i * (ψ i x * conj (ψ i y)))]
  funext x y
  apply sum_congr rfl
  intro i _
  rw [runCircuitDM_smul conj gs (p i) (fun x y => ψ i x * conj (ψ i y)),
    runCircuitDM_outer conj hadd hmul]

/-! ### trace preservation -/

/-- partial trace over the listed qubits of the diagonal of `ρ` (the remaining bits are those
of `x`); with `qs` the whole register this is the trace. -/
def trN (qs : List Nat) (ρ : DM α) (x : Lab) : α := sumOver qs (fun y => ρ y y) x

theorem applyRight_wIdx (conj : α → α) (g : MGate α) (hn : g.targets.Nodup)
    (hd : ∀ c, c ∈ g.controls → c ∉ g.targets) (ρ : DM α) (r : Lab) {z : Lab}
    (hc : Lab.allOne g.controls z = true) {i : Nat} (hi : i < 2 ^ g.targets.length) :
    applyRight conj g ρ r (Lab.wIdx z g.targets i)
      = ∑ j ∈ range (2 ^ g.targets.length),
          conj (g.mat i j) * ρ r (Lab.wIdx z g.targets j) :=
  applyGate_wIdx (g.conjMat conj) hn hd (fun c => ρ r c) hc hi

/-- the targets-only core of trace preservation. -/
theorem trN_targets_applyGateDM (conj : α → α) (g : MGate α) (hn : g.targets.Nodup)
    (hd : ∀ c, c ∈ g.controls → c ∉ g.targets)
    (hU : ∀ i j, i < 2 ^ g.targets.length → j < 2 ^ g.targets.length →
      ∑ k ∈ range (2 ^ g.targets.length), conj (g.mat k i) * g.mat k j = if i = j then 1 else 0)
    (ρ : DM α) (z : Lab) :
    trN g.targets (applyGateDM conj g ρ) z = trN g.targets ρ z := by
  unfold trN
  rw [sumOver_eq_sum' hn, sumOver_eq_sum' hn]
  cases hc : Lab.allOne g.controls z
  · -- controls off: nothing happens on any of the summed labels
    apply sum_congr rfl
    intro i _
    have hci : Lab.allOne g.controls (Lab.wIdx z g.targets i) = false := by
      rw [Lab.allOne_wIdx_of_disjoint z i hd, hc]
    unfold applyGateDM
    rw [applyLeft_eq, applyGate_of_controls_off g _ hci, applyRight_eq,
      applyGate_of_controls_off (g.conjMat conj) _ hci]
  · -- controls on
    have step : ∀ i ∈ range (2 ^ g.targets.length),
        applyGateDM conj g ρ (Lab.wIdx z g.targets i) (Lab.wIdx z g.targets i)
          = ∑ k ∈ range (2 ^ g.targets.length), ∑ j ∈ range (2 ^ g.targets.length),
              (conj (g.mat i j) * g.mat i k) *
                ρ (Lab.wIdx z g.targets k) (Lab.wIdx z g.targets j) := by
      intro i hi
      unfold applyGateDM
      rw [applyLeft_eq, applyGate_wIdx g hn hd _ hc (mem_range.mp hi)]
      apply sum_congr rfl
      intro k _
      rw [applyRight_wIdx conj g hn hd ρ _ hc (mem_range.mp hi), mul_sum]
      apply sum_congr rfl
      intro j _
      rw [← mul_assoc, mul_comm (g.mat i k)]
    rw [sum_congr rfl step, sum_comm]
    apply sum_congr rfl
    intro k hk
    rw [sum_comm]
    simp only [← sum_mul]
    rw [sum_congr rfl (g := fun j => if j = k then
        ρ (Lab.wIdx z g.targets k) (Lab.wIdx z g.targets j) else 0)]
    · rw [sum_ite_eq', if_pos hk]
    · intro j hj
      rw [hU j k (mem_range.mp hj) (mem_range.mp hk)]
      split <;> simp

/-- **Trace preservation.**  If the gate's targets are among the traced qubits `qs` and its
matrix satisfies `M† M = 1`, then `ρ ↦ G ρ G†` preserves the (partial) trace over `qs`. -/
theorem trN_applyGateDM (conj : α → α) (qs : List Nat) (g : MGate α) (hn : g.targets.Nodup)
    (hd : ∀ c, c ∈ g.controls → c ∉ g.targets) (hsub : ∀ t, t ∈ g.targets → t ∈ qs)
    (hU : ∀ i j, i < 2 ^ g.targets.length → j < 2 ^ g.targets.length →
      ∑ k ∈ range (2 ^ g.targets.length), conj (g.mat k i) * g.mat k j = if i = j then 1 else 0)
    (ρ : DM α) (x : Lab) :
    trN qs (applyGateDM conj g ρ) x = trN qs ρ x := by
  obtain ⟨l', hl', hsl⟩ := List.subperm_of_subset hn hsub
  obtain ⟨l, hl⟩ := hsl.exists_perm_append
  have hperm : qs.Perm (l ++ g.targets) :=
    hl.trans ((hl'.append_right l).trans List.perm_append_comm)
  unfold trN
  rw [sumOver_perm hperm, sumOver_perm hperm, sumOver_append, sumOver_append]
  congr 1
  funext z
  exact trN_targets_applyGateDM conj g hn hd hU ρ z

theorem trN_runCircuitDM (conj : α → α) (qs : List Nat) (gs : List (MGate α))
    (hgs : ∀ g ∈ gs, g.targets.Nodup ∧ (∀ c, c ∈ g.controls → c ∉ g.targets) ∧
      (∀ t, t ∈ g.targets → t ∈ qs) ∧
      ∀ i j, i < 2 ^ g.targets.length → j < 2 ^ g.targets.length →
        ∑ k ∈ range (2 ^ g.targets.length), conj (g.mat k i) * g.mat k j
          = if i = j then 1 else 0)
    (ρ : DM α) (x : Lab) :
    trN qs (runCircuitDM conj gs ρ) x = trN qs ρ x := by
  induction gs generalizing ρ with
  | nil => rfl
  | cons g gs ih =>
    obtain ⟨hn, hd, hsub, hU⟩ := hgs g (List.mem_cons_self ..)
    rw [runCircuitDM_cons, ih (fun g' hm => hgs g' (List.mem_cons_of_mem _ hm)),
      trN_applyGateDM conj qs g hn hd hsub hU]

end QV
