/-
  QV.Proofs.EncodingsHS1 — a step list aligned with a list of distinct bit strings of
  non-decreasing Hamming weight is a loading chain: instantiation of `loading_chain` with the
  labels of the strings.
-/
import Mathlib.Algebra.Ring.Defs
import Mathlib.Tactic.Ring
import Mathlib.Tactic.Linarith
import Mathlib.Algebra.BigOperators.Intervals
import Mathlib.Data.List.Nodup
import QV.Proofs.EncodingsHS0

set_option linter.unusedSimpArgs false
set_option linter.unusedVariables false

namespace QV.Enc
open QV Finset

variable {α : Type} [CommRing α]

/-! ### sorting keeps the members -/

theorem mem_insertSorted (x a : Nat) (l : List Nat) : x ∈ insertSorted a l ↔ x = a ∨ x ∈ l := by
  induction l with
  | nil => simp [insertSorted]
  | cons b bs ih =>
    unfold insertSorted
    split_ifs
    · simp
    · simp only [List.mem_cons, ih]
      tauto

theorem mem_sortNat (x : Nat) (l : List Nat) : x ∈ sortNat l ↔ x ∈ l := by
  induction l with
  | nil => simp [sortNat]
  | cons a l ih =>
    have : sortNat (a :: l) = insertSorted a (sortNat l) := rfl
    rw [this, mem_insertSorted, ih, List.mem_cons]

theorem allOne_iff (qs : List Nat) (x : Lab) : Lab.allOne qs x = true ↔ ∀ q ∈ qs, x q = true := by
  unfold Lab.allOne
  rw [List.all_eq_true]

theorem allOne_sortNat_map (l : List Nat) (f : Nat → Nat) (x : Lab) :
    Lab.allOne (sortNat (l.map f)) x = true ↔ ∀ p ∈ l, x (f p) = true := by
  rw [allOne_iff]
  constructor
  · intro h p hp
    exact h (f p) ((mem_sortNat _ _).mpr (List.mem_map_of_mem hp))
  · intro h q hq
    rw [mem_sortNat, List.mem_map] at hq
    obtain ⟨p, hp, rfl⟩ := hq
    exact h p hp

theorem mem_onesOf (p : Nat) (u : List Bool) :
    p ∈ onesOf u ↔ p < u.length ∧ u.getD p false = true := by
  unfold onesOf
  rw [List.mem_filter, List.mem_range]

theorem lt_length_of_getD {u : List Bool} {p : Nat} (h : u.getD p false = true) : p < u.length := by
  by_contra hp
  rw [List.getD_eq_getElem?_getD, List.getElem?_eq_none (by omega)] at h
  exact Bool.false_ne_true h

/-! ### labels of numpy-order strings -/

theorem labR_apply (n : Nat) (u : List Bool) {p : Nat} (hp : p < n) :
    labR n u (n - 1 - p) = u.getD p false := by
  unfold labR
  have h1 : n - 1 - p < n := by omega
  have h2 : n - 1 - (n - 1 - p) = p := by omega
  rw [h2]
  simp [h1]

theorem labR_zero (n : Nat) : labR n (List.replicate n false) = zeroLab := by
  funext q
  unfold labR zeroLab
  have : (List.replicate n false).getD (n - 1 - q) false = false := by
    rw [List.getD_eq_getElem?_getD]
    by_cases h : n - 1 - q < n
    · rw [List.getElem?_replicate_of_lt h]; rfl
    · rw [List.getElem?_eq_none (by simpa using h)]; rfl
  rw [this, Bool.and_false]

theorem getD_set_self (u : List Bool) {i : Nat} (hi : i < u.length) (v : Bool) :
    (u.set i v).getD i false = v := by
  simp [List.getD_eq_getElem?_getD, List.getElem?_set_self hi]

/-! ### counting on bit strings -/

/-- every 1 of `s` is a 1 of `t`. -/
def BLe (s t : List Bool) : Prop := ∀ p, s.getD p false = true → t.getD p false = true

theorem BLe.tail {a b : Bool} {s t : List Bool} (h : BLe (a :: s) (b :: t)) : BLe s t := by
  intro p hp
  have := h (p + 1)
  simpa only [List.getD_cons_succ] using this hp

theorem BLe.head {a b : Bool} {s t : List Bool} (h : BLe (a :: s) (b :: t)) : a = true → b = true := by
  intro ha
  have := h 0
  simp only [List.getD_cons_zero] at this
  exact this ha

theorem weight_le_of_BLe : ∀ (s t : List Bool), s.length = t.length → BLe s t → weight s ≤ weight t
  | [], t, _, _ => by simp [weight_nil]
  | a :: s, [], hl, _ => by simp at hl
  | a :: s, b :: t, hl, h => by
    have ih := weight_le_of_BLe s t (by simpa using hl) h.tail
    have hh := h.head
    rw [weight_cons, weight_cons]
    cases a <;> cases b <;> simp at hh ⊢ <;> omega

/-- (L1) a string that contains `s` and is not heavier is `s`. -/
theorem eq_of_BLe_of_weight_le : ∀ (s t : List Bool), s.length = t.length → BLe s t →
    weight t ≤ weight s → t = s
  | [], t, hl, _, _ => by
    have : t.length = 0 := by simpa using hl.symm
    exact List.eq_nil_of_length_eq_zero this
  | a :: s, [], hl, _, _ => by simp at hl
  | a :: s, b :: t, hl, h, hw => by
    have hl' : s.length = t.length := by simpa using hl
    have hm := weight_le_of_BLe s t hl' h.tail
    have hh := h.head
    rw [weight_cons, weight_cons] at hw
    cases a <;> cases b <;> simp at hh hw ⊢
    · exact eq_of_BLe_of_weight_le s t hl' h.tail hw
    · omega
    · exact eq_of_BLe_of_weight_le s t hl' h.tail hw

/-! ### alignment, by index -/

theorem aligned_length {n : Nat} {ds : List ChainStep} {ws : List (List Bool)}
    (h : Aligned n ds ws) : ws.length = ds.length + 1 := by
  induction h with
  | one w => rfl
  | cons _ _ ih => simp [ih]

theorem aligned_step {n : Nat} {ds : List ChainStep} {ws : List (List Bool)}
    (h : Aligned n ds ws) : ∀ k, k < ds.length →
      StepRel n (ds.getD k default) (ws.getD k []) (ws.getD (k + 1) []) := by
  induction h with
  | one w => intro k hk; simp at hk
  | @cons d u w rest ds hs _ ih =>
    intro k hk
    cases k with
    | zero => simpa using hs
    | succ k =>
      have := ih k (by simpa using hk)
      simpa only [List.getD_cons_succ] using this

/-! ### what one step does to the labels -/

theorem sub_inj_of_lt {n i j : Nat} (hi : i < n) (hj : j < n) (h : n - 1 - i = n - 1 - j) : i = j := by
  omega

theorem move_spec (n : Nat) (u : List Bool) (i j : Nat) (hi : i < u.length) (hj : j < u.length)
    (hij : i ≠ j) (hui : u.getD i false = true) (huj : u.getD j false = false) (hn : u.length = n) :
    (moveOf n u i j).okAt (labR n u) ∧
    labR n ((u.set i false).set j true) = (moveOf n u i j).next (labR n u) ∧
    ∀ t : List Bool, t.length = n → weight t ≤ weight u → t ≠ u → t ≠ (u.set i false).set j true →
      (moveOf n u i j).fixes (labR n t) := by
  have hin : i < n := hn ▸ hi
  have hjn : j < n := hn ▸ hj
  have hab : n - 1 - i ≠ n - 1 - j := fun h => hij (sub_inj_of_lt hin hjn h)
  have hmem : ∀ q, q ∈ (moveOf n u i j).cs ↔ ∃ c, c < n ∧ u.getD c false = true ∧ c ≠ i ∧ n - 1 - c = q := by
    intro q
    show q ∈ sortNat _ ↔ _
    rw [mem_sortNat, List.mem_map]
    constructor
    · rintro ⟨c, hc, rfl⟩
      rw [List.mem_filter, mem_onesOf] at hc
      exact ⟨c, hn ▸ hc.1.1, hc.1.2, by simpa using hc.2, rfl⟩
    · rintro ⟨c, h1, h2, h3, rfl⟩
      exact ⟨c, by rw [List.mem_filter, mem_onesOf]; exact ⟨⟨hn ▸ h1, h2⟩, by simpa using h3⟩, rfl⟩
  have hall : ∀ t : List Bool, Lab.allOne (moveOf n u i j).cs (labR n t) = true ↔
      ∀ c, u.getD c false = true → c ≠ i → t.getD c false = true := by
    intro t
    rw [allOne_iff]
    constructor
    · intro h c hc hci
      have hcn : c < n := hn ▸ lt_length_of_getD hc
      have := h (n - 1 - c) ((hmem _).mpr ⟨c, hcn, hc, hci, rfl⟩)
      rwa [labR_apply n t hcn] at this
    · intro h q hq
      obtain ⟨c, h1, h2, h3, rfl⟩ := (hmem q).mp hq
      rw [labR_apply n t h1]
      exact h c h2 h3
  refine ⟨⟨?_, ?_, ?_⟩, ?_, ?_⟩
  · -- a ∉ cs
    show n - 1 - i ∉ (moveOf n u i j).cs
    intro h
    obtain ⟨c, h1, h2, h3, h4⟩ := (hmem _).mp h
    exact h3 (sub_inj_of_lt h1 hin h4)
  · exact (hall u).mpr (fun c hc _ => hc)
  · show (if false = true then _ else _)
    simp only [Bool.false_eq_true, if_false]
    refine ⟨hab, ?_, ?_, ?_⟩
    · show n - 1 - j ∉ (moveOf n u i j).cs
      intro h
      obtain ⟨c, h1, h2, h3, h4⟩ := (hmem _).mp h
      have := sub_inj_of_lt h1 hjn h4
      subst this
      rw [huj] at h2
      exact Bool.false_ne_true h2
    · show labR n u (n - 1 - i) = true
      rw [labR_apply n u hin]; exact hui
    · show labR n u (n - 1 - j) = false
      rw [labR_apply n u hjn]; exact huj
  · -- next
    show _ = (if false = true then _ else sw (n - 1 - i) (n - 1 - j) (labR n u))
    simp only [Bool.false_eq_true, if_false]
    funext q
    rw [sw_apply hab]
    by_cases hqb : q = n - 1 - j
    · subst hqb
      rw [if_pos rfl, labR_apply n _ hjn, labR_apply n _ hin, hui]
      exact getD_set_self _ (by simpa using hj) true
    · rw [if_neg hqb]
      by_cases hqa : q = n - 1 - i
      · subst hqa
        rw [if_pos rfl, labR_apply n _ hin, labR_apply n _ hjn, huj,
          getD_set_ne _ (Ne.symm hij), getD_set_self _ hi]
      · rw [if_neg hqa]
        unfold labR
        by_cases hq : q < n
        · have h1 : j ≠ n - 1 - q := by omega
          have h2 : i ≠ n - 1 - q := by omega
          rw [getD_set_ne _ h1, getD_set_ne _ h2]
        · simp [hq]
  · -- earlier strings are left alone
    intro t ht hw htu htw
    unfold ChainStep.fixes
    cases hc : Lab.allOne (moveOf n u i j).cs (labR n t)
    · exact Or.inl rfl
    · right
      refine ⟨rfl, ?_⟩
      show labR n t (n - 1 - i) = labR n t (n - 1 - j)
      rw [labR_apply n t hin, labR_apply n t hjn]
      have hctl := (hall t).mp hc
      cases hti : t.getD i false
      · cases htj : t.getD j false
        · rfl
        · -- t contains w
          exfalso
          apply htw
          apply eq_of_BLe_of_weight_le _ t (by simp [hn, ht])
          · intro p hp
            by_cases hpj : p = j
            · subst hpj; exact htj
            · rw [getD_set_ne _ (Ne.symm hpj)] at hp
              by_cases hpi : p = i
              · subst hpi
                rw [getD_set_self _ hi] at hp
                exact absurd hp Bool.false_ne_true
              · rw [getD_set_ne _ (Ne.symm hpi)] at hp
                exact hctl p hp hpi
          · rw [weight_move u hi hj hij hui huj]; exact hw
      · -- t contains u
        exfalso
        apply htu
        apply eq_of_BLe_of_weight_le u t (by rw [hn, ht])
        · intro p hp
          by_cases hpi : p = i
          · subst hpi; exact hti
          · exact hctl p hp hpi
        · exact hw

theorem add_spec (n : Nat) (u : List Bool) (j : Nat) (last : Bool) (hj : j < u.length)
    (huj : u.getD j false = false) (hn : u.length = n) :
    (addOf n u j last).okAt (labR n u) ∧
    labR n (u.set j true) = (addOf n u j last).next (labR n u) ∧
    ∀ t : List Bool, t.length = n → weight t ≤ weight u → t ≠ u →
      (addOf n u j last).fixes (labR n t) := by
  have hjn : j < n := hn ▸ hj
  have hmem : ∀ q, q ∈ (addOf n u j last).cs ↔ ∃ c, c < n ∧ u.getD c false = true ∧ n - 1 - c = q := by
    intro q
    show q ∈ sortNat _ ↔ _
    rw [mem_sortNat, List.mem_map]
    constructor
    · rintro ⟨c, hc, rfl⟩
      rw [mem_onesOf] at hc
      exact ⟨c, hn ▸ hc.1, hc.2, rfl⟩
    · rintro ⟨c, h1, h2, rfl⟩
      exact ⟨c, by rw [mem_onesOf]; exact ⟨hn ▸ h1, h2⟩, rfl⟩
  have hall : ∀ t : List Bool, Lab.allOne (addOf n u j last).cs (labR n t) = true ↔
      ∀ c, u.getD c false = true → t.getD c false = true := by
    intro t
    rw [allOne_iff]
    constructor
    · intro h c hc
      have hcn : c < n := hn ▸ lt_length_of_getD hc
      have := h (n - 1 - c) ((hmem _).mpr ⟨c, hcn, hc, rfl⟩)
      rwa [labR_apply n t hcn] at this
    · intro h q hq
      obtain ⟨c, h1, h2, rfl⟩ := (hmem q).mp hq
      rw [labR_apply n t h1]
      exact h c h2
  refine ⟨⟨?_, ?_, ?_⟩, ?_, ?_⟩
  · show n - 1 - j ∉ (addOf n u j last).cs
    intro h
    obtain ⟨c, h1, h2, h4⟩ := (hmem _).mp h
    have := sub_inj_of_lt h1 hjn h4
    subst this
    rw [huj] at h2
    exact Bool.false_ne_true h2
  · exact (hall u).mpr (fun c hc => hc)
  · show (if true = true then labR n u (n - 1 - j) = false else _)
    rw [if_pos rfl, labR_apply n u hjn]; exact huj
  · show _ = (if true = true then (labR n u).set (n - 1 - j) true else _)
    rw [if_pos rfl]
    funext q
    by_cases hq : q = n - 1 - j
    · subst hq
      rw [Lab.set_same, labR_apply n _ hjn]
      exact getD_set_self _ hj true
    · rw [Lab.set_other _ _ hq]
      unfold labR
      by_cases hqn : q < n
      · have h1 : j ≠ n - 1 - q := by omega
        rw [getD_set_ne _ h1]
      · simp [hqn]
  · intro t ht hw htu
    left
    cases hc : Lab.allOne (addOf n u j last).cs (labR n t)
    · rfl
    · exfalso
      apply htu
      exact eq_of_BLe_of_weight_le u t (by rw [hn, ht]) ((hall t).mp hc) hw

/-- what a step between consecutive strings does to their labels. -/
theorem stepRel_spec {n : Nat} {d : ChainStep} {u w : List Bool} (h : StepRel n d u w)
    (hn : u.length = n) :
    d.okAt (labR n u) ∧ labR n w = d.next (labR n u) ∧
    ∀ t : List Bool, t.length = n → weight t ≤ weight u → t ≠ u → t ≠ w → d.fixes (labR n t) := by
  cases h with
  | move _ i j hi hj hij hui huj => exact move_spec n u i j hi hj hij hui huj hn
  | add _ j last hj huj =>
    obtain ⟨h1, h2, h3⟩ := add_spec n u j last hj huj hn
    exact ⟨h1, h2, fun t ht hw htu _ => h3 t ht hw htu⟩

/-! ### the chain -/

theorem map_range_getD {β γ : Type} (l : List β) (d : β) (f : β → γ) :
    (List.range l.length).map (fun k => f (l.getD k d)) = l.map f := by
  apply List.ext_getElem
  · simp
  · intro k h1 h2
    have hk : k < l.length := by simpa using h2
    simp [List.getD_eq_getElem?_getD, List.getElem?_eq_getElem hk]

theorem aligned_chain (P : Par2 α) (hpm : ∀ k, P.p k * P.m k = 1) (cplx : Bool) (n : Nat)
    (ds : List ChainStep) (ws : List (List Bool))
    (hal : Aligned n ds ws) (hlen : ∀ w ∈ ws, w.length = n) (hnd : ws.Nodup)
    (hsorted : ws.Pairwise (fun a b => weight a ≤ weight b)) :
    runCircuit ((numberSteps (ds.map (fun d => d.fn cplx))).map (BG.sem P)) (ket (labR n (ws.headD [])))
      = chainStateAB (fun k => (ds.getD k default).A P cplx k) (fun k => (ds.getD k default).B P cplx k)
          (fun k => labR n (ws.getD k [])) ds.length := by
  have hwl := aligned_length hal
  have hstep := aligned_step hal
  have hget : ∀ k (hk : k < ws.length), ws.getD k [] = ws[k] := fun k hk => by
    rw [List.getD_eq_getElem?_getD, List.getElem?_eq_getElem hk]; rfl
  have hlenk : ∀ k, k < ws.length → (ws.getD k []).length = n := by
    intro k hk
    rw [hget k hk]
    exact hlen _ (List.getElem_mem hk)
  have hne : ∀ j k, j < ws.length → k < ws.length → j ≠ k → ws.getD j [] ≠ ws.getD k [] := by
    intro j k hj hk hjk h
    rw [hget j hj, hget k hk] at h
    exact hjk ((hnd.getElem_inj_iff).mp h)
  have hwt : ∀ j k, j < k → k < ws.length → weight (ws.getD j []) ≤ weight (ws.getD k []) := by
    intro j k hjk hk
    rw [hget j (by omega), hget k hk]
    exact (List.pairwise_iff_getElem.mp hsorted) j k (by omega) hk hjk
  have h0 : ws.headD [] = ws.getD 0 [] := by
    cases ws <;> rfl
  have key := loading_chain P hpm cplx (fun k => ds.getD k default) (fun k => labR n (ws.getD k []))
    ds.length
    (fun k hk => (stepRel_spec (hstep k hk) (hlenk k (by omega))).1)
    (fun k hk => (stepRel_spec (hstep k hk) (hlenk k (by omega))).2.1)
    (fun k hk j hj => (stepRel_spec (hstep k hk) (hlenk k (by omega))).2.2 (ws.getD j [])
      (hlenk j (by omega)) (hwt j k hj (by omega))
      (hne j k (by omega) (by omega) (by omega)) (hne j (k + 1) (by omega) (by omega) (by omega)))
  rw [map_range_getD ds default (fun d => d.fn cplx)] at key
  rw [h0]
  exact key

end QV.Enc

