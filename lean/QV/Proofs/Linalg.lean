/-
  QV.Proofs.Linalg — the model of qibo's `partial_trace` / `partial_transpose` /
  `schmidt_decomposition` bookkeeping (QV/Model/Linalg.lean) refines the order-free SPEC:
  the recursive partial trace `ptrace` of QV/Model/Fusion.lean (sum over all assignments of
  the traced qubits, the row and the column label receiving the same assignment) and the
  label-level swap `ρ (x with P-bits of y) (y with P-bits of x)`.
-/
import QV.Proofs.PTrace
import QV.Model.Linalg
import Mathlib.Data.List.Perm.Basic
import Mathlib.Data.List.Nodup
import Mathlib.Algebra.BigOperators.Ring.Finset
import Mathlib.Tactic.Ring

namespace QV
namespace Linalg

open Finset

/-! ### executable sums and sorting -/

theorem sumTo_eq_sum {α : Type} [AddCommMonoid α] (d : Nat) (f : Nat → α) :
    sumTo d f = ∑ k ∈ range d, f k := by
  unfold sumTo
  induction d with
  | zero => simp
  | succ d ih =>
    rw [List.range_succ, List.foldl_append, ih, Finset.sum_range_succ]
    rfl

theorem insertAsc_perm (q : Nat) (l : List Nat) : (insertAsc q l).Perm (q :: l) := by
  induction l with
  | nil => exact List.Perm.refl _
  | cons r rs ih =>
    unfold insertAsc
    split
    · exact List.Perm.refl _
    · exact (List.Perm.cons r ih).trans (List.Perm.swap q r rs)

theorem sortAsc_perm (l : List Nat) : (sortAsc l).Perm l := by
  induction l with
  | nil => exact List.Perm.refl _
  | cons q l ih =>
    show (insertAsc q (sortAsc l)).Perm (q :: l)
    exact (insertAsc_perm q _).trans (List.Perm.cons q ih)

theorem insertAsc_sorted (q : Nat) {l : List Nat} (h : l.Pairwise (· ≤ ·)) :
    (insertAsc q l).Pairwise (· ≤ ·) := by
  induction l with
  | nil => simp [insertAsc]
  | cons r rs ih =>
    unfold insertAsc
    have hr := List.pairwise_cons.mp h
    split
    · rename_i hq
      refine List.pairwise_cons.mpr ⟨?_, h⟩
      intro a ha
      rcases List.mem_cons.mp ha with rfl | ha
      · exact hq
      · exact Nat.le_trans hq (hr.1 a ha)
    · rename_i hq
      refine List.pairwise_cons.mpr ⟨?_, ih hr.2⟩
      intro a ha
      have : a ∈ q :: rs := (insertAsc_perm q rs).subset ha
      rcases List.mem_cons.mp this with rfl | ha
      · omega
      · exact hr.1 a ha

/-- `sortAsc` really sorts (ascending), as Python's `sorted`. -/
theorem sortAsc_sorted (l : List Nat) : (sortAsc l).Pairwise (· ≤ ·) := by
  induction l with
  | nil => exact List.Pairwise.nil
  | cons q l ih => exact insertAsc_sorted q ih

theorem sortAsc_length (l : List Nat) : (sortAsc l).length = l.length :=
  (sortAsc_perm l).length_eq

theorem sortAsc_nodup {l : List Nat} (h : l.Nodup) : (sortAsc l).Nodup :=
  (sortAsc_perm l).nodup_iff.mpr h

/-! ### the kept qubits -/

theorem mem_kept {n : Nat} {T : List Nat} {q : Nat} : q ∈ kept n T ↔ q < n ∧ q ∉ T := by
  unfold kept
  simp [List.mem_filter, List.mem_range]

theorem kept_nodup (n : Nat) (T : List Nat) : (kept n T).Nodup :=
  List.Nodup.filter _ List.nodup_range

theorem kept_disjoint {n : Nat} {T : List Nat} : ∀ r, r ∈ kept n T → r ∉ T :=
  fun _ hr => (mem_kept.mp hr).2

theorem kept_congr {n : Nat} {T T' : List Nat} (h : ∀ q, q ∈ T ↔ q ∈ T') :
    kept n T = kept n T' := by
  unfold kept
  apply List.filter_congr
  intro q _
  by_cases hq : q ∈ T
  · have := (h q).mp hq; simp [hq, this]
  · have : q ∉ T' := fun h' => hq ((h q).mpr h'); simp [hq, this]

/-- kept ++ traced is a rearrangement of the register. -/
theorem kept_append_perm {n : Nat} {T : List Nat} (hn : T.Nodup) (hT : ∀ q ∈ T, q < n) :
    (kept n T ++ T).Perm (List.range n) := by
  apply (List.perm_ext_iff_of_nodup ?_ List.nodup_range).mpr
  · intro q
    rw [List.mem_append, mem_kept, List.mem_range]
    constructor
    · rintro (⟨h, _⟩ | h)
      · exact h
      · exact hT q h
    · intro h
      by_cases hq : q ∈ T
      · exact Or.inr hq
      · exact Or.inl ⟨h, hq⟩
  · exact List.Nodup.append (kept_nodup n T) hn (fun q hk ht => kept_disjoint q hk ht)

section PT
variable {α : Type} [CommSemiring α]

/-! ### partial trace: both branches refine `ptrace` -/

/-- the label a matrix index of the result stands for: index `b` on the kept qubits
(ascending), zero elsewhere. -/
def keptLab (n : Nat) (T : List Nat) (b : Nat) : Lab := Lab.withIdx zeroLab (kept n T) b

/-- **density-matrix branch = SPEC**, for every duplicate-free traced list in any order. -/
theorem partialTraceDM_eq_ptrace (n : Nat) {T : List Nat} (hn : T.Nodup) (ρ : DM α)
    (b c : Nat) :
    partialTraceDM n T ρ b c = ptrace T ρ (keptLab n T b) (keptLab n T c) := by
  unfold partialTraceDM
  rw [sumTo_eq_sum, ← ptrace_perm (sortAsc_perm T), ptrace_eq_sum (sortAsc_nodup hn)]
  apply sum_congr rfl
  intro a _
  simp only [lab2, keptLab, Lab.withIdx_eq_wIdx]

/-- **state-vector branch = SPEC applied to |ψ⟩⟨ψ|**. -/
theorem partialTraceSV_eq_ptrace (conj : α → α) (n : Nat) {T : List Nat} (hn : T.Nodup)
    (ψ : Lab → α) (b c : Nat) :
    partialTraceSV conj n T ψ b c
      = ptrace T (fun x y => ψ x * conj (ψ y)) (keptLab n T b) (keptLab n T c) := by
  unfold partialTraceSV
  rw [sumTo_eq_sum, ptrace_eq_sum hn]
  apply sum_congr rfl
  intro a _
  simp only [lab2, keptLab, Lab.withIdx_eq_wIdx]

/-- the diagonal of a partial trace is the trace over the traced qubits. -/
theorem ptrace_diag (T : List Nat) (ρ : DM α) (x : Lab) :
    ptrace T ρ x x = sumOver T (fun y => ρ y y) x := by
  induction T generalizing x with
  | nil => rfl
  | cons q T ih => rw [ptrace_cons, sumOver_cons, ih, ih]

/-- **product rule.**  A factor that does not look at the traced qubits comes out of the
partial trace. -/
theorem ptrace_mul_right (T : List Nat) (A B : DM α)
    (hB : ∀ q ∈ T, ∀ (x y : Lab) (b b' : Bool), B (x.set q b) (y.set q b') = B x y)
    (x y : Lab) :
    ptrace T (fun u v => A u v * B u v) x y = ptrace T A x y * B x y := by
  induction T generalizing x y with
  | nil => rfl
  | cons q T ih =>
    have hB' : ∀ r ∈ T, ∀ (x y : Lab) (b b' : Bool), B (x.set r b) (y.set r b') = B x y :=
      fun r hr => hB r (List.mem_cons_of_mem _ hr)
    rw [ptrace_cons, ptrace_cons, ih hB', ih hB', hB q (List.mem_cons_self ..),
      hB q (List.mem_cons_self ..), add_mul]

/-- the same for a factor on the left. -/
theorem ptrace_mul_left (T : List Nat) (A B : DM α)
    (hB : ∀ q ∈ T, ∀ (x y : Lab) (b b' : Bool), B (x.set q b) (y.set q b') = B x y)
    (x y : Lab) :
    ptrace T (fun u v => B u v * A u v) x y = B x y * ptrace T A x y := by
  rw [mul_comm, ← ptrace_mul_right T A B hB]
  congr 1
  funext u v
  exact mul_comm _ _

/-- linearity of the partial trace. -/
theorem ptrace_add (T : List Nat) (ρ σ : DM α) (x y : Lab) :
    ptrace T (fun u v => ρ u v + σ u v) x y = ptrace T ρ x y + ptrace T σ x y := by
  induction T generalizing x y with
  | nil => rfl
  | cons q T ih => rw [ptrace_cons, ptrace_cons, ptrace_cons, ih, ih]; ring

theorem ptrace_smul (T : List Nat) (c : α) (ρ : DM α) (x y : Lab) :
    ptrace T (fun u v => c * ρ u v) x y = c * ptrace T ρ x y := by
  induction T generalizing x y with
  | nil => rfl
  | cons q T ih => rw [ptrace_cons, ptrace_cons, ih, ih, mul_add]

/-- conjugate symmetry is inherited: a Hermitian matrix has a Hermitian partial trace. -/
theorem ptrace_hermitian (conj : α → α) (hadd : ∀ a b, conj (a + b) = conj a + conj b)
    (T : List Nat) (ρ : DM α) (hρ : ∀ x y, ρ y x = conj (ρ x y)) (x y : Lab) :
    ptrace T ρ y x = conj (ptrace T ρ x y) := by
  induction T generalizing x y with
  | nil => exact hρ x y
  | cons q T ih => rw [ptrace_cons, ptrace_cons, hadd, ← ih, ← ih]

/-! ### trace preservation -/

theorem kept_length {n : Nat} {T : List Nat} (hn : T.Nodup) (hT : ∀ q ∈ T, q < n) :
    (kept n T).length = n - T.length := by
  have := (kept_append_perm hn hT).length_eq
  rw [List.length_append, List.length_range] at this
  omega

/-- **the partial trace preserves the trace**: the trace of the result (over the kept qubits)
is the trace of the input over the whole register. -/
theorem trace_partialTraceDM (n : Nat) {T : List Nat} (hn : T.Nodup) (hT : ∀ q ∈ T, q < n)
    (ρ : DM α) :
    ∑ b ∈ range (2 ^ (kept n T).length), partialTraceDM n T ρ b b
      = sumOver (List.range n) (fun y => ρ y y) zeroLab := by
  have h1 : ∀ b, partialTraceDM n T ρ b b
      = (fun y => sumOver T (fun w => ρ w w) y) (Lab.wIdx zeroLab (kept n T) b) := by
    intro b
    rw [partialTraceDM_eq_ptrace n hn, ptrace_diag, keptLab, Lab.withIdx_eq_wIdx]
  simp only [h1]
  rw [← sumOver_eq_sum' (kept_nodup n T) (fun y => sumOver T (fun w => ρ w w) y) zeroLab,
    ← sumOver_append]
  exact sumOver_perm (kept_append_perm hn hT) _ _

/-! ### Schmidt reshape -/

omit [CommSemiring α] in
/-- the reshape of `schmidt_decomposition` loses nothing: entry `(idx P x, idx kept x)` of the
matrix is the amplitude of `x`. -/
theorem schmidtMat_idx (n : Nat) (P : List Nat) (ψ : Lab → α) (x : Lab)
    (hx : ∀ q, n ≤ q → x q = false) :
    schmidtMat n P ψ (Lab.idx P x) (Lab.idx (kept n P) x) = ψ x := by
  unfold schmidtMat lab2
  rw [Lab.withIdx_eq_wIdx, Lab.withIdx_eq_wIdx]
  congr 1
  funext r
  by_cases hr : r ∈ P
  · rw [Lab.wIdx_of_mem _ x _ hr, Lab.wIdx_idx]
  · rw [Lab.wIdx_of_not_mem _ _ hr]
    by_cases hk : r ∈ kept n P
    · rw [Lab.wIdx_of_mem _ x _ hk, Lab.wIdx_idx]
    · rw [Lab.wIdx_of_not_mem _ _ hk]
      have : n ≤ r := by
        by_contra h
        exact hk (mem_kept.mpr ⟨by omega, hr⟩)
      rw [hx r this]; rfl

/-- ... and the indices of an entry are recovered from its label. -/
theorem idx_lab2 {A B : List Nat} (hA : A.Nodup) (hB : B.Nodup) (hd : ∀ r, r ∈ B → r ∉ A)
    {a b : Nat} (ha : a < 2 ^ A.length) (hb : b < 2 ^ B.length) :
    Lab.idx A (lab2 A B a b) = a ∧ Lab.idx B (lab2 A B a b) = b := by
  unfold lab2
  rw [Lab.withIdx_eq_wIdx, Lab.withIdx_eq_wIdx]
  exact ⟨Lab.idx_wIdx _ hA ha, by rw [Lab.idx_wIdx_of_disjoint _ _ hd, Lab.idx_wIdx _ hB hb]⟩

/-- **M M† of the Schmidt matrix is the reduced state on the partition** (so the squared
singular values are its spectrum). -/
theorem schmidt_gram (conj : α → α) (n : Nat) (P : List Nat) (ψ : Lab → α) (a a' : Nat) :
    ∑ b ∈ range (2 ^ (kept n P).length), schmidtMat n P ψ a b * conj (schmidtMat n P ψ a' b)
      = ptrace (kept n P) (fun x y => ψ x * conj (ψ y))
          (Lab.withIdx zeroLab P a) (Lab.withIdx zeroLab P a') := by
  rw [ptrace_eq_sum (kept_nodup n P)]
  apply sum_congr rfl
  intro b _
  unfold schmidtMat lab2
  simp only [Lab.withIdx_eq_wIdx]
  rw [Lab.wIdx_comm zeroLab b a kept_disjoint, Lab.wIdx_comm zeroLab b a' kept_disjoint]

/-! ### purity-type contractions -/

theorem purityDM_outer (conj : α → α) (d : Nat) (ψ : Nat → α) :
    purityDM d (fun i k => ψ i * conj (ψ k)) = normSq conj d ψ * normSq conj d ψ := by
  unfold purityDM normSq
  simp only [sumTo_eq_sum]
  rw [Finset.sum_mul_sum]
  apply sum_congr rfl
  intro i _
  apply sum_congr rfl
  intro k _
  ring

theorem traceProd_comm (d : Nat) (ρ σ : Nat → Nat → α) : traceProd d ρ σ = traceProd d σ ρ := by
  unfold traceProd
  simp only [sumTo_eq_sum]
  rw [sum_comm]
  apply sum_congr rfl
  intro i _
  apply sum_congr rfl
  intro k _
  ring

/-- the pure shortcut `tr(ρσ)` for `ρ = |ψ⟩⟨ψ|` is the expectation `⟨ψ|σ|ψ⟩`. -/
theorem traceProd_outer_left (conj : α → α) (d : Nat) (ψ : Nat → α) (σ : Nat → Nat → α) :
    traceProd d (fun i k => ψ i * conj (ψ k)) σ
      = ∑ k ∈ range d, ∑ i ∈ range d, conj (ψ k) * σ k i * ψ i := by
  unfold traceProd
  simp only [sumTo_eq_sum]
  rw [sum_comm]
  apply sum_congr rfl
  intro k _
  apply sum_congr rfl
  intro i _
  ring

/-- for two pure states the shortcut is the product of the two overlaps, i.e. `|⟨ψ|φ⟩|²`. -/
theorem traceProd_outer_outer (conj : α → α) (d : Nat) (ψ φ : Nat → α) :
    traceProd d (fun i k => ψ i * conj (ψ k)) (fun i k => φ i * conj (φ k))
      = overlap conj d ψ φ * overlap conj d φ ψ := by
  unfold traceProd overlap
  simp only [sumTo_eq_sum]
  rw [Finset.sum_mul_sum, sum_comm]
  apply sum_congr rfl
  intro k _
  apply sum_congr rfl
  intro i _
  ring

/-- `⟨φ|ψ⟩ = conj ⟨ψ|φ⟩` for an involutive ring conjugation. -/
theorem overlap_conj (conj : α → α) (hadd : ∀ a b, conj (a + b) = conj a + conj b)
    (hmul : ∀ a b, conj (a * b) = conj a * conj b) (h0 : conj 0 = 0)
    (hinv : ∀ a, conj (conj a) = a) (d : Nat) (ψ φ : Nat → α) :
    overlap conj d φ ψ = conj (overlap conj d ψ φ) := by
  unfold overlap
  simp only [sumTo_eq_sum]
  induction d with
  | zero => simp [h0]
  | succ d ih => rw [sum_range_succ, sum_range_succ, hadd, ← ih, hmul, hinv, mul_comm (ψ d)]

end PT

/-! ### partial transpose -/

/-- closed form of the axis permutation built by the Python loop. -/
theorem axesPT_foldl (n : Nat) (P : List Nat) (hP : ∀ q ∈ P, q < n) (f : Nat → Nat) (m : Nat) :
    (P.foldl (fun f ind => fun m =>
        if m = ind + n then ind else if m = ind then ind + n else f m) f) m
      = if m < n ∧ m ∈ P then m + n else if n ≤ m ∧ m - n ∈ P then m - n else f m := by
  induction P generalizing f with
  | nil => simp
  | cons ind P ih =>
    have hind : ind < n := hP ind (List.mem_cons_self ..)
    rw [List.foldl_cons, ih (fun q hq => hP q (List.mem_cons_of_mem _ hq))]
    simp only [List.mem_cons]
    by_cases h1 : m < n
    · by_cases h2 : m ∈ P
      · simp [h1, h2]
      · by_cases h3 : m = ind
        · subst h3
          have : ¬ (m = m + n) := by omega
          have h4 : ¬ (n ≤ m) := by omega
          simp [h1, h2, h4]
        · have h4 : ¬ (n ≤ m) := by omega
          have h5 : ¬ (m = ind + n) := by omega
          simp [h1, h2, h3, h4, h5]
    · have h1' : n ≤ m := by omega
      by_cases h2 : m - n ∈ P
      · simp [h1, h1', h2]
      · by_cases h3 : m = ind + n
        · have h6 : m - n = ind := by omega
          simp [h3]
        · have h4 : ¬ (m - n = ind) := by omega
          have h5 : ¬ (m = ind) := by omega
          simp [h1, h1', h2, h3, h4, h5]

theorem axesPT_eq (n : Nat) (P : List Nat) (hP : ∀ q ∈ P, q < n) (m : Nat) :
    axesPT n P m = if m < n ∧ m ∈ P then m + n else if n ≤ m ∧ m - n ∈ P then m - n else m := by
  unfold axesPT
  rw [axesPT_foldl n P hP]
  rfl

/-- `new_shape` is an involution (so `np.transpose` with it reads `j[m] = i[new_shape[m]]`). -/
theorem axesPT_invol (n : Nat) (P : List Nat) (hP : ∀ q ∈ P, q < n) (m : Nat) :
    axesPT n P (axesPT n P m) = m := by
  rw [axesPT_eq n P hP (axesPT n P m), axesPT_eq n P hP m]
  by_cases h1 : m < n
  · by_cases h2 : m ∈ P
    · have a : ¬ (m + n < n) := by omega
      have b : n ≤ m + n := by omega
      have c : m + n - n = m := by omega
      simp [h1, h2, a, b, c]
    · have a : ¬ (n ≤ m) := by omega
      simp [h1, h2, a]
  · have h1' : n ≤ m := by omega
    by_cases h2 : m - n ∈ P
    · have a : m - n < n := hP _ h2
      have c : m - n + n = m := by omega
      simp [h1, h1', h2, a, c]
    · simp [h1, h1', h2]

/-- `new_shape` is a permutation of the `2n` axes. -/
theorem axesPT_lt (n : Nat) (P : List Nat) (hP : ∀ q ∈ P, q < n) {m : Nat} (hm : m < 2 * n) :
    axesPT n P m < 2 * n := by
  rw [axesPT_eq n P hP m]
  split
  · omega
  · split <;> omega

variable {α : Type}

/-- a matrix that only reads the first `n` qubits of its labels. -/
def LocalDM (n : Nat) (ρ : DM α) : Prop :=
  ∀ x x' y y' : Lab, (∀ q, q < n → x q = x' q) → (∀ q, q < n → y q = y' q) → ρ x y = ρ x' y'

/-- **`partial_transpose` = SPEC**: the bits of the partition are exchanged between the row
label and the column label. -/
theorem partialTranspose_eq (n : Nat) (P : List Nat) (hP : ∀ q ∈ P, q < n) (ρ : DM α)
    (hρ : LocalDM n ρ) (x y : Lab) :
    partialTranspose n P ρ x y = ρ (x.setMany P y) (y.setMany P x) := by
  unfold partialTranspose
  simp only []
  apply hρ
  · intro q hq
    simp only [rowPart, joinLab, Lab.setMany, hq, decide_true, Bool.true_and]
    rw [axesPT_eq n P hP q]
    by_cases h2 : q ∈ P
    · have a : ¬ (q + n < n) := by omega
      have c : q + n - n = q := by omega
      simp [hq, h2, a, c]
    · have a : ¬ (n ≤ q) := by omega
      simp [hq, h2, a]
  · intro q hq
    simp only [colPart, joinLab, Lab.setMany, hq, decide_true, Bool.true_and]
    rw [axesPT_eq n P hP (q + n)]
    have a : ¬ (q + n < n) := by omega
    have b : n ≤ q + n := by omega
    have c : q + n - n = q := by omega
    by_cases h2 : q ∈ P
    · simp [hq, h2, a, b, c]
    · simp [h2, a, b, c]

theorem partialTranspose_local (n : Nat) (P : List Nat) (hP : ∀ q ∈ P, q < n) (ρ : DM α) :
    LocalDM n (partialTranspose n P ρ) := by
  intro x x' y y' hx hy
  unfold partialTranspose
  simp only []
  have hz : ∀ m, m < 2 * n → joinLab n x y m = joinLab n x' y' m := by
    intro m hm
    unfold joinLab
    split
    · rename_i h; exact hx m h
    · exact hy (m - n) (by omega)
  have hr : rowPart n (fun m => joinLab n x y (axesPT n P m))
      = rowPart n (fun m => joinLab n x' y' (axesPT n P m)) := by
    funext q
    unfold rowPart
    by_cases hq : q < n
    · simp only [hq, decide_true, Bool.true_and]
      exact hz _ (axesPT_lt n P hP (by omega))
    · simp [hq]
  have hc : colPart n (fun m => joinLab n x y (axesPT n P m))
      = colPart n (fun m => joinLab n x' y' (axesPT n P m)) := by
    funext q
    unfold colPart
    by_cases hq : q < n
    · simp only [hq, decide_true, Bool.true_and]
      exact hz _ (axesPT_lt n P hP (by omega))
    · simp [hq]
  rw [hr, hc]

end Linalg
end QV
