/-
  Symbol substitution in the shot loop (QV/Model/Repeated.lean, `QOp.pgate`): a gate whose
  parameters are expressions in measurement symbols receives, in every shot, exactly the bits
  that the named collapsing measurements recorded IN THAT SHOT.
-/
import Mathlib.Data.List.Basic
import Mathlib.Tactic.Common
import QV.Proofs.Repeated

set_option linter.unusedSectionVars false
set_option linter.unusedSimpArgs false
set_option linter.unusedVariables false

namespace QV.Rep
open QV

variable {σ G : Type}

/-- number of measurement gates in a piece of the queue. -/
def nmeas : List (QOp G) → Nat
  | [] => 0
  | .meas _ _ :: ops => nmeas ops + 1
  | _ :: ops => nmeas ops

/-- which measurement indices are collapsing measurements already met, after a piece of the
queue (the bookkeeping of `wellFormed`). -/
def okAfter : List (QOp G) → Nat → (Nat → Bool) → (Nat → Bool)
  | [], _, ok => ok
  | .meas _ c :: ops, m, ok => okAfter ops (m + 1) (fun i => if i = m then c else ok i)
  | .gate _ :: ops, m, ok => okAfter ops m ok
  | .cgate _ _ _ :: ops, m, ok => okAfter ops m ok
  | .pgate _ _ :: ops, m, ok => okAfter ops m ok

theorem passQueue_append (S : Sem σ G) (a b : List (QOp G)) : ∀ (m : Nat) (p : Pass σ),
    passQueue S (a ++ b) m p = passQueue S b (m + nmeas a) (passQueue S a m p) := by
  induction a with
  | nil => intro m p; rfl
  | cons op a ih =>
    intro m p
    cases op with
    | gate g => simp only [List.cons_append, passQueue, nmeas]; exact ih m _
    | cgate g m' j => simp only [List.cons_append, passQueue, nmeas]; exact ih m _
    | pgate f uses => simp only [List.cons_append, passQueue, nmeas]; exact ih m _
    | meas ts c =>
      cases c with
      | false =>
        simp only [List.cons_append, passQueue, nmeas]
        rw [ih (m + 1) p]; congr 1; omega
      | true =>
        simp only [List.cons_append, passQueue, nmeas]
        rw [ih (m + 1) _]; congr 1; omega

theorem wellFormed_append (a b : List (QOp G)) : ∀ (m : Nat) (ok : Nat → Bool),
    wellFormed (a ++ b) m ok = (wellFormed a m ok && wellFormed b (m + nmeas a) (okAfter a m ok)) := by
  induction a with
  | nil => intro m ok; simp [wellFormed, nmeas, okAfter]
  | cons op a ih =>
    intro m ok
    cases op with
    | gate g => simp only [List.cons_append, wellFormed, nmeas, okAfter]; exact ih m ok
    | cgate g m' j =>
      simp only [List.cons_append, wellFormed, nmeas, okAfter]; rw [ih m ok, Bool.and_assoc]
    | pgate f uses =>
      simp only [List.cons_append, wellFormed, nmeas, okAfter]; rw [ih m ok, Bool.and_assoc]
    | meas ts c =>
      simp only [List.cons_append, wellFormed, nmeas, okAfter]
      rw [ih (m + 1) _]
      have : m + 1 + nmeas a = m + (nmeas a + 1) := by omega
      rw [this]

theorem ncoll_append (a b : List (QOp G)) : ncoll (a ++ b) = ncoll a + ncoll b := by
  induction a with
  | nil => simp [ncoll]
  | cons op a ih =>
    cases op with
    | gate g => simp only [List.cons_append, ncoll]; exact ih
    | cgate g m' j => simp only [List.cons_append, ncoll]; exact ih
    | pgate f uses => simp only [List.cons_append, ncoll]; exact ih
    | meas ts c => cases c <;> simp only [List.cons_append, ncoll] <;> omega

/-- an index marked by `wellFormed` is a collapsing measurement of the piece: it has its own
draw. -/
theorem drawIdx_of_okAfter (a : List (QOp G)) : ∀ (m c : Nat) (ok : Nat → Bool) (i : Nat),
    okAfter a m ok i = true → ok i = true ∨ ∃ k ts, drawIdx a m c i = some (k, ts) := by
  induction a with
  | nil => intro m c ok i h; exact Or.inl h
  | cons op a ih =>
    intro m c ok i h
    cases op with
    | gate g => exact ih m c ok i h
    | cgate g m' j => exact ih m c ok i h
    | pgate f uses => exact ih m c ok i h
    | meas ts cl =>
      cases cl with
      | false =>
        simp only [okAfter] at h
        rcases ih (m + 1) c _ i h with h' | h'
        · by_cases e : i = m
          · simp [e] at h'
          · simp only [e, if_false] at h'; exact Or.inl h'
        · exact Or.inr h'
      | true =>
        simp only [okAfter] at h
        simp only [drawIdx]
        by_cases e : i = m
        · right; exact ⟨c, ts, by simp [e]⟩
        · rw [if_neg e]
          rcases ih (m + 1) (c + 1) _ i h with h' | h'
          · simp only [e, if_false] at h'; exact Or.inl h'
          · exact Or.inr h'

/-- SPEC: value of the symbol `(measurement gate, bit)` in the shot with draws `d`: the bit of
the gate's OWN draw in this shot (`drawIdx` gives its position among the shot's draws and its
targets), in the order of the gate's targets. -/
def symVal (pre : List (QOp G)) (d : List Nat) (e : Nat × Nat) : Nat :=
  match drawIdx pre 0 0 e.1 with
  | some (k, ts) => (recordedBits ts (d.getD k 0)).getD e.2 0
  | none => 0

/-- the values substituted for the symbols `uses` after the piece `pre` of the queue, on results
that already hold the rows `H` of earlier shots: this shot's own outcomes. -/
theorem pgate_args (S : Sem σ G) (pre : List (QOp G)) (uses : List (Nat × Nat))
    (hwf1 : wellFormed pre 0 (fun _ => false) = true)
    (huses : uses.all (fun e => okAfter pre 0 (fun _ => false) e.1) = true)
    (H : Nat → List (List Nat)) (d rest : List Nat) (hd : ncoll pre ≤ d.length) (ψ0 : σ) :
    let p := passQueue S pre 0 { caches := fun i => ofHist (H i), tape := d ++ rest, state := ψ0 }
    (uses.map fun e => lastBit p.caches e.1 e.2) = uses.map (symVal pre d) ∧
      p.state = (oneShot S pre ψ0 d).state ∧ p.tape = (oneShot S pre ψ0 d).tape ++ rest := by
  have hsim := pass_sim S pre 0 (fun _ => false) H (fun _ => []) d rest ψ0 [] hwf1 hd
    (by intro i hi; cases hi)
  simp only at hsim
  obtain ⟨h1, _, h3, _, h5, _⟩ := hsim
  have hq : passQueue S pre 0 { caches := fun i => ofHist ([] : List (List Nat)), tape := d, state := ψ0, seen := [] }
      = oneShot S pre ψ0 d := rfl
  rw [hq] at h3 h5
  refine ⟨?_, h5, h3⟩
  rw [h1]
  apply List.map_congr_left
  intro e he
  have hok := List.all_eq_true.mp huses e he
  rcases drawIdx_of_okAfter pre 0 0 (fun _ => false) e.1 hok with h' | ⟨k, ts, hk⟩
  · cases h'
  · have hnr : newRows pre 0 d e.1 = [recordedBits ts (d.getD k 0)] := by
      have := newRows_eq pre 0 0 d e.1
      rw [List.drop_zero, hk] at this
      exact this
    rw [lastBit_ofHist, hnr]
    unfold symVal
    rw [hk]
    simp [List.getLast?_append]

/-- **per shot, the later gate receives exactly that shot's outcome of the named measurements.**
`pre` is the queue up to the parametrised gate; the results already hold the rows `H` of any
number of earlier shots; the tape continues with later shots' draws (`rest`). -/
theorem pgate_receives (S : Sem σ G) (pre : List (QOp G)) (f : List Nat → G) (uses : List (Nat × Nat))
    (hwf : wellFormed (pre ++ [.pgate f uses]) 0 (fun _ => false) = true)
    (H : Nat → List (List Nat)) (d rest : List Nat) (hd : ncoll pre ≤ d.length) (ψ0 : σ) :
    (passQueue S (pre ++ [.pgate f uses]) 0
        { caches := fun i => ofHist (H i), tape := d ++ rest, state := ψ0 }).state
      = S.gate (f (uses.map (symVal pre d))) (oneShot S pre ψ0 d).state := by
  rw [wellFormed_append] at hwf
  simp only [wellFormed, Bool.and_true, Bool.and_eq_true] at hwf
  obtain ⟨hwf1, huses⟩ := hwf
  obtain ⟨a, b, _⟩ := pgate_args S pre uses hwf1 huses H d rest hd ψ0
  rw [passQueue_append]
  simp only [passQueue]
  rw [a, b]

/-- the whole pass of one shot over `pre ++ pgate :: post`: the rest of the queue runs from the
state produced by the gate built from this shot's outcomes. -/
theorem oneShot_pgate (S : Sem σ G) (pre post : List (QOp G)) (f : List Nat → G)
    (uses : List (Nat × Nat))
    (hwf : wellFormed (pre ++ .pgate f uses :: post) 0 (fun _ => false) = true)
    (d : List Nat) (hd : ncoll pre ≤ d.length) (ψ0 : σ) :
    oneShot S (pre ++ .pgate f uses :: post) ψ0 d
      = passQueue S post (nmeas pre)
          { oneShot S pre ψ0 d with
            state := S.gate (f (uses.map (symVal pre d))) (oneShot S pre ψ0 d).state } := by
  rw [wellFormed_append] at hwf
  simp only [wellFormed, Bool.and_eq_true] at hwf
  obtain ⟨hwf1, huses, _⟩ := hwf
  have hsim := pass_sim S pre 0 (fun _ => false) (fun _ => []) (fun _ => []) d [] ψ0 [] hwf1 hd
    (by intro i hi; cases hi)
  obtain ⟨a, _, _⟩ := pgate_args S pre uses hwf1 huses (fun _ => []) d [] hd ψ0
  simp only [List.append_nil] at a
  unfold oneShot
  rw [passQueue_append]
  simp only [passQueue, Nat.zero_add]
  have e : (fun i => ofHist ([] : List (List Nat))) = fun _ : Nat => (none : Cache) := rfl
  rw [e] at a
  rw [a]

end QV.Rep
