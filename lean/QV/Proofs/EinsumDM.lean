/-
  QV.Proofs.EinsumDM — the transliterated `NumpyBackend.apply_gate_density_matrix`
  (QV/Model/Einsum.lean, `applyGateDMT`) refines `applyGateDM` of QV/Model/Sim.lean.
-/
import Mathlib.Data.List.Nodup
import Mathlib.Data.List.Perm.Basic
import Mathlib.Data.List.Range
import QV.Proofs.EinsumSV
import QV.Proofs.DMLemmas

namespace QV.Einsum
open QV Finset

/-! ### row / column axes of the reshaped density matrix -/

theorem inRange_joinRC (n : Nat) (x y : Lab) : InRange (2 * n) (joinRC n x y) := by
  intro q hq
  simp only [joinRC]
  rw [if_neg (by omega), if_neg (by omega)]

theorem joinRC_set_row {n q : Nat} (hq : q < n) (x y : Lab) (b : Bool) :
    (joinRC n x y).set q b = joinRC n (x.set q b) y := by
  funext a
  simp only [Lab.set, joinRC]
  by_cases e : a = q
  · subst e; simp [hq]
  · simp [e]

theorem joinRC_set_col {n q : Nat} (hq : q < n) (x y : Lab) (b : Bool) :
    (joinRC n x y).set (q + n) b = joinRC n x (y.set q b) := by
  funext a
  simp only [Lab.set, joinRC]
  by_cases e : a = q + n
  · subst e
    have h1 : ¬ q + n < n := by omega
    have h2 : q + n < 2 * n := by omega
    simp [h1, h2]
  · by_cases h1 : a < n
    · simp [e, h1]
    · by_cases h2 : a < 2 * n
      · have : a - n ≠ q := by omega
        simp [e, h1, h2, this]
      · simp [e, h1, h2]

theorem sumOver_joinRC_row {α : Type} [Zero α] [Add α] {n : Nat} {ts : List Nat}
    (hlt : ∀ t ∈ ts, t < n) (F : Lab → α) (x y : Lab) :
    sumOver ts F (joinRC n x y) = sumOver ts (fun x' => F (joinRC n x' y)) x := by
  induction ts generalizing x with
  | nil => rfl
  | cons q qs ih =>
    have hq := hlt q (List.mem_cons_self ..)
    have ih' := fun x => ih (fun t ht => hlt t (List.mem_cons_of_mem _ ht)) x
    simp only [sumOver_cons, joinRC_set_row hq, ih']

theorem sumOver_joinRC_col {α : Type} [Zero α] [Add α] {n : Nat} {ts : List Nat}
    (hlt : ∀ t ∈ ts, t < n) (F : Lab → α) (x y : Lab) :
    sumOver (ts.map (· + n)) F (joinRC n x y) = sumOver ts (fun y' => F (joinRC n x y')) y := by
  induction ts generalizing y with
  | nil => rfl
  | cons q qs ih =>
    have hq := hlt q (List.mem_cons_self ..)
    have ih' := fun y => ih (fun t ht => hlt t (List.mem_cons_of_mem _ ht)) y
    simp only [List.map_cons, sumOver_cons, joinRC_set_col hq, ih']

theorem idx_joinRC_row {n : Nat} {ts : List Nat} (hlt : ∀ t ∈ ts, t < n) (x y : Lab) :
    Lab.idx ts (joinRC n x y) = Lab.idx ts x :=
  Lab.idx_congr fun r hr => by simp [joinRC, hlt r hr]

theorem idx_joinRC_col {n : Nat} {ts : List Nat} (hlt : ∀ t ∈ ts, t < n) (x y : Lab) :
    Lab.idx (ts.map (· + n)) (joinRC n x y) = Lab.idx ts y := by
  rw [idx_map]
  exact Lab.idx_congr fun r hr => by
    have := hlt r hr
    have h1 : ¬ r + n < n := by omega
    have h2 : r + n < 2 * n := by omega
    simp [joinRC, h1, h2]

theorem dmToT_joinRC {α : Type} {n : Nat} (ρ : DM α) {x y : Lab} (hx : InRange n x)
    (hy : InRange n y) : dmToT n ρ (joinRC n x y) = ρ x y := by
  unfold dmToT
  congr 1
  · funext q
    by_cases hq : q < n
    · simp [joinRC, hq]
    · simp [hq, hx q (Nat.le_of_not_lt hq)]
  · funext q
    by_cases hq : q < n
    · have h1 : ¬ q + n < n := by omega
      have h2 : q + n < 2 * n := by omega
      simp [joinRC, hq, h1, h2]
    · simp [hq, hy q (Nat.le_of_not_lt hq)]

section DM
variable {α : Type} [CommSemiring α]

theorem applyGate_nil_controls (M : Nat → Nat → α) (ts : List Nat) (ψ : Lab → α) (x : Lab) :
    applyGate ⟨M, ts, []⟩ ψ x
      = sumOver ts (fun y => M (Lab.idx ts x) (Lab.idx ts y) * ψ y) x := by
  simp [applyGate, Lab.allOne]

/-- gate on the row axes after the conjugate gate on the column axes = `applyGateDM`. -/
theorem dm_plain_core (conj : α → α) {n : Nat} {ts : List Nat} (hlt : ∀ t ∈ ts, t < n)
    (M : Nat → Nat → α) (T : Lab → α) (x y : Lab) :
    applyGate ⟨M, ts, []⟩ (applyGate ⟨fun i j => conj (M i j), ts.map (· + n), []⟩ T) (joinRC n x y)
      = applyGateDM conj ⟨M, ts, []⟩ (tToDM n T) x y := by
  unfold applyGateDM applyLeft applyRight
  simp only [applyGate_nil_controls]
  rw [sumOver_joinRC_row hlt, idx_joinRC_row hlt]
  apply sumOver_congr
  intro x' _
  rw [idx_joinRC_row hlt, sumOver_joinRC_col hlt, idx_joinRC_col hlt]
  congr 1
  apply sumOver_congr
  intro y' _
  rw [idx_joinRC_col hlt]
  rfl

theorem applyGateDM_congr_inRange (conj : α → α) (n : Nat) (g : MGate α)
    (hlt : ∀ t ∈ g.targets, t < n) {ρ σ : DM α}
    (h : ∀ x y, InRange n x → InRange n y → ρ x y = σ x y) {x y : Lab} (hx : InRange n x)
    (hy : InRange n y) : applyGateDM conj g ρ x y = applyGateDM conj g σ x y := by
  unfold applyGateDM applyLeft applyRight
  apply applyGate_congr_inRange n g hlt _ hx
  intro x' hx'
  exact applyGate_congr_inRange n ⟨fun i j => conj (g.mat i j), g.targets, g.controls⟩ hlt
    (fun y' hy' => h x' y' hx' hy') hy

theorem take_range'_le {s m n : Nat} (h : m ≤ n) : (List.range' s n).take m = List.range' s m := by
  have e : n = m + (n - m) := by omega
  rw [e, ← List.range'_append]
  exact List.take_left' (List.length_range' ..)

theorem applyGateDMString_eq {ts : List Nat} {n : Nat} (hts : ts.Nodup) (hlt : ∀ t ∈ ts, t < n)
    (hg : 2 * n + ts.length ≤ EINSUM_LEN) :
    applyGateDMString ts n = some
      (⟨List.range n ++ List.range' (n + ts.length) n, List.range' n ts.length ++ ts,
        (List.range n).map (rename ts (List.range' n ts.length)) ++ List.range' (n + ts.length) n⟩,
       ⟨List.range' (n + ts.length) n ++ List.range n, List.range' n ts.length ++ ts,
        List.range' (n + ts.length) n ++ (List.range n).map (rename ts (List.range' n ts.length))⟩) := by
  unfold applyGateDMString
  rw [prepareStrings_eq hts hlt (by omega)]
  simp only [List.length_range']
  rw [if_neg (by omega), take_range'_le (by omega)]

theorem applyGateDMString_none {ts : List Nat} {n : Nat} (hts : ts.Nodup) (hlt : ∀ t ∈ ts, t < n)
    (hg : EINSUM_LEN < 2 * n + ts.length) : applyGateDMString ts n = none := by
  unfold applyGateDMString
  by_cases h : n + ts.length ≤ EINSUM_LEN
  · rw [prepareStrings_eq hts hlt h]
    simp only [List.length_range']
    rw [if_pos (by omega)]
  · rw [prepareStrings_none (by omega)]

/-- the right einsum with `conj(matrix)` followed by the left einsum with `matrix`, on a tensor
with `2n` axes, is `applyGateDM` of the `n`-qubit density matrix it reshapes to. -/
theorem leftRight_eq (conj : α → α) {ts : List Nat} {n : Nat} (hts : ts.Nodup)
    (hlt : ∀ t ∈ ts, t < n) (hg : 2 * n + ts.length ≤ EINSUM_LEN) (M : Nat → Nat → α)
    (T : Lab → α) :
    ∃ lr, applyGateDMString ts n = some lr ∧
      ∀ x y, leftRight conj lr ts.length M T (joinRC n x y)
        = applyGateDM conj ⟨M, ts, []⟩ (tToDM n T) x y := by
  refine ⟨_, applyGateDMString_eq hts hlt hg, fun x y => ?_⟩
  have hnd : (List.range' (n + ts.length) n).Nodup := List.nodup_range' ..
  have hge : ∀ l ∈ List.range' (n + ts.length) n, n + ts.length ≤ l := fun l hl =>
    (List.mem_range'_1.mp hl).1
  have hR : ∀ w, InRange (2 * n) w →
      einsum ⟨List.range' (n + ts.length) n ++ List.range n, List.range' n ts.length ++ ts,
          List.range' (n + ts.length) n ++ (List.range n).map (rename ts (List.range' n ts.length))⟩
        T (fun w => conj (matT ts.length M w)) w
      = applyGate ⟨fun i j => conj (M i j), ts.map (· + n), []⟩ T w := by
    intro w hw
    have := einsum_prepared (pre := List.range' (n + ts.length) n) (suf := []) hts hlt
      (by simpa using hnd) (by simpa using hge) T (fun i j => conj (M i j)) w
      (by simpa [Nat.two_mul] using hw)
    have e : (fun w => conj (matT ts.length M w)) = matT ts.length (fun i j => conj (M i j)) := rfl
    rw [e]
    simpa using this
  have hL : ∀ (A : Lab → α) w, InRange (2 * n) w →
      einsum ⟨List.range n ++ List.range' (n + ts.length) n, List.range' n ts.length ++ ts,
          (List.range n).map (rename ts (List.range' n ts.length)) ++ List.range' (n + ts.length) n⟩
        A (matT ts.length M) w
      = applyGate ⟨M, ts, []⟩ A w := by
    intro A w hw
    have := einsum_prepared (pre := []) (suf := List.range' (n + ts.length) n) hts hlt
      (by simpa using hnd) (by simpa using hge) A M w (by simpa [Nat.two_mul] using hw)
    simpa using this
  unfold leftRight
  simp only
  rw [hL _ _ (inRange_joinRC n x y), ← dm_plain_core conj hlt M T x y]
  exact applyGate_congr_inRange (2 * n) _ (fun t ht => by have := hlt t ht; simp at ht ⊢; omega)
    hR (inRange_joinRC n x y)

/-- **`apply_gate_density_matrix`, plain branch, refines `applyGateDM`.** -/
theorem applyGateDMT_plain (conj : α → α) (n : Nat) (g : MGate α) (hc0 : g.controls = [])
    (hts : g.targets.Nodup) (hlt : ∀ t ∈ g.targets, t < n)
    (hg : 2 * n + g.targets.length ≤ EINSUM_LEN) (ρ : DM α) :
    ∃ f, applyGateDMT conj n g ρ = some f ∧
      ∀ x y, InRange n x → InRange n y → f x y = applyGateDM conj g ρ x y := by
  obtain ⟨M, ts, cs⟩ := g
  simp only at hc0 hts hlt hg
  subst hc0
  obtain ⟨lr, e, r⟩ := leftRight_eq conj hts hlt hg M (dmToT n ρ)
  unfold applyGateDMT
  simp only [List.isEmpty_nil, if_true, e, Option.map_some]
  refine ⟨_, rfl, fun x y hx hy => ?_⟩
  show leftRight conj lr ts.length M (dmToT n ρ) (joinRC n x y) = _
  rw [r x y]
  exact applyGateDM_congr_inRange conj n _ hlt
    (fun x' y' hx' hy' => dmToT_joinRC ρ hx' hy') hx hy

end DM

end QV.Einsum
