/-
  QV.Proofs.ResultSMFinal — `circuit._final_state` in the result state machine: after any
  history it is the result of the LAST execution (all accessor logics, legacy included).
-/
import QV.Proofs.ResultSM

namespace QV.RSM

/-- index of the last of `n` results. -/
def lastIdx : Nat → Option Nat
  | 0 => none
  | n + 1 => some n

def FinalInv (σ : St) : Prop := σ.final = lastIdx σ.results.length

theorem onResult_final (σ : St) (i : Nat) (f : List GCache → Res → List GCache × Res × Obs) :
    (onResult σ i f).1.final = σ.final ∧ (onResult σ i f).1.results.length = σ.results.length := by
  cases hr : σ.results[i]? with
  | none => rw [onResult_none σ i f hr]; exact ⟨rfl, rfl⟩
  | some r => rw [onResult_some σ i f r hr]; simp

theorem stepExec_final (c : Cfg) (σ : St) (inp n : Nat) (ds : List Nat) :
    (stepExec c σ inp n ds).1.final = some σ.results.length ∧
    (stepExec c σ inp n ds).1.results.length = σ.results.length + 1 := by
  cases hk : c.kind <;> simp [stepExec, hk]

theorem step_final (c : Cfg) (σ : St) (op : Op) (h : FinalInv σ) : FinalInv (step c σ op).1 := by
  cases hop : op.isExec with
  | true =>
    obtain ⟨inp, n, ds, rfl⟩ : ∃ inp n ds, op = .exec inp n ds := by
      cases op <;> simp [Op.isExec] at hop
      exact ⟨_, _, _, rfl⟩
    have := stepExec_final c σ inp n ds
    show (stepExec c σ inp n ds).1.final = lastIdx (stepExec c σ inp n ds).1.results.length
    rw [this.1, this.2]; rfl
  | false =>
    obtain ⟨i, ht⟩ := target_of_not_exec op hop
    rw [step_acc c σ op i ht]
    have := onResult_final σ i (accOf c op)
    unfold FinalInv
    rw [this.1, this.2]; exact h

theorem stateAfter_final (c : Cfg) : ∀ (h : List Op) (σ : St), FinalInv σ → FinalInv (stateAfter c σ h)
  | [], _, hσ => hσ
  | op :: ops, σ, hσ => stateAfter_final c ops _ (step_final c σ op hσ)

theorem stateAfter_length (c : Cfg) (h : List Op) :
    (stateAfter c (St.init c) h).results.length = (inputs h).length := by
  have := congrArg List.length (stateAfter_inps c h (St.init c))
  simpa [St.init] using this

end QV.RSM
