/-
  QV.Proofs.ChannelsPSD — complete positivity of the EXECUTED channel model: on every
  `n`-qubit register the generic path `applyChannelDM` maps positive semidefinite operators to
  positive semidefinite operators (non-negative coefficients, `coefficient_sum ≤ 1`), over ℂ.
  Combines the bridge of QV/Proofs/ChannelsSuper.lean (`applyGateDM_ofIndex`) with the
  Mathlib-level Kraus-form lemma of QV/Proofs/ChannelsCP.lean.
-/
import Mathlib.Data.Complex.Basic
import Mathlib.Analysis.Complex.Order
import Mathlib.Analysis.Complex.Basic
import Mathlib.Algebra.BigOperators.Fin
import QV.Proofs.ChannelsCP
import QV.Proofs.ChannelsSuper

namespace QV
open Matrix Finset
open scoped ComplexOrder

/-- the operator `ρ` on the labels of the `n`-qubit register as a Mathlib matrix. -/
def regMat (n : Nat) (ρ : DM ℂ) : Matrix (Fin (2 ^ n)) (Fin (2 ^ n)) ℂ :=
  Matrix.of fun i j => ρ (Lab.ofIndex n i.1) (Lab.ofIndex n j.1)

/-- the full matrix of a gate as a Mathlib matrix. -/
def fullMatM (n : Nat) (g : MGate ℂ) : Matrix (Fin (2 ^ n)) (Fin (2 ^ n)) ℂ :=
  Matrix.of fun i j => fullMat n g i.1 j.1

/-- the bridge in matrix form: `G ρ G†` on the register is `F · ρ · Fᴴ`. -/
theorem regMat_applyGateDM (n : Nat) (g : MGate ℂ) (hn : g.targets.Nodup)
    (hts : ∀ t ∈ g.targets, t < n) (ρ : DM ℂ) :
    regMat n (applyGateDM (starRingEnd ℂ) g ρ) = fullMatM n g * regMat n ρ * (fullMatM n g)ᴴ := by
  ext i j
  simp only [regMat, fullMatM, Matrix.of_apply, Matrix.mul_apply, Matrix.conjTranspose_apply]
  rw [applyGateDM_ofIndex (starRingEnd ℂ) n g hn hts ρ i.1 j.1, Finset.sum_comm]
  rw [← Fin.sum_univ_eq_sum_range (fun b => ∑ a ∈ range (2 ^ n),
    fullMat n g i.1 a * dmMat n ρ a b * (starRingEnd ℂ) (fullMat n g j.1 b)) (2 ^ n)]
  apply Finset.sum_congr rfl
  intro b _
  rw [Finset.sum_mul, ← Fin.sum_univ_eq_sum_range (fun a =>
    fullMat n g i.1 a * dmMat n ρ a b.1 * (starRingEnd ℂ) (fullMat n g j.1 b.1)) (2 ^ n)]
  rfl

theorem list_sum_posSemidef {N : Type} [Fintype N] {β : Type} (l : List β)
    (f : β → Matrix N N ℂ) (h : ∀ t ∈ l, (f t).PosSemidef) : (l.map f).sum.PosSemidef := by
  induction l with
  | nil => simpa using PosSemidef.zero
  | cons t tl ih =>
    rw [List.map_cons, List.sum_cons]
    exact (h t (List.mem_cons_self ..)).add (ih fun t' ht' => h t' (List.mem_cons_of_mem _ ht'))

/-- the executed channel on the register, as a matrix expression. -/
theorem regMat_applyChannelDM (n : Nat) (ch : Chan ℂ)
    (hg : ∀ g ∈ ch.gates, g.targets.Nodup ∧ ∀ t ∈ g.targets, t < n) (ρ : DM ℂ) :
    regMat n (applyChannelDM (starRingEnd ℂ) ch ρ)
      = (1 - ch.csum) • regMat n ρ
        + ((ch.coeffs.zip ch.gates).map
            (fun t => t.1 • (fullMatM n t.2 * regMat n ρ * (fullMatM n t.2)ᴴ))).sum := by
  have key : ∀ (terms : List (ℂ × MGate ℂ)),
      (∀ t ∈ terms, t.2.targets.Nodup ∧ ∀ q ∈ t.2.targets, q < n) → ∀ i j : Fin (2 ^ n),
      (terms.map (fun t => t.1 * applyGateDM (starRingEnd ℂ) t.2 ρ
          (Lab.ofIndex n i.1) (Lab.ofIndex n j.1))).sum
        = ((terms.map (fun t => t.1 • (fullMatM n t.2 * regMat n ρ * (fullMatM n t.2)ᴴ))).sum) i j := by
    intro terms
    induction terms with
    | nil => intro _ i j; simp
    | cons t tl ih =>
      intro h i j
      obtain ⟨hn, hts⟩ := h t (List.mem_cons_self ..)
      rw [List.map_cons, List.sum_cons, List.map_cons, List.sum_cons, Matrix.add_apply,
        ← ih (fun t' ht' => h t' (List.mem_cons_of_mem _ ht')) i j,
        ← regMat_applyGateDM n t.2 hn hts ρ]
      rfl
  ext i j
  rw [Matrix.add_apply, ← key _ (fun t ht => hg t.2 (List.of_mem_zip ht).2) i j]
  simp only [regMat, Matrix.of_apply, Matrix.smul_apply, smul_eq_mul]
  exact krausFold_eq _ _ _ ρ _ _

/-- **complete positivity of the executed generic path** on every register: non-negative
coefficients with `coefficient_sum ≤ 1` map PSD operators to PSD operators. -/
theorem applyChannelDM_posSemidef (n : Nat) (ch : Chan ℂ)
    (hg : ∀ g ∈ ch.gates, g.targets.Nodup ∧ ∀ t ∈ g.targets, t < n)
    (hc : ∀ c ∈ ch.coeffs, 0 ≤ c) (h0 : 0 ≤ 1 - ch.csum) (ρ : DM ℂ)
    (hρ : (regMat n ρ).PosSemidef) :
    (regMat n (applyChannelDM (starRingEnd ℂ) ch ρ)).PosSemidef := by
  rw [regMat_applyChannelDM n ch hg ρ]
  refine (hρ.smul h0).add (list_sum_posSemidef _ _ fun t ht => ?_)
  exact (hρ.mul_mul_conjTranspose_same (fullMatM n t.2)).smul (hc t.1 (List.of_mem_zip ht).1)

end QV
