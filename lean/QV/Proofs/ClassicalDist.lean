/-
  QV.Proofs.ClassicalDist — helper lemmas for `QV.Model.ClassicalDist`
  (Hamming weight / distance on bit lists and on naturals, the 1-norm distance
  `sumAbsDiff`, and the sum-of-squares algebra behind the Hellinger distance).
  Everything is for all list lengths / all naturals.
-/
import Mathlib.Algebra.BigOperators.Group.List.Basic
import Mathlib.Algebra.BigOperators.Group.Finset.Basic
import Mathlib.Algebra.Order.BigOperators.Group.List
import Mathlib.Algebra.Order.Ring.Abs
import Mathlib.Algebra.Order.Field.Basic
import Mathlib.Data.Nat.Bitwise
import Mathlib.Data.Nat.Size
import Mathlib.Tactic.Ring
import Mathlib.Tactic.Linarith
import QV.Model.ClassicalDist
set_option linter.unusedSectionVars false

namespace QV.CD

/-! ### Hamming weight of bit lists -/

theorem onesIdxFrom_length (i : Nat) (l : List Bool) :
    (onesIdxFrom i l).length = l.count true := by
  induction l generalizing i with
  | nil => rfl
  | cons b l ih => cases b <;> simp [onesIdxFrom, ih]

theorem weight_eq_count (l : List Bool) : hammingWeightBits l = l.count true :=
  onesIdxFrom_length 0 l

theorem mem_onesIdxFrom (i k : Nat) (l : List Bool) :
    k ∈ onesIdxFrom i l ↔ i ≤ k ∧ l[k - i]? = some true := by
  induction l generalizing i with
  | nil => simp [onesIdxFrom]
  | cons b l ih =>
    by_cases hk : k = i
    · subst hk
      cases b <;> simp [onesIdxFrom, ih]
    · have hsub : i ≤ k → k - i = (k - (i + 1)) + 1 := by omega
      cases b
      · simp only [onesIdxFrom, Bool.false_eq_true, if_false, ih]
        constructor
        · rintro ⟨h1, h2⟩
          refine ⟨by omega, ?_⟩
          rw [hsub (by omega), List.getElem?_cons_succ]; exact h2
        · rintro ⟨h1, h2⟩
          refine ⟨by omega, ?_⟩
          rw [hsub h1, List.getElem?_cons_succ] at h2; exact h2
      · simp only [onesIdxFrom, if_true, List.mem_cons, ih]
        constructor
        · rintro (h | ⟨h1, h2⟩)
          · exact absurd h hk
          · refine ⟨by omega, ?_⟩
            rw [hsub (by omega), List.getElem?_cons_succ]; exact h2
        · rintro ⟨h1, h2⟩
          right
          refine ⟨by omega, ?_⟩
          rw [hsub h1, List.getElem?_cons_succ] at h2; exact h2

/-! ### equal-length distance `dist0` (count of differing positions) -/

/-- number of positions where two bit lists differ (zip semantics). -/
def dist0 (a b : List Bool) : Nat := (List.zipWith (fun x y => x != y) a b).count true

theorem dist0_comm (a b : List Bool) : dist0 a b = dist0 b a := by
  unfold dist0
  rw [List.zipWith_comm]
  congr 2
  funext x y
  cases x <;> cases y <;> rfl

theorem dist0_self (a : List Bool) : dist0 a a = 0 := by
  induction a with
  | nil => rfl
  | cons x a ih => simpa [dist0] using ih

theorem dist0_le_length (a b : List Bool) : dist0 a b ≤ min a.length b.length := by
  unfold dist0
  exact (List.count_le_length).trans (by simp)

theorem dist0_append (a a' b b' : List Bool) (h : a.length = b.length) :
    dist0 (a ++ a') (b ++ b') = dist0 a b + dist0 a' b' := by
  unfold dist0
  rw [List.zipWith_append h, List.count_append]

theorem dist0_replicate_false (n m : Nat) :
    dist0 (List.replicate n false) (List.replicate m false) = 0 := by
  unfold dist0
  rw [List.zipWith_replicate]
  simp [List.count_replicate]

theorem dist0_reverse (a b : List Bool) (h : a.length = b.length) :
    dist0 a.reverse b.reverse = dist0 a b := by
  unfold dist0
  rw [← List.reverse_zipWith h, List.count_reverse]

theorem dist0_eq_zero_iff (a b : List Bool) (h : a.length = b.length) :
    dist0 a b = 0 ↔ a = b := by
  induction a generalizing b with
  | nil =>
    cases b with
    | nil => simp [dist0]
    | cons y b => simp at h
  | cons x a ih =>
    cases b with
    | nil => simp at h
    | cons y b =>
      have h' : a.length = b.length := by simpa using h
      have ih' := ih b h'
      unfold dist0 at ih' ⊢
      cases x <;> cases y <;> simp [ih']

theorem dist0_triangle (a b c : List Bool) (h1 : a.length = b.length)
    (h2 : b.length = c.length) : dist0 a c ≤ dist0 a b + dist0 b c := by
  induction a generalizing b c with
  | nil => simp [dist0]
  | cons x a ih =>
    cases b with
    | nil => simp at h1
    | cons y b =>
      cases c with
      | nil => simp at h2
      | cons z c =>
        have ih' := ih b c (by simpa using h1) (by simpa using h2)
        unfold dist0 at ih' ⊢
        cases x <;> cases y <;> cases z <;> simp <;> omega

/-! ### padding -/

theorem padLeft_length (k : Nat) (l : List Bool) : (padLeft k l).length = max k l.length := by
  simp [padLeft]; omega

theorem padLeft_of_le (k : Nat) (l : List Bool) (h : k ≤ l.length) : padLeft k l = l := by
  simp [padLeft, Nat.sub_eq_zero_of_le h]

theorem padLeft_padLeft (k K : Nat) (l : List Bool) (h1 : l.length ≤ k) (h2 : k ≤ K) :
    padLeft K l = List.replicate (K - k) false ++ padLeft k l := by
  simp only [padLeft, ← List.append_assoc, List.replicate_append_replicate]
  congr 2
  omega

theorem hdist_eq_dist0 (a b : List Bool) :
    hammingDistanceBits a b
      = dist0 (padLeft (max a.length b.length) a) (padLeft (max a.length b.length) b) := by
  simp [hammingDistanceBits, weight_eq_count, diffBits, dist0]

/-- the distance does not depend on how far both strings are padded. -/
theorem hdist_eq_dist0_pad (a b : List Bool) (K : Nat) (h : max a.length b.length ≤ K) :
    hammingDistanceBits a b = dist0 (padLeft K a) (padLeft K b) := by
  rw [hdist_eq_dist0,
    padLeft_padLeft (max a.length b.length) K a (Nat.le_max_left _ _) h,
    padLeft_padLeft (max a.length b.length) K b (Nat.le_max_right _ _) h,
    dist0_append _ _ _ _ (by simp), dist0_replicate_false, Nat.zero_add]

theorem hdist_eq_dist0_of_length_eq (a b : List Bool) (h : a.length = b.length) :
    hammingDistanceBits a b = dist0 a b := by
  rw [hdist_eq_dist0, padLeft_of_le _ a (by omega), padLeft_of_le _ b (by omega)]

/-! ### naturals -/

theorem bitsLE_zero : bitsLE 0 = [] := by rw [bitsLE]; simp

theorem bitsLE_pos (n : Nat) (h : n ≠ 0) : bitsLE n = (n % 2 == 1) :: bitsLE (n / 2) := by
  rw [bitsLE]; simp [h]

/-- fold a little-endian bit list back to a number. -/
def ofBitsLE : List Bool → Nat
  | [] => 0
  | b :: l => (if b then 1 else 0) + 2 * ofBitsLE l

theorem ofBitsLE_bitsLE (n : Nat) : ofBitsLE (bitsLE n) = n := by
  induction n using Nat.strong_induction_on with
  | _ n ih =>
    by_cases h : n = 0
    · subst h; rw [bitsLE_zero]; rfl
    · rw [bitsLE_pos n h, ofBitsLE, ih (n / 2) (by omega)]
      rcases Nat.mod_two_eq_zero_or_one n with h2 | h2 <;> simp [h2] <;> omega

theorem bitsLE_length_lt (n : Nat) : n < 2 ^ (bitsLE n).length := by
  induction n using Nat.strong_induction_on with
  | _ n ih =>
    by_cases h : n = 0
    · subst h; simp
    · rw [bitsLE_pos n h, List.length_cons, pow_succ]
      have := ih (n / 2) (by omega)
      omega

/-- the last (most significant) little-endian digit of a positive number is `1`. -/
theorem bitsLE_getLast (n : Nat) (h : n ≠ 0) : (bitsLE n).getLast? = some true := by
  induction n using Nat.strong_induction_on with
  | _ n ih =>
    rw [bitsLE_pos n h]
    by_cases h2 : n / 2 = 0
    · rw [h2, bitsLE_zero]
      have : n = 1 := by omega
      subst this; rfl
    · have := ih (n / 2) (by omega) h2
      rw [bitsLE_pos _ h2] at this ⊢
      simpa [List.getLast?_cons_cons] using this

theorem weightNat_eq_count (n : Nat) : hammingWeightNat n = (bitsLE n).count true := by
  unfold hammingWeightNat bitsOfNat
  rw [weight_eq_count]
  by_cases h : n = 0
  · subst h; rw [bitsLE_zero]; rfl
  · simp [h]

/-- the `K` lowest binary digits, least significant first. -/
def bitsK (K n : Nat) : List Bool := (List.range K).map n.testBit

theorem bitsK_length (K n : Nat) : (bitsK K n).length = K := by simp [bitsK]

theorem bitsK_succ (K n : Nat) : bitsK (K + 1) n = (n % 2 == 1) :: bitsK K (n / 2) := by
  unfold bitsK
  rw [List.range_succ_eq_map, List.map_cons, List.map_map]
  congr 1
  · rw [Nat.testBit_zero]
    rcases Nat.mod_two_eq_zero_or_one n with h | h <;> simp [h]
  · apply List.map_congr_left
    intro k _
    simp [Nat.testBit_succ]

theorem bitsK_zero_right (K : Nat) : bitsK K 0 = List.replicate K false := by
  induction K with
  | zero => rfl
  | succ K ih => rw [bitsK_succ, List.replicate_succ, ← ih]; rfl

/-- padding the exact digits with zeros gives the `K` lowest digits. -/
theorem bitsLE_append_replicate (K n : Nat) (h : n < 2 ^ K) :
    bitsLE n ++ List.replicate (K - (bitsLE n).length) false = bitsK K n := by
  induction K generalizing n with
  | zero =>
    have : n = 0 := by simpa using h
    subst this; rw [bitsLE_zero]; rfl
  | succ K ih =>
    by_cases h0 : n = 0
    · subst h0; rw [bitsLE_zero, bitsK_zero_right]; rfl
    · rw [bitsLE_pos n h0, bitsK_succ, List.cons_append, List.length_cons,
        Nat.add_sub_add_right, ih (n / 2) (by rw [pow_succ] at h; omega)]

theorem bitsLE_length_le (K n : Nat) (h : n < 2 ^ K) : (bitsLE n).length ≤ K := by
  induction K generalizing n with
  | zero =>
    have : n = 0 := by simpa using h
    subst this; rw [bitsLE_zero]; simp
  | succ K ih =>
    by_cases h0 : n = 0
    · subst h0; rw [bitsLE_zero]; simp
    · rw [bitsLE_pos n h0, List.length_cons]
      have := ih (n / 2) (by rw [pow_succ] at h; omega)
      omega

theorem count_bitsK (K n : Nat) (h : n < 2 ^ K) :
    (bitsK K n).count true = hammingWeightNat n := by
  rw [← bitsLE_append_replicate K n h, List.count_append, weightNat_eq_count]
  simp [List.count_replicate]

theorem bitsOfNat_length_pos (n : Nat) : 0 < (bitsOfNat n).length := by
  unfold bitsOfNat
  by_cases h : n = 0
  · simp [h]
  · simp only [h, if_false, List.length_reverse]
    rw [bitsLE_pos n h]; simp

theorem lt_two_pow_bitsOfNat_length (n : Nat) : n < 2 ^ (bitsOfNat n).length := by
  unfold bitsOfNat
  by_cases h : n = 0
  · simp [h]
  · simp only [h, if_false, List.length_reverse]
    exact bitsLE_length_lt n

/-- left-padding `f"{n:b}"` to `K` digits gives the `K` lowest digits, most significant first. -/
theorem padLeft_bitsOfNat (K n : Nat) (hK : (bitsOfNat n).length ≤ K) :
    padLeft K (bitsOfNat n) = (bitsK K n).reverse := by
  have hn : n < 2 ^ K :=
    lt_of_lt_of_le (lt_two_pow_bitsOfNat_length n) (Nat.pow_le_pow_right (by omega) hK)
  by_cases h : n = 0
  · subst h
    have h1 : 1 ≤ K := by simpa [bitsOfNat] using hK
    obtain ⟨K, rfl⟩ : ∃ K', K = K' + 1 := ⟨K - 1, by omega⟩
    simp only [padLeft, bitsOfNat, if_true, bitsK_zero_right, List.reverse_replicate,
      List.length_singleton, Nat.add_sub_cancel]
    rw [List.replicate_succ']
  · rw [← bitsLE_append_replicate K n hn]
    simp [padLeft, bitsOfNat, h]

theorem dist0_bitsK (K a b : Nat) : dist0 (bitsK K a) (bitsK K b) = (bitsK K (a ^^^ b)).count true := by
  unfold dist0 bitsK
  rw [List.zipWith_map, List.zipWith_self]
  congr 1
  apply List.map_congr_left
  intro k _
  simp [Nat.testBit_xor]

theorem hdistNat_eq_weight_xor (a b : Nat) :
    hammingDistanceNat a b = hammingWeightNat (a ^^^ b) := by
  unfold hammingDistanceNat
  set K := max (bitsOfNat a).length (bitsOfNat b).length with hK
  have ha : (bitsOfNat a).length ≤ K := Nat.le_max_left _ _
  have hb : (bitsOfNat b).length ≤ K := Nat.le_max_right _ _
  have ha2 : a < 2 ^ K :=
    lt_of_lt_of_le (lt_two_pow_bitsOfNat_length a) (Nat.pow_le_pow_right (by omega) ha)
  have hb2 : b < 2 ^ K :=
    lt_of_lt_of_le (lt_two_pow_bitsOfNat_length b) (Nat.pow_le_pow_right (by omega) hb)
  rw [hdist_eq_dist0, ← hK, padLeft_bitsOfNat K a ha, padLeft_bitsOfNat K b hb,
    dist0_reverse _ _ (by simp [bitsK_length]), dist0_bitsK,
    count_bitsK K _ (Nat.xor_lt_two_pow ha2 hb2)]

/-! ### sums -/

section sums
variable {α : Type}

theorem foldr_add_eq_sum [AddMonoid α] (l : List α) : l.foldr (· + ·) 0 = l.sum := by
  induction l with
  | nil => rfl
  | cons x l ih => simp [List.foldr_cons, ih]

end sums

/-! ### the 1-norm distance -/

section tvd
variable {α : Type} [Field α] [LinearOrder α] [IsStrictOrderedRing α]

/-- Σ |p_i − q_i| with Mathlib's absolute value. -/
def absSum (p q : List α) : α := (List.zipWith (fun x y => |x - y|) p q).sum

theorem sumAbsDiff_eq_absSum (p q : List α) : sumAbsDiff p q = absSum p q := by
  unfold sumAbsDiff absSum
  rw [foldr_add_eq_sum]
  congr 2

@[simp] theorem absSum_nil_left (q : List α) : absSum [] q = 0 := by simp [absSum]
@[simp] theorem absSum_nil_right (p : List α) : absSum p [] = 0 := by simp [absSum]
@[simp] theorem absSum_cons (x y : α) (p q : List α) :
    absSum (x :: p) (y :: q) = |x - y| + absSum p q := by simp [absSum]

theorem absSum_nonneg (p q : List α) : 0 ≤ absSum p q := by
  induction p generalizing q with
  | nil => simp
  | cons x p ih =>
    cases q with
    | nil => simp
    | cons y q => rw [absSum_cons]; exact add_nonneg (abs_nonneg _) (ih q)

theorem absSum_comm (p q : List α) : absSum p q = absSum q p := by
  induction p generalizing q with
  | nil => simp
  | cons x p ih =>
    cases q with
    | nil => simp
    | cons y q => rw [absSum_cons, absSum_cons, ih q, abs_sub_comm]

theorem absSum_self (p : List α) : absSum p p = 0 := by
  induction p with
  | nil => simp
  | cons x p ih => simp [ih]

theorem absSum_eq_zero_iff (p q : List α) (h : p.length = q.length) :
    absSum p q = 0 ↔ p = q := by
  induction p generalizing q with
  | nil =>
    cases q with
    | nil => simp
    | cons y q => simp at h
  | cons x p ih =>
    cases q with
    | nil => simp at h
    | cons y q =>
      rw [absSum_cons, add_eq_zero_iff_of_nonneg (abs_nonneg _) (absSum_nonneg p q),
        ih q (by simpa using h), abs_eq_zero, sub_eq_zero, List.cons.injEq]

theorem absSum_triangle (p q r : List α) (h1 : p.length = q.length)
    (h2 : q.length = r.length) : absSum p r ≤ absSum p q + absSum q r := by
  induction p generalizing q r with
  | nil => simpa using absSum_nonneg q r
  | cons x p ih =>
    cases q with
    | nil => simp at h1
    | cons y q =>
      cases r with
      | nil => simp at h2
      | cons z r =>
        have ih' := ih q r (by simpa using h1) (by simpa using h2)
        have := abs_sub_le x y z
        simp only [absSum_cons]
        linarith

/-- for entrywise non-negative lists, Σ|p_i − q_i| ≤ Σ p_i + Σ q_i (any lengths). -/
theorem absSum_le_sum_add_sum (p q : List α) (hp : ∀ x ∈ p, 0 ≤ x) (hq : ∀ y ∈ q, 0 ≤ y) :
    absSum p q ≤ p.sum + q.sum := by
  induction p generalizing q with
  | nil => simpa using List.sum_nonneg hq
  | cons x p ih =>
    cases q with
    | nil => simpa using List.sum_nonneg hp
    | cons y q =>
      have hx : 0 ≤ x := hp x (by simp)
      have hy : 0 ≤ y := hq y (by simp)
      have ih' := ih q (fun a ha => hp a (by simp [ha])) (fun a ha => hq a (by simp [ha]))
      have : |x - y| ≤ x + y := by
        rw [abs_le]; constructor <;> linarith
      simp only [absSum_cons, List.sum_cons]
      linarith

end tvd

/-! ### sums of squares -/

section hell
variable {α : Type} [CommRing α]

theorem sumSq_nil : sumSq ([] : List α) = 0 := rfl
theorem sumSq_cons (x : α) (a : List α) : sumSq (x :: a) = x * x + sumSq a := rfl
theorem dot_nil_left (b : List α) : dot [] b = 0 := rfl
theorem dot_cons (x y : α) (a b : List α) : dot (x :: a) (y :: b) = x * y + dot a b := rfl
theorem sumSqDiff_nil_left (b : List α) : sumSqDiff [] b = 0 := rfl
theorem sumSqDiff_cons (x y : α) (a b : List α) :
    sumSqDiff (x :: a) (y :: b) = (x - y) * (x - y) + sumSqDiff a b := rfl

end hell

end QV.CD
