/-
  QV.Proofs.EinsumOrder — structure of `control_order` / `reverse_order` (QV/Model/Einsum.lean):
  for ascending controls below n the order is `controls ++ (non-controls ascending)`, a
  permutation of `range n`; the shifted targets are the ranks of the targets among the
  non-controls; `reverse_order` is the inverse permutation.
-/
import Mathlib.Data.List.Nodup
import Mathlib.Data.List.Perm.Basic
import Mathlib.Data.List.Range
import QV.Proofs.Einsum

namespace QV.Einsum
open QV

/-- the qubits that are not controls, ascending. -/
def nonCtrl (cs : List Nat) (n : Nat) : List Nat := (List.range n).filter fun q => !cs.contains q

/-- the gaps between consecutive controls, from `s` on (what the loop of `control_order` appends). -/
def gaps (n : Nat) : Nat → List Nat → List Nat
  | s, [] => List.range' s (n - s)
  | s, c :: cs => List.range' s (c - s) ++ gaps n (c + 1) cs

theorem foldl_controlStep_order (ts : List Nat) (n : Nat) (cs : List Nat) (s : Nat)
    (acc cur : List Nat) :
    (cs.foldl (controlStep ts) (s, acc, cur)).2.1
        ++ List.range' (cs.foldl (controlStep ts) (s, acc, cur)).1
            (n - (cs.foldl (controlStep ts) (s, acc, cur)).1)
      = acc ++ gaps n s cs := by
  induction cs generalizing s acc cur with
  | nil => rfl
  | cons c cs ih =>
    rw [List.foldl_cons]
    rw [show controlStep ts (s, acc, cur) c = (c + 1, acc ++ List.range' s (c - s),
      List.zipWith (fun t cur => if t > c then cur - 1 else cur) ts cur) from rfl]
    rw [ih, gaps, List.append_assoc]

theorem zipWith_zipWith_left {β : Type} (f g : Nat → β → β) (ts : List Nat) (cur : List β) :
    List.zipWith f ts (List.zipWith g ts cur) = List.zipWith (fun t c => f t (g t c)) ts cur := by
  induction ts generalizing cur with
  | nil => rfl
  | cons t ts ih =>
    cases cur with
    | nil => rfl
    | cons c cur => simp [List.zipWith_cons_cons, ih]

theorem zipWith_snd {β : Type} (ts : List Nat) (cur : List β) (h : cur.length = ts.length) :
    List.zipWith (fun _ c => c) ts cur = cur := by
  induction ts generalizing cur with
  | nil => cases cur with
    | nil => rfl
    | cons c cur => simp at h
  | cons t ts ih =>
    cases cur with
    | nil => simp at h
    | cons c cur => simp [List.zipWith_cons_cons, ih cur (by simpa using h)]

theorem foldl_controlStep_targets (ts : List Nat) (cs : List Nat) (s : Nat) (acc cur : List Nat)
    (hlen : cur.length = ts.length) :
    (cs.foldl (controlStep ts) (s, acc, cur)).2.2
      = List.zipWith (fun t c => c - (cs.filter (· < t)).length) ts cur := by
  induction cs generalizing s acc cur with
  | nil => simp [zipWith_snd ts cur hlen]
  | cons c cs ih =>
    rw [List.foldl_cons]
    rw [show controlStep ts (s, acc, cur) c = (c + 1, acc ++ List.range' s (c - s),
      List.zipWith (fun t cur => if t > c then cur - 1 else cur) ts cur) from rfl]
    rw [ih _ _ _ (by simp [hlen]), zipWith_zipWith_left]
    congr 1
    funext t cu
    by_cases h : c < t
    · simp [h]; omega
    · simp [h]

theorem gaps_eq_filter (n : Nat) (cs : List Nat) (s : Nat) (hs : cs.Pairwise (· < ·))
    (hlo : ∀ c ∈ cs, s ≤ c) (hhi : ∀ c ∈ cs, c < n) :
    gaps n s cs = (List.range' s (n - s)).filter fun q => !cs.contains q := by
  induction cs generalizing s with
  | nil => simp [gaps]
  | cons c cs ih =>
    have hc1 : s ≤ c := hlo c (List.mem_cons_self ..)
    have hc2 : c < n := hhi c (List.mem_cons_self ..)
    have hgt : ∀ d ∈ cs, c < d := (List.pairwise_cons.mp hs).1
    have hsplit : List.range' s (n - s)
        = List.range' s (c - s) ++ (c :: List.range' (c + 1) (n - (c + 1))) := by
      have e1 : s + (c - s) = c := by omega
      have e2 : n - s = (c - s) + (n - c) := by omega
      have e3 : n - c = (n - (c + 1)) + 1 := by omega
      calc List.range' s (n - s) = List.range' s ((c - s) + (n - c)) := by rw [e2]
        _ = List.range' s (c - s) ++ List.range' (s + 1 * (c - s)) (n - c) :=
            (List.range'_append).symm
        _ = List.range' s (c - s) ++ List.range' c (n - c) := by rw [Nat.one_mul, e1]
        _ = _ := by rw [e3, List.range'_succ]
    rw [gaps, ih (c + 1) (List.pairwise_cons.mp hs).2 (fun d hd => hgt d hd)
      (fun d hd => hhi d (List.mem_cons_of_mem _ hd)), hsplit, List.filter_append]
    congr 1
    · symm
      apply List.filter_eq_self.mpr
      intro a ha
      have := (List.mem_range'_1.mp ha).2
      have h2 : a ∉ c :: cs := by
        intro hm
        rcases List.mem_cons.mp hm with e | hm
        · omega
        · have := hgt a hm; omega
      simpa using h2
    · rw [List.filter_cons]
      simp only [List.contains_cons, beq_self_eq_true, Bool.true_or, Bool.not_true,
        Bool.false_eq_true, if_false]
      apply List.filter_congr
      intro a ha
      have := (List.mem_range'_1.mp ha).1
      have : (a == c) = false := by simp; omega
      simp [this]

/-- **`control_order`, closed form.** -/
theorem controlOrder_eq {cs ts : List Nat} {n : Nat} (hs : cs.Pairwise (· < ·))
    (hhi : ∀ c ∈ cs, c < n) :
    controlOrder cs ts n
      = (cs ++ nonCtrl cs n, ts.map fun t => t - (cs.filter (· < t)).length) := by
  unfold controlOrder
  simp only
  rw [foldl_controlStep_order, foldl_controlStep_targets _ _ _ _ _ rfl, List.zipWith_self,
    gaps_eq_filter n cs 0 hs (fun _ _ => Nat.zero_le _) hhi]
  simp [nonCtrl, List.range_eq_range']

theorem mem_nonCtrl {cs : List Nat} {n q : Nat} : q ∈ nonCtrl cs n ↔ q < n ∧ q ∉ cs := by
  simp [nonCtrl]

theorem nodup_nonCtrl (cs : List Nat) (n : Nat) : (nonCtrl cs n).Nodup :=
  List.nodup_range.filter _

/-- the order is a permutation of `range n` (controls first, then the other qubits ascending). -/
theorem order_perm {cs : List Nat} {n : Nat} (hnd : cs.Nodup) (hhi : ∀ c ∈ cs, c < n) :
    (cs ++ nonCtrl cs n).Perm (List.range n) := by
  have h1 : cs.Perm ((List.range n).filter fun q => cs.contains q) := by
    refine (List.perm_ext_iff_of_nodup hnd (List.nodup_range.filter _)).mpr fun a => ?_
    simp only [List.mem_filter, List.mem_range, List.contains_iff_mem]
    exact ⟨fun h => ⟨hhi a h, h⟩, fun h => h.2⟩
  exact (h1.append_right _).trans (List.filter_append_perm _ _)

/-- rank of `t` in a filtered range = number of kept elements below it. -/
theorem idxOf_filter_range (p : Nat → Bool) {t n : Nat} (ht : t < n) (hp : p t = true) :
    ((List.range n).filter p).idxOf t = ((List.range t).filter p).length := by
  have hsplit : List.range n = List.range t ++ (t :: List.range' (t + 1) (n - (t + 1))) := by
    rw [List.range_eq_range', List.range_eq_range']
    have h1 : n = t + ((n - (t + 1)) + 1) := by omega
    conv_lhs => rw [h1]
    rw [← List.range'_append, List.range'_succ]
    simp
  rw [hsplit, List.filter_append, List.filter_cons, if_pos hp,
    List.idxOf_append_of_notMem (by simp), List.idxOf_cons_self, Nat.add_zero]

theorem rank_nonCtrl {cs : List Nat} {n t : Nat} (hnd : cs.Nodup) (ht : t < n) (htc : t ∉ cs) :
    (nonCtrl cs n).idxOf t = t - (cs.filter (· < t)).length := by
  unfold nonCtrl
  rw [idxOf_filter_range _ ht (by simpa using htc)]
  have h1 := List.length_eq_length_filter_add (l := List.range t) (fun q => cs.contains q)
  have h2 : ((List.range t).filter fun q => cs.contains q).Perm (cs.filter (· < t)) := by
    refine (List.perm_ext_iff_of_nodup (List.nodup_range.filter _) (hnd.filter _)).mpr fun a => ?_
    simp only [List.mem_filter, List.mem_range, List.contains_iff_mem, decide_eq_true_eq]
    exact ⟨fun h => ⟨h.2, h.1⟩, fun h => ⟨h.2, h.1⟩⟩
  rw [List.length_range, h2.length_eq] at h1
  omega

/-- **`control_order`: the shifted targets are the ranks of the targets among the non-controls.** -/
theorem controlOrder_targets {cs ts : List Nat} {n : Nat} (hs : cs.Pairwise (· < ·))
    (hhi : ∀ c ∈ cs, c < n) (hlt : ∀ t ∈ ts, t < n) (hd : ∀ t ∈ ts, t ∉ cs) :
    (controlOrder cs ts n).2 = ts.map fun t => (nonCtrl cs n).idxOf t := by
  rw [controlOrder_eq hs hhi]
  apply List.map_congr_left
  intro t ht
  have hnd : cs.Nodup := hs.imp (fun h => Nat.ne_of_lt h)
  exact (rank_nonCtrl hnd (hlt t ht) (hd t ht)).symm

/-! ### `reverse_order` -/

theorem reverseOrder_getElem? {order : List Nat} (hnd : order.Nodup) (r : Nat) :
    (reverseOrder order)[r]? =
      if r ∈ order then (if r < order.length then some (order.idxOf r) else none)
      else (List.replicate order.length 0)[r]? := by
  unfold reverseOrder
  rw [List.zipIdx_eq_zip_range', foldl_set_getElem? order _ _ hnd (List.length_range' ..),
    List.length_replicate]
  by_cases hm : r ∈ order
  · simp only [hm, if_true]
    have := List.idxOf_lt_length_of_mem hm
    by_cases hr : r < order.length
    · simp only [hr, if_true]
      congr 1
      rw [List.getD_eq_getElem?_getD, List.getElem?_range' (by simpa using this)]
      simp
    · simp [hr]
  · simp [hm]

theorem length_reverseOrder (order : List Nat) : (reverseOrder order).length = order.length := by
  unfold reverseOrder
  have : ∀ (l : List (Nat × Nat)) (b : List Nat),
      (l.foldl (fun r xi => r.set xi.1 xi.2) b).length = b.length := by
    intro l
    induction l with
    | nil => intro b; rfl
    | cons a l ih => intro b; rw [List.foldl_cons, ih, List.length_set]
  rw [this, List.length_replicate]

end QV.Einsum
