/-
  QV.Proofs.EinsumDMC — the `controlled_by` branch of the transliterated
  `NumpyBackend.apply_gate_density_matrix` (4-block update) refines `applyGateDM`.
-/
import Mathlib.Data.List.Nodup
import Mathlib.Data.List.Perm.Basic
import Mathlib.Data.List.Range
import QV.Proofs.EinsumDM

namespace QV.Einsum
open QV Finset

/-! ### `pull` on appended / shifted label lists -/

theorem pull_append (as bs : List Nat) (σ : Lab) (a : Nat) :
    pull (as ++ bs) σ a = if a < as.length then pull as σ a else pull bs σ (a - as.length) := by
  unfold pull
  by_cases h : a < as.length
  · rw [if_pos h, List.getElem?_append_left h]
  · rw [if_neg h, List.getElem?_append_right (Nat.le_of_not_lt h)]

theorem pull_map (f : Nat → Nat) (ls : List Nat) (σ : Lab) :
    pull (ls.map f) σ = pull ls (fun l => σ (f l)) := by
  funext a
  unfold pull
  rw [List.getElem?_map]
  cases ls[a]? <;> rfl

theorem pull_congr {ls : List Nat} {σ τ : Lab} (h : ∀ l ∈ ls, σ l = τ l) : pull ls σ = pull ls τ := by
  funext a
  unfold pull
  cases e : ls[a]? with
  | none => rfl
  | some l => exact h l (List.mem_of_getElem? e)

theorem pull_joinRC_row {ls : List Nat} {n : Nat} (h : ∀ l ∈ ls, l < n) (x y : Lab) :
    pull ls (joinRC n x y) = pull ls x :=
  pull_congr fun l hl => by simp [joinRC, h l hl]

theorem pull_joinRC_col {ls : List Nat} {n : Nat} (h : ∀ l ∈ ls, l < n) (x y : Lab) :
    pull (ls.map (· + n)) (joinRC n x y) = pull ls y := by
  rw [pull_map]
  exact pull_congr fun l hl => by
    have := h l hl
    have h1 : ¬ l + n < n := by omega
    have h2 : l + n < 2 * n := by omega
    simp [joinRC, h1, h2]

/-- the axis order of the controlled density-matrix branch:
row controls, column controls, other row axes, other column axes. -/
def orderDM (cs ncl : List Nat) (n : Nat) : List Nat :=
  cs ++ cs.map (· + n) ++ ncl ++ ncl.map (· + n)

theorem controlOrderDM_eq {cs ts : List Nat} {n : Nat} (hs : cs.Pairwise (· < ·))
    (hhi : ∀ c ∈ cs, c < n) (hlen : cs.length + (nonCtrl cs n).length = n) :
    controlOrderDM cs ts n
      = (orderDM cs (nonCtrl cs n) n, ts.map fun t => t - (cs.filter (· < t)).length) := by
  unfold controlOrderDM orderDM
  rw [controlOrder_eq hs hhi]
  simp only [List.length_append, hlen, List.map_append]
  rw [List.take_left' rfl, List.drop_left' rfl, List.take_left' (List.length_map ..),
    List.drop_left' (List.length_map ..)]

/-- **block form of the transposed index** (what `np.transpose(state, order_dm)` followed by the
reshape to `(2^nc, 2^nc, 2,…,2)` does to a row/column index pair). -/
theorem pull_orderDM {cs ncl : List Nat} {n : Nat} (hc : ∀ c ∈ cs, c < n) (hn : ∀ q ∈ ncl, q < n)
    (x y : Lab) :
    pull (orderDM cs ncl n) (joinRC n x y)
      = blockIdx cs.length (pull cs x) (pull cs y) (joinRC ncl.length (pull ncl x) (pull ncl y)) := by
  funext a
  unfold orderDM
  rw [List.append_assoc, List.append_assoc, pull_append, pull_append, pull_append]
  simp only [List.length_map, pull_joinRC_row hc, pull_joinRC_row hn, pull_joinRC_col hc,
    pull_joinRC_col hn, blockIdx, joinRC]
  by_cases h1 : a < cs.length
  · simp [h1]
  · by_cases h2 : a < 2 * cs.length
    · have : a - cs.length < cs.length := by omega
      simp [h1, h2, this]
    · have h3 : ¬ a - cs.length < cs.length := by omega
      have e : a - cs.length - cs.length = a - 2 * cs.length := by omega
      simp only [h1, h2, h3, if_false, e]
      by_cases h4 : a - 2 * cs.length < ncl.length
      · simp [h4]
      · by_cases h5 : a - 2 * cs.length < 2 * ncl.length
        · simp [h4, h5]
        · simp only [h4, h5, if_false]
          exact pull_ge (by omega) y

theorem orderDM_perm {cs ncl : List Nat} {n : Nat} (hp : (cs ++ ncl).Perm (List.range n)) :
    (orderDM cs ncl n).Perm (List.range (2 * n)) := by
  have h2 : List.range (2 * n) = List.range n ++ (List.range n).map (· + n) := by
    rw [Nat.two_mul, List.range_add]
    congr 1
    apply List.map_congr_left
    intro a _; omega
  rw [h2]
  unfold orderDM
  have h3 : (cs ++ cs.map (· + n) ++ ncl ++ ncl.map (· + n)).Perm
      ((cs ++ ncl) ++ (cs ++ ncl).map (· + n)) := by
    rw [List.map_append]
    simp only [List.append_assoc]
    apply List.Perm.append_left
    rw [← List.append_assoc, ← List.append_assoc]
    exact List.Perm.append_right _ List.perm_append_comm
  exact h3.trans (hp.append (hp.map _))


/-! ### embedding of a block index into the full register -/

/-- multi-index of the transposed state vector: control bits `R`, other bits `r'`. -/
def blk (nc : Nat) (R r' : Lab) : Lab := fun a => if a < nc then R a else r' (a - nc)

theorem shiftUp_eq_blk (nc : Nat) (z : Lab) : shiftUp nc z = blk nc ones z := rfl

theorem pull_push {la : List Nat} (hla : la.Nodup) {y : Lab} (hy : InRange la.length y) :
    pull la (push la y) = y := by
  funext i
  by_cases hi : i < la.length
  · rw [pull_lt hi]
    simp [push, hla.idxOf_getElem i hi]
  · rw [pull_ge (Nat.le_of_not_lt hi), hy i (Nat.le_of_not_lt hi)]

theorem inRange_push {order : List Nat} {n : Nat} (hp : order.Perm (List.range n)) (y : Lab) :
    InRange n (push order y) := by
  intro q hq
  have : q ∉ order := fun h => by have := (perm_mem hp).mp h; omega
  simp [push, this]

theorem inRange_blk {nc na : Nat} (R : Lab) {r' : Lab} (h : InRange na r') :
    InRange (nc + na) (blk nc R r') := by
  intro q hq
  unfold blk
  rw [if_neg (by omega)]
  exact h _ (by omega)

theorem pull_blk {cs ncl : List Nat} {n : Nat} (hp : (cs ++ ncl).Perm (List.range n)) (R : Lab)
    {r' : Lab} (h : InRange ncl.length r') :
    pull (cs ++ ncl) (push (cs ++ ncl) (blk cs.length R r')) = blk cs.length R r' :=
  pull_push (perm_nodup hp) (by rw [List.length_append]; exact inRange_blk R h)

theorem pull_ncl_blk {cs ncl : List Nat} {n : Nat} (hp : (cs ++ ncl).Perm (List.range n)) (R : Lab)
    {r' : Lab} (h : InRange ncl.length r') :
    pull ncl (push (cs ++ ncl) (blk cs.length R r')) = r' := by
  funext b
  have h1 := congrFun (pull_blk hp R h) (cs.length + b)
  rw [pull_append, if_neg (by omega), Nat.add_sub_cancel_left] at h1
  rw [h1, blk, if_neg (by omega), Nat.add_sub_cancel_left]

theorem pull_cs_blk {cs ncl : List Nat} {n : Nat} (hp : (cs ++ ncl).Perm (List.range n)) (R : Lab)
    {r' : Lab} (h : InRange ncl.length r') {a : Nat} (ha : a < cs.length) :
    pull cs (push (cs ++ ncl) (blk cs.length R r')) a = R a := by
  have h1 := congrFun (pull_blk hp R h) a
  rw [pull_append, if_pos ha] at h1
  rw [h1, blk, if_pos ha]

theorem blockIdx_congr {nc : Nat} {R R' C C' : Lab} (hR : ∀ a, a < nc → R a = R' a)
    (hC : ∀ a, a < nc → C a = C' a) (z : Lab) : blockIdx nc R C z = blockIdx nc R' C' z := by
  funext a
  unfold blockIdx
  by_cases h1 : a < nc
  · simp [h1, hR a h1]
  · by_cases h2 : a < 2 * nc
    · simp [h1, h2, hC (a - nc) (by omega)]
    · simp [h1, h2]

section Blocks
variable {α : Type}

/-- **entries of the transposed, block-reshaped density matrix.** -/
theorem st_block {cs ncl : List Nat} {n : Nat} (hp : (cs ++ ncl).Perm (List.range n))
    (ρ : DM α) (R C : Lab) {r' c' : Lab} (hr : InRange ncl.length r') (hc : InRange ncl.length c') :
    transposeT (orderDM cs ncl n) (dmToT n ρ) (blockIdx cs.length R C (joinRC ncl.length r' c'))
      = ρ (push (cs ++ ncl) (blk cs.length R r')) (push (cs ++ ncl) (blk cs.length C c')) := by
  have hcs : ∀ c ∈ cs, c < n := fun c hc => (perm_mem hp).mp (List.mem_append_left _ hc)
  have hncl : ∀ q ∈ ncl, q < n := fun q hq => (perm_mem hp).mp (List.mem_append_right _ hq)
  have hU : blockIdx cs.length R C (joinRC ncl.length r' c')
      = pull (orderDM cs ncl n) (joinRC n (push (cs ++ ncl) (blk cs.length R r'))
          (push (cs ++ ncl) (blk cs.length C c'))) := by
    rw [pull_orderDM hcs hncl, pull_ncl_blk hp R hr, pull_ncl_blk hp C hc]
    exact blockIdx_congr (fun a ha => (pull_cs_blk hp R hr ha).symm)
      (fun a ha => (pull_cs_blk hp C hc ha).symm) _
  unfold transposeT
  rw [hU, push_pull (orderDM_perm hp) (inRange_joinRC n _ _),
    dmToT_joinRC ρ (inRange_push hp _) (inRange_push hp _)]

end Blocks


/-! ### the three updated blocks -/

section Update
variable {α : Type} [CommSemiring α]

theorem applyGate_joinRC_row {n : Nat} {ts : List Nat} (hlt : ∀ t ∈ ts, t < n)
    (M : Nat → Nat → α) (T : Lab → α) (x y : Lab) :
    applyGate ⟨M, ts, []⟩ T (joinRC n x y)
      = applyGate ⟨M, ts, []⟩ (fun x' => T (joinRC n x' y)) x := by
  simp only [applyGate_nil_controls]
  rw [sumOver_joinRC_row hlt, idx_joinRC_row hlt]
  apply sumOver_congr
  intro x' _
  rw [idx_joinRC_row hlt]

theorem applyGate_joinRC_col {n : Nat} {ts : List Nat} (hlt : ∀ t ∈ ts, t < n)
    (M : Nat → Nat → α) (T : Lab → α) (x y : Lab) :
    applyGate ⟨M, ts.map (· + n), []⟩ T (joinRC n x y)
      = applyGate ⟨M, ts, []⟩ (fun y' => T (joinRC n x y')) y := by
  simp only [applyGate_nil_controls]
  rw [sumOver_joinRC_col hlt, idx_joinRC_col hlt]
  apply sumOver_congr
  intro y' _
  rw [idx_joinRC_col hlt]

theorem blk_pull (cs ncl : List Nat) (y : Lab) :
    blk cs.length (pull cs y) (pull ncl y) = pull (cs ++ ncl) y := by
  funext a
  rw [pull_append]
  rfl

variable {cs ncl ts : List Nat} {n : Nat}

/-- block `[N-1, :N-1]` (row controls all 1, column controls not): only the left factor acts. -/
theorem block10 (hp : (cs ++ ncl).Perm (List.range n)) (hts : ts.Nodup)
    (hsub : ∀ t ∈ ts, t ∈ ncl) (M : Nat → Nat → α) (ρ : DM α) {x y : Lab} (hx : InRange n x)
    (hy : InRange n y) (hcx : Lab.allOne cs x = true) :
    applyGate ⟨M, ts.map (fun t => ncl.idxOf t), []⟩
        (fun z' => transposeT (orderDM cs ncl n) (dmToT n ρ)
          (blockIdx cs.length ones (pull cs y) z'))
        (joinRC ncl.length (pull ncl x) (pull ncl y))
      = applyGate ⟨M, ts, cs⟩ (fun r => ρ r y) x := by
  have htl : ∀ t ∈ ts.map (fun t => ncl.idxOf t), t < ncl.length := fun t ht => by
    obtain ⟨a, ha, rfl⟩ := List.mem_map.mp ht
    exact List.idxOf_lt_length_of_mem (hsub a ha)
  rw [applyGate_joinRC_row htl, ← controlled_core hp hts hsub M (fun r => ρ r y) x hx hcx]
  apply applyGate_congr_inRange ncl.length _ htl _ (inRange_pull ncl x)
  intro x'' hx''
  rw [st_block hp ρ ones (pull cs y) hx'' (inRange_pull ncl y), blk_pull, push_pull hp hy]
  rfl

/-- block `[:N-1, N-1]` (column controls all 1, row controls not): only the right factor acts. -/
theorem block01 (hp : (cs ++ ncl).Perm (List.range n)) (hts : ts.Nodup)
    (hsub : ∀ t ∈ ts, t ∈ ncl) (M : Nat → Nat → α) (ρ : DM α) {x y : Lab} (hx : InRange n x)
    (hy : InRange n y) (hcy : Lab.allOne cs y = true) :
    applyGate ⟨M, (ts.map (fun t => ncl.idxOf t)).map (· + ncl.length), []⟩
        (fun z' => transposeT (orderDM cs ncl n) (dmToT n ρ)
          (blockIdx cs.length (pull cs x) ones z'))
        (joinRC ncl.length (pull ncl x) (pull ncl y))
      = applyGate ⟨M, ts, cs⟩ (fun c => ρ x c) y := by
  have htl : ∀ t ∈ ts.map (fun t => ncl.idxOf t), t < ncl.length := fun t ht => by
    obtain ⟨a, ha, rfl⟩ := List.mem_map.mp ht
    exact List.idxOf_lt_length_of_mem (hsub a ha)
  rw [applyGate_joinRC_col htl, ← controlled_core hp hts hsub M (fun c => ρ x c) y hy hcy]
  apply applyGate_congr_inRange ncl.length _ htl _ (inRange_pull ncl y)
  intro y'' hy''
  rw [st_block hp ρ (pull cs x) ones (inRange_pull ncl x) hy'', blk_pull, push_pull hp hx]
  rfl

/-- block `[N-1, N-1]`: both factors act. -/
theorem block11 (conj : α → α) (hp : (cs ++ ncl).Perm (List.range n)) (hts : ts.Nodup)
    (hsub : ∀ t ∈ ts, t ∈ ncl) (M : Nat → Nat → α) (ρ : DM α) {x y : Lab} (hx : InRange n x)
    (hy : InRange n y) (hcx : Lab.allOne cs x = true) (hcy : Lab.allOne cs y = true) :
    applyGateDM conj ⟨M, ts.map (fun t => ncl.idxOf t), []⟩
        (tToDM ncl.length fun z => transposeT (orderDM cs ncl n) (dmToT n ρ)
          (blockIdx cs.length ones ones z))
        (pull ncl x) (pull ncl y)
      = applyGateDM conj ⟨M, ts, cs⟩ ρ x y := by
  have htl : ∀ t ∈ ts.map (fun t => ncl.idxOf t), t < ncl.length := fun t ht => by
    obtain ⟨a, ha, rfl⟩ := List.mem_map.mp ht
    exact List.idxOf_lt_length_of_mem (hsub a ha)
  unfold applyGateDM applyLeft applyRight
  simp only
  rw [← controlled_core hp hts hsub M _ x hx hcx]
  apply applyGate_congr_inRange ncl.length _ htl _ (inRange_pull ncl x)
  intro x'' hx''
  show _ = applyGate ⟨fun i j => conj (M i j), ts, cs⟩
    (fun c => ρ (push (cs ++ ncl) (shiftUp cs.length x'')) c) y
  rw [← controlled_core hp hts hsub (fun i j => conj (M i j)) _ y hy hcy]
  apply applyGate_congr_inRange ncl.length _ htl _ (inRange_pull ncl y)
  intro y'' hy''
  show transposeT _ _ (blockIdx cs.length ones ones (joinRC ncl.length x'' y'')) = _
  rw [st_block hp ρ ones ones hx'' hy'']
  rfl

end Update


/-! ### strings of the controlled branch, batch einsum -/

theorem rename_lt {ts : List Nat} {n l : Nat} (hl : l < n) :
    rename ts (List.range' n ts.length) l < n + ts.length := by
  by_cases hm : l ∈ ts
  · have := rename_mem_fresh (fresh := List.range' n ts.length) hm (List.length_range' ..)
    have := (List.mem_range'_1.mp this).2
    omega
  · rw [rename_of_not_mem hm]; omega

theorem applyGateDMControlledString_eq {ts : List Nat} {n : Nat} (hts : ts.Nodup)
    (hlt : ∀ t ∈ ts, t < n) (hg : 2 * n + ts.length + 1 ≤ EINSUM_LEN) :
    applyGateDMControlledString ts n = some
      (⟨(n + ts.length + n) :: (List.range n ++ List.range' (n + ts.length) n),
        List.range' n ts.length ++ ts,
        (n + ts.length + n) :: ((List.range n).map (rename ts (List.range' n ts.length))
          ++ List.range' (n + ts.length) n)⟩,
       ⟨(n + ts.length + n) :: (List.range' (n + ts.length) n ++ List.range n),
        List.range' n ts.length ++ ts,
        (n + ts.length + n) :: (List.range' (n + ts.length) n
          ++ (List.range n).map (rename ts (List.range' n ts.length)))⟩) := by
  unfold applyGateDMControlledString
  rw [prepareStrings_eq hts hlt (by omega)]
  simp only [List.length_range']
  rw [if_neg (by omega), take_range'_le (by omega)]
  have : (List.range' (n + ts.length) (EINSUM_LEN - (n + ts.length))).getD n 0
      = n + ts.length + n := by
    rw [List.getD_eq_getElem?_getD, List.getElem?_range' (by omega)]
    simp
  rw [this]

section Batch
variable {α : Type} [CommSemiring α]

theorem einsumBatch_cons {c : Nat} {a' b o' : List Nat} (h1 : c ∉ a') (h2 : c ∉ o') (h3 : c ∉ b)
    (A : Lab → Lab → α) (B : Lab → α) (r z : Lab) :
    einsumBatch ⟨c :: a', b, c :: o'⟩ A B r z = einsum ⟨a', b, o'⟩ (A r) B z := by
  simp [einsumBatch, h1, h2, h3]

theorem einsum_left_eq {ts : List Nat} {n : Nat} (hts : ts.Nodup) (hlt : ∀ t ∈ ts, t < n)
    (M : Nat → Nat → α) (A : Lab → α) {w : Lab} (hw : InRange (2 * n) w) :
    einsum ⟨List.range n ++ List.range' (n + ts.length) n, List.range' n ts.length ++ ts,
        (List.range n).map (rename ts (List.range' n ts.length)) ++ List.range' (n + ts.length) n⟩
      A (matT ts.length M) w
    = applyGate ⟨M, ts, []⟩ A w := by
  have hnd : (List.range' (n + ts.length) n).Nodup := List.nodup_range' ..
  have hge : ∀ l ∈ List.range' (n + ts.length) n, n + ts.length ≤ l := fun l hl =>
    (List.mem_range'_1.mp hl).1
  have := einsum_prepared (pre := []) (suf := List.range' (n + ts.length) n) hts hlt
    (by simpa using hnd) (by simpa using hge) A M w (by simpa [Nat.two_mul] using hw)
  simpa using this

theorem einsum_right_eq {ts : List Nat} {n : Nat} (hts : ts.Nodup) (hlt : ∀ t ∈ ts, t < n)
    (M : Nat → Nat → α) (A : Lab → α) {w : Lab} (hw : InRange (2 * n) w) :
    einsum ⟨List.range' (n + ts.length) n ++ List.range n, List.range' n ts.length ++ ts,
        List.range' (n + ts.length) n ++ (List.range n).map (rename ts (List.range' n ts.length))⟩
      A (matT ts.length M) w
    = applyGate ⟨M, ts.map (· + n), []⟩ A w := by
  have hnd : (List.range' (n + ts.length) n).Nodup := List.nodup_range' ..
  have hge : ∀ l ∈ List.range' (n + ts.length) n, n + ts.length ≤ l := fun l hl =>
    (List.mem_range'_1.mp hl).1
  have := einsum_prepared (pre := List.range' (n + ts.length) n) (suf := []) hts hlt
    (by simpa using hnd) (by simpa using hge) A M w (by simpa [Nat.two_mul] using hw)
  simpa using this

/-- the batch einsums of the controlled strings. -/
theorem einsumBatch_left {ts : List Nat} {n : Nat} (hts : ts.Nodup) (hlt : ∀ t ∈ ts, t < n)
    (M : Nat → Nat → α) (A : Lab → Lab → α) (r : Lab) {w : Lab} (hw : InRange (2 * n) w) :
    einsumBatch ⟨(n + ts.length + n) :: (List.range n ++ List.range' (n + ts.length) n),
        List.range' n ts.length ++ ts,
        (n + ts.length + n) :: ((List.range n).map (rename ts (List.range' n ts.length))
          ++ List.range' (n + ts.length) n)⟩ A (matT ts.length M) r w
      = applyGate ⟨M, ts, []⟩ (A r) w := by
  rw [einsumBatch_cons, einsum_left_eq hts hlt M _ hw]
  · simp only [List.mem_append, List.mem_range, List.mem_range'_1]; omega
  · simp only [List.mem_append, List.mem_map, List.mem_range, List.mem_range'_1]
    rintro (⟨l, hl, e⟩ | h)
    · have := rename_lt (ts := ts) hl; omega
    · omega
  · simp only [List.mem_append, List.mem_range'_1]
    rintro (h | h)
    · omega
    · have := hlt _ h; omega

theorem einsumBatch_right {ts : List Nat} {n : Nat} (hts : ts.Nodup) (hlt : ∀ t ∈ ts, t < n)
    (M : Nat → Nat → α) (A : Lab → Lab → α) (r : Lab) {w : Lab} (hw : InRange (2 * n) w) :
    einsumBatch ⟨(n + ts.length + n) :: (List.range' (n + ts.length) n ++ List.range n),
        List.range' n ts.length ++ ts,
        (n + ts.length + n) :: (List.range' (n + ts.length) n
          ++ (List.range n).map (rename ts (List.range' n ts.length)))⟩ A (matT ts.length M) r w
      = applyGate ⟨M, ts.map (· + n), []⟩ (A r) w := by
  rw [einsumBatch_cons, einsum_right_eq hts hlt M _ hw]
  · simp only [List.mem_append, List.mem_range, List.mem_range'_1]; omega
  · simp only [List.mem_append, List.mem_map, List.mem_range, List.mem_range'_1]
    rintro (h | ⟨l, hl, e⟩)
    · omega
    · have := rename_lt (ts := ts) hl; omega
  · simp only [List.mem_append, List.mem_range'_1]
    rintro (h | h)
    · omega
    · have := hlt _ h; omega

end Batch

/-! ### reading the blocks of the re-assembled tensor -/

theorem all_range_congr {nc : Nat} {f g : Lab} (h : ∀ a, a < nc → f a = g a) :
    (List.range nc).all f = (List.range nc).all g := by
  rw [Bool.eq_iff_iff, List.all_eq_true, List.all_eq_true]
  constructor
  · intro hf a ha; rw [← h a (List.mem_range.mp ha)]; exact hf a ha
  · intro hg a ha; rw [h a (List.mem_range.mp ha)]; exact hg a ha

theorem all_blockIdx_row (nc : Nat) (R C z : Lab) :
    (List.range nc).all (blockIdx nc R C z) = (List.range nc).all R :=
  all_range_congr fun a ha => by simp [blockIdx, ha]

theorem all_blockIdx_col (nc : Nat) (R C z : Lab) :
    (List.range nc).all (shiftDown nc (blockIdx nc R C z)) = (List.range nc).all C :=
  all_range_congr fun a ha => by
    have h1 : ¬ a + nc < nc := by omega
    have h2 : a + nc < 2 * nc := by omega
    simp [blockIdx, shiftDown, h1, h2]

theorem shiftDown_blockIdx_col {nc a : Nat} (ha : a < nc) (R C z : Lab) :
    shiftDown nc (blockIdx nc R C z) a = C a := by
  have h1 : ¬ a + nc < nc := by omega
  have h2 : a + nc < 2 * nc := by omega
  simp [blockIdx, shiftDown, h1, h2]

theorem blockIdx_row {nc a : Nat} (ha : a < nc) (R C z : Lab) : blockIdx nc R C z a = R a := by
  simp [blockIdx, ha]

theorem shiftDown_blockIdx (nc : Nat) (R C z : Lab) :
    shiftDown (2 * nc) (blockIdx nc R C z) = z := by
  funext a
  have h1 : ¬ a + 2 * nc < nc := by omega
  have h2 : ¬ a + 2 * nc < 2 * nc := by omega
  simp [blockIdx, shiftDown, h1, h2]

theorem all_range_pull' (cs : List Nat) (x : Lab) :
    (List.range cs.length).all (pull cs x) = Lab.allOne cs x := by
  have := all_range_pull cs [] x
  simpa using this


/-! ### the whole controlled branch -/

section Main
variable {α : Type} [CommSemiring α]

theorem applyGateDM_congr_controls (conj : α → α) (M : Nat → Nat → α) (ts : List Nat)
    {cs cs' : List Nat} (h : cs'.Perm cs) (ρ : DM α) :
    applyGateDM conj ⟨M, ts, cs'⟩ ρ = applyGateDM conj ⟨M, ts, cs⟩ ρ := by
  have hall : ∀ x, Lab.allOne cs' x = Lab.allOne cs x := fun x => h.all_eq
  funext x y
  unfold applyGateDM applyLeft applyRight applyGate
  simp only [hall]

/-- **`apply_gate_density_matrix`, `controlled_by` branch (4-block update), refines
`applyGateDM`.** -/
theorem applyGateDMT_controlled (conj : α → α) (n : Nat) (g : MGate α) (hne : g.controls ≠ [])
    (hts : g.targets.Nodup) (hlt : ∀ t ∈ g.targets, t < n) (hcn : g.controls.Nodup)
    (hcl : ∀ c ∈ g.controls, c < n) (hd : ∀ c ∈ g.controls, c ∉ g.targets)
    (hg : 2 * (n - g.controls.length) + g.targets.length + 1 ≤ EINSUM_LEN) (ρ : DM α) :
    ∃ f, applyGateDMT conj n g ρ = some f ∧
      ∀ x y, InRange n x → InRange n y → f x y = applyGateDM conj g ρ x y := by
  obtain ⟨M, ts, cs⟩ := g
  simp only at hne hts hlt hcn hcl hd hg
  have he : cs.isEmpty = false := by
    cases cs with
    | nil => exact absurd rfl hne
    | cons a as => rfl
  have hperm := sortedControls_perm cs
  have hpw := sortedControls_pairwise hcn
  have hhi : ∀ c ∈ sortedControls cs, c < n := fun c hc => hcl c (hperm.mem_iff.mp hc)
  have hdis : ∀ t ∈ ts, t ∉ sortedControls cs := fun t ht hc => hd t (hperm.mem_iff.mp hc) ht
  have hsnd : (sortedControls cs).Nodup := hperm.nodup_iff.mpr hcn
  have hop := order_perm hsnd hhi
  have hncl : ∀ q ∈ nonCtrl (sortedControls cs) n, q < n := fun q hq => (mem_nonCtrl.mp hq).1
  have hsub : ∀ t ∈ ts, t ∈ nonCtrl (sortedControls cs) n := fun t ht =>
    mem_nonCtrl.mpr ⟨hlt t ht, hdis t ht⟩
  have hlen : (sortedControls cs).length + (nonCtrl (sortedControls cs) n).length = n := by
    have := perm_len hop; simpa using this
  have hna : n - (sortedControls cs).length = (nonCtrl (sortedControls cs) n).length := by omega
  have hcl' : (sortedControls cs).length = cs.length := hperm.length_eq
  have htgt : (ts.map fun t => t - ((sortedControls cs).filter (· < t)).length)
      = ts.map fun t => (nonCtrl (sortedControls cs) n).idxOf t := by
    have := controlOrder_targets (ts := ts) hpw hhi hlt hdis
    rwa [controlOrder_eq hpw hhi] at this
  have htp : (ts.map fun t => (nonCtrl (sortedControls cs) n).idxOf t).Nodup :=
    hts.map_on fun a ha b hb h => idxOf_injOn (hsub a ha) (hsub b hb) h
  have htlt : ∀ t ∈ ts.map (fun t => (nonCtrl (sortedControls cs) n).idxOf t),
      t < (nonCtrl (sortedControls cs) n).length := by
    intro t ht
    obtain ⟨a, ha, rfl⟩ := List.mem_map.mp ht
    exact List.idxOf_lt_length_of_mem (hsub a ha)
  have hg' : 2 * (nonCtrl (sortedControls cs) n).length
      + (ts.map fun t => (nonCtrl (sortedControls cs) n).idxOf t).length + 1 ≤ EINSUM_LEN := by
    rw [List.length_map, ← hna, hcl']; exact hg
  obtain ⟨lr, elr, rlr⟩ := leftRight_eq conj htp htlt (by omega) M
    (fun z => transposeT (orderDM (sortedControls cs) (nonCtrl (sortedControls cs) n) n) (dmToT n ρ)
      (blockIdx (sortedControls cs).length ones ones z))
  rw [List.length_map] at rlr
  unfold applyGateDMT
  simp only [he, Bool.false_eq_true, if_false]
  rw [controlOrderDM_eq hpw hhi hlen]
  simp only
  rw [htgt, hna, applyGateDMControlledString_eq htp htlt hg', elr]
  simp only
  refine ⟨_, rfl, fun x y hx hy => ?_⟩
  rw [← applyGateDM_congr_controls conj M ts hperm ρ]
  simp only [tToDM]
  rw [show ∀ (o : List Nat) (T : Lab → α) (w : Lab),
    transposeT (reverseOrder o) T w = T (push (reverseOrder o) w) from fun _ _ _ => rfl]
  rw [push_reverseOrder (orderDM_perm hop), pull_orderDM hhi hncl]
  simp only [all_blockIdx_row, all_blockIdx_col, shiftDown_blockIdx, all_range_pull',
    List.length_map]
  have hw := inRange_joinRC (nonCtrl (sortedControls cs) n).length
    (pull (nonCtrl (sortedControls cs) n) x) (pull (nonCtrl (sortedControls cs) n) y)
  by_cases hcx : Lab.allOne (sortedControls cs) x = true
  · by_cases hcy : Lab.allOne (sortedControls cs) y = true
    · simp only [hcx, hcy, if_true]
      rw [rlr, block11 conj hop hts hsub M ρ hx hy hcx hcy]
    · simp only [hcx, hcy, if_true, Bool.false_eq_true, if_false]
      have hcy' : Lab.allOne (sortedControls cs) y = false := by simpa using hcy
      have hR : applyGateDM conj ⟨M, ts, sortedControls cs⟩ ρ x y
          = applyGate ⟨M, ts, sortedControls cs⟩ (fun r => ρ r y) x := by
        unfold applyGateDM applyLeft applyRight
        congr 1
        funext r
        exact applyGate_of_controls_off _ _ hcy'
      have h10 := einsumBatch_left htp htlt M
        (fun c z => transposeT (orderDM (sortedControls cs) (nonCtrl (sortedControls cs) n) n)
          (dmToT n ρ) (blockIdx (sortedControls cs).length ones c z))
        (shiftDown (sortedControls cs).length
          (blockIdx (sortedControls cs).length (pull (sortedControls cs) x)
            (pull (sortedControls cs) y)
            (joinRC (nonCtrl (sortedControls cs) n).length (pull (nonCtrl (sortedControls cs) n) x)
              (pull (nonCtrl (sortedControls cs) n) y)))) hw
      rw [List.length_map] at h10
      rw [h10, hR, ← block10 hop hts hsub M ρ hx hy hcx]
      congr 1
      funext z'
      rw [blockIdx_congr (fun _ _ => rfl) (fun a ha => shiftDown_blockIdx_col ha _ _ _)]
  · have hcx' : Lab.allOne (sortedControls cs) x = false := by simpa using hcx
    by_cases hcy : Lab.allOne (sortedControls cs) y = true
    · simp only [hcx, hcy, if_true, Bool.false_eq_true, if_false]
      have hR : applyGateDM conj ⟨M, ts, sortedControls cs⟩ ρ x y
          = applyGate ⟨fun i j => conj (M i j), ts, sortedControls cs⟩ (fun c => ρ x c) y := by
        unfold applyGateDM applyLeft
        rw [applyGate_of_controls_off _ _ hcx']
        rfl
      have h01 := einsumBatch_right htp htlt (fun i j => conj (M i j))
        (fun r z => transposeT (orderDM (sortedControls cs) (nonCtrl (sortedControls cs) n) n)
          (dmToT n ρ) (blockIdx (sortedControls cs).length r ones z))
        (blockIdx (sortedControls cs).length (pull (sortedControls cs) x)
            (pull (sortedControls cs) y)
            (joinRC (nonCtrl (sortedControls cs) n).length (pull (nonCtrl (sortedControls cs) n) x)
              (pull (nonCtrl (sortedControls cs) n) y))) hw
      rw [List.length_map] at h01
      rw [show (fun w => conj (matT ts.length M w)) = matT ts.length (fun i j => conj (M i j))
        from rfl, h01, hR, ← block01 hop hts hsub (fun i j => conj (M i j)) ρ hx hy hcy]
      congr 1
      funext z'
      rw [blockIdx_congr (fun a ha => blockIdx_row ha _ _ _) (fun _ _ => rfl)]
    · have hcy' : Lab.allOne (sortedControls cs) y = false := by simpa using hcy
      simp only [hcx, hcy, Bool.false_eq_true, if_false]
      have hR : applyGateDM conj ⟨M, ts, sortedControls cs⟩ ρ x y = ρ x y := by
        unfold applyGateDM applyLeft
        rw [applyGate_of_controls_off _ _ hcx']
        unfold applyRight
        exact applyGate_of_controls_off _ _ hcy'
      rw [hR, ← pull_orderDM hhi hncl]
      show dmToT n ρ (push _ (pull _ _)) = _
      rw [push_pull (orderDM_perm hop) (inRange_joinRC n x y), dmToT_joinRC ρ hx hy]


/-- the guard of `apply_gate_density_matrix`: labels for `2·nactive` state axes, the fresh
target labels and, in the `controlled_by` branch, the batch label. -/
def DMGateOK (n : Nat) (g : MGate α) : Prop :=
  g.targets.Nodup ∧ (∀ t ∈ g.targets, t < n) ∧ g.controls.Nodup ∧ (∀ c ∈ g.controls, c < n) ∧
    (∀ c ∈ g.controls, c ∉ g.targets) ∧
    2 * (n - g.controls.length) + g.targets.length + (if g.controls.isEmpty then 0 else 1)
      ≤ EINSUM_LEN

/-- **`apply_gate_density_matrix` refines `applyGateDM`** (both branches). -/
theorem applyGateDMT_refines (conj : α → α) (n : Nat) (g : MGate α) (hok : DMGateOK n g)
    (ρ : DM α) :
    ∃ f, applyGateDMT conj n g ρ = some f ∧
      ∀ x y, InRange n x → InRange n y → f x y = applyGateDM conj g ρ x y := by
  obtain ⟨h1, h2, h3, h4, h5, h6⟩ := hok
  by_cases he : g.controls = []
  · exact applyGateDMT_plain conj n g he h1 h2 (by simpa [he] using h6) ρ
  · have : g.controls.isEmpty = false := by
      cases hc : g.controls with
      | nil => exact absurd hc he
      | cons a as => rfl
    exact applyGateDMT_controlled conj n g he h1 h2 h3 h4 h5 (by simpa [this] using h6) ρ

theorem applyGateDMControlledString_none {ts : List Nat} {n : Nat} (hts : ts.Nodup)
    (hlt : ∀ t ∈ ts, t < n) (hg : EINSUM_LEN < 2 * n + ts.length + 1) :
    applyGateDMControlledString ts n = none := by
  unfold applyGateDMControlledString
  by_cases h : n + ts.length ≤ EINSUM_LEN
  · rw [prepareStrings_eq hts hlt h]
    simp only [List.length_range']
    rw [if_pos (by omega)]
  · rw [prepareStrings_none (by omega)]

/-- the call raises when the einsum alphabet does not suffice. -/
theorem applyGateDMT_raises (conj : α → α) (n : Nat) (g : MGate α) (hts : g.targets.Nodup)
    (hlt : ∀ t ∈ g.targets, t < n) (hcn : g.controls.Nodup) (hcl : ∀ c ∈ g.controls, c < n)
    (hd : ∀ c ∈ g.controls, c ∉ g.targets)
    (hg : EINSUM_LEN < 2 * (n - g.controls.length) + g.targets.length
      + (if g.controls.isEmpty then 0 else 1)) (ρ : DM α) :
    applyGateDMT conj n g ρ = none := by
  obtain ⟨M, ts, cs⟩ := g
  simp only at hts hlt hcn hcl hd hg
  unfold applyGateDMT
  by_cases he : cs.isEmpty
  · have hc0 : cs = [] := List.isEmpty_iff.mp he
    subst hc0
    simp only [List.isEmpty_nil, if_true]
    rw [applyGateDMString_none hts hlt (by simpa using hg)]
    rfl
  · have he' : cs.isEmpty = false := by simpa using he
    have hperm := sortedControls_perm cs
    have hpw := sortedControls_pairwise hcn
    have hhi : ∀ c ∈ sortedControls cs, c < n := fun c hc => hcl c (hperm.mem_iff.mp hc)
    have hdis : ∀ t ∈ ts, t ∉ sortedControls cs := fun t ht hc => hd t (hperm.mem_iff.mp hc) ht
    have hsnd : (sortedControls cs).Nodup := hperm.nodup_iff.mpr hcn
    have hop := order_perm hsnd hhi
    have hsub : ∀ t ∈ ts, t ∈ nonCtrl (sortedControls cs) n := fun t ht =>
      mem_nonCtrl.mpr ⟨hlt t ht, hdis t ht⟩
    have hlen : (sortedControls cs).length + (nonCtrl (sortedControls cs) n).length = n := by
      have := perm_len hop; simpa using this
    have hna : n - (sortedControls cs).length = (nonCtrl (sortedControls cs) n).length := by omega
    have hcl' : (sortedControls cs).length = cs.length := hperm.length_eq
    have htgt : (ts.map fun t => t - ((sortedControls cs).filter (· < t)).length)
        = ts.map fun t => (nonCtrl (sortedControls cs) n).idxOf t := by
      have := controlOrder_targets (ts := ts) hpw hhi hlt hdis
      rwa [controlOrder_eq hpw hhi] at this
    have htp : (ts.map fun t => (nonCtrl (sortedControls cs) n).idxOf t).Nodup :=
      hts.map_on fun a ha b hb h => idxOf_injOn (hsub a ha) (hsub b hb) h
    have htlt : ∀ t ∈ ts.map (fun t => (nonCtrl (sortedControls cs) n).idxOf t),
        t < (nonCtrl (sortedControls cs) n).length := by
      intro t ht
      obtain ⟨a, ha, rfl⟩ := List.mem_map.mp ht
      exact List.idxOf_lt_length_of_mem (hsub a ha)
    simp only [he', Bool.false_eq_true, if_false]
    rw [controlOrderDM_eq hpw hhi hlen]
    simp only
    rw [htgt, hna, applyGateDMControlledString_none htp htlt
      (by rw [List.length_map, ← hna, hcl']; simpa [he'] using hg)]

theorem runCircuitDM_congr_inRange (conj : α → α) (n : Nat) (gs : List (MGate α))
    (hlt : ∀ g ∈ gs, ∀ t ∈ g.targets, t < n) {ρ σ : DM α}
    (h : ∀ x y, InRange n x → InRange n y → ρ x y = σ x y) {x y : Lab} (hx : InRange n x)
    (hy : InRange n y) : runCircuitDM conj gs ρ x y = runCircuitDM conj gs σ x y := by
  induction gs generalizing ρ σ x y with
  | nil => exact h x y hx hy
  | cons g gs ih =>
    rw [runCircuitDM_cons, runCircuitDM_cons]
    exact ih (fun g' hg' => hlt g' (List.mem_cons_of_mem _ hg'))
      (fun x' y' hx' hy' =>
        applyGateDM_congr_inRange conj n g (hlt g (List.mem_cons_self ..)) h hx' hy') hx hy

theorem runDMT_cons (conj : α → α) (n : Nat) (g : MGate α) (gs : List (MGate α)) (ρ : DM α) :
    runDMT conj n (g :: gs) ρ = (applyGateDMT conj n g ρ).bind (runDMT conj n gs) := by
  have hnone : ∀ l : List (MGate α),
      l.foldl (fun s g => s.bind (applyGateDMT conj n g)) (none : Option (DM α)) = none := by
    intro l
    induction l with
    | nil => rfl
    | cons a as ih => rw [List.foldl_cons]; exact ih
  unfold runDMT
  rw [List.foldl_cons, Option.bind_some]
  generalize applyGateDMT conj n g ρ = o
  cases o with
  | some f => rfl
  | none => exact hnone gs

theorem runDMT_refines (conj : α → α) (n : Nat) (gs : List (MGate α))
    (hok : ∀ g ∈ gs, DMGateOK n g) (ρ : DM α) :
    ∃ f, runDMT conj n gs ρ = some f ∧
      ∀ x y, InRange n x → InRange n y → f x y = runCircuitDM conj gs ρ x y := by
  induction gs generalizing ρ with
  | nil => exact ⟨ρ, rfl, fun _ _ _ _ => rfl⟩
  | cons g gs ih =>
    obtain ⟨f1, e1, r1⟩ := applyGateDMT_refines conj n g (hok g (List.mem_cons_self ..)) ρ
    obtain ⟨f, e, r⟩ := ih (fun g' hg' => hok g' (List.mem_cons_of_mem _ hg')) f1
    refine ⟨f, by rw [runDMT_cons, e1]; exact e, fun x y hx hy => ?_⟩
    rw [r x y hx hy, runCircuitDM_cons]
    exact runCircuitDM_congr_inRange conj n gs
      (fun g' hg' => (hok g' (List.mem_cons_of_mem _ hg')).2.1) r1 hx hy

end Main

end QV.Einsum
