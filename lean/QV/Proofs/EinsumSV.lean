/-
  QV.Proofs.EinsumSV — the transliterated `NumpyBackend.apply_gate` (QV/Model/Einsum.lean,
  `applyGateSV`) refines the effect model `applyGate` of QV/Model/Sim.lean, with and without
  controls.
-/
import Mathlib.Data.List.Nodup
import Mathlib.Data.List.Perm.Basic
import Mathlib.Data.List.Range
import QV.Proofs.EinsumOrder

namespace QV.Einsum
open QV Finset

/-! ### transposes: `push` / `pull` along a permutation of the axes -/

theorem perm_mem {order : List Nat} {n : Nat} (hp : order.Perm (List.range n)) {q : Nat} :
    q ∈ order ↔ q < n := by rw [hp.mem_iff, List.mem_range]

theorem perm_len {order : List Nat} {n : Nat} (hp : order.Perm (List.range n)) :
    order.length = n := by rw [hp.length_eq, List.length_range]

theorem perm_nodup {order : List Nat} {n : Nat} (hp : order.Perm (List.range n)) : order.Nodup :=
  hp.nodup_iff.mpr List.nodup_range

theorem inRange_pull (ls : List Nat) (x : Lab) : InRange ls.length (pull ls x) :=
  fun _ hq => pull_ge hq x

/-- `reverse_order(order)` as a list: position of each axis in `order`. -/
theorem reverseOrder_eq {order : List Nat} {n : Nat} (hp : order.Perm (List.range n)) :
    reverseOrder order = (List.range n).map fun r => order.idxOf r := by
  apply List.ext_getElem?
  intro r
  rw [reverseOrder_getElem? (perm_nodup hp), List.getElem?_map, perm_len hp]
  by_cases hr : r < n
  · simp [perm_mem hp, hr]
  · have h1 : (List.range n)[r]? = none := List.getElem?_eq_none (by simpa using Nat.le_of_not_lt hr)
    simp [perm_mem hp, hr]

/-- **the inverse transpose undoes the transpose** (index form). -/
theorem push_reverseOrder {order : List Nat} {n : Nat} (hp : order.Perm (List.range n)) (x : Lab) :
    push (reverseOrder order) x = pull order x := by
  have hnd := perm_nodup hp
  have hlen := perm_len hp
  have hro := reverseOrder_eq hp
  have hrnd : (reverseOrder order).Nodup := by
    rw [hro]
    exact List.nodup_range.map_on fun a ha b hb h =>
      idxOf_injOn ((perm_mem hp).mpr (List.mem_range.mp ha)) ((perm_mem hp).mpr (List.mem_range.mp hb)) h
  funext q
  by_cases hq : q < n
  · have hq' : q < order.length := by rw [hlen]; exact hq
    rw [pull_lt hq']
    have hr : order[q] < n := (perm_mem hp).mp (List.getElem_mem hq')
    have hr' : order[q] < (reverseOrder order).length := by rw [length_reverseOrder, hlen]; exact hr
    have hget : (reverseOrder order)[order[q]] = q := by
      have h1 : (reverseOrder order)[order[q]]? = some q := by
        rw [hro, List.getElem?_map, List.getElem?_range hr]
        simp [hnd.idxOf_getElem q hq']
      rw [List.getElem?_eq_getElem hr'] at h1
      exact Option.some.inj h1
    have hmem : q ∈ reverseOrder order := hget ▸ List.getElem_mem hr'
    have hidx : (reverseOrder order).idxOf q = order[q] := by
      conv_lhs => rw [← hget]
      exact hrnd.idxOf_getElem _ hr'
    simp [push, hmem, hidx]
  · have hq' : order.length ≤ q := by rw [hlen]; exact Nat.le_of_not_lt hq
    rw [pull_ge hq']
    have : q ∉ reverseOrder order := by
      rw [hro]
      intro hm
      obtain ⟨r, hr, e⟩ := List.mem_map.mp hm
      have := List.idxOf_lt_length_of_mem ((perm_mem hp).mpr (List.mem_range.mp hr))
      omega
    simp [push, this]

theorem push_pull {order : List Nat} {n : Nat} (hp : order.Perm (List.range n)) {x : Lab}
    (hx : InRange n x) : push order (pull order x) = x := by
  funext q
  by_cases hq : q ∈ order
  · have hi := List.idxOf_lt_length_of_mem hq
    simp [push, hq, pull_lt hi]
  · have : n ≤ q := Nat.le_of_not_lt fun h => hq ((perm_mem hp).mpr h)
    simp [push, hq, hx q this]

theorem all_range_pull (cs ncl : List Nat) (x : Lab) :
    (List.range cs.length).all (pull (cs ++ ncl) x) = Lab.allOne cs x := by
  unfold Lab.allOne
  rw [Bool.eq_iff_iff, List.all_eq_true, List.all_eq_true]
  constructor
  · intro h c hc
    obtain ⟨i, hi, rfl⟩ := List.mem_iff_getElem.mp hc
    have := h i (List.mem_range.mpr hi)
    rwa [pull_lt (by simp; omega), List.getElem_append_left hi] at this
  · intro h i hi
    have hi' := List.mem_range.mp hi
    rw [pull_lt (by simp; omega), List.getElem_append_left hi']
    exact h _ (List.getElem_mem hi')

theorem shiftDown_pull (cs ncl : List Nat) (x : Lab) :
    shiftDown cs.length (pull (cs ++ ncl) x) = pull ncl x := by
  funext b
  simp only [shiftDown, pull]
  rw [List.getElem?_append_right (by omega)]
  simp

section Core
variable {α : Type} [CommSemiring α]

/-- **the controlled branch, core.**  On a label with all controls 1, acting on the slice `[-1]`
of the transposed state at the ranks of the targets among the non-controls is the controlled gate
on the original axes. -/
theorem controlled_core {cs ncl ts : List Nat} {n : Nat} (hp : (cs ++ ncl).Perm (List.range n))
    (hts : ts.Nodup) (hsub : ∀ t ∈ ts, t ∈ ncl) (M : Nat → Nat → α) (ψ : Lab → α) (x : Lab)
    (hx : InRange n x) (hc : Lab.allOne cs x = true) :
    applyGate ⟨M, ts.map (fun t => ncl.idxOf t), []⟩
        (sliceLast cs.length (transposeT (cs ++ ncl) ψ)) (pull ncl x)
      = applyGate ⟨M, ts, cs⟩ ψ x := by
  have hnd := perm_nodup hp
  have hndn : ncl.Nodup := (List.nodup_append.mp hnd).2.1
  have hdisj : ∀ a ∈ cs, ∀ b ∈ ncl, a ≠ b := (List.nodup_append.mp hnd).2.2
  have htp : (ts.map fun t => ncl.idxOf t).Nodup :=
    hts.map_on fun a ha b hb h => idxOf_injOn (hsub a ha) (hsub b hb) h
  have hpull : ∀ q ∈ ncl, pull ncl x (ncl.idxOf q) = x q := fun q hq => by
    rw [pull_lt (List.idxOf_lt_length_of_mem hq), List.getElem_idxOf]
  rw [applyGate_eq_sum _ htp, applyGate_eq_sum _ hts]
  simp only [Lab.allOne, List.all_nil, if_true, List.length_map]
  rw [if_pos (show cs.all x = true from hc)]
  apply sum_congr rfl
  intro κ _
  have h1 : Lab.idx (ts.map fun t => ncl.idxOf t) (pull ncl x) = Lab.idx ts x := by
    rw [idx_map]
    exact Lab.idx_congr fun r hr => hpull r (hsub r hr)
  have h2 : push (cs ++ ncl) (shiftUp cs.length
      (Lab.wIdx (pull ncl x) (ts.map fun t => ncl.idxOf t) κ)) = Lab.wIdx x ts κ := by
    funext q
    by_cases hq : q ∈ cs ++ ncl
    · simp only [push, List.contains_iff_mem, hq, if_true]
      rcases List.mem_append.mp hq with hqc | hqn
      · have hi : (cs ++ ncl).idxOf q < cs.length := by
          rw [List.idxOf_append_of_mem hqc]; exact List.idxOf_lt_length_of_mem hqc
        have hnt : q ∉ ts := fun ht => hdisj q hqc q (hsub q ht) rfl
        rw [shiftUp, if_pos hi, Lab.wIdx_of_not_mem _ _ hnt]
        exact ((List.all_eq_true.mp hc) q hqc).symm
      · have hqc : q ∉ cs := fun h => hdisj q h q hqn rfl
        rw [List.idxOf_append_of_notMem hqc, shiftUp, if_neg (by omega), Nat.add_sub_cancel_left]
        rw [wIdx_map (fun t => ncl.idxOf t) ts (pull ncl x) κ q
          (fun a ha h => idxOf_injOn (hsub a ha) hqn h)]
        by_cases ht : q ∈ ts
        · exact Lab.wIdx_of_mem _ _ κ ht
        · rw [Lab.wIdx_of_not_mem _ _ ht, Lab.wIdx_of_not_mem _ _ ht]
          exact hpull q hqn
    · have hge : n ≤ q := Nat.le_of_not_lt fun h => hq ((perm_mem hp).mpr h)
      have hnt : q ∉ ts := fun ht => hq (List.mem_append_right _ (hsub q ht))
      simp only [push, List.contains_iff_mem, hq, if_false]
      rw [Lab.wIdx_of_not_mem _ _ hnt, hx q hge]
  rw [h1]
  show _ * ψ (push (cs ++ ncl) (shiftUp cs.length _)) = _
  rw [h2]

end Core


/-! ### the whole of `apply_gate` -/

theorem sortedControls_perm (cs : List Nat) : (sortedControls cs).Perm cs :=
  List.mergeSort_perm _ _

theorem sortedControls_pairwise {cs : List Nat} (hnd : cs.Nodup) :
    (sortedControls cs).Pairwise (· < ·) := by
  have h1 : (sortedControls cs).Pairwise (fun a b => decide (a ≤ b) = true) :=
    List.pairwise_mergeSort (le := fun a b => decide (a ≤ b))
      (fun a b c h1 h2 => by simp at h1 h2 ⊢; omega) (fun a b => by simp; omega) cs
  have h2 : (sortedControls cs).Pairwise (· ≠ ·) := (sortedControls_perm cs).nodup_iff.mpr hnd
  exact (h1.and h2).imp fun ⟨h, h'⟩ => by simp at h; omega

theorem applyGateString_eq {ts : List Nat} {n : Nat} (hts : ts.Nodup) (hlt : ∀ t ∈ ts, t < n)
    (hg : n + ts.length ≤ EINSUM_LEN) :
    applyGateString ts n = some ⟨List.range n, List.range' n ts.length ++ ts,
      (List.range n).map (rename ts (List.range' n ts.length))⟩ := by
  simp [applyGateString, prepareStrings_eq hts hlt hg]

theorem applyGateString_none {ts : List Nat} {n : Nat} (h : EINSUM_LEN < n + ts.length) :
    applyGateString ts n = none := by
  simp [applyGateString, prepareStrings_none h]

section Pipeline
variable {α : Type} [CommSemiring α]

theorem einsum_plain {ts : List Nat} {n : Nat} (hts : ts.Nodup) (hlt : ∀ t ∈ ts, t < n)
    (A : Lab → α) (M : Nat → Nat → α) (y : Lab) (hy : InRange n y) :
    einsum ⟨List.range n, List.range' n ts.length ++ ts,
        (List.range n).map (rename ts (List.range' n ts.length))⟩ A (matT ts.length M) y
      = applyGate ⟨M, ts, []⟩ A y := by
  have := einsum_prepared (pre := []) (suf := []) hts hlt (by simp) (by simp) A M y
    (by simpa using hy)
  simpa using this

/-- **`apply_gate` refines `applyGate`.** -/
theorem applyGateSV_refines (n : Nat) (g : MGate α) (hts : g.targets.Nodup)
    (hlt : ∀ t ∈ g.targets, t < n) (hcn : g.controls.Nodup) (hcl : ∀ c ∈ g.controls, c < n)
    (hd : ∀ c ∈ g.controls, c ∉ g.targets)
    (hg : (n - g.controls.length) + g.targets.length ≤ EINSUM_LEN) (ψ : Lab → α) :
    ∃ f, applyGateSV n g ψ = some f ∧ ∀ x, InRange n x → f x = applyGate g ψ x := by
  obtain ⟨M, ts, cs⟩ := g
  simp only at hts hlt hcn hcl hd hg
  unfold applyGateSV
  by_cases he : cs.isEmpty
  · have hc0 : cs = [] := List.isEmpty_iff.mp he
    subst hc0
    simp only [List.isEmpty_nil, if_true]
    rw [applyGateString_eq hts hlt (by simpa using hg)]
    exact ⟨_, rfl, fun x hx => einsum_plain hts hlt _ _ _ hx⟩
  · simp only [he]
    have hperm := sortedControls_perm cs
    have hpw := sortedControls_pairwise hcn
    have hhi : ∀ c ∈ sortedControls cs, c < n := fun c hc => hcl c (hperm.mem_iff.mp hc)
    have hdis : ∀ t ∈ ts, t ∉ sortedControls cs := fun t ht hc => hd t (hperm.mem_iff.mp hc) ht
    have hsnd : (sortedControls cs).Nodup := hperm.nodup_iff.mpr hcn
    have hop := order_perm hsnd hhi
    have hsub : ∀ t ∈ ts, t ∈ nonCtrl (sortedControls cs) n := fun t ht =>
      mem_nonCtrl.mpr ⟨hlt t ht, hdis t ht⟩
    have hlen : (sortedControls cs).length + (nonCtrl (sortedControls cs) n).length = n := by
      have := perm_len hop; simpa using this
    have hna : n - (sortedControls cs).length = (nonCtrl (sortedControls cs) n).length := by omega
    have hcl' : (sortedControls cs).length = cs.length := hperm.length_eq
    rw [controlOrder_eq hpw hhi]
    simp only
    have htgt : (ts.map fun t => t - ((sortedControls cs).filter (· < t)).length)
        = ts.map fun t => (nonCtrl (sortedControls cs) n).idxOf t := by
      have := controlOrder_targets (ts := ts) hpw hhi hlt hdis
      rwa [controlOrder_eq hpw hhi] at this
    rw [htgt]
    have htp : (ts.map fun t => (nonCtrl (sortedControls cs) n).idxOf t).Nodup :=
      hts.map_on fun a ha b hb h => idxOf_injOn (hsub a ha) (hsub b hb) h
    have htlt : ∀ t ∈ ts.map (fun t => (nonCtrl (sortedControls cs) n).idxOf t),
        t < n - (sortedControls cs).length := by
      intro t ht
      obtain ⟨a, ha, rfl⟩ := List.mem_map.mp ht
      rw [hna]; exact List.idxOf_lt_length_of_mem (hsub a ha)
    rw [applyGateString_eq htp htlt (by rw [List.length_map, hcl']; exact hg)]
    refine ⟨_, rfl, fun x hx => ?_⟩
    simp only [transposeT, List.length_map]
    rw [push_reverseOrder hop, concatLast, all_range_pull, shiftDown_pull]
    have hall : Lab.allOne (sortedControls cs) x = Lab.allOne cs x := hperm.all_eq
    unfold applyGate
    simp only
    rw [← hall]
    by_cases hc : Lab.allOne (sortedControls cs) x = true
    · rw [if_pos hc, if_pos hc]
      have h1 := einsum_plain htp htlt
        (sliceLast (sortedControls cs).length (transposeT (sortedControls cs ++ nonCtrl (sortedControls cs) n) ψ))
        M (pull (nonCtrl (sortedControls cs) n) x) (by rw [hna]; exact inRange_pull _ _)
      rw [List.length_map] at h1
      have h2 := controlled_core hop hts hsub M ψ x hx hc
      unfold applyGate at h2
      simp only [hc, if_true] at h2
      exact h1.trans h2
    · rw [if_neg hc, if_neg hc]
      show ψ (push _ (pull _ x)) = _
      rw [push_pull hop hx]

end Pipeline


/-! ### guards, execution loop, register labels -/

theorem length_controlOrder_targets (cs ts : List Nat) (n : Nat) :
    (controlOrder cs ts n).2.length = ts.length := by
  unfold controlOrder
  simp only
  rw [foldl_controlStep_targets _ _ _ _ _ rfl]
  simp

theorem inRange_ofIndex (n i : Nat) : InRange n (Lab.ofIndex n i) := by
  intro q hq
  simp [Lab.ofIndex, Nat.not_lt.mpr hq]

section Exec
variable {α : Type} [CommSemiring α]

/-- the "not enough einsum characters" guard of `apply_gate`. -/
theorem applyGateSV_raises (n : Nat) (g : MGate α)
    (hg : EINSUM_LEN < (n - g.controls.length) + g.targets.length) (ψ : Lab → α) :
    applyGateSV n g ψ = none := by
  unfold applyGateSV
  by_cases he : g.controls.isEmpty
  · have hc0 : g.controls = [] := List.isEmpty_iff.mp he
    simp only [he, if_true]
    rw [applyGateString_none (by simpa [hc0] using hg)]
    rfl
  · simp only [he, Bool.false_eq_true, if_false]
    rw [applyGateString_none]
    · rfl
    · rw [length_controlOrder_targets, (sortedControls_perm g.controls).length_eq]
      exact hg

theorem applyGate_congr_inRange (n : Nat) (g : MGate α) (hlt : ∀ t ∈ g.targets, t < n)
    {ψ φ : Lab → α} (h : ∀ y, InRange n y → ψ y = φ y) {x : Lab} (hx : InRange n x) :
    applyGate g ψ x = applyGate g φ x := by
  unfold applyGate
  split
  · apply sumOver_congr
    intro y hy
    have : InRange n y := fun q hq => by
      rw [hy q (fun hm => by have := hlt q hm; omega)]
      exact hx q hq
    rw [h y this]
  · exact h x hx

theorem runCircuit_congr_inRange (n : Nat) (gs : List (MGate α))
    (hlt : ∀ g ∈ gs, ∀ t ∈ g.targets, t < n) {ψ φ : Lab → α}
    (h : ∀ y, InRange n y → ψ y = φ y) {x : Lab} (hx : InRange n x) :
    runCircuit gs ψ x = runCircuit gs φ x := by
  induction gs generalizing ψ φ x with
  | nil => exact h x hx
  | cons g gs ih =>
    rw [runCircuit_cons, runCircuit_cons]
    exact ih (fun g' hg' => hlt g' (List.mem_cons_of_mem _ hg'))
      (fun y hy => applyGate_congr_inRange n g (hlt g (List.mem_cons_self ..)) h hy) hx

/-- a gate that the pipeline accepts on an `n`-qubit register. -/
def GateOK (n : Nat) (g : MGate α) : Prop :=
  g.targets.Nodup ∧ (∀ t ∈ g.targets, t < n) ∧ g.controls.Nodup ∧ (∀ c ∈ g.controls, c < n) ∧
    (∀ c ∈ g.controls, c ∉ g.targets) ∧
    (n - g.controls.length) + g.targets.length ≤ EINSUM_LEN

theorem runSV_cons (n : Nat) (g : MGate α) (gs : List (MGate α)) (ψ : Lab → α) :
    runSV n (g :: gs) ψ = (applyGateSV n g ψ).bind (runSV n gs) := by
  have hnone : ∀ l : List (MGate α),
      l.foldl (fun s g => s.bind (applyGateSV n g)) (none : Option (Lab → α)) = none := by
    intro l
    induction l with
    | nil => rfl
    | cons a as ih => rw [List.foldl_cons]; exact ih
  unfold runSV
  rw [List.foldl_cons, Option.bind_some]
  generalize applyGateSV n g ψ = o
  cases o with
  | some f => rfl
  | none => exact hnone gs

theorem runSV_refines (n : Nat) (gs : List (MGate α)) (hok : ∀ g ∈ gs, GateOK n g)
    (ψ : Lab → α) :
    ∃ f, runSV n gs ψ = some f ∧ ∀ x, InRange n x → f x = runCircuit gs ψ x := by
  induction gs generalizing ψ with
  | nil => exact ⟨ψ, rfl, fun _ _ => rfl⟩
  | cons g gs ih =>
    obtain ⟨h1, h2, h3, h4, h5, h6⟩ := hok g (List.mem_cons_self ..)
    obtain ⟨f1, e1, r1⟩ := applyGateSV_refines n g h1 h2 h3 h4 h5 h6 ψ
    obtain ⟨f, e, r⟩ := ih (fun g' hg' => hok g' (List.mem_cons_of_mem _ hg')) f1
    refine ⟨f, by rw [runSV_cons, e1]; exact e, fun x hx => ?_⟩
    rw [r x hx, runCircuit_cons]
    exact runCircuit_congr_inRange n gs
      (fun g' hg' => (hok g' (List.mem_cons_of_mem _ hg')).2.1) r1 hx

end Exec

end QV.Einsum
