/-
  QV.Proofs.Hamil — lemmas about the Hamiltonian model (QV/Model/Hamil.lean):
  matrices as functions of two labels, `mulVec`, the Kronecker chain of a symbol,
  linearity of denotations, words of symbols.
-/
import QV.Proofs.SimLemmas
import QV.Proofs.DMLemmas
import QV.Model.Hamil

namespace QV

open Finset

variable {α : Type} [CommSemiring α]

/-! ### a Kronecker delta under `sumOver` -/

theorem sumOver_delta (qs : List Nat) (hn : qs.Nodup) (g : Lab → α) (x y : Lab)
    (hy : ∀ r, r ∉ qs → y r = x r) :
    sumOver qs (fun z => (if qs.all (fun r => x r == z r) then (1 : α) else 0) * g z) y = g x := by
  induction qs generalizing y with
  | nil =>
    have : y = x := funext fun r => hy r (by simp)
    simp [this]
  | cons q qs ih =>
    have hq : q ∉ qs := (List.nodup_cons.mp hn).1
    have hn' : qs.Nodup := (List.nodup_cons.mp hn).2
    have key : ∀ b : Bool,
        sumOver qs (fun z => (if (q :: qs).all (fun r => x r == z r) then (1 : α) else 0) * g z)
          (y.set q b) = if x q = b then g x else 0 := by
      intro b
      by_cases hb : x q = b
      · rw [if_pos hb,
          sumOver_congr (g := fun z => (if qs.all (fun r => x r == z r) then (1 : α) else 0) * g z)]
        · apply ih hn'
          intro r hr
          by_cases e : r = q
          · subst e; simp [hb]
          · rw [Lab.set_other _ _ e]
            exact hy r (fun hm => (List.mem_cons.mp hm).elim e hr)
        · intro z hz
          have hzq : z q = b := by rw [hz q hq]; simp
          simp [List.all_cons, hzq, hb]
      · rw [if_neg hb, sumOver_congr (g := fun _ => (0 : α))]
        · exact sumOver_zero _ _
        · intro z hz
          have hzq : z q = b := by rw [hz q hq]; simp
          have hne : (x q == z q) = false := by rw [hzq]; simpa using hb
          simp [List.all_cons, hne]
    rw [sumOver_cons, key, key]
    cases hx : x q <;> simp

/-! ### `mulVec` -/

theorem mulVec_mAdd (n : Nat) (A B : DM α) (ψ : Lab → α) (x : Lab) :
    mulVec n (mAdd A B) ψ x = mulVec n A ψ x + mulVec n B ψ x := by
  unfold mulVec mAdd
  simp only [add_mul]
  rw [sumOver_add]

theorem mulVec_mSmul (n : Nat) (c : α) (A : DM α) (ψ : Lab → α) (x : Lab) :
    mulVec n (mSmul c A) ψ x = c * mulVec n A ψ x := by
  unfold mulVec mSmul
  simp only [mul_assoc]
  rw [sumOver_mul_left]

theorem mulVec_mId (n : Nat) (ψ : Lab → α) (x : Lab) : mulVec n (mId n) ψ x = ψ x := by
  unfold mulVec mId
  exact sumOver_delta (List.range n) List.nodup_range ψ x x (fun _ _ => rfl)

/-- **Matrix product denotes composition.** -/
theorem mulVec_mMul (n : Nat) (A B : DM α) (ψ : Lab → α) :
    mulVec n (mMul n A B) ψ = mulVec n A (mulVec n B ψ) := by
  funext x
  unfold mulVec mMul
  have h1 : sumOver (List.range n) (fun w => A x w * sumOver (List.range n) (fun z => B w z * ψ z) w) x
      = sumOver (List.range n) (fun w => sumOver (List.range n) (fun z => A x w * (B w z * ψ z)) x) x := by
    apply sumOver_congr
    intro w hw
    rw [sumOver_agree (fun z => B w z * ψ z) hw, sumOver_mul_left]
  rw [h1, sumOver_sumOver_comm]
  apply sumOver_congr
  intro z _
  rw [← sumOver_mul_right]
  apply sumOver_congr
  intro w _
  rw [mul_assoc]

theorem iter_comm {β : Type} (f : β → β) (k : Nat) (b : β) : iter f k (f b) = f (iter f k b) := by
  induction k with
  | zero => rfl
  | succ k ih => simp only [iter, ih]

theorem mulVec_mPow (n : Nat) (A : DM α) (k : Nat) (ψ : Lab → α) :
    mulVec n (mPow n A k) ψ = iter (mulVec n A) k ψ := by
  induction k generalizing ψ with
  | zero => funext x; exact mulVec_mId n ψ x
  | succ k ih =>
    show mulVec n (mMul n (mPow n A k) A) ψ = _
    rw [mulVec_mMul, ih, iter_comm]
    rfl

/-! ### the Kronecker chain -/

/-- product of the selected entries, position by position. -/
def kprod (x y : Lab) : Nat → List (Nat → Nat → α) → α
  | _, [] => 1
  | p, m :: ms => m (bit (x p)) (bit (y p)) * kprod x y (p + 1) ms

theorem multikron_foldl (x y : Lab) (ms : List (Nat → Nat → α)) (a : α) (p : Nat) :
    ms.foldl (fun (acc : α × Nat) m => (acc.1 * m (bit (x acc.2)) (bit (y acc.2)), acc.2 + 1)) (a, p)
      = (a * kprod x y p ms, p + ms.length) := by
  induction ms generalizing a p with
  | nil => simp [kprod]
  | cons m ms ih =>
    rw [List.foldl_cons, ih]
    simp only [kprod, List.length_cons, mul_assoc]
    congr 1
    omega

theorem multikron_eq (ms : List (Nat → Nat → α)) (x y : Lab) :
    multikron ms x y = kprod x y 0 ms := by
  unfold multikron
  rw [multikron_foldl]
  simp

theorem kprod_append (x y : Lab) (p : Nat) (as bs : List (Nat → Nat → α)) :
    kprod x y p (as ++ bs) = kprod x y p as * kprod x y (p + as.length) bs := by
  induction as generalizing p with
  | nil => simp [kprod]
  | cons m as ih =>
    simp only [List.cons_append, kprod, ih, List.length_cons, mul_assoc]
    congr 3
    omega

theorem eye2_bit (a b : Bool) : (eye2 (bit a) (bit b) : α) = if a == b then 1 else 0 := by
  cases a <;> cases b <;> simp [eye2, bit]

theorem kprod_replicate_eye (x y : Lab) (p k : Nat) :
    kprod x y p (List.replicate k (eye2 : Nat → Nat → α))
      = if (List.range' p k).all (fun r => x r == y r) then 1 else 0 := by
  induction k generalizing p with
  | zero => simp [kprod]
  | succ k ih =>
    rw [List.replicate_succ, kprod, ih, eye2_bit, List.range'_succ, List.all_cons]
    cases hx : (x p == y p) <;> simp

/-- the qubits other than `q` among `0 … n-1`. -/
def others (n q : Nat) : List Nat := List.range' 0 q ++ List.range' (q + 1) (n - q - 1)

theorem fullMatrix_eq (n : Nat) (s : PSym α) (x y : Lab) :
    fullMatrix n s x y
      = (if (others n s.q).all (fun r => x r == y r) then (1 : α) else 0)
          * s.mat (bit (x s.q)) (bit (y s.q)) := by
  unfold fullMatrix others
  rw [multikron_eq, List.append_assoc, kprod_append, kprod_replicate_eye, List.singleton_append, kprod,
    kprod_replicate_eye, List.all_append]
  simp only [List.length_replicate, Nat.zero_add]
  cases (List.range' 0 s.q).all (fun r => x r == y r) <;>
    cases (List.range' (s.q + 1) (n - s.q - 1)).all (fun r => x r == y r) <;> simp [mul_comm]

theorem others_perm (n q : Nat) (h : q < n) : (q :: others n q).Perm (List.range n) := by
  have hnd : (q :: others n q).Nodup := by
    unfold others
    rw [List.nodup_cons]
    refine ⟨?_, ?_⟩
    · simp only [List.mem_append, List.mem_range'_1]
      omega
    · rw [List.nodup_append]
      refine ⟨List.nodup_range', List.nodup_range', ?_⟩
      intro a ha b hb
      simp only [List.mem_range'_1] at ha hb
      omega
  rw [List.perm_ext_iff_of_nodup hnd List.nodup_range]
  intro a
  unfold others
  simp only [List.mem_cons, List.mem_append, List.mem_range'_1, List.mem_range]
  omega

theorem others_nodup (n q : Nat) : (others n q).Nodup ∧ q ∉ others n q := by
  unfold others
  refine ⟨?_, ?_⟩
  · rw [List.nodup_append]
    refine ⟨List.nodup_range', List.nodup_range', ?_⟩
    intro a ha b hb
    simp only [List.mem_range'_1] at ha hb
    omega
  · simp only [List.mem_append, List.mem_range'_1]
    omega

/-- **A symbol's full matrix acts as its one-qubit gate.** -/
theorem mulVec_fullMatrix (n : Nat) (s : PSym α) (h : s.q < n) (ψ : Lab → α) :
    mulVec n (fullMatrix n s) ψ = applyGate s.gate ψ := by
  funext x
  obtain ⟨hnd, hq⟩ := others_nodup n s.q
  unfold mulVec
  rw [← sumOver_perm (others_perm n s.q h), sumOver_cons]
  have key : ∀ b : Bool,
      sumOver (others n s.q) (fun z => fullMatrix n s x z * ψ z) (x.set s.q b)
        = s.mat (bit (x s.q)) (bit b) * ψ (x.set s.q b) := by
    intro b
    rw [sumOver_congr (g := fun z =>
        (if (others n s.q).all (fun r => (x.set s.q b) r == z r) then (1 : α) else 0)
          * (s.mat (bit (x s.q)) (bit b) * ψ z))]
    · exact sumOver_delta _ hnd _ _ _ (fun _ _ => rfl)
    · intro z hz
      have hzq : z s.q = b := by rw [hz s.q hq]; simp
      have hall : (others n s.q).all (fun r => x r == z r)
          = (others n s.q).all (fun r => (x.set s.q b) r == z r) := by
        rw [Bool.eq_iff_iff]
        simp only [List.all_eq_true]
        constructor
        · intro hh r hr
          have hne : r ≠ s.q := fun e => hq (e ▸ hr)
          rw [Lab.set_other _ _ hne]
          exact hh r hr
        · intro hh r hr
          have hne : r ≠ s.q := fun e => hq (e ▸ hr)
          have := hh r hr
          rwa [Lab.set_other _ _ hne] at this
      rw [fullMatrix_eq, hzq, hall, mul_assoc]
  rw [key, key]
  simp [applyGate, PSym.gate, Lab.allOne, sumOver, Lab.idx, bit]



/-! ### words of symbols and lists of monomials -/

/-- the product of the symbols of a word, in the written order, as an operator. -/
def wordApply (w : List (PSym α)) (ψ : Lab → α) : Lab → α :=
  w.foldr (fun f φ => applyGate f.gate φ) ψ

theorem wordApply_nil (ψ : Lab → α) : wordApply ([] : List (PSym α)) ψ = ψ := rfl

theorem wordApply_cons (s : PSym α) (w : List (PSym α)) (ψ : Lab → α) :
    wordApply (s :: w) ψ = applyGate s.gate (wordApply w ψ) := rfl

theorem wordApply_append (a b : List (PSym α)) (ψ : Lab → α) :
    wordApply (a ++ b) ψ = wordApply a (wordApply b ψ) := by
  simp [wordApply, List.foldr_append]

theorem wordApply_add (w : List (PSym α)) (ψ φ : Lab → α) :
    wordApply w (fun x => ψ x + φ x) = fun x => wordApply w ψ x + wordApply w φ x := by
  induction w with
  | nil => rfl
  | cons s w ih => rw [wordApply_cons, ih, applyGate_add]; rfl

theorem wordApply_smul (w : List (PSym α)) (c : α) (ψ : Lab → α) :
    wordApply w (fun x => c * ψ x) = fun x => c * wordApply w ψ x := by
  induction w with
  | nil => rfl
  | cons s w ih => rw [wordApply_cons, ih, applyGate_smul]; rfl

theorem wordApply_zero (w : List (PSym α)) : wordApply w (fun _ => (0 : α)) = fun _ => 0 := by
  induction w with
  | nil => rfl
  | cons s w ih => rw [wordApply_cons, ih, applyGate_zero]

theorem wordApply_listSum {ι : Type} (w : List (PSym α)) (l : List ι) (F : ι → Lab → α) :
    wordApply w (fun x => (l.map (fun i => F i x)).sum)
      = fun x => (l.map (fun i => wordApply w (F i) x)).sum := by
  induction l with
  | nil => simpa using wordApply_zero w
  | cons i l ih =>
    simp only [List.map_cons, List.sum_cons]
    rw [wordApply_add w (F i) (fun x => (l.map (fun i => F i x)).sum), ih]

/-- the operator a monomial denotes. -/
def monoDenote (m : Mono α) (ψ : Lab → α) : Lab → α := fun x => m.1 * wordApply m.2 ψ x

/-- the operator a list of monomials denotes: their sum. -/
def monosDenote (ms : List (Mono α)) (ψ : Lab → α) : Lab → α := fun x =>
  (ms.map (fun m => monoDenote m ψ x)).sum

theorem monosDenote_append (as bs : List (Mono α)) (ψ : Lab → α) (x : Lab) :
    monosDenote (as ++ bs) ψ x = monosDenote as ψ x + monosDenote bs ψ x := by
  simp [monosDenote, List.map_append, List.sum_append]

theorem monoDenote_mul_map (a : Mono α) (bs : List (Mono α)) (ψ : Lab → α) (x : Lab) :
    monosDenote (bs.map (fun b => Mono.mul a b)) ψ x = monoDenote a (monosDenote bs ψ) x := by
  unfold monosDenote monoDenote
  rw [wordApply_listSum a.2 bs (fun b y => b.1 * wordApply b.2 ψ y), List.map_map, ← List.sum_map_mul_left]
  congr 1
  apply List.map_congr_left
  intro b _
  simp only [Function.comp, Mono.mul, wordApply_append]
  rw [wordApply_smul a.2 b.1 (wordApply b.2 ψ)]
  ring

theorem monosDenote_mul (as bs : List (Mono α)) (ψ : Lab → α) (x : Lab) :
    monosDenote (monosMul as bs) ψ x = monosDenote as (monosDenote bs ψ) x := by
  induction as with
  | nil => simp [monosMul, monosDenote]
  | cons a as ih =>
    have e : monosMul (a :: as) bs = bs.map (fun b => Mono.mul a b) ++ monosMul as bs := by
      simp [monosMul, List.flatMap_cons]
    rw [e, monosDenote_append, monoDenote_mul_map, ih]
    simp [monosDenote]

theorem monosDenote_pow (as : List (Mono α)) (k : Nat) (ψ : Lab → α) :
    monosDenote (monosPow as k) ψ = iter (monosDenote as) k ψ := by
  induction k generalizing ψ with
  | zero =>
    funext x
    simp [monosPow, monosDenote, monoDenote, wordApply, iter]
  | succ k ih =>
    funext x
    show monosDenote (monosMul (monosPow as k) as) ψ x = _
    rw [monosDenote_mul, ih, iter_comm]
    rfl

/-- **Expansion is sound**: the sum of the ordered monomials of a form is the operator the
form denotes. -/
theorem monosDenote_expand (f : PForm α) (ψ : Lab → α) :
    monosDenote (expand f) ψ = f.denote ψ := by
  induction f generalizing ψ with
  | const c => funext x; simp [expand, monosDenote, monoDenote, wordApply, PForm.denote]
  | sym s => funext x; simp [expand, monosDenote, monoDenote, wordApply, PForm.denote]
  | add a b iha ihb =>
    funext x
    simp only [expand, PForm.denote, monosDenote_append, iha, ihb]
  | mul a b iha ihb =>
    funext x
    simp only [expand, PForm.denote, monosDenote_mul]
    rw [show monosDenote (expand b) ψ = b.denote ψ from ihb ψ, iha]
  | pow a k iha =>
    have e : monosDenote (expand a) = a.denote := funext fun φ => iha φ
    simp only [expand, PForm.denote, monosDenote_pow, e]
  | smul c a iha =>
    funext x
    simp only [expand, PForm.denote, ← iha]
    unfold monosDenote monoDenote
    rw [List.map_map, ← List.sum_map_mul_left]
    congr 1
    apply List.map_congr_left
    intro m _
    simp only [Function.comp]
    ring

/-! ### involutive symbols: powers reduce mod 2 -/

/-- a symbol whose matrix squares to the identity (I, X, Y, Z). -/
def PSym.Invol (s : PSym α) : Prop :=
  ∀ i j, i < 2 → j < 2 → ∑ k ∈ range 2, s.mat i k * s.mat k j = if i = j then 1 else 0

theorem applyGate_invol (s : PSym α) (h : s.Invol) (ψ : Lab → α) :
    applyGate s.gate (applyGate s.gate ψ) = ψ := by
  have h' : ∀ i j, i < 2 ^ [s.q].length → j < 2 ^ [s.q].length →
      ∑ k ∈ range (2 ^ [s.q].length), s.mat i k * s.mat k j = if i = j then 1 else 0 := by
    intro i j hi hj
    exact h i j (by simpa using hi) (by simpa using hj)
  exact applyGate_inv [s.q] [] (by simp) (by simp) s.mat s.mat h' ψ

theorem iter_invol (s : PSym α) (h : s.Invol) (k : Nat) (ψ : Lab → α) :
    iter (applyGate s.gate) k ψ = if k % 2 = 0 then ψ else applyGate s.gate ψ := by
  induction k using Nat.strong_induction_on with
  | _ k ih =>
    match k with
    | 0 => rfl
    | 1 => rfl
    | k + 2 =>
      have e : iter (applyGate s.gate) (k + 2) ψ
          = applyGate s.gate (applyGate s.gate (iter (applyGate s.gate) k ψ)) := rfl
      rw [e, applyGate_invol s h, ih k (by omega)]
      have : (k + 2) % 2 = k % 2 := by omega
      rw [this]

end QV
