/-
  QV.Proofs.LightCone — semantic consequences of trace equivalence for the simulator model
  and the split lemma of the light-cone sweep.

  Main results
    * `traceEq_runCircuit`, `traceEq_runCircuitDM` : `~ₜ` gate lists act identically
      (state vectors and density matrices)
    * `coneSweep_split`, `lightCone_split` : queue ~ₜ cone ++ rest, `rest` does not touch the
      observed qubits, the cone lives on the returned qubit set
-/
import QV.Proofs.TraceEq
import QV.Proofs.DMLemmas
import QV.Model.Fusion

namespace QV

/-- qubits an `MGate` touches. -/
def MGate.supp {α : Type} (g : MGate α) : List Nat := g.targets ++ g.controls

section sem
variable {α : Type} [CommSemiring α]

omit [CommSemiring α] in
theorem disjointB_supp {g h : MGate α} (hd : disjointB g.supp h.supp = true) :
    ∀ r, r ∈ g.targets ++ g.controls → r ∉ h.targets ++ h.controls :=
  fun r hr => (disjointB_iff.mp hd) r hr

/-- **Trace-equivalent gate lists act identically on every state vector.** -/
theorem traceEq_runCircuit {gs hs : List (MGate α)} (h : TraceEq MGate.supp gs hs)
    (hwf : ∀ g ∈ gs, g.targets.Nodup) : runCircuit gs = runCircuit hs := by
  funext ψ
  exact traceEq_foldl_of (fun s g => applyGate g s) (fun g => g.targets.Nodup)
    (fun a b ha hb hd s => (applyGate_comm_of_disjoint b a hb ha
      (disjointB_supp (by rw [disjointB_comm]; exact hd)) s)) h hwf ψ

/-- left actions of disjoint gates commute. -/
theorem applyLeft_comm_of_disjoint (g h : MGate α) (hng : g.targets.Nodup)
    (hnh : h.targets.Nodup)
    (hdis : ∀ r, r ∈ g.targets ++ g.controls → r ∉ h.targets ++ h.controls) (ρ : DM α) :
    applyLeft g (applyLeft h ρ) = applyLeft h (applyLeft g ρ) := by
  funext x y
  simp only [applyLeft_eq]
  exact congrFun (applyGate_comm_of_disjoint g h hng hnh hdis (fun r => ρ r y)) x

theorem applyRight_comm_of_disjoint (conj : α → α) (g h : MGate α) (hng : g.targets.Nodup)
    (hnh : h.targets.Nodup)
    (hdis : ∀ r, r ∈ g.targets ++ g.controls → r ∉ h.targets ++ h.controls) (ρ : DM α) :
    applyRight conj g (applyRight conj h ρ) = applyRight conj h (applyRight conj g ρ) := by
  funext x y
  simp only [applyRight_eq]
  exact congrFun (applyGate_comm_of_disjoint (g.conjMat conj) (h.conjMat conj) hng hnh hdis
    (fun c => ρ x c)) y

/-- `ρ ↦ G ρ G†` and `ρ ↦ H ρ H†` commute for gates on disjoint qubits. -/
theorem applyGateDM_comm_of_disjoint (conj : α → α) (g h : MGate α) (hng : g.targets.Nodup)
    (hnh : h.targets.Nodup)
    (hdis : ∀ r, r ∈ g.targets ++ g.controls → r ∉ h.targets ++ h.controls) (ρ : DM α) :
    applyGateDM conj g (applyGateDM conj h ρ) = applyGateDM conj h (applyGateDM conj g ρ) := by
  unfold applyGateDM
  rw [← applyLeft_applyRight_comm' conj h g, applyLeft_comm_of_disjoint g h hng hnh hdis,
    applyRight_comm_of_disjoint conj g h hng hnh hdis, applyLeft_applyRight_comm' conj g h]

/-- **Trace-equivalent gate lists act identically on every density matrix.** -/
theorem traceEq_runCircuitDM (conj : α → α) {gs hs : List (MGate α)}
    (h : TraceEq MGate.supp gs hs) (hwf : ∀ g ∈ gs, g.targets.Nodup) :
    runCircuitDM conj gs = runCircuitDM conj hs := by
  funext ρ
  exact traceEq_foldl_of (fun s g => applyGateDM conj g s) (fun g => g.targets.Nodup)
    (fun a b ha hb hd s => (applyGateDM_comm_of_disjoint conj b a hb ha
      (disjointB_supp (by rw [disjointB_comm]; exact hd)) s)) h hwf ρ

end sem

/-! ### the light-cone sweep -/

section cone
variable {G : Type} {supp : G → List Nat}

theorem disjointB_append_right {a b c : List Nat} (h : disjointB a (b ++ c) = true) :
    disjointB a b = true ∧ disjointB a c = true := by
  rw [disjointB_iff] at h
  constructor <;> rw [disjointB_iff] <;> intro q hq hm
  · exact h q hq (List.mem_append_left _ hm)
  · exact h q hq (List.mem_append_right _ hm)

/-- **Split lemma of the backward sweep** (`rq` is the reversed queue, `qs` the qubits
collected so far): the queue is trace equivalent to "cone, then the gates left out"; the
gates left out touch none of the qubits `qs`; `qs` and all qubits of the cone are in the
returned qubit set. -/
theorem coneSweep_split (rq : List G) (qs : List Nat) :
    TraceEq supp rq.reverse
        ((coneSweep supp rq qs).1.reverse ++ (coneSweep supp rq qs).2.1.reverse) ∧
      (∀ g ∈ (coneSweep supp rq qs).2.1, disjointB (supp g) qs = true) ∧
      (∀ q ∈ qs, q ∈ (coneSweep supp rq qs).2.2) ∧
      (∀ g ∈ (coneSweep supp rq qs).1, ∀ q ∈ supp g, q ∈ (coneSweep supp rq qs).2.2) := by
  induction rq generalizing qs with
  | nil => exact ⟨TraceEq.nil, by simp [coneSweep], by simp [coneSweep], by simp [coneSweep]⟩
  | cons g r ih =>
    by_cases hd : disjointB (supp g) qs = true
    · obtain ⟨h1, h2, h3, h4⟩ := ih qs
      simp only [coneSweep, hd, if_true, List.reverse_cons]
      refine ⟨?_, ?_, h3, h4⟩
      · rw [← List.append_assoc]
        exact TraceEq.append_right [g] h1
      · intro g' hg'
        rcases List.mem_cons.mp hg' with rfl | hm
        · exact hd
        · exact h2 g' hm
    · obtain ⟨h1, h2, h3, h4⟩ := ih (qs ++ supp g)
      simp only [coneSweep, hd, List.reverse_cons]
      refine ⟨?_, ?_, ?_, ?_⟩
      · -- r.reverse ++ [g] ~ c.reverse ++ o.reverse ++ [g] ~ c.reverse ++ [g] ++ o.reverse
        have hmove : TraceEq supp ((coneSweep supp r (qs ++ supp g)).2.1.reverse ++ [g])
            (g :: (coneSweep supp r (qs ++ supp g)).2.1.reverse) := by
          apply TraceEq.symm
          apply TraceEq.move_end
          intro b hb
          have := (disjointB_append_right (h2 b (List.mem_reverse.mp hb))).2
          rw [disjointB_comm]; exact this
        have := TraceEq.trans (TraceEq.append_right [g] h1)
          (by rw [List.append_assoc]; exact TraceEq.append_left _ hmove)
        simpa [List.append_assoc] using this
      · intro g' hg'
        exact (disjointB_append_right (h2 g' hg')).1
      · intro q hq
        exact h3 q (List.mem_append_left _ hq)
      · intro g' hg' q hq
        rcases List.mem_cons.mp hg' with rfl | hm
        · exact h3 q (List.mem_append_right _ hq)
        · exact h4 g' hm q hq

theorem lc_mem_insertS {q a : Nat} {l : List Nat} : q ∈ insertS a l ↔ q = a ∨ q ∈ l := by
  induction l with
  | nil => simp [insertS]
  | cons b l ih =>
    unfold insertS
    split
    · simp
    · split
      · rename_i h; subst h; simp
      · simp only [List.mem_cons, ih]
        constructor
        · rintro (h | h | h) <;> simp [h]
        · rintro (h | h | h) <;> simp [h]

theorem lc_mem_unionS {q : Nat} {a b : List Nat} : q ∈ unionS a b ↔ q ∈ a ∨ q ∈ b := by
  unfold unionS
  induction b generalizing a with
  | nil => simp
  | cons x b ih =>
    rw [List.foldl_cons, ih, lc_mem_insertS]
    simp only [List.mem_cons]
    constructor
    · rintro ((h | h) | h) <;> simp [h]
    · rintro (h | h | h) <;> simp [h]

theorem lc_mem_sortS {q : Nat} {l : List Nat} : q ∈ sortS l ↔ q ∈ l := by
  simp [sortS, lc_mem_unionS]

/-- **Split lemma of `Circuit.light_cone`.** -/
theorem lightCone_split (queue : List G) (S : List Nat) :
    TraceEq supp queue ((lightCone supp queue S).1 ++ (lightCone supp queue S).2.1) ∧
      (∀ g ∈ (lightCone supp queue S).2.1, disjointB (supp g) S = true) ∧
      (∀ q ∈ S, q ∈ (lightCone supp queue S).2.2) ∧
      (∀ g ∈ (lightCone supp queue S).1, ∀ q ∈ supp g, q ∈ (lightCone supp queue S).2.2) := by
  obtain ⟨h1, h2, h3, h4⟩ := coneSweep_split (supp := supp) queue.reverse S
  rw [List.reverse_reverse] at h1
  refine ⟨h1, ?_, ?_, ?_⟩
  · intro g hg
    exact h2 g (List.mem_reverse.mp hg)
  · intro q hq
    exact lc_mem_sortS.mpr (h3 q hq)
  · intro g hg q hq
    exact lc_mem_sortS.mpr (h4 g (List.mem_reverse.mp hg) q hq)

/-- the cone keeps the queue order: it is a sublist of the queue. -/
theorem coneSweep_sublist (rq : List G) (qs : List Nat) :
    (coneSweep supp rq qs).1.Sublist rq ∧ (coneSweep supp rq qs).2.1.Sublist rq := by
  induction rq generalizing qs with
  | nil => simp [coneSweep]
  | cons g r ih =>
    by_cases hd : disjointB (supp g) qs = true
    · simp only [coneSweep, hd, if_true]
      exact ⟨(ih qs).1.cons g, (ih qs).2.cons_cons g⟩
    · simp only [coneSweep, hd]
      exact ⟨(ih _).1.cons_cons g, (ih _).2.cons g⟩

end cone

end QV
