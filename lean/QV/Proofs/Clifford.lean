/-
  QV.Proofs.Clifford — lemmas about the tableau model (QV/Model/Clifford.lean):
  xor-sums with one or two changed terms, the symplectic form under the primitive
  updates, bilinearity under `rowsum`, parity of the phase exponent.  Core Lean only.
-/
import QV.Model.CliffordMat
namespace QV.Cliff

/-! ### xor-sums -/

def xorUpTo (f : Nat → Bool) : Nat → Bool
  | 0 => false
  | n + 1 => xorUpTo f n ^^ f n

def term (a b : Row) (k : Nat) : Bool := (a.x k && b.z k) ^^ (a.z k && b.x k)

theorem symp_eq_xorUpTo (n : Nat) (a b : Row) : symp n a b = xorUpTo (term a b) n := by
  induction n with
  | zero => rfl
  | succ n ih => simp [symp, xorUpTo, term, ih]

theorem xorUpTo_congr {f g : Nat → Bool} (n : Nat) (h : ∀ k, k < n → f k = g k) :
    xorUpTo f n = xorUpTo g n := by
  induction n with
  | zero => rfl
  | succ n ih =>
    simp only [xorUpTo]
    rw [ih (fun k hk => h k (by omega)), h n (by omega)]

/-- two functions that differ at most at `c < n`. -/
theorem xorUpTo_point {f g : Nat → Bool} (n c : Nat) (hc : c < n)
    (h : ∀ k, k ≠ c → f k = g k) : (xorUpTo f n ^^ f c) = (xorUpTo g n ^^ g c) := by
  induction n with
  | zero => omega
  | succ n ih =>
    simp only [xorUpTo]
    by_cases hcn : c = n
    · subst hcn
      have := xorUpTo_congr (f := f) (g := g) c (fun k hk => h k (by omega))
      rw [this]; cases xorUpTo g c <;> cases f c <;> cases g c <;> rfl
    · have h1 := ih (by omega)
      have h2 := h n (fun e => hcn e.symm)
      rw [h2]
      revert h1
      cases xorUpTo f n <;> cases xorUpTo g n <;> cases f c <;> cases g c <;> cases g n <;> simp

/-- two functions that differ at most at `c ≠ t`, both below `n`, with the same local parity. -/
theorem xorUpTo_two {f g : Nat → Bool} (n c t : Nat) (hc : c < n) (ht : t < n) (hct : c ≠ t)
    (h : ∀ k, k ≠ c → k ≠ t → f k = g k) (hl : (f c ^^ f t) = (g c ^^ g t)) :
    xorUpTo f n = xorUpTo g n := by
  let m : Nat → Bool := fun k => if k = c then g c else f k
  have h1 := xorUpTo_point (f := f) (g := m) n c hc (fun k hk => by simp [m, hk])
  have h2 := xorUpTo_point (f := m) (g := g) n t ht (fun k hk => by
    by_cases hkc : k = c
    · simp [m, hkc]
    · simp [m, hkc]; exact h k hkc hk)
  have hmc : m c = g c := by simp [m]
  have hmt : m t = f t := by simp [m, Ne.symm hct]
  rw [hmc] at h1
  rw [hmt] at h2
  revert h1 h2 hl
  cases xorUpTo f n <;> cases xorUpTo g n <;> cases xorUpTo m n <;> cases f c <;> cases f t <;>
    cases g c <;> cases g t <;> simp

theorem xorUpTo_one {f g : Nat → Bool} (n c : Nat) (_hc : c < n)
    (h : ∀ k, k ≠ c → f k = g k) (hl : f c = g c) : xorUpTo f n = xorUpTo g n :=
  xorUpTo_congr n (fun k _ => if e : k = c then by rw [e, hl] else h k e)

/-! ### the symplectic form under the primitive updates -/

/-- `f` preserves the symplectic form on `n`-qubit rows. -/
def SympInv (n : Nat) (f : Row → Row) : Prop := ∀ a b : Row, symp n (f a) (f b) = symp n a b

theorem SympInv.comp {n : Nat} {f g : Row → Row} (hf : SympInv n f) (hg : SympInv n g) :
    SympInv n (fun w => f (g w)) := fun a b => by rw [hf, hg]

theorem sympInv_id (n : Nat) : SympInv n (fun w => w) := fun _ _ => rfl

/-- one-qubit template: bits off `q` untouched, the local term at `q` preserved. -/
theorem sympInv_of_local1 (n q : Nat) (hq : q < n) (f : Row → Row)
    (hoff : ∀ (w : Row) k, k ≠ q → (f w).x k = w.x k ∧ (f w).z k = w.z k)
    (hloc : ∀ a b : Row, term (f a) (f b) q = term a b q) : SympInv n f := by
  intro a b
  rw [symp_eq_xorUpTo, symp_eq_xorUpTo]
  refine xorUpTo_one n q hq (fun k hk => ?_) (hloc a b)
  simp [term, (hoff a k hk).1, (hoff a k hk).2, (hoff b k hk).1, (hoff b k hk).2]

theorem sympInv_of_local2 (n c t : Nat) (hc : c < n) (ht : t < n) (hct : c ≠ t) (f : Row → Row)
    (hoff : ∀ (w : Row) k, k ≠ c → k ≠ t → (f w).x k = w.x k ∧ (f w).z k = w.z k)
    (hloc : ∀ a b : Row,
      (term (f a) (f b) c ^^ term (f a) (f b) t) = (term a b c ^^ term a b t)) : SympInv n f := by
  intro a b
  rw [symp_eq_xorUpTo, symp_eq_xorUpTo]
  refine xorUpTo_two n c t hc ht hct (fun k hkc hkt => ?_) (hloc a b)
  simp [term, (hoff a k hkc hkt).1, (hoff a k hkc hkt).2, (hoff b k hkc hkt).1,
    (hoff b k hkc hkt).2]

macro "local1" d:ident : tactic =>
  `(tactic| (
    refine sympInv_of_local1 _ _ (by assumption) _ ?_ ?_
    · intro w k hk; simp [$d:ident, upd, hk]
    · intro a b
      simp only [term, $d:ident, upd, if_pos]
      try (cases a.x _ <;> cases a.z _ <;> cases b.x _ <;> cases b.z _ <;> rfl)))

theorem sympInv_H (n q : Nat) (hq : q < n) : SympInv n (opH q) := by local1 opH
theorem sympInv_S (n q : Nat) (hq : q < n) : SympInv n (opS q) := by local1 opS
theorem sympInv_X (n q : Nat) (hq : q < n) : SympInv n (opX q) := by local1 opX
theorem sympInv_Y (n q : Nat) (hq : q < n) : SympInv n (opY q) := by local1 opY
theorem sympInv_Z (n q : Nat) (hq : q < n) : SympInv n (opZ q) := by local1 opZ
theorem sympInv_SX (n q : Nat) (hq : q < n) : SympInv n (opSX q) := by local1 opSX
theorem sympInv_SDG (n q : Nat) (hq : q < n) : SympInv n (opSDG q) := by local1 opSDG
theorem sympInv_SXDG (n q : Nat) (hq : q < n) : SympInv n (opSXDG q) := by local1 opSXDG
theorem sympInv_RYpi (n q : Nat) (hq : q < n) : SympInv n (opRYpi q) := by local1 opRYpi
theorem sympInv_RY3pi2 (n q : Nat) (hq : q < n) : SympInv n (opRY3pi2 q) := by local1 opRY3pi2

macro "local2" d:ident c:ident t:ident : tactic =>
  `(tactic| (
    refine sympInv_of_local2 _ $c $t (by assumption) (by assumption) (by assumption) _ ?_ ?_
    · intro w k hkc hkt; simp [$d:ident, upd, hkc, hkt]
    · intro a b
      have hct' : ¬ ($t = $c) := fun e => by omega
      have hct'' : ¬ ($c = $t) := fun e => by omega
      simp only [term, $d:ident, upd, if_pos, if_neg, hct', hct'', if_true, if_false]
      try (cases a.x $c <;> cases a.z $c <;> cases a.x $t <;> cases a.z $t <;>
        cases b.x $c <;> cases b.z $c <;> cases b.x $t <;> cases b.z $t <;> rfl)))

theorem sympInv_CNOT (n c t : Nat) (hc : c < n) (ht : t < n) (hct : c ≠ t) :
    SympInv n (opCNOT c t) := by local2 opCNOT c t
theorem sympInv_CZ (n c t : Nat) (hc : c < n) (ht : t < n) (hct : c ≠ t) :
    SympInv n (opCZ c t) := by local2 opCZ c t
theorem sympInv_CY (n c t : Nat) (hc : c < n) (ht : t < n) (hct : c ≠ t) :
    SympInv n (opCY c t) := by local2 opCY c t
theorem sympInv_SWAP (n c t : Nat) (hc : c < n) (ht : t < n) (hct : c ≠ t) :
    SympInv n (opSWAP c t) := by local2 opSWAP c t
theorem sympInv_iSWAP (n c t : Nat) (hc : c < n) (ht : t < n) (hct : c ≠ t) :
    SympInv n (opiSWAP c t) := by local2 opiSWAP c t

/-! ### composite operations and the dispatch on the angle -/

theorem res4_cases (k : Int) : res4 k = 0 ∨ res4 k = 1 ∨ res4 k = 2 ∨ res4 k = 3 := by
  unfold res4; omega

theorem sympInv_RX (n q : Nat) (hq : q < n) (k : Int) : SympInv n (opRX q k) := by
  unfold opRX
  rcases res4_cases k with h | h | h | h <;> rw [h]
  · exact sympInv_id n
  · exact sympInv_SX n q hq
  · exact sympInv_X n q hq
  · exact sympInv_SXDG n q hq

theorem sympInv_RZ (n q : Nat) (hq : q < n) (k : Int) : SympInv n (opRZ q k) := by
  unfold opRZ
  rcases res4_cases k with h | h | h | h <;> rw [h]
  · exact sympInv_id n
  · exact sympInv_S n q hq
  · exact sympInv_Z n q hq
  · exact sympInv_SDG n q hq

theorem sympInv_RY (n q : Nat) (hq : q < n) (k : Int) : SympInv n (opRY q k) := by
  unfold opRY
  rcases res4_cases k with h | h | h | h <;> rw [h]
  · exact sympInv_id n
  · exact sympInv_RYpi n q hq
  · exact sympInv_Y n q hq
  · exact sympInv_RY3pi2 n q hq

theorem sympInv_ECR (n c t : Nat) (hc : c < n) (ht : t < n) (hct : c ≠ t) :
    SympInv n (opECR c t) :=
  (sympInv_X n c hc).comp ((sympInv_CNOT n c t hc ht hct).comp
    ((sympInv_SX n t ht).comp (sympInv_S n c hc)))

theorem sympInv_FSWAP (n c t : Nat) (hc : c < n) (ht : t < n) (hct : c ≠ t) :
    SympInv n (opFSWAP c t) :=
  (sympInv_X n c hc).comp ((sympInv_CNOT n c t hc ht hct).comp
    ((sympInv_CNOT n t c ht hc hct.symm).comp ((sympInv_RY n c hc (-1)).comp
      ((sympInv_CNOT n t c ht hc hct.symm).comp ((sympInv_RY n c hc 1).comp
        ((sympInv_CNOT n c t hc ht hct).comp (sympInv_X n t ht)))))))

theorem sympInv_CRX (n c t : Nat) (hc : c < n) (ht : t < n) (hct : c ≠ t) (k : Int) :
    SympInv n (opCRX c t k) := by
  have hX := sympInv_X n t ht
  have hY := sympInv_Y n t ht
  have hCZ := sympInv_CZ n c t hc ht hct
  have hCY := sympInv_CY n c t hc ht hct
  unfold opCRX
  rcases res4_cases k with h | h | h | h <;> rw [h]
  · exact sympInv_id n
  · exact hCY.comp (hX.comp (hCZ.comp hX))
  · exact hY.comp (hCZ.comp (hY.comp hCZ))
  · exact hCZ.comp (hX.comp (hCY.comp hX))

theorem sympInv_CRZ (n c t : Nat) (hc : c < n) (ht : t < n) (hct : c ≠ t) (k : Int) :
    SympInv n (opCRZ c t k) := by
  have hX := sympInv_X n t ht
  have hCN := sympInv_CNOT n c t hc ht hct
  have hCZ := sympInv_CZ n c t hc ht hct
  have hCY := sympInv_CY n c t hc ht hct
  unfold opCRZ
  rcases res4_cases k with h | h | h | h <;> rw [h]
  · exact sympInv_id n
  · exact hCN.comp (hX.comp (hCY.comp hX))
  · exact hX.comp (hCZ.comp (hX.comp hCZ))
  · exact hX.comp (hCY.comp (hX.comp hCN))

theorem sympInv_CRY (n c t : Nat) (hc : c < n) (ht : t < n) (hct : c ≠ t) (k : Int) :
    SympInv n (opCRY c t k) := by
  have hZ := sympInv_Z n t ht
  have hCN := sympInv_CNOT n c t hc ht hct
  have hCZ := sympInv_CZ n c t hc ht hct
  unfold opCRY
  rcases res4_cases k with h | h | h | h <;> rw [h]
  · exact sympInv_id n
  · exact hCZ.comp (hZ.comp (hCN.comp hZ))
  · exact sympInv_CRZ n c t hc ht hct k
  · exact hZ.comp (hCN.comp (hZ.comp hCZ))

/-- the gate only names qubits of the register, two-qubit gates two different ones. -/
def Gate.ok (n : Nat) : Gate → Prop
  | .I q | .H q | .X q | .Y q | .Z q | .S q | .SDG q | .SX q | .SXDG q => q < n
  | .RX q _ | .RY q _ | .RZ q _ => q < n
  | .CNOT c t | .CZ c t | .CY c t | .SWAP c t | .iSWAP c t | .FSWAP c t | .ECR c t =>
    c < n ∧ t < n ∧ c ≠ t
  | .CRX c t _ | .CRY c t _ | .CRZ c t _ => c < n ∧ t < n ∧ c ≠ t

theorem sympInv_gate (n : Nat) (g : Gate) (h : g.ok n) : SympInv n g.act := by
  cases g <;> simp only [Gate.ok] at h <;> simp only [Gate.act]
  case I q => exact sympInv_id n
  case H q => exact sympInv_H n q h
  case X q => exact sympInv_X n q h
  case Y q => exact sympInv_Y n q h
  case Z q => exact sympInv_Z n q h
  case S q => exact sympInv_S n q h
  case SDG q => exact sympInv_SDG n q h
  case SX q => exact sympInv_SX n q h
  case SXDG q => exact sympInv_SXDG n q h
  case CNOT c t => exact sympInv_CNOT n c t h.1 h.2.1 h.2.2
  case CZ c t => exact sympInv_CZ n c t h.1 h.2.1 h.2.2
  case CY c t => exact sympInv_CY n c t h.1 h.2.1 h.2.2
  case SWAP c t => exact sympInv_SWAP n c t h.1 h.2.1 h.2.2
  case iSWAP c t => exact sympInv_iSWAP n c t h.1 h.2.1 h.2.2
  case FSWAP c t => exact sympInv_FSWAP n c t h.1 h.2.1 h.2.2
  case ECR c t => exact sympInv_ECR n c t h.1 h.2.1 h.2.2
  case RX q k => exact sympInv_RX n q h k
  case RY q k => exact sympInv_RY n q h k
  case RZ q k => exact sympInv_RZ n q h k
  case CRX c t k => exact sympInv_CRX n c t h.1 h.2.1 h.2.2 k
  case CRY c t k => exact sympInv_CRY n c t h.1 h.2.1 h.2.2 k
  case CRZ c t k => exact sympInv_CRZ n c t h.1 h.2.1 h.2.2 k

/-! ### rowsum: bilinearity of the symplectic form, parity of the exponent -/

theorem symp_rowsum_left (n m : Nat) (a b c : Row) :
    symp n (rowsum m a b) c = (symp n a c ^^ symp n b c) := by
  induction n with
  | zero => rfl
  | succ n ih =>
    simp only [symp, ih]
    simp only [rowsum]
    cases symp n a c <;> cases symp n b c <;> cases a.x n <;> cases a.z n <;> cases b.x n <;>
      cases b.z n <;> cases c.x n <;> cases c.z n <;> rfl

theorem symp_comm (n : Nat) (a b : Row) : symp n a b = symp n b a := by
  induction n with
  | zero => rfl
  | succ n ih =>
    simp only [symp, ih]
    cases symp n b a <;> cases a.x n <;> cases a.z n <;> cases b.x n <;> cases b.z n <;> rfl

theorem symp_rowsum_right (n m : Nat) (a b c : Row) :
    symp n c (rowsum m a b) = (symp n c a ^^ symp n c b) := by
  rw [symp_comm, symp_rowsum_left, symp_comm n a c, symp_comm n b c]

theorem exponent_parity (x1 z1 x2 z2 : Bool) :
    exponent x1 z1 x2 z2 % 2 = b2i ((x1 && z2) ^^ (z1 && x2)) := by
  cases x1 <;> cases z1 <;> cases x2 <;> cases z2 <;> decide

/-- the exponent sum is even exactly when the two strings commute: then
`2 r_h + 2 r_i + Σ e` is `0` or `2` modulo 4 and `_rowsum`'s test `… % 4 == 0` decides the sign. -/
theorem expSum_parity (n : Nat) (a b : Row) : expSum n a b % 2 = b2i (symp n a b) := by
  induction n with
  | zero => rfl
  | succ n ih =>
    simp only [expSum, symp]
    have h := exponent_parity (a.x n) (a.z n) (b.x n) (b.z n)
    revert ih h
    cases symp n a b <;> cases ((a.x n && b.z n) ^^ (a.z n && b.x n)) <;> simp [b2i] <;> omega

/-! ### tableau invariant: rows pairwise commute except destabiliser `i` / stabiliser `i` -/

/-- the Aaronson–Gottesman invariant on the first `2n` rows of a tableau. -/
def Valid (n : Nat) (T : Tableau) : Prop :=
  2 * n < T.length ∧ ∀ i j, i < 2 * n → j < 2 * n →
    symp n (getRow T i) (getRow T j) = decide (i + n = j ∨ j + n = i)

theorem getRow_applyGate (g : Gate) (T : Tableau) (i : Nat) (hi : i < T.length) :
    getRow (applyGate g T) i = g.act (getRow T i) := by
  simp [getRow, applyGate, List.getD_eq_getElem?_getD, List.getElem?_map,
    List.getElem?_eq_getElem hi]

theorem valid_applyGate (n : Nat) (g : Gate) (hg : g.ok n) (T : Tableau) (h : Valid n T) :
    Valid n (applyGate g T) := by
  refine ⟨by simpa [applyGate] using h.1, fun i j hi hj => ?_⟩
  rw [getRow_applyGate g T i (by have := h.1; omega), getRow_applyGate g T j (by have := h.1; omega),
    sympInv_gate n g hg]
  exact h.2 i j hi hj

theorem valid_runGates (n : Nat) (gs : List Gate) (hg : ∀ g ∈ gs, g.ok n) (T : Tableau)
    (h : Valid n T) : Valid n (runGates gs T) := by
  induction gs generalizing T with
  | nil => exact h
  | cons g gs ih =>
    simp only [runGates, List.foldl_cons]
    exact ih (fun g' hg' => hg g' (List.mem_cons_of_mem _ hg')) _
      (valid_applyGate n g (hg g (List.mem_cons_self ..)) T h)

/-! ### the zero state satisfies the invariant -/

def unitX (k : Nat) : Row := ⟨fun j => j == k, fun _ => false, false⟩
def unitZ (k : Nat) : Row := ⟨fun _ => false, fun j => j == k, false⟩

theorem symp_XZ (n i j : Nat) : symp n (unitX i) (unitZ j) = decide (i = j ∧ i < n) := by
  induction n with
  | zero => simp [symp]
  | succ n ih =>
    rw [symp, ih]
    simp only [unitX, unitZ]
    by_cases hij : i = j
    · subst hij
      by_cases hin : i < n
      · have h1 : (n == i) = false := by simp; omega
        have h2 : i < n + 1 := by omega
        simp [hin, h1, h2]
      · by_cases hni : n = i
        · subst hni; simp
        · have h1 : (n == i) = false := by simp; omega
          have h2 : ¬ i < n + 1 := by omega
          simp [hin, h1, h2]
    · by_cases hni : n = i
      · subst hni
        have h1 : (n == j) = false := by simp; omega
        simp [hij, h1]
      · have h1 : (n == i) = false := by simp; omega
        simp [hij, h1]

theorem symp_XX (n i j : Nat) : symp n (unitX i) (unitX j) = false := by
  induction n with
  | zero => rfl
  | succ n ih => rw [symp, ih]; simp [unitX]

theorem symp_ZZ (n i j : Nat) : symp n (unitZ i) (unitZ j) = false := by
  induction n with
  | zero => rfl
  | succ n ih => rw [symp, ih]; simp [unitZ]

theorem getRow_zero_lo (n i : Nat) (h : i < n) : getRow (zeroState n) i = unitX i := by
  simp [getRow, zeroState, unitX, List.getD_eq_getElem?_getD, List.getElem?_append, h]

theorem getRow_zero_hi (n i : Nat) (h : i < n) : getRow (zeroState n) (n + i) = unitZ i := by
  have h' : ¬ (n + i < n) := by omega
  simp [getRow, zeroState, unitZ, List.getD_eq_getElem?_getD, List.getElem?_append, h, h']

theorem valid_zeroState (n : Nat) : Valid n (zeroState n) := by
  refine ⟨by simp [zeroState]; omega, fun i j hi hj => ?_⟩
  by_cases h1 : i < n <;> by_cases h2 : j < n
  · rw [getRow_zero_lo n i h1, getRow_zero_lo n j h2, symp_XX, Bool.eq_iff_iff]; simp; omega
  · obtain ⟨j', rfl⟩ : ∃ j', j = n + j' := ⟨j - n, by omega⟩
    rw [getRow_zero_lo n i h1, getRow_zero_hi n j' (by omega), symp_XZ, Bool.eq_iff_iff]; simp; omega
  · obtain ⟨i', rfl⟩ : ∃ i', i = n + i' := ⟨i - n, by omega⟩
    rw [getRow_zero_hi n i' (by omega), getRow_zero_lo n j h2, symp_comm, symp_XZ, Bool.eq_iff_iff]; simp; omega
  · obtain ⟨i', rfl⟩ : ∃ i', i = n + i' := ⟨i - n, by omega⟩
    obtain ⟨j', rfl⟩ : ∃ j', j = n + j' := ⟨j - n, by omega⟩
    rw [getRow_zero_hi n i' (by omega), getRow_zero_hi n j' (by omega), symp_ZZ, Bool.eq_iff_iff]; simp; omega

/-! ### row locality: a gate only touches the bits of its own qubits -/

def Gate.qubits : Gate → List Nat
  | .I q | .H q | .X q | .Y q | .Z q | .S q | .SDG q | .SX q | .SXDG q => [q]
  | .RX q _ | .RY q _ | .RZ q _ => [q]
  | .CNOT c t | .CZ c t | .CY c t | .SWAP c t | .iSWAP c t | .FSWAP c t | .ECR c t => [c, t]
  | .CRX c t _ | .CRY c t _ | .CRZ c t _ => [c, t]

/-- bits of a row on qubits the gate does not name are left alone. -/
def Off (qs : List Nat) (f : Row → Row) : Prop :=
  ∀ (w : Row) (k : Nat), k ∉ qs → (f w).x k = w.x k ∧ (f w).z k = w.z k

theorem Off.comp {qs : List Nat} {f g : Row → Row} (hf : Off qs f) (hg : Off qs g) :
    Off qs (fun w => f (g w)) := fun w k hk =>
  ⟨(hf (g w) k hk).1.trans (hg w k hk).1, (hf (g w) k hk).2.trans (hg w k hk).2⟩

theorem Off.mono {qs qs' : List Nat} {f : Row → Row} (hf : Off qs f) (h : ∀ q ∈ qs, q ∈ qs') :
    Off qs' f := fun w k hk => hf w k (fun hm => hk (h k hm))

macro "off1" d:ident : tactic =>
  `(tactic| (intro w k hk; simp only [List.mem_cons, List.mem_nil_iff, or_false, not_or] at hk; simp [$d:ident, upd, hk]))

theorem off_I (q) : Off [q] (opI q) := fun _ _ _ => ⟨rfl, rfl⟩
theorem off_H (q) : Off [q] (opH q) := by off1 opH
theorem off_X (q) : Off [q] (opX q) := by off1 opX
theorem off_Y (q) : Off [q] (opY q) := by off1 opY
theorem off_Z (q) : Off [q] (opZ q) := by off1 opZ
theorem off_S (q) : Off [q] (opS q) := by off1 opS
theorem off_SDG (q) : Off [q] (opSDG q) := by off1 opSDG
theorem off_SX (q) : Off [q] (opSX q) := by off1 opSX
theorem off_SXDG (q) : Off [q] (opSXDG q) := by off1 opSXDG
theorem off_RYpi (q) : Off [q] (opRYpi q) := by off1 opRYpi
theorem off_RY3pi2 (q) : Off [q] (opRY3pi2 q) := by off1 opRY3pi2
theorem off_CNOT (c t) : Off [c, t] (opCNOT c t) := by off1 opCNOT
theorem off_CZ (c t) : Off [c, t] (opCZ c t) := by off1 opCZ
theorem off_CY (c t) : Off [c, t] (opCY c t) := by off1 opCY
theorem off_SWAP (c t) : Off [c, t] (opSWAP c t) := by off1 opSWAP
theorem off_iSWAP (c t) : Off [c, t] (opiSWAP c t) := by off1 opiSWAP

theorem off_RX (q k) : Off [q] (opRX q k) := by
  unfold opRX; rcases res4_cases k with h | h | h | h <;> rw [h]
  · exact off_I q
  · exact off_SX q
  · exact off_X q
  · exact off_SXDG q
theorem off_RY (q k) : Off [q] (opRY q k) := by
  unfold opRY; rcases res4_cases k with h | h | h | h <;> rw [h]
  · exact off_I q
  · exact off_RYpi q
  · exact off_Y q
  · exact off_RY3pi2 q
theorem off_RZ (q k) : Off [q] (opRZ q k) := by
  unfold opRZ; rcases res4_cases k with h | h | h | h <;> rw [h]
  · exact off_I q
  · exact off_S q
  · exact off_Z q
  · exact off_SDG q

theorem sub_c (c t : Nat) : ∀ q ∈ [c], q ∈ [c, t] := by simp
theorem sub_t (c t : Nat) : ∀ q ∈ [t], q ∈ [c, t] := by simp
theorem sub_tc (c t : Nat) : ∀ q ∈ [t, c], q ∈ [c, t] := by
  intro q hq; simp only [List.mem_cons, List.mem_nil_iff, or_false] at hq ⊢; exact hq.symm

theorem off_ECR (c t) : Off [c, t] (opECR c t) :=
  ((off_X c).mono (sub_c c t)).comp ((off_CNOT c t).comp
    (((off_SX t).mono (sub_t c t)).comp ((off_S c).mono (sub_c c t))))

theorem off_FSWAP (c t) : Off [c, t] (opFSWAP c t) :=
  ((off_X c).mono (sub_c c t)).comp ((off_CNOT c t).comp
    (((off_CNOT t c).mono (sub_tc c t)).comp (((off_RY c (-1)).mono (sub_c c t)).comp
      (((off_CNOT t c).mono (sub_tc c t)).comp (((off_RY c 1).mono (sub_c c t)).comp
        ((off_CNOT c t).comp ((off_X t).mono (sub_t c t))))))))

theorem off_CRX (c t k) : Off [c, t] (opCRX c t k) := by
  have hX := (off_X t).mono (sub_t c t)
  have hY := (off_Y t).mono (sub_t c t)
  unfold opCRX; rcases res4_cases k with h | h | h | h <;> rw [h]
  · exact (off_I t).mono (sub_t c t)
  · exact (off_CY c t).comp (hX.comp ((off_CZ c t).comp hX))
  · exact hY.comp ((off_CZ c t).comp (hY.comp (off_CZ c t)))
  · exact (off_CZ c t).comp (hX.comp ((off_CY c t).comp hX))

theorem off_CRZ (c t k) : Off [c, t] (opCRZ c t k) := by
  have hX := (off_X t).mono (sub_t c t)
  unfold opCRZ; rcases res4_cases k with h | h | h | h <;> rw [h]
  · exact (off_I t).mono (sub_t c t)
  · exact (off_CNOT c t).comp (hX.comp ((off_CY c t).comp hX))
  · exact hX.comp ((off_CZ c t).comp (hX.comp (off_CZ c t)))
  · exact hX.comp ((off_CY c t).comp (hX.comp (off_CNOT c t)))

theorem off_CRY (c t k) : Off [c, t] (opCRY c t k) := by
  have hZ := (off_Z t).mono (sub_t c t)
  unfold opCRY; rcases res4_cases k with h | h | h | h <;> rw [h]
  · exact (off_I t).mono (sub_t c t)
  · exact (off_CZ c t).comp (hZ.comp ((off_CNOT c t).comp hZ))
  · exact off_CRZ c t k
  · exact hZ.comp ((off_CNOT c t).comp (hZ.comp (off_CZ c t)))

theorem off_gate (g : Gate) : Off g.qubits g.act := by
  cases g <;> simp only [Gate.qubits, Gate.act]
  case I q => exact off_I q
  case H q => exact off_H q
  case X q => exact off_X q
  case Y q => exact off_Y q
  case Z q => exact off_Z q
  case S q => exact off_S q
  case SDG q => exact off_SDG q
  case SX q => exact off_SX q
  case SXDG q => exact off_SXDG q
  case CNOT c t => exact off_CNOT c t
  case CZ c t => exact off_CZ c t
  case CY c t => exact off_CY c t
  case SWAP c t => exact off_SWAP c t
  case iSWAP c t => exact off_iSWAP c t
  case FSWAP c t => exact off_FSWAP c t
  case ECR c t => exact off_ECR c t
  case RX q k => exact off_RX q k
  case RY q k => exact off_RY q k
  case RZ q k => exact off_RZ q k
  case CRX c t k => exact off_CRX c t k
  case CRY c t k => exact off_CRY c t k
  case CRZ c t k => exact off_CRZ c t k


end QV.Cliff
