/-
  QV.Proofs.PipelineUnroll — LOCALITY of the unroller's dispatch model
  (QV/Model/Unroller.lean, owned by C10; only imported here).

  `TablesLocal T`: every gate a call of one of the six translation tables returns acts on
  (a sub-multiset of) the qubits of the gate it was called with, and is not a measurement.
  It follows from a shape property of the table rows (`RowsLocal`: the qubit indices of
  every template gate are pairwise distinct, no template is an `M`), which is decided on
  the data of the real tables by `localCheck` (driver command LOCAL, on every run).

  Locality is preserved by the dispatch: one-qubit dispatch, the two-qubit dispatch with
  the recursive call of the iSWAP-only path, the re-translation of the one-qubit gates of
  a two-qubit decomposition — by induction over the recursion depth — and by
  `Unroller.__call__` (induction over the queue).  Consequences used by C11: a two-qubit
  gate of the unrolled circuit sits on the qubit pair of the two-qubit gate it came from
  (same order or reversed), no new pair appears, measurements are neither produced nor
  consumed: the contract `unrollOk` of the pipeline model holds for EVERY circuit.
-/
import Mathlib.Data.List.Perm.Basic
import Mathlib.Data.List.Perm.Subperm
import Mathlib.Data.List.Nodup
import Mathlib.Tactic
import QV.Proofs.Pipeline
import QV.Proofs.Unroller

set_option linter.unusedSectionVars false
set_option linter.unusedVariables false
set_option linter.unusedSimpArgs false

namespace QV.Unroll

/-! ### the property of the tables -/

/-- `y` acts inside `qs` (as a sub-multiset: no qubit used more often than `qs` has it)
    and is not a measurement. -/
def Loc (qs : List Nat) (y : UGate) : Prop := y.qubits.Subperm qs ∧ y.cls ≠ cM

theorem Loc.mono {qs qs' : List Nat} {y : UGate} (h : Loc qs y) (hs : qs.Subperm qs') : Loc qs' y :=
  ⟨h.1.trans hs, h.2⟩

/-- every gate a call of the table returns acts on a subset of the input gate's qubits. -/
def Table.CallLocal (t : Table) : Prop :=
  ∀ g out, g.cls ≠ cM → t.call g = some out → ∀ y ∈ out, Loc g.qubits y

/-- **the locality property of the translation tables.** -/
def TablesLocal (T : Tables) : Prop :=
  ∀ t ∈ [T.gpi2, T.u3, T.cz, T.iswap, T.opt, T.cnot], t.CallLocal

/-- shape property of the rows: template qubit indices pairwise distinct, no `M`. -/
def Table.RowsLocal (t : Table) : Prop :=
  ∀ c tg d, t.entry c tg = some d → ∀ x ∈ d, x.qubits.Nodup ∧ x.cls ≠ cM

/-! ### rows ⇒ calls -/

theorem mapM_getElem?_eq {qs : List Nat} :
    ∀ {is out : List Nat}, is.mapM (fun i => qs[i]?) = some out →
      out = is.map (fun i => qs.getD i 0) ∧ ∀ i ∈ is, i < qs.length
  | [], out, h => by simp at h; subst h; simp
  | i :: is, out, h => by
      rw [List.mapM_cons] at h
      cases hi : qs[i]? with
      | none => simp [hi] at h
      | some a =>
        cases his : is.mapM (fun i => qs[i]?) with
        | none => simp [hi, his] at h
        | some b =>
          simp [hi, his] at h
          subst h
          obtain ⟨e, hlt⟩ := mapM_getElem?_eq his
          have hil : i < qs.length := by
            rcases List.getElem?_eq_some_iff.1 hi with ⟨hl, _⟩
            exact hl
          refine ⟨?_, ?_⟩
          · simp [List.getD_eq_getElem?_getD, hi, e]
          · intro j hj
            rcases List.mem_cons.1 hj with rfl | hj
            · exact hil
            · exact hlt j hj

theorem map_getD_range (qs : List Nat) :
    (List.range qs.length).map (fun i => qs.getD i 0) = qs := by
  apply List.ext_getElem
  · simp
  · intro i h1 h2
    simp [List.getD_eq_getElem?_getD, h2]

/-- pairwise distinct in-range positions select a sub-multiset. -/
theorem map_getD_subperm {qs is : List Nat} (hn : is.Nodup) (hlt : ∀ i ∈ is, i < qs.length) :
    (is.map (fun i => qs.getD i 0)).Subperm qs := by
  have h1 : is.Subperm (List.range qs.length) :=
    List.subperm_of_subset hn (fun i hi => List.mem_range.2 (hlt i hi))
  obtain ⟨l, hp, hs⟩ := h1
  have h2 : (is.map (fun i => qs.getD i 0)).Subperm ((List.range qs.length).map (fun i => qs.getD i 0)) :=
    ⟨l.map _, hp.map _, hs.map _⟩
  rwa [map_getD_range] at h2

theorem place_local {qs : List Nat} {x y : UGate} (hn : x.qubits.Nodup) (h : place qs x = some y) :
    y.qubits.Subperm qs ∧ y.cls = x.cls := by
  unfold place at h
  cases hq : x.qubits.mapM (fun i => qs[i]?) with
  | none => simp [hq] at h
  | some q =>
    simp [hq] at h
    subst h
    obtain ⟨e, hlt⟩ := mapM_getElem?_eq hq
    refine ⟨?_, rfl⟩
    show q.Subperm qs
    rw [e]
    exact map_getD_subperm hn hlt

theorem callLocal_of_rows {t : Table} (h : t.RowsLocal) : t.CallLocal := by
  intro g out hg hc y hy
  unfold Table.call at hc
  by_cases hcb : g.cb = true
  · simp [hcb] at hc
    subst hc
    simp at hy
    subst hy
    exact ⟨List.Subperm.refl _, hg⟩
  · simp only [hcb] at hc
    cases hd : t.check g with
    | none => simp [hd] at hc
    | some d =>
      simp [hd] at hc
      unfold Table.check at hd
      by_cases hh : t.has g.cls = true
      · simp only [hh, if_true] at hd
        obtain ⟨x, hx, hp⟩ := mapM_option_mem hc y hy
        obtain ⟨hn, hm⟩ := h _ _ d hd x hx
        obtain ⟨h1, h2⟩ := place_local hn hp
        exact ⟨h1, by rw [h2]; exact hm⟩
      · simp [hh] at hd

theorem tablesLocal_of_rows {T : Tables}
    (h : ∀ t ∈ [T.gpi2, T.u3, T.cz, T.iswap, T.opt, T.cnot], t.RowsLocal) : TablesLocal T :=
  fun t ht => callLocal_of_rows (h t ht)

/-! ### locality is preserved by the dispatch -/

theorem single_local {T : Tables} {nat : Natives} (hL : TablesLocal T) {g : UGate}
    {out : List UGate} (hg : g.cls ≠ cM) (h : single T nat g = some out) :
    ∀ y ∈ out, Loc g.qubits y := by
  unfold single at h
  split at h
  · exact hL T.u3 (by simp) g out hg h
  · split at h
    · exact hL T.gpi2 (by simp) g out hg h
    · simp at h

theorem twoQ_local {T : Tables} {nat : Natives} (hL : TablesLocal T)
    {rec : UGate → Option (List UGate)}
    (hrec : ∀ x p, x.cls ≠ cM → rec x = some p → ∀ y ∈ p, Loc x.qubits y)
    {g : UGate} (hg : g.cls ≠ cM) {out : List UGate} (h : twoQ T nat rec g = some out) :
    ∀ y ∈ out, Loc g.qubits y := by
  have ho := hL T.opt (by simp) g out hg
  have hc := hL T.cz (by simp) g
  have hi := hL T.iswap (by simp) g out hg
  have hn := hL T.cnot (by simp) g out hg
  unfold twoQ at h
  split at h
  · split at h
    · exact ho h
    · split at h
      · exact hc out hg h
      · cases h1 : T.cz.count2q g with
        | none => simp [h1] at h
        | some c =>
          cases h2 : T.iswap.count2q g with
          | none => simp [h1, h2] at h
          | some i =>
            simp only [h1, h2, Option.bind_eq_bind, Option.bind_some] at h
            split at h
            · exact hc out hg h
            · split at h
              · exact hi h
              · cases h3 : T.cz.count1q g with
                | none => simp [h3] at h
                | some c1 =>
                  cases h4 : T.iswap.count1q g with
                  | none => simp [h3, h4] at h
                  | some i1 =>
                    simp only [h3, h4, Option.bind_some] at h
                    split at h
                    · exact hc out hg h
                    · exact hi h
  · split at h
    · exact hc out hg h
    · split at h
      · split at h
        · exact hi h
        · -- the iSWAP-only path: CZ decomposition, every piece translated recursively
          cases hd : T.cz.call g with
          | none => simp [hd] at h
          | some d =>
            simp only [hd, Option.bind_eq_bind, Option.bind_some] at h
            have hdl := hc d hg hd
            exact flatMapM_forall (fun y => Loc g.qubits y)
              (fun x hx p hp y hy => (hrec x p (hdl x hx).2 hp y hy).mono (hdl x hx).1) h
      · split at h
        · exact hn h
        · simp at h

theorem retranslate_local {T : Tables} {nat : Natives} (hL : TablesLocal T) {qs : List Nat}
    {x : UGate} (hx : Loc qs x) {p : List UGate} (h : retranslate T nat x = some p) :
    ∀ y ∈ p, Loc qs y := by
  unfold retranslate at h
  split at h
  · exact fun y hy => (single_local hL hx.2 h y hy).mono hx.1
  · simp at h
    subst h
    intro y hy
    simp at hy
    subst hy
    exact hx

theorem not_meas_of_not_passThrough {c : Nat} (h : ¬ passThrough c = true) : c ≠ cM := by
  intro e
  subst e
  exact h (by decide)

/-- main induction over the recursion depth: every emitted gate acts inside the qubits of
    the translated gate and is no measurement — except that a pass-through gate
    (`I`, `Align`, `M`) is returned as it is. -/
theorem translateAux_local {T : Tables} {nat : Natives} (hL : TablesLocal T) :
    ∀ (fuel : Nat) (lo : Bool) (g : UGate) (out : List UGate),
      translateAux T nat fuel lo g = some out →
      (∀ y ∈ out, Loc g.qubits y) ∨ (lo = false ∧ passThrough g.cls = true ∧ out = [g])
  | 0, _, _, _, h => by simp [translateAux] at h
  | fuel + 1, lo, g, out, h => by
    unfold translateAux at h
    by_cases hp : passThrough g.cls = true
    · rw [if_pos hp] at h
      cases lo with
      | true => simp at h
      | false =>
        simp at h
        exact Or.inr ⟨rfl, hp, h.symm⟩
    · rw [if_neg hp] at h
      have hg := not_meas_of_not_passThrough hp
      split at h
      · cases h
      · split at h
        · exact Or.inl (single_local hL hg h)
        · cases hd : twoQ T nat (translateAux T nat fuel true) g with
          | none => simp [hd] at h
          | some d =>
            simp only [hd, Option.bind_eq_bind, Option.bind_some] at h
            have hrec : ∀ x p, x.cls ≠ cM → translateAux T nat fuel true x = some p →
                ∀ y ∈ p, Loc x.qubits y := by
              intro x p _ hx
              rcases translateAux_local hL fuel true x p hx with h' | ⟨h', _⟩
              · exact h'
              · cases h'
            have hmid := twoQ_local hL hrec hg hd
            exact Or.inl (flatMapM_forall (fun y => Loc g.qubits y)
              (fun x hx p hp => retranslate_local hL (hmid x hx) hp) h)

/-! ### one translated gate: what the piece looks like -/

/-- what `translate_gate` returns for one gate of the queue (closed, local tables). -/
structure Piece (nat : Natives) (g : UGate) (p : List UGate) : Prop where
  meas  : g.cls = cM → p = [g]
  other : g.cls ≠ cM → ∀ y ∈ p, y.cls ≠ cM ∧ y.qubits.Subperm g.qubits

theorem translate_piece {T : Tables} {nat : Natives} (hL : TablesLocal T) {fuel : Nat}
    {g : UGate} {p : List UGate} (h : translate T nat fuel g = some p) : Piece nat g p := by
  unfold translate at h
  rcases translateAux_local hL fuel false g p h with h1 | ⟨_, hp, rfl⟩
  · constructor
    · intro hm
      cases fuel with
      | zero => simp [translateAux] at h
      | succ f =>
        unfold translateAux at h
        have : passThrough g.cls = true := by rw [hm]; decide
        simpa [this] using h.symm
    · intro _ y hy
      exact ⟨(h1 y hy).2, (h1 y hy).1⟩
  · constructor
    · intro _; rfl
    · intro hg y hy
      simp at hy
      subst hy
      exact ⟨hg, List.Subperm.refl _⟩

/-- a sub-multiset of at most two qubits that has two qubits is the pair itself, in the
    same order or reversed. -/
theorem pair_of_subperm {ys qs : List Nat} (hs : ys.Subperm qs) (hq : qs.length ≤ 2)
    (hy : ys.length = 2) : ys = qs ∨ ys = qs.reverse := by
  have hp : ys.Perm qs := hs.perm_of_length_le (by omega)
  have hl : qs.length = 2 := by rw [← hp.length_eq]; exact hy
  match ys, qs, hy, hl, hp with
  | [a, b], [c, d], _, _, hp =>
    have ha : a ∈ [c, d] := hp.subset (by simp)
    have hb : b ∈ [c, d] := hp.subset (by simp)
    have hc : c ∈ [a, b] := hp.symm.subset (by simp)
    have hd : d ∈ [a, b] := hp.symm.subset (by simp)
    simp only [List.mem_cons, List.not_mem_nil, or_false] at ha hb hc hd
    simp only [List.reverse_cons, List.reverse_nil, List.nil_append, List.cons_append,
      List.cons.injEq, and_true]
    rcases ha with rfl | rfl
    · rcases hd with rfl | rfl
      · rcases hb with rfl | rfl
        · left; exact ⟨rfl, rfl⟩
        · left; exact ⟨rfl, rfl⟩
      · left; exact ⟨rfl, rfl⟩
    · rcases hc with rfl | rfl
      · rcases hb with rfl | rfl
        · right; exact ⟨rfl, rfl⟩
        · right; exact ⟨rfl, rfl⟩
      · right; exact ⟨rfl, rfl⟩

/-! ### the whole queue (`Unroller.__call__`) -/

/-- every gate of the unrolled queue comes from a gate of the input queue whose qubits
    contain its own; measurements are the input's measurements, unchanged. -/
theorem unroll_local {T : Tables} {nat : Natives} (hL : TablesLocal T) (fuel : Nat) :
    ∀ {gs out : List UGate}, unroll T nat fuel gs = some out →
      ∀ y ∈ out, ∃ g ∈ gs, y.qubits.Subperm g.qubits ∧ (y.cls = cM ∨ g.cls = cM → y = g)
  | [], out, h => by
      simp [unroll, flatMapM] at h; subst h; intro y hy; simp at hy
  | g :: gs, out, h => by
      obtain ⟨a, b, ha, hb, rfl⟩ := flatMapM_cons_some h
      have hp := translate_piece hL ha
      intro y hy
      rcases List.mem_append.1 hy with hy | hy
      · refine ⟨g, List.mem_cons_self .., ?_⟩
        by_cases hg : g.cls = cM
        · rw [hp.meas hg] at hy
          simp at hy
          subst hy
          exact ⟨List.Subperm.refl _, fun _ => rfl⟩
        · obtain ⟨h1, h2⟩ := hp.other hg y hy
          exact ⟨h2, fun h => by rcases h with h | h <;> contradiction⟩
      · obtain ⟨g', hg', h'⟩ := unroll_local hL fuel (gs := gs) hb y hy
        exact ⟨g', List.mem_cons_of_mem _ hg', h'⟩

/-- the measurement gates of the unrolled queue are those of the input, in order. -/
theorem unroll_filter_meas {T : Tables} {nat : Natives} (hL : TablesLocal T) (fuel : Nat) :
    ∀ {gs out : List UGate}, unroll T nat fuel gs = some out →
      out.filter (fun y => y.cls == cM) = gs.filter (fun y => y.cls == cM)
  | [], out, h => by
      simp [unroll, flatMapM] at h; subst h; rfl
  | g :: gs, out, h => by
      obtain ⟨a, b, ha, hb, rfl⟩ := flatMapM_cons_some h
      have hp := translate_piece hL ha
      have ih := unroll_filter_meas hL fuel (gs := gs) hb
      rw [List.filter_append, ih]
      by_cases hg : g.cls = cM
      · rw [hp.meas hg]
        simp [List.filter_cons, hg]
      · have : a.filter (fun y => y.cls == cM) = [] := by
          apply List.filter_eq_nil_iff.2
          intro y hy
          simpa using (hp.other hg y hy).1
        rw [this]
        simp [List.filter_cons, hg]

/-- under closed tables every gate of the unrolled queue is a measurement, of a native
    class, or an untouched pass-through gate of the input. -/
theorem unroll_native {T : Tables} {nat : Natives} (hC : Closed T nat) (fuel : Nat) :
    ∀ {gs out : List UGate}, unroll T nat fuel gs = some out →
      ∀ y ∈ out, isNative nat y.cls = true ∨ (y ∈ gs ∧ passThrough y.cls = true)
  | [], out, h => by
      simp [unroll, flatMapM] at h; subst h; intro y hy; simp at hy
  | g :: gs, out, h => by
      obtain ⟨a, b, ha, hb, rfl⟩ := flatMapM_cons_some h
      intro y hy
      rcases List.mem_append.1 hy with hy | hy
      · rcases translateAux_native hC fuel false g a ha with h1 | ⟨_, hp, rfl⟩
        · exact Or.inl (h1 y hy)
        · simp at hy
          subst hy
          exact Or.inr ⟨List.mem_cons_self .., hp⟩
      · rcases unroll_native hC fuel (gs := gs) hb y hy with h1 | ⟨h1, h2⟩
        · exact Or.inl h1
        · exact Or.inr ⟨List.mem_cons_of_mem _ h1, h2⟩

end QV.Unroll

namespace QV.Pipe
open QV.Unroll

/-! ### decided on finite table data -/

theorem localRows_sound {d : TableData} (h : localRows d = true) : d.toTable.RowsLocal := by
  intro c tg r he x hx
  have hm := toTable_entry_mem he
  simp only [localRows, List.all_eq_true, Bool.and_eq_true, decide_eq_true_eq,
    bne_iff_ne] at h
  exact h _ hm x hx

theorem localCheck_sound (D : TablesData) (h : localCheck D = true) : TablesLocal D.toTables := by
  simp only [localCheck, Bool.and_eq_true] at h
  obtain ⟨⟨⟨⟨⟨h1, h2⟩, h3⟩, h4⟩, h5⟩, h6⟩ := h
  apply tablesLocal_of_rows
  intro t ht
  simp only [TablesData.toTables, List.mem_cons, List.not_mem_nil, or_false] at ht
  rcases ht with rfl | rfl | rfl | rfl | rfl | rfl
  · exact localRows_sound h1
  · exact localRows_sound h2
  · exact localRows_sound h3
  · exact localRows_sound h4
  · exact localRows_sound h5
  · exact localRows_sound h6

theorem toU_ofU {x : UGate} (h : x.cb = false) : (PGate.ofU x).toU = x := by
  cases x
  simp only [PGate.ofU, PGate.toU] at h ⊢
  simp_all

/-- a result of `unrollDispatch` is a result of C10's `unroll`. -/
theorem unrollDispatch_some {T : Tables} {nat : Natives} {fuel : Nat} {q out : List PGate}
    (h : unrollDispatch T nat fuel q = some out) :
    unroll T nat fuel (q.map PGate.toU) = some (out.map PGate.toU) := by
  unfold unrollDispatch at h
  cases hu : unroll T nat fuel (q.map PGate.toU) with
  | none => simp [hu] at h
  | some o =>
    simp only [hu, Option.bind_some] at h
    split at h
    · rename_i hall
      injection h with h
      subst h
      simp only [List.all_eq_true, Bool.not_eq_true'] at hall
      congr 1
      rw [List.map_map]
      conv_lhs => rw [← List.map_id o]
      apply List.map_congr_left
      intro x hx
      simp [toU_ofU (hall x hx)]
    · cases h

theorem unrollInputOk_iff {nat : Natives} {inp : List PGate} (h : unrollInputOk nat inp = true) :
    ∀ g ∈ inp, g.meas = true ∨ (g.qs.length ≤ 2 ∧
        (passThrough g.cls = true → isNative nat g.cls = true)) := by
  simp only [unrollInputOk, List.all_eq_true, Bool.or_eq_true, Bool.and_eq_true,
    decide_eq_true_eq, Bool.not_eq_true'] at h
  intro g hg
  rcases h g hg with h | ⟨h1, h2⟩
  · exact Or.inl h
  · refine Or.inr ⟨h1, fun hp => ?_⟩
    rcases h2 with h2 | h2
    · rw [hp] at h2; cases h2
    · exact h2

theorem toU_injective : Function.Injective PGate.toU := by
  intro a b h
  cases a; cases b
  simp only [PGate.toU, UGate.mk.injEq] at h
  obtain ⟨h1, h2, h3, _⟩ := h
  subst h1; subst h2; subst h3
  rfl

theorem samePair_of {a b : List Nat} (h : a = b ∨ a = b.reverse) : samePair a b = true := by
  simp only [samePair, Bool.or_eq_true, beq_iff_eq]
  exact h

/-- **`unrollOk` is a theorem about the dispatch model**, no longer a per-run validation:
    closed and local tables, a queue of measurements and gates on at most two qubits whose
    pass-through gates (`I`, `Align`) are native: whatever the unroller returns for it
    satisfies the contract the acceptance theorem assumes. -/
theorem unrollOk_of_dispatch (T : Tables) (nat : Natives) (fuel : Nat) (inp out : List PGate)
    (hC : Closed T nat) (hL : TablesLocal T)
    (hin : ∀ g ∈ inp, g.meas = true ∨ (g.qs.length ≤ 2 ∧
        (passThrough g.cls = true → isNative nat g.cls = true)))
    (hu : unroll T nat fuel (inp.map PGate.toU) = some (out.map PGate.toU)) :
    unrollOk nat inp out = true := by
  have hloc := unroll_local hL fuel hu
  have hnat := unroll_native hC fuel hu
  have hfil := unroll_filter_meas hL fuel hu
  -- the source gate of an output gate, as a PGate
  have src : ∀ y ∈ out, ∃ g ∈ inp, y.qs.Subperm g.qs ∧ (y.meas = true ∨ g.meas = true → y = g) := by
    intro y hy
    obtain ⟨gu, hgu, h1, h2⟩ := hloc y.toU (List.mem_map_of_mem hy)
    obtain ⟨g, hg, rfl⟩ := List.mem_map.1 hgu
    refine ⟨g, hg, h1, fun h => toU_injective (h2 ?_)⟩
    simpa [PGate.meas, PGate.toU] using h
  simp only [unrollOk, Bool.and_eq_true, List.all_eq_true, Bool.or_eq_true, beq_iff_eq]
  refine ⟨⟨?_, ?_⟩, ?_⟩
  · intro y hy
    by_cases hm : y.meas = true
    · exact Or.inl hm
    · right
      obtain ⟨g, hg, hsub, hmeas⟩ := src y hy
      have hgm : ¬ g.meas = true := fun h => hm (by rw [hmeas (Or.inr h)]; exact h)
      rcases hin g hg with h | ⟨hlen, hpt⟩
      · exact absurd h hgm
      · have hle : y.qs.length ≤ 2 := le_trans hsub.length_le hlen
        simp only [Bool.and_eq_true, decide_eq_true_eq]
        refine ⟨hle, ?_⟩
        rcases hnat y.toU (List.mem_map_of_mem hy) with h | ⟨h1, h2⟩
        · exact h
        · obtain ⟨g', hg', e⟩ := List.mem_map.1 h1
          have : g' = y := toU_injective e
          subst this
          rcases hin g' hg' with h | ⟨_, hpt'⟩
          · exact absurd h hm
          · exact hpt' h2
  · intro y hy
    by_cases hm : y.meas = true
    · exact Or.inl (Or.inl hm)
    · by_cases h2 : y.qs.length = 2
      · right
        obtain ⟨g, hg, hsub, hmeas⟩ := src y hy
        have hgm : ¬ g.meas = true := fun h => hm (by rw [hmeas (Or.inr h)]; exact h)
        rcases hin g hg with h | ⟨hlen, _⟩
        · exact absurd h hgm
        · simp only [List.any_eq_true, Bool.and_eq_true, Bool.not_eq_true']
          exact ⟨g, hg, by simpa using hgm, samePair_of (pair_of_subperm hsub hlen h2)⟩
      · left; right
        simpa using h2
  · have e1 : (out.map PGate.toU).filter (fun y => y.cls == cM) = (out.filter (·.meas)).map PGate.toU := by
      rw [List.filter_map]; rfl
    have e2 : (inp.map PGate.toU).filter (fun y => y.cls == cM) = (inp.filter (·.meas)).map PGate.toU := by
      rw [List.filter_map]; rfl
    rw [e1, e2] at hfil
    exact (List.map_injective_iff.2 toU_injective) hfil

/-- **unrolling preserves the connectivity, for all circuits**: if every gate of the queue
    passes the test of `assert_connectivity` under the wire names `w`, so does every gate
    of the unrolled queue (no closure of the tables, no native set involved). -/
theorem unroll_keeps_connectivity (T : Tables) (nat : Natives) (fuel : Nat) (d : Device)
    (w : List Name) (inp out : List PGate) (hL : TablesLocal T)
    (hu : unroll T nat fuel (inp.map PGate.toU) = some (out.map PGate.toU))
    (hc : ∀ g ∈ inp, connOk d w g = true) : ∀ y ∈ out, connOk d w y = true := by
  intro y hy
  obtain ⟨gu, hgu, hsub, hmeas⟩ := unroll_local hL fuel hu y.toU (List.mem_map_of_mem hy)
  obtain ⟨g, hg, rfl⟩ := List.mem_map.1 hgu
  have hsub' : y.qs.Subperm g.qs := hsub
  by_cases hm : y.meas = true
  · simp [connOk, hm]
  · have hm' : y.meas = false := by simpa using hm
    have hgm : g.meas = false := by
      cases hgm : g.meas with
      | false => rfl
      | true =>
        have : y.toU = g.toU := hmeas (Or.inr (by simpa [PGate.meas, PGate.toU] using hgm))
        rw [toU_injective this] at hm
        exact absurd hgm hm
    have hcg := hc g hg
    simp only [connOk, hgm, Bool.false_or] at hcg
    have hglen : g.qs.length ≤ 2 := by
      split at hcg
      · rename_i a b hab; rw [hab]; simp
      · simpa using hcg
    simp only [connOk, hm', Bool.false_or]
    split
    · rename_i a b hab
      have h2 : y.qs.length = 2 := by rw [hab]; rfl
      rcases pair_of_subperm hsub' hglen h2 with e | e
      · rw [← e, hab] at hcg
        simpa using hcg
      · have e' : g.qs = [b, a] := by
          have := congrArg List.reverse e
          rw [List.reverse_reverse, hab] at this
          simpa using this.symm
        rw [e'] at hcg
        rw [hasEdge_symm]
        simpa using hcg
    · simpa using le_trans hsub'.length_le hglen

end QV.Pipe
