/-
  QV.Proofs.Einsum — the einsum interpreter of QV/Model/Einsum.lean applied to the strings of
  `prepare_strings` IS the gate action (part 1: generic lemmas, state-vector pipeline without
  controls).
-/
import Mathlib.Data.List.Nodup
import Mathlib.Data.List.Perm.Basic
import Mathlib.Data.List.Range
import QV.Proofs.SimLemmas
import QV.Model.Einsum

namespace QV.Einsum
open QV Finset

/-! ### small list facts -/

theorem mem_dedup {l : Nat} {ls : List Nat} : l ∈ dedup ls ↔ l ∈ ls := by
  induction ls with
  | nil => simp [dedup]
  | cons a as ih =>
    simp only [dedup, List.mem_cons, List.mem_filter, ih, bne_iff_ne, ne_eq]
    constructor
    · rintro (h | ⟨h, _⟩)
      · exact Or.inl h
      · exact Or.inr h
    · rintro (h | h)
      · exact Or.inl h
      · by_cases e : l = a
        · exact Or.inl e
        · exact Or.inr ⟨h, e⟩

theorem nodup_dedup (ls : List Nat) : (dedup ls).Nodup := by
  induction ls with
  | nil => simp [dedup]
  | cons a as ih =>
    simp only [dedup, List.nodup_cons, List.mem_filter, bne_self_eq_false, and_false,
      not_false_eq_true, true_and, Bool.false_eq_true]
    exact ih.filter _

/-! ### `idx` / `wIdx` along a map of the qubit list -/

theorem idx_map (f : Nat → Nat) (qs : List Nat) (x : Lab) :
    Lab.idx (qs.map f) x = Lab.idx qs (fun q => x (f q)) := by
  induction qs with
  | nil => rfl
  | cons q qs ih => rw [List.map_cons, Lab.idx_cons, Lab.idx_cons, ih, List.length_map]

theorem wIdx_map (f : Nat → Nat) (qs : List Nat) (x : Lab) (k : Nat) (l : Nat)
    (hinj : ∀ a ∈ qs, f a = f l → a = l) :
    Lab.wIdx x (qs.map f) k (f l) = Lab.wIdx (fun q => x (f q)) qs k l := by
  induction qs generalizing k with
  | nil => rfl
  | cons q qs ih =>
    rw [List.map_cons, Lab.wIdx_cons, Lab.wIdx_cons, Lab.set_apply, Lab.set_apply, List.length_map]
    by_cases e : l = q
    · subst e; simp
    · have e' : f l ≠ f q := fun h => e (hinj q (List.mem_cons_self ..) h.symm).symm
      rw [if_neg e', if_neg e]
      exact ih _ fun a ha => hinj a (List.mem_cons_of_mem _ ha)

/-! ### `pull` on appended label lists -/

theorem pull_lt {ls : List Nat} {i : Nat} (h : i < ls.length) (σ : Lab) :
    pull ls σ i = σ ls[i] := by
  simp [pull, List.getElem?_eq_getElem h]

theorem pull_ge {ls : List Nat} {i : Nat} (h : ls.length ≤ i) (σ : Lab) :
    pull ls σ i = false := by
  simp [pull, List.getElem?_eq_none h]

theorem idx_pull_append (as bs : List Nat) (σ : Lab) :
    Lab.idx (List.range' as.length bs.length) (pull (as ++ bs) σ) = Lab.idx bs σ := by
  induction bs generalizing as with
  | nil => rfl
  | cons b bs ih =>
    rw [List.length_cons, List.range'_succ, Lab.idx_cons, Lab.idx_cons, List.length_range']
    have h1 : pull (as ++ b :: bs) σ as.length = σ b := by
      simp [pull]
    have h2 := ih (as ++ [b])
    simp only [List.length_append, List.length_cons, List.length_nil, List.append_assoc,
      List.cons_append, List.nil_append, Nat.zero_add] at h2
    rw [h1, h2]

theorem idx_pull_left (as bs : List Nat) (σ : Lab) :
    Lab.idx (List.range as.length) (pull (as ++ bs) σ) = Lab.idx as σ := by
  have h := idx_pull_append [] as σ
  simp only [List.length_nil, List.nil_append] at h
  rw [← h, List.range_eq_range']
  apply Lab.idx_congr
  intro r hr
  have hr' : r < as.length := by simpa using hr
  rw [pull_lt (by simp; omega), pull_lt hr', List.getElem_append_left hr']

/-! ### the renaming `q_i ↦ fresh_i` of `prepare_strings` -/

/-- the label map that `prepare_strings` applies to `inp` to get `out`. -/
def rename (tl fresh : List Nat) (l : Nat) : Nat :=
  if tl.contains l then fresh.getD (tl.idxOf l) 0 else l

theorem rename_of_not_mem {tl fresh : List Nat} {l : Nat} (h : l ∉ tl) : rename tl fresh l = l := by
  simp [rename, h]

theorem rename_of_mem {tl fresh : List Nat} {l : Nat} (h : l ∈ tl) (hlen : fresh.length = tl.length) :
    rename tl fresh l = fresh[tl.idxOf l]'(by rw [hlen]; exact List.idxOf_lt_length_of_mem h) := by
  have : tl.idxOf l < fresh.length := by rw [hlen]; exact List.idxOf_lt_length_of_mem h
  simp [rename, h, List.getElem?_eq_getElem this]

theorem rename_mem_fresh {tl fresh : List Nat} {l : Nat} (h : l ∈ tl)
    (hlen : fresh.length = tl.length) : rename tl fresh l ∈ fresh := by
  rw [rename_of_mem h hlen]; exact List.getElem_mem _

theorem map_rename_self {tl fresh : List Nat} (htl : tl.Nodup) (hlen : fresh.length = tl.length) :
    tl.map (rename tl fresh) = fresh := by
  apply List.ext_getElem
  · simp [hlen]
  · intro j h1 h2
    have hj : j < tl.length := by simpa using h1
    rw [List.getElem_map, rename_of_mem (List.getElem_mem hj) hlen]
    congr 1
    exact htl.idxOf_getElem j hj

theorem rename_injOn {la tl fresh : List Nat} (hfr : fresh.Nodup)
    (hlen : fresh.length = tl.length) (hdisj : ∀ l ∈ fresh, l ∉ la) {a b : Nat} (ha : a ∈ la)
    (hb : b ∈ la) (h : rename tl fresh a = rename tl fresh b) : a = b := by
  by_cases ma : a ∈ tl <;> by_cases mb : b ∈ tl
  · rw [rename_of_mem ma hlen, rename_of_mem mb hlen] at h
    have := (hfr.getElem_inj_iff).mp h
    have h2 : tl[tl.idxOf a]'(List.idxOf_lt_length_of_mem ma) = tl[tl.idxOf b]'(List.idxOf_lt_length_of_mem mb) := by
      congr 1
    rwa [List.getElem_idxOf, List.getElem_idxOf] at h2
  · exfalso
    rw [rename_of_not_mem mb] at h
    exact hdisj _ (rename_mem_fresh ma hlen) (h ▸ hb)
  · exfalso
    rw [rename_of_not_mem ma] at h
    exact hdisj _ (rename_mem_fresh mb hlen) (h ▸ ha)
  · rwa [rename_of_not_mem ma, rename_of_not_mem mb] at h

theorem idxOf_map_of_injOn (f : Nat → Nat) (la : List Nat) {l : Nat} (hl : l ∈ la)
    (hinj : ∀ a ∈ la, f a = f l → a = l) : (la.map f).idxOf (f l) = la.idxOf l := by
  induction la with
  | nil => cases hl
  | cons a as ih =>
    rw [List.map_cons, List.idxOf_cons, List.idxOf_cons]
    by_cases e : a = l
    · subst e; simp
    · have e' : f a ≠ f l := fun h => e (hinj a (List.mem_cons_self ..) h)
      have h1 : (f a == f l) = false := by simpa using e'
      have h2 : (a == l) = false := by simpa using e
      rw [h1, h2, cond_false, cond_false]
      rw [ih ((List.mem_cons.mp hl).resolve_left (fun h => e h.symm))
        (fun b hb => hinj b (List.mem_cons_of_mem _ hb))]

/-- `push` through an injective relabelling. -/
theorem push_map (f : Nat → Nat) (la : List Nat) (y : Lab) {l : Nat} (hl : l ∈ la)
    (hinj : ∀ a ∈ la, f a = f l → a = l) : push (la.map f) y (f l) = y (la.idxOf l) := by
  have hm : f l ∈ la.map f := List.mem_map_of_mem hl
  simp only [push, List.contains_iff_mem, hm, if_true]
  rw [idxOf_map_of_injOn f la hl hinj]


/-! ### the generic statement: an einsum with the strings of `prepare_strings` is a gate -/

section Gate
variable {α : Type} [CommSemiring α]

theorem idxOf_injOn {la : List Nat} {a b : Nat} (ha : a ∈ la) (hb : b ∈ la)
    (h : la.idxOf a = la.idxOf b) : a = b := by
  have h2 : la[la.idxOf a]'(List.idxOf_lt_length_of_mem ha)
      = la[la.idxOf b]'(List.idxOf_lt_length_of_mem hb) := by congr 1
  rwa [List.getElem_idxOf, List.getElem_idxOf] at h2

theorem contracted_perm {la tl fresh : List Nat} (htl : tl.Nodup)
    (hsub : ∀ l ∈ tl, l ∈ la) (hlen : fresh.length = tl.length) (hdisj : ∀ l ∈ fresh, l ∉ la) :
    (contracted ⟨la, fresh ++ tl, la.map (rename tl fresh)⟩).Perm tl := by
  refine (List.perm_ext_iff_of_nodup (nodup_dedup _) htl).mpr fun l => ?_
  simp only [mem_dedup, List.mem_filter, List.mem_append, Bool.not_eq_true',
    List.contains_eq_mem, decide_eq_false_iff_not]
  constructor
  · rintro ⟨h | h | h, hn⟩
    · by_cases ml : l ∈ tl
      · exact ml
      · exact absurd (List.mem_map.mpr ⟨l, h, rename_of_not_mem ml⟩) hn
    · exfalso
      rw [← map_rename_self htl hlen] at h
      obtain ⟨t, ht, rfl⟩ := List.mem_map.mp h
      exact hn (List.mem_map_of_mem (hsub t ht))
    · exact h
  · intro h
    refine ⟨Or.inl (hsub l h), fun hm => ?_⟩
    obtain ⟨a, ha, e⟩ := List.mem_map.mp hm
    by_cases ma : a ∈ tl
    · exact hdisj l (e ▸ rename_mem_fresh ma hlen) (hsub l h)
    · rw [rename_of_not_mem ma] at e
      exact ma (e ▸ h)

/-- **einsum = gate.**  `la` labels of the state axes, `tl ⊆ la` the labels of the target axes,
`fresh` the new labels: the call `einsum("la, fresh·tl -> rename(la)", A, M)` multiplies the axes
carrying the labels `tl` (in that order) by the matrix `M`. -/
theorem einsum_gate {la tl fresh : List Nat} (hla : la.Nodup) (htl : tl.Nodup)
    (hsub : ∀ l ∈ tl, l ∈ la) (hfr : fresh.Nodup) (hlen : fresh.length = tl.length)
    (hdisj : ∀ l ∈ fresh, l ∉ la) (A : Lab → α) (M : Nat → Nat → α) (y : Lab)
    (hy : InRange la.length y) :
    einsum ⟨la, fresh ++ tl, la.map (rename tl fresh)⟩ A (matT tl.length M) y
      = applyGate ⟨M, tl.map (fun l => la.idxOf l), []⟩ A y := by
  have htp : (tl.map (fun l => la.idxOf l)).Nodup :=
    htl.map_on fun a ha b hb h => idxOf_injOn (hsub a ha) (hsub b hb) h
  have hdt : ∀ l, l ∈ fresh → l ∉ tl := fun l hl ht => hdisj l hl (hsub l ht)
  rw [applyGate_eq_sum _ htp]
  simp only [Lab.allOne, List.all_nil, if_true, List.length_map]
  unfold einsum
  rw [sumOver_perm (contracted_perm htl hsub hlen hdisj), sumOver_eq_sum' htl]
  apply sum_congr rfl
  intro κ hκ
  have hκ' : κ < 2 ^ tl.length := mem_range.mp hκ
  -- σ0 = assignment of the output labels, σ = the same with the contracted labels set to κ
  have key : ∀ l ∈ la, push (la.map (rename tl fresh)) y (rename tl fresh l) = y (la.idxOf l) :=
    fun l hl => push_map _ la y hl fun a ha h => rename_injOn hfr hlen hdisj ha hl h
  have ha : pull la (Lab.wIdx (push (la.map (rename tl fresh)) y) tl κ)
      = Lab.wIdx y (tl.map fun l => la.idxOf l) κ := by
    funext i
    by_cases hi : i < la.length
    · rw [pull_lt hi]
      have hmem : la[i] ∈ la := List.getElem_mem hi
      have hpos : la.idxOf la[i] = i := hla.idxOf_getElem i hi
      have h1 := wIdx_map (fun l => la.idxOf l) tl y κ la[i]
        (fun a ha h => idxOf_injOn (hsub a ha) hmem h)
      simp only [hpos] at h1
      rw [h1]
      by_cases ml : la[i] ∈ tl
      · exact Lab.wIdx_of_mem _ _ κ ml
      · rw [Lab.wIdx_of_not_mem _ _ ml, Lab.wIdx_of_not_mem _ _ ml]
        have := key _ hmem
        rw [rename_of_not_mem ml] at this
        exact this
    · have hi' : la.length ≤ i := Nat.le_of_not_lt hi
      rw [pull_ge hi']
      have : i ∉ tl.map fun l => la.idxOf l := by
        intro hm
        obtain ⟨t, ht, e⟩ := List.mem_map.mp hm
        have := List.idxOf_lt_length_of_mem (hsub t ht)
        omega
      rw [Lab.wIdx_of_not_mem _ _ this, hy i hi']
  have hb : Lab.idx (List.range tl.length)
      (pull (fresh ++ tl) (Lab.wIdx (push (la.map (rename tl fresh)) y) tl κ))
      = Lab.idx (tl.map fun l => la.idxOf l) y := by
    rw [← hlen, idx_pull_left, Lab.idx_wIdx_of_disjoint _ _ hdt, idx_map]
    have e : Lab.idx fresh (push (la.map (rename tl fresh)) y)
        = Lab.idx (tl.map (rename tl fresh)) (push (la.map (rename tl fresh)) y) := by
      rw [map_rename_self htl hlen]
    rw [e, idx_map]
    exact Lab.idx_congr fun r hr => key r (hsub r hr)
  have hc : Lab.idx (List.range' tl.length tl.length)
      (pull (fresh ++ tl) (Lab.wIdx (push (la.map (rename tl fresh)) y) tl κ)) = κ := by
    conv_lhs => rw [← hlen]
    rw [hlen]
    have := idx_pull_append fresh tl (Lab.wIdx (push (la.map (rename tl fresh)) y) tl κ)
    rw [hlen] at this
    rw [this, Lab.idx_wIdx _ htl hκ']
  show _ * matT tl.length M _ = _
  unfold matT
  rw [ha, hb, hc, mul_comm]

end Gate


/-! ### closed form of `prepare_strings` -/

theorem foldl_set_getElem? (ts fresh base : List Nat) (hts : ts.Nodup)
    (hlen : fresh.length = ts.length) (i : Nat) :
    ((ts.zip fresh).foldl (fun o qf => o.set qf.1 qf.2) base)[i]? =
      if i ∈ ts then (if i < base.length then some (fresh.getD (ts.idxOf i) 0) else none)
      else base[i]? := by
  induction ts generalizing fresh base with
  | nil => simp
  | cons t ts ih =>
    cases fresh with
    | nil => simp at hlen
    | cons f fs =>
      have hlen' : fs.length = ts.length := by simpa using hlen
      have htn : t ∉ ts := (List.nodup_cons.mp hts).1
      rw [List.zip_cons_cons, List.foldl_cons, ih fs (base.set t f) (List.nodup_cons.mp hts).2 hlen']
      by_cases e : i = t
      · subst e
        simp only [htn, if_false, List.mem_cons, true_or, if_true, List.idxOf_cons_self,
          List.getD_cons_zero]
        by_cases hb : i < base.length
        · simp [hb]
        · simp [hb]
      · have e' : t ≠ i := fun h => e h.symm
        by_cases hm : i ∈ ts
        · simp only [hm, if_true, List.length_set, List.mem_cons, or_true]
          rw [List.idxOf_cons_ne _ e', List.getD_cons_succ]
        · simp only [hm, if_false, List.mem_cons, e, or_self]
          rw [List.getElem?_set_ne e']

theorem prepare_out (ts fresh : List Nat) (n : Nat) (hts : ts.Nodup)
    (hlen : fresh.length = ts.length) :
    (ts.zip fresh).foldl (fun o qf => o.set qf.1 qf.2) (List.range n)
      = (List.range n).map (rename ts fresh) := by
  apply List.ext_getElem?
  intro i
  rw [foldl_set_getElem? ts fresh _ hts hlen, List.getElem?_map, List.length_range]
  by_cases hi : i < n
  · rw [List.getElem?_range hi]
    by_cases hm : i ∈ ts <;> simp [hm, hi, rename]
  · have : (List.range n)[i]? = none := List.getElem?_eq_none (by simpa using Nat.le_of_not_lt hi)
    rw [this]
    by_cases hm : i ∈ ts <;> simp [hm, hi]

theorem map_getD_range {ts : List Nat} {n : Nat} (hlt : ∀ t ∈ ts, t < n) :
    ts.map (fun q => (List.range n).getD q 0) = ts := by
  conv_rhs => rw [← List.map_id ts]
  apply List.map_congr_left
  intro t ht
  have := hlt t ht
  simp [List.getD_eq_getElem?_getD, List.getElem?_range this]

theorem prepareStrings_none {ts : List Nat} {n : Nat} (h : EINSUM_LEN < n + ts.length) :
    prepareStrings ts n = none := by
  simp [prepareStrings, h]

theorem prepareStrings_eq {ts : List Nat} {n : Nat} (hts : ts.Nodup) (hlt : ∀ t ∈ ts, t < n)
    (hg : n + ts.length ≤ EINSUM_LEN) :
    prepareStrings ts n = some
      ⟨List.range n, (List.range n).map (rename ts (List.range' n ts.length)),
       List.range' n ts.length ++ ts,
       List.range' (n + ts.length) (EINSUM_LEN - (n + ts.length))⟩ := by
  unfold prepareStrings
  rw [if_neg (by omega)]
  simp only [map_getD_range hlt, prepare_out ts _ n hts (List.length_range' ..)]


/-! ### the strings of `prepare_strings`, with pass-through labels before / after -/

section Prepared
variable {α : Type} [CommSemiring α]

theorem idxOf_range {t n : Nat} (h : t < n) : (List.range n).idxOf t = t := by
  have := (List.nodup_range (n := n)).idxOf_getElem t (by simpa using h)
  simpa using this

/-- the einsum of `prepare_strings(ts, n)` with extra labels `pre` before and `suf` after the
state labels acts with the matrix on the axes `|pre| + t`, `t ∈ ts`. -/
theorem einsum_prepared {ts pre suf : List Nat} {n : Nat} (hts : ts.Nodup)
    (hlt : ∀ t ∈ ts, t < n) (hnd : (pre ++ suf).Nodup)
    (hge : ∀ l ∈ pre ++ suf, n + ts.length ≤ l) (A : Lab → α) (M : Nat → Nat → α) (y : Lab)
    (hy : InRange (pre.length + n + suf.length) y) :
    einsum ⟨pre ++ List.range n ++ suf, List.range' n ts.length ++ ts,
        pre ++ (List.range n).map (rename ts (List.range' n ts.length)) ++ suf⟩ A
        (matT ts.length M) y
      = applyGate ⟨M, ts.map (· + pre.length), []⟩ A y := by
  have hpre : ∀ l ∈ pre, n + ts.length ≤ l := fun l hl => hge l (List.mem_append_left _ hl)
  have hsuf : ∀ l ∈ suf, n + ts.length ≤ l := fun l hl => hge l (List.mem_append_right _ hl)
  have hid : ∀ (ls : List Nat), (∀ l ∈ ls, n + ts.length ≤ l) →
      ls.map (rename ts (List.range' n ts.length)) = ls := by
    intro ls h
    conv_rhs => rw [← List.map_id ls]
    apply List.map_congr_left
    intro l hl
    exact rename_of_not_mem fun hm => by have := hlt l hm; have := h l hl; omega
  have hout : pre ++ (List.range n).map (rename ts (List.range' n ts.length)) ++ suf
      = (pre ++ List.range n ++ suf).map (rename ts (List.range' n ts.length)) := by
    rw [List.map_append, List.map_append, hid pre hpre, hid suf hsuf]
  have hla : (pre ++ List.range n ++ suf).Nodup := by
    have h1 := List.nodup_append.mp hnd
    rw [List.append_assoc]
    refine List.nodup_append.mpr ⟨h1.1, List.nodup_append.mpr ⟨List.nodup_range, h1.2.1, ?_⟩, ?_⟩
    · intro a ha b hb e
      have := hsuf b hb; have := List.mem_range.mp ha; omega
    · intro a ha b hb e
      rcases List.mem_append.mp hb with hb | hb
      · have := hpre a ha; have := List.mem_range.mp hb; omega
      · exact h1.2.2 a ha b hb e
  have hsub : ∀ l ∈ ts, l ∈ pre ++ List.range n ++ suf := fun l hl =>
    List.mem_append_left _ (List.mem_append_right _ (List.mem_range.mpr (hlt l hl)))
  have hdisj : ∀ l ∈ List.range' n ts.length, l ∉ pre ++ List.range n ++ suf := by
    intro l hl hm
    have h1 := List.mem_range'_1.mp hl
    rcases List.mem_append.mp hm with hm | hm
    · rcases List.mem_append.mp hm with hm | hm
      · have := hpre l hm; omega
      · have := List.mem_range.mp hm; omega
    · have := hsuf l hm; omega
  rw [hout, einsum_gate hla hts hsub (List.nodup_range' ..) (List.length_range' ..) hdisj A M y
    (by simpa [Nat.add_assoc] using hy)]
  congr 2
  apply List.map_congr_left
  intro t ht
  have hnp : t ∉ pre := fun hm => by have := hpre t hm; have := hlt t ht; omega
  rw [List.append_assoc, List.idxOf_append_of_notMem hnp,
    List.idxOf_append_of_mem (List.mem_range.mpr (hlt t ht)), idxOf_range (hlt t ht), Nat.add_comm]

end Prepared

end QV.Einsum
