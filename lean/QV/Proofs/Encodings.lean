/-
  QV.Proofs.Encodings — lemmas behind the C20 property theorems (QV/Props/C20*.lean).
  Model: QV/Model/Encodings.lean (gate lists of the library constructors) executed by the
  simulator model QV/Model/Sim.lean over an arbitrary commutative ring.

    * pointwise action of X, CNOT, H, CU1, SWAP, RBS (`applyGate_*`)
    * comp_basis_encoder, ghz_state                      (`runCircuit_compBasisFrom`, `runCircuit_ghz`)
    * RBS on one-hot states; diagonal unary loader        (`rbs_ket_*`, `runCircuit_diagChain`)
    * QFT: product form by induction over the ladders     (`runCircuit_qftBody`), swaps = reversal
      (`runCircuit_qftSwaps`), product form = DFT entry  (`phase_eq_pow`, `prod_fac_rev`, `qft_dft`)
    * QFT gate-list structure                             (`length_qftBody`, `mem_qftBody`)
    * Ehrlich step and run                                (`nextBits_move`, `ehrlichLoop_chain`)
    * loading chains of controlled RBS gates              (`chain_loader`, `crbs_chain`)
    * RBS networks on the one-hot subspace                (`rbs_ohState`, `runCircuit_rbs_network`)
-/
import Mathlib.Algebra.Ring.Defs
import Mathlib.Tactic.Ring
import Mathlib.Tactic.Linarith
import Mathlib.Algebra.BigOperators.Intervals
import QV.Proofs.SimLemmas
import QV.Model.Encodings

set_option linter.unusedSimpArgs false
set_option linter.unnecessarySeqFocus false

namespace QV.Enc
open QV

variable {α : Type} [CommRing α]

/-! ### pointwise action of the gate classes -/

theorem idx_single (q : Nat) (x : Lab) : Lab.idx [q] x = if x q then 1 else 0 := by
  simp [Lab.idx]

theorem applyGate_X (q : Nat) (ψ : Lab → α) (x : Lab) :
    applyGate ({ mat := matX, targets := [q], controls := [] } : MGate α) ψ x
      = ψ (x.set q (!x q)) := by
  simp only [applyGate, Lab.allOne, List.all_nil, if_true, sumOver, idx_single, Lab.set_same]
  cases h : x q <;> simp [matX]

theorem applyGate_CNOT (c t : Nat) (ψ : Lab → α) (x : Lab) :
    applyGate ({ mat := matX, targets := [t], controls := [c] } : MGate α) ψ x
      = if x c then ψ (x.set t (!x t)) else ψ x := by
  simp only [applyGate, Lab.allOne, List.all_cons, List.all_nil, Bool.and_true, sumOver, idx_single,
    Lab.set_same]
  cases hc : x c <;> cases h : x t <;> simp [matX]

theorem applyGate_H (h : α) (q : Nat) (ψ : Lab → α) (x : Lab) :
    applyGate ({ mat := matH h, targets := [q], controls := [] } : MGate α) ψ x
      = h * (ψ (x.set q false) + (if x q then -1 else 1) * ψ (x.set q true)) := by
  simp only [applyGate, Lab.allOne, List.all_nil, if_true, sumOver, idx_single, Lab.set_same]
  cases hq : x q <;> simp [matH] <;> ring

theorem applyGate_CU1 (w : α) (c t : Nat) (ψ : Lab → α) (x : Lab) :
    applyGate ({ mat := matPhase w, targets := [t], controls := [c] } : MGate α) ψ x
      = (if x c && x t then w else 1) * ψ x := by
  simp only [applyGate, Lab.allOne, List.all_cons, List.all_nil, Bool.and_true, sumOver, idx_single,
    Lab.set_same]
  cases hc : x c <;> cases ht : x t <;> simp [matPhase]
  · rw [← ht, Lab.set_self]
  · rw [← ht, Lab.set_self]


theorem idx_pair (a b : Nat) (x : Lab) :
    Lab.idx [a, b] x = 2 * (if x a then 1 else 0) + (if x b then 1 else 0) := by
  simp [Lab.idx]

theorem set_set_apply_fst {a b : Nat} (hab : a ≠ b) (x : Lab) (u v : Bool) :
    ((x.set a u).set b v) a = u := by
  rw [Lab.set_other _ _ hab, Lab.set_same]

theorem set_set_self (a b : Nat) (x : Lab) {u v : Bool} (hu : x a = u) (hv : x b = v) :
    (x.set a u).set b v = x := by
  subst hu; subst hv
  rw [Lab.set_self, Lab.set_self]

theorem applyGate_SWAP {a b : Nat} (hab : a ≠ b) (ψ : Lab → α) (x : Lab) :
    applyGate ({ mat := matSwap, targets := [a, b], controls := [] } : MGate α) ψ x
      = ψ ((x.set a (x b)).set b (x a)) := by
  simp only [applyGate, Lab.allOne, List.all_nil, if_true, sumOver, idx_pair, Lab.set_same,
    set_set_apply_fst hab]
  cases ha : x a <;> cases hb : x b <;> simp [matSwap]

theorem applyGate_RBS {a b : Nat} (hab : a ≠ b) (c s : α) (ψ : Lab → α) (x : Lab) :
    applyGate ({ mat := matRBS c s, targets := [a, b], controls := [] } : MGate α) ψ x
      = if x a = x b then ψ x
        else c * ψ x + (if x b then s else -s) * ψ ((x.set a (x b)).set b (x a)) := by
  simp only [applyGate, Lab.allOne, List.all_nil, if_true, sumOver, idx_pair, Lab.set_same,
    set_set_apply_fst hab]
  cases ha : x a <;> cases hb : x b <;> simp [matRBS]
  · rw [set_set_self a b x ha hb]
  · rw [set_set_self a b x ha hb]
  · rw [set_set_self a b x ha hb]; ring
  · rw [set_set_self a b x ha hb]


/-! ### basis states -/

/-- the computational basis state `|b⟩` (labels are total functions, so no register size). -/
noncomputable def ket (b : Lab) : Lab → α := by
  classical exact fun x => if x = b then 1 else 0

theorem ket_apply (b x : Lab) [Decidable (x = b)] : (ket b x : α) = if x = b then 1 else 0 := by
  unfold ket; congr

def zeroLab : Lab := fun _ => false

/-- the label of a bit list: qubit `r` carries `bits[r]` (0 beyond the list). -/
def labOf (bits : List Bool) : Lab := fun r => bits.getD r false

theorem runCircuit_map_append (P : Par α) (gs hs : List GD) (ψ : Lab → α) :
    runCircuit ((gs ++ hs).map (GD.sem P)) ψ
      = runCircuit (hs.map (GD.sem P)) (runCircuit (gs.map (GD.sem P)) ψ) := by
  rw [List.map_append, runCircuit_append]

/-! ### comp_basis_encoder -/

/-- the classical action of the X gates of `compBasisFrom q bits`. -/
def xorFrom : Nat → List Bool → Lab → Lab
  | _, [], x => x
  | q, b :: bs, x => if b then (xorFrom (q + 1) bs x).set q (!(xorFrom (q + 1) bs x) q) else xorFrom (q + 1) bs x

theorem xorFrom_apply (q : Nat) (bits : List Bool) (x : Lab) (r : Nat) :
    xorFrom q bits x r = xor (x r) (decide (q ≤ r) && bits.getD (r - q) false) := by
  induction bits generalizing q with
  | nil => simp [xorFrom]
  | cons b bs ih =>
    unfold xorFrom
    by_cases hrq : r = q
    · subst hrq
      cases b <;> simp [ih]
    · have h1 : (decide (q + 1 ≤ r)) = decide (q ≤ r) := by
        apply decide_eq_decide.mpr; omega
      by_cases hle : q ≤ r
      · have h2 : r - q = (r - (q + 1)) + 1 := by omega
        have h1' : decide (q < r) = decide (q ≤ r) := by
          apply decide_eq_decide.mpr; omega
        cases b <;> simp [Lab.set_other _ _ hrq, ih, h1, h1', h2]
      · have h3 : ¬ (q + 1 ≤ r) := by omega
        cases b <;> simp [Lab.set_other _ _ hrq, ih, hle, h3]

theorem runCircuit_compBasisFrom (P : Par α) (q : Nat) (bits : List Bool) (ψ : Lab → α) :
    runCircuit ((compBasisFrom q bits).map (GD.sem P)) ψ = fun x => ψ (xorFrom q bits x) := by
  induction bits generalizing q ψ with
  | nil => rfl
  | cons b bs ih =>
    unfold compBasisFrom
    rw [runCircuit_map_append, ih]
    cases b
    · simp [xorFrom, runCircuit]
    · funext x
      simp only [if_true, List.map_cons, List.map_nil, runCircuit_cons, runCircuit_nil, xorFrom]
      exact applyGate_X q ψ _

theorem xorFrom_zero_eq (bits : List Bool) (x : Lab) :
    xorFrom 0 bits x = zeroLab ↔ x = labOf bits := by
  constructor
  · intro h
    funext r
    have := congrFun h r
    rw [xorFrom_apply] at this
    simp [zeroLab] at this
    simp [labOf]
    cases hx : x r <;> cases hb : bits.getD r false <;> simp_all
  · intro h
    funext r
    rw [xorFrom_apply, h]
    simp [zeroLab, labOf]


/-! ### ghz_state -/

/-- pull-back of a label through the CNOT chain `CNOT(0,1) … CNOT(k-1,k)`. -/
def unchain (k : Nat) (x : Lab) : Lab :=
  fun q => if 1 ≤ q ∧ q ≤ k then xor (x q) (x (q - 1)) else x q

theorem cnotChain_succ (k : Nat) :
    cnotChain (k + 1) = cnotChain k ++ [{ kind := .CNOT, q0 := k, q1 := k + 1 }] := by
  simp [cnotChain, List.range_succ]

theorem runCircuit_cnotChain (P : Par α) (k : Nat) (ψ : Lab → α) :
    runCircuit ((cnotChain k).map (GD.sem P)) ψ = fun x => ψ (unchain k x) := by
  induction k with
  | zero =>
    funext x
    have : unchain 0 x = x := by
      funext q; simp [unchain]; intro h1 h2; omega
    simp [cnotChain, runCircuit, this]
  | succ k ih =>
    rw [cnotChain_succ, runCircuit_map_append, ih]
    funext x
    simp only [List.map_cons, List.map_nil, runCircuit_cons, runCircuit_nil]
    show applyGate ({ mat := matX, targets := [k + 1], controls := [k] } : MGate α) _ x = _
    rw [applyGate_CNOT]
    have key : unchain k (if x k then x.set (k + 1) (!x (k + 1)) else x) = unchain (k + 1) x := by
      funext q
      by_cases hq : q = k + 1
      · subst hq
        have h0 : ¬ (k + 1 ≤ k) := by omega
        cases hk : x k <;> simp [unchain, h0, hk]
      · have hq' : q - 1 ≠ k + 1 ∨ ¬ (1 ≤ q ∧ q ≤ k) := by omega
        by_cases hr : 1 ≤ q ∧ q ≤ k
        · have h1 : 1 ≤ q ∧ q ≤ k + 1 := by omega
          have h2 : q - 1 ≠ k + 1 := by omega
          cases hk : x k <;> simp [unchain, hr, h1, Lab.set_other _ _ hq, Lab.set_other _ _ h2]
        · have h1 : ¬ (1 ≤ q ∧ q ≤ k + 1) := by omega
          cases hk : x k <;> simp [unchain, hr, h1, Lab.set_other _ _ hq]
    rw [← key]
    cases hk : x k <;> simp

def onesLab (n : Nat) : Lab := fun q => decide (q < n)

theorem unchain_zero_iff {n : Nat} (hn : 1 ≤ n) (x : Lab) :
    (unchain (n - 1) x).set 0 false = zeroLab ↔ (x = zeroLab ∨ x = onesLab n) := by
  constructor
  · intro h
    have hr : ∀ r, ((unchain (n - 1) x).set 0 false) r = false := fun r => congrFun h r
    have hconst : ∀ q, q < n → x q = x 0 := by
      intro q
      induction q with
      | zero => intro _; rfl
      | succ q ih =>
        intro hq
        have := hr (q + 1)
        rw [Lab.set_other _ _ (by omega)] at this
        have hc : 1 ≤ q + 1 ∧ q + 1 ≤ n - 1 := by omega
        simp only [unchain, hc, and_self, if_true, Nat.add_sub_cancel] at this
        rw [← ih (by omega)]
        cases h1 : x (q + 1) <;> cases h2 : x q <;> simp_all
    have hout : ∀ q, n ≤ q → x q = false := by
      intro q hq
      have := hr q
      rw [Lab.set_other _ _ (by omega)] at this
      have hc : ¬ (1 ≤ q ∧ q ≤ n - 1) := by omega
      simpa [unchain, hc] using this
    cases h0 : x 0
    · left; funext q
      by_cases hq : q < n
      · rw [hconst q hq, h0]; rfl
      · rw [hout q (by omega)]; rfl
    · right; funext q
      by_cases hq : q < n
      · rw [hconst q hq, h0]; simp [onesLab, hq]
      · rw [hout q (by omega)]; simp [onesLab, hq]
  · rintro (h | h)
    · subst h; funext q
      by_cases hq : q = 0
      · subst hq; simp [zeroLab]
      · rw [Lab.set_other _ _ hq]; simp [unchain, zeroLab]
    · subst h; funext q
      by_cases hq : q = 0
      · subst hq; simp [zeroLab]
      · rw [Lab.set_other _ _ hq]
        by_cases hc : 1 ≤ q ∧ q ≤ n - 1
        · have h1 : q < n := by omega
          have h2 : q - 1 < n := by omega
          simp [unchain, hc, onesLab, h1, h2, zeroLab]
        · have h1 : ¬ q < n := by omega
          simp [unchain, hc, onesLab, h1, zeroLab]

theorem zero_ne_ones {n : Nat} (hn : 1 ≤ n) : zeroLab ≠ onesLab n := by
  intro h
  have := congrFun h 0
  simp [zeroLab, onesLab] at this
  omega

theorem runCircuit_ghz (P : Par α) {n : Nat} (hn : 1 ≤ n) :
    runCircuit ((ghz n).map (GD.sem P)) (ket zeroLab)
      = fun x => P.h * (ket zeroLab x + ket (onesLab n) x) := by
  classical
  unfold ghz
  rw [List.map_cons, runCircuit_cons, runCircuit_cnotChain]
  funext x
  show applyGate ({ mat := matH P.h, targets := [0], controls := [] } : MGate α) _ _ = _
  rw [applyGate_H]
  have h2 : (ket zeroLab ((unchain (n - 1) x).set 0 true) : α) = 0 := by
    rw [ket_apply, if_neg]
    intro h
    have := congrFun h 0
    simp [zeroLab] at this
  rw [h2, mul_zero, add_zero, ket_apply, ket_apply, ket_apply]
  congr 1
  by_cases hz : x = zeroLab
  · have : (unchain (n - 1) x).set 0 false = zeroLab := (unchain_zero_iff hn x).mpr (Or.inl hz)
    rw [if_pos this, if_pos hz, if_neg]
    · simp
    · rw [hz]; exact zero_ne_ones hn
  · by_cases ho : x = onesLab n
    · have : (unchain (n - 1) x).set 0 false = zeroLab := (unchain_zero_iff hn x).mpr (Or.inr ho)
      rw [if_pos this, if_neg hz, if_pos ho]; simp
    · have : ¬ (unchain (n - 1) x).set 0 false = zeroLab := by
        intro h; rcases (unchain_zero_iff hn x).mp h with h | h
        · exact hz h
        · exact ho h
      rw [if_neg this, if_neg hz, if_neg ho]; simp


/-! ### unary encoder, diagonal architecture -/

open Finset in
/-- one-hot label: only qubit `q` is 1. -/
def oh (q : Nat) : Lab := fun r => decide (r = q)

/-- exchange of the bits at `a` and `b`. -/
def sw (a b : Nat) (x : Lab) : Lab := (x.set a (x b)).set b (x a)

theorem sw_apply {a b : Nat} (hab : a ≠ b) (x : Lab) (r : Nat) :
    sw a b x r = if r = b then x a else if r = a then x b else x r := by
  unfold sw
  by_cases hb : r = b
  · subst hb; simp
  · rw [Lab.set_other _ _ hb]
    by_cases ha : r = a
    · subst ha; simp [hb]
    · rw [Lab.set_other _ _ ha]; simp [ha, hb]

theorem sw_sw {a b : Nat} (hab : a ≠ b) (x : Lab) : sw a b (sw a b x) = x := by
  funext r
  rw [sw_apply hab, sw_apply hab, sw_apply hab, sw_apply hab]
  by_cases hb : r = b
  · subst hb; simp [hab]
  · by_cases ha : r = a
    · subst ha; simp [hab]
    · simp [ha, hb]

theorem sw_oh_fst {a b : Nat} (hab : a ≠ b) : sw a b (oh a) = oh b := by
  funext r
  rw [sw_apply hab]
  by_cases hb : r = b
  · subst hb; simp [oh]
  · by_cases ha : r = a
    · subst ha; simp [oh, hb]; exact fun h => hab h.symm
    · simp [oh, ha, hb]

theorem sw_oh_snd {a b : Nat} (hab : a ≠ b) : sw a b (oh b) = oh a := by
  rw [← sw_oh_fst hab, sw_sw hab]

theorem sw_eq_oh_fst_iff {a b : Nat} (hab : a ≠ b) (x : Lab) : sw a b x = oh a ↔ x = oh b := by
  constructor
  · intro h; rw [← sw_sw hab x, h, sw_oh_fst hab]
  · intro h; rw [h, sw_oh_snd hab]

theorem rbs_ket_other {a b q : Nat} (hab : a ≠ b) (hqa : q ≠ a) (hqb : q ≠ b) (c s : α) :
    applyGate ({ mat := matRBS c s, targets := [a, b], controls := [] } : MGate α) (ket (oh q))
      = ket (oh q) := by
  classical
  funext x
  rw [applyGate_RBS hab]
  split
  · rfl
  · rename_i hne
    have h1 : x ≠ oh q := by
      intro h; apply hne; rw [h]; simp [oh, hqa.symm, hqb.symm, Ne.symm hqa, Ne.symm hqb]
    have h2 : (x.set a (x b)).set b (x a) ≠ oh q := by
      intro h
      have ha := congrFun h a
      have hb := congrFun h b
      rw [set_set_apply_fst hab] at ha
      rw [Lab.set_same] at hb
      apply hne
      rw [ha] at *
      rw [hb]
      simp [oh, Ne.symm hqa, Ne.symm hqb]
    rw [ket_apply, ket_apply, if_neg h1, if_neg h2]; simp

theorem rbs_ket_fst {a b : Nat} (hab : a ≠ b) (c s : α) :
    applyGate ({ mat := matRBS c s, targets := [a, b], controls := [] } : MGate α) (ket (oh a))
      = fun x => c * ket (oh a) x + s * ket (oh b) x := by
  classical
  funext x
  rw [applyGate_RBS hab]
  have hsw : ∀ y : Lab, ((y.set a (y b)).set b (y a) = oh a) ↔ y = oh b := sw_eq_oh_fst_iff hab
  split
  · rename_i heq
    have h1 : x ≠ oh a := by
      intro h; rw [h] at heq; simp [oh, hab, Ne.symm hab] at heq
    have h2 : x ≠ oh b := by
      intro h; rw [h] at heq; simp [oh, hab, Ne.symm hab] at heq
    rw [ket_apply, ket_apply, if_neg h1, if_neg h2]; simp
  · rename_i hne
    cases hb : x b
    · -- x a = true
      have h2 : x ≠ oh b := by
        intro h; rw [h] at hb; simp [oh] at hb
      have h3 : ¬ ((x.set a (x b)).set b (x a) = oh a) := fun h => h2 ((hsw x).mp h)
      rw [hb] at h3
      simp only [ket_apply, if_neg h2, if_neg h3]; simp
    · have ha : x a = false := by
        cases h : x a
        · rfl
        · exfalso; apply hne; rw [h, hb]
      have h1 : x ≠ oh a := by
        intro h; rw [h] at ha; simp [oh] at ha
      by_cases h2 : x = oh b
      · have h3 : (x.set a (x b)).set b (x a) = oh a := (hsw x).mpr h2
        rw [hb, ha] at h3
        simp only [ket_apply, if_neg h1, if_pos h2, if_pos h3, ha]; simp
      · have h3 : ¬ ((x.set a (x b)).set b (x a) = oh a) := fun h => h2 ((hsw x).mp h)
        rw [hb, ha] at h3
        simp only [ket_apply, if_neg h1, if_neg h2, if_neg h3, ha]; simp


open Finset

/-- the RBS ladder of the diagonal unary loader on `n` qubits, first `m` gates. -/
def diagChain (n m : Nat) : List GD :=
  (List.range m).map (fun k => { kind := .RBS, q0 := n - 1 - k, q1 := n - 2 - k, e := k })

/-- state after the first `m` gates of the ladder. -/
noncomputable def diagState (P : Par α) (n m : Nat) : Lab → α := fun x =>
  (∑ k ∈ range m, ((∏ j ∈ range k, P.s j) * P.c k) * ket (oh (n - 1 - k)) x)
    + (∏ j ∈ range m, P.s j) * ket (oh (n - 1 - m)) x

theorem runCircuit_diagChain (P : Par α) (n m : Nat) (hm : m + 1 ≤ n) :
    runCircuit ((diagChain n m).map (GD.sem P)) (ket (oh (n - 1))) = diagState P n m := by
  induction m with
  | zero => funext x; simp [diagChain, runCircuit, diagState]
  | succ m ih =>
    have hsplit : diagChain n (m + 1)
        = diagChain n m ++ [{ kind := .RBS, q0 := n - 1 - m, q1 := n - 2 - m, e := m }] := by
      simp [diagChain, List.range_succ]
    rw [hsplit, runCircuit_map_append, ih (by omega)]
    simp only [List.map_cons, List.map_nil, runCircuit_cons, runCircuit_nil]
    have hab : n - 1 - m ≠ n - 2 - m := by omega
    set g : MGate α := { mat := matRBS (P.c m) (P.s m), targets := [n - 1 - m, n - 2 - m], controls := [] } with hg
    show applyGate g (diagState P n m) = _
    have e1 : diagState P n m = fun x =>
        (fun x => ∑ k ∈ range m, (fun k x => ((∏ j ∈ range k, P.s j) * P.c k) * ket (oh (n - 1 - k)) x) k x) x
        + (fun x => (∏ j ∈ range m, P.s j) * ket (oh (n - 1 - m)) x) x := rfl
    rw [e1, applyGate_add, applyGate_sum, applyGate_smul]
    funext x
    have e2 : ∀ k ∈ range m,
        applyGate g (fun x => ((∏ j ∈ range k, P.s j) * P.c k) * ket (oh (n - 1 - k)) x) x
          = ((∏ j ∈ range k, P.s j) * P.c k) * ket (oh (n - 1 - k)) x := by
      intro k hk
      have hk' : k < m := mem_range.mp hk
      rw [applyGate_smul, hg, rbs_ket_other hab (by omega) (by omega)]
    simp only []
    rw [sum_congr rfl e2, hg, rbs_ket_fst hab]
    simp only [diagState]
    rw [sum_range_succ, prod_range_succ]
    have h3 : n - 1 - (m + 1) = n - 2 - m := by omega
    rw [h3]
    ring

theorem zipWith_range_map {β γ : Type} (g : Nat → β → γ) (p : Nat → β) (m : Nat) :
    List.zipWith g (List.range ((List.range m).map p).length) ((List.range m).map p)
      = (List.range m).map (fun k => g k (p k)) := by
  simp [List.zipWith_map_right, List.zipWith_self]

theorem unary_diag_eq (n : Nat) :
    unary n false = { kind := .X, q0 := n - 1 } :: diagChain n (n - 1) := by
  unfold unary diagChain
  congr 1
  have : (rbsPairs n false).flatten = (List.range (n - 1)).map (fun k => (n - 1 - k, n - 1 - (k + 1))) := by
    simp [rbsPairs, diagPairsRaw, List.flatten_eq_flatMap, List.flatMap_map]
    induction (List.range (n - 1)) with
    | nil => rfl
    | cons a l ih => simp [List.flatMap_cons, ih]
  rw [this]
  unfold rbsGates
  rw [zipWith_range_map]
  apply List.map_congr_left
  intro k hk
  have : n - 1 - (k + 1) = n - 2 - k := by omega
  simp [this]

theorem X_ket_zero (q : Nat) :
    applyGate ({ mat := matX, targets := [q], controls := [] } : MGate α) (ket zeroLab) = ket (oh q) := by
  classical
  funext x
  rw [applyGate_X, ket_apply, ket_apply]
  have : (x.set q (!x q) = zeroLab) ↔ x = oh q := by
    constructor
    · intro h; funext r
      have hr := congrFun h r
      by_cases hq : r = q
      · subst hq; simp [zeroLab] at hr; simp [oh, hr]
      · rw [Lab.set_other _ _ hq] at hr; simp [oh, hq, hr, zeroLab]
    · intro h; subst h; funext r
      by_cases hq : r = q
      · subst hq; simp [oh, zeroLab]
      · rw [Lab.set_other _ _ hq]; simp [oh, hq, zeroLab]
  simp only [this]

/-- the diagonal unary loader applied to `|0…0⟩`. -/
theorem runCircuit_unary_diag (P : Par α) {n : Nat} (hn : 1 ≤ n) :
    runCircuit ((unary n false).map (GD.sem P)) (ket zeroLab) = diagState P n (n - 1) := by
  rw [unary_diag_eq, List.map_cons, runCircuit_cons]
  show runCircuit _ (applyGate ({ mat := matX, targets := [n - 1], controls := [] } : MGate α) _) = _
  rw [X_ket_zero, runCircuit_diagChain P n (n - 1) (by omega)]

/-- partial norms: `r 0 * (s 0 ⋯ s (k-1)) = r k`. -/
theorem norm_prod (P : Par α) (r : Nat → α) (m : Nat)
    (hs : ∀ k, k < m → r k * P.s k = r (k + 1)) :
    ∀ k, k ≤ m → r 0 * ∏ j ∈ range k, P.s j = r k := by
  intro k
  induction k with
  | zero => intro _; simp
  | succ k ih =>
    intro hk
    rw [prod_range_succ, ← mul_assoc, ih (by omega), hs k (by omega)]

/-! ### QFT: product form -/

noncomputable def ind (p : Prop) : α := by classical exact if p then 1 else 0

theorem ind_pos {p : Prop} (h : p) : (ind p : α) = 1 := by unfold ind; simp [h]
theorem ind_neg {p : Prop} (h : ¬ p) : (ind p : α) = 0 := by unfold ind; simp [h]
theorem ind_congr {p q : Prop} (h : p ↔ q) : (ind p : α) = ind q := by
  by_cases hp : p
  · rw [ind_pos hp, ind_pos (h.mp hp)]
  · rw [ind_neg hp, ind_neg (fun hq => hp (h.mpr hq))]

theorem ket_eq_ind (b x : Lab) : (ket b x : α) = ind (x = b) := by
  classical
  rw [ket_apply]; unfold ind; rfl

/-- phase accumulated by output qubit `j` from the input bits `b j, b (j+1), …, b (j+D-1)`:
`H` contributes `w 0 = -1` for `b j`, `CU1(j+d, j, π/2^d)` contributes `w d` for `b (j+d)`. -/
def phase (P : Par α) (b : Lab) (j D : Nat) : α :=
  ∏ d ∈ range D, (if b (j + d) then P.w d else 1)

def fac (P : Par α) (n : Nat) (b y : Lab) (j : Nat) : α :=
  if y j then phase P b j (n - j) else 1

/-- state after the ladders of qubits `0 … i-1` on input `|b⟩`. -/
noncomputable def qftState (P : Par α) (n : Nat) (b : Lab) (i : Nat) : Lab → α := fun y =>
  ind (∀ q, i ≤ q → y q = b q) * P.h ^ i * ∏ j ∈ range i, fac P n b y j

/-- state inside ladder `i`, after `H(i)` and the first `D` controlled phases. -/
noncomputable def ladState (P : Par α) (n : Nat) (b : Lab) (i D : Nat) : Lab → α := fun y =>
  ind (∀ q, i + 1 ≤ q → y q = b q) * P.h ^ (i + 1) * (∏ j ∈ range i, fac P n b y j)
    * (if y i then phase P b i (D + 1) else 1)

theorem fac_set (P : Par α) (n : Nat) (b y : Lab) {i j : Nat} (h : j ≠ i) (v : Bool) :
    fac P n b (y.set i v) j = fac P n b y j := by
  unfold fac; rw [Lab.set_other _ _ h]

theorem qftState_set (P : Par α) (n : Nat) (b y : Lab) (i : Nat) (v : Bool) :
    qftState P n b i (y.set i v)
      = ind (v = b i) * (ind (∀ q, i + 1 ≤ q → y q = b q) * P.h ^ i * ∏ j ∈ range i, fac P n b y j) := by
  unfold qftState
  have h1 : ∏ j ∈ range i, fac P n b (y.set i v) j = ∏ j ∈ range i, fac P n b y j := by
    apply prod_congr rfl
    intro j hj
    exact fac_set P n b y (by have := mem_range.mp hj; omega) v
  rw [h1]
  by_cases hv : v = b i
  · rw [ind_pos hv, one_mul]
    congr 2
    apply ind_congr
    constructor
    · intro h q hq
      have := h q (by omega)
      rwa [Lab.set_other _ _ (by omega)] at this
    · intro h q hq
      by_cases hqi : q = i
      · subst hqi; rw [Lab.set_same]; exact hv
      · rw [Lab.set_other _ _ hqi]; exact h q (by omega)
  · rw [ind_neg hv, zero_mul]
    have : ¬ ∀ q, i ≤ q → (y.set i v) q = b q := by
      intro h; apply hv; have := h i (le_refl i); rwa [Lab.set_same] at this
    rw [ind_neg this]; ring

theorem H_qftState (P : Par α) (hw0 : P.w 0 = -1) (n : Nat) (b : Lab) (i : Nat) :
    applyGate ({ mat := matH P.h, targets := [i], controls := [] } : MGate α) (qftState P n b i)
      = ladState P n b i 0 := by
  funext y
  rw [applyGate_H, qftState_set, qftState_set]
  unfold ladState phase
  simp only [Nat.zero_add, zero_add, prod_range_one, Nat.add_zero, add_zero, hw0]
  have e1 : (ind True : α) = 1 := ind_pos trivial
  have e2 : (ind False : α) = 0 := ind_neg (fun h => h)
  cases hb : b i <;> cases hy : y i <;> simp [e1, e2] <;> ring

theorem CU1_ladState (P : Par α) (n : Nat) (b : Lab) (i D : Nat) :
    applyGate ({ mat := matPhase (P.w (D + 1)), targets := [i], controls := [i + 1 + D] } : MGate α)
        (ladState P n b i D)
      = ladState P n b i (D + 1) := by
  funext y
  rw [applyGate_CU1]
  unfold ladState
  by_cases hI : ∀ q, i + 1 ≤ q → y q = b q
  · have hc : y (i + 1 + D) = b (i + 1 + D) := hI _ (by omega)
    rw [hc]
    cases hy : y i
    · simp
    · have : phase P b i (D + 1 + 1) = phase P b i (D + 1) * (if b (i + 1 + D) then P.w (D + 1) else 1) := by
        unfold phase
        rw [prod_range_succ _ (D + 1)]
        have : i + (D + 1) = i + 1 + D := by omega
        rw [this]
      simp only [Bool.and_true, if_true, this]
      ring
  · rw [ind_neg hI]; simp

/-- the controlled-phase part of ladder `i`. -/
def cu1s (i D : Nat) : List GD :=
  (List.range D).map (fun d => { kind := .CU1, q0 := i + 1 + d, q1 := i, e := d + 1 })

theorem runCircuit_cu1s (P : Par α) (n : Nat) (b : Lab) (i D : Nat) :
    runCircuit ((cu1s i D).map (GD.sem P)) (ladState P n b i 0) = ladState P n b i D := by
  induction D with
  | zero => simp [cu1s, runCircuit]
  | succ D ih =>
    have : cu1s i (D + 1) = cu1s i D ++ [{ kind := .CU1, q0 := i + 1 + D, q1 := i, e := D + 1 }] := by
      simp [cu1s, List.range_succ]
    rw [this, runCircuit_map_append, ih]
    simp only [List.map_cons, List.map_nil, runCircuit_cons, runCircuit_nil]
    exact CU1_ladState P n b i D

theorem runCircuit_qftLadder (P : Par α) (hw0 : P.w 0 = -1) (n : Nat) (b : Lab) {i : Nat} (hi : i < n) :
    runCircuit ((qftLadder n i).map (GD.sem P)) (qftState P n b i) = qftState P n b (i + 1) := by
  have : qftLadder n i = { kind := .H, q0 := i } :: cu1s i (n - i - 1) := rfl
  rw [this, List.map_cons, runCircuit_cons]
  show runCircuit _ (applyGate ({ mat := matH P.h, targets := [i], controls := [] } : MGate α) _) = _
  rw [H_qftState P hw0, runCircuit_cu1s]
  funext y
  unfold ladState qftState
  rw [prod_range_succ]
  have h1 : n - i - 1 + 1 = n - i := by omega
  simp only [fac, h1]
  ring

theorem runCircuit_qftBody_aux (P : Par α) (hw0 : P.w 0 = -1) (n : Nat) (b : Lab) (m : Nat) (hm : m ≤ n) :
    runCircuit (((List.range m).flatMap (qftLadder n)).map (GD.sem P)) (qftState P n b 0)
      = qftState P n b m := by
  induction m with
  | zero => simp [runCircuit]
  | succ m ih =>
    rw [List.range_succ, List.flatMap_append, runCircuit_map_append, ih (by omega)]
    simp only [List.flatMap_cons, List.flatMap_nil, List.append_nil]
    exact runCircuit_qftLadder P hw0 n b (by omega)

theorem qftState_zero (P : Par α) (n : Nat) (b : Lab) : qftState P n b 0 = ket b := by
  funext y
  unfold qftState
  rw [ket_eq_ind]
  simp only [pow_zero, range_zero, prod_empty, mul_one]
  apply ind_congr
  constructor
  · intro h; funext q; exact h q (Nat.zero_le q)
  · intro h q _; rw [h]

/-- **QFT without the final swaps, product form.** -/
theorem runCircuit_qftBody (P : Par α) (hw0 : P.w 0 = -1) (n : Nat) (b : Lab) :
    runCircuit ((qftBody n).map (GD.sem P)) (ket b) = qftState P n b n := by
  rw [← qftState_zero P n b]
  exact runCircuit_qftBody_aux P hw0 n b n (le_refl n)

/-! ### QFT: the final swaps reverse the qubit order -/

def revK (n k : Nat) (y : Lab) : Lab :=
  fun q => if (q < k ∨ n - k ≤ q) ∧ q < n then y (n - 1 - q) else y q

/-- reversal of the first `n` qubits. -/
def rev (n : Nat) (y : Lab) : Lab := fun q => if q < n then y (n - 1 - q) else y q

theorem revK_half (n : Nat) (y : Lab) : revK n (n / 2) y = rev n y := by
  funext q
  unfold revK rev
  by_cases hq : q < n
  · by_cases hr : (q < n / 2 ∨ n - n / 2 ≤ q)
    · rw [if_pos ⟨hr, hq⟩, if_pos hq]
    · have : n - 1 - q = q := by omega
      rw [if_neg (fun h => hr h.1), if_pos hq, this]
  · rw [if_neg (fun h => hq h.2), if_neg hq]

def swapsK (n k : Nat) : List GD :=
  (List.range k).map (fun i => { kind := .SWAP, q0 := i, q1 := n - i - 1 })

theorem runCircuit_swapsK (P : Par α) (n k : Nat) (hk : 2 * k ≤ n) (ψ : Lab → α) :
    runCircuit ((swapsK n k).map (GD.sem P)) ψ = fun y => ψ (revK n k y) := by
  induction k with
  | zero =>
    funext y
    have : revK n 0 y = y := by
      funext q; unfold revK
      have : ¬ ((q < 0 ∨ n - 0 ≤ q) ∧ q < n) := by omega
      simp [this]
    simp [swapsK, runCircuit]
    rw [this]
  | succ k ih =>
    have hs : swapsK n (k + 1) = swapsK n k ++ [{ kind := .SWAP, q0 := k, q1 := n - k - 1 }] := by
      simp [swapsK, List.range_succ]
    rw [hs, runCircuit_map_append, ih (by omega)]
    funext y
    simp only [List.map_cons, List.map_nil, runCircuit_cons, runCircuit_nil]
    have hab : k ≠ n - k - 1 := by omega
    show applyGate ({ mat := matSwap, targets := [k, n - k - 1], controls := [] } : MGate α) _ y = _
    rw [applyGate_SWAP hab]
    congr 1
    show revK n k (sw k (n - k - 1) y) = revK n (k + 1) y
    funext q
    unfold revK
    simp only [sw_apply hab]
    by_cases h1 : (q < k ∨ n - k ≤ q) ∧ q < n
    · have h2 : (q < k + 1 ∨ n - (k + 1) ≤ q) ∧ q < n := by omega
      have h3 : ¬ (n - 1 - q = n - k - 1) := by omega
      have h4 : ¬ (n - 1 - q = k) := by omega
      rw [if_pos h1, if_pos h2, if_neg h3, if_neg h4]
    · by_cases h5 : q = k
      · have h2 : (q < k + 1 ∨ n - (k + 1) ≤ q) ∧ q < n := by omega
        have h6 : ¬ (q = n - k - 1) := by omega
        have h7 : n - 1 - q = n - k - 1 := by omega
        rw [if_neg h1, if_pos h2, if_neg h6, if_pos h5, h7]
      · by_cases h6 : q = n - k - 1
        · have h2 : (q < k + 1 ∨ n - (k + 1) ≤ q) ∧ q < n := by omega
          have h7 : n - 1 - q = k := by omega
          rw [if_neg h1, if_pos h2, if_pos h6, h7]
        · have h2 : ¬ ((q < k + 1 ∨ n - (k + 1) ≤ q) ∧ q < n) := by omega
          rw [if_neg h1, if_neg h2, if_neg h6, if_neg h5]

theorem runCircuit_qftSwaps (P : Par α) (n : Nat) (ψ : Lab → α) :
    runCircuit ((qftSwaps n).map (GD.sem P)) ψ = fun y => ψ (rev n y) := by
  have : qftSwaps n = swapsK n (n / 2) := rfl
  rw [this, runCircuit_swapsK P n (n / 2) (by omega)]
  funext y; rw [revK_half]

/-! ### QFT: from the product form to the discrete Fourier transform -/

/-- big-endian value of the first `n` bits of a label (qubit 0 = most significant). -/
def val (n : Nat) (b : Lab) : Nat := ∑ l ∈ range n, (if b l then 2 ^ (n - 1 - l) else 0)

theorem val_succ (n : Nat) (b : Lab) : val (n + 1) b = 2 * val n b + (if b n then 1 else 0) := by
  unfold val
  rw [sum_range_succ, mul_sum]
  congr 1
  · apply sum_congr rfl
    intro l hl
    have hl' : l < n := mem_range.mp hl
    have : n + 1 - 1 - l = (n - 1 - l) + 1 := by omega
    rw [this, pow_succ]
    split <;> ring
  · simp

theorem val_eq_toIndex (n : Nat) (b : Lab) : val n b = Lab.toIndex n b := by
  induction n with
  | zero => simp [val, Lab.toIndex, Lab.idx]
  | succ n ih =>
    rw [val_succ, ih]
    unfold Lab.toIndex Lab.idx
    rw [List.range_succ, List.foldl_append]
    simp

theorem w_eq_pow (P : Par α) (hw : ∀ k, P.w (k + 1) ^ 2 = P.w k) {n : Nat} (t : Nat) (ht : t + 1 ≤ n) : P.w (n - 1 - t) = P.w (n - 1) ^ (2 ^ t) := by
  induction t with
  | zero => simp
  | succ t ih =>
    have h1 : n - 1 - t = (n - 1 - (t + 1)) + 1 := by omega
    have := hw (n - 1 - (t + 1))
    rw [← h1, ih (by omega)] at this
    rw [← this, ← pow_mul, pow_succ]

theorem rev_rev (n : Nat) (y : Lab) : rev n (rev n y) = y := by
  funext q
  unfold rev
  by_cases hq : q < n
  · have h1 : n - 1 - q < n := by omega
    have h2 : n - 1 - (n - 1 - q) = q := by omega
    rw [if_pos hq, if_pos h1, h2]
  · rw [if_neg hq, if_neg hq]

section dft
variable (P : Par α) (hw0 : P.w 0 = -1) (hw : ∀ k, P.w (k + 1) ^ 2 = P.w k)
include hw0 hw

theorem zeta_pow_two_pow {n : Nat} (hn : 1 ≤ n) : P.w (n - 1) ^ (2 ^ n) = 1 := by
  have h := w_eq_pow P hw (n := n) (n - 1) (by omega)
  have h0 : n - 1 - (n - 1) = 0 := by omega
  rw [h0, hw0] at h
  have : (2 : Nat) ^ n = 2 ^ (n - 1) * 2 := by
    rw [← pow_succ]; congr 1; omega
  rw [this, pow_mul, ← h]; ring

theorem zeta_pow_big {n : Nat} (hn : 1 ≤ n) (e : Nat) (he : n ≤ e) : P.w (n - 1) ^ (2 ^ e) = 1 := by
  have : (2 : Nat) ^ e = 2 ^ n * 2 ^ (e - n) := by
    rw [← pow_add]; congr 1; omega
  rw [this, pow_mul, zeta_pow_two_pow P hw0 hw hn, one_pow]

/-- the phase of output qubit `j` is `ζ^(2^j · x)`. -/
theorem phase_eq_pow {n : Nat} (hn : 1 ≤ n) (b : Lab) (j : Nat) (hj : j ≤ n) :
    phase P b j (n - j) = P.w (n - 1) ^ (2 ^ j * val n b) := by
  have e1 : 2 ^ j * val n b = ∑ l ∈ range n, (if b l then 2 ^ (n - 1 - l + j) else 0) := by
    unfold val
    rw [mul_sum]
    apply sum_congr rfl
    intro l _
    split
    · rw [pow_add]; ring
    · ring
  rw [e1, ← prod_pow_eq_pow_sum]
  have hsplit := prod_range_add (fun l => P.w (n - 1) ^ (if b l then 2 ^ (n - 1 - l + j) else 0)) j (n - j)
  rw [show j + (n - j) = n from by omega] at hsplit
  rw [hsplit]
  have h1 : ∏ l ∈ range j, P.w (n - 1) ^ (if b l then 2 ^ (n - 1 - l + j) else 0) = 1 := by
    apply prod_eq_one
    intro l hl
    have hl' : l < j := mem_range.mp hl
    split
    · exact zeta_pow_big P hw0 hw hn _ (by omega)
    · simp
  rw [h1, one_mul]
  unfold phase
  apply prod_congr rfl
  intro d hd
  have hd' : d < n - j := mem_range.mp hd
  split
  · have h2 : n - 1 - (j + d) + j = n - 1 - d := by omega
    rw [h2]
    have := w_eq_pow P hw (n := n) (n - 1 - d) (by omega)
    have h3 : n - 1 - (n - 1 - d) = d := by omega
    rw [h3] at this
    exact this
  · simp

/-- product over the output qubits (after the reversal) = `ζ^(x·y)`. -/
theorem prod_fac_rev {n : Nat} (hn : 1 ≤ n) (b y : Lab) :
    ∏ j ∈ range n, fac P n b (rev n y) j = P.w (n - 1) ^ (val n b * val n y) := by
  have e1 : val n y = ∑ j ∈ range n, (if y (n - 1 - j) then 2 ^ j else 0) := by
    unfold val
    rw [← sum_range_reflect]
    apply sum_congr rfl
    intro j hj
    have hj' : j < n := mem_range.mp hj
    have : n - 1 - (n - 1 - j) = j := by omega
    rw [this]
  rw [e1, mul_sum, ← prod_pow_eq_pow_sum]
  apply prod_congr rfl
  intro j hj
  have hj' : j < n := mem_range.mp hj
  unfold fac rev
  rw [if_pos hj']
  split
  · rw [phase_eq_pow P hw0 hw hn b j (by omega), mul_comm]
  · simp

/-- **QFT = DFT.**  `⟨y| QFT_n |b⟩ = (1/√2)^n · ω^(b·y)` with `ω = exp(2πi/2^n) = w (n-1)`,
on labels that agree outside the register. -/
theorem qft_dft {n : Nat} (hn : 1 ≤ n) (b y : Lab) :
    runCircuit ((qft n true).map (GD.sem P)) (ket b) y
      = ind (∀ q, n ≤ q → y q = b q) * (P.h ^ n * P.w (n - 1) ^ (val n b * val n y)) := by
  unfold qft
  rw [if_pos rfl, runCircuit_map_append, runCircuit_qftBody P hw0, runCircuit_qftSwaps]
  simp only [qftState]
  rw [prod_fac_rev P hw0 hw hn, mul_assoc]
  congr 1
  apply ind_congr
  constructor
  · intro h q hq
    have := h q hq
    unfold rev at this
    rwa [if_neg (by omega)] at this
  · intro h q hq
    unfold rev
    rw [if_neg (by omega)]
    exact h q hq

/-- without the swaps the output index is bit-reversed. -/
theorem qft_no_swaps_dft {n : Nat} (hn : 1 ≤ n) (b y : Lab) :
    runCircuit ((qft n false).map (GD.sem P)) (ket b) y
      = ind (∀ q, n ≤ q → y q = b q) * (P.h ^ n * P.w (n - 1) ^ (val n b * val n (rev n y))) := by
  unfold qft
  simp only [Bool.false_eq_true, if_false, List.append_nil]
  rw [runCircuit_qftBody P hw0]
  simp only [qftState]
  have := prod_fac_rev P hw0 hw hn b (rev n y)
  rw [rev_rev] at this
  rw [this, mul_assoc]

end dft

/-! ### QFT: structure of the gate list -/

theorem length_qftLadder (n i : Nat) : (qftLadder n i).length = n - i - 1 + 1 := by
  simp [qftLadder]

theorem sum_ladder_lengths (n m : Nat) (hm : m ≤ n) :
    2 * ((List.range m).map (fun i => (qftLadder n i).length)).sum + m * m = 2 * m * n + m := by
  induction m with
  | zero => simp
  | succ m ih =>
    have ih' := ih (by omega)
    rw [List.range_succ, List.map_append, List.sum_append]
    simp only [List.map_cons, List.map_nil, List.sum_cons, List.sum_nil, length_qftLadder n m]
    generalize ((List.range m).map (fun i => (qftLadder n i).length)).sum = S at *
    obtain ⟨k, rfl⟩ : ∃ k, n = m + 1 + k := ⟨n - (m + 1), by omega⟩
    have h2 : m + 1 + k - m - 1 + 1 = k + 1 := by omega
    rw [h2]
    ring_nf
    ring_nf at ih'
    linarith

theorem length_qftBody (n : Nat) : 2 * (qftBody n).length = n * (n + 1) := by
  unfold qftBody
  rw [List.length_flatMap]
  have := sum_ladder_lengths n n (le_refl n)
  ring_nf at this ⊢
  linarith

theorem length_qftSwaps (n : Nat) : (qftSwaps n).length = n / 2 := by
  simp [qftSwaps]

theorem mem_qftBody (n : Nat) (g : GD) :
    g ∈ qftBody n ↔
      (∃ i, i < n ∧ g = { kind := .H, q0 := i }) ∨
      (∃ i j, i < j ∧ j < n ∧ g = { kind := .CU1, q0 := j, q1 := i, e := j - i }) := by
  unfold qftBody qftLadder
  simp only [List.mem_flatMap, List.mem_range, List.mem_cons, List.mem_map]
  constructor
  · rintro ⟨i, hi, h | ⟨d, hd, rfl⟩⟩
    · exact Or.inl ⟨i, hi, h⟩
    · refine Or.inr ⟨i, i + 1 + d, by omega, by omega, ?_⟩
      have : i + 1 + d - i = d + 1 := by omega
      rw [this]
  · rintro (⟨i, hi, rfl⟩ | ⟨i, j, hij, hj, rfl⟩)
    · exact ⟨i, hi, Or.inl rfl⟩
    · refine ⟨i, by omega, Or.inr ⟨j - i - 1, by omega, ?_⟩⟩
      have h1 : i + 1 + (j - i - 1) = j := by omega
      have h2 : j - i - 1 + 1 = j - i := by omega
      rw [h1, h2]

/-! ### Ehrlich walk: one step moves exactly one 1 -/

theorem weight_nil : weight [] = 0 := rfl

theorem weight_cons (b : Bool) (bs : List Bool) : weight (b :: bs) = (if b then 1 else 0) + weight bs := by
  unfold weight
  cases b <;> simp <;> omega

theorem weight_set (bs : List Bool) (i : Nat) (v : Bool) (hi : i < bs.length) :
    weight (bs.set i v) + (if bs.getD i false then 1 else 0) = weight bs + (if v then 1 else 0) := by
  induction bs generalizing i with
  | nil => simp at hi
  | cons b bs ih =>
    cases i with
    | zero =>
      simp only [List.set_cons_zero, weight_cons, List.getD_cons_zero]
      omega
    | succ i =>
      have := ih i (by simpa using hi)
      simp only [List.set_cons_succ, weight_cons, List.getD_cons_succ]
      omega

theorem getD_set_ne (bs : List Bool) {i j : Nat} (h : i ≠ j) (v : Bool) :
    (bs.set i v).getD j false = bs.getD j false := by
  simp [List.getD_eq_getElem?_getD, List.getElem?_set_ne h]

/-- moving a 1 from `i` to an empty position `j` keeps the Hamming weight. -/
theorem weight_move (bs : List Bool) {i j : Nat} (hi : i < bs.length) (hj : j < bs.length)
    (hij : i ≠ j) (h1 : bs.getD i false = true) (h0 : bs.getD j false = false) :
    weight ((bs.set i false).set j true) = weight bs := by
  have a := weight_set bs i false hi
  have b := weight_set (bs.set i false) j true (by simpa using hj)
  rw [getD_set_ne bs hij, h0] at b
  rw [h1] at a
  simp at a b
  omega

theorem mem_filter_head {l : List Nat} {p : Nat → Bool} {a : Nat} (h : (l.filter p).head? = some a) :
    a ∈ l ∧ p a = true := by
  have : a ∈ l.filter p := List.mem_of_head? h
  exact List.mem_filter.mp this

theorem mem_filter_getLast {l : List Nat} {p : Nat → Bool} {a : Nat} (h : (l.filter p).getLast? = some a) :
    a ∈ l ∧ p a = true := by
  have : a ∈ l.filter p := List.mem_of_getLast? h
  exact List.mem_filter.mp this

/-- **One step of `_get_next_bistring`.**  Whenever the step is in one of the two situations
the algorithm is designed for — the marked position holds a 0 and a 1 lies above it, or it
holds a 1 and a 0 lies above it (below the next 1) — the new string is the old one with
exactly one 1 moved, between the marked position and a position above it. -/
theorem nextBits_move (bs : List Bool) (mx : Nat) (hmx : mx < bs.length)
    (hreg : (bs.getD mx false = false ∧ (nearestOne bs mx).isSome) ∨
            (bs.getD mx false = true ∧ (farthestZero bs mx (nearestOne bs mx)).isSome)) :
    ∃ i j, i < bs.length ∧ j < bs.length ∧ i ≠ j ∧ bs.getD i false = true ∧ bs.getD j false = false ∧
      (i = mx ∨ j = mx) ∧ mx ≤ i ∧ mx ≤ j ∧ nextBits bs mx = (bs.set i false).set j true := by
  rcases hreg with ⟨h0, hn⟩ | ⟨h1, hf⟩
  · obtain ⟨no, hno⟩ := Option.isSome_iff_exists.mp hn
    have hm := mem_filter_head hno
    simp only [List.mem_range, Bool.and_eq_true, decide_eq_true_eq] at hm
    obtain ⟨hlt, hb, hgt⟩ := hm
    refine ⟨no, mx, hlt, hmx, by omega, hb, h0, Or.inr rfl, by omega, le_refl _, ?_⟩
    unfold nextBits
    rw [h0, hno]
    simp only [setBit]
    exact List.set_comm _ _ (by omega)
  · obtain ⟨fz, hfz⟩ := Option.isSome_iff_exists.mp hf
    have hm := mem_filter_getLast hfz
    simp only [List.mem_range, Bool.and_eq_true, Bool.not_eq_true', decide_eq_true_eq] at hm
    obtain ⟨hlt, ⟨hb, hgt⟩, _⟩ := hm
    refine ⟨mx, fz, hmx, hlt, by omega, h1, hb, Or.inl rfl, le_refl _, by omega, ?_⟩
    unfold nextBits
    rw [h1]
    simp only [hfz, setBit]

theorem nextBits_weight (bs : List Bool) (mx : Nat) (hmx : mx < bs.length)
    (hreg : (bs.getD mx false = false ∧ (nearestOne bs mx).isSome) ∨
            (bs.getD mx false = true ∧ (farthestZero bs mx (nearestOne bs mx)).isSome)) :
    weight (nextBits bs mx) = weight bs ∧ (nextBits bs mx).length = bs.length := by
  obtain ⟨i, j, hi, hj, hij, h1, h0, _, _, _, he⟩ := nextBits_move bs mx hmx hreg
  rw [he]
  exact ⟨weight_move bs hi hj hij h1 h0, by simp⟩

/-- the step at `(bs, mx)` is one of the two designed situations (executable test). -/
def regularAt (bs : List Bool) (mx : Nat) : Bool :=
  decide (mx < bs.length) &&
    ((!bs.getD mx false && (nearestOne bs mx).isSome) ||
     (bs.getD mx false && (farthestZero bs mx (nearestOne bs mx)).isSome))

/-- every step of a run of `fuel` steps is regular (executable test). -/
def regularRun : Nat → List Bool → List Nat → Bool
  | 0, _, _ => true
  | fuel + 1, bs, ms =>
    regularAt bs (listMax ms) && regularRun fuel (nextString bs ms).bits (nextString bs ms).markers

/-- `b` is `a` with exactly one 1 moved to an empty position. -/
def OneMove (a b : List Bool) : Prop :=
  ∃ i j, i < a.length ∧ j < a.length ∧ i ≠ j ∧ a.getD i false = true ∧ a.getD j false = false ∧
    b = (a.set i false).set j true

def ChainFrom {β : Type} (R : β → β → Prop) : β → List β → Prop
  | _, [] => True
  | a, b :: l => R a b ∧ ChainFrom R b l

theorem regularAt_iff (bs : List Bool) (mx : Nat) (h : regularAt bs mx = true) :
    mx < bs.length ∧ ((bs.getD mx false = false ∧ (nearestOne bs mx).isSome) ∨
            (bs.getD mx false = true ∧ (farthestZero bs mx (nearestOne bs mx)).isSome)) := by
  unfold regularAt at h
  simp only [Bool.and_eq_true, decide_eq_true_eq, Bool.or_eq_true, Bool.not_eq_true'] at h
  exact h

theorem nextString_bits (bs : List Bool) (ms : List Nat) :
    (nextString bs ms).bits = nextBits bs (listMax ms) := rfl

/-- along a regular run every string has the weight and length of the first one and consecutive
strings differ by moving exactly one 1. -/
theorem ehrlichLoop_chain (fuel : Nat) (bs : List Bool) (ms : List Nat)
    (h : regularRun fuel bs ms = true) :
    ChainFrom OneMove bs ((ehrlichLoop fuel bs ms).map (·.bits)) ∧
      ∀ st ∈ ehrlichLoop fuel bs ms, weight st.bits = weight bs ∧ st.bits.length = bs.length := by
  induction fuel generalizing bs ms with
  | zero => simp [ehrlichLoop, ChainFrom]
  | succ fuel ih =>
    unfold regularRun at h
    rw [Bool.and_eq_true] at h
    obtain ⟨hr, hrest⟩ := h
    obtain ⟨hmx, hreg⟩ := regularAt_iff _ _ hr
    obtain ⟨i, j, hi, hj, hij, h1, h0, _, _, _, he⟩ := nextBits_move bs _ hmx hreg
    obtain ⟨hw, hl⟩ := nextBits_weight bs _ hmx hreg
    obtain ⟨ihc, ihw⟩ := ih _ _ hrest
    unfold ehrlichLoop
    simp only [List.map_cons, ChainFrom, List.mem_cons, forall_eq_or_imp]
    rw [nextString_bits] at *
    refine ⟨⟨⟨i, j, hi, hj, hij, h1, h0, he⟩, ihc⟩, ⟨hw, hl⟩, ?_⟩
    intro st hst
    obtain ⟨a, b⟩ := ihw st hst
    exact ⟨a.trans hw, b.trans hl⟩

/-- executable completeness test for one `(n, k)`: the run is regular, visits `C(n,k)` pairwise
different strings (all of weight `k` and length `n` by `ehrlichLoop_chain`). -/
def ehrlichOK (n k : Nat) : Bool :=
  let init := defaultInit n k
  regularRun (choose init.length (weight init) - 1) init (getMarkers init false) &&
    decide ((ehrlichStrings init).Nodup) && decide ((ehrlichStrings init).length = choose n k)

theorem length_defaultInit {n k : Nat} (h : k ≤ n) : (defaultInit n k).length = n := by
  simp [defaultInit]; omega

theorem weight_defaultInit (n k : Nat) : weight (defaultInit n k) = k := by
  simp [defaultInit, weight, List.filter_append, List.filter_replicate]

def ehrlichOKUpTo (N : Nat) : Bool :=
  (List.range (N + 1)).all (fun n => (List.range n).all (fun k => k == 0 || ehrlichOK n k))

/-! ### generic amplitude-loading chain (Hamming-weight encoder, real data) -/

/-- state after `m` steps of a loading chain through the basis labels `v 0, v 1, …`. -/
noncomputable def chainState (P : Par α) (v : Nat → Lab) (m : Nat) : Lab → α := fun x =>
  (∑ k ∈ range m, ((∏ j ∈ range k, P.s j) * P.c k) * ket (v k) x)
    + (∏ j ∈ range m, P.s j) * ket (v m) x

theorem chain_loader (P : Par α) (G : Nat → MGate α) (v : Nat → Lab) (m : Nat)
    (hstep : ∀ k, k < m → applyGate (G k) (ket (v k))
      = fun x => P.c k * ket (v k) x + P.s k * ket (v (k + 1)) x)
    (hfix : ∀ k, k < m → ∀ j, j < k → applyGate (G k) (ket (v j)) = ket (v j)) :
    runCircuit ((List.range m).map G) (ket (v 0)) = chainState P v m := by
  induction m with
  | zero => funext x; simp [runCircuit, chainState]
  | succ m ih =>
    rw [List.range_succ, List.map_append, runCircuit_append,
      ih (fun k hk => hstep k (by omega)) (fun k hk => hfix k (by omega))]
    simp only [List.map_cons, List.map_nil, runCircuit_cons, runCircuit_nil]
    have e1 : chainState P v m = fun x =>
        (fun x => ∑ k ∈ range m, (fun k x => ((∏ j ∈ range k, P.s j) * P.c k) * ket (v k) x) k x) x
        + (fun x => (∏ j ∈ range m, P.s j) * ket (v m) x) x := rfl
    rw [e1, applyGate_add, applyGate_sum, applyGate_smul]
    funext x
    have e2 : ∀ k ∈ range m,
        applyGate (G m) (fun x => ((∏ j ∈ range k, P.s j) * P.c k) * ket (v k) x) x
          = ((∏ j ∈ range k, P.s j) * P.c k) * ket (v k) x := by
      intro k hk
      rw [applyGate_smul, hfix m (by omega) k (mem_range.mp hk)]
    simp only []
    rw [sum_congr rfl e2, hstep m (by omega)]
    simp only [chainState]
    rw [sum_range_succ, prod_range_succ]
    ring

/-- a gate with extra controls acts as the uncontrolled gate where all controls are 1. -/
theorem applyGate_controls (g : MGate α) (ψ : Lab → α) (x : Lab) :
    applyGate g ψ x = if Lab.allOne g.controls x then applyGate { g with controls := [] } ψ x else ψ x := by
  unfold applyGate
  by_cases h : Lab.allOne g.controls x = true
  · simp [Lab.allOne]
  · simp [h]

theorem allOne_sw {a b : Nat} (hab : a ≠ b) {cs : List Nat} (ha : a ∉ cs) (hb : b ∉ cs) (x : Lab) :
    Lab.allOne cs (sw a b x) = Lab.allOne cs x := by
  apply Lab.allOne_congr
  intro r hr
  rw [sw_apply hab]
  have h1 : r ≠ b := fun h => hb (h ▸ hr)
  have h2 : r ≠ a := fun h => ha (h ▸ hr)
  simp [h1, h2]

theorem sw_eq_iff {a b : Nat} (hab : a ≠ b) (x v : Lab) : sw a b x = v ↔ x = sw a b v := by
  constructor
  · intro h; rw [← h, sw_sw hab]
  · intro h; rw [h, sw_sw hab]

section crbs
variable (c s : α) {a b : Nat} (hab : a ≠ b) {cs : List Nat} (ha : a ∉ cs) (hb : b ∉ cs)
include hab ha hb

/-- a controlled RBS leaves `|v⟩` alone when a control of `v` is off or its two target bits
are equal. -/
theorem crbs_ket_fix (v : Lab) (h : Lab.allOne cs v = false ∨ v a = v b) :
    applyGate ({ mat := matRBS c s, targets := [a, b], controls := cs } : MGate α) (ket v) = ket v := by
  classical
  funext x
  rw [applyGate_controls]
  by_cases hc : Lab.allOne cs x = true
  · rw [if_pos hc]
    show applyGate ({ mat := matRBS c s, targets := [a, b], controls := [] } : MGate α) (ket v) x = _
    rw [applyGate_RBS hab]
    split
    · rfl
    · rename_i hne
      have hx : x ≠ v := by
        intro e; subst e
        rcases h with h | h
        · rw [h] at hc; exact Bool.false_ne_true hc
        · exact hne h
      have hsx : sw a b x ≠ v := by
        intro e
        rcases h with h | h
        · have := allOne_sw hab ha hb x
          rw [e, h, hc] at this; exact Bool.false_ne_true this
        · apply hne
          have e1 := congrFun e a
          have e2 := congrFun e b
          rw [sw_apply hab] at e1 e2
          simp [hab] at e1 e2
          rw [e1, e2, h]
      have hsx' : (x.set a (x b)).set b (x a) ≠ v := hsx
      rw [ket_apply, ket_apply, if_neg hx, if_neg hsx']; simp
  · rw [if_neg hc]

/-- on a label with all controls on, source bit 1 and destination bit 0 it moves the
excitation with amplitudes `cos` (stay) and `sin` (move). -/
theorem crbs_ket_move (v : Lab) (hon : Lab.allOne cs v = true) (hva : v a = true) (hvb : v b = false) :
    applyGate ({ mat := matRBS c s, targets := [a, b], controls := cs } : MGate α) (ket v)
      = fun x => c * ket v x + s * ket (sw a b v) x := by
  classical
  funext x
  rw [applyGate_controls]
  have hsv : Lab.allOne cs (sw a b v) = true := by rw [allOne_sw hab ha hb]; exact hon
  have hsva : sw a b v a = false := by rw [sw_apply hab]; simp [hab, hvb]
  have hsvb : sw a b v b = true := by rw [sw_apply hab]; simp [hva]
  by_cases hc : Lab.allOne cs x = true
  · rw [if_pos hc]
    show applyGate ({ mat := matRBS c s, targets := [a, b], controls := [] } : MGate α) (ket v) x = _
    rw [applyGate_RBS hab]
    have hswx : ((x.set a (x b)).set b (x a) = v) ↔ x = sw a b v := sw_eq_iff hab x v
    split
    · rename_i heq
      have h1 : x ≠ v := by intro e; subst e; rw [hva, hvb] at heq; exact Bool.noConfusion heq
      have h2 : x ≠ sw a b v := by intro e; subst e; rw [hsva, hsvb] at heq; exact Bool.noConfusion heq
      rw [ket_apply, ket_apply, if_neg h1, if_neg h2]; simp
    · rename_i hne
      cases hxb : x b
      · have h2 : x ≠ sw a b v := by intro e; rw [e, hsvb] at hxb; exact Bool.noConfusion hxb
        have h3 : ¬ ((x.set a (x b)).set b (x a) = v) := fun h => h2 (hswx.mp h)
        rw [hxb] at h3
        simp only [ket_apply, if_neg h2, if_neg h3]; simp
      · have hxa : x a = false := by
          cases h : x a
          · rfl
          · exfalso; apply hne; rw [h, hxb]
        have h1 : x ≠ v := by intro e; rw [e, hva] at hxa; exact Bool.noConfusion hxa
        by_cases h2 : x = sw a b v
        · have h3 : (x.set a (x b)).set b (x a) = v := hswx.mpr h2
          rw [hxb, hxa] at h3
          simp only [ket_apply, hxa, if_neg h1, if_pos h2, if_pos h3]; simp
        · have h3 : ¬ ((x.set a (x b)).set b (x a) = v) := fun h => h2 (hswx.mp h)
          rw [hxb, hxa] at h3
          simp only [ket_apply, hxa, if_neg h1, if_neg h2, if_neg h3]; simp
  · rw [if_neg hc]
    have h1 : x ≠ v := by intro e; subst e; exact hc hon
    have h2 : x ≠ sw a b v := by intro e; subst e; exact hc hsv
    simp only [ket_apply, if_neg h1, if_neg h2]; simp

end crbs

/-- **Loading chain of controlled RBS gates** (the circuit shape of `hamming_weight_encoder`
for real data): gate `k` is `RBS(a k, b k, θ_k)` controlled on `cs k`; the labels `v k` are
the visited basis states. -/
theorem crbs_chain (P : Par α) (a b : Nat → Nat) (cs : Nat → List Nat) (v : Nat → Lab) (m : Nat)
    (hab : ∀ k, k < m → a k ≠ b k)
    (hdis : ∀ k, k < m → a k ∉ cs k ∧ b k ∉ cs k)
    (hon : ∀ k, k < m → Lab.allOne (cs k) (v k) = true ∧ v k (a k) = true ∧ v k (b k) = false)
    (hnext : ∀ k, k < m → v (k + 1) = sw (a k) (b k) (v k))
    (hfix : ∀ k, k < m → ∀ j, j < k → Lab.allOne (cs k) (v j) = false ∨ v j (a k) = v j (b k)) :
    runCircuit ((List.range m).map
        (fun k => GD.sem P { kind := .RBS, q0 := a k, q1 := b k, e := k, ctrl := cs k })) (ket (v 0))
      = chainState P v m := by
  apply chain_loader P _ v m
  · intro k hk
    obtain ⟨h1, h2, h3⟩ := hon k hk
    show applyGate ({ mat := matRBS (P.c k) (P.s k), targets := [a k, b k], controls := cs k } : MGate α) _ = _
    rw [crbs_ket_move (P.c k) (P.s k) (hab k hk) (hdis k hk).1 (hdis k hk).2 (v k) h1 h2 h3, hnext k hk]
  · intro k hk j hj
    exact crbs_ket_fix (P.c k) (P.s k) (hab k hk) (hdis k hk).1 (hdis k hk).2 (v j) (hfix k hk j hj)


/-- with partial norms `r` (`r k · c k = x k`, `r k · s k = r (k+1)`, `r m = x m`) the chain
state is the normalised data: `r 0 · state = Σ_k x_k |v k⟩`. -/
theorem chainState_norm (P : Par α) (v : Nat → Lab) (m : Nat) (x r : Nat → α)
    (hlast : r m = x m)
    (hc : ∀ k, k < m → r k * P.c k = x k)
    (hs : ∀ k, k < m → r k * P.s k = r (k + 1)) (y : Lab) :
    r 0 * chainState P v m y = ∑ k ∈ range (m + 1), x k * ket (v k) y := by
  rw [sum_range_succ]
  have hp := norm_prod P r m hs
  unfold chainState
  rw [mul_add, mul_sum]
  congr 1
  · apply sum_congr rfl
    intro k hk
    have hk' : k < m := mem_range.mp hk
    rw [← hc k hk', ← hp k (by omega)]
    ring
  · rw [← hlast, ← hp m (le_refl _)]
    ring

/-! ### RBS networks act on the one-hot subspace by Givens rotations -/

theorem rbs_ket_snd {a b : Nat} (hab : a ≠ b) (c s : α) :
    applyGate ({ mat := matRBS c s, targets := [a, b], controls := [] } : MGate α) (ket (oh b))
      = fun x => c * ket (oh b) x - s * ket (oh a) x := by
  classical
  funext x
  rw [applyGate_RBS hab]
  have hsw : ((x.set a (x b)).set b (x a) = oh b) ↔ x = oh a := by
    have := sw_eq_iff hab x (oh b)
    rw [sw_oh_snd hab] at this
    exact this
  split
  · rename_i heq
    have h1 : x ≠ oh a := by
      intro h; rw [h] at heq; simp [oh, Ne.symm hab] at heq
    have h2 : x ≠ oh b := by
      intro h; rw [h] at heq; simp [oh, hab] at heq
    rw [ket_apply, ket_apply, if_neg h1, if_neg h2]; simp
  · rename_i hne
    cases hb : x b
    · have ha : x a = true := by
        cases h : x a
        · exfalso; apply hne; rw [h, hb]
        · rfl
      have h1 : x ≠ oh b := by
        intro h; rw [h] at hb; simp [oh] at hb
      by_cases h2 : x = oh a
      · have h3 : (x.set a (x b)).set b (x a) = oh b := hsw.mpr h2
        rw [hb, ha] at h3
        simp only [ket_apply, ha, if_neg h1, if_pos h2, if_pos h3]; simp
      · have h3 : ¬ ((x.set a (x b)).set b (x a) = oh b) := fun h => h2 (hsw.mp h)
        rw [hb, ha] at h3
        simp only [ket_apply, ha, if_neg h1, if_neg h2, if_neg h3]; simp
    · have ha : x a = false := by
        cases h : x a
        · rfl
        · exfalso; apply hne; rw [h, hb]
      have h2 : x ≠ oh a := by
        intro h; rw [h] at ha; simp [oh] at ha
      have h3 : ¬ ((x.set a (x b)).set b (x a) = oh b) := fun h => h2 (hsw.mp h)
      rw [hb, ha] at h3
      simp only [ket_apply, ha, if_neg h2, if_neg h3]; simp

/-- superposition of one-hot states of the qubits `< n` with amplitude vector `A`. -/
noncomputable def ohState (n : Nat) (A : Nat → α) : Lab → α :=
  fun x => ∑ q ∈ range n, A q * ket (oh q) x

/-- Givens rotation of the amplitude vector in the plane `(a, b)`. -/
def rot (a b : Nat) (c s : α) (A : Nat → α) : Nat → α :=
  fun q => if q = a then c * A a - s * A b else if q = b then s * A a + c * A b else A q

theorem sum_eq_of_pair {f g : Nat → α} {a b n : Nat} (hab : a ≠ b) (ha : a < n) (hb : b < n)
    (hother : ∀ q, q ≠ a → q ≠ b → f q = g q) (hpair : f a + f b = g a + g b) :
    ∑ q ∈ range n, f q = ∑ q ∈ range n, g q := by
  have ha' : a ∈ range n := mem_range.mpr ha
  have hb' : b ∈ (range n).erase a := mem_erase.mpr ⟨Ne.symm hab, mem_range.mpr hb⟩
  rw [← add_sum_erase _ f ha', ← add_sum_erase _ g ha', ← add_sum_erase _ f hb', ← add_sum_erase _ g hb']
  have : ∑ q ∈ ((range n).erase a).erase b, f q = ∑ q ∈ ((range n).erase a).erase b, g q := by
    apply sum_congr rfl
    intro q hq
    have h1 := (mem_erase.mp hq).1
    have h2 := (mem_erase.mp (mem_erase.mp hq).2).1
    exact hother q h2 h1
  rw [this, ← add_assoc, ← add_assoc, hpair]

theorem rbs_ohState {a b n : Nat} (hab : a ≠ b) (ha : a < n) (hb : b < n) (c s : α) (A : Nat → α) :
    applyGate ({ mat := matRBS c s, targets := [a, b], controls := [] } : MGate α) (ohState n A)
      = ohState n (rot a b c s A) := by
  have e1 : ohState n A = fun x => ∑ q ∈ range n, (fun q x => A q * ket (oh q) x) q x := rfl
  rw [e1, applyGate_sum]
  funext x
  simp only [applyGate_smul]
  unfold ohState
  apply sum_eq_of_pair hab ha hb
  · intro q hqa hqb
    rw [rbs_ket_other hab hqa hqb]
    simp [rot, hqa, hqb]
  · rw [rbs_ket_fst hab, rbs_ket_snd hab]
    simp only [rot, if_true, if_neg (Ne.symm hab)]
    ring

/-- amplitude-vector semantics of a list of RBS descriptors. -/
def runAmps (P : Par α) (gs : List GD) (A : Nat → α) : Nat → α :=
  gs.foldl (fun A g => rot g.q0 g.q1 (P.c g.e) (P.s g.e) A) A

/-- **Any network of RBS gates** on qubits `< n` maps the one-hot superposition with
amplitudes `A` to the one with amplitudes `runAmps gs A` (an `n`-dimensional computation). -/
theorem runCircuit_rbs_network (P : Par α) (n : Nat) (gs : List GD)
    (hgs : ∀ g ∈ gs, g.kind = .RBS ∧ g.ctrl = [] ∧ g.q0 ≠ g.q1 ∧ g.q0 < n ∧ g.q1 < n)
    (A : Nat → α) :
    runCircuit (gs.map (GD.sem P)) (ohState n A) = ohState n (runAmps P gs A) := by
  induction gs generalizing A with
  | nil => rfl
  | cons g gs ih =>
    obtain ⟨hk, hc, hne, h0, h1⟩ := hgs g (List.mem_cons_self)
    rw [List.map_cons, runCircuit_cons]
    have : GD.sem P g = ({ mat := matRBS (P.c g.e) (P.s g.e), targets := [g.q0, g.q1], controls := [] } : MGate α) := by
      unfold GD.sem; rw [hk, hc]
    rw [this, rbs_ohState hne h0 h1]
    exact ih (fun g' hg' => hgs g' (List.mem_cons_of_mem _ hg')) _

theorem ket_oh_eq_ohState {n q : Nat} (hq : q < n) :
    (ket (oh q) : Lab → α) = ohState n (fun r => if r = q then 1 else 0) := by
  funext x
  unfold ohState
  simp only [ite_mul, one_mul, zero_mul]
  rw [sum_ite_eq' (range n) q, if_pos (mem_range.mpr hq)]


theorem mem_zipWith_imp {A B C : Type} {f : A → B → C} {l1 : List A} {l2 : List B} {c : C}
    (h : c ∈ List.zipWith f l1 l2) : ∃ a b, b ∈ l2 ∧ c = f a b := by
  induction l1 generalizing l2 with
  | nil => simp at h
  | cons a l1 ih =>
    cases l2 with
    | nil => simp at h
    | cons b l2 =>
      rw [List.zipWith_cons_cons, List.mem_cons] at h
      rcases h with h | h
      · exact ⟨a, b, List.mem_cons_self, h⟩
      · obtain ⟨a', b', hb', hc⟩ := ih h
        exact ⟨a', b', List.mem_cons_of_mem _ hb', hc⟩

theorem rbsGates_valid {n : Nat} {pairs : List (Nat × Nat)}
    (hp : ∀ p ∈ pairs, p.1 ≠ p.2 ∧ p.1 < n ∧ p.2 < n) :
    ∀ g ∈ rbsGates pairs, g.kind = .RBS ∧ g.ctrl = [] ∧ g.q0 ≠ g.q1 ∧ g.q0 < n ∧ g.q1 < n := by
  intro g hg
  obtain ⟨e, p, hpm, rfl⟩ := mem_zipWith_imp hg
  obtain ⟨h1, h2, h3⟩ := hp p hpm
  exact ⟨rfl, rfl, h1, h2, h3⟩

end QV.Enc
