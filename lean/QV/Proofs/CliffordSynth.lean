/-
  QV.Proofs.CliffordSynth — correctness of the Aaronson–Gottesman tableau → circuit synthesis
  (QV/Model/CliffordSynth.lean, transliteration of `_decomposition_AG04` and its helpers).

  Invariants carried through every loop of the elimination, for every register size:
  * `Good n T0 s`  : the working tableau is the original one conjugated by the gates appended so
    far (`s.1 = runGates s.2 T0`) and every appended gate names valid qubits;
  * `Done n i T`   : rows `j` and `n + j` are `X_j` and `Z_j` for `j < i`;
  plus, per helper, the progress on row `i` resp. `n + i`.
-/
import QV.Model.CliffordSynth
import QV.Proofs.CliffordMeas
namespace QV.Cliff

/-! ### bit formulas of the primitive updates used by the synthesis -/

@[simp] theorem opH_x (q k : Nat) (w : Row) : (opH q w).x k = if k = q then w.z q else w.x k := rfl
@[simp] theorem opH_z (q k : Nat) (w : Row) : (opH q w).z k = if k = q then w.x q else w.z k := rfl
@[simp] theorem opS_x (q k : Nat) (w : Row) : (opS q w).x k = w.x k := rfl
@[simp] theorem opS_z (q k : Nat) (w : Row) :
    (opS q w).z k = if k = q then (w.z q ^^ w.x q) else w.z k := rfl
@[simp] theorem opCNOT_x (c t k : Nat) (w : Row) :
    (opCNOT c t w).x k = if k = t then (w.x t ^^ w.x c) else w.x k := rfl
@[simp] theorem opCNOT_z (c t k : Nat) (w : Row) :
    (opCNOT c t w).z k = if k = c then (w.z c ^^ w.z t) else w.z k := rfl
@[simp] theorem opSWAP_x (c t k : Nat) (w : Row) :
    (opSWAP c t w).x k = if k = t then w.x c else if k = c then w.x t else w.x k := rfl
@[simp] theorem opSWAP_z (c t k : Nat) (w : Row) :
    (opSWAP c t w).z k = if k = t then w.z c else if k = c then w.z t else w.z k := rfl
@[simp] theorem opZ_x (q k : Nat) (w : Row) : (opZ q w).x k = w.x k := rfl
@[simp] theorem opZ_z (q k : Nat) (w : Row) : (opZ q w).z k = w.z k := rfl
@[simp] theorem opX_x (q k : Nat) (w : Row) : (opX q w).x k = w.x k := rfl
@[simp] theorem opX_z (q k : Nat) (w : Row) : (opX q w).z k = w.z k := rfl

/-! ### loops -/

theorem forRange_inv (P : Nat → Synth → Prop) (f : Nat → Synth → Synth) :
    ∀ (cnt lo : Nat) (s : Synth), P lo s →
      (∀ k s, lo ≤ k → k < lo + cnt → P k s → P (k + 1) (f k s)) →
      P (lo + cnt) (forRange f lo cnt s)
  | 0, _, _, h, _ => h
  | cnt + 1, lo, s, h, step => by
    have := forRange_inv P f cnt (lo + 1) (f lo s) (step lo s (Nat.le_refl _) (by omega) h)
      (fun k s hk hk' => step k s (by omega) (by omega))
    have e : lo + 1 + cnt = lo + (cnt + 1) := by omega
    rw [e] at this
    exact this

theorem firstIdx_some {p : Nat → Bool} : ∀ (cnt lo k : Nat), firstIdx p lo cnt = some k →
    lo ≤ k ∧ k < lo + cnt ∧ p k = true
  | 0, _, _, h => by simp [firstIdx] at h
  | cnt + 1, lo, k, h => by
    simp only [firstIdx] at h
    by_cases hp : p lo = true
    · rw [if_pos hp] at h
      cases h
      exact ⟨Nat.le_refl _, by omega, hp⟩
    · rw [if_neg hp] at h
      have := firstIdx_some cnt (lo + 1) k h
      exact ⟨by omega, by omega, this.2.2⟩

theorem firstIdx_none {p : Nat → Bool} : ∀ (cnt lo : Nat), firstIdx p lo cnt = none →
    ∀ k, lo ≤ k → k < lo + cnt → p k = false
  | 0, _, _, k, h1, h2 => by omega
  | cnt + 1, lo, h, k, h1, h2 => by
    simp only [firstIdx] at h
    by_cases hp : p lo = true
    · rw [if_pos hp] at h; cases h
    · rw [if_neg hp] at h
      by_cases hk : k = lo
      · subst hk; simpa using hp
      · exact firstIdx_none cnt (lo + 1) h k (by omega) (by omega)

theorem anyIdx_false {p : Nat → Bool} {lo cnt : Nat} (h : anyIdx p lo cnt = false) :
    ∀ k, lo ≤ k → k < lo + cnt → p k = false := by
  unfold anyIdx at h
  cases hf : firstIdx p lo cnt with
  | none => exact firstIdx_none cnt lo hf
  | some k => rw [hf] at h; simp at h

/-! ### the two global invariants -/

/-- the gate alphabet of the synthesis and of its inverse. -/
def Gate.isAG : Gate → Bool
  | .H _ | .S _ | .SDG _ | .CNOT _ _ | .SWAP _ _ | .Z _ | .X _ | .Y _ => true
  | _ => false

structure Good (n : Nat) (T0 : Tableau) (s : Synth) : Prop where
  run : s.1 = runGates s.2 T0
  oks : ∀ g ∈ s.2, g.ok n
  ag : ∀ g ∈ s.2, g.isAG = true

theorem Good.emit {n : Nat} {T0 : Tableau} {s : Synth} (h : Good n T0 s) {g : Gate} (hg : g.ok n)
    (ha : g.isAG = true) : Good n T0 (emit g s) := by
  refine ⟨?_, ?_, ?_⟩
  · show applyGate g s.1 = runGates (s.2 ++ [g]) T0
    simp only [runGates, List.foldl_append, List.foldl_cons, List.foldl_nil]
    rw [h.run]; rfl
  · intro g' hg'
    simp only [Cliff.emit, List.mem_append, List.mem_cons, List.mem_nil_iff, or_false] at hg'
    rcases hg' with h' | rfl
    · exact h.oks g' h'
    · exact hg
  · intro g' hg'
    simp only [Cliff.emit, List.mem_append, List.mem_cons, List.mem_nil_iff, or_false] at hg'
    rcases hg' with h' | rfl
    · exact h.ag g' h'
    · exact ha

theorem Good.valid {n : Nat} {T0 : Tableau} {s : Synth} (h : Good n T0 s) (hv : Valid n T0) :
    Valid n s.1 := by
  rw [h.run]; exact valid_runGates n s.2 h.oks T0 hv

/-- the row is `X_j` on the first `n` columns (sign not constrained). -/
def IsX (n j : Nat) (w : Row) : Prop := ∀ k, k < n → w.x k = (k == j) ∧ w.z k = false
/-- the row is `Z_j` on the first `n` columns (sign not constrained). -/
def IsZ (n j : Nat) (w : Row) : Prop := ∀ k, k < n → w.x k = false ∧ w.z k = (k == j)

/-- rows `j` and `n + j` are `X_j` and `Z_j` for all `j < i`. -/
def Done (n i : Nat) (T : Tableau) : Prop :=
  ∀ j, j < i → IsX n j (getRow T j) ∧ IsZ n j (getRow T (n + j))

/-- gates that map "no X/Z on my qubits" to "no X/Z on my qubits". -/
def LocalZero (g : Gate) : Prop :=
  g.isAG = true ∧ ∀ w : Row, (∀ q ∈ g.qubits, w.x q = false ∧ w.z q = false) →
    ∀ q ∈ g.qubits, (g.act w).x q = false ∧ (g.act w).z q = false

theorem localZero_H (q : Nat) : LocalZero (.H q) := by
  refine ⟨rfl, ?_⟩
  intro w h k hk
  simp only [Gate.qubits, List.mem_cons, List.mem_nil_iff, or_false] at h hk
  subst hk
  simp [Gate.act, h]

theorem localZero_S (q : Nat) : LocalZero (.S q) := by
  refine ⟨rfl, ?_⟩
  intro w h k hk
  simp only [Gate.qubits, List.mem_cons, List.mem_nil_iff, or_false] at h hk
  subst hk
  simp [Gate.act, h]

theorem localZero_CNOT (c t : Nat) : LocalZero (.CNOT c t) := by
  refine ⟨rfl, ?_⟩
  intro w h k hk
  simp only [Gate.qubits, List.mem_cons, List.mem_nil_iff, or_false] at h hk
  have hc := h c (Or.inl rfl)
  have ht := h t (Or.inr rfl)
  rcases hk with rfl | rfl <;> simp [Gate.act, hc, ht]

theorem localZero_SWAP (c t : Nat) : LocalZero (.SWAP c t) := by
  refine ⟨rfl, ?_⟩
  intro w h k hk
  simp only [Gate.qubits, List.mem_cons, List.mem_nil_iff, or_false] at h hk
  have hc := h c (Or.inl rfl)
  have ht := h t (Or.inr rfl)
  rcases hk with rfl | rfl <;> simp [Gate.act, hc, ht]

theorem isX_act {n j : Nat} {w : Row} (g : Gate) (h : IsX n j w) (hq : ∀ q ∈ g.qubits, q ≠ j ∧ q < n)
    (hz : LocalZero g) : IsX n j (g.act w) := by
  intro k hk
  by_cases hm : k ∈ g.qubits
  · have h0 : ∀ q ∈ g.qubits, w.x q = false ∧ w.z q = false := fun q hq' => by
      have := h q (hq q hq').2
      have hne : (q == j) = false := by simpa using (hq q hq').1
      rw [hne] at this; exact this
    have := hz.2 w h0 k hm
    have hne : (k == j) = false := by simpa using (hq k hm).1
    rw [hne]; exact this
  · have := off_gate g w k hm
    rw [this.1, this.2]; exact h k hk

theorem isZ_act {n j : Nat} {w : Row} (g : Gate) (h : IsZ n j w) (hq : ∀ q ∈ g.qubits, q ≠ j ∧ q < n)
    (hz : LocalZero g) : IsZ n j (g.act w) := by
  intro k hk
  by_cases hm : k ∈ g.qubits
  · have h0 : ∀ q ∈ g.qubits, w.x q = false ∧ w.z q = false := fun q hq' => by
      have := h q (hq q hq').2
      have hne : (q == j) = false := by simpa using (hq q hq').1
      rw [hne] at this; exact this
    have := hz.2 w h0 k hm
    have hne : (k == j) = false := by simpa using (hq k hm).1
    rw [hne]; exact this
  · have := off_gate g w k hm
    rw [this.1, this.2]; exact h k hk

/-- everything the helpers of stage `i` rely on and keep. -/
structure Ctx (n i : Nat) (T0 : Tableau) (s : Synth) : Prop where
  good : Good n T0 s
  v0 : Valid n T0
  done : Done n i s.1

namespace Ctx
variable {n i : Nat} {T0 : Tableau} {s : Synth}

theorem valid (h : Ctx n i T0 s) : Valid n s.1 := h.good.valid h.v0

theorem len (h : Ctx n i T0 s) : 2 * n < s.1.length := h.valid.1

theorem row_emit (h : Ctx n i T0 s) (g : Gate) (m : Nat) (hm : m ≤ 2 * n) :
    getRow (emit g s).1 m = g.act (getRow s.1 m) :=
  getRow_applyGate g s.1 m (by have := h.len; omega)

/-- a gate on qubits `≥ i` keeps the context of stage `i`. -/
theorem emit (h : Ctx n i T0 s) (g : Gate) (hg : g.ok n) (hq : ∀ q ∈ g.qubits, i ≤ q ∧ q < n)
    (hz : LocalZero g) : Ctx n i T0 (emit g s) := by
  refine ⟨h.good.emit hg hz.1, h.v0, fun j hj => ?_⟩
  have hq' : ∀ q ∈ g.qubits, q ≠ j ∧ q < n := fun q hm => ⟨by have := (hq q hm).1; omega, (hq q hm).2⟩
  have hjn : j < n := by
    cases hqs : g.qubits with
    | nil =>
      -- no qubits: impossible for our gates, but harmless: use validity bound
      have := h.len
      by_cases hjn : j < n
      · exact hjn
      · exfalso
        cases g <;> simp [Gate.qubits] at hqs
    | cons q _ =>
      have := hq q (by rw [hqs]; exact List.mem_cons_self ..)
      omega
  rw [h.row_emit g j (by omega), h.row_emit g (n + j) (by omega)]
  exact ⟨isX_act g (h.done j hj).1 hq' hz, isZ_act g (h.done j hj).2 hq' hz⟩

theorem emitIf (h : Ctx n i T0 s) (b : Bool) (g : Gate) (hg : g.ok n)
    (hq : ∀ q ∈ g.qubits, i ≤ q ∧ q < n) (hz : LocalZero g) : Ctx n i T0 (emitIf b g s) := by
  unfold Cliff.emitIf
  split
  · exact h.emit g hg hq hz
  · exact h

theorem symp_isX {j : Nat} {b : Row} (a : Row) (hb : IsX n j b) (hj : j < n) :
    symp n a b = a.z j := by
  rw [symp_congr n (a := a) (a' := a) (b := b) (b' := unitX j) (fun _ _ => ⟨rfl, rfl⟩)
    (fun k hk => by simpa [unitX] using hb k hk), symp_unitX_right]
  simp [hj]

theorem symp_isZ {j : Nat} {b : Row} (a : Row) (hb : IsZ n j b) (hj : j < n) :
    symp n a b = a.x j := by
  rw [symp_congr n (a := a) (a' := a) (b := b) (b' := unitZ j) (fun _ _ => ⟨rfl, rfl⟩)
    (fun k hk => by simpa [unitZ] using hb k hk), symp_unitZ_right]
  simp [hj]

/-- rows other than `j`, `n + j` have no X/Z on the finished qubits `j < i`. -/
theorem low (h : Ctx n i T0 s) (hi : i ≤ n) (m : Nat) (hm : m < 2 * n) (j : Nat) (hj : j < i)
    (h1 : m ≠ j) (h2 : m ≠ n + j) : (getRow s.1 m).x j = false ∧ (getRow s.1 m).z j = false := by
  have V := h.valid
  have hX := V.2 m j hm (by omega)
  have hZ := V.2 m (n + j) hm (by omega)
  rw [symp_isX _ (h.done j hj).1 (by omega)] at hX
  rw [symp_isZ _ (h.done j hj).2 (by omega)] at hZ
  constructor
  · rw [hZ]; simp; omega
  · rw [hX]; simp; omega

end Ctx

/-! ### `_set_qubit_x_to_true` makes the pivot true -/

section steps
variable {n i : Nat} {T0 : Tableau} {s : Synth}

/-- destabiliser `i` has an X or a Z on some qubit `≥ i` (it anticommutes with stabiliser `i` and
commutes with the finished rows). -/
theorem Ctx.pivot_exists (h : Ctx n i T0 s) (hi : i < n) :
    ∃ k, i ≤ k ∧ k < n ∧ ((getRow s.1 i).x k = true ∨ (getRow s.1 i).z k = true) := by
  by_contra hne
  have hall : ∀ k, k < n → (getRow s.1 i).x k = false ∧ (getRow s.1 i).z k = false := by
    intro k hk
    by_cases hki : k < i
    · exact h.low (by omega) i (by omega) k hki (by omega) (by omega)
    · constructor
      · by_contra hx; exact hne ⟨k, by omega, hk, Or.inl (by simpa using hx)⟩
      · by_contra hz; exact hne ⟨k, by omega, hk, Or.inr (by simpa using hz)⟩
  have hs := h.valid.2 i (n + i) (by omega) (by omega)
  rw [symp_congr n (a' := Row.zero) (b' := getRow s.1 (n + i)) hall (fun _ _ => ⟨rfl, rfl⟩),
    symp_zero_left] at hs
  have : (i + n = n + i ∨ n + i + n = i) := Or.inl (by omega)
  simp [this] at hs

theorem setQubitXToTrue_spec (h : Ctx n i T0 s) (hi : i < n) :
    Ctx n i T0 (setQubitXToTrue n i s) ∧ (getRow (setQubitXToTrue n i s).1 i).x i = true := by
  obtain ⟨k0, hk0, hk0n, hpiv⟩ := h.pivot_exists hi
  unfold setQubitXToTrue
  simp only []
  by_cases hx : (getRow s.1 i).x i = true
  · rw [if_pos hx]; exact ⟨h, hx⟩
  · rw [if_neg hx]
    cases hf : firstIdx (fun k => (getRow s.1 i).x k) (i + 1) (n - (i + 1)) with
    | some k =>
      simp only []
      obtain ⟨h1, h2, h3⟩ := firstIdx_some _ _ _ hf
      have hkn : k < n := by omega
      refine ⟨h.emit (.SWAP k i) ⟨hkn, hi, by omega⟩
        (by simp only [Gate.qubits, List.mem_cons, List.mem_nil_iff, or_false]; omega)
        (localZero_SWAP k i), ?_⟩
      rw [h.row_emit _ i (by omega)]
      simpa [Gate.act] using h3
    | none =>
      simp only []
      have hxz := firstIdx_none _ _ hf
      cases hg : firstIdx (fun k => (getRow s.1 i).z k) i (n - i) with
      | some k =>
        simp only []
        obtain ⟨h1, h2, h3⟩ := firstIdx_some _ _ _ hg
        have hkn : k < n := by omega
        have c1 := h.emit (.H k) hkn
          (by simp only [Gate.qubits, List.mem_cons, List.mem_nil_iff, or_false]; omega)
          (localZero_H k)
        have r1 : (getRow (emit (.H k) s).1 i) = opH k (getRow s.1 i) := h.row_emit _ i (by omega)
        by_cases hki : k = i
        · subst hki
          simp only [ne_eq, not_true_eq_false, if_false]
          exact ⟨c1, by rw [r1]; simpa using h3⟩
        · rw [if_pos hki]
          refine ⟨c1.emit (.SWAP k i) ⟨hkn, hi, hki⟩
            (by simp only [Gate.qubits, List.mem_cons, List.mem_nil_iff, or_false]; omega)
            (localZero_SWAP k i), ?_⟩
          rw [c1.row_emit _ i (by omega), r1]
          simpa [Gate.act] using h3
      | none =>
        exfalso
        have hzz := firstIdx_none _ _ hg
        rcases hpiv with hp | hp
        · by_cases e : k0 = i
          · subst e; exact hx hp
          · have := hxz k0 (by omega) (by omega)
            simp [hp] at this
        · have := hzz k0 hk0 (by omega)
          simp [hp] at this

/-! ### `_set_row_x_to_zero` turns destabiliser `i` into `X_i` -/

theorem range_end (hi : i < n) : i + 1 + (n - (i + 1)) = n := by omega

theorem setRowXToZero_spec (h : Ctx n i T0 s) (hi : i < n) (hx : (getRow s.1 i).x i = true) :
    Ctx n i T0 (setRowXToZero n i s) ∧ IsX n i (getRow (setRowXToZero n i s).1 i) := by
  -- first loop: CNOT(i, k) for every X at k > i
  have L1 := forRange_inv
    (fun m s' => Ctx n i T0 s' ∧ (getRow s'.1 i).x i = true ∧
      ∀ k, i < k → k < m → (getRow s'.1 i).x k = false)
    (fun k s => emitIf ((getRow s.1 i).x k) (.CNOT i k) s) (n - (i + 1)) (i + 1) s
    ⟨h, hx, fun k h1 h2 => by omega⟩
    (by
      intro k s' hk1 hk2 ⟨c, cx, cz⟩
      have hkn : k < n := by omega
      unfold emitIf
      by_cases hb : (getRow s'.1 i).x k = true
      · rw [if_pos hb]
        refine ⟨c.emit (.CNOT i k) ⟨hi, hkn, by omega⟩
          (by simp only [Gate.qubits, List.mem_cons, List.mem_nil_iff, or_false]; omega)
          (localZero_CNOT i k), ?_, ?_⟩
        · rw [c.row_emit _ i (by omega)]
          have : i ≠ k := by omega
          simpa [Gate.act, this] using cx
        · intro j hj1 hj2
          rw [c.row_emit _ i (by omega)]
          by_cases hjk : j = k
          · subst hjk; simp [Gate.act, hb, cx]
          · simpa [Gate.act, hjk] using cz j hj1 (by omega)
      · rw [if_neg hb]
        refine ⟨c, cx, fun j hj1 hj2 => ?_⟩
        by_cases hjk : j = k
        · subst hjk; simpa using hb
        · exact cz j hj1 (by omega))
  rw [range_end hi] at L1
  unfold setRowXToZero
  simp only []
  generalize forRange (fun k s => emitIf ((getRow s.1 i).x k) (.CNOT i k) s) (i + 1) (n - (i + 1)) s
    = s1 at L1 ⊢
  obtain ⟨c1, x1, xz1⟩ := L1
  have xpart : ∀ (s' : Synth), Ctx n i T0 s' → (getRow s'.1 i).x i = true →
      (∀ k, i < k → k < n → (getRow s'.1 i).x k = false) →
      ∀ k, k < n → (getRow s'.1 i).x k = (k == i) := by
    intro s' c cx cz k hk
    rcases Nat.lt_trichotomy k i with hlt | heq | hgt
    · rw [(c.low (by omega) i (by omega) k hlt (by omega) (by omega)).1]
      have : ¬ k = i := by omega
      simp [this]
    · subst heq; simpa using cx
    · rw [cz k hgt hk]
      have : ¬ k = i := by omega
      simp [this]
  have X1 := xpart s1 c1 x1 xz1
  by_cases ha : anyIdx (fun k => (getRow s1.1 i).z k) i (n - i) = true
  · rw [if_pos ha]
    -- optional S(i): makes z i true
    have c2 : Ctx n i T0 (emitIf (!(getRow s1.1 i).z i) (.S i) s1) :=
      c1.emitIf _ (.S i) hi
        (by simp only [Gate.qubits, List.mem_cons, List.mem_nil_iff, or_false]; omega)
        (localZero_S i)
    have X2 : ∀ k, k < n → (getRow (emitIf (!(getRow s1.1 i).z i) (.S i) s1).1 i).x k = (k == i) := by
      intro k hk
      unfold emitIf
      split
      · rw [c1.row_emit _ i (by omega)]; simpa [Gate.act] using X1 k hk
      · exact X1 k hk
    have Z2 : (getRow (emitIf (!(getRow s1.1 i).z i) (.S i) s1).1 i).z i = true := by
      unfold emitIf
      by_cases hz : (getRow s1.1 i).z i = true
      · simp [hz]
      · have hz' : (getRow s1.1 i).z i = false := by simpa using hz
        simp only [hz', Bool.not_false, if_true]
        rw [c1.row_emit _ i (by omega)]
        simp [Gate.act, hz', x1]
    generalize emitIf (!(getRow s1.1 i).z i) (.S i) s1 = s2 at c2 X2 Z2 ⊢
    -- second loop: CNOT(k, i) for every Z at k > i
    have L2 := forRange_inv
      (fun m s' => Ctx n i T0 s' ∧ (∀ k, k < n → (getRow s'.1 i).x k = (k == i)) ∧
        (getRow s'.1 i).z i = true ∧ ∀ k, i < k → k < m → (getRow s'.1 i).z k = false)
      (fun k s => emitIf ((getRow s.1 i).z k) (.CNOT k i) s) (n - (i + 1)) (i + 1) s2
      ⟨c2, X2, Z2, fun k h1 h2 => by omega⟩
      (by
        intro k s' hk1 hk2 ⟨c, cX, cz, cl⟩
        have hkn : k < n := by omega
        have hki : ¬ k = i := by omega
        have hik : ¬ i = k := by omega
        have xk : (getRow s'.1 i).x k = false := by rw [cX k hkn]; simp [hki]
        have xi : (getRow s'.1 i).x i = true := by rw [cX i hi]; simp
        unfold emitIf
        by_cases hb : (getRow s'.1 i).z k = true
        · rw [if_pos hb]
          refine ⟨c.emit (.CNOT k i) ⟨hkn, hi, by omega⟩
            (by simp only [Gate.qubits, List.mem_cons, List.mem_nil_iff, or_false]; omega)
            (localZero_CNOT k i), ?_, ?_, ?_⟩
          · intro j hj
            rw [c.row_emit _ i (by omega)]
            by_cases hji : j = i
            · subst hji; simp [Gate.act, xk, xi]
            · simpa [Gate.act, hji] using cX j hj
          · rw [c.row_emit _ i (by omega)]
            simpa [Gate.act, hik] using cz
          · intro j hj1 hj2
            rw [c.row_emit _ i (by omega)]
            by_cases hjk : j = k
            · subst hjk; simp [Gate.act, hb, cz]
            · simpa [Gate.act, hjk] using cl j hj1 (by omega)
        · rw [if_neg hb]
          refine ⟨c, cX, cz, fun j hj1 hj2 => ?_⟩
          by_cases hjk : j = k
          · subst hjk; simpa using hb
          · exact cl j hj1 (by omega))
    rw [range_end hi] at L2
    generalize forRange (fun k s => emitIf ((getRow s.1 i).z k) (.CNOT k i) s) (i + 1) (n - (i + 1)) s2
      = s3 at L2 ⊢
    obtain ⟨c3, X3, z3, zl3⟩ := L2
    have c4 := c3.emit (.S i) hi
      (by simp only [Gate.qubits, List.mem_cons, List.mem_nil_iff, or_false]; omega)
      (localZero_S i)
    refine ⟨c4, fun k hk => ?_⟩
    have xi : (getRow s3.1 i).x i = true := by rw [X3 i hi]; simp
    constructor
    · rw [c3.row_emit _ i (by omega)]; simpa [Gate.act] using X3 k hk
    · rcases Nat.lt_trichotomy k i with hlt | heq | hgt
      · exact (c4.low (by omega) i (by omega) k hlt (by omega) (by omega)).2
      · subst heq
        rw [c3.row_emit _ k (by omega)]; simp [Gate.act, z3, xi]
      · rw [c3.row_emit _ i (by omega)]
        have : ¬ k = i := by omega
        simpa [Gate.act, this] using zl3 k hgt hk
  · rw [if_neg ha]
    have hz := anyIdx_false (by simpa using ha)
    refine ⟨c1, fun k hk => ⟨X1 k hk, ?_⟩⟩
    by_cases hlt : k < i
    · exact (c1.low (by omega) i (by omega) k hlt (by omega) (by omega)).2
    · exact hz k (by omega) (by omega)

/-! ### `_set_row_z_to_zero` turns stabiliser `i` into `Z_i` and keeps destabiliser `i = X_i` -/

theorem isX_CNOT_target {j k : Nat} {w : Row} (h : IsX n j w) (hk : k < n) (hkj : k ≠ j)
    (hj : j < n) : IsX n j (opCNOT k j w) := by
  intro m hm
  have hxk : w.x k = false := by rw [(h k hk).1]; simpa using hkj
  have hzk := (h k hk).2
  have hzj := (h j hj).2
  constructor
  · rw [opCNOT_x]; by_cases e : m = j
    · rw [if_pos e, hxk, Bool.xor_false]; subst e; exact (h m hm).1
    · rw [if_neg e]; exact (h m hm).1
  · rw [opCNOT_z]; by_cases e : m = k
    · rw [if_pos e, hzk, hzj]; rfl
    · rw [if_neg e]; exact (h m hm).2

theorem isZ_CNOT_control {j k : Nat} {w : Row} (h : IsZ n j w) (hk : k < n) (hkj : k ≠ j)
    (hj : j < n) : IsZ n j (opCNOT j k w) := by
  intro m hm
  have hzk : w.z k = false := by rw [(h k hk).2]; simpa using hkj
  have hxk := (h k hk).1
  have hxj := (h j hj).1
  constructor
  · rw [opCNOT_x]; by_cases e : m = k
    · rw [if_pos e, hxk, hxj]; rfl
    · rw [if_neg e]; exact (h m hm).1
  · rw [opCNOT_z]; by_cases e : m = j
    · rw [if_pos e, hzk, Bool.xor_false]; subst e; exact (h m hm).2
    · rw [if_neg e]; exact (h m hm).2

theorem isZ_of_H_isX {j : Nat} {w : Row} (h : IsX n j w) (hj : j < n) : IsZ n j (opH j w) := by
  intro m hm
  constructor
  · rw [opH_x]; by_cases e : m = j
    · rw [if_pos e]; exact (h j hj).2
    · rw [if_neg e, (h m hm).1]; simpa using e
  · rw [opH_z]; by_cases e : m = j
    · rw [if_pos e]; subst e; exact (h m hm).1
    · rw [if_neg e, (h m hm).2]; symm; simpa using e

theorem isX_of_H_isZ {j : Nat} {w : Row} (h : IsZ n j w) (hj : j < n) : IsX n j (opH j w) := by
  intro m hm
  constructor
  · rw [opH_x]; by_cases e : m = j
    · rw [if_pos e]; subst e; exact (h m hm).2
    · rw [if_neg e, (h m hm).1]; symm; simpa using e
  · rw [opH_z]; by_cases e : m = j
    · rw [if_pos e]; exact (h j hj).1
    · rw [if_neg e, (h m hm).2]; simpa using e

theorem isZ_S {j : Nat} {w : Row} (h : IsZ n j w) (hj : j < n) : IsZ n j (opS j w) := by
  intro m hm
  constructor
  · rw [opS_x]; exact (h m hm).1
  · rw [opS_z]; by_cases e : m = j
    · rw [if_pos e, (h j hj).1, Bool.xor_false]; subst e; exact (h m hm).2
    · rw [if_neg e]; exact (h m hm).2

/-- stabiliser `i` has a Z on qubit `i` as soon as destabiliser `i` is `X_i`. -/
theorem Ctx.stab_z (h : Ctx n i T0 s) (hi : i < n) (hX : IsX n i (getRow s.1 i)) :
    (getRow s.1 (n + i)).z i = true := by
  have hs := h.valid.2 (n + i) i (by omega) (by omega)
  rw [Ctx.symp_isX _ hX hi] at hs
  rw [hs]
  have : (n + i + n = i ∨ i + n = n + i) := Or.inr (by omega)
  simp [this]

theorem setRowZToZero_spec (h : Ctx n i T0 s) (hi : i < n) (hX : IsX n i (getRow s.1 i)) :
    Ctx n i T0 (setRowZToZero n i s) ∧ IsX n i (getRow (setRowZToZero n i s).1 i) ∧
      IsZ n i (getRow (setRowZToZero n i s).1 (n + i)) := by
  -- first loop (possibly skipped): CNOT(k, i) for every Z at k > i of the stabiliser row
  have P1 : ∃ s1, s1 = (if anyIdx (fun k => (getRow s.1 (n + i)).z k) (i + 1) (n - (i + 1)) then
        forRange (fun k s => emitIf ((getRow s.1 (n + i)).z k) (.CNOT k i) s) (i + 1) (n - (i + 1)) s
      else s) ∧ Ctx n i T0 s1 ∧ IsX n i (getRow s1.1 i) ∧
      ∀ k, i < k → k < n → (getRow s1.1 (n + i)).z k = false := by
    refine ⟨_, rfl, ?_⟩
    by_cases ha : anyIdx (fun k => (getRow s.1 (n + i)).z k) (i + 1) (n - (i + 1)) = true
    · rw [if_pos ha]
      have L := forRange_inv
        (fun m s' => Ctx n i T0 s' ∧ IsX n i (getRow s'.1 i) ∧
          ∀ k, i < k → k < m → (getRow s'.1 (n + i)).z k = false)
        (fun k s => emitIf ((getRow s.1 (n + i)).z k) (.CNOT k i) s) (n - (i + 1)) (i + 1) s
        ⟨h, hX, fun k h1 h2 => by omega⟩
        (by
          intro k s' hk1 hk2 ⟨c, cX, cl⟩
          have hkn : k < n := by omega
          have hki : k ≠ i := by omega
          unfold emitIf
          by_cases hb : (getRow s'.1 (n + i)).z k = true
          · rw [if_pos hb]
            refine ⟨c.emit (.CNOT k i) ⟨hkn, hi, hki⟩
              (by simp only [Gate.qubits, List.mem_cons, List.mem_nil_iff, or_false]; omega)
              (localZero_CNOT k i), ?_, ?_⟩
            · rw [c.row_emit _ i (by omega)]
              exact isX_CNOT_target cX hkn hki hi
            · intro j hj1 hj2
              rw [c.row_emit _ (n + i) (by omega)]
              by_cases hjk : j = k
              · subst hjk; simp [Gate.act, hb, c.stab_z hi cX]
              · simpa [Gate.act, hjk] using cl j hj1 (by omega)
          · rw [if_neg hb]
            refine ⟨c, cX, fun j hj1 hj2 => ?_⟩
            by_cases hjk : j = k
            · subst hjk; simpa using hb
            · exact cl j hj1 (by omega))
      rw [range_end hi] at L
      exact L
    · rw [if_neg ha]
      have hz := anyIdx_false (by simpa using ha)
      exact ⟨h, hX, fun k h1 h2 => hz k (by omega) (by omega)⟩
  obtain ⟨s1, e1, c1, X1, zl1⟩ := P1
  unfold setRowZToZero
  simp only []
  rw [← e1]
  have zi1 := c1.stab_z hi X1
  by_cases ha : anyIdx (fun k => (getRow s1.1 (n + i)).x k) i (n - i) = true
  · rw [if_pos ha]
    -- H(i)
    have c2 := c1.emit (.H i) hi
      (by simp only [Gate.qubits, List.mem_cons, List.mem_nil_iff, or_false]; omega)
      (localZero_H i)
    have Z2 : IsZ n i (getRow (emit (.H i) s1).1 i) := by
      rw [c1.row_emit _ i (by omega)]; exact isZ_of_H_isX X1 hi
    have r2 : getRow (emit (.H i) s1).1 (n + i) = opH i (getRow s1.1 (n + i)) :=
      c1.row_emit _ (n + i) (by omega)
    have xi2 : (getRow (emit (.H i) s1).1 (n + i)).x i = true := by rw [r2]; simpa using zi1
    have zl2 : ∀ k, i < k → k < n → (getRow (emit (.H i) s1).1 (n + i)).z k = false := by
      intro k h1 h2
      rw [r2]
      have : ¬ k = i := by omega
      simpa [this] using zl1 k h1 h2
    generalize emit (.H i) s1 = s2 at c2 Z2 xi2 zl2 ⊢
    -- loop: CNOT(i, k) for every X at k > i of the stabiliser row
    have L := forRange_inv
      (fun m s' => Ctx n i T0 s' ∧ IsZ n i (getRow s'.1 i) ∧ (getRow s'.1 (n + i)).x i = true ∧
        (∀ k, i < k → k < n → (getRow s'.1 (n + i)).z k = false) ∧
        ∀ k, i < k → k < m → (getRow s'.1 (n + i)).x k = false)
      (fun k s => emitIf ((getRow s.1 (n + i)).x k) (.CNOT i k) s) (n - (i + 1)) (i + 1) s2
      ⟨c2, Z2, xi2, zl2, fun k h1 h2 => by omega⟩
      (by
        intro k s' hk1 hk2 ⟨c, cZ, cxi, czl, cl⟩
        have hkn : k < n := by omega
        have hki : k ≠ i := by omega
        have hik : ¬ i = k := by omega
        unfold emitIf
        by_cases hb : (getRow s'.1 (n + i)).x k = true
        · rw [if_pos hb]
          refine ⟨c.emit (.CNOT i k) ⟨hi, hkn, by omega⟩
            (by simp only [Gate.qubits, List.mem_cons, List.mem_nil_iff, or_false]; omega)
            (localZero_CNOT i k), ?_, ?_, ?_, ?_⟩
          · rw [c.row_emit _ i (by omega)]
            exact isZ_CNOT_control cZ hkn hki hi
          · rw [c.row_emit _ (n + i) (by omega)]
            simpa [Gate.act, hik] using cxi
          · intro j hj1 hj2
            rw [c.row_emit _ (n + i) (by omega)]
            have : ¬ j = i := by omega
            simpa [Gate.act, this] using czl j hj1 hj2
          · intro j hj1 hj2
            rw [c.row_emit _ (n + i) (by omega)]
            by_cases hjk : j = k
            · subst hjk; simp [Gate.act, hb, cxi]
            · simpa [Gate.act, hjk] using cl j hj1 (by omega)
        · rw [if_neg hb]
          refine ⟨c, cZ, cxi, czl, fun j hj1 hj2 => ?_⟩
          by_cases hjk : j = k
          · subst hjk; simpa using hb
          · exact cl j hj1 (by omega))
    rw [range_end hi] at L
    generalize forRange (fun k s => emitIf ((getRow s.1 (n + i)).x k) (.CNOT i k) s) (i + 1)
      (n - (i + 1)) s2 = s3 at L ⊢
    obtain ⟨c3, Z3, xi3, zl3, xl3⟩ := L
    -- optional S(i): clears z i of the stabiliser row
    have c4 : Ctx n i T0 (emitIf ((getRow s3.1 (n + i)).z i) (.S i) s3) :=
      c3.emitIf _ (.S i) hi
        (by simp only [Gate.qubits, List.mem_cons, List.mem_nil_iff, or_false]; omega)
        (localZero_S i)
    have Q4 : IsZ n i (getRow (emitIf ((getRow s3.1 (n + i)).z i) (.S i) s3).1 i) ∧
        (getRow (emitIf ((getRow s3.1 (n + i)).z i) (.S i) s3).1 (n + i)).x i = true ∧
        (getRow (emitIf ((getRow s3.1 (n + i)).z i) (.S i) s3).1 (n + i)).z i = false ∧
        (∀ k, i < k → k < n →
          (getRow (emitIf ((getRow s3.1 (n + i)).z i) (.S i) s3).1 (n + i)).z k = false) ∧
        (∀ k, i < k → k < n →
          (getRow (emitIf ((getRow s3.1 (n + i)).z i) (.S i) s3).1 (n + i)).x k = false) := by
      unfold emitIf
      by_cases hz : (getRow s3.1 (n + i)).z i = true
      · rw [if_pos hz, c3.row_emit _ i (by omega), c3.row_emit _ (n + i) (by omega)]
        refine ⟨isZ_S Z3 hi, by simpa [Gate.act] using xi3, by simp [Gate.act, hz, xi3], ?_, ?_⟩
        · intro k h1 h2
          have : ¬ k = i := by omega
          simpa [Gate.act, this] using zl3 k h1 h2
        · intro k h1 h2
          simpa [Gate.act] using xl3 k h1 h2
      · rw [if_neg hz]
        exact ⟨Z3, xi3, by simpa using hz, zl3, xl3⟩
    generalize emitIf ((getRow s3.1 (n + i)).z i) (.S i) s3 = s4 at c4 Q4 ⊢
    obtain ⟨Z4, xi4, zi4, zl4, xl4⟩ := Q4
    -- H(i)
    have c5 := c4.emit (.H i) hi
      (by simp only [Gate.qubits, List.mem_cons, List.mem_nil_iff, or_false]; omega)
      (localZero_H i)
    refine ⟨c5, ?_, fun k hk => ?_⟩
    · rw [c4.row_emit _ i (by omega)]; exact isX_of_H_isZ Z4 hi
    · rcases Nat.lt_trichotomy k i with hlt | heq | hgt
      · have := c5.low (by omega) (n + i) (by omega) k hlt (by omega) (by omega)
        have hne : ¬ k = i := by omega
        rw [this.1, this.2]; simp [hne]
      · subst heq
        rw [c4.row_emit _ (n + k) (by omega)]
        simp [Gate.act, zi4, xi4]
      · have hne : ¬ k = i := by omega
        rw [c4.row_emit _ (n + i) (by omega)]
        simp [Gate.act, hne, zl4 k hgt hk, xl4 k hgt hk]
  · rw [if_neg ha]
    have hx := anyIdx_false (by simpa using ha)
    refine ⟨c1, X1, fun k hk => ?_⟩
    rcases Nat.lt_trichotomy k i with hlt | heq | hgt
    · have := c1.low (by omega) (n + i) (by omega) k hlt (by omega) (by omega)
      have hne : ¬ k = i := by omega
      rw [this.1, this.2]; simp [hne]
    · subst heq
      exact ⟨hx k (by omega) (by omega), by simpa using zi1⟩
    · have hne : ¬ k = i := by omega
      exact ⟨hx k (by omega) (by omega), by rw [zl1 k hgt hk]; simp [hne]⟩

/-! ### one pass of the main loop, and the loop -/

theorem ag04Step_spec (h : Ctx n i T0 s) (hi : i < n) : Ctx n (i + 1) T0 (ag04Step n i s) := by
  obtain ⟨cA, xA⟩ := setQubitXToTrue_spec h hi
  obtain ⟨cB, XB⟩ := setRowXToZero_spec cA hi xA
  obtain ⟨cC, XC, ZC⟩ := setRowZToZero_spec cB hi XB
  refine ⟨cC.good, cC.v0, fun j hj => ?_⟩
  by_cases hji : j = i
  · subst hji; exact ⟨XC, ZC⟩
  · exact cC.done j (by omega)

theorem ag04Eliminate_spec (T0 : Tableau) (hv : Valid n T0) :
    Ctx n n T0 (ag04Eliminate n (T0, [])) := by
  have L := forRange_inv (fun m s' => m ≤ n ∧ Ctx n m T0 s') (ag04Step n) n 0 (T0, [])
    ⟨Nat.zero_le _, ⟨⟨rfl, (fun g hg => by cases hg), (fun g hg => by cases hg)⟩, hv, fun j hj => by omega⟩⟩
    (by
      intro k s' _ hk ⟨_, c⟩
      exact ⟨by omega, ag04Step_spec c (by omega)⟩)
  rw [Nat.zero_add] at L
  exact L.2

/-! ### the phase loop -/

/-- a gate that changes no X/Z bit (the Paulis) keeps the context of any stage. -/
theorem Ctx.emit_bits (h : Ctx n i T0 s) (hi : i ≤ n) (g : Gate) (hg : g.ok n) (ha : g.isAG = true)
    (hb : ∀ (w : Row) m, (g.act w).x m = w.x m ∧ (g.act w).z m = w.z m) :
    Ctx n i T0 (Cliff.emit g s) := by
  refine ⟨h.good.emit hg ha, h.v0, fun j hj => ?_⟩
  have hjn : j < n := by omega
  rw [h.row_emit g j (by omega), h.row_emit g (n + j) (by omega)]
  refine ⟨fun k hk => ?_, fun k hk => ?_⟩
  · rw [(hb _ k).1, (hb _ k).2]; exact (h.done j hj).1 k hk
  · rw [(hb _ k).1, (hb _ k).2]; exact (h.done j hj).2 k hk

theorem opZ_r (q : Nat) (w : Row) :
    (opZ q w).r = (w.r ^^ ((w.x q && w.z q) ^^ (w.x q && (w.z q ^^ w.x q)))) := rfl
theorem opX_r (q : Nat) (w : Row) :
    (opX q w).r = (w.r ^^ (w.z q && (w.z q ^^ w.x q)) ^^ (w.z q && w.x q)) := rfl

theorem signStep_spec {k : Nat} (h : Ctx n n T0 s) (hk : k < n)
    (hr : ∀ j, j < k → (getRow s.1 j).r = false ∧ (getRow s.1 (n + j)).r = false) :
    Ctx n n T0 (signStep n k s) ∧
      ∀ j, j < k + 1 → (getRow (signStep n k s).1 j).r = false ∧
        (getRow (signStep n k s).1 (n + j)).r = false := by
  unfold signStep
  simp only []
  -- Z(k) if the destabiliser has a sign
  have A : Ctx n n T0 (emitIf (getRow s.1 k).r (.Z k) s) ∧
      (∀ j, j < k → (getRow (emitIf (getRow s.1 k).r (.Z k) s).1 j).r = false ∧
        (getRow (emitIf (getRow s.1 k).r (.Z k) s).1 (n + j)).r = false) ∧
      (getRow (emitIf (getRow s.1 k).r (.Z k) s).1 k).r = false := by
    unfold emitIf
    by_cases hb : (getRow s.1 k).r = true
    · rw [if_pos hb]
      refine ⟨h.emit_bits (Nat.le_refl _) (.Z k) hk rfl (fun w m => ⟨rfl, rfl⟩), fun j hj => ?_, ?_⟩
      · rw [h.row_emit _ j (by omega), h.row_emit _ (n + j) (by omega)]
        have hne : ¬ k = j := by omega
        have x1 : (getRow s.1 j).x k = false := by rw [((h.done j (by omega)).1 k hk).1]; simpa using hne
        have x2 : (getRow s.1 (n + j)).x k = false := ((h.done j (by omega)).2 k hk).1
        simp only [Gate.act, opZ_r, x1, x2]
        simpa using hr j hj
      · rw [h.row_emit _ k (by omega)]
        have x1 : (getRow s.1 k).x k = true := by rw [((h.done k hk).1 k hk).1]; simp
        have z1 : (getRow s.1 k).z k = false := ((h.done k hk).1 k hk).2
        simp [Gate.act, opZ_r, x1, z1, hb]
    · rw [if_neg hb]
      exact ⟨h, hr, by simpa using hb⟩
  generalize emitIf (getRow s.1 k).r (.Z k) s = s1 at A ⊢
  obtain ⟨c1, r1, rk1⟩ := A
  unfold emitIf
  by_cases hb : (getRow s1.1 (n + k)).r = true
  · rw [if_pos hb]
    refine ⟨c1.emit_bits (Nat.le_refl _) (.X k) hk rfl (fun w m => ⟨rfl, rfl⟩), fun j hj => ?_⟩
    rw [c1.row_emit _ j (by omega), c1.row_emit _ (n + j) (by omega)]
    have z1 : (getRow s1.1 j).z k = false := ((c1.done j (by omega)).1 k hk).2
    by_cases hjk : j = k
    · subst hjk
      have z2 : (getRow s1.1 (n + j)).z j = true := by rw [((c1.done j hk).2 j hk).2]; simp
      have x2 : (getRow s1.1 (n + j)).x j = false := ((c1.done j hk).2 j hk).1
      simp [Gate.act, opX_r, z1, z2, x2, hb, rk1]
    · have hne : ¬ k = j := fun e => hjk e.symm
      have z2 : (getRow s1.1 (n + j)).z k = false := by
        rw [((c1.done j (by omega)).2 k hk).2]; simpa using hne
      simp only [Gate.act, opX_r, z1, z2]
      simpa using r1 j (by omega)
  · rw [if_neg hb]
    refine ⟨c1, fun j hj => ?_⟩
    by_cases hjk : j = k
    · subst hjk; exact ⟨rk1, by simpa using hb⟩
    · exact r1 j (by omega)

theorem fixSigns_spec (h : Ctx n n T0 s) :
    Ctx n n T0 (fixSigns n s) ∧
      ∀ j, j < n → (getRow (fixSigns n s).1 j).r = false ∧ (getRow (fixSigns n s).1 (n + j)).r = false := by
  have L := forRange_inv
    (fun m s' => m ≤ n ∧ Ctx n n T0 s' ∧
      ∀ j, j < m → (getRow s'.1 j).r = false ∧ (getRow s'.1 (n + j)).r = false)
    (signStep n) n 0 s ⟨Nat.zero_le _, h, fun j hj => by omega⟩
    (by
      intro k s' _ hk ⟨_, c, cr⟩
      have := signStep_spec c (by omega) cr
      exact ⟨by omega, this.1, this.2⟩)
  rw [Nat.zero_add] at L
  exact ⟨L.2.1, L.2.2⟩

end steps

/-! ### equality of tableaux on the register, the final tableau is the identity tableau -/

/-- same signed Pauli string on the first `n` qubits. -/
def RowEq (n : Nat) (a b : Row) : Prop := (∀ k, k < n → a.x k = b.x k ∧ a.z k = b.z k) ∧ a.r = b.r

/-- same destabilisers and stabilisers (rows `0 … 2n-1`) on the first `n` qubits, signs included. -/
def TabEq (n : Nat) (T T' : Tableau) : Prop := ∀ m, m < 2 * n → RowEq n (getRow T m) (getRow T' m)

theorem RowEq.symm {n : Nat} {a b : Row} (h : RowEq n a b) : RowEq n b a :=
  ⟨fun k hk => ⟨(h.1 k hk).1.symm, (h.1 k hk).2.symm⟩, h.2.symm⟩

theorem RowEq.trans {n : Nat} {a b c : Row} (h : RowEq n a b) (h' : RowEq n b c) : RowEq n a c :=
  ⟨fun k hk => ⟨(h.1 k hk).1.trans (h'.1 k hk).1, (h.1 k hk).2.trans (h'.1 k hk).2⟩, h.2.trans h'.2⟩

theorem RowEq.refl (n : Nat) (a : Row) : RowEq n a a := ⟨fun _ _ => ⟨rfl, rfl⟩, rfl⟩

/-- after both loops: the recorded gates turn the tableau into the identity tableau, signs cleared. -/
theorem ag04Forward_spec {n : Nat} (T : Tableau) (hv : Valid n T) :
    Good n T (ag04Forward n T) ∧ TabEq n (ag04Forward n T).1 (zeroState n) := by
  have c := ag04Eliminate_spec (n := n) T hv
  obtain ⟨c', hr⟩ := fixSigns_spec c
  refine ⟨c'.good, fun m hm => ?_⟩
  show RowEq n (getRow (fixSigns n (ag04Eliminate n (T, []))).1 m) _
  by_cases hmn : m < n
  · rw [getRow_zero_lo n m hmn]
    exact ⟨fun k hk => by simpa [unitX] using (c'.done m hmn).1 k hk, (hr m hmn).1⟩
  · obtain ⟨j, rfl⟩ : ∃ j, m = n + j := ⟨m - n, by omega⟩
    have hj : j < n := by omega
    rw [getRow_zero_hi n j hj]
    exact ⟨fun k hk => by simpa [unitZ] using (c'.done j hj).2 k hk, (hr j hj).2⟩

/-! ### inverting the recorded circuit -/

theorem dagger_isAG (g : Gate) (h : g.isAG = true) : g.dagger.isAG = true := by
  cases g <;> simp [Gate.isAG] at h <;> rfl

theorem dagger_ok (n : Nat) (g : Gate) (h : g.ok n) : g.dagger.ok n := by
  cases g <;> exact h

theorem dagger_act (n : Nat) (g : Gate) (ha : g.isAG = true) (hg : g.ok n) (w : Row) :
    g.dagger.act (g.act w) = w := by
  cases g <;> simp [Gate.isAG] at ha <;> simp only [Gate.ok] at hg <;>
    simp only [Gate.dagger, Gate.act]
  case H q =>
    refine Row.ext' (fun k => ?_) (fun k => ?_) ?_
    · simp only [opH_x, opH_z]; by_cases e : k = q <;> simp [e]
    · simp only [opH_x, opH_z]; by_cases e : k = q <;> simp [e]
    · simp only [opH, upd, if_true]; cases w.x q <;> cases w.z q <;> cases w.r <;> rfl
  case X q =>
    refine Row.ext' (fun k => rfl) (fun k => rfl) ?_
    simp only [opX]; cases w.x q <;> cases w.z q <;> cases w.r <;> rfl
  case Z q =>
    refine Row.ext' (fun k => rfl) (fun k => rfl) ?_
    simp only [opZ]; cases w.x q <;> cases w.z q <;> cases w.r <;> rfl
  case Y q =>
    refine Row.ext' (fun k => rfl) (fun k => rfl) ?_
    simp only [opY]; cases w.x q <;> cases w.z q <;> cases w.r <;> rfl
  case S q =>
    refine Row.ext' (fun k => rfl) (fun k => ?_) ?_
    · simp only [opSDG, opS, upd, if_true]; by_cases e : k = q
      · subst e; simp
      · simp [e]
    · simp only [opSDG, opS, upd, if_true]; cases w.x q <;> cases w.z q <;> cases w.r <;> rfl
  case SDG q =>
    refine Row.ext' (fun k => rfl) (fun k => ?_) ?_
    · simp only [opSDG, opS, upd, if_true]; by_cases e : k = q
      · subst e; simp
      · simp [e]
    · simp only [opSDG, opS, upd, if_true]; cases w.x q <;> cases w.z q <;> cases w.r <;> rfl
  case CNOT c t =>
    obtain ⟨_, _, hct⟩ := hg
    have htc : ¬ t = c := fun e => hct e.symm
    refine Row.ext' (fun k => ?_) (fun k => ?_) ?_
    · simp only [opCNOT_x]; by_cases e : k = t
      · subst e; simp [hct]
      · simp [e]
    · simp only [opCNOT_z]; by_cases e : k = c
      · subst e; simp [htc]
      · simp [e]
    · simp only [opCNOT, upd, if_true, if_neg hct, if_neg htc]
      cases w.x c <;> cases w.z c <;> cases w.x t <;> cases w.z t <;> cases w.r <;> rfl
  case SWAP c t =>
    obtain ⟨_, _, hct⟩ := hg
    have htc : ¬ t = c := fun e => hct e.symm
    refine Row.ext' (fun k => ?_) (fun k => ?_) ?_
    · simp only [opSWAP_x]; by_cases e : k = t
      · subst e; simp [hct]
      · by_cases e' : k = c
        · subst e'; simp [hct]
        · simp [e, e']
    · simp only [opSWAP_z]; by_cases e : k = t
      · subst e; simp [hct]
      · by_cases e' : k = c
        · subst e'; simp [hct]
        · simp [e, e']
    · simp only [opSWAP, upd, if_true, if_neg hct, if_neg htc]
      cases w.x c <;> cases w.z c <;> cases w.x t <;> cases w.z t <;> cases w.r <;> rfl

theorem actAll_append (l l' : List Gate) (w : Row) : actAll (l ++ l') w = actAll l' (actAll l w) := by
  simp [actAll, List.foldl_append]

theorem actAll_cons (g : Gate) (l : List Gate) (w : Row) : actAll (g :: l) w = actAll l (g.act w) := rfl

theorem invertCircuit_cons (g : Gate) (l : List Gate) :
    invertCircuit (g :: l) = invertCircuit l ++ [g.dagger] := by
  simp [invertCircuit]

/-- the inverted circuit undoes the recorded one, row by row. -/
theorem actAll_invert (n : Nat) (gs : List Gate) (ha : ∀ g ∈ gs, g.isAG = true)
    (hg : ∀ g ∈ gs, g.ok n) (w : Row) : actAll (invertCircuit gs) (actAll gs w) = w := by
  induction gs generalizing w with
  | nil => rfl
  | cons g gs ih =>
    rw [invertCircuit_cons, actAll_append, actAll_cons g gs w,
      ih (fun g' h => ha g' (List.mem_cons_of_mem _ h)) (fun g' h => hg g' (List.mem_cons_of_mem _ h))]
    show g.dagger.act (g.act w) = w
    exact dagger_act n g (ha g (List.mem_cons_self ..)) (hg g (List.mem_cons_self ..)) w

theorem invert_ok (n : Nat) (gs : List Gate) (hg : ∀ g ∈ gs, g.ok n) :
    ∀ g ∈ invertCircuit gs, g.ok n := by
  intro g h
  simp only [invertCircuit, List.mem_map, List.mem_reverse] at h
  obtain ⟨g', h', rfl⟩ := h
  exact dagger_ok n g' (hg g' h')

theorem invert_isAG (gs : List Gate) (ha : ∀ g ∈ gs, g.isAG = true) :
    ∀ g ∈ invertCircuit gs, g.isAG = true := by
  intro g h
  simp only [invertCircuit, List.mem_map, List.mem_reverse] at h
  obtain ⟨g', h', rfl⟩ := h
  exact dagger_isAG g' (ha g' h')

/-! ### the updates respect equality on the register -/

theorem rowEq_act (n : Nat) (g : Gate) (ha : g.isAG = true) (hg : g.ok n) {a b : Row}
    (h : RowEq n a b) : RowEq n (g.act a) (g.act b) := by
  obtain ⟨hb, hr⟩ := h
  cases g <;> simp [Gate.isAG] at ha <;> simp only [Gate.ok] at hg <;> simp only [Gate.act]
  case H q =>
    have hq := hb q hg
    refine ⟨fun k hk => ?_, ?_⟩
    · have hk' := hb k hk
      simp only [opH_x, opH_z]; split <;> simp [hq.1, hq.2, hk'.1, hk'.2]
    · simp [opH, hr, hq.1, hq.2]
  case X q =>
    have hq := hb q hg
    exact ⟨fun k hk => hb k hk, by simp [opX, hr, hq.1, hq.2]⟩
  case Z q =>
    have hq := hb q hg
    exact ⟨fun k hk => hb k hk, by simp [opZ, hr, hq.1, hq.2]⟩
  case Y q =>
    have hq := hb q hg
    exact ⟨fun k hk => hb k hk, by simp [opY, hr, hq.1, hq.2]⟩
  case S q =>
    have hq := hb q hg
    refine ⟨fun k hk => ?_, ?_⟩
    · have hk' := hb k hk
      simp only [opS_x, opS_z]; split <;> simp [hq.1, hq.2, hk'.1, hk'.2]
    · simp [opS, hr, hq.1, hq.2]
  case SDG q =>
    have hq := hb q hg
    refine ⟨fun k hk => ?_, ?_⟩
    · have hk' := hb k hk
      simp only [opSDG, upd]; split <;> simp [hq.1, hq.2, hk'.1, hk'.2]
    · simp [opSDG, hr, hq.1, hq.2]
  case CNOT c t =>
    have hc := hb c hg.1
    have ht := hb t hg.2.1
    refine ⟨fun k hk => ?_, ?_⟩
    · have hk' := hb k hk
      simp only [opCNOT_x, opCNOT_z]
      constructor <;> split <;> simp [hc.1, hc.2, ht.1, ht.2, hk'.1, hk'.2]
    · simp [opCNOT, hr, hc.1, hc.2, ht.1, ht.2]
  case SWAP c t =>
    have hc := hb c hg.1
    have ht := hb t hg.2.1
    refine ⟨fun k hk => ?_, ?_⟩
    · have hk' := hb k hk
      simp only [opSWAP_x, opSWAP_z]
      constructor <;> split <;> (try split) <;> simp [hc.1, hc.2, ht.1, ht.2, hk'.1, hk'.2]
    · simp [opSWAP, hr, hc.1, hc.2, ht.1, ht.2]

theorem rowEq_actAll (n : Nat) (gs : List Gate) (ha : ∀ g ∈ gs, g.isAG = true)
    (hg : ∀ g ∈ gs, g.ok n) {a b : Row} (h : RowEq n a b) :
    RowEq n (actAll gs a) (actAll gs b) := by
  induction gs generalizing a b with
  | nil => exact h
  | cons g gs ih =>
    rw [actAll_cons, actAll_cons]
    exact ih (fun g' h' => ha g' (List.mem_cons_of_mem _ h')) (fun g' h' => hg g' (List.mem_cons_of_mem _ h'))
      (rowEq_act n g (ha g (List.mem_cons_self ..)) (hg g (List.mem_cons_self ..)) h)

/-- only the bits on the register and the sign enter the operator of a row. -/
theorem pauliOp_congr (n : Nat) {a b : Row} (h : RowEq n a b) (ψ : Lab → GI) :
    pauliOp n a ψ = pauliOp n b ψ := by
  funext x
  unfold pauliOp
  rw [h.2, pauliList_congr (fun k hk => h.1 k (List.mem_range.1 hk)) ψ]

/-! ### the synthesised circuit reproduces the tableau -/

/-- `n ≠ 1`: executing `to_circuit("AG04")` from the zero state gives back every row of the
tableau (destabilisers and stabilisers, signs included). -/
theorem toCircuit_general {n : Nat} (hn : n ≠ 1) (T : Tableau) (hv : Valid n T) :
    (∀ g ∈ toCircuitAG04 n T, g.ok n) ∧
      TabEq n (runGates (toCircuitAG04 n T) (zeroState n)) T := by
  obtain ⟨G, E⟩ := ag04Forward_spec T hv
  unfold toCircuitAG04
  rw [if_neg hn]
  refine ⟨invert_ok n _ G.oks, fun m hm => ?_⟩
  have hlenZ : m < (zeroState n).length := by simp [zeroState]; omega
  have hlenT : m < T.length := by have := hv.1; omega
  rw [getRow_runGates _ _ m hlenZ]
  have e1 : getRow (ag04Forward n T).1 m = actAll (ag04Forward n T).2 (getRow T m) := by
    rw [G.run]; exact getRow_runGates _ _ m hlenT
  have e2 := rowEq_actAll n (invertCircuit (ag04Forward n T).2) (invert_isAG _ G.ag)
    (invert_ok n _ G.oks) (E m hm)
  rw [e1, actAll_invert n _ G.ag G.oks] at e2
  exact e2.symm

/-- `n = 1`: `_single_qubit_clifford_decomposition`, all 24 one-qubit tableaux. -/
theorem singleQubitB_spec : ∀ dx dz dr sx sz sr : Bool, ((dx && sz) ^^ (dz && sx)) = true →
    (actAll (singleQubitB dx dz dr sx sz sr) (unitX 0)).x 0 = dx ∧
    (actAll (singleQubitB dx dz dr sx sz sr) (unitX 0)).z 0 = dz ∧
    (actAll (singleQubitB dx dz dr sx sz sr) (unitX 0)).r = dr ∧
    (actAll (singleQubitB dx dz dr sx sz sr) (unitZ 0)).x 0 = sx ∧
    (actAll (singleQubitB dx dz dr sx sz sr) (unitZ 0)).z 0 = sz ∧
    (actAll (singleQubitB dx dz dr sx sz sr) (unitZ 0)).r = sr := by decide

/-- the gates of a single-qubit decomposition: Paulis, S, S†, H on that qubit. -/
def OnQubit (q : Nat) (g : Gate) : Prop :=
  g = .Z q ∨ g = .X q ∨ g = .Y q ∨ g = .S q ∨ g = .SDG q ∨ g = .H q

theorem mem_singleQubitQ (q : Nat) : ∀ dx dz dr sx sz sr : Bool,
    ∀ g ∈ singleQubitQ q dx dz dr sx sz sr, OnQubit q g := by
  intro dx dz dr sx sz sr g hg
  unfold OnQubit
  cases dx <;> cases dz <;> cases dr <;> cases sx <;> cases sz <;> cases sr <;>
    simp [singleQubitQ] at hg <;> (try rcases hg with rfl | rfl | rfl | rfl) <;> simp

theorem onQubit_ok {n q : Nat} {g : Gate} (hq : q < n) (h : OnQubit q g) : g.ok n := by
  rcases h with rfl | rfl | rfl | rfl | rfl | rfl <;> exact hq

theorem singleQubitB_ok : ∀ dx dz dr sx sz sr : Bool, ∀ g ∈ singleQubitB dx dz dr sx sz sr, g.ok 1 :=
  fun dx dz dr sx sz sr g hg => onQubit_ok (by omega) (mem_singleQubitQ 0 dx dz dr sx sz sr g hg)

theorem toCircuit_one (T : Tableau) (hv : Valid 1 T) :
    (∀ g ∈ toCircuitAG04 1 T, g.ok 1) ∧ TabEq 1 (runGates (toCircuitAG04 1 T) (zeroState 1)) T := by
  unfold toCircuitAG04
  rw [if_pos rfl]
  have hs := hv.2 0 1 (by omega) (by omega)
  simp only [symp, Bool.false_bne] at hs
  have hs' : (((getRow T 0).x 0 && (getRow T 1).z 0) ^^ ((getRow T 0).z 0 && (getRow T 1).x 0)) = true := by
    rw [hs]; decide
  have S := singleQubitB_spec _ _ (getRow T 0).r _ _ (getRow T 1).r hs'
  show (∀ g ∈ singleQubitB _ _ _ _ _ _, g.ok 1) ∧
    TabEq 1 (runGates (singleQubitB ((getRow T 0).x 0) ((getRow T 0).z 0) (getRow T 0).r
      ((getRow T 1).x 0) ((getRow T 1).z 0) (getRow T 1).r) (zeroState 1)) T
  refine ⟨singleQubitB_ok _ _ _ _ _ _, fun m hm => ?_⟩
  have hlenZ : m < (zeroState 1).length := by simp [zeroState]; omega
  rw [getRow_runGates _ _ m hlenZ]
  have hm' : m = 0 ∨ m = 1 := by omega
  rcases hm' with rfl | rfl
  · rw [getRow_zero_lo 1 0 (by omega)]
    refine ⟨fun k hk => ?_, S.2.2.1⟩
    have : k = 0 := by omega
    subst this
    exact ⟨S.1, S.2.1⟩
  · rw [show (1 : Nat) = 1 + 0 from rfl, getRow_zero_hi 1 0 (by omega)]
    refine ⟨fun k hk => ?_, S.2.2.2.2.2⟩
    have : k = 0 := by omega
    subst this
    exact ⟨S.2.2.2.1, S.2.2.2.2.1⟩

theorem onQubit_isAG {q : Nat} {g : Gate} (h : OnQubit q g) : g.isAG = true := by
  rcases h with rfl | rfl | rfl | rfl | rfl | rfl <;> rfl

/-- the returned circuit is written in the invertible alphabet H S SDG CNOT SWAP X Y Z. -/
theorem toCircuit_isAG (n : Nat) (T : Tableau) (hv : Valid n T) :
    ∀ g ∈ toCircuitAG04 n T, g.isAG = true := by
  unfold toCircuitAG04
  by_cases hn : n = 1
  · rw [if_pos hn]
    intro g hg
    exact onQubit_isAG (mem_singleQubitQ 0 _ _ _ _ _ _ g hg)
  · rw [if_neg hn]
    exact invert_isAG _ (ag04Forward_spec T hv).1.ag

theorem toCircuit_spec (n : Nat) (T : Tableau) (hv : Valid n T) :
    (∀ g ∈ toCircuitAG04 n T, g.ok n) ∧ TabEq n (runGates (toCircuitAG04 n T) (zeroState n)) T := by
  by_cases hn : n = 1
  · subst hn; exact toCircuit_one T hv
  · exact toCircuit_general hn T hv

end QV.Cliff
