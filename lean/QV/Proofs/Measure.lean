/-
  QV.Proofs.Measure — lemmas about the measurement model QV/Model/Measure.lean
  (Born marginals, binary ↔ decimal, frequency tables, register projections, the result
  state machine, collapse).  Unbounded in the number of qubits, shots and accessor calls.
-/
import Mathlib.Algebra.BigOperators.Group.Finset.Basic
import Mathlib.Algebra.BigOperators.Ring.Finset
import Mathlib.Algebra.Order.BigOperators.Group.Finset
import Mathlib.Data.List.Perm.Basic
import Mathlib.Data.List.Count
import Mathlib.Tactic.Ring
import QV.Proofs.SumOver
import QV.Model.Measure

namespace QV

open Finset

/-! ### membership in `unmeasured` / `measuredAsc` -/

theorem mem_unmeasured {n : Nat} {qs : List Nat} {r : Nat} :
    r ∈ unmeasured n qs ↔ r < n ∧ r ∉ qs := by
  simp [unmeasured]

theorem mem_measuredAsc {n : Nat} {qs : List Nat} {r : Nat} :
    r ∈ measuredAsc n qs ↔ r < n ∧ r ∈ qs := by
  simp [measuredAsc]

theorem unmeasured_nodup (n : Nat) (qs : List Nat) : (unmeasured n qs).Nodup :=
  List.Nodup.filter _ List.nodup_range

theorem unmeasured_congr {n : Nat} {qs qs' : List Nat} (h : ∀ r, r ∈ qs ↔ r ∈ qs') :
    unmeasured n qs = unmeasured n qs' := by
  unfold unmeasured
  apply List.filter_congr
  intro r _
  have := h r
  by_cases h1 : r ∈ qs <;> simp_all

/-- the measured qubits followed by the unmeasured ones are a rearrangement of the register. -/
theorem perm_append_unmeasured {n : Nat} {qs : List Nat} (hn : qs.Nodup) (hlt : ∀ q ∈ qs, q < n) :
    (qs ++ unmeasured n qs).Perm (List.range n) := by
  rw [List.perm_ext_iff_of_nodup]
  · intro r
    rw [List.mem_append, mem_unmeasured, List.mem_range]
    constructor
    · rintro (h | h)
      · exact hlt r h
      · exact h.1
    · intro h
      by_cases hr : r ∈ qs
      · exact Or.inl hr
      · exact Or.inr ⟨h, hr⟩
  · rw [List.nodup_append]
    refine ⟨hn, unmeasured_nodup n qs, ?_⟩
    intro a ha b hb hab
    subst hab
    exact (mem_unmeasured.mp hb).2 ha
  · exact List.nodup_range

/-! ### labels from indices -/

theorem withIdx_zero_of_not_mem (qs : List Nat) (k : Nat) {r : Nat} (h : r ∉ qs) :
    Lab.withIdx zeroLab qs k r = false := by
  rw [Lab.withIdx_eq_wIdx, Lab.wIdx_of_not_mem _ _ h]; rfl

/-- re-reading a label through another list with the same members gives the label back,
provided the label vanishes off the list. -/
theorem withIdx_idx_of_mem_iff {ps : List Nat} (y : Lab) (hy : ∀ r, r ∉ ps → y r = false) :
    Lab.withIdx zeroLab ps (Lab.idx ps y) = y := by
  funext r
  rw [Lab.withIdx_eq_wIdx]
  by_cases hr : r ∈ ps
  · rw [Lab.wIdx_of_mem zeroLab y _ hr, Lab.wIdx_idx]
  · rw [Lab.wIdx_of_not_mem _ _ hr, hy r hr]; rfl

/-! ### probabilities -/

section Probs
variable {β : Type}

/-- the table computed by `calculate_probabilities` is the Born marginal in the given order. -/
theorem calculateProbabilities_eq_born [Zero β] [Add β] (n : Nat) (qs : List Nat)
    (hlt : ∀ q ∈ qs, q < n) (w : Lab → β) (k : Nat) :
    calculateProbabilities n qs w k = born n qs w k := by
  unfold calculateProbabilities orderProbabilities reducedProbs born
  congr 1
  apply withIdx_idx_of_mem_iff
  intro r hr
  apply withIdx_zero_of_not_mem
  intro hq
  exact hr (mem_measuredAsc.mpr ⟨hlt r hq, hq⟩)

/-- the marginal sums to the total weight, for every ordered duplicate-free qubit list. -/
theorem born_sum_total [AddCommMonoid β] (n : Nat) (qs : List Nat) (hn : qs.Nodup)
    (hlt : ∀ q ∈ qs, q < n) (w : Lab → β) :
    ∑ k ∈ range (2 ^ qs.length), born n qs w k = totalWeight n w := by
  unfold born totalWeight
  simp only [Lab.withIdx_eq_wIdx]
  rw [← sumOver_eq_sum' hn (fun y => sumOver (unmeasured n qs) w y) zeroLab,
    ← sumOver_append]
  exact sumOver_perm (perm_append_unmeasured hn hlt) w zeroLab

/-- summands of a marginal only involve labels that carry the outcome. -/
theorem idx_of_agree_off_unmeasured {n : Nat} {qs : List Nat} (hn : qs.Nodup) {k : Nat}
    (hk : k < 2 ^ qs.length) {y : Lab}
    (hy : ∀ r, r ∉ unmeasured n qs → y r = Lab.withIdx zeroLab qs k r) : Lab.idx qs y = k := by
  have : Lab.idx qs y = Lab.idx qs (Lab.withIdx zeroLab qs k) :=
    Lab.idx_congr fun r hr => hy r (fun hu => (mem_unmeasured.mp hu).2 hr)
  rw [this, Lab.idx_withIdx _ hn hk]

/-- permuting the requested qubit list permutes the table: entry `k` of the table for `qs` is
the entry of the table for `qs'` whose bits, read in the order of `qs'`, assign the same value
to every qubit. -/
theorem born_perm [Zero β] [Add β] (n : Nat) {qs qs' : List Nat} (h : ∀ r, r ∈ qs ↔ r ∈ qs')
    (w : Lab → β) (k : Nat) :
    born n qs' w (Lab.idx qs' (Lab.withIdx zeroLab qs k)) = born n qs w k := by
  unfold born
  rw [unmeasured_congr h]
  congr 1
  apply withIdx_idx_of_mem_iff
  intro r hr
  exact withIdx_zero_of_not_mem _ _ (fun hq => hr ((h r).mp hq))

theorem sumOver_ne_zero [AddMonoid β] {qs : List Nat} {f : Lab → β} {x : Lab}
    (h : sumOver qs f x ≠ 0) : ∃ y, (∀ r, r ∉ qs → y r = x r) ∧ f y ≠ 0 := by
  induction qs generalizing x with
  | nil => exact ⟨x, fun _ _ => rfl, h⟩
  | cons q qs ih =>
    rw [sumOver_cons] at h
    have : sumOver qs f (x.set q false) ≠ 0 ∨ sumOver qs f (x.set q true) ≠ 0 := by
      by_contra hc
      push Not at hc
      rw [hc.1, hc.2, add_zero] at h
      exact h rfl
    rcases this with h1 | h1
    all_goals
      obtain ⟨y, hy, hf⟩ := ih h1
      refine ⟨y, fun r hr => ?_, hf⟩
      rw [hy r (fun hm => hr (List.mem_cons_of_mem _ hm))]
      exact Lab.set_other x _ (fun e => hr (e ▸ List.mem_cons_self ..))

/-- an outcome of non-zero probability is carried by a basis label of non-zero weight. -/
theorem born_support [AddMonoid β] (n : Nat) {qs : List Nat} (hn : qs.Nodup) (w : Lab → β)
    {k : Nat} (hk : k < 2 ^ qs.length) (h : born n qs w k ≠ 0) :
    ∃ x : Lab, w x ≠ 0 ∧ Lab.idx qs x = k := by
  obtain ⟨y, hy, hw⟩ := sumOver_ne_zero h
  exact ⟨y, hw, idx_of_agree_off_unmeasured hn hk hy⟩

end Probs

/-! ### binary ↔ decimal -/

theorem samplesToBinary_length (k s : Nat) : (samplesToBinary k s).length = k := by
  simp [samplesToBinary]

theorem samplesToBinary_succ (k s : Nat) :
    samplesToBinary (k + 1) s = (s / 2 ^ k % 2) :: samplesToBinary k s := by
  unfold samplesToBinary
  rw [List.range_succ_eq_map, List.map_cons, List.map_map]
  congr 1
  · simp [Nat.shiftRight_eq_div_pow]
  · apply List.map_congr_left
    intro j _
    simp only [Function.comp]
    congr 2
    omega

theorem samplesToBinary_le_one (k s : Nat) : ∀ b ∈ samplesToBinary k s, b ≤ 1 := by
  intro b hb
  simp only [samplesToBinary, List.mem_map] at hb
  obtain ⟨j, _, rfl⟩ := hb
  omega

theorem samplesToDecimal_samplesToBinary_mod (k s : Nat) :
    samplesToDecimal (samplesToBinary k s) = s % 2 ^ k := by
  induction k with
  | zero => simp [samplesToBinary, samplesToDecimal, Nat.mod_one]
  | succ k ih =>
    rw [samplesToBinary_succ, samplesToDecimal, ih, samplesToBinary_length, Nat.mod_pow_succ]
    ring

/-- decimal ∘ binary = id on `k`-bit values. -/
theorem samplesToDecimal_samplesToBinary {k s : Nat} (h : s < 2 ^ k) :
    samplesToDecimal (samplesToBinary k s) = s := by
  rw [samplesToDecimal_samplesToBinary_mod, Nat.mod_eq_of_lt h]

theorem samplesToDecimal_lt (bits : List Nat) (hb : ∀ b ∈ bits, b ≤ 1) :
    samplesToDecimal bits < 2 ^ bits.length := by
  induction bits with
  | nil => simp [samplesToDecimal]
  | cons b bs ih =>
    have h1 := ih (fun c hc => hb c (List.mem_cons_of_mem _ hc))
    have h2 : b ≤ 1 := hb b (List.mem_cons_self ..)
    rw [samplesToDecimal, List.length_cons, pow_succ]
    have : b * 2 ^ bs.length ≤ 1 * 2 ^ bs.length := Nat.mul_le_mul_right _ h2
    omega

theorem samplesToBinary_mod (k s : Nat) : samplesToBinary k (s % 2 ^ k) = samplesToBinary k s := by
  induction k generalizing s with
  | zero => rfl
  | succ k ih =>
    rw [samplesToBinary_succ, samplesToBinary_succ]
    congr 1
    · rw [Nat.mod_pow_succ, Nat.mul_comm,
        Nat.add_mul_div_right _ _ (Nat.two_pow_pos k),
        Nat.div_eq_of_lt (Nat.mod_lt _ (Nat.two_pow_pos k)), Nat.zero_add, Nat.mod_mod]
    · rw [← ih (s % 2 ^ (k + 1)), ← ih s]
      congr 1
      rw [pow_succ]
      exact Nat.mod_mul_right_mod _ _ _

/-- binary ∘ decimal = id on 0/1 rows. -/
theorem samplesToBinary_samplesToDecimal (bits : List Nat) (hb : ∀ b ∈ bits, b ≤ 1) :
    samplesToBinary bits.length (samplesToDecimal bits) = bits := by
  induction bits with
  | nil => rfl
  | cons b bs ih =>
    have hbs : ∀ c ∈ bs, c ≤ 1 := fun c hc => hb c (List.mem_cons_of_mem _ hc)
    have h2 : b ≤ 1 := hb b (List.mem_cons_self ..)
    have hlt := samplesToDecimal_lt bs hbs
    rw [List.length_cons, samplesToBinary_succ, samplesToDecimal]
    congr 1
    · rw [Nat.add_comm, Nat.add_mul_div_right _ _ (Nat.two_pow_pos _), Nat.div_eq_of_lt hlt,
        Nat.zero_add]
      omega
    · rw [← samplesToBinary_mod, Nat.mul_add_mod_self_right, Nat.mod_eq_of_lt hlt, ih hbs]

/-- the decimal value of the bits of a label on `qs` is its index. -/
theorem samplesToDecimal_bits (qs : List Nat) (y : Lab) :
    samplesToDecimal (qs.map fun q => if y q then 1 else 0) = Lab.idx qs y := by
  induction qs with
  | nil => rfl
  | cons q qs ih => rw [List.map_cons, samplesToDecimal, ih, Lab.idx_cons, List.length_map]

/-! ### frequency tables -/

theorem hist_cons (a : Nat) (T : List Nat) (v : Nat) :
    hist (a :: T) v = hist T v + if a = v then 1 else 0 := by
  simp only [hist, List.count_cons, beq_iff_eq]

/-- frequencies sum to the number of shots. -/
theorem hist_sum {N : Nat} (T : List Nat) (h : ∀ s ∈ T, s < N) :
    ∑ v ∈ range N, hist T v = T.length := by
  induction T with
  | nil => simp [hist]
  | cons a T ih =>
    have ha : a < N := h a (List.mem_cons_self ..)
    simp only [hist_cons, sum_add_distrib, ih (fun s hs => h s (List.mem_cons_of_mem _ hs)),
      List.length_cons]
    rw [sum_ite_eq (range N) a (fun _ => 1), if_pos (mem_range.mpr ha)]

theorem hist_perm {T T' : List Nat} (h : T.Perm T') : hist T = hist T' := by
  funext v; exact h.count_eq v

theorem foldl_updateFrequencies (bs : List (List Nat)) (F : Freq) :
    bs.foldl updateFrequencies F = fun v => F v + bs.flatten.count v := by
  induction bs generalizing F with
  | nil => simp
  | cons b bs ih =>
    rw [List.foldl_cons, ih]
    funext v
    simp only [updateFrequencies, List.flatten_cons, List.count_append]
    omega

/-- batching is invisible: `sample_frequencies` is the histogram of all drawn samples. -/
theorem sampleFrequencies_eq_hist (bs : List (List Nat)) :
    sampleFrequencies bs = hist bs.flatten := by
  unfold sampleFrequencies
  rw [foldl_updateFrequencies]
  funext v
  simp [hist]

theorem batchSizes_sum (nshots B : Nat) : (batchSizes nshots B).sum = nshots := by
  unfold batchSizes
  rw [List.sum_append, List.sum_replicate_nat, List.sum_singleton]
  exact Nat.div_add_mod' nshots B

/-- frequencies drawn in batches sum to `nshots`. -/
theorem sampleFrequencies_sum {N : Nat} (bs : List (List Nat)) (nshots B : Nat)
    (hlen : bs.map List.length = batchSizes nshots B) (hlt : ∀ b ∈ bs, ∀ s ∈ b, s < N) :
    ∑ v ∈ range N, sampleFrequencies bs v = nshots := by
  rw [sampleFrequencies_eq_hist, hist_sum]
  · rw [List.length_flatten, hlen, batchSizes_sum]
  · intro s hs
    obtain ⟨b, hb, hsb⟩ := List.mem_flatten.mp hs
    exact hlt b hb s hsb

theorem sum_map_ite_eq {l : List Nat} (hn : l.Nodup) (v : Nat) (c : Nat → Nat) :
    (l.map fun u => if u = v then c u else 0).sum = if v ∈ l then c v else 0 := by
  induction l with
  | nil => simp
  | cons a l ih =>
    have ha : a ∉ l := (List.nodup_cons.mp hn).1
    rw [List.map_cons, List.sum_cons, ih (List.nodup_cons.mp hn).2]
    by_cases e : a = v
    · subst e; simp [ha]
    · have e' : ¬ v = a := fun h => e h.symm
      simp [e, e']

theorem hist_repeatFreq (k : Nat) (F : Freq) (v : Nat) :
    hist (repeatFreq k F) v = if v < 2 ^ k then F v else 0 := by
  unfold hist repeatFreq
  rw [List.count_flatMap]
  have : (List.count v ∘ fun u => List.replicate (F u) u) = fun u => if u = v then F u else 0 := by
    funext u
    simp only [Function.comp, List.count_replicate, beq_iff_eq]
  rw [this, sum_map_ite_eq List.nodup_range]
  simp only [List.mem_range]

/-- repeating every key by its count reproduces the counter (keys below `2^k`). -/
theorem hist_repeatFreq_of_support {k : Nat} {F : Freq} (h : ∀ v, 2 ^ k ≤ v → F v = 0) :
    hist (repeatFreq k F) = F := by
  funext v
  rw [hist_repeatFreq]
  split
  · rfl
  · exact (h v (by omega)).symm

theorem applyPerm_perm {perm l : List Nat} (h : perm.Perm (List.range l.length)) :
    (applyPerm perm l).Perm l := by
  unfold applyPerm
  refine (h.map _).trans (List.Perm.of_eq ?_)
  apply List.ext_getElem
  · simp
  · intro i h1 h2
    simp at h1
    simp [h1]

theorem hist_zero_of_lt {N : Nat} {T : List Nat} (h : ∀ s ∈ T, s < N) (v : Nat) (hv : N ≤ v) :
    hist T v = 0 := by
  unfold hist
  rw [List.count_eq_zero]
  intro hm
  have := h v hm
  omega

/-- shuffling the repeated keys of a counter gives a shot table with that counter. -/
theorem hist_shuffle_repeat {k : Nat} {F : Freq} {perm : List Nat}
    (hF : ∀ v, 2 ^ k ≤ v → F v = 0) (hp : perm.Perm (List.range (repeatFreq k F).length)) :
    hist (applyPerm perm (repeatFreq k F)) = F := by
  rw [hist_perm (applyPerm_perm hp), hist_repeatFreq_of_support hF]

theorem mem_repeatFreq {k : Nat} {F : Freq} {s : Nat} (h : s ∈ repeatFreq k F) : s < 2 ^ k := by
  unfold repeatFreq at h
  obtain ⟨u, hu, hs⟩ := List.mem_flatMap.mp h
  rw [List.mem_replicate] at hs
  rw [hs.2]
  exact List.mem_range.mp hu

/-! ### register projection commutes with histogramming -/

theorem sum_filter_map_ite {l : List Nat} (hn : l.Nodup) (p : Nat → Bool) (a : Nat) :
    ((l.filter p).map fun v => if a = v then 1 else 0).sum = if a ∈ l ∧ p a = true then 1 else 0 := by
  induction l with
  | nil => simp
  | cons b l ih =>
    have hb : b ∉ l := (List.nodup_cons.mp hn).1
    have ih' := ih (List.nodup_cons.mp hn).2
    by_cases e : a = b
    · subst e
      have hz : ((l.filter p).map fun v => if a = v then 1 else 0).sum = 0 := by
        rw [ih']; simp [hb]
      by_cases hp : p a = true
      · rw [List.filter_cons_of_pos hp, List.map_cons, List.sum_cons, hz]; simp [hp]
      · rw [List.filter_cons_of_neg hp, hz]; simp [hp]
    · have e' : ¬ b = a := fun h => e h.symm
      by_cases hp : p b = true
      · rw [List.filter_cons_of_pos hp, List.map_cons, List.sum_cons, ih']; simp [e]
      · rw [List.filter_cons_of_neg hp, ih']; simp [e]

/-- **projection commutes with histogramming**: the per-register counter derived from the
global counter (frequencies-first path) is the histogram of the projected shots. -/
theorem regFreqOfGlobal_hist (k : Nat) (pos : List Nat) (T : List Nat) (hT : ∀ s ∈ T, s < 2 ^ k) :
    regFreqOfGlobal k pos (hist T) = hist (T.map (projDec k pos)) := by
  funext r
  induction T with
  | nil =>
    have h0 : hist [] = fun _ => 0 := by funext v; simp [hist]
    simp [regFreqOfGlobal, h0]
  | cons a T ih =>
    have ha : a < 2 ^ k := hT a (List.mem_cons_self ..)
    have ih' := ih (fun s hs => hT s (List.mem_cons_of_mem _ hs))
    unfold regFreqOfGlobal at ih' ⊢
    rw [List.map_cons, hist_cons, ← ih']
    have : (fun v => hist (a :: T) v) = fun v => hist T v + if a = v then 1 else 0 := by
      funext v; exact hist_cons a T v
    rw [show hist (a :: T) = fun v => hist T v + if a = v then 1 else 0 from this,
      List.sum_map_add, sum_filter_map_ite List.nodup_range]
    congr 1
    simp [List.mem_range, ha]

/-! ### the result state machine: every accessor is a view of one shot table -/

/-- coupling invariant between the caches of a result and the shot table `T`. -/
structure RInv (c : RCfg) (o : Oracle) (T : List Nat) (s : RState) : Prop where
  gS : s.gSamples = none ∨ s.gSamples = some (T.map (samplesToBinary c.k))
  gF : s.gFreq = none ∨ s.gFreq = some (hist T)
  rS : ∀ i, s.rSamples i =
    if s.gSamples.isSome then some (T.map fun x => pick (samplesToBinary c.k x) (c.pos i)) else none
  rF : ∀ i, s.rFreq i = none ∨ s.rFreq i = some (hist (T.map (projDec c.k (c.pos i))))
  drawn : s.gSamples = none →
    (s.gFreq = some (hist T) ∧ (∀ i, s.rFreq i = some (hist (T.map (projDec c.k (c.pos i))))) ∧
      applyPerm o.perm (repeatFreq c.k (hist T)) = T)

variable {c : RCfg} {o : Oracle} {T : List Nat} {s : RState}

theorem ensureSamples_spec (h : RInv c o T s) :
    RInv c o T (ensureSamples c o s).1 ∧ (ensureSamples c o s).2 = T.map (samplesToBinary c.k)
      ∧ (ensureSamples c o s).1.gSamples = some (T.map (samplesToBinary c.k)) := by
  cases hs : s.gSamples with
  | some t =>
    have ht : t = T.map (samplesToBinary c.k) := by
      rcases h.gS with h1 | h1
      · rw [hs] at h1; cases h1
      · rw [hs] at h1; exact Option.some.inj h1
    have : ensureSamples c o s = (s, t) := by simp only [ensureSamples, hs]
    rw [this]; subst ht; exact ⟨h, rfl, hs⟩
  | none =>
    obtain ⟨hf, hr, hp⟩ := h.drawn hs
    have : ensureSamples c o s =
        ({ s with gSamples := some (T.map (samplesToBinary c.k)),
                  rSamples := fun i => some ((T.map (samplesToBinary c.k)).map (pick · (c.pos i))) },
          T.map (samplesToBinary c.k)) := by
      simp only [ensureSamples, hs, hf, hp]
    rw [this]
    refine ⟨⟨Or.inr rfl, h.gF, ?_, h.rF, ?_⟩, rfl, rfl⟩
    · intro i; simp [List.map_map, Function.comp_def]
    · intro hn; simp at hn

theorem RInv.rS_some (h : RInv c o T s) {t : List (List Nat)} (hs : s.gSamples = some t) (i : Nat) :
    s.rSamples i = some (T.map fun x => pick (samplesToBinary c.k x) (c.pos i)) := by
  rw [h.rS i, hs]; rfl

theorem ensureRegSamples_spec (h : RInv c o T s) (i : Nat) :
    RInv c o T (ensureRegSamples c o s i).1 ∧
      (ensureRegSamples c o s i).2 = (T.map fun x => pick (samplesToBinary c.k x) (c.pos i)) ∧
      (ensureRegSamples c o s i).1.gSamples = some (T.map (samplesToBinary c.k)) := by
  obtain ⟨h1, _, h3⟩ := ensureSamples_spec h
  cases hr : s.rSamples i with
  | some t =>
    have : ensureRegSamples c o s i = (s, t) := by simp only [ensureRegSamples, hr]
    rw [this]
    have hrs := h.rS i
    rw [hr] at hrs
    cases hg : s.gSamples with
    | none => rw [hg] at hrs; simp at hrs
    | some t' =>
      have ht' : t' = T.map (samplesToBinary c.k) := by
        rcases h.gS with h4 | h4
        · rw [hg] at h4; cases h4
        · rw [hg] at h4; exact Option.some.inj h4
      rw [hg] at hrs
      simp at hrs
      exact ⟨h, hrs, ht' ▸ rfl⟩
  | none =>
    have : ensureRegSamples c o s i =
        ((ensureSamples c o s).1, ((ensureSamples c o s).1.rSamples i).getD []) := by
      simp only [ensureRegSamples, hr]
    rw [this]
    refine ⟨h1, ?_, h3⟩
    rw [h1.rS_some h3 i]; rfl

theorem ensureRegFreq_spec (h : RInv c o T s) (i : Nat) :
    RInv c o T (ensureRegFreq c o s i).1 ∧
      (ensureRegFreq c o s i).2 = hist (T.map (projDec c.k (c.pos i))) := by
  cases hf : s.rFreq i with
  | some F =>
    have : ensureRegFreq c o s i = (s, F) := by simp only [ensureRegFreq, hf]
    rw [this]
    refine ⟨h, ?_⟩
    rcases h.rF i with h1 | h1
    · rw [hf] at h1; cases h1
    · rw [hf] at h1; exact Option.some.inj h1
  | none =>
    obtain ⟨h1, h2, h3⟩ := ensureRegSamples_spec h i
    have hF : hist ((ensureRegSamples c o s i).2.map samplesToDecimal)
        = hist (T.map (projDec c.k (c.pos i))) := by
      rw [h2, List.map_map]; rfl
    have : ensureRegFreq c o s i =
        ({ (ensureRegSamples c o s i).1 with
            rFreq := fun j => if j = i then some (hist ((ensureRegSamples c o s i).2.map samplesToDecimal))
                              else (ensureRegSamples c o s i).1.rFreq j },
          hist ((ensureRegSamples c o s i).2.map samplesToDecimal)) := by
      simp only [ensureRegFreq, hf]
    rw [this, hF]
    refine ⟨⟨h1.gS, h1.gF, h1.rS, ?_, ?_⟩, rfl⟩
    · intro j
      by_cases e : j = i
      · subst e; right; simp
      · simp only [e, if_false]; exact h1.rF j
    · intro hn
      rw [h3] at hn; cases hn

theorem hist_roundtrip {k : Nat} {T : List Nat} (hT : ∀ x ∈ T, x < 2 ^ k) :
    (T.map (samplesToBinary k)).map samplesToDecimal = T := by
  rw [List.map_map]
  conv_rhs => rw [← List.map_id T]
  apply List.map_congr_left
  intro x hx
  exact samplesToDecimal_samplesToBinary (hT x hx)

theorem ensureFreq_spec (h : RInv c o T s) (hT : ∀ x ∈ T, x < 2 ^ c.k) :
    RInv c o T (ensureFreq c o s).1 ∧ (ensureFreq c o s).2 = hist T := by
  cases hf : s.gFreq with
  | some F =>
    have : ensureFreq c o s = (s, F) := by simp only [ensureFreq, hf]
    rw [this]
    refine ⟨h, ?_⟩
    rcases h.gF with h1 | h1
    · rw [hf] at h1; cases h1
    · rw [hf] at h1; exact Option.some.inj h1
  | none =>
    cases hg : s.gSamples with
    | none =>
      have := (h.drawn hg).1
      rw [hf] at this; cases this
    | some t =>
      have ht : t = T.map (samplesToBinary c.k) := by
        rcases h.gS with h4 | h4
        · rw [hg] at h4; cases h4
        · rw [hg] at h4; exact Option.some.inj h4
      have : ensureFreq c o s = ({ s with gFreq := some (hist (t.map samplesToDecimal)) },
          hist (t.map samplesToDecimal)) := by
        simp only [ensureFreq, hf, hg, ensureSamples, Option.isSome_some, if_true]
      rw [this, ht, hist_roundtrip hT]
      refine ⟨⟨h.gS, Or.inr rfl, h.rS, h.rF, ?_⟩, rfl⟩
      intro hn
      rw [hg] at hn; cases hn

theorem allRegFreq_spec (h : RInv c o T s) :
    RInv c o T (allRegFreq c o s).1 ∧
      (allRegFreq c o s).2 = fun i => hist (T.map (projDec c.k (c.pos i))) := by
  have h1 : RInv c o T (allRegFreq.ensureSamplesIfNeeded c o s) := by
    unfold allRegFreq.ensureSamplesIfNeeded
    split
    · exact h
    · exact (ensureSamples_spec h).1
  have hG : ∀ i, (ensureRegFreq c o (allRegFreq.ensureSamplesIfNeeded c o s) i).2
      = hist (T.map (projDec c.k (c.pos i))) := fun i => (ensureRegFreq_spec h1 i).2
  unfold allRegFreq
  simp only [hG]
  refine ⟨⟨h1.gS, h1.gF, h1.rS, fun i => Or.inr rfl, ?_⟩, trivial⟩
  intro hn
  obtain ⟨a, _, b⟩ := h1.drawn hn
  exact ⟨a, fun _ => rfl, b⟩

theorem rstep_freqs_spec (b r : Bool) (h : RInv c o T (ensureFreq c o s).1)
    (h2 : (ensureFreq c o s).2 = hist T) :
    RInv c o T (rstep c o s (.freqs b r)).1 ∧ (rstep c o s (.freqs b r)).2 = rview c T (.freqs b r) := by
  cases r with
  | false =>
    have : rstep c o s (.freqs b false) = ((ensureFreq c o s).1, .freq (ensureFreq c o s).2) := by
      simp [rstep]
    rw [this, h2]
    exact ⟨h, by cases b <;> rfl⟩
  | true =>
    have : rstep c o s (.freqs b true) =
        ((allRegFreq c o (ensureFreq c o s).1).1, .regFreq (allRegFreq c o (ensureFreq c o s).1).2) := by
      simp [rstep]
    obtain ⟨h3, h4⟩ := allRegFreq_spec h
    rw [this, h4]
    exact ⟨h3, by cases b <;> rfl⟩

/-- one accessor call from a state coupled to `T`: the answer is the view of `T`, and the new
state is still coupled to `T`. -/
theorem rstep_spec (h : RInv c o T s) (hT : ∀ x ∈ T, x < 2 ^ c.k) (op : ROp) :
    RInv c o T (rstep c o s op).1 ∧ (rstep c o s op).2 = rview c T op := by
  cases op with
  | samples b r =>
    obtain ⟨h1, h2, h3⟩ := ensureSamples_spec h
    have hreg : ∀ i, ((ensureSamples c o s).1.rSamples i).getD []
        = T.map fun x => pick (samplesToBinary c.k x) (c.pos i) := by
      intro i; rw [h1.rS_some h3 i]; rfl
    cases r <;> cases b
    · have : rstep c o s (.samples false false)
          = ((ensureSamples c o s).1, .decs ((ensureSamples c o s).2.map samplesToDecimal)) := by
        simp [rstep]
      rw [this, h2, hist_roundtrip hT]; exact ⟨h1, rfl⟩
    · have : rstep c o s (.samples true false)
          = ((ensureSamples c o s).1, .rows (ensureSamples c o s).2) := by
        simp [rstep]
      rw [this, h2]; exact ⟨h1, rfl⟩
    · have : rstep c o s (.samples false true)
          = ((ensureSamples c o s).1,
              .regDecs fun i => (((ensureSamples c o s).1.rSamples i).getD []).map samplesToDecimal) := by
        simp [rstep]
      rw [this]
      refine ⟨h1, ?_⟩
      simp only [hreg, List.map_map]
      rfl
    · have : rstep c o s (.samples true true)
          = ((ensureSamples c o s).1, .regRows fun i => ((ensureSamples c o s).1.rSamples i).getD []) := by
        simp [rstep]
      rw [this]
      refine ⟨h1, ?_⟩
      simp only [hreg]
      rfl
  | freqs b r =>
    obtain ⟨h1, h2⟩ := ensureFreq_spec h hT
    exact rstep_freqs_spec b r h1 h2
  | regSamples i b =>
    obtain ⟨h1, h2, _⟩ := ensureRegSamples_spec h i
    cases b
    · have : rstep c o s (.regSamples i false)
          = ((ensureRegSamples c o s i).1, .decs ((ensureRegSamples c o s i).2.map samplesToDecimal)) := by
        simp [rstep]
      rw [this, h2, List.map_map]; exact ⟨h1, rfl⟩
    · have : rstep c o s (.regSamples i true)
          = ((ensureRegSamples c o s i).1, .rows (ensureRegSamples c o s i).2) := by
        simp [rstep]
      rw [this, h2]; exact ⟨h1, rfl⟩
  | regFreqs i b =>
    obtain ⟨h1, h2⟩ := ensureRegFreq_spec h i
    have : rstep c o s (.regFreqs i b)
        = ((ensureRegFreq c o s i).1, .freq (ensureRegFreq c o s i).2) := by
      simp [rstep]
    rw [this, h2]; exact ⟨h1, by cases b <;> rfl⟩

theorem rrun_of_inv (h : RInv c o T s) (hT : ∀ x ∈ T, x < 2 ^ c.k) (ops : List ROp) :
    rrun c o s ops = ops.map (rview c T) := by
  induction ops generalizing s with
  | nil => rfl
  | cons op ops ih =>
    obtain ⟨h1, h2⟩ := rstep_spec h hT op
    rw [rrun, List.map_cons, h2, ih h1]

/-- a result built from given samples (repeated execution) is coupled to them. -/
theorem rinv_withSamples (c : RCfg) (o : Oracle) (T : List Nat) :
    RInv c o T (RState.withSamples c T) := by
  refine ⟨Or.inr rfl, Or.inl rfl, ?_, fun _ => Or.inl rfl, ?_⟩
  · intro i; simp [RState.withSamples, List.map_map, Function.comp_def]
  · intro hn; simp [RState.withSamples] at hn

/-- the oracle contract: drawn indices are in range and the shuffle is a permutation. -/
structure Oracle.Valid (c : RCfg) (o : Oracle) : Prop where
  shots : ∀ x ∈ o.shots, x < 2 ^ c.k
  batches : ∀ b ∈ o.batches, ∀ x ∈ b, x < 2 ^ c.k
  perm : o.perm.Perm (List.range (repeatFreq c.k (sampleFrequencies o.batches)).length)

theorem freqTable_hist (hv : o.Valid c) :
    hist (applyPerm o.perm (repeatFreq c.k (sampleFrequencies o.batches)))
      = sampleFrequencies o.batches := by
  apply hist_shuffle_repeat _ hv.perm
  intro v hvv
  rw [sampleFrequencies_eq_hist]
  apply hist_zero_of_lt _ v hvv
  intro x hx
  obtain ⟨b, hb, hxb⟩ := List.mem_flatten.mp hx
  exact hv.batches b hb x hxb

theorem freqTable_lt (hv : o.Valid c) :
    ∀ x ∈ applyPerm o.perm (repeatFreq c.k (sampleFrequencies o.batches)), x < 2 ^ c.k := by
  intro x hx
  exact mem_repeatFreq ((applyPerm_perm hv.perm).mem_iff.mp hx)

theorem theTable_lt (hv : o.Valid c) (ops : List ROp) : ∀ x ∈ theTable c o ops, x < 2 ^ c.k := by
  match ops with
  | [] => exact hv.shots
  | .freqs _ _ :: _ => exact freqTable_lt hv
  | .samples _ _ :: _ => exact hv.shots
  | .regSamples _ _ :: _ => exact hv.shots
  | .regFreqs _ _ :: _ => exact hv.shots

/-- the first call on a fresh result. -/
theorem rstep_fresh (hv : o.Valid c) (op : ROp) (rest : List ROp) :
    RInv c o (theTable c o (op :: rest)) (rstep c o {} op).1 ∧
      (rstep c o {} op).2 = rview c (theTable c o (op :: rest)) op := by
  have hshots : RInv c o o.shots (ensureSamples c o {}).1 := by
    refine ⟨Or.inr rfl, Or.inl rfl, ?_, fun _ => Or.inl rfl, ?_⟩
    · intro i; simp [ensureSamples, List.map_map, Function.comp_def]
    · intro hn; simp [ensureSamples] at hn
  cases op with
  | freqs b r =>
    show RInv c o (applyPerm o.perm (repeatFreq c.k (sampleFrequencies o.batches))) _ ∧ _ = rview c (applyPerm o.perm (repeatFreq c.k (sampleFrequencies o.batches))) _
    have hh := freqTable_hist hv
    have hlt := freqTable_lt hv
    apply rstep_freqs_spec
    · refine ⟨Or.inl rfl, Or.inr ?_, fun _ => rfl, fun i => Or.inr ?_, fun _ => ⟨?_, fun i => ?_, ?_⟩⟩
      · simp [ensureFreq, hh]
      · simp only [ensureFreq]
        rw [← regFreqOfGlobal_hist _ _ _ hlt, hh]; rfl
      · simp [ensureFreq, hh]
      · simp only [ensureFreq]
        rw [← regFreqOfGlobal_hist _ _ _ hlt, hh]; rfl
      · rw [hh]
    · simp [ensureFreq, hh]
  | samples b r =>
    have e : rstep c o {} (.samples b r) = rstep c o (ensureSamples c o {}).1 (.samples b r) := rfl
    rw [e]; exact rstep_spec hshots hv.shots _
  | regSamples i b =>
    have e : rstep c o {} (.regSamples i b) = rstep c o (ensureSamples c o {}).1 (.regSamples i b) := rfl
    rw [e]; exact rstep_spec hshots hv.shots _
  | regFreqs i b =>
    have e : rstep c o {} (.regFreqs i b) = rstep c o (ensureSamples c o {}).1 (.regFreqs i b) := rfl
    rw [e]; exact rstep_spec hshots hv.shots _

/-! ### collapse -/

section Collapse
variable {α β : Type}

theorem collapseState_idem [Zero α] (qs : List Nat) (shot : Nat) (ψ : Lab → α) :
    collapseState qs shot (collapseState qs shot ψ) = collapseState qs shot ψ := by
  funext x
  unfold collapseState
  split <;> simp [*]

theorem collapseState_ne [Zero α] (qs : List Nat) {s s' : Nat} (h : s ≠ s') (ψ : Lab → α) :
    collapseState qs s' (collapseState qs s ψ) = fun _ => 0 := by
  funext x
  unfold collapseState
  split
  · rename_i h1
    rw [if_neg (fun h2 => h (h2.symm.trans h1))]
  · rfl

/-- weight of a collapsed state (`w 0 = 0`, e.g. `w = |·|²`). -/
theorem weight_collapse [Zero α] [Zero β] (w : α → β) (hw : w 0 = 0) (qs : List Nat) (shot : Nat)
    (ψ : Lab → α) :
    (fun x => w (collapseState qs shot ψ x)) = fun x => if Lab.idx qs x = shot then w (ψ x) else 0 := by
  funext x
  unfold collapseState
  split <;> simp [*]

/-- measuring the same qubits again: only the recorded outcome has weight, and it has all of
it. -/
theorem born_collapse [AddMonoid β] (n : Nat) {qs : List Nat} (hn : qs.Nodup) (w : Lab → β)
    (s : Nat) {k : Nat} (hk : k < 2 ^ qs.length) :
    born n qs (fun x => if Lab.idx qs x = s then w x else 0) k
      = if k = s then born n qs w s else 0 := by
  unfold born
  by_cases e : k = s
  · subst e
    rw [if_pos rfl]
    apply sumOver_congr
    intro y hy
    rw [if_pos (idx_of_agree_off_unmeasured hn hk hy)]
  · rw [if_neg e]
    refine (sumOver_congr (g := fun _ => (0 : β)) ?_).trans (sumOver_zero _ _)
    intro y hy
    rw [if_neg]
    rw [idx_of_agree_off_unmeasured hn hk hy]
    exact e

/-- the squared norm of the projection is the Born probability of the outcome. -/
theorem totalWeight_collapse [AddCommMonoid β] (n : Nat) {qs : List Nat} (hn : qs.Nodup)
    (hlt : ∀ q ∈ qs, q < n) (w : Lab → β) {s : Nat} (hs : s < 2 ^ qs.length) :
    totalWeight n (fun x => if Lab.idx qs x = s then w x else 0) = born n qs w s := by
  rw [← born_sum_total n qs hn hlt]
  rw [sum_congr rfl (fun k hk => born_collapse n hn w s (mem_range.mp hk))]
  rw [sum_ite_eq' (range (2 ^ qs.length)) s, if_pos (mem_range.mpr hs)]

theorem insertAsc_perm (a : Nat) (l : List Nat) : (insertAsc a l).Perm (a :: l) := by
  induction l with
  | nil => exact List.Perm.refl _
  | cons b l ih =>
    unfold insertAsc
    split
    · exact List.Perm.refl _
    · exact (List.Perm.cons b ih).trans (List.Perm.swap a b l)

theorem sortAsc_perm (ts : List Nat) : (sortAsc ts).Perm ts := by
  induction ts with
  | nil => exact List.Perm.refl _
  | cons a l ih => exact (insertAsc_perm a (sortAsc l)).trans (List.Perm.cons a ih)

theorem recordedBits_eq (ts : List Nat) (shot : Nat) :
    recordedBits ts shot
      = ts.map fun t => if Lab.withIdx zeroLab (sortAsc ts) shot t then 1 else 0 := rfl

/-- labels that agree on the listed qubits have equal indices, and conversely. -/
theorem agree_of_idx_eq {qs : List Nat} {x y : Lab} (h : Lab.idx qs x = Lab.idx qs y) :
    ∀ r ∈ qs, x r = y r := by
  intro r hr
  have hx := Lab.wIdx_idx x qs
  have hy := Lab.wIdx_idx y qs
  rw [← congrFun hx r, ← congrFun hy r, h]
  exact Lab.wIdx_of_mem x y _ hr

theorem idx_sorted_iff (ts : List Nat) (hn : ts.Nodup) {shot : Nat} (hs : shot < 2 ^ ts.length)
    (x : Lab) :
    Lab.idx (sortAsc ts) x = shot ↔ Lab.idx ts x = samplesToDecimal (recordedBits ts shot) := by
  have hp := sortAsc_perm ts
  have hnS : (sortAsc ts).Nodup := hp.nodup_iff.mpr hn
  have hsS : shot < 2 ^ (sortAsc ts).length := by rw [hp.length_eq]; exact hs
  rw [recordedBits_eq, samplesToDecimal_bits]
  have hy : Lab.idx (sortAsc ts) (Lab.withIdx zeroLab (sortAsc ts) shot) = shot :=
    Lab.idx_withIdx _ hnS hsS
  constructor
  · intro h
    apply Lab.idx_congr
    intro r hr
    exact agree_of_idx_eq (h.trans hy.symm) r (hp.mem_iff.mpr hr)
  · intro h
    rw [← hy]
    apply Lab.idx_congr
    intro r hr
    exact agree_of_idx_eq h r (hp.mem_iff.mp hr)

/-- **recorded bits are in the order the qubits were given**: the state left by `M.apply`
(projection computed on the ascending qubit list) is the projection onto the recorded bits
read in the order of `targets`. -/
theorem collapse_order [Zero α] (ts : List Nat) (hn : ts.Nodup) {shot : Nat}
    (hs : shot < 2 ^ ts.length) (ψ : Lab → α) :
    collapseState (sortAsc ts) shot ψ
      = collapseState ts (samplesToDecimal (recordedBits ts shot)) ψ := by
  funext x
  unfold collapseState
  by_cases h : Lab.idx (sortAsc ts) x = shot
  · rw [if_pos h, if_pos ((idx_sorted_iff ts hn hs x).mp h)]
  · rw [if_neg h, if_neg (fun h' => h ((idx_sorted_iff ts hn hs x).mpr h'))]

/-- every basis label left with non-zero amplitude carries the recorded bits, qubit by qubit in
the order of `targets` — what later gates and measurements of the same shot see. -/
theorem collapse_support_bits [Zero α] (ts : List Nat) (hn : ts.Nodup) {shot : Nat}
    (hs : shot < 2 ^ ts.length) (ψ : Lab → α) (x : Lab)
    (hx : collapseState (sortAsc ts) shot ψ x ≠ 0) :
    (ts.map fun t => if x t then 1 else 0) = recordedBits ts shot := by
  have hp := sortAsc_perm ts
  have hnS : (sortAsc ts).Nodup := hp.nodup_iff.mpr hn
  have hsS : shot < 2 ^ (sortAsc ts).length := by rw [hp.length_eq]; exact hs
  have hi : Lab.idx (sortAsc ts) x = shot := by
    unfold collapseState at hx
    by_contra hc
    rw [if_neg hc] at hx
    exact hx rfl
  have hy : Lab.idx (sortAsc ts) (Lab.withIdx zeroLab (sortAsc ts) shot) = shot :=
    Lab.idx_withIdx _ hnS hsS
  rw [recordedBits_eq]
  apply List.map_congr_left
  intro t ht
  rw [agree_of_idx_eq (hi.trans hy.symm) t (hp.mem_iff.mpr ht)]

/-- density-matrix collapse of a pure state is the projector on the collapsed state vector. -/
theorem collapseDM_outer [MulZeroClass α] (conj : α → α) (h0 : conj 0 = 0) (qs : List Nat)
    (shot : Nat) (ψ : Lab → α) :
    collapseDM qs shot (fun x y => ψ x * conj (ψ y))
      = fun x y => collapseState qs shot ψ x * conj (collapseState qs shot ψ y) := by
  funext x y
  unfold collapseDM collapseState
  by_cases h1 : Lab.idx qs x = shot <;> by_cases h2 : Lab.idx qs y = shot <;> simp [h1, h2, h0]

/-- collapse commutes with any gate acting on other qubits (the later gate "sees" the outcome
only through the qubits it touches). -/
theorem collapseState_applyGate_comm [NonUnitalNonAssocSemiring α] (qs : List Nat) (shot : Nat)
    (g : MGate α) (hd : ∀ r, r ∈ g.targets → r ∉ qs) (ψ : Lab → α) :
    collapseState qs shot (applyGate g ψ) = applyGate g (collapseState qs shot ψ) := by
  funext x
  unfold collapseState applyGate
  by_cases hc : Lab.allOne g.controls x = true
  · simp only [hc, if_true]
    have key : ∀ y : Lab, (∀ r, r ∉ g.targets → y r = x r) →
        g.mat (Lab.idx g.targets x) (Lab.idx g.targets y) * (if Lab.idx qs y = shot then ψ y else 0)
          = if Lab.idx qs x = shot then g.mat (Lab.idx g.targets x) (Lab.idx g.targets y) * ψ y else 0 := by
      intro y hy
      have : Lab.idx qs y = Lab.idx qs x :=
        Lab.idx_congr fun r hr => hy r (fun ht => hd r ht hr)
      rw [this]
      split <;> simp
    rw [sumOver_congr (g := fun y => if Lab.idx qs x = shot then
        g.mat (Lab.idx g.targets x) (Lab.idx g.targets y) * ψ y else 0) key]
    by_cases hi : Lab.idx qs x = shot
    · simp only [hi, if_true]
    · simp only [hi, if_false]
      exact (sumOver_zero _ _).symm
  · simp only [hc]
    rfl

end Collapse

end QV
