/-
  QV.Proofs.SymSound — soundness bridge from the kernel-evaluated Boolean checks of
  `QV.Core.Sym` / `QV.Core.Oblig` to statements about complex numbers.

  * `unitaryCheck_sound`, `matEqCheck_sound` : traced expression matrices
  * `SGate.smat_sound`, `prodOf_sound`, `Ob.check_sound_exact`, `Ob.check_sound_phase`,
    `Ob.check_sound` : whole obligations, w.r.t. a semantic product on `Nat → Nat → ℂ`.
-/
import QV.Core.Oblig
import QV.Proofs.SymMat

namespace QV

open Complex

/-! ## traced matrices -/

theorem unitaryCheck_sound (np : Nat) (m : List (List Ex)) (h : unitaryCheck np m = true)
    (θ : Nat → ℝ) :
    ∀ i j, i < m.length → j < m.length →
      (∑ k ∈ Finset.range m.length,
        starRingEnd ℂ (denoteEntry θ m k i) * denoteEntry θ m k j) = if i = j then 1 else 0 := by
  unfold unitaryCheck at h
  cases hn : normMat np m with
  | none => simp [hn] at h
  | some a =>
    simp only [hn] at h
    obtain ⟨hd, he⟩ := normMat_sound np m a hn θ
    intro i j hi hj
    have := SMat.isUnitary_sound (vals_good θ) (vals_unit θ) np a h i j (hd ▸ hi) (hd ▸ hj)
    rw [hd] at this
    simpa [he] using this

theorem matEqCheck_sound (np : Nat) (m d : List (List Ex)) (h : matEqCheck np m d = true)
    (θ : Nat → ℝ) :
    ∀ i j, i < m.length → j < m.length → denoteEntry θ m i j = denoteEntry θ d i j := by
  unfold matEqCheck at h
  cases hm : normMat np m with
  | none => simp [hm] at h
  | some a =>
    cases hd : normMat np d with
    | none => simp [hm, hd] at h
    | some b =>
      simp only [hm, hd] at h
      obtain ⟨hda, hea⟩ := normMat_sound np m a hm θ
      obtain ⟨_, heb⟩ := normMat_sound np d b hd θ
      intro i j hi hj
      rw [hea, heb]
      exact (SMat.eq_sound (vals_good θ) a b h).2 i j (hda ▸ hi) (hda ▸ hj)

/-- `matEqCheck` also forces the two traced matrices to have the same number of rows. -/
theorem matEqCheck_length (np : Nat) (m d : List (List Ex)) (h : matEqCheck np m d = true) :
    m.length = d.length := by
  unfold matEqCheck at h
  cases hm : normMat np m with
  | none => simp [hm] at h
  | some a =>
    cases hd : normMat np d with
    | none => simp [hm, hd] at h
    | some b =>
      simp only [hm, hd] at h
      have θ : Nat → ℝ := fun _ => 0
      rw [← (normMat_sound np m a hm θ).1, ← (normMat_sound np d b hd θ).1]
      exact (SMat.eq_sound (vals_good θ) a b h).1

/-! ## semantic matrices `Nat → Nat → ℂ` -/

/-- semantic matrices: functions on indices (only indices `< N` are meaningful). -/
abbrev CMat := Nat → Nat → ℂ

namespace CMat

def one : CMat := fun i j => if i = j then 1 else 0

/-- product of `N × N` matrices. -/
noncomputable def mul (N : Nat) (A B : CMat) : CMat :=
  fun i j => ∑ k ∈ Finset.range N, A i k * B k j

/-- conjugate transpose of the leading `d × d` block (zero elsewhere), mirroring
    `SMat.dagger`. -/
noncomputable def dagger (d : Nat) (A : CMat) : CMat :=
  fun i j => if i < d ∧ j < d then starRingEnd ℂ (A j i) else 0

/-- semantic counterpart of `SMat.embed`. -/
def embed (n : Nat) (qs : List Nat) (M : CMat) : CMat :=
  fun i j =>
    if SMat.agreeOff n qs i j then M (SMat.sub_index n qs i) (SMat.sub_index n qs j) else 0

/-- semantic counterpart of `SMat.ctrl`. -/
def ctrl (n : Nat) (cs : List Nat) (U : CMat) : CMat :=
  fun i j =>
    if cs.all (fun c => SMat.bit n c i == 1) then
      (if cs.all (fun c => SMat.bit n c j == 1) then U i j else 0)
    else if i = j then 1 else 0

theorem dagger_apply_of_lt (d : Nat) (A : CMat) {i j : Nat} (hi : i < d) (hj : j < d) :
    dagger d A i j = starRingEnd ℂ (A j i) := by
  simp [dagger, hi, hj]

/-- `A` has orthonormal columns (`A† A = 1`) as an `N × N` matrix. -/
def IsUnitary (N : Nat) (A : CMat) : Prop :=
  ∀ i j, i < N → j < N →
    (∑ k ∈ Finset.range N, starRingEnd ℂ (A k i) * A k j) = if i = j then 1 else 0

end CMat

/-- the full `2^n` semantic matrix of one traced gate (mirrors `SGate.smat`). -/
noncomputable def SGate.sem (θ : Nat → ℝ) (n : Nat) (g : SGate) : CMat :=
  let m0 : CMat := denoteEntry θ g.mat
  let m : CMat := if g.dagger then CMat.dagger g.mat.length m0 else m0
  let e : CMat := CMat.embed n g.targets m
  if g.controls.isEmpty then e else CMat.ctrl n g.controls e

/-- semantic counterpart of `prodOf`: gates applied in list order. -/
noncomputable def semProd (θ : Nat → ℝ) (n : Nat) : List SGate → CMat → CMat
  | [], acc => acc
  | g :: gs, acc => semProd θ n gs (CMat.mul (2 ^ n) (g.sem θ n) acc)

noncomputable def Ob.lsSem (o : Ob) (θ : Nat → ℝ) : CMat := semProd θ o.n o.ls CMat.one
noncomputable def Ob.rsSem (o : Ob) (θ : Nat → ℝ) : CMat := semProd θ o.n o.rs CMat.one

namespace SMat

theorem evalEntry_embed (v : Nat → ℂ) (n : Nat) (qs : List Nat) (M : SMat) (Ms : CMat)
    (hM : ∀ x y, evalEntry v M x y = Ms x y) {i j : Nat} (hi : i < 2 ^ n) (hj : j < 2 ^ n) :
    evalEntry v (embed n qs M) i j = CMat.embed n qs Ms i j := by
  unfold embed CMat.embed
  rw [evalEntry_ofFn v _ _ hi hj]
  split
  · exact hM _ _
  · simp

theorem evalEntry_ctrl (v : Nat → ℂ) (np n : Nat) (cs : List Nat) (U : SMat) (Us : CMat)
    {i j : Nat} (hi : i < 2 ^ n) (hj : j < 2 ^ n) (hU : evalEntry v U i j = Us i j) :
    evalEntry v (ctrl np n cs U) i j = CMat.ctrl n cs Us i j := by
  unfold ctrl CMat.ctrl
  rw [evalEntry_ofFn v _ _ hi hj]
  split
  · split
    · exact hU
    · simp
  · split <;> simp [Poly.eval_const]

@[simp] theorem dim_embed (n : Nat) (qs : List Nat) (M : SMat) : (embed n qs M).dim = 2 ^ n := by
  simp [embed]

@[simp] theorem dim_ctrl (np n : Nat) (cs : List Nat) (U : SMat) :
    (ctrl np n cs U).dim = 2 ^ n := by
  simp [ctrl]

end SMat

theorem SGate.smat_sound (np n : Nat) (g : SGate) (M : SMat) (h : g.smat np n = some M)
    (θ : Nat → ℝ) :
    M.dim = 2 ^ n ∧
    ∀ i j, i < 2 ^ n → j < 2 ^ n → SMat.evalEntry (vals θ) M i j = g.sem θ n i j := by
  unfold SGate.smat at h
  simp only [Option.bind_eq_bind, Option.bind_eq_some_iff, Option.pure_def,
    Option.some.injEq] at h
  obtain ⟨m0, hm0, rfl⟩ := h
  obtain ⟨hd, he⟩ := normMat_sound np g.mat m0 hm0 θ
  -- the local matrix, possibly daggered, agrees with its semantic counterpart everywhere
  have hloc : ∀ x y,
      SMat.evalEntry (vals θ) (if g.dagger then SMat.dagger m0 else m0) x y =
        (if g.dagger then CMat.dagger g.mat.length (denoteEntry θ g.mat)
          else denoteEntry θ g.mat) x y := by
    intro x y
    cases g.dagger with
    | false => simp [he]
    | true =>
      simp only [if_true]
      by_cases hxy : x < m0.dim ∧ y < m0.dim
      · rw [SMat.evalEntry_dagger (vals_unit θ) m0 hxy.1 hxy.2,
          CMat.dagger_apply_of_lt _ _ (hd ▸ hxy.1) (hd ▸ hxy.2), he]
      · have hge : m0.dim ≤ x ∨ m0.dim ≤ y := by omega
        have : ¬ (x < g.mat.length ∧ y < g.mat.length) := by rw [← hd]; exact hxy
        unfold SMat.dagger
        rw [SMat.evalEntry_ofFn_of_ge _ _ _ hge]
        simp [CMat.dagger, this]
  have hemb : ∀ i j, i < 2 ^ n → j < 2 ^ n →
      SMat.evalEntry (vals θ)
        (SMat.embed n g.targets (if g.dagger then SMat.dagger m0 else m0)) i j =
      CMat.embed n g.targets
        (if g.dagger then CMat.dagger g.mat.length (denoteEntry θ g.mat)
          else denoteEntry θ g.mat) i j :=
    fun i j hi hj => SMat.evalEntry_embed (vals θ) n g.targets _ _ hloc hi hj
  unfold SGate.sem
  cases hc : g.controls.isEmpty with
  | true =>
    simp only [if_true]
    exact ⟨SMat.dim_embed _ _ _, hemb⟩
  | false =>
    simp only [Bool.false_eq_true, if_false]
    refine ⟨SMat.dim_ctrl _ _ _ _, fun i j hi hj => ?_⟩
    exact SMat.evalEntry_ctrl (vals θ) np n g.controls _ _ hi hj (hemb i j hi hj)

theorem prodOf_sound (np n : Nat) (θ : Nat → ℝ) :
    ∀ (gs : List SGate) (acc M : SMat) (accS : CMat),
      prodOf np n gs acc = some M → acc.dim = 2 ^ n →
      (∀ i j, i < 2 ^ n → j < 2 ^ n → SMat.evalEntry (vals θ) acc i j = accS i j) →
      M.dim = 2 ^ n ∧
      ∀ i j, i < 2 ^ n → j < 2 ^ n →
        SMat.evalEntry (vals θ) M i j = semProd θ n gs accS i j
  | [], acc, M, accS, h, hd, he => by
    simp only [prodOf, Option.some.injEq] at h
    subst h
    exact ⟨hd, he⟩
  | g :: gs, acc, M, accS, h, hd, he => by
    simp only [prodOf, Option.bind_eq_bind, Option.bind_eq_some_iff] at h
    obtain ⟨m, hm, h⟩ := h
    obtain ⟨hmd, hme⟩ := SGate.smat_sound np n g m hm θ
    refine prodOf_sound np n θ gs (SMat.mul m acc) M _ h (by simp [hmd]) ?_
    intro i j hi hj
    rw [SMat.evalEntry_mul (vals_good θ) m acc (hmd ▸ hi) (hmd ▸ hj), hmd]
    unfold CMat.mul
    refine Finset.sum_congr rfl fun k hk => ?_
    have hk' := Finset.mem_range.1 hk
    rw [hme i k hi hk', he k j hk' hj]

theorem Ob.sides_sound (o : Ob) (a b : SMat) (h : o.sides = some (a, b)) (θ : Nat → ℝ) :
    (a.dim = 2 ^ o.n ∧
      ∀ i j, i < 2 ^ o.n → j < 2 ^ o.n → SMat.evalEntry (vals θ) a i j = o.lsSem θ i j) ∧
    (b.dim = 2 ^ o.n ∧
      ∀ i j, i < 2 ^ o.n → j < 2 ^ o.n → SMat.evalEntry (vals θ) b i j = o.rsSem θ i j) := by
  unfold Ob.sides at h
  simp only [Option.bind_eq_bind, Option.bind_eq_some_iff, Option.pure_def,
    Option.some.injEq, Prod.mk.injEq] at h
  obtain ⟨a', ha, b', hb, rfl, rfl⟩ := h
  have hone : ∀ i j, i < 2 ^ o.n → j < 2 ^ o.n →
      SMat.evalEntry (vals θ) (SMat.one o.np (2 ^ o.n)) i j = CMat.one i j :=
    fun i j hi hj => SMat.evalEntry_one (vals θ) o.np (2 ^ o.n) hi hj
  exact ⟨prodOf_sound o.np o.n θ o.ls _ a' CMat.one ha (by simp) hone,
         prodOf_sound o.np o.n θ o.rs _ b' CMat.one hb (by simp) hone⟩

/-! ## unitary + proportional ⇒ equal up to a unit-modulus scalar -/

theorem phase_of_unitary_propTo (N : Nat) (hN : 0 < N) (A B : CMat)
    (hA : CMat.IsUnitary N A) (hB : CMat.IsUnitary N B)
    (hp : ∀ i j k l, i < N → j < N → k < N → l < N → A i j * B k l = A k l * B i j) :
    ∃ c : ℂ, ‖c‖ = 1 ∧ ∀ i j, i < N → j < N → A i j = c * B i j := by
  -- some entry of column 0 of `B` is non-zero
  have hB00 := hB 0 0 hN hN
  simp only [if_true] at hB00
  have hex : ∃ k, k < N ∧ B k 0 ≠ 0 := by
    by_contra hne
    have hne' : ∀ k, k < N → B k 0 = 0 := fun k hk => by
      by_contra hk0
      exact hne ⟨k, hk, hk0⟩
    have : (∑ k ∈ Finset.range N, starRingEnd ℂ (B k 0) * B k 0) = 0 :=
      Finset.sum_eq_zero fun k hk => by rw [hne' k (Finset.mem_range.1 hk)]; simp
    rw [this] at hB00
    exact zero_ne_one hB00
  obtain ⟨k, hk, hbk⟩ := hex
  have hprop : ∀ i j, i < N → j < N → A i j = A k 0 / B k 0 * B i j := by
    intro i j hi hj
    have := hp i j k 0 hi hj hk hN
    field_simp
    exact this
  refine ⟨A k 0 / B k 0, ?_, hprop⟩
  have hA00 := hA 0 0 hN hN
  simp only [if_true] at hA00
  have hsum : (∑ k' ∈ Finset.range N, starRingEnd ℂ (A k' 0) * A k' 0) =
      (starRingEnd ℂ (A k 0 / B k 0) * (A k 0 / B k 0)) *
        ∑ k' ∈ Finset.range N, starRingEnd ℂ (B k' 0) * B k' 0 := by
    rw [Finset.mul_sum]
    refine Finset.sum_congr rfl fun k' hk' => ?_
    rw [hprop k' 0 (Finset.mem_range.1 hk') hN, map_mul]
    ring
  rw [hsum, hB00, mul_one, Complex.conj_mul'] at hA00
  have h2 : ‖A k 0 / B k 0‖ ^ 2 = 1 := by exact_mod_cast hA00
  have h3 : (‖A k 0 / B k 0‖ - 1) * (‖A k 0 / B k 0‖ + 1) = 0 := by nlinarith
  rcases mul_eq_zero.1 h3 with h4 | h4
  · linarith
  · have := norm_nonneg (A k 0 / B k 0); linarith

/-! ## whole obligations -/

theorem Ob.check_sound_exact (o : Ob) (hm : o.mode = .exact) (h : o.check = true)
    (θ : Nat → ℝ) :
    ∀ i j, i < 2 ^ o.n → j < 2 ^ o.n → o.lsSem θ i j = o.rsSem θ i j := by
  unfold Ob.check at h
  cases hs : o.sides with
  | none => simp [hs] at h
  | some ab =>
    obtain ⟨a, b⟩ := ab
    simp only [hs, hm] at h
    obtain ⟨⟨hda, hea⟩, ⟨_, heb⟩⟩ := Ob.sides_sound o a b hs θ
    intro i j hi hj
    rw [← hea i j hi hj, ← heb i j hi hj]
    exact (SMat.eq_sound (vals_good θ) a b h).2 i j (hda ▸ hi) (hda ▸ hj)

theorem Ob.check_sound_phase (o : Ob) (hm : o.mode = .phase) (h : o.check = true)
    (θ : Nat → ℝ) :
    CMat.IsUnitary (2 ^ o.n) (o.lsSem θ) ∧ CMat.IsUnitary (2 ^ o.n) (o.rsSem θ) ∧
    ∃ c : ℂ, ‖c‖ = 1 ∧
      ∀ i j, i < 2 ^ o.n → j < 2 ^ o.n → o.lsSem θ i j = c * o.rsSem θ i j := by
  unfold Ob.check at h
  cases hs : o.sides with
  | none => simp [hs] at h
  | some ab =>
    obtain ⟨a, b⟩ := ab
    simp only [hs, hm, Bool.and_eq_true] at h
    obtain ⟨⟨hua, hub⟩, hpr⟩ := h
    obtain ⟨⟨hda, hea⟩, ⟨hdb, heb⟩⟩ := Ob.sides_sound o a b hs θ
    have hv := vals_good θ
    have hu := vals_unit θ
    have hA : CMat.IsUnitary (2 ^ o.n) (o.lsSem θ) := by
      intro i j hi hj
      have := SMat.isUnitary_sound hv hu o.np a hua i j (hda ▸ hi) (hda ▸ hj)
      rw [hda] at this
      rw [← this]
      refine Finset.sum_congr rfl fun k hk => ?_
      have hk' := Finset.mem_range.1 hk
      rw [hea k i hk' hi, hea k j hk' hj]
    have hB : CMat.IsUnitary (2 ^ o.n) (o.rsSem θ) := by
      intro i j hi hj
      have := SMat.isUnitary_sound hv hu o.np b hub i j (hdb ▸ hi) (hdb ▸ hj)
      rw [hdb] at this
      rw [← this]
      refine Finset.sum_congr rfl fun k hk => ?_
      have hk' := Finset.mem_range.1 hk
      rw [heb k i hk' hi, heb k j hk' hj]
    refine ⟨hA, hB, phase_of_unitary_propTo (2 ^ o.n) (Nat.pos_of_ne_zero (by positivity))
      _ _ hA hB ?_⟩
    intro i j k l hi hj hk hl
    rw [← hea i j hi hj, ← hea k l hk hl, ← heb i j hi hj, ← heb k l hk hl]
    exact (SMat.propTo_sound hv a b hpr).2 i j k l (hda ▸ hi) (hda ▸ hj) (hda ▸ hk) (hda ▸ hl)

/-- combined statement: what a successful `Ob.check` means. -/
theorem Ob.check_sound (o : Ob) (h : o.check = true) (θ : Nat → ℝ) :
    match o.mode with
    | .exact => ∀ i j, i < 2 ^ o.n → j < 2 ^ o.n → o.lsSem θ i j = o.rsSem θ i j
    | .phase => ∃ c : ℂ, ‖c‖ = 1 ∧
        ∀ i j, i < 2 ^ o.n → j < 2 ^ o.n → o.lsSem θ i j = c * o.rsSem θ i j := by
  cases hm : o.mode with
  | exact => exact Ob.check_sound_exact o hm h θ
  | phase => exact (Ob.check_sound_phase o hm h θ).2.2

end QV
