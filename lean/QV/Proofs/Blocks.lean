/-
  QV.Proofs.Blocks — the block decomposition (model QV/Model/Blocks.lean of qibo's
  `transpiler/blocks.py`) only commutes gates on disjoint qubits:
    * `removeAll_eq_filter` : `list.remove` in a loop on a list of distinct objects = filter;
    * `extract_proj`        : taking out a sub-list whose projection on every qubit is a
                              prefix of the list's projection keeps all projections;
    * `succOn_spec`, `findPrev_*`, `gatesOn_*` : what the helper functions select;
    * `initialBlocks_proj`  : every qubit sees the same gate sequence in the queue and in
                              the flattened `_initial_block_decomposition`;
    * `fuseBlocks_proj`     : … and in the fused block list.
-/
import QV.Model.Blocks
import QV.Proofs.RouterDag
import Mathlib.Data.List.Nodup

set_option linter.unusedSectionVars false
set_option linter.unusedSimpArgs false
set_option linter.unusedVariables false

namespace QV.Blocks
open QV QV.Router

/-- support of a gate object. -/
def sq (g : IG) : List Nat := g.2.qs

/-! ### generic list facts -/

theorem removeAll_eq_filter {α : Type} [BEq α] [LawfulBEq α] (rm : List α) :
    ∀ (l : List α), l.Nodup → removeAll l rm = l.filter (fun g => !rm.contains g) := by
  induction rm with
  | nil => intro l _; simp [removeAll]
  | cons a rm ih =>
    intro l hnd
    have h1 : removeAll l (a :: rm) = removeAll (l.erase a) rm := by simp [removeAll]
    rw [h1, ih _ (hnd.erase a), hnd.erase_eq_filter, List.filter_filter]
    apply List.filter_congr
    intro g _
    by_cases hga : g = a <;> simp [List.contains_cons, hga, bne]

theorem proj_filter {G : Type} {supp : G → List Nat} (q : Nat) (f : G → Bool) (l : List G) :
    proj supp q (l.filter f) = (proj supp q l).filter f := by
  simp [proj, List.filter_filter, Bool.and_comm]

/-- taking out `B` (whose projection on every qubit is a prefix of the projection of `all`)
    and putting it in front keeps every projection. -/
theorem extract_proj {G : Type} [BEq G] [LawfulBEq G] {supp : G → List Nat} {all B : List G}
    (hnd : all.Nodup) (hpre : ∀ q, proj supp q B <+: proj supp q all) (q : Nat) :
    proj supp q all = proj supp q B ++ proj supp q (all.filter (fun g => !B.contains g)) := by
  obtain ⟨R, hR⟩ := hpre q
  have hndp : (proj supp q B ++ R).Nodup := by rw [hR]; exact hnd.filter _
  rw [proj_filter, ← hR, List.filter_append]
  have h2 : (proj supp q B).filter (fun g => !B.contains g) = [] := by
    rw [List.filter_eq_nil_iff]
    intro a ha
    have : a ∈ B := (mem_proj.1 ha).1
    simp [this]
  have h3 : R.filter (fun g => !B.contains g) = R := by
    rw [List.filter_eq_self]
    intro r hr
    by_contra hc
    have hrB : r ∈ B := by simpa using hc
    have hrq : q ∈ supp r := by
      have : r ∈ proj supp q all := by rw [← hR]; exact List.mem_append_right _ hr
      exact (mem_proj.1 this).2
    have hrp : r ∈ proj supp q B := mem_proj.2 ⟨hrB, hrq⟩
    exact (List.nodup_append.1 hndp).2.2 r hrp r hr rfl
  rw [h2, h3, List.nil_append]

/-! ### the helper functions -/

/-- a gate on exactly one qubit. -/
def One (g : IG) : Prop := ∃ x, g.2.qs = [x]
/-- a gate on exactly two different qubits. -/
def Two (g : IG) : Prop := ∃ a b, a ≠ b ∧ g.2.qs = [a, b]
/-- the gates the routers support. -/
def OK (g : IG) : Prop := One g ∨ Two g

theorem splitTwo_spec : ∀ (l pre rest : List IG), splitTwo l = (pre, rest) →
    l = pre ++ rest ∧ (∀ x ∈ pre, x.2.qs.length < 2) ∧
    (∀ g post, rest = g :: post → ¬ g.2.qs.length < 2) := by
  intro l
  induction l with
  | nil =>
    intro pre rest h
    simp [splitTwo] at h
    obtain ⟨rfl, rfl⟩ := h
    simp
  | cons g l ih =>
    intro pre rest h
    unfold splitTwo at h
    split at h
    · rename_i hlt
      simp only [Prod.mk.injEq] at h
      obtain ⟨rfl, rfl⟩ := h
      obtain ⟨h1, h2, h3⟩ := ih (splitTwo l).1 (splitTwo l).2 rfl
      refine ⟨by simp [← h1], ?_, h3⟩
      intro x hx
      rcases List.mem_cons.1 hx with rfl | hx
      · exact hlt
      · exact h2 x hx
    · rename_i hge
      simp only [Prod.mk.injEq] at h
      obtain ⟨rfl, rfl⟩ := h
      refine ⟨rfl, by simp, ?_⟩
      intro g' post he
      simp only [List.cons.injEq] at he
      rw [← he.1]; exact hge

theorem one_of_lt {g : IG} (h : OK g) (hlt : g.2.qs.length < 2) : One g := by
  rcases h with h | ⟨a, b, _, hq⟩
  · exact h
  · rw [hq] at hlt; simp at hlt

theorem two_of_not_lt {g : IG} (h : OK g) (hlt : ¬ g.2.qs.length < 2) : Two g := by
  rcases h with ⟨x, hq⟩ | h
  · rw [hq] at hlt; simp at hlt
  · exact h

/-- `_find_successive_gates`, one qubit: the selected gates are one-qubit gates on `x` and
    form a prefix of the gates that touch `x`. -/
theorem succOn_spec (x : Nat) : ∀ (l : List IG), (∀ g ∈ l, OK g) →
    succOn x l <+: proj sq x l ∧ ∀ g ∈ succOn x l, g.2.qs = [x] := by
  intro l
  induction l with
  | nil => intro _; simp [succOn, proj]
  | cons g rest ih =>
    intro hok
    obtain ⟨ih1, ih2⟩ := ih (fun g' hg' => hok g' (List.mem_cons_of_mem _ hg'))
    have hg := hok g (List.mem_cons_self ..)
    unfold succOn
    split
    · rename_i hc
      simp only [Bool.and_eq_true, beq_iff_eq] at hc
      have hq : g.2.qs = [x] := by
        rcases hg with ⟨y, hy⟩ | ⟨a, b, _, hy⟩
        · have : head0 g = y := by simp [head0, hy]
          rw [hy, ← this, hc.2]
        · rw [hy] at hc; simp at hc
      have hx : x ∈ sq g := by simp [sq, hq]
      rw [proj_cons_of_mem (supp := sq) _ hx]
      refine ⟨(List.prefix_cons_inj g).2 ih1, ?_⟩
      intro g' hg'
      rcases List.mem_cons.1 hg' with rfl | hg'
      · exact hq
      · exact ih2 g' hg'
    · split
      · exact ⟨List.nil_prefix, by simp⟩
      · rename_i hc1 hc2
        have hx : x ∉ sq g := by
          rcases hg with ⟨y, hy⟩ | ⟨a, b, _, hy⟩
          · have : head0 g = y := by simp [head0, hy]
            simp only [hy, this, List.length_cons, List.length_nil, Nat.zero_add, beq_self_eq_true,
              Bool.true_and, beq_iff_eq] at hc1
            simp [sq, hy]; exact fun e => hc1 e.symm
          · simp only [hy, List.length_cons, List.length_nil, Nat.zero_add, Nat.reduceAdd,
              beq_self_eq_true, Bool.true_and, Bool.not_eq_true] at hc2
            simp only [sq, hy]
            intro hm
            have : ([a, b].contains x) = true := by simpa using hm
            rw [this] at hc2; exact Bool.noConfusion hc2
        rw [proj_cons_of_not_mem (supp := sq) _ hx]
        exact ⟨ih1, ih2⟩

theorem proj_single_self {x : Nat} {l : List IG} (h : ∀ g ∈ l, g.2.qs = [x]) :
    proj sq x l = l := by
  unfold proj
  rw [List.filter_eq_self]
  intro g hg
  simp [sq, h g hg]

theorem proj_single_other {x q : Nat} (hne : q ≠ x) {l : List IG} (h : ∀ g ∈ l, g.2.qs = [x]) :
    proj sq q l = [] := by
  apply proj_eq_nil_of
  intro g hg
  simp [sq, h g hg, hne]

/-- `_find_previous_gates` in front of the first two-qubit gate `(a,b)`. -/
theorem findPrev_proj_in {a b q : Nat} (hq : q = a ∨ q = b) {pre : List IG}
    (h1 : ∀ g ∈ pre, One g) : proj sq q (findPrev pre [a, b]) = proj sq q pre := by
  unfold proj findPrev
  rw [List.filter_filter]
  apply List.filter_congr
  intro g hg
  obtain ⟨y, hy⟩ := h1 g hg
  have : head0 g = y := by simp [head0, hy]
  simp only [sq, hy, this]
  by_cases hyq : y = q
  · subst hyq; rcases hq with rfl | rfl <;> simp
  · have : ([y].contains q) = false := by simp; exact fun e => hyq e.symm
    simp [this]
    exact fun e => absurd e.symm hyq

theorem findPrev_proj_out {a b q : Nat} (hqa : q ≠ a) (hqb : q ≠ b) {pre : List IG}
    (h1 : ∀ g ∈ pre, One g) : proj sq q (findPrev pre [a, b]) = [] := by
  apply proj_eq_nil_of
  intro g hg
  unfold findPrev at hg
  rw [List.mem_filter] at hg
  obtain ⟨y, hy⟩ := h1 g hg.1
  have : head0 g = y := by simp [head0, hy]
  have hyab : y = a ∨ y = b := by simpa [this] using hg.2
  simp only [sq, hy, List.mem_cons, List.not_mem_nil, or_false]
  rcases hyab with rfl | rfl
  · exact hqa
  · exact hqb

/-- `_gates_on_qubit` on a list of one-qubit gates is the projection. -/
theorem gatesOn_eq_proj {l : List IG} (h1 : ∀ g ∈ l, One g) (x : Nat) :
    gatesOn l x = proj sq x l := by
  unfold gatesOn proj
  apply List.filter_congr
  intro g hg
  obtain ⟨y, hy⟩ := h1 g hg
  have : head0 g = y := by simp [head0, hy]
  simp only [sq, hy, this]
  by_cases hyx : y = x
  · subst hyx; simp
  · have h2 : ([y].contains x) = false := by simp; exact fun e => hyx e.symm
    have h3 : ¬ x = y := fun e => hyx e.symm
    simp [h2, hyx, h3]

theorem gatesOn_single {l : List IG} (h1 : ∀ g ∈ l, One g) (x : Nat) :
    ∀ g ∈ gatesOn l x, g.2.qs = [x] := by
  intro g hg
  unfold gatesOn at hg
  rw [List.mem_filter] at hg
  obtain ⟨y, hy⟩ := h1 g hg.1
  have : head0 g = y := by simp [head0, hy]
  have hyx : y = x := by simpa [this] using hg.2
  rw [hy, hyx]

/-! ### `_remove_gates` on lists of distinct objects -/

section Remove
variable {α : Type} [BEq α] [LawfulBEq α]

theorem removeAll_nodup {l : List α} (rm : List α) (hnd : l.Nodup) : (removeAll l rm).Nodup := by
  rw [removeAll_eq_filter _ _ hnd]; exact hnd.filter _

theorem removeAll_mem {l : List α} (rm : List α) (hnd : l.Nodup) {g : α}
    (hg : g ∈ removeAll l rm) : g ∈ l ∧ g ∉ rm := by
  rw [removeAll_eq_filter _ _ hnd, List.mem_filter] at hg
  exact ⟨hg.1, by simpa using hg.2⟩

theorem removeAll_length_le {l : List α} (rm : List α) (hnd : l.Nodup) :
    (removeAll l rm).length ≤ l.length := by
  rw [removeAll_eq_filter _ _ hnd]; exact List.length_filter_le _ _

theorem removeAll_length_lt {l rm : List α} (hnd : l.Nodup) {g : α} (hl : g ∈ l) (hr : g ∈ rm) :
    (removeAll l rm).length < l.length := by
  rw [removeAll_eq_filter _ _ hnd, List.length_filter_lt_length_iff_exists]
  exact ⟨g, hl, by simp [hr]⟩

end Remove

/-! ### `_initial_block_decomposition` -/

/-- all gate objects of a block list, in list order. -/
def flatIG (bs : List Block) : List IG := bs.flatMap (·.gates)

theorem flatIG_cons (b : Block) (bs : List Block) : flatIG (b :: bs) = b.gates ++ flatIG bs := by
  simp [flatIG]

/-- one round of the second loop: all gates on one qubit go first. -/
theorem gatesOn_step {l : List IG} (hnd : l.Nodup) (h1 : ∀ g ∈ l, One g) (x q : Nat) :
    proj sq q l = proj sq q (gatesOn l x) ++ proj sq q (removeAll l (gatesOn l x)) := by
  rw [removeAll_eq_filter _ _ hnd]
  apply extract_proj hnd
  intro q'
  by_cases hq : q' = x
  · subst hq
    rw [proj_single_self (gatesOn_single h1 q'), gatesOn_eq_proj h1]
  · rw [proj_single_other hq (gatesOn_single h1 x)]
    exact List.nil_prefix

/-- one round of the first loop: the block around the first two-qubit gate goes first. -/
theorem twoBlock_step {pre post : List IG} {g : IG} {a b : Nat} (hab : a ≠ b)
    (hg : g.2.qs = [a, b]) (hnd : (pre ++ g :: post).Nodup) (hpre : ∀ x ∈ pre, One x)
    (hpost : ∀ x ∈ post, OK x) (q : Nat) :
    proj sq q (pre ++ g :: post)
      = proj sq q (findPrev pre [a, b] ++ [g] ++ findSucc post [a, b])
        ++ proj sq q (removeAll (pre ++ g :: post)
            (findPrev pre [a, b] ++ [g] ++ findSucc post [a, b])) := by
  rw [removeAll_eq_filter _ _ hnd]
  apply extract_proj hnd
  intro q'
  have hfs : findSucc post [a, b] = succOn a post ++ succOn b post := by simp [findSucc]
  obtain ⟨hpa, hsa⟩ := succOn_spec a post hpost
  obtain ⟨hpb, hsb⟩ := succOn_spec b post hpost
  have hga : a ∈ sq g := by simp [sq, hg]
  have hgb : b ∈ sq g := by simp [sq, hg]
  rw [hfs]
  simp only [proj_append]
  by_cases hqa : q' = a
  · subst hqa
    rw [findPrev_proj_in (Or.inl rfl) hpre, proj_single_self hsa, proj_single_other hab hsb,
      proj_cons_of_mem (supp := sq) _ hga, proj_cons_of_mem (supp := sq) _ hga, proj_nil,
      List.append_nil, List.append_assoc]
    apply (List.prefix_append_right_inj _).2
    exact (List.prefix_cons_inj g).2 hpa
  · by_cases hqb : q' = b
    · subst hqb
      rw [findPrev_proj_in (Or.inr rfl) hpre, proj_single_self hsb,
        proj_single_other (Ne.symm hab) hsa,
        proj_cons_of_mem (supp := sq) _ hgb, proj_cons_of_mem (supp := sq) _ hgb, proj_nil,
        List.nil_append, List.append_assoc]
      apply (List.prefix_append_right_inj _).2
      exact (List.prefix_cons_inj g).2 hpb
    · have hgq : q' ∉ sq g := by simp [sq, hg, hqa, hqb]
      rw [findPrev_proj_out hqa hqb hpre, proj_single_other hqa hsa, proj_single_other hqb hsb,
        proj_cons_of_not_mem (supp := sq) _ hgq, proj_nil]
      exact List.nil_prefix

/-- **`_initial_block_decomposition` keeps every per-qubit gate sequence.** -/
theorem initialBlocks_proj (n : Nat) : ∀ (fuel bid : Nat) (all : List IG) (bs : List Block),
    all.Nodup → (∀ g ∈ all, OK g) → all.length < fuel →
    initialBlocks n fuel bid all = some bs → ∀ q, proj sq q all = proj sq q (flatIG bs) := by
  intro fuel
  induction fuel with
  | zero => intro bid all bs _ _ hl; exact absurd hl (Nat.not_lt_zero _)
  | succ fuel ih =>
    intro bid all bs hnd hok hl h q
    unfold initialBlocks at h
    rcases hs : splitTwo all with ⟨pre, rest⟩
    obtain ⟨hall, hpre, hrest⟩ := splitTwo_spec all pre rest hs
    rw [hs] at h
    cases rest with
    | cons g post =>
      simp only at h
      have hgall : g ∈ all := by rw [hall]; simp
      obtain ⟨a, b, hab, hg⟩ := two_of_not_lt (hok g hgall) (hrest g post rfl)
      have hlen : (g.2.qs.length == 2) = true := by simp [hg]
      rw [if_pos hlen] at h
      have hpre1 : ∀ x ∈ pre, One x := fun x hx =>
        one_of_lt (hok x (by rw [hall]; exact List.mem_append_left _ hx)) (hpre x hx)
      have hpost : ∀ x ∈ post, OK x := fun x hx =>
        hok x (by rw [hall]; exact List.mem_append_right _ (List.mem_cons_of_mem _ hx))
      cases hrec : initialBlocks n fuel (bid + 1)
          (removeAll all (findPrev pre g.2.qs ++ [g] ++ findSucc post g.2.qs)) with
      | none => rw [hrec] at h; simp at h
      | some bs' =>
        rw [hrec] at h
        simp only [Option.map_some, Option.some.injEq] at h
        subst h
        have hB : g ∈ findPrev pre g.2.qs ++ [g] ++ findSucc post g.2.qs := by simp
        have hlt := removeAll_length_lt hnd hgall hB
        have hih := ih (bid + 1) _ bs' (removeAll_nodup _ hnd)
          (fun x hx => hok x (removeAll_mem _ hnd hx).1) (by omega) hrec q
        rw [flatIG_cons, proj_append, ← hih]
        simp only
        have hstep := twoBlock_step hab hg (hall ▸ hnd) hpre1 hpost q
        rw [← hall, ← hg] at hstep
        exact hstep
    | nil =>
      simp only at h
      have hall' : all = pre := by rw [hall]; simp
      have h1 : ∀ x ∈ all, One x := fun x hx =>
        one_of_lt (hok x hx) (hpre x (hall' ▸ hx))
      cases hcase : all with
      | nil =>
        rw [hcase] at h
        simp only [Option.some.injEq] at h
        subst h
        rfl
      | cons g0 t =>
        rw [← hcase]
        rw [hcase] at h
        simp only at h
        rw [← hcase] at h
        have hg0 : g0 ∈ all := by rw [hcase]; exact List.mem_cons_self ..
        have hg0b : g0 ∈ gatesOn all (head0 g0) := by
          unfold gatesOn; rw [List.mem_filter]; exact ⟨hg0, by simp⟩
        have hlt1 := removeAll_length_lt hnd hg0 hg0b
        have hnd1 := removeAll_nodup (gatesOn all (head0 g0)) hnd
        have h11 : ∀ x ∈ removeAll all (gatesOn all (head0 g0)), One x := fun x hx =>
          h1 x (removeAll_mem _ hnd hx).1
        have hstep1 := gatesOn_step hnd h1 (head0 g0) q
        cases hcase1 : removeAll all (gatesOn all (head0 g0)) with
        | nil =>
          rw [hcase1] at h
          simp only [Option.some.injEq] at h
          subst h
          rw [hcase1] at hstep1
          rw [flatIG_cons]
          simpa [flatIG, proj_nil] using hstep1
        | cons h0 t1 =>
          rw [hcase1] at h
          simp only at h
          rw [← hcase1] at h
          cases hrec : initialBlocks n fuel (bid + 1)
              (removeAll (removeAll all (gatesOn all (head0 g0)))
                (gatesOn (removeAll all (gatesOn all (head0 g0))) (head0 h0))) with
          | none => rw [hrec] at h; simp at h
          | some bs' =>
            rw [hrec] at h
            simp only [Option.map_some, Option.some.injEq] at h
            subst h
            have hle2 := removeAll_length_le
              (gatesOn (removeAll all (gatesOn all (head0 g0))) (head0 h0)) hnd1
            have hih := ih (bid + 1) _ bs' (removeAll_nodup _ hnd1)
              (fun x hx => Or.inl (h11 x (removeAll_mem _ hnd1 hx).1)) (by omega) hrec q
            have hstep2 := gatesOn_step hnd1 h11 (head0 h0) q
            rw [flatIG_cons, proj_append, ← hih]
            simp only [proj_append]
            rw [hstep1, hstep2, List.append_assoc]

/-! ### shape of the initial blocks -/

theorem mem_insertSorted (x q : Nat) : ∀ l : List Nat, q ∈ insertSorted x l ↔ q = x ∨ q ∈ l
  | [] => by simp [insertSorted]
  | y :: ys => by
    unfold insertSorted
    split
    · simp
    · simp only [List.mem_cons, mem_insertSorted x q ys]
      constructor
      · rintro (h | h | h)
        · exact Or.inr (Or.inl h)
        · exact Or.inl h
        · exact Or.inr (Or.inr h)
      · rintro (h | h | h)
        · exact Or.inr (Or.inl h)
        · exact Or.inl h
        · exact Or.inr (Or.inr h)

theorem mem_sortNat (q : Nat) : ∀ l : List Nat, q ∈ sortNat l ↔ q ∈ l
  | [] => by simp [sortNat]
  | x :: xs => by
    have : sortNat (x :: xs) = insertSorted x (sortNat xs) := rfl
    rw [this, mem_insertSorted, mem_sortNat q xs]; simp

/-- every gate of a block acts inside the block's qubits. -/
def Inside (L : List Block) : Prop := ∀ b ∈ L, ∀ g ∈ b.gates, ∀ q ∈ sq g, q ∈ b.sortedQubits

theorem initialBlocks_shape (n : Nat) : ∀ (fuel bid : Nat) (all : List IG) (bs : List Block),
    all.Nodup → (∀ g ∈ all, OK g) →
    initialBlocks n fuel bid all = some bs →
    Inside bs ∧ bs.map (·.id) = List.range' bid bs.length ∧
    (∀ b ∈ bs, ∀ g ∈ b.gates, g ∈ all) := by
  intro fuel
  induction fuel with
  | zero =>
    intro bid all bs _ _ h
    simp [initialBlocks] at h; subst h
    exact ⟨by intro b hb; simp at hb, by simp, by simp⟩
  | succ fuel ih =>
    intro bid all bs hnd hok h
    unfold initialBlocks at h
    rcases hs : splitTwo all with ⟨pre, rest⟩
    obtain ⟨hall, hpre, hrest⟩ := splitTwo_spec all pre rest hs
    rw [hs] at h
    cases rest with
    | cons g post =>
      simp only at h
      have hgall : g ∈ all := by rw [hall]; simp
      obtain ⟨a, b, hab, hg⟩ := two_of_not_lt (hok g hgall) (hrest g post rfl)
      have hlen : (g.2.qs.length == 2) = true := by simp [hg]
      rw [if_pos hlen] at h
      have hpre1 : ∀ x ∈ pre, One x := fun x hx =>
        one_of_lt (hok x (by rw [hall]; exact List.mem_append_left _ hx)) (hpre x hx)
      have hpost : ∀ x ∈ post, OK x := fun x hx =>
        hok x (by rw [hall]; exact List.mem_append_right _ (List.mem_cons_of_mem _ hx))
      cases hrec : initialBlocks n fuel (bid + 1)
          (removeAll all (findPrev pre g.2.qs ++ [g] ++ findSucc post g.2.qs)) with
      | none => rw [hrec] at h; simp at h
      | some bs' =>
        rw [hrec] at h
        simp only [Option.map_some, Option.some.injEq] at h
        subst h
        obtain ⟨hin, hid, hmem⟩ := ih (bid + 1) _ bs' (removeAll_nodup _ hnd)
          (fun x hx => hok x (removeAll_mem _ hnd hx).1) hrec
        refine ⟨?_, ?_, ?_⟩
        · intro blk hblk
          rcases List.mem_cons.1 hblk with rfl | hblk
          · intro x hx q hq
            simp only [Block.sortedQubits, mem_sortNat, hg]
            simp only [hg, List.mem_append, List.mem_singleton] at hx
            rcases hx with (hx | rfl) | hx
            · unfold findPrev at hx
              rw [List.mem_filter] at hx
              obtain ⟨y, hy⟩ := hpre1 x hx.1
              have : head0 x = y := by simp [head0, hy]
              have hyab : y = a ∨ y = b := by simpa [this] using hx.2
              simp only [sq, hy, List.mem_singleton] at hq
              subst hq
              simpa using hyab
            · simpa [sq, hg] using hq
            · have hfs : findSucc post [a, b] = succOn a post ++ succOn b post := by simp [findSucc]
              rw [hfs, List.mem_append] at hx
              rcases hx with hx | hx
              · have := (succOn_spec a post hpost).2 x hx
                simp only [sq, this, List.mem_singleton] at hq
                simp [hq]
              · have := (succOn_spec b post hpost).2 x hx
                simp only [sq, this, List.mem_singleton] at hq
                simp [hq]
          · exact hin blk hblk
        · simp only [List.map_cons, List.length_cons, hid, List.range'_succ]
        · intro blk hblk x hx
          rcases List.mem_cons.1 hblk with rfl | hblk
          · simp only [List.mem_append, List.mem_singleton] at hx
            rw [hall]
            rcases hx with (hx | rfl) | hx
            · unfold findPrev at hx
              exact List.mem_append_left _ (List.mem_filter.1 hx).1
            · simp
            · apply List.mem_append_right _ (List.mem_cons_of_mem _ _)
              rw [hg] at hx
              have hfs : findSucc post [a, b] = succOn a post ++ succOn b post := by simp [findSucc]
              rw [hfs, List.mem_append] at hx
              rcases hx with hx | hx
              · exact (mem_proj.1 ((succOn_spec a post hpost).1.subset hx)).1
              · exact (mem_proj.1 ((succOn_spec b post hpost).1.subset hx)).1
          · exact (removeAll_mem _ hnd (hmem blk hblk x hx)).1
    | nil =>
      simp only at h
      have hall' : all = pre := by rw [hall]; simp
      have h1 : ∀ x ∈ all, One x := fun x hx =>
        one_of_lt (hok x hx) (hpre x (hall' ▸ hx))
      cases hcase : all with
      | nil =>
        rw [hcase] at h
        simp only [Option.some.injEq] at h
        subst h
        exact ⟨by intro b hb; simp at hb, by simp, by simp⟩
      | cons g0 t =>
        rw [hcase] at h
        simp only at h
        rw [← hcase] at h
        have hnd1 := removeAll_nodup (gatesOn all (head0 g0)) hnd
        have h11 : ∀ x ∈ removeAll all (gatesOn all (head0 g0)), One x := fun x hx =>
          h1 x (removeAll_mem _ hnd hx).1
        cases hcase1 : removeAll all (gatesOn all (head0 g0)) with
        | nil =>
          rw [hcase1] at h
          simp only [Option.some.injEq] at h
          subst h
          refine ⟨?_, by simp, ?_⟩
          · intro blk hblk
            simp only [List.mem_singleton] at hblk
            subst hblk
            intro x hx q hq
            have := gatesOn_single h1 (head0 g0) x hx
            simp only [sq, this, List.mem_singleton] at hq
            simp [Block.sortedQubits, mem_sortNat, hq]
          · intro blk hblk x hx
            simp only [List.mem_singleton] at hblk
            subst hblk
            rw [← hcase]
            unfold gatesOn at hx
            exact (List.mem_filter.1 hx).1
        | cons h0 t1 =>
          rw [hcase1] at h
          simp only at h
          rw [← hcase1] at h
          cases hrec : initialBlocks n fuel (bid + 1)
              (removeAll (removeAll all (gatesOn all (head0 g0)))
                (gatesOn (removeAll all (gatesOn all (head0 g0))) (head0 h0))) with
          | none => rw [hrec] at h; simp at h
          | some bs' =>
            rw [hrec] at h
            simp only [Option.map_some, Option.some.injEq] at h
            subst h
            obtain ⟨hin, hid, hmem⟩ := ih (bid + 1) _ bs' (removeAll_nodup _ hnd1)
              (fun x hx => Or.inl (h11 x (removeAll_mem _ hnd1 hx).1)) hrec
            refine ⟨?_, ?_, ?_⟩
            · intro blk hblk
              rcases List.mem_cons.1 hblk with rfl | hblk
              · intro x hx q hq
                simp only [List.mem_append] at hx
                simp only [Block.sortedQubits, mem_sortNat]
                rcases hx with hx | hx
                · have := gatesOn_single h1 (head0 g0) x hx
                  simp only [sq, this, List.mem_singleton] at hq
                  simp [hq]
                · have := gatesOn_single h11 (head0 h0) x hx
                  simp only [sq, this, List.mem_singleton] at hq
                  simp [hq]
              · exact hin blk hblk
            · simp only [List.map_cons, List.length_cons, hid, List.range'_succ]
            · intro blk hblk x hx
              rw [← hcase]
              rcases List.mem_cons.1 hblk with rfl | hblk
              · simp only [List.mem_append] at hx
                rcases hx with hx | hx
                · unfold gatesOn at hx
                  exact (List.mem_filter.1 hx).1
                · unfold gatesOn at hx
                  exact (removeAll_mem _ hnd (List.mem_filter.1 hx).1).1
              · exact (removeAll_mem _ hnd (removeAll_mem _ hnd1 (hmem blk hblk x hx)).1).1

/-! ### `block_decomposition(fuse=True)` -/

/-- support of a block: its (sorted) qubits. -/
def sb (b : Block) : List Nat := b.sortedQubits

/-- gate-level projection of a block list through the block-level projection. -/
theorem proj_flatIG (q : Nat) : ∀ (L : List Block), Inside L →
    proj sq q (flatIG L) = (proj sb q L).flatMap (fun b => proj sq q b.gates) := by
  intro L
  induction L with
  | nil => intro _; rfl
  | cons b L ih =>
    intro hin
    have hin' : Inside L := fun b' hb' => hin b' (List.mem_cons_of_mem _ hb')
    rw [flatIG_cons, proj_append, ih hin']
    by_cases hq : q ∈ sb b
    · rw [proj_cons_of_mem (supp := sb) _ hq]; simp
    · rw [proj_cons_of_not_mem (supp := sb) _ hq]
      have : proj sq q b.gates = [] := by
        apply proj_eq_nil_of
        intro g hg hqg
        exact hq (hin b (List.mem_cons_self ..) g hg q hqg)
      rw [this, List.nil_append]

theorem commuteQ_spec {a b : List Nat} (h : commuteQ a b = true) : ∀ q, q ∈ a → q ∉ b := by
  intro q hq
  simp only [commuteQ, List.all_eq_true, Bool.not_eq_true', List.contains_eq_mem,
    decide_eq_false_iff_not] at h
  exact h q hq

/-- the scan over the later blocks. -/
theorem fuseScan_spec (fq : List Nat) : ∀ (rest : List Block),
    (fuseScan fq rest).1 = flatIG (fuseScan fq rest).2 ∧
    (∀ c ∈ (fuseScan fq rest).2, sb c = fq) ∧
    (∀ q ∈ fq, proj sb q (fuseScan fq rest).2 <+: proj sb q rest) ∧
    (∀ c ∈ (fuseScan fq rest).2, c ∈ rest) := by
  intro rest
  induction rest with
  | nil => simp [fuseScan, flatIG, proj]
  | cons b rest ih =>
    obtain ⟨ih1, ih2, ih3, ih4⟩ := ih
    unfold fuseScan
    split
    · rename_i hsame
      have hsame' : sb b = fq := by simpa [sb] using hsame
      simp only
      refine ⟨by rw [flatIG_cons, ih1], ?_, ?_, ?_⟩
      · intro c hc
        rcases List.mem_cons.1 hc with rfl | hc
        · exact hsame'
        · exact ih2 c hc
      · intro q hq
        have hqb : q ∈ sb b := by rw [hsame']; exact hq
        rw [proj_cons_of_mem (supp := sb) _ hqb, proj_cons_of_mem (supp := sb) _ hqb]
        exact (List.prefix_cons_inj b).2 (ih3 q hq)
      · intro c hc
        rcases List.mem_cons.1 hc with rfl | hc
        · exact List.mem_cons_self ..
        · exact List.mem_cons_of_mem _ (ih4 c hc)
    · split
      · exact ⟨rfl, by simp, fun q _ => by simp [proj], by simp⟩
      · rename_i hns hc
        have hc' : commuteQ fq b.sortedQubits = true := by simpa using hc
        refine ⟨ih1, ih2, ?_, fun c hc => List.mem_cons_of_mem _ (ih4 c hc)⟩
        intro q hq
        have hqb : q ∉ sb b := commuteQ_spec hc' q hq
        rw [proj_cons_of_not_mem (supp := sb) _ hqb]
        exact ih3 q hq

theorem flatIG_append (A B : List Block) : flatIG (A ++ B) = flatIG A ++ flatIG B := by
  simp [flatIG]

/-- **fusing blocks keeps every per-qubit gate sequence.** -/
theorem fuseBlocks_proj : ∀ (fuel : Nat) (L : List Block), L.Nodup → Inside L → L.length < fuel →
    ∀ q, proj sq q (flatIG L) = proj sq q (flatIG (fuseBlocks fuel L)) := by
  intro fuel
  induction fuel with
  | zero => intro L _ _ hl; exact absurd hl (Nat.not_lt_zero _)
  | succ fuel ih =>
    intro L hnd hin hl q
    cases L with
    | nil => simp [fuseBlocks]
    | cons first rest =>
      unfold fuseBlocks
      simp only
      obtain ⟨hs1, hs2, hs3, hs4⟩ := fuseScan_spec first.sortedQubits rest
      -- block level: first :: C goes in front
      have hpre : ∀ q', proj sb q' (first :: (fuseScan first.sortedQubits rest).2)
          <+: proj sb q' (first :: rest) := by
        intro q'
        by_cases hq' : q' ∈ sb first
        · rw [proj_cons_of_mem (supp := sb) _ hq', proj_cons_of_mem (supp := sb) _ hq']
          exact (List.prefix_cons_inj first).2 (hs3 q' hq')
        · rw [proj_cons_of_not_mem (supp := sb) _ hq']
          have : proj sb q' (fuseScan first.sortedQubits rest).2 = [] := by
            apply proj_eq_nil_of
            intro c hc
            rw [hs2 c hc]; exact hq'
          rw [this]; exact List.nil_prefix
      have hblock := extract_proj hnd hpre q
      rw [← removeAll_eq_filter _ _ hnd, ← proj_append] at hblock
      have hmemR : ∀ x ∈ removeAll (first :: rest) (first :: (fuseScan first.sortedQubits rest).2),
          x ∈ first :: rest := fun x hx => (removeAll_mem _ hnd hx).1
      have hinR : Inside (removeAll (first :: rest) (first :: (fuseScan first.sortedQubits rest).2)) :=
        fun b hb => hin b (hmemR b hb)
      have hin2 : Inside ((first :: (fuseScan first.sortedQubits rest).2) ++
          removeAll (first :: rest) (first :: (fuseScan first.sortedQubits rest).2)) := by
        intro b hb
        rcases List.mem_append.1 hb with hb | hb
        · rcases List.mem_cons.1 hb with rfl | hb
          · exact hin _ (List.mem_cons_self ..)
          · exact hin b (List.mem_cons_of_mem _ (hs4 b hb))
        · exact hinR b hb
      have hlt : (removeAll (first :: rest) (first :: (fuseScan first.sortedQubits rest).2)).length
          < (first :: rest).length :=
        removeAll_length_lt hnd (List.mem_cons_self ..) (List.mem_cons_self ..)
      have hih := ih _ (removeAll_nodup _ hnd) hinR (by omega) q
      rw [proj_flatIG q _ hin, hblock, ← proj_flatIG q _ hin2, flatIG_append, flatIG_cons,
        flatIG_cons, proj_append, hih, ← hs1, proj_append]
      simp only [proj_append]

theorem mem_flatIG {x : IG} {L : List Block} : x ∈ flatIG L ↔ ∃ b ∈ L, x ∈ b.gates := by
  simp [flatIG, List.mem_flatMap]

/-- fusing neither invents nor (by `fuseBlocks_proj`) loses gate objects. -/
theorem fuseBlocks_mem : ∀ (fuel : Nat) (L : List Block), L.Nodup →
    ∀ x ∈ flatIG (fuseBlocks fuel L), x ∈ flatIG L := by
  intro fuel
  induction fuel with
  | zero => intro L _ x hx; simp [fuseBlocks, flatIG] at hx
  | succ fuel ih =>
    intro L hnd x hx
    cases L with
    | nil => simp [fuseBlocks, flatIG] at hx
    | cons first rest =>
      unfold fuseBlocks at hx
      simp only at hx
      obtain ⟨hs1, _, _, hs4⟩ := fuseScan_spec first.sortedQubits rest
      rw [flatIG_cons] at hx
      simp only at hx
      rw [flatIG_cons]
      rcases List.mem_append.1 hx with hx | hx
      · rcases List.mem_append.1 hx with hx | hx
        · exact List.mem_append_left _ hx
        · rw [hs1, mem_flatIG] at hx
          obtain ⟨c, hc, hxc⟩ := hx
          exact List.mem_append_right _ (mem_flatIG.2 ⟨c, hs4 c hc, hxc⟩)
      · have := ih _ (removeAll_nodup _ hnd) x hx
        obtain ⟨c, hc, hxc⟩ := mem_flatIG.1 this
        have hcL := (removeAll_mem _ hnd hc).1
        rcases List.mem_cons.1 hcL with rfl | hcr
        · exact List.mem_append_left _ hxc
        · exact List.mem_append_right _ (mem_flatIG.2 ⟨c, hcr, hxc⟩)

theorem fuseBlocks_inside : ∀ (fuel : Nat) (L : List Block), L.Nodup → Inside L →
    Inside (fuseBlocks fuel L) := by
  intro fuel
  induction fuel with
  | zero => intro L _ _ b hb; simp [fuseBlocks] at hb
  | succ fuel ih =>
    intro L hnd hin
    cases L with
    | nil => intro b hb; simp [fuseBlocks] at hb
    | cons first rest =>
      unfold fuseBlocks
      simp only
      obtain ⟨hs1, hs2, _, hs4⟩ := fuseScan_spec first.sortedQubits rest
      intro b hb
      rcases List.mem_cons.1 hb with rfl | hb
      · intro x hx q hqx
        simp only [Block.sortedQubits, mem_sortNat]
        simp only [List.mem_append] at hx
        rcases hx with hx | hx
        · have := hin first (List.mem_cons_self ..) x hx q hqx
          simpa [Block.sortedQubits, mem_sortNat] using this
        · rw [hs1, mem_flatIG] at hx
          obtain ⟨c, hc, hxc⟩ := hx
          have h1 := hin c (List.mem_cons_of_mem _ (hs4 c hc)) x hxc q hqx
          have h2 := hs2 c hc
          simp only [sb] at h2
          rw [h2] at h1
          simpa [Block.sortedQubits, mem_sortNat] using h1
      · exact ih _ (removeAll_nodup _ hnd)
          (fun b' hb' => hin b' (removeAll_mem _ hnd hb').1) b hb

/-- `_initial_block_decomposition` does not raise on supported gates. -/
theorem initialBlocks_some (n : Nat) : ∀ (fuel bid : Nat) (all : List IG),
    all.Nodup → (∀ g ∈ all, OK g) → ∃ bs, initialBlocks n fuel bid all = some bs := by
  intro fuel
  induction fuel with
  | zero => intro bid all _ _; exact ⟨[], rfl⟩
  | succ fuel ih =>
    intro bid all hnd hok
    unfold initialBlocks
    rcases hs : splitTwo all with ⟨pre, rest⟩
    obtain ⟨hall, hpre, hrest⟩ := splitTwo_spec all pre rest hs
    cases rest with
    | cons g post =>
      simp only
      have hgall : g ∈ all := by rw [hall]; simp
      obtain ⟨a, b, hab, hg⟩ := two_of_not_lt (hok g hgall) (hrest g post rfl)
      have hlen : (g.2.qs.length == 2) = true := by simp [hg]
      rw [if_pos hlen]
      obtain ⟨bs', hbs'⟩ := ih (bid + 1)
        (removeAll all (findPrev pre g.2.qs ++ [g] ++ findSucc post g.2.qs))
        (removeAll_nodup _ hnd) (fun x hx => hok x (removeAll_mem _ hnd hx).1)
      rw [hbs']
      exact ⟨_, rfl⟩
    | nil =>
      simp only
      have hall' : all = pre := by rw [hall]; simp
      have h1 : ∀ x ∈ all, One x := fun x hx =>
        one_of_lt (hok x hx) (hpre x (hall' ▸ hx))
      cases hcase : all with
      | nil => exact ⟨[], rfl⟩
      | cons g0 t =>
        simp only
        rw [← hcase]
        have hnd1 := removeAll_nodup (gatesOn all (head0 g0)) hnd
        cases hcase1 : removeAll all (gatesOn all (head0 g0)) with
        | nil => exact ⟨_, rfl⟩
        | cons h0 t1 =>
          simp only
          rw [← hcase1]
          obtain ⟨bs', hbs'⟩ := ih (bid + 1)
            (removeAll (removeAll all (gatesOn all (head0 g0)))
              (gatesOn (removeAll all (gatesOn all (head0 g0))) (head0 h0)))
            (removeAll_nodup _ hnd1)
            (fun x hx => Or.inl (h1 x (removeAll_mem _ hnd (removeAll_mem _ hnd1 hx).1).1))
          rw [hbs']
          exact ⟨_, rfl⟩

/-! ### the whole `block_decomposition` -/

theorem withIds_nodup (queue : List RGate) : (withIds queue).Nodup := by
  apply List.Nodup.of_map Prod.fst
  rw [withIds, List.map_fst_zip (by simp)]
  exact List.nodup_range

theorem withIds_snd (queue : List RGate) : (withIds queue).map Prod.snd = queue := by
  rw [withIds, List.map_snd_zip (by simp)]

theorem proj_map_snd (q : Nat) (l : List IG) :
    proj RGate.qs q (l.map Prod.snd) = (proj sq q l).map Prod.snd := by
  simp only [proj, List.filter_map]
  rfl

theorem flatGates_eq (bs : List Block) : flatGates bs = (flatIG bs).map Prod.snd := by
  simp [flatGates, flatIG, List.map_flatMap, List.flatMap_def, Function.comp_def]

/-- gates the block decomposition accepts: measurements on any non-empty set of qubits (they
    are split), other gates on one qubit or on two different qubits. -/
def Supported (g : RGate) : Prop :=
  (g.meas = true ∧ g.qs ≠ []) ∨ (∃ x, g.qs = [x]) ∨ (∃ a b, a ≠ b ∧ g.qs = [a, b])

theorem splitMeas_ok {queue : List RGate} (h : ∀ g ∈ queue, Supported g) :
    ∀ g ∈ splitMeas queue, (∃ x, g.qs = [x]) ∨ (∃ a b, a ≠ b ∧ g.qs = [a, b]) := by
  intro g hg
  unfold splitMeas at hg
  rw [List.mem_flatMap] at hg
  obtain ⟨g0, hg0, hgm⟩ := hg
  split at hgm
  · rw [List.mem_map] at hgm
    obtain ⟨q, _, rfl⟩ := hgm
    exact Or.inl ⟨q, rfl⟩
  · rename_i hc
    simp only [List.mem_singleton] at hgm
    subst hgm
    rcases h g hg0 with ⟨hm, hne⟩ | h' | h'
    · simp only [hm, Bool.true_and, decide_eq_true_eq, Nat.not_lt] at hc
      left
      rcases hq : g.qs with _ | ⟨x, _ | ⟨y, t⟩⟩
      · exact absurd hq hne
      · exact ⟨x, rfl⟩
      · rw [hq] at hc; simp at hc
    · exact Or.inl h'
    · exact Or.inr h'

/-- **Every qubit sees the same gate sequence in the (split) queue and in the flattened
    block decomposition**, with and without fusion. -/
theorem blockDecomposition_proj (n : Nat) (fuse : Bool) (queue : List RGate) (bs : List Block)
    (hq : ∀ g ∈ queue, Supported g) (h : blockDecomposition n fuse queue = some bs) :
    (∀ q, proj RGate.qs q (splitMeas queue) = proj RGate.qs q (flatGates bs)) ∧
    (∀ g ∈ flatGates bs, g ∈ splitMeas queue) ∧ Inside bs := by
  unfold blockDecomposition at h
  split at h
  · simp at h
  · simp only at h
    have hnd := withIds_nodup (splitMeas queue)
    have hok : ∀ g ∈ withIds (splitMeas queue), OK g := by
      intro g hg
      have : g.2 ∈ splitMeas queue := by
        rw [← withIds_snd (splitMeas queue)]; exact List.mem_map_of_mem hg
      exact splitMeas_ok hq g.2 this
    cases hib : initialBlocks n ((withIds (splitMeas queue)).length + 1) 0
        (withIds (splitMeas queue)) with
    | none => rw [hib] at h; simp at h
    | some ib =>
      rw [hib] at h
      simp only [Option.some.injEq] at h
      have hp := initialBlocks_proj n _ 0 _ ib hnd hok (Nat.lt_succ_self _) hib
      obtain ⟨hin, hid, hmem⟩ := initialBlocks_shape n _ 0 _ ib hnd hok hib
      have hibnd : ib.Nodup := by
        apply List.Nodup.of_map (·.id)
        rw [hid]; exact List.nodup_range'
      have hsnd : ∀ x ∈ flatIG ib, x.2 ∈ splitMeas queue := by
        intro x hx
        obtain ⟨b, hb, hxb⟩ := mem_flatIG.1 hx
        rw [← withIds_snd (splitMeas queue)]
        exact List.mem_map_of_mem (hmem b hb x hxb)
      cases fuse with
      | false =>
        simp only [Bool.false_eq_true, if_false] at h
        subst h
        refine ⟨?_, ?_, hin⟩
        · intro q
          rw [flatGates_eq, proj_map_snd, ← hp q, ← proj_map_snd, withIds_snd]
        · intro g hg
          rw [flatGates_eq, List.mem_map] at hg
          obtain ⟨x, hx, rfl⟩ := hg
          exact hsnd x hx
      | true =>
        simp only [if_true] at h
        subst h
        have hf := fuseBlocks_proj (ib.length + 1) ib hibnd hin (Nat.lt_succ_self _)
        refine ⟨?_, ?_, ?_⟩
        · intro q
          rw [flatGates_eq, proj_map_snd, ← hf q, ← hp q, ← proj_map_snd, withIds_snd]
        · intro g hg
          rw [flatGates_eq, List.mem_map] at hg
          obtain ⟨x, hx, rfl⟩ := hg
          exact hsnd x (fuseBlocks_mem _ ib hibnd x hx)
        · exact fuseBlocks_inside _ ib hibnd hin

/-- `block_decomposition` returns (does not raise) on at least two qubits and supported gates. -/
theorem blockDecomposition_some (n : Nat) (fuse : Bool) (queue : List RGate) (hn : 2 ≤ n)
    (hq : ∀ g ∈ queue, Supported g) : ∃ bs, blockDecomposition n fuse queue = some bs := by
  unfold blockDecomposition
  rw [if_neg (by omega)]
  simp only
  have hnd := withIds_nodup (splitMeas queue)
  have hok : ∀ g ∈ withIds (splitMeas queue), OK g := by
    intro g hg
    have : g.2 ∈ splitMeas queue := by
      rw [← withIds_snd (splitMeas queue)]; exact List.mem_map_of_mem hg
    exact splitMeas_ok hq g.2 this
  obtain ⟨ib, hib⟩ := initialBlocks_some n ((withIds (splitMeas queue)).length + 1) 0 _ hnd hok
  rw [hib]
  exact ⟨_, rfl⟩

end QV.Blocks
