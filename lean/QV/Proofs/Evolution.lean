/-
  QV.Proofs.Evolution — lemmas about the time-evolution model (QV/Model/Evolution.lean):
  term grouping (`fromTerms`), merging (`HTerm.merge`, `TGroup.toTerm`) and the symmetric
  Trotter queue (`trotterGates`), over an arbitrary commutative (semi)ring.

  Main results
    * `orderTerms_perm`, `orderTerms_sorted`     : the visiting order is a stable-sort permutation
    * `fromTerms_members_perm`                   : the groups partition the term list
    * `fromTerms_good`                           : every group is a parent followed by terms on
                                                   subsets of the parent's qubits, and the group's
                                                   qubit set is the parent's
    * `applyGate_merge`                          : merged term acts as the sum
    * `applyGate_toTerm`                         : `to_term(coefficients)` acts as the weighted sum
    * `trotterGates_reverse`, `runCircuit_trotter_inverse`
-/
import QV.Proofs.SimLemmas
import QV.Proofs.FusedMat
import QV.Model.Evolution

namespace QV
namespace Evo

open Finset

variable {α : Type}

/-! ### visiting order -/

theorem insertByArity_perm (t : HTerm α) (l : List (HTerm α)) :
    (insertByArity t l).Perm (t :: l) := by
  induction l with
  | nil => exact List.Perm.refl _
  | cons u us ih =>
    unfold insertByArity
    split
    · exact List.Perm.refl _
    · exact (List.Perm.cons u ih).trans (List.Perm.swap t u us)

theorem orderTerms_perm (ts : List (HTerm α)) : (orderTerms ts).Perm ts := by
  induction ts with
  | nil => exact List.Perm.refl _
  | cons t ts ih => exact (insertByArity_perm t _).trans (List.Perm.cons t ih)

/-- decreasing arity. -/
def ArityGE (a b : HTerm α) : Prop := b.qs.length ≤ a.qs.length

theorem insertByArity_sorted (t : HTerm α) (l : List (HTerm α)) (h : l.Pairwise ArityGE) :
    (insertByArity t l).Pairwise ArityGE := by
  induction l with
  | nil => exact List.pairwise_singleton _ _
  | cons u us ih =>
    unfold insertByArity
    have hu : ∀ {b}, b ∈ us → ArityGE u b := fun hb => List.rel_of_pairwise_cons h hb
    have hus := List.Pairwise.of_cons h
    split
    · rename_i hle
      refine List.Pairwise.cons ?_ h
      intro b hb
      rcases List.mem_cons.mp hb with rfl | hb
      · exact hle
      · exact Nat.le_trans (hu hb) hle
    · rename_i hnle
      refine List.Pairwise.cons ?_ (ih hus)
      intro b hb
      rcases List.mem_cons.mp ((insertByArity_perm t us).mem_iff.mp hb) with rfl | hb
      · exact Nat.le_of_lt (Nat.lt_of_not_le hnle)
      · exact hu hb

theorem orderTerms_sorted (ts : List (HTerm α)) : (orderTerms ts).Pairwise ArityGE := by
  induction ts with
  | nil => exact List.Pairwise.nil
  | cons t ts ih => exact insertByArity_sorted t _ ih

/-! ### groups -/

theorem mem_unionL (b a : List Nat) (q : Nat) : q ∈ unionL b a ↔ q ∈ b ∨ q ∈ a := by
  unfold unionL
  induction a generalizing b with
  | nil => simp
  | cons r a ih =>
    rw [List.foldl_cons, ih]
    by_cases h : b.contains r = true
    · rw [if_pos h]
      have hr : r ∈ b := by simpa using h
      constructor
      · rintro (hq | hq)
        · exact Or.inl hq
        · exact Or.inr (List.mem_cons_of_mem _ hq)
      · rintro (hq | hq)
        · exact Or.inl hq
        · rcases List.mem_cons.mp hq with rfl | hq
          · exact Or.inl hr
          · exact Or.inr hq
    · rw [if_neg h]
      simp only [List.mem_append, List.mem_cons]
      tauto

theorem subsetB_iff (a b : List Nat) : subsetB a b = true ↔ ∀ q ∈ a, q ∈ b := by
  unfold subsetB
  simp [List.all_eq_true]

/-- the shape of a well-formed group: a parent, then terms on subsets of the parent's qubits;
the group's qubit set is the parent's. -/
def Good (g : TGroup α) : Prop :=
  ∃ p rest, g.members = p :: rest ∧ (∀ t ∈ rest, ∀ q ∈ t.qs, q ∈ p.qs) ∧
    ∀ q, q ∈ g.qubits ↔ q ∈ p.qs

theorem good_new (t : HTerm α) : Good (TGroup.new t) :=
  ⟨t, [], rfl, by simp, fun q => by simp [TGroup.new, mem_unionL]⟩

theorem good_append {g : TGroup α} (hg : Good g) {t : HTerm α} (hc : g.canAppend t = true) :
    Good (g.append t) := by
  obtain ⟨p, rest, hm, hsub, hq⟩ := hg
  have hts : ∀ q ∈ t.qs, q ∈ p.qs := fun q hqt =>
    (hq q).mp ((subsetB_iff _ _).mp hc q hqt)
  refine ⟨p, rest ++ [t], by simp [TGroup.append, hm], ?_, ?_⟩
  · intro u hu q hqu
    rcases List.mem_append.mp hu with hu | hu
    · exact hsub u hu q hqu
    · rw [List.mem_singleton.mp hu] at hqu
      exact hts q hqu
  · intro q
    simp only [TGroup.append, mem_unionL]
    constructor
    · rintro (h | h)
      · exact (hq q).mp h
      · exact hts q h
    · intro h
      exact Or.inl ((hq q).mpr h)

theorem place_good (t : HTerm α) (gs : List (TGroup α)) (h : ∀ g ∈ gs, Good g) :
    ∀ g ∈ place t gs, Good g := by
  induction gs with
  | nil =>
    intro g hg
    rw [place, List.mem_singleton] at hg
    rw [hg]
    exact good_new t
  | cons g0 gs ih =>
    intro g hg
    unfold place at hg
    split at hg
    · rename_i hc
      rcases List.mem_cons.mp hg with rfl | hg
      · exact good_append (h g0 (List.mem_cons_self ..)) hc
      · exact h g (List.mem_cons_of_mem _ hg)
    · rcases List.mem_cons.mp hg with rfl | hg
      · exact h _ (List.mem_cons_self ..)
      · exact ih (fun g' hg' => h g' (List.mem_cons_of_mem _ hg')) g hg

theorem place_members_perm (t : HTerm α) (gs : List (TGroup α)) :
    ((place t gs).flatMap (·.members)).Perm (t :: gs.flatMap (·.members)) := by
  induction gs with
  | nil => simp [place, TGroup.new]
  | cons g gs ih =>
    unfold place
    split
    · simp only [List.flatMap_cons, TGroup.append]
      rw [List.append_assoc]
      refine List.Perm.trans ?_ (List.perm_middle (a := t) (l₁ := g.members)
        (l₂ := gs.flatMap (·.members)))
      simp
    · simp only [List.flatMap_cons]
      refine List.Perm.trans (List.Perm.append_left g.members ih) ?_
      exact List.perm_middle

theorem foldl_place_good (l : List (HTerm α)) (G : List (TGroup α)) (h : ∀ g ∈ G, Good g) :
    ∀ g ∈ l.foldl (fun gs t => place t gs) G, Good g := by
  induction l generalizing G with
  | nil => exact h
  | cons t l ih => exact ih _ (place_good t G h)

theorem foldl_place_perm (l : List (HTerm α)) (G : List (TGroup α)) :
    ((l.foldl (fun gs t => place t gs) G).flatMap (·.members)).Perm
      (l ++ G.flatMap (·.members)) := by
  induction l generalizing G with
  | nil => exact List.Perm.refl _
  | cons t l ih =>
    rw [List.foldl_cons]
    refine (ih _).trans ?_
    refine (List.Perm.append_left l (place_members_perm t G)).trans ?_
    exact List.perm_middle

theorem fromTerms_good (ts : List (HTerm α)) : ∀ g ∈ fromTerms ts, Good g :=
  foldl_place_good _ [] (by simp)

theorem fromTerms_members_perm (ts : List (HTerm α)) :
    ((fromTerms ts).flatMap (·.members)).Perm ts := by
  have h := foldl_place_perm (orderTerms ts) ([] : List (TGroup α))
  simp only [List.flatMap_nil, List.append_nil] at h
  exact h.trans (orderTerms_perm ts)

/-! ### merging -/

section ring
variable [CommSemiring α]

theorem applyGate_mat_add (A B : Nat → Nat → α) (ts : List Nat) (ψ : Lab → α) (x : Lab) :
    applyGate { mat := fun i j => A i j + B i j, targets := ts, controls := [] } ψ x
      = applyGate { mat := A, targets := ts, controls := [] } ψ x
        + applyGate { mat := B, targets := ts, controls := [] } ψ x := by
  unfold applyGate
  simp only [Lab.allOne, List.all_nil, if_true, add_mul]
  rw [sumOver_add]

theorem applyGate_mat_smul (c : α) (A : Nat → Nat → α) (ts : List Nat) (ψ : Lab → α) (x : Lab) :
    applyGate { mat := fun i j => c * A i j, targets := ts, controls := [] } ψ x
      = c * applyGate { mat := A, targets := ts, controls := [] } ψ x := by
  unfold applyGate
  simp only [Lab.allOne, List.all_nil, if_true, mul_assoc]
  rw [sumOver_mul_left]

theorem applyGate_scale (c : α) (t : HTerm α) (ψ : Lab → α) (x : Lab) :
    applyGate (t.scale c).gate ψ x = c * applyGate t.gate ψ x :=
  applyGate_mat_smul c t.mat t.qs ψ x

/-- **merge = sum.**  For a child on a subset of the parent's (duplicate-free, arbitrarily
ordered) qubits, the merged term acts as parent + child. -/
theorem applyGate_merge (p t : HTerm α) (hp : p.qs.Nodup) (ht : t.qs.Nodup)
    (hsub : ∀ q ∈ t.qs, q ∈ p.qs) (ψ : Lab → α) (x : Lab) :
    applyGate (p.merge t).gate ψ x = applyGate p.gate ψ x + applyGate t.gate ψ x := by
  have h1 := applyGate_mat_add p.mat (embedEntry p.qs t.gate) p.qs ψ x
  have h2 := applyGate_embed p.qs hp t.gate ht List.nodup_nil (by simp [HTerm.gate])
    (by simpa [HTerm.gate] using hsub) ψ
  show applyGate { mat := fun i j => p.mat i j + embedEntry p.qs t.gate i j,
                   targets := p.qs, controls := [] } ψ x = _
  rw [h1, h2]
  rfl

theorem merge_qs (p t : HTerm α) : (p.merge t).qs = p.qs := rfl
theorem scale_qs (c : α) (t : HTerm α) : (t.scale c).qs = t.qs := rfl

theorem foldl_merge_qs (c : Nat → α) (rest : List (HTerm α)) (m0 : HTerm α) :
    (rest.foldl (fun m t => m.merge (t.scale (c t.ham))) m0).qs = m0.qs := by
  induction rest generalizing m0 with
  | nil => rfl
  | cons t rest ih => rw [List.foldl_cons, ih]; rfl

theorem applyGate_foldl_merge (c : Nat → α) (rest : List (HTerm α)) (m0 : HTerm α)
    (h0 : m0.qs.Nodup) (hr : ∀ t ∈ rest, t.qs.Nodup ∧ ∀ q ∈ t.qs, q ∈ m0.qs)
    (ψ : Lab → α) (x : Lab) :
    applyGate (rest.foldl (fun m t => m.merge (t.scale (c t.ham))) m0).gate ψ x
      = applyGate m0.gate ψ x + (rest.map fun t => c t.ham * applyGate t.gate ψ x).sum := by
  induction rest generalizing m0 with
  | nil => simp
  | cons t rest ih =>
    obtain ⟨htn, hts⟩ := hr t (List.mem_cons_self ..)
    rw [List.foldl_cons, ih (m0.merge (t.scale (c t.ham))) h0
      (fun u hu => hr u (List.mem_cons_of_mem _ hu)),
      applyGate_merge m0 (t.scale (c t.ham)) h0 htn hts, applyGate_scale,
      List.map_cons, List.sum_cons, add_assoc]

/-- **`to_term(coefficients)` = weighted sum of the members**, for every well-formed group
with duplicate-free qubit lists. -/
theorem applyGate_toTerm (c : Nat → α) (g : TGroup α) (hg : Good g)
    (hn : ∀ t ∈ g.members, t.qs.Nodup) (ψ : Lab → α) (x : Lab) :
    applyGate (g.toTerm c).gate ψ x
      = (g.members.map fun t => c t.ham * applyGate t.gate ψ x).sum := by
  obtain ⟨p, rest, hm, hsub, _⟩ := hg
  unfold TGroup.toTerm
  rw [hm]
  rw [hm] at hn
  simp only []
  rw [applyGate_foldl_merge c rest (p.scale (c p.ham)) (hn p (List.mem_cons_self ..))
    (fun t ht => ⟨hn t (List.mem_cons_of_mem _ ht), hsub t ht⟩), applyGate_scale,
    List.map_cons, List.sum_cons]

theorem toTerm_qs (c : Nat → α) (g : TGroup α) {p : HTerm α} {rest : List (HTerm α)}
    (hm : g.members = p :: rest) : (g.toTerm c).qs = p.qs := by
  unfold TGroup.toTerm
  rw [hm]
  simp only []
  rw [foldl_merge_qs]
  rfl

theorem sum_map_flatMap {β γ : Type} (l : List β) (f : β → List γ) (g : γ → α) :
    ((l.flatMap f).map g).sum = (l.map fun a => ((f a).map g).sum).sum := by
  induction l with
  | nil => simp
  | cons a l ih => simp [List.flatMap_cons, List.map_append, List.sum_append, ih]

/-! ### the Trotter queue -/

theorem trotterGates_reverse (E : α → HTerm α → Nat → Nat → α) (c : Nat → α) (a : α)
    (gs : List (TGroup α)) : (trotterGates E c a gs).reverse = trotterGates E c a gs := by
  unfold trotterGates
  rw [← List.map_reverse, List.reverse_append, List.reverse_reverse]

end ring

/-- **time reversal**: the queue for `-a` undoes the queue for `a`, for every list of groups,
as soon as every single exponential is undone by the exponential of the opposite step. -/
theorem runCircuit_trotter_inverse [CommRing α] (E : α → HTerm α → Nat → Nat → α) (c : Nat → α)
    (a : α) (gs : List (TGroup α))
    (hE : ∀ g ∈ gs,
      MGate.IsLeftInv
        { mat := E (-a) (g.toTerm c), targets := (g.toTerm c).qs, controls := [] }
        ({ mat := E a (g.toTerm c), targets := (g.toTerm c).qs, controls := [] } : MGate α))
    (ψ : Lab → α) :
    runCircuit (trotterGates E c (-a) gs) (runCircuit (trotterGates E c a gs) ψ) = ψ := by
  rw [← runCircuit_append, ← trotterGates_reverse E c (-a) gs]
  apply runCircuit_inverse
  unfold trotterGates
  rw [List.forall₂_map_left_iff, List.forall₂_map_right_iff, List.forall₂_same]
  intro g hg
  apply hE
  rcases List.mem_append.mp hg with h | h
  · exact h
  · exact List.mem_reverse.mp h

/-! ### the loop of `StateEvolution.execute` -/

section loop
variable {S : Type}

theorem evolveLoop_fst_nocb (step norm : S → S) (n : Nat) (s : S) (hist : List S) :
    (evolveLoop step norm false n s hist).1 = norm (step^[n] s) := by
  induction n generalizing s hist with
  | zero => rfl
  | succ n ih =>
    unfold evolveLoop
    simp only [Bool.false_eq_true, if_false]
    rw [ih, Function.iterate_succ_apply]

theorem evolveLoop_snd_nocb (step norm : S → S) (n : Nat) (s : S) (hist : List S) :
    (evolveLoop step norm false n s hist).2 = hist := by
  induction n generalizing s hist with
  | zero => rfl
  | succ n ih =>
    unfold evolveLoop
    simp only [Bool.false_eq_true, if_false]
    rw [ih]

theorem evolveLoop_fst_cb (step norm : S → S) (n : Nat) (s : S) (hist : List S) :
    (evolveLoop step norm true n s hist).1 = norm ((fun v => norm (step v))^[n] s) := by
  induction n generalizing s hist with
  | zero => rfl
  | succ n ih =>
    unfold evolveLoop
    simp only [if_true]
    rw [ih, Function.iterate_succ_apply]

theorem evolveLoop_snd_cb_length (step norm : S → S) (n : Nat) (s : S) (hist : List S) :
    (evolveLoop step norm true n s hist).2.length = hist.length + n := by
  induction n generalizing s hist with
  | zero => rfl
  | succ n ih =>
    unfold evolveLoop
    simp only [if_true]
    rw [ih, List.length_cons]
    omega

/-- every state recorded after the first is a normalised one. -/
theorem evolveLoop_snd_cb_mem (step norm : S → S) (n : Nat) (s : S) (hist : List S) :
    ∀ v ∈ (evolveLoop step norm true n s hist).2, v ∈ hist ∨ ∃ w, v = norm w := by
  induction n generalizing s hist with
  | zero => intro v hv; exact Or.inl hv
  | succ n ih =>
    intro v hv
    unfold evolveLoop at hv
    simp only [if_true] at hv
    rcases ih _ _ v hv with h | h
    · rcases List.mem_cons.mp h with rfl | h
      · exact Or.inr ⟨_, rfl⟩
      · exact Or.inl h
    · exact Or.inr h

/-- for the solvers that do not normalise, callbacks do not change the result. -/
theorem execute_id_fst (step : S → S) (n : Nat) (s : S) (cb : Bool) :
    (execute step id cb n s).1 = step^[n] s := by
  cases cb
  · exact evolveLoop_fst_nocb step id n s [s]
  · exact evolveLoop_fst_cb step id n s [s]

end loop

end Evo
end QV
