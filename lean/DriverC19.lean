/-
  Line-protocol driver of the noise model (QV/Model/Noise.lean).
  One case per line (whitespace separated integers after the command word):

    APPLY ng GATE*ng nr RULE*nr        → NoiseModel.apply(circuit).queue
    PAULI ng GATE*ng nm q_1 … q_nm     → Circuit.with_pauli_noise(map).queue
                                          (q_i: qubits with a positive-strength entry)
    QDM   n ni QITEM*ni psi            → density-matrix execution from |psi><psi|
    QTAPE n ni QITEM*ni psi nt i_1…i_nt → probability and final state of one trajectory
    QMEAN n ni QITEM*ni psi            → probability-weighted sum of all trajectory projectors
    TAPES ni QITEM*ni                  → all tapes

    GATE  = cls nq q_1 … q_nq isM isChan
    RULE  = key kind na a_1…a_na nf f_1…f_nf nc COND*nc
            key: -1 = None, else class code; kind: 0 kraus(a_1) 1 unitary(a_1) 2 pauli 3 depol
            4 thermal 5 ampDamp 6 phaseDamp 7 readout 8 reset 9 custom(a_1…a_na);
            nf: -1 = no qubit filter
    COND  = code na a_1…a_na ; 0 len(qubits)==a_1  1 qubits==(a…)  2 False
            3 qubits[0] even  4 sum(qubits)>=a_1  5 a_1 in qubits
    QITEM = 0 MGATE | 1 nops (pnum pexp MGATE)*nops   (probability pnum / 2^pexp)
    MGATE = k nc t_1…t_k c_1…c_nc (re im)*(4^k)
    psi   = (re im)*(2^n)

  Answers: items `G<tag>` / `C<rule>:<kind>:<q,q,…>` for APPLY and PAULI; dyadic numbers
  `re im e` (value (re + i im)/2^e, reduced) for the others.
  Run with `lake env lean --run DriverC19.lean`.
-/
import QV.Core.GI
import QV.Model.Table
import QV.Model.Noise
open QV QV.Noise

/-- dyadic Gaussian rationals `num / 2^e` — exact scalars for probabilities k/2^m. -/
structure DG where
  num : GI
  e : Nat
  deriving Inhabited

namespace DG
def scale (a : GI) (k : Nat) : GI := ⟨a.re * (2 ^ k : Nat), a.im * (2 ^ k : Nat)⟩
def align (a b : DG) : GI × GI × Nat :=
  let m := max a.e b.e
  (scale a.num (m - a.e), scale b.num (m - b.e), m)
partial def reduce (a : DG) : DG :=
  if a.num.re == 0 && a.num.im == 0 then ⟨0, 0⟩
  else if a.e > 0 && a.num.re % 2 == 0 && a.num.im % 2 == 0 then
    reduce ⟨⟨a.num.re / 2, a.num.im / 2⟩, a.e - 1⟩
  else a
instance : Zero DG := ⟨⟨0, 0⟩⟩
instance : One DG := ⟨⟨1, 0⟩⟩
instance : Add DG := ⟨fun a b => let (x, y, m) := align a b; reduce ⟨x + y, m⟩⟩
instance : Sub DG := ⟨fun a b => let (x, y, m) := align a b; reduce ⟨x - y, m⟩⟩
instance : Neg DG := ⟨fun a => ⟨-a.num, a.e⟩⟩
instance : Mul DG := ⟨fun a b => reduce ⟨a.num * b.num, a.e + b.e⟩⟩
def conj (a : DG) : DG := ⟨a.num.conj, a.e⟩
def toStr (a : DG) : String := let r := reduce a; s!"{r.num.re} {r.num.im} {r.e}"
end DG

structure Rd where
  toks : Array String
  pos : Nat := 0

abbrev P := StateM Rd

def nextTok : P String := do
  let s ← get
  set { s with pos := s.pos + 1 }
  pure (s.toks.getD s.pos "")

def nextInt : P Int := do
  let t ← nextTok
  pure (t.toInt?.getD 0)

def nextNat : P Nat := do
  let t ← nextInt
  pure t.toNat

def nextNats (k : Nat) : P (List Nat) := do
  let mut out := []
  for _ in [0:k] do
    out := (← nextNat) :: out
  pure out.reverse

def nextNGate (tag : Nat) : P NGate := do
  let c ← nextNat
  let nq ← nextNat
  let qs ← nextNats nq
  let m ← nextNat
  let ch ← nextNat
  pure { tag := tag, cls := c, qubits := qs, isM := m != 0, isChan := ch != 0 }

def nextNGates : P (List NGate) := do
  let ng ← nextNat
  let mut out := []
  for i in [0:ng] do
    out := (← nextNGate i) :: out
  pure out.reverse

def mkCond (code : Nat) (args : List Nat) : NGate → Bool :=
  match code with
  | 0 => fun g => g.qubits.length == args.headD 0
  | 1 => fun g => g.qubits == args
  | 2 => fun _ => false
  | 3 => fun g => g.qubits.headD 0 % 2 == 0
  | 4 => fun g => g.qubits.foldl (· + ·) 0 ≥ args.headD 0
  | 5 => fun g => g.qubits.contains (args.headD 0)
  | _ => fun _ => true

def mkKind (code : Nat) (args : List Nat) : ErrKind :=
  match code with
  | 0 => .kraus (args.headD 0)
  | 1 => .unitary (args.headD 0)
  | 2 => .pauli
  | 3 => .depol
  | 4 => .thermal
  | 5 => .ampDamp
  | 6 => .phaseDamp
  | 7 => .readout
  | 8 => .reset
  | _ => .custom args

def kindCode : ErrKind → Nat
  | .kraus _ => 0 | .unitary _ => 1 | .pauli => 2 | .depol => 3 | .thermal => 4
  | .ampDamp => 5 | .phaseDamp => 6 | .readout => 7 | .reset => 8 | .custom _ => 9

def nextRule : P Rule := do
  let key ← nextInt
  let kind ← nextNat
  let na ← nextNat
  let args ← nextNats na
  let nf ← nextInt
  let filt ← if nf < 0 then pure none else (do let l ← nextNats nf.toNat; pure (some l))
  let nc ← nextNat
  let mut conds := []
  for _ in [0:nc] do
    let code ← nextNat
    let n ← nextNat
    let a ← nextNats n
    conds := mkCond code a :: conds
  pure { key := if key < 0 then none else some key.toNat, kind := mkKind kind args,
         qubits := filt, conds := conds.reverse }

def showItem : Item → String
  | .gate g => s!"G{g.tag}"
  | .chan r k qs => s!"C{r}:{kindCode k}:{",".intercalate (qs.map toString)}"

def showItems (l : List Item) : String := " ".intercalate (l.map showItem)

def nextDG : P DG := do
  let a ← nextInt
  let b ← nextInt
  pure ⟨⟨a, b⟩, 0⟩

def nextDGs (k : Nat) : P (Array DG) := do
  let mut out := Array.mkEmpty k
  for _ in [0:k] do
    out := out.push (← nextDG)
  pure out

def nextMGate : P (MGate DG) := do
  let k ← nextNat
  let nc ← nextNat
  let ts ← nextNats k
  let cs ← nextNats nc
  let d := 2 ^ k
  let m ← nextDGs (d * d)
  pure { mat := fun i j => m.getD (i * d + j) 0, targets := ts, controls := cs }

def nextQItem : P (QItem DG) := do
  let c ← nextNat
  if c == 0 then
    pure (.gate (← nextMGate))
  else
    let nops ← nextNat
    let mut ops := []
    for _ in [0:nops] do
      let pn ← nextInt
      let pe ← nextNat
      let g ← nextMGate
      ops := ((⟨⟨pn, 0⟩, pe⟩ : DG), g) :: ops
    pure (.mix ops.reverse)

def nextQItems : P (List (QItem DG)) := do
  let ni ← nextNat
  let mut out := []
  for _ in [0:ni] do
    out := (← nextQItem) :: out
  pure out.reverse

def showDGs (a : Array DG) : String := " ".intercalate (a.toList.map DG.toStr)

/-- materialise after every step so closures stay shallow. -/
def stepSV (n : Nat) (g : MGate DG) (ψ : Array DG) : Array DG :=
  tableOf n (applyGate g (ofTable n ψ))

def stepDM (n : Nat) (g : MGate DG) (ρ : Array DG) : Array DG :=
  let r1 := tableOf2 n (applyRight DG.conj g (ofTable2 n ρ))
  tableOf2 n (applyLeft g (ofTable2 n r1))

/-- `runQueueDM` with materialisation between the items (each item through the model's own
`runQueueDM` on a one-item queue). -/
def runDMq (n : Nat) (q : List (QItem DG)) (ρ : Array DG) : Array DG :=
  q.foldl (fun s it => tableOf2 n (runQueueDM DG.conj [it] (ofTable2 n s))) ρ

/-- `runTape` with materialisation: one item at a time through the model's `runTape`. -/
def runTapeq (n : Nat) : List (QItem DG) → List Nat → Array DG → Array DG
  | [], _, ψ => ψ
  | .gate g :: r, τ, ψ => runTapeq n r τ (tableOf n (runTape [QItem.gate g] [] (ofTable n ψ)))
  | .mix ops :: r, i :: τ, ψ => runTapeq n r τ (tableOf n (runTape [QItem.mix ops] [i] (ofTable n ψ)))
  | .mix _ :: r, [], ψ => runTapeq n r [] ψ

def handle : P String := do
  let cmd ← nextTok
  match cmd with
  | "APPLY" =>
    let gs ← nextNGates
    let nr ← nextNat
    let mut rules := []
    for _ in [0:nr] do
      rules := (← nextRule) :: rules
    pure (showItems (attachNoise rules.reverse gs))
  | "PAULI" =>
    let gs ← nextNGates
    let nm ← nextNat
    let qs ← nextNats nm
    pure (showItems (withPauliNoise (fun q => qs.contains q) gs))
  | "QDM" =>
    let n ← nextNat
    let q ← nextQItems
    let ψ ← nextDGs (2 ^ n)
    let d := 2 ^ n
    let ρ := Array.ofFn (n := d * d) fun i => ψ.getD (i.val / d) 0 * DG.conj (ψ.getD (i.val % d) 0)
    pure (showDGs (runDMq n q ρ))
  | "QTAPE" =>
    let n ← nextNat
    let q ← nextQItems
    let ψ ← nextDGs (2 ^ n)
    let nt ← nextNat
    let τ ← nextNats nt
    pure (DG.toStr (tapeProb q τ) ++ " | " ++ showDGs (runTapeq n q τ ψ))
  | "QMEAN" =>
    let n ← nextNat
    let q ← nextQItems
    let ψ ← nextDGs (2 ^ n)
    let d := 2 ^ n
    let acc := (tapes q).foldl (fun acc τ =>
      let φ := runTapeq n q τ ψ
      let w := tapeProb q τ
      Array.ofFn (n := d * d) fun i =>
        acc.getD i.val 0 + w * (φ.getD (i.val / d) 0 * DG.conj (φ.getD (i.val % d) 0)))
      (Array.replicate (d * d) (0 : DG))
    pure (showDGs acc)
  | "TAPES" =>
    let q ← nextQItems
    pure (" ".intercalate ((tapes q).map fun τ => ",".intercalate (τ.map toString)))
  | "" => pure ""
  | c => pure s!"bad-op {c}"

partial def loop (h : IO.FS.Stream) : IO Unit := do
  let line ← h.getLine
  if line.isEmpty then return ()
  let toks := (line.splitOn " ").filter (· ≠ "") |>.map (fun s => s.trimAscii.toString) |>.filter (· ≠ "")
  let (out, _) := handle.run { toks := toks.toArray }
  IO.println out
  loop h

def main : IO Unit := do
  loop (← IO.getStdin)
