/-
  Line-protocol driver for property C06: runs the parameter-bookkeeping model
  (`QV.Model.Params`) on one history per input line.  Import-free of Mathlib.
  Run with `lake env lean --run DriverC06.lean`.

  line  :=  "RUN" ng gate*ng nops op*nops
  gate  :=  kind isParam trainable width nvals v*nvals
  op    :=  "SL" n (len v*len)*n          set_parameters(list / tuple / array)
         |  "SD" n (key len v*len)*n      set_parameters(dict), key = queue position
         |  "GL" incl | "GD" incl | "GF" incl      get_parameters(format, include_not_trainable)
         |  "INV"                          c = c.invert()
         |  "CP"                           c = c.copy(deep=True)
  answer :=  results of the ops separated by " | ", then " || " and the final
             get_parameters("dict", True) ++ " # " ++ get_parameters("dict", False)
  `kind % 8` selects how `_dagger` transforms the flat parameter values:
     0 negate all · 1 unchanged · 2 (θ,φ,λ) ↦ (−θ,−λ,−φ) · 3 negate the first ·
     4 transpose a square matrix · 5 transpose the first four, negate the fifth
-/
import QV.Model.Params
open QV.Params

structure Rd where
  toks : Array String
  pos : Nat := 0

abbrev P := StateM Rd

def nextTok : P String := do
  let s ← get
  set { s with pos := s.pos + 1 }
  pure (s.toks.getD s.pos "")

def nextInt : P Int := do
  let t ← nextTok
  pure (t.toInt?.getD 0)

def nextNat : P Nat := do
  let t ← nextInt
  pure t.toNat

def nextInts (k : Nat) : P (List Int) := do
  let mut out := []
  for _ in [0:k] do
    out := (← nextInt) :: out
  pure out.reverse

def isqrt (n : Nat) : Nat := Id.run do
  let mut r := 0
  for i in [0:n + 1] do
    if i * i ≤ n then r := i
  pure r

def transposeFlat (v : List Int) : List Int :=
  let d := isqrt v.length
  (List.range d).flatMap fun i => (List.range d).map fun j => v.getD (j * d + i) 0

def dagRule (g : PG Int) : List Int :=
  match g.kind % 8 with
  | 0 => g.vals.map (fun x => -x)
  | 1 => g.vals
  | 2 => match g.vals with
    | [a, b, c] => [-a, -c, -b]
    | v => v
  | 3 => match g.vals with
    | a :: rest => (-a) :: rest
    | [] => []
  | 4 => transposeFlat g.vals
  | 5 => match g.vals with
    | [a, b, c, d, e] => [a, c, b, d, -e]
    | v => v
  | _ => g.vals

def showVals (v : List Int) : String := " ".intercalate (v.map toString)
def showList (vs : List (List Int)) : String := ";".intercalate (vs.map showVals)
def showDict (kvs : List (Nat × List Int)) : String :=
  ";".intercalate (kvs.map fun kv => s!"{kv.1}:{showVals kv.2}")

def nextGateP : P (PG Int) := do
  let kind ← nextNat
  let ip ← nextNat
  let tr ← nextNat
  let w ← nextNat
  let nv ← nextNat
  let vs ← nextInts nv
  pure { kind := kind, isParam := ip != 0, trainable := tr != 0, width := w, vals := vs }

def handle : P String := do
  let cmd ← nextTok
  match cmd with
  | "RUN" =>
    let ng ← nextNat
    let mut gs : List (PG Int) := []
    for _ in [0:ng] do
      gs := (← nextGateP) :: gs
    let mut c : Circ Int := build gs.reverse
    let nops ← nextNat
    let mut outs : List String := []
    for _ in [0:nops] do
      let op ← nextTok
      match op with
      | "SL" =>
        let n ← nextNat
        let mut xs : List (List Int) := []
        for _ in [0:n] do
          let l ← nextNat
          xs := (← nextInts l) :: xs
        match setParametersList c xs.reverse with
        | .ok c' => c := c'; outs := "ok" :: outs
        | .error .value => outs := "errV" :: outs
        | .error .key => outs := "errK" :: outs
      | "SD" =>
        let n ← nextNat
        let mut kvs : List (Nat × List Int) := []
        for _ in [0:n] do
          let k ← nextNat
          let l ← nextNat
          kvs := (k, ← nextInts l) :: kvs
        match setParametersDict c kvs.reverse with
        | .ok c' => c := c'; outs := "ok" :: outs
        | .error .value => outs := "errV" :: outs
        | .error .key => outs := "errK" :: outs
      | "GL" => let i ← nextNat; outs := showList (getList c (i != 0)) :: outs
      | "GD" => let i ← nextNat; outs := showDict (getDict c (i != 0)) :: outs
      | "GF" => let i ← nextNat; outs := showVals (getFlat c (i != 0)) :: outs
      | "INV" => c := c.invert dagRule; outs := "inv" :: outs
      | "CP" => c := c.copy; outs := "cp" :: outs
      | o => outs := s!"bad-op {o}" :: outs
    pure (" | ".intercalate outs.reverse ++ " || " ++ showDict (getDict c true) ++ " # " ++ showDict (getDict c false))
  | "" => pure ""
  | c => pure s!"bad-cmd {c}"

partial def loop (h : IO.FS.Stream) : IO Unit := do
  let line ← h.getLine
  if line.isEmpty then return ()
  let toks := (line.splitOn " ").filter (· ≠ "") |>.map (fun s => s.trimAscii.toString) |>.filter (· ≠ "")
  let (out, _) := handle.run { toks := toks.toArray }
  IO.println out
  loop h

def main : IO Unit := do
  loop (← IO.getStdin)
